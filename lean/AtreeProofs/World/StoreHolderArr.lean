import AtreeProofs.World.HeapArrR
import AtreeProofs.Props.C09
import AtreeProofs.Array.Example
/-
  "`Arr.set` stores the holder slab" (arrays): a successful `Arr.set T a i v c` stores the data slab
  of the NEW tree that holds the written element `v` — also when `v` equals the element it
  overwrites.  (`ArrayDataSlab.Set` always calls `storeSlab`; the C09 accounts `set_acctR`,
  `arr_set_acctR` only speak about slabs whose CONTENT changed.)

  * `Holds S v E`            — some data slab of the slab list `S` contains `v` and its last action in
                               the log `E` is a store;
  * `set_stores_holder`      — tree level, by induction on the depth, along `set_acctR`;
  * `arr_set_stores_holder`  — top level (`Arr.set` = tree set + `splitRoot` / `promoteIfSingleChild`);
  * `leaf_positions`, `leaf_elems_sub` — distinct data slabs of a tree hold distinct positions of the
                               flattened element list.

  The repair steps (`splitChildSlab`, `rebalanceChildren`, `mergeChildren`, `splitRoot`, promote) are
  treated uniformly in the depth: when the repaired child is a LEAF, the element moves into one of
  the resulting leaves, all of which are stored by the step (`*_elems`); when it is an index slab,
  the holder stays a strict descendant (`*_struct`) and the step only touches the root IDs of the
  repaired siblings, the parent and fresh IDs, which differ from the holder's ID (`untouched`).
-/
namespace Atree
open Gen ATree MetaSlab
variable {T d : Nat}

/-! ### the holder predicate -/

/-- the elements of a stored slab when it is a data slab -/
def dataElems : ASlab → List Elem
  | .data s => s.elems
  | .index _ _ _ _ => []

@[simp] theorem dataElems_data (s : DataSlab) : dataElems (.data s) = s.elems := rfl
@[simp] theorem dataElems_index (h : Hdr) (a : List Hdr) (b : List Nat) (r : Bool) :
    dataElems (.index h a b r) = [] := rfl

/-- some data slab of `S` contains `v`, and the last action of the log `E` on it is a store -/
def Holds (S : List (SlabID × ASlab)) (v : Elem) (E : List Eff) : Prop :=
  ∃ p ∈ S, v ∈ dataElems p.2 ∧ lastAction E p.1 = some true

theorem Holds.mono {S S' : List (SlabID × ASlab)} {v : Elem} {E : List Eff} (h : Holds S v E)
    (hS : ∀ p ∈ S, p ∈ S') : Holds S' v E := by
  obtain ⟨p, hp, h1, h2⟩ := h
  exact ⟨p, hS p hp, h1, h2⟩

/-- the explicit form -/
theorem Holds.data {S : List (SlabID × ASlab)} {v : Elem} {E : List Eff} (h : Holds S v E) :
    ∃ id s', (id, ASlab.data s') ∈ S ∧ v ∈ s'.elems ∧ lastAction E id = some true := by
  obtain ⟨⟨id, x⟩, hp, h1, h2⟩ := h
  cases x with
  | data s => exact ⟨id, s, hp, h1, h2⟩
  | index _ _ _ _ => simp at h1

theorem Holds.of_data {S : List (SlabID × ASlab)} {v : Elem} {E : List Eff} {id : SlabID} {s' : DataSlab}
    (h : (id, ASlab.data s') ∈ S) (hv : v ∈ s'.elems) (hl : lastAction E id = some true) : Holds S v E :=
  ⟨(id, .data s'), h, hv, hl⟩

/-- later effects that do not mention the holder -/
theorem Holds.append_untouched {S : List (SlabID × ASlab)} {v : Elem} {E1 E2 : List Eff}
    (h : Holds S v E1) (hu : ∀ p ∈ S, v ∈ dataElems p.2 → lastAction E2 p.1 = none) :
    Holds S v (E1 ++ E2) := by
  obtain ⟨p, hp, h1, h2⟩ := h
  exact ⟨p, hp, h1, by rw [lastAction_append_none (hu p hp h1)]; exact h2⟩

/-! ### which IDs a log mentions -/

theorem lastAction_ne_none (E : List Eff) (id : SlabID) (h : lastAction E id ≠ none) :
    Eff.store id ∈ E ∨ Eff.remove id ∈ E := by
  induction E with
  | nil => simp at h
  | cons e E ih =>
    rw [lastAction_cons] at h
    cases hl : lastAction E id with
    | some b =>
      rcases ih (by rw [hl]; simp) with h1 | h1
      · exact Or.inl (List.mem_cons_of_mem _ h1)
      · exact Or.inr (List.mem_cons_of_mem _ h1)
    | none =>
      rw [hl] at h
      cases e with
      | store i =>
        by_cases hi : i = id
        · subst hi; simp
        · simp [actStep, hi] at h
      | remove i =>
        by_cases hi : i = id
        · subst hi; simp
        · simp [actStep, hi] at h
      | alloc a i => simp [actStep] at h

theorem lastAction_none_of_not_mem (E : List Eff) (id : SlabID) (h1 : Eff.store id ∉ E)
    (h2 : Eff.remove id ∉ E) : lastAction E id = none := by
  cases hl : lastAction E id with
  | none => rfl
  | some b =>
    rcases lastAction_ne_none E id (by rw [hl]; simp) with h | h
    · exact absurd h h1
    · exact absurd h h2

/-- a log of stores and allocations stores what it mentions -/
theorem lastAction_store_mem (E : List Eff) (hno : ∀ e ∈ E, ∀ i, e ≠ Eff.remove i) (id : SlabID)
    (h : Eff.store id ∈ E) : lastAction E id = some true :=
  ((lastAction_no_remove E hno id).1).2 h

/-! ### the root entries of the siblings and the strict descendants -/

theorem mem_subIds_of_mem_sub {X : List (ATree d)} {p : SlabID × ASlab} (h : p ∈ X.flatMap (sub d)) :
    p.1 ∈ X.flatMap (subIds d) := by
  rw [← keys_flatMap (sub d) (subIds d) X (fun x _ => keys_sub d x)]
  exact mem_keys_of_mem h

/-- the strict descendants of the siblings `X` below `rid` are not the parent, not a root of `X`,
    and not fresh -/
theorem sub_disjoint {c : Nat} {rid : SlabID} {P X Q : List (ATree d)}
    (hnd : (rid :: (P ++ X ++ Q).flatMap (slabIds d)).Nodup)
    (hle : ∀ id ∈ rid :: (P ++ X ++ Q).flatMap (slabIds d), id.idx ≤ c)
    {id : SlabID} (hid : id ∈ X.flatMap (subIds d)) :
    id ≠ rid ∧ id ∉ X.map (fun t => (hdr d t).id) ∧ id.idx ≤ c := by
  have hperm := perm_roots_subs X
  have hX : id ∈ X.flatMap (slabIds d) := hperm.mem_iff.2 (List.mem_append.2 (Or.inr hid))
  have hall : id ∈ (P ++ X ++ Q).flatMap (slabIds d) := by
    simp only [List.flatMap_append, List.mem_append]
    exact Or.inl (Or.inr hX)
  obtain ⟨hn1, hn2⟩ := List.nodup_cons.1 hnd
  have hndX : (X.flatMap (slabIds d)).Nodup := by
    simp only [List.flatMap_append] at hn2
    exact (List.nodup_append.1 (List.nodup_append.1 hn2).1).2.1
  have hnd' := hperm.nodup_iff.1 hndX
  refine ⟨fun h => hn1 (h ▸ hall), ?_, hle id (List.mem_cons_of_mem _ hall)⟩
  intro hin
  exact (List.nodup_append.1 hnd').2.2 id hin id hid rfl

/-- a repair step that only mentions the parent, roots of the repaired siblings and fresh IDs does
    not touch the strict descendants of the siblings -/
theorem untouched {c : Nat} {rid : SlabID} {P X Q : List (ATree d)} {E2 : List Eff}
    (hnd : (rid :: (P ++ X ++ Q).flatMap (slabIds d)).Nodup)
    (hle : ∀ id ∈ rid :: (P ++ X ++ Q).flatMap (slabIds d), id.idx ≤ c)
    (htouch : ∀ id, (Eff.store id ∈ E2 ∨ Eff.remove id ∈ E2) →
      id = rid ∨ id ∈ X.map (fun t => (hdr d t).id) ∨ c < id.idx) :
    ∀ id ∈ X.flatMap (subIds d), lastAction E2 id = none := by
  intro id hid
  obtain ⟨h1, h2, h3⟩ := sub_disjoint hnd hle hid
  cases hl : lastAction E2 id with
  | none => rfl
  | some b =>
    rcases htouch id (lastAction_ne_none E2 id (by rw [hl]; simp)) with h | h | h
    · exact absurd h h1
    · exact absurd h h2
    · omega

/-- Replacing the siblings `X` by `X'`: the holder follows, provided the strict descendants stay,
    the elements of the roots of `X` are found in roots of `X'`, all roots of `X'` are stored and
    the strict descendants are not touched. -/
theorem holds_local {X X' : List (ATree d)} {E1 E2 : List Eff} {v : Elem}
    (hsub : ∀ p, p ∈ X.flatMap (sub d) → p ∈ X'.flatMap (sub d))
    (hroot : ∀ p ∈ roots d X, v ∈ dataElems p.2 → ∃ p' ∈ roots d X', v ∈ dataElems p'.2)
    (hst : ∀ p ∈ roots d X', lastAction E2 p.1 = some true)
    (hun : ∀ id ∈ X.flatMap (subIds d), lastAction E2 id = none)
    (h : Holds (X.flatMap (ATree.slabs d)) v E1) :
    Holds (X'.flatMap (ATree.slabs d)) v (E1 ++ E2) := by
  obtain ⟨p, hp, hv, hl⟩ := h
  rcases (mem_flatMap_slabs X p).1 hp with hr | hs
  · obtain ⟨p', hp', hv'⟩ := hroot p hr hv
    exact ⟨p', (mem_flatMap_slabs X' p').2 (Or.inl hp'), hv', lastAction_append_some (hst p' hp')⟩
  · refine ⟨p, (mem_flatMap_slabs X' p).2 (Or.inr (hsub p hs)), hv, ?_⟩
    rw [lastAction_append_none (hun p.1 (mem_subIds_of_mem_sub hs))]
    exact hl

/-! ### where the elements of a leaf go in `split`, `merge`, and the rebalancing moves -/

theorem dataElems_ent_succ (t : ATree (d + 1)) : dataElems (ent (d + 1) t) = [] := by
  refine forall_ofMeta ?_ t; intro m; rfl

theorem split_elems : ∀ (d : Nat) (t : ATree d) (c : Ctx) (l r : ATree d) (c' : Ctx),
    ATree.split d t c = .ok (l, r, c') →
    ∀ v ∈ dataElems (ent d t), v ∈ dataElems (ent d l) ∨ v ∈ dataElems (ent d r)
  | 0, t, c, l, r, c' => by
    refine forall_ofData ?_ t; intro s h
    have h : DataSlab.split s c = .ok (l, r, c') := h
    unfold DataSlab.split at h
    split at h
    · cases h
    · simp only [Except.ok.injEq] at h
      obtain ⟨rfl, rfl, rfl⟩ := h
      intro v hv
      have hv : v ∈ s.elems := hv
      rw [← List.take_append_drop (DataSlab.splitLoop ((s.hdr.size - arrayDataSlabPrefixSize + 1) / 2)
        (s.hdr.size - arrayDataSlabPrefixSize) s.elems 0 0).1 s.elems] at hv
      exact List.mem_append.1 hv
  | d + 1, t, c, l, r, c' => by
    intro _ v hv
    rw [dataElems_ent_succ] at hv
    cases hv

theorem merge_elems : ∀ (d : Nat) (l r : ATree d) (v : Elem),
    v ∈ dataElems (ent d l) ∨ v ∈ dataElems (ent d r) → v ∈ dataElems (ent d (ATree.merge d l r))
  | 0, l, r, v => by
    intro h
    show v ∈ (DataSlab.merge l r).elems
    exact List.mem_append.2 h
  | d + 1, l, r, v => by
    intro h
    rw [dataElems_ent_succ, dataElems_ent_succ] at h
    rcases h with h | h <;> cases h

theorem lend_elems (T : Nat) : ∀ (d : Nat) (l r : ATree d) (v : Elem),
    v ∈ dataElems (ent d l) ∨ v ∈ dataElems (ent d r) →
    v ∈ dataElems (ent d (ATree.lendToRight T d l r).1) ∨ v ∈ dataElems (ent d (ATree.lendToRight T d l r).2)
  | 0, l, r, v => by
    refine forall_ofData ?_ l; intro l
    refine forall_ofData ?_ r; intro r
    intro h
    show v ∈ (DataSlab.lendToRight T l r).1.elems ∨ v ∈ (DataSlab.lendToRight T l r).2.elems
    have h : v ∈ l.elems ∨ v ∈ r.elems := h
    simp only [DataSlab.lendToRight]
    rcases h with h | h
    · rw [← List.take_append_drop (l.elems.length - (l.hdr.count - (DataSlab.lendLoop T (l.hdr.size + r.hdr.size)
        ((l.hdr.size + r.hdr.size + 1) / 2) l.elems.reverse l.hdr.count l.hdr.size).1)) l.elems] at h
      rcases List.mem_append.1 h with h | h
      · exact Or.inl h
      · exact Or.inr (List.mem_append.2 (Or.inl h))
    · exact Or.inr (List.mem_append.2 (Or.inr h))
  | d + 1, l, r, v => by
    intro h
    rw [dataElems_ent_succ, dataElems_ent_succ] at h
    rcases h with h | h <;> cases h

theorem borrow_elems (T : Nat) : ∀ (d : Nat) (l r : ATree d) (v : Elem),
    v ∈ dataElems (ent d l) ∨ v ∈ dataElems (ent d r) →
    v ∈ dataElems (ent d (ATree.borrowFromRight T d l r).1) ∨
      v ∈ dataElems (ent d (ATree.borrowFromRight T d l r).2)
  | 0, l, r, v => by
    refine forall_ofData ?_ l; intro l
    refine forall_ofData ?_ r; intro r
    intro h
    show v ∈ (DataSlab.borrowFromRight T l r).1.elems ∨ v ∈ (DataSlab.borrowFromRight T l r).2.elems
    have h : v ∈ l.elems ∨ v ∈ r.elems := h
    simp only [DataSlab.borrowFromRight]
    rcases h with h | h
    · exact Or.inl (List.mem_append.2 (Or.inl h))
    · rw [← List.take_append_drop ((DataSlab.borrowLoop T (l.hdr.size + r.hdr.size)
        ((l.hdr.size + r.hdr.size + 1) / 2) r.elems l.hdr.count l.hdr.size).1 - l.hdr.count) r.elems] at h
      rcases List.mem_append.1 h with h | h
      · exact Or.inl (List.mem_append.2 (Or.inr h))
      · exact Or.inr h
  | d + 1, l, r, v => by
    intro h
    rw [dataElems_ent_succ, dataElems_ent_succ] at h
    rcases h with h | h <;> cases h

theorem rebalPair_elems (flag : Bool) (l r : ATree d) (v : Elem)
    (h : v ∈ dataElems (ent d l) ∨ v ∈ dataElems (ent d r)) :
    v ∈ dataElems (ent d (rebalPair T d flag l r).1) ∨ v ∈ dataElems (ent d (rebalPair T d flag l r).2) := by
  cases flag
  · exact lend_elems T d l r v h
  · exact borrow_elems T d l r v h

/-! ### the parent's repair steps -/

/-- the root entries of a pair of siblings -/
theorem mem_roots_pair {x y : ATree d} (p : SlabID × ASlab) :
    p ∈ roots d [x, y] ↔ p = ((hdr d x).id, ent d x) ∨ p = ((hdr d y).id, ent d y) := by
  simp [roots]

theorem mem_roots_single {x : ATree d} (p : SlabID × ASlab) :
    p ∈ roots d [x] ↔ p = ((hdr d x).id, ent d x) := by
  simp [roots]

/-- the slabs of the new parent contain the slabs of its children -/
theorem holds_parent {m2 : MetaSlab (ATree d)} {L : List (ATree d)} {v : Elem} {E : List Eff}
    (hch : m2.children = L) (h : Holds (L.flatMap (ATree.slabs d)) v E) :
    Holds (ATree.slabs (d + 1) (ofMeta m2)) v E := by
  refine h.mono ?_
  intro p hp
  rw [slabs_eq, sub_succ, hch]
  exact List.mem_cons_of_mem _ hp

theorem holds_mid {P Q X : List (ATree d)} {v : Elem} {E : List Eff}
    (h : Holds (X.flatMap (ATree.slabs d)) v E) : Holds ((P ++ X ++ Q).flatMap (ATree.slabs d)) v E := by
  refine h.mono ?_
  intro p hp
  simp only [List.flatMap_append, List.mem_append]
  exact Or.inl (Or.inr hp)

/-- plain store of the parent -/
theorem tail_plain_holds {m1 : MetaSlab (ATree d)} {A B : List (ATree d)} {child' : ATree d}
    {E1 : List Eff} {v : Elem}
    (hch : m1.children = A ++ child' :: B)
    (hnd : (m1.hdr.id :: m1.children.flatMap (slabIds d)).Nodup)
    (hold : Holds (ATree.slabs d child') v E1) :
    Holds (ATree.slabs (d + 1) (ofMeta m1)) v (E1 ++ [.store m1.hdr.id]) := by
  have h1 : Holds (ATree.slabs (d + 1) (ofMeta m1)) v E1 := by
    refine hold.mono ?_
    intro p hp
    rw [slabs_eq, sub_succ, hch]
    simp only [List.flatMap_append, List.flatMap_cons, List.mem_cons, List.mem_append]
    exact Or.inr (Or.inr (Or.inl hp))
  obtain ⟨p, hp, hv, hl⟩ := hold
  refine ⟨p, ?_, hv, ?_⟩
  · rw [slabs_eq, sub_succ, hch]
    simp only [List.flatMap_append, List.flatMap_cons, List.mem_cons, List.mem_append]
    exact Or.inr (Or.inr (Or.inl hp))
  · rw [lastAction_concat_store, if_neg ?_]
    · exact hl
    · intro heq
      apply (List.nodup_cons.1 hnd).1
      rw [hch, heq]
      simp only [List.flatMap_append, List.flatMap_cons, List.mem_append]
      refine Or.inr (Or.inl ?_)
      rw [← keys_slabs]
      exact mem_keys_of_mem hp

/-- repair by splitting the child -/
theorem tail_split_holds {m1 m2 : MetaSlab (ATree d)} {A B : List (ATree d)} {child' : ATree d} {k : Nat}
    {c c2 : Ctx} {E1 : List Eff} {v : Elem}
    (hch : m1.children = A ++ child' :: B) (hk : A.length = k)
    (h : m1.splitChildSlab child' k c = .ok (m2, c2))
    (hnd : (m1.hdr.id :: m1.children.flatMap (slabIds d)).Nodup)
    (hle : ∀ id ∈ m1.hdr.id :: m1.children.flatMap (slabIds d), id.idx ≤ c.ctr)
    (hold : Holds (ATree.slabs d child') v E1) :
    ∃ E2, Log c c2 E2 [] ∧ Holds (ATree.slabs (d + 1) (ofMeta m2)) v (E1 ++ E2) := by
  unfold splitChildSlab at h
  cases hsp : ATree.split d child' c with
  | error err => simp [hsp, bind, Except.bind] at h
  | ok p =>
    obtain ⟨l, r, cs⟩ := p
    simp only [hsp, bind, Except.bind, pure, Except.pure, Except.ok.injEq, Prod.mk.injEq] at h
    obtain ⟨rfl, rfl⟩ := h
    obtain ⟨hs1, hs2, hs3, rfl⟩ := split_struct d child' c l r cs hsp
    have hel := split_elems d child' c l r _ hsp
    refine ⟨[.alloc (hdr d child').id.addr ⟨(hdr d child').id.addr, c.ctr + 1⟩,
      .store (hdr d l).id, .store (hdr d r).id, .store m1.hdr.id], ⟨?_, ?_, ?_, ?_⟩, ?_⟩
    · simp [Ctx.emit, Ctx.alloc]
    · simp [Ctx.emit, Ctx.alloc]
    · simp [Ctx.emit, Ctx.alloc]
    · intro addr id hm
      simp only [List.mem_cons, Eff.alloc.injEq, reduceCtorEq, List.not_mem_nil, or_false] at hm
      obtain ⟨_, rfl⟩ := hm
      simp [Ctx.emit, Ctx.alloc]
    · have e1 : A ++ child' :: B = A ++ [child'] ++ B := by simp
      have e2 : A ++ l :: r :: B = A ++ [l, r] ++ B := by simp
      refine holds_parent (L := A ++ [l, r] ++ B) ?_ (holds_mid ?_)
      · show ((m1.children.set k l).insertIdx (k + 1) r) = _
        rw [hch, set_mid hk, insertIdx_mid hk, e2]
      · rw [hch, e1] at hnd hle
        refine holds_local (X := [child']) ?_ ?_ ?_ ?_ (by simpa using hold)
        · intro p
          simp only [List.flatMap_cons, List.flatMap_nil, List.append_nil, hs1]
          exact id
        · intro p hp hv
          rw [mem_roots_single] at hp
          subst hp
          rcases hel v hv with h1 | h1
          · exact ⟨_, (mem_roots_pair _).2 (Or.inl rfl), h1⟩
          · exact ⟨_, (mem_roots_pair _).2 (Or.inr rfl), h1⟩
        · intro p hp
          refine lastAction_store_mem _ (by simp) _ ?_
          rcases (mem_roots_pair p).1 hp with rfl | rfl <;> simp
        · refine untouched hnd hle ?_
          intro id hid
          simp only [List.mem_cons, Eff.store.injEq, reduceCtorEq, List.not_mem_nil, or_false,
            false_or] at hid
          rcases hid with rfl | rfl | rfl
          · right; left; simp [hs2]
          · right; right; rw [hs3]; simp
          · left; rfl

/-- repair by rebalancing two adjacent children -/
theorem tail_rebal_holds {m1 : MetaSlab (ATree d)} {P Q : List (ATree d)} {l r : ATree d} {li : Nat}
    (flag : Bool) (c : Ctx) {E1 : List Eff} {v : Elem}
    (hch : m1.children = P ++ l :: r :: Q) (hli : P.length = li)
    (hnd : (m1.hdr.id :: m1.children.flatMap (slabIds d)).Nodup)
    (hle : ∀ id ∈ m1.hdr.id :: m1.children.flatMap (slabIds d), id.idx ≤ c.ctr)
    (hold : Holds ([l, r].flatMap (ATree.slabs d)) v E1) :
    ∃ E2, Log c (rebalanceChildren T m1 l r li (li + 1) flag c).2 E2 [] ∧
      Holds (ATree.slabs (d + 1) (ofMeta (rebalanceChildren T m1 l r li (li + 1) flag c).1)) v (E1 ++ E2) := by
  obtain ⟨hs1, hs2, hs3⟩ := rebalPair_struct (T := T) flag l r
  have hel := rebalPair_elems (T := T) flag l r v
  refine ⟨[.store (hdr d l).id, .store (hdr d r).id, .store m1.hdr.id], ⟨?_, ?_, ?_, ?_⟩, ?_⟩
  · rw [rebal_ctx, emit_log3, hs2, hs3]
  · rw [rebal_ctx]; simp [Ctx.emit]
  · rw [rebal_ctx]; simp [Ctx.emit]
  · simp
  · have hkids : ∀ x y : ATree d, ((P ++ l :: r :: Q).set li x).set (li + 1) y = P ++ [x, y] ++ Q := by
      intro x y
      rw [set_mid hli]
      have : P ++ x :: r :: Q = (P ++ [x]) ++ r :: Q := by simp
      rw [this, set_mid (by simp [hli])]; simp
    have e1 : P ++ l :: r :: Q = P ++ [l, r] ++ Q := by simp
    refine holds_parent (L := P ++ [(rebalPair T d flag l r).1, (rebalPair T d flag l r).2] ++ Q) ?_
      (holds_mid ?_)
    · rw [rebal_children, hch, hkids]
    · rw [hch, e1] at hnd hle
      refine holds_local (X := [l, r]) ?_ ?_ ?_ ?_ hold
      · intro p
        simp only [List.flatMap_cons, List.flatMap_nil, List.append_nil, hs1]
        exact id
      · intro p hp hv
        have hv' : v ∈ dataElems (ent d l) ∨ v ∈ dataElems (ent d r) := by
          rcases (mem_roots_pair p).1 hp with rfl | rfl
          · exact Or.inl hv
          · exact Or.inr hv
        rcases hel hv' with h1 | h1
        · exact ⟨_, (mem_roots_pair _).2 (Or.inl rfl), h1⟩
        · exact ⟨_, (mem_roots_pair _).2 (Or.inr rfl), h1⟩
      · intro p hp
        refine lastAction_store_mem _ (by simp) _ ?_
        rcases (mem_roots_pair p).1 hp with rfl | rfl <;> simp [hs2, hs3]
      · refine untouched hnd hle ?_
        intro id hid
        simp only [List.mem_cons, Eff.store.injEq, reduceCtorEq, List.not_mem_nil, or_false] at hid
        rcases hid with rfl | rfl | rfl
        · right; left; simp
        · right; left; simp
        · left; rfl

/-- repair by merging two adjacent children -/
theorem tail_merge_holds {m1 : MetaSlab (ATree d)} {P Q : List (ATree d)} {l r : ATree d} {li : Nat}
    (c : Ctx) {E1 : List Eff} {v : Elem}
    (hch : m1.children = P ++ l :: r :: Q) (hli : P.length = li)
    (hnd : (m1.hdr.id :: m1.children.flatMap (slabIds d)).Nodup)
    (hle : ∀ id ∈ m1.hdr.id :: m1.children.flatMap (slabIds d), id.idx ≤ c.ctr)
    (hold : Holds ([l, r].flatMap (ATree.slabs d)) v E1) :
    ∃ E2, Log c (mergeChildren m1 l r li (li + 1) c).2 E2 [] ∧
      Holds (ATree.slabs (d + 1) (ofMeta (mergeChildren m1 l r li (li + 1) c).1)) v (E1 ++ E2) := by
  obtain ⟨hs1, hs2⟩ := merge_struct d l r
  have hel := merge_elems d l r v
  have hlr : (hdr d l).id ≠ (hdr d r).id := by
    have h2 := (List.nodup_cons.1 hnd).2
    rw [hch] at h2
    simp only [List.flatMap_append, List.flatMap_cons] at h2
    have h3 := (List.nodup_append.1 h2).2.1
    have h4 := (List.nodup_append.1 h3).2.2
    exact h4 _ (hdr_id_mem_slabIds d l) _ (List.mem_append.2 (Or.inl (hdr_id_mem_slabIds d r)))
  refine ⟨[.store (hdr d l).id, .store m1.hdr.id] ++ [.remove (hdr d r).id], ⟨?_, ?_, ?_, ?_⟩, ?_⟩
  · rw [merge_ctx, emit_log3, hs2]; rfl
  · rw [merge_ctx]; simp [Ctx.emit]
  · rw [merge_ctx]; simp [Ctx.emit]
  · simp
  · have e1 : P ++ l :: r :: Q = P ++ [l, r] ++ Q := by simp
    have e2 : ∀ x : ATree d, P ++ x :: Q = P ++ [x] ++ Q := by simp
    refine holds_parent (L := P ++ [ATree.merge d l r] ++ Q) ?_ (holds_mid ?_)
    · rw [merge_children, hch, set_mid hli, eraseIdx_mid_succ hli, e2]
    · rw [hch, e1] at hnd hle
      refine holds_local (X := [l, r]) ?_ ?_ ?_ ?_ hold
      · intro p
        simp only [List.flatMap_cons, List.flatMap_nil, List.append_nil, hs1]
        exact id
      · intro p hp hv
        have hv' : v ∈ dataElems (ent d l) ∨ v ∈ dataElems (ent d r) := by
          rcases (mem_roots_pair p).1 hp with rfl | rfl
          · exact Or.inl hv
          · exact Or.inr hv
        exact ⟨_, (mem_roots_single _).2 rfl, hel hv'⟩
      · intro p hp
        rw [(mem_roots_single p).1 hp]
        show lastAction _ (hdr d (ATree.merge d l r)).id = some true
        rw [hs2, lastAction_concat_remove, if_neg (fun h => hlr h.symm)]
        exact lastAction_store_mem _ (by simp) _ (by simp)
      · refine untouched hnd hle ?_
        intro id hid
        simp only [List.cons_append, List.nil_append, List.mem_cons, Eff.store.injEq, reduceCtorEq,
          List.not_mem_nil, or_false, false_or, Eff.remove.injEq] at hid
        rcases hid with (rfl | rfl) | rfl
        · right; left; simp
        · left; rfl
        · right; left; simp

/-- repair of an underflowing child -/
theorem tail_mor_holds {m1 m2 : MetaSlab (ATree d)} {A B : List (ATree d)} {child' : ATree d} {k u : Nat}
    {c c2 : Ctx} {E1 : List Eff} {v : Elem}
    (hch : m1.children = A ++ child' :: B) (hk : A.length = k)
    (h : mergeOrRebalanceChildSlab T m1 child' k u c = .ok (m2, c2))
    (hnd : (m1.hdr.id :: m1.children.flatMap (slabIds d)).Nodup)
    (hle : ∀ id ∈ m1.hdr.id :: m1.children.flatMap (slabIds d), id.idx ≤ c.ctr)
    (hold : Holds (ATree.slabs d child') v E1) :
    ∃ E2, Log c c2 E2 [] ∧ Holds (ATree.slabs (d + 1) (ofMeta m2)) v (E1 ++ E2) := by
  obtain ⟨l, r, li, hpos, hact⟩ := mor_cases m1 child' k u c m2 c2 h
  have hold' : Holds ([l, r].flatMap (ATree.slabs d)) v E1 := by
    refine hold.mono ?_
    intro p hp
    simp only [List.flatMap_cons, List.flatMap_nil, List.append_nil, List.mem_append]
    rcases hpos with ⟨_, rfl, _⟩ | ⟨_, _, rfl⟩
    · exact Or.inl hp
    · exact Or.inr hp
  have hshape : ∃ P Q, m1.children = P ++ l :: r :: Q ∧ P.length = li := by
    rcases hpos with ⟨rfl, rfl, hr⟩ | ⟨hli, hl, rfl⟩
    · rw [hch, getElem?_mid_succ hk] at hr
      cases B with
      | nil => simp at hr
      | cons b B' =>
        simp only [List.getElem?_cons_zero, Option.some.injEq] at hr
        subst hr
        exact ⟨A, B', hch, hk⟩
    · rcases List.eq_nil_or_concat A with hn | ⟨P, x, hA⟩
      · subst hn; simp at hk; omega
      · rw [List.concat_eq_append] at hA
        subst hA
        have hP : P.length = li := by simp at hk; omega
        have e1 : P ++ [x] ++ r :: B = P ++ x :: r :: B := by simp
        rw [hch, e1, getElem?_mid hP] at hl
        simp only [Option.some.injEq] at hl
        subst hl
        exact ⟨P, B, by rw [hch, e1], hP⟩
  obtain ⟨P, Q, hch', hli⟩ := hshape
  rcases hact with ⟨flag, heq⟩ | heq
  · have := tail_rebal_holds (T := T) flag c hch' hli hnd hle hold'
    rw [← heq] at this
    exact this
  · have := tail_merge_holds c hch' hli hnd hle hold'
    rw [← heq] at this
    exact this

/-! ### the tree level -/

/-- `ArrayDataSlab.Set` stores the slab it writes (unless inlined) -/
theorem data_set_holds (s s' : DataSlab) (i : Nat) (v old : Elem) (c c' : Ctx) (hni : s.inlined = false)
    (hv : ElemOk T v) (h : s.set T i v c = .ok (old, s', c')) :
    Log c c' [.store s.hdr.id] [] ∧ Holds (ATree.slabs 0 (ofData s')) v [.store s.hdr.id] := by
  unfold DataSlab.set at h
  split at h
  · cases h
  · rename_i old' hget
    rw [toStorable_fit T _ v c hv.2] at h
    simp only [Except.ok.injEq, Prod.mk.injEq] at h
    obtain ⟨_, hs', hc'⟩ := h
    have hi : i < s.elems.length := by
      rcases Nat.lt_or_ge i s.elems.length with h1 | h1
      · exact h1
      · rw [List.getElem?_eq_none h1] at hget; cases hget
    have hc'' : c' = c.emit (.store s.hdr.id) := by
      rw [← hc']; simp [DataSlab.storeIfNotInlined, hni]
    rw [hc'']
    refine ⟨Log.store c s.hdr.id, Holds.of_data (id := s.hdr.id) (s' := s') ?_ ?_ ?_⟩
    · rw [← hs']; exact List.mem_singleton.2 rfl
    · rw [← hs']; exact List.mem_set hi v
    · rw [lastAction_single]; simp [actStep]

/-- TREE LEVEL: a successful `ATree.set` of an element that fits the inline limit stores a data slab
    of the new tree that contains the element. -/
theorem set_holds (hT : legalThreshold T = true) :
    ∀ (d : Nat) (t : ATree d) (top : Bool) (i : Nat) (v : Elem) (c : Ctx) (addr : Nat) (old : Elem)
      (t' : ATree d) (c' : Ctx),
    TreeInv T d top t → NotInl d t → ElemOk T v → IdsOk addr c.ctr (slabIds d t) →
    ATree.set T d t i v c = .ok (old, t', c') →
    ∃ E C, Log c c' E C ∧ Holds (ATree.slabs d t') v E
  | 0, t, top, i, v, c, addr, old, t', c' => by
    refine forall_ofData ?_ t; intro s _ hni hv _ hr
    obtain ⟨h1, h2⟩ := data_set_holds s t' i v old c c' hni hv hr
    exact ⟨_, _, h1, h2⟩
  | d + 1, t, top, i, v, c, addr, old, t', c' => by
    refine forall_ofMeta ?_ t; intro m hinv _ hv hids hr
    obtain ⟨hs, _, _, _⟩ := (treeInv_succ T d top m).1 hinv
    obtain ⟨k, adj, child, child', c1, m2, hchild, hset, haft, rfl⟩ := set_succ_inv m i v c old t' c' hr
    obtain ⟨A, B, hch, hk⟩ := split_at_getElem? hchild
    have hc : TreeInv T d false child := hs.kids_inv child (by rw [hch]; simp)
    have hadj : adj < (flatten d child).length := by
      rcases Nat.lt_or_ge adj (flatten d child).length with h | h
      · exact h
      · rw [set_err_gen d child false adj v c hc.shape_false h] at hset; cases hset
    obtain ⟨child'', c1', hset', hstep, _⟩ :=
      set_genR hT d child false adj v c hc hc.notInl_of_false (StorOk.of_elemOk hv) hadj
    rw [hset] at hset'
    simp only [Except.ok.injEq, Prod.mk.injEq] at hset'
    obtain ⟨_, rfl, rfl⟩ := hset'
    obtain ⟨E1, C1, hlog1, hold1⟩ := set_holds hT d child false adj v c addr old child' c1 hc
      hc.notInl_of_false hv (ids_child hch hids) hset
    have hch1 : (setM1 m k child').children = A ++ child' :: B := by
      rw [setM1_children, hch, set_mid hk]
    have ids1 := ids_after_child (m1 := setM1 m k child') hch hch1 rfl hstep.repl hids
    rw [slabIds_succ] at ids1
    have hnd := ids1.1
    have hle : ∀ id ∈ (setM1 m k child').hdr.id :: (setM1 m k child').children.flatMap (slabIds d),
        id.idx ≤ c1.ctr := fun id h => (ids1.2 id h).2.2
    rcases afterSet_inv _ _ _ _ _ _ haft with hsp | ⟨u, hmr⟩ | ⟨rfl, rfl⟩
    · obtain ⟨E2, hlog2, hold2⟩ := tail_split_holds hch1 hk hsp hnd hle hold1
      exact ⟨E1 ++ E2, C1, by simpa using hlog1.trans hlog2, hold2⟩
    · obtain ⟨E2, hlog2, hold2⟩ := tail_mor_holds hch1 hk hmr hnd hle hold1
      exact ⟨E1 ++ E2, C1, by simpa using hlog1.trans hlog2, hold2⟩
    · have hold2 := tail_plain_holds hch1 hnd hold1
      exact ⟨_, C1, by simpa using hlog1.trans (Log.store c1 (setM1 m k child').hdr.id), hold2⟩

/-- TREE LEVEL, explicit form. -/
theorem set_stores_holder (hT : legalThreshold T = true) :
    ∀ (d : Nat) (t : ATree d) (top : Bool) (i : Nat) (v : Elem) (c : Ctx) (addr : Nat) (old : Elem)
      (t' : ATree d) (c' : Ctx),
    TreeInv T d top t → NotInl d t → ElemOk T v → IdsOk addr c.ctr (slabIds d t) →
    ATree.set T d t i v c = .ok (old, t', c') →
    ∃ E C, Log c c' E C ∧
      ∃ id s', (id, ASlab.data s') ∈ ATree.slabs d t' ∧ v ∈ s'.elems ∧ lastAction E id = some true := by
  intro d t top i v c addr old t' c' h1 h2 h3 h4 h5
  obtain ⟨E, C, hlog, hold⟩ := set_holds hT d t top i v c addr old t' c' h1 h2 h3 h4 h5
  exact ⟨E, C, hlog, hold.data⟩

/-! ### the top level: `splitRoot`, `promoteIfSingleChild` -/

theorem dataElems_oldRoot : ∀ (d : Nat) (t : ATree d) (sid : SlabID) (b : Bool),
    dataElems (ent d (setId d (setRoot d (adjSplit d t) b) sid)) = dataElems (ent d t)
  | 0, _, _, _ => rfl
  | _ + 1, _, _, _ => rfl

theorem dataElems_newRoot : ∀ (d : Nat) (t : ATree d) (rid : SlabID) (b : Bool),
    dataElems (ent d (setRoot d (setId d (adjProm d t) rid) b)) = dataElems (ent d t)
  | 0, _, _, _ => rfl
  | _ + 1, _, _, _ => rfl

theorem splitRoot_holds (d : Nat) (t : ATree d) (ty : Nat) (c : Ctx) (addr : Nat) (a2 : Arr) (c2 : Ctx)
    (hids : IdsOk addr c.ctr (slabIds d t))
    (h : Arr.splitRoot ⟨d, t, ty⟩ c = .ok (a2, c2)) {E1 : List Eff} {v : Elem}
    (hold : Holds (ATree.slabs d t) v E1) :
    (∃ m2 : MetaSlab (ATree d), a2 = ⟨d + 1, ofMeta m2, ty⟩ ∧ m2.children.length = 2) ∧
    ∃ E2, Log c c2 E2 [] ∧ Holds (ATree.slabs a2.d a2.root) v (E1 ++ E2) := by
  rw [splitRoot_eq] at h
  obtain ⟨⟨l, r, cs⟩, hsp, h⟩ := bind_eq_ok h
  cases h
  obtain ⟨hs1, hs2, hs3, rfl⟩ := split_struct d _ _ l r cs hsp
  have hel := split_elems d _ _ l r _ hsp
  obtain ⟨ho1, ho2⟩ := sub_oldRoot d t ⟨(hdr d t).id.addr, c.ctr + 1⟩ false
  rw [dataElems_oldRoot] at hel
  rw [ho1] at hs1
  rw [ho2] at hs2 hs3
  simp only [Ctx.alloc_ctr] at hs3
  refine ⟨⟨mkRoot (hdr d t).id l r, rfl, rfl⟩, [.alloc (hdr d t).id.addr ⟨(hdr d t).id.addr, c.ctr + 1⟩,
    .alloc (hdr d t).id.addr ⟨(hdr d t).id.addr, c.ctr + 1 + 1⟩,
    .store (hdr d l).id, .store (hdr d r).id, .store (hdr d t).id], ⟨?_, ?_, ?_, ?_⟩, ?_⟩
  · simp [Ctx.emit, Ctx.alloc, ho2]
  · simp [Ctx.emit, Ctx.alloc]
  · simp [Ctx.emit, Ctx.alloc]; omega
  · intro a id hm
    simp only [List.mem_cons, Eff.alloc.injEq, reduceCtorEq, List.not_mem_nil, or_false] at hm
    rcases hm with ⟨_, rfl⟩ | ⟨_, rfl⟩ <;> simp [Ctx.emit, Ctx.alloc] <;> omega
  · show Holds (ATree.slabs (d + 1) (ofMeta (mkRoot (hdr d t).id l r))) v _
    have hmem : ∀ p, p ∈ [l, r].flatMap (ATree.slabs d) →
        p ∈ ATree.slabs (d + 1) (ofMeta (mkRoot (hdr d t).id l r)) := by
      intro p hp
      rw [slabs_eq (d + 1), sub_succ]
      exact List.mem_cons_of_mem _ hp
    obtain ⟨p, hp, hv, hl⟩ := hold
    rw [slabs_eq] at hp
    rcases List.mem_cons.1 hp with rfl | hp
    · -- the root is the holder: a leaf root, split into two stored leaves
      have hst : ∀ x, x = (hdr d l).id ∨ x = (hdr d r).id → lastAction
          (E1 ++ [.alloc (hdr d t).id.addr ⟨(hdr d t).id.addr, c.ctr + 1⟩,
            .alloc (hdr d t).id.addr ⟨(hdr d t).id.addr, c.ctr + 1 + 1⟩,
            .store (hdr d l).id, .store (hdr d r).id, .store (hdr d t).id]) x = some true := by
        intro x hx
        refine lastAction_append_some (lastAction_store_mem _ (by simp) _ ?_)
        rcases hx with rfl | rfl <;> simp
      rcases hel v hv with h1 | h1
      · refine ⟨((hdr d l).id, ent d l), hmem _ ?_, h1, hst _ (Or.inl rfl)⟩
        simp [slabs_eq d l]
      · refine ⟨((hdr d r).id, ent d r), hmem _ ?_, h1, hst _ (Or.inr rfl)⟩
        simp [slabs_eq d r]
    · -- the holder is a strict descendant
      have hid : p.1 ∈ subIds d t := by rw [← keys_sub]; exact mem_keys_of_mem hp
      have hnd := hids.1
      rw [slabIds_eq] at hnd
      have hle : p.1.idx ≤ c.ctr :=
        (hids.2 p.1 (by rw [slabIds_eq]; exact List.mem_cons_of_mem _ hid)).2.2
      refine ⟨p, hmem p ?_, hv, ?_⟩
      · rw [← hs1] at hp
        simp only [List.flatMap_cons, List.flatMap_nil, List.append_nil, slabs_eq d l, slabs_eq d r,
          List.mem_cons, List.mem_append]
        rcases List.mem_append.1 hp with h1 | h1
        · exact Or.inl (Or.inr h1)
        · exact Or.inr (Or.inr h1)
      · rw [lastAction_append_none ?_]
        · exact hl
        · refine lastAction_none_of_not_mem _ _ ?_ (by simp)
          simp only [List.mem_cons, Eff.store.injEq, reduceCtorEq, List.not_mem_nil, or_false,
            false_or, not_or]
          refine ⟨?_, ?_, ?_⟩
          · intro heq; rw [heq, hs2] at hle; simp only at hle; omega
          · intro heq; rw [heq, hs3] at hle; simp only at hle; omega
          · intro heq; exact (List.nodup_cons.1 hnd).1 (heq ▸ hid)

theorem promote_holds : ∀ (d : Nat) (t : ATree d) (ty : Nat) (c : Ctx) (addr : Nat) {E1 : List Eff} {v : Elem},
    Shape T d true t → IdsOk addr c.ctr (slabIds d t) → Holds (ATree.slabs d t) v E1 →
    ∃ E2, Log c (Arr.promoteIfSingleChild ⟨d, t, ty⟩ c).2 E2 [] ∧
      Holds (ATree.slabs (Arr.promoteIfSingleChild ⟨d, t, ty⟩ c).1.d
        (Arr.promoteIfSingleChild ⟨d, t, ty⟩ c).1.root) v (E1 ++ E2)
  | 0, t, ty, c, addr, E1, v => by
    intro _ _ hold
    rw [promote_zero]
    exact ⟨[], Log.refl c, by simpa using hold⟩
  | d + 1, t, ty, c, addr, E1, v => by
    refine forall_ofMeta ?_ t; intro m hs hids hold
    have hms := (shape_succ T d true m).1 hs
    by_cases hlen : m.children.length = 1
    · obtain ⟨child, hc⟩ : ∃ child, m.children = [child] := by
        match hm : m.children with
        | [] => rw [hm] at hlen; simp at hlen
        | [x] => exact ⟨x, rfl⟩
        | _ :: _ :: _ => rw [hm] at hlen; simp at hlen
      have hh : m.childHdrs = [hdr d child] := by rw [hms.hdrs_eq, hc]; rfl
      rw [promote_single d m ty c _ child hh hc]
      obtain ⟨hn1, hn2⟩ := sub_newRoot d child m.hdr.id true
      have hnd := hids.1
      rw [slabIds_succ, hc] at hnd
      simp only [List.flatMap_cons, List.flatMap_nil, List.append_nil] at hnd
      rw [slabIds_eq d child] at hnd
      have hne : (hdr d child).id ≠ m.hdr.id := by
        intro heq
        exact (List.nodup_cons.1 hnd).1 (by rw [heq]; simp)
      refine ⟨[.store m.hdr.id] ++ [.remove (hdr d child).id], ⟨?_, ?_, ?_, ?_⟩, ?_⟩
      · simp [Ctx.emit]
      · simp [Ctx.emit]
      · simp [Ctx.emit]
      · simp
      · show Holds (ATree.slabs d (setRoot d (setId d (adjProm d child) m.hdr.id) true)) v _
        obtain ⟨p, hp, hv, hl⟩ := hold
        rw [slabs_eq (d + 1), sub_succ, hc] at hp
        simp only [List.flatMap_cons, List.flatMap_nil, List.append_nil, slabs_eq d child,
          List.mem_cons] at hp
        rcases hp with rfl | rfl | hp
        · rw [dataElems_ent_succ] at hv; cases hv
        · -- the promoted child is the holder: a leaf, re-stored under the root ID
          refine ⟨(m.hdr.id, ent d (setRoot d (setId d (adjProm d child) m.hdr.id) true)), ?_, ?_, ?_⟩
          · rw [slabs_eq d, hn2]; exact List.mem_cons_self
          · rw [dataElems_newRoot]; exact hv
          · refine lastAction_append_some ?_
            rw [lastAction_concat_remove, if_neg hne]
            rw [lastAction_single]; simp [actStep]
        · -- the holder is a strict descendant of the promoted child
          have hid : p.1 ∈ subIds d child := by rw [← keys_sub]; exact mem_keys_of_mem hp
          refine ⟨p, ?_, hv, ?_⟩
          · rw [slabs_eq d, hn1]; exact List.mem_cons_of_mem _ hp
          · rw [lastAction_append_none ?_]
            · exact hl
            · refine lastAction_none_of_not_mem _ _ ?_ ?_
              · simp only [List.cons_append, List.nil_append, List.mem_cons, Eff.store.injEq,
                  reduceCtorEq, List.not_mem_nil, or_false]
                intro heq
                exact (List.nodup_cons.1 hnd).1 (heq ▸ List.mem_cons_of_mem _ hid)
              · simp only [List.cons_append, List.nil_append, List.mem_cons, Eff.remove.injEq,
                  reduceCtorEq, List.not_mem_nil, or_false, false_or]
                intro heq
                exact (List.nodup_cons.1 (List.nodup_cons.1 hnd).2).1 (heq ▸ hid)
    · rw [promote_not_single d m ty c hlen]
      exact ⟨[], Log.refl c, by simpa using hold⟩

/-- TOP LEVEL, `Holds` form, with the log of the operation. -/
theorem arr_set_holds (hT : legalThreshold T = true) (a : Arr) (c : Ctx) (i : Nat) (v : Elem)
    (hv : ElemOk T v) (h : ArrInv T a c.ctr) (old : Elem) (a' : Arr) (c' : Ctx)
    (hr : a.set T i v c = .ok (old, a', c')) :
    ∃ E C, Log c c' E C ∧ Holds (ATree.slabs a'.d a'.root) v E := by
  obtain ⟨d, t, ty⟩ := a
  unfold Arr.set at hr
  obtain ⟨⟨old', t', c1⟩, hset, hr⟩ := bind_eq_ok hr
  simp only at hset hr
  have hi : i < (flatten d t).length := by
    rcases Nat.lt_or_ge i (flatten d t).length with h1 | h1
    · exact h1
    · rw [set_err_gen d t true i v c h.shape h1] at hset; cases hset
  obtain ⟨t'', c1', hset', hstep, _⟩ :=
    set_genR hT d t true i v c h.tree h.notInl (StorOk.of_elemOk hv) hi
  rw [hset] at hset'
  simp only [Except.ok.injEq, Prod.mk.injEq] at hset'
  obtain ⟨_, rfl, rfl⟩ := hset'
  obtain ⟨E1, C1, hlog1, hold1⟩ :=
    set_holds hT d t true i v c _ old' t' c1 h.tree h.notInl hv h.ids hset
  have hids' := repl_single_ids hstep.repl _ h.ids
  by_cases hfull : ATree.isFull T d t' = true
  · simp only [hfull, if_true] at hr
    obtain ⟨⟨a2, c2⟩, hsr, hr⟩ := bind_eq_ok hr
    simp only [pure, Except.pure, Except.ok.injEq, Prod.mk.injEq] at hr
    obtain ⟨_, rfl, rfl⟩ := hr
    obtain ⟨⟨m2, rfl, hlen⟩, E2, hlog2, hold2⟩ := splitRoot_holds d t' ty c1 _ a2 c2 hids' hsr hold1
    rw [promote_not_single d m2 ty c2 (by omega)]
    exact ⟨E1 ++ E2, C1, by simpa using hlog1.trans hlog2, hold2⟩
  · simp only [hfull] at hr
    obtain ⟨⟨a2, c2⟩, hsr, hr⟩ := bind_eq_ok hr
    simp only [pure, Except.pure, Except.ok.injEq, Prod.mk.injEq] at hr hsr
    obtain ⟨_, rfl, rfl⟩ := hr
    obtain ⟨rfl, rfl⟩ := hsr
    obtain ⟨E2, hlog2, hold2⟩ := promote_holds d t' ty c1 _ hstep.shape hids' hold1
    exact ⟨E1 ++ E2, C1, by simpa using hlog1.trans hlog2, hold2⟩

/-- TOP LEVEL: a successful `Arr.set` of an element that fits the inline limit on a valid standalone
    array stores a data slab of the new tree that contains the element — whatever the element it
    overwrites.  (`C09.newEffects c c' = c'.eff.drop c.eff.length`, by `rfl`.) -/
theorem arr_set_stores_holder (hT : legalThreshold T = true) (a : Arr) (c : Ctx) (i : Nat) (v : Elem)
    (hv : ElemOk T v) (h : ArrInv T a c.ctr) (old : Elem) (a' : Arr) (c' : Ctx)
    (hr : a.set T i v c = .ok (old, a', c')) :
    ∃ id s', (id, ASlab.data s') ∈ ATree.slabs a'.d a'.root ∧ v ∈ s'.elems ∧
      lastAction (C09.newEffects c c') id = some true := by
  obtain ⟨E, C, hlog, hold⟩ := arr_set_holds hT a c i v hv h old a' c' hr
  rw [(C09.newEffects_of_log hlog).2.1]
  exact hold.data

/-! ### the holder is unique: distinct data slabs hold distinct positions -/

/-- every element of a data slab of the tree is an element of the flattened list -/
theorem leaf_elems_sub : ∀ (d : Nat) (t : ATree d) (id : SlabID) (s : DataSlab),
    (id, ASlab.data s) ∈ ATree.slabs d t → ∀ e ∈ s.elems, e ∈ flatten d t
  | 0, t, id, s => by
    refine forall_ofData ?_ t; intro s0 h e he
    have h : (id, ASlab.data s) ∈ [(s0.hdr.id, ASlab.data s0)] := h
    simp only [List.mem_singleton, Prod.mk.injEq, ASlab.data.injEq] at h
    rw [← h.2]; exact he
  | d + 1, t, id, s => by
    refine forall_ofMeta ?_ t; intro m h e he
    rw [slabs_eq, sub_succ] at h
    rcases List.mem_cons.1 h with h | h
    · cases h
    · obtain ⟨child, hc, hin⟩ := List.mem_flatMap.1 h
      rw [flatten_succ]
      exact List.mem_flatMap.2 ⟨child, hc, leaf_elems_sub d child id s hin e he⟩

/-- list form of `leaf_positions`, given the statement for the members -/
theorem leaf_positions_list {d : Nat}
    (ih : ∀ (t : ATree d) (id1 id2 : SlabID) (s1 s2 : DataSlab),
      (id1, ASlab.data s1) ∈ ATree.slabs d t → (id2, ASlab.data s2) ∈ ATree.slabs d t → id1 ≠ id2 →
      ∀ (e1 e2 : Elem), e1 ∈ s1.elems → e2 ∈ s2.elems →
      ∃ i j : Nat, i ≠ j ∧ (flatten d t)[i]? = some e1 ∧ (flatten d t)[j]? = some e2) :
    ∀ (L : List (ATree d)) (id1 id2 : SlabID) (s1 s2 : DataSlab),
      (id1, ASlab.data s1) ∈ L.flatMap (ATree.slabs d) → (id2, ASlab.data s2) ∈ L.flatMap (ATree.slabs d) →
      id1 ≠ id2 → ∀ (e1 e2 : Elem), e1 ∈ s1.elems → e2 ∈ s2.elems →
      ∃ i j : Nat, i ≠ j ∧ (L.flatMap (flatten d))[i]? = some e1 ∧ (L.flatMap (flatten d))[j]? = some e2 := by
  intro L
  induction L with
  | nil => intro id1 id2 s1 s2 h1; simp at h1
  | cons x L ihL =>
    intro id1 id2 s1 s2 h1 h2 hne e1 e2 he1 he2
    simp only [List.flatMap_cons, List.mem_append] at h1 h2 ⊢
    -- an element of a data slab among the slabs of `L` is at some position of the flattened `L`
    have tailPos : ∀ (id : SlabID) (s : DataSlab) (e : Elem),
        (id, ASlab.data s) ∈ L.flatMap (ATree.slabs d) → e ∈ s.elems →
        ∃ j : Nat, (L.flatMap (flatten d))[j]? = some e := by
      intro id s e h he
      obtain ⟨child, hc, hin⟩ := List.mem_flatMap.1 h
      exact List.mem_iff_getElem?.1
        (List.mem_flatMap.2 ⟨child, hc, leaf_elems_sub d child id s hin e he⟩)
    have headPos : ∀ (id : SlabID) (s : DataSlab) (e : Elem),
        (id, ASlab.data s) ∈ ATree.slabs d x → e ∈ s.elems →
        ∃ i : Nat, i < (flatten d x).length ∧ (flatten d x)[i]? = some e := by
      intro id s e h he
      obtain ⟨i, hi⟩ := List.mem_iff_getElem?.1 (leaf_elems_sub d x id s h e he)
      refine ⟨i, ?_, hi⟩
      rcases Nat.lt_or_ge i (flatten d x).length with h1 | h1
      · exact h1
      · rw [List.getElem?_eq_none h1] at hi; cases hi
    rcases h1 with h1 | h1 <;> rcases h2 with h2 | h2
    · obtain ⟨i, j, hij, hi, hj⟩ := ih x id1 id2 s1 s2 h1 h2 hne e1 e2 he1 he2
      have hi' : i < (flatten d x).length := by
        rcases Nat.lt_or_ge i (flatten d x).length with h | h
        · exact h
        · rw [List.getElem?_eq_none h] at hi; cases hi
      have hj' : j < (flatten d x).length := by
        rcases Nat.lt_or_ge j (flatten d x).length with h | h
        · exact h
        · rw [List.getElem?_eq_none h] at hj; cases hj
      exact ⟨i, j, hij, by rw [List.getElem?_append_left hi']; exact hi,
        by rw [List.getElem?_append_left hj']; exact hj⟩
    · obtain ⟨i, hi', hi⟩ := headPos id1 s1 e1 h1 he1
      obtain ⟨j, hj⟩ := tailPos id2 s2 e2 h2 he2
      refine ⟨i, (flatten d x).length + j, by omega, by rw [List.getElem?_append_left hi']; exact hi, ?_⟩
      rw [List.getElem?_append_right (by omega)]
      rw [show (flatten d x).length + j - (flatten d x).length = j by omega]; exact hj
    · obtain ⟨j, hj', hj⟩ := headPos id2 s2 e2 h2 he2
      obtain ⟨i, hi⟩ := tailPos id1 s1 e1 h1 he1
      refine ⟨(flatten d x).length + i, j, by omega, ?_, by rw [List.getElem?_append_left hj']; exact hj⟩
      rw [List.getElem?_append_right (by omega)]
      rw [show (flatten d x).length + i - (flatten d x).length = i by omega]; exact hi
    · obtain ⟨i, j, hij, hi, hj⟩ := ihL id1 id2 s1 s2 h1 h2 hne e1 e2 he1 he2
      refine ⟨(flatten d x).length + i, (flatten d x).length + j, by omega, ?_, ?_⟩
      · rw [List.getElem?_append_right (by omega)]
        rw [show (flatten d x).length + i - (flatten d x).length = i by omega]; exact hi
      · rw [List.getElem?_append_right (by omega)]
        rw [show (flatten d x).length + j - (flatten d x).length = j by omega]; exact hj

/-- distinct data slabs of a tree hold distinct positions of the flattened element list
    (no hypothesis on the IDs is needed: a data slab has one ID) -/
theorem leaf_positions' : ∀ (d : Nat) (t : ATree d) (id1 id2 : SlabID) (s1 s2 : DataSlab),
    (id1, ASlab.data s1) ∈ ATree.slabs d t → (id2, ASlab.data s2) ∈ ATree.slabs d t → id1 ≠ id2 →
    ∀ (e1 e2 : Elem), e1 ∈ s1.elems → e2 ∈ s2.elems →
    ∃ i j : Nat, i ≠ j ∧ (flatten d t)[i]? = some e1 ∧ (flatten d t)[j]? = some e2
  | 0, t, id1, id2, s1, s2 => by
    refine forall_ofData ?_ t; intro s0 h1 h2 hne
    have h1 : (id1, ASlab.data s1) ∈ [(s0.hdr.id, ASlab.data s0)] := h1
    have h2 : (id2, ASlab.data s2) ∈ [(s0.hdr.id, ASlab.data s0)] := h2
    simp only [List.mem_singleton, Prod.mk.injEq] at h1 h2
    exact absurd (h1.1.trans h2.1.symm) hne
  | d + 1, t, id1, id2, s1, s2 => by
    refine forall_ofMeta ?_ t; intro m h1 h2 hne e1 e2 he1 he2
    rw [slabs_eq, sub_succ] at h1 h2
    rcases List.mem_cons.1 h1 with h1 | h1
    · cases h1
    rcases List.mem_cons.1 h2 with h2 | h2
    · cases h2
    rw [flatten_succ]
    exact leaf_positions_list (leaf_positions' d) m.children id1 id2 s1 s2 h1 h2 hne e1 e2 he1 he2

/-- distinct data slabs of a tree hold distinct positions of the flattened element list -/
theorem leaf_positions (d : Nat) (t : ATree d) (_hnd : (slabIds d t).Nodup) (id1 id2 : SlabID)
    (s1 s2 : DataSlab)
    (h1 : (id1, ASlab.data s1) ∈ ATree.slabs d t) (h2 : (id2, ASlab.data s2) ∈ ATree.slabs d t)
    (hne : id1 ≠ id2) (e1 e2 : Elem) (he1 : e1 ∈ s1.elems) (he2 : e2 ∈ s2.elems) :
    ∃ i j : Nat, i ≠ j ∧ (flatten d t)[i]? = some e1 ∧ (flatten d t)[j]? = some e2 :=
  leaf_positions' d t id1 id2 s1 s2 h1 h2 hne e1 e2 he1 he2

/-! ### non-vacuity: the two-leaf tree of `AtreeProofs/Array/Example.lean` -/
section Example
open Atree.Example

/-- overwriting position 1 of the two-leaf array with the element it already holds: the hypotheses
    of `arr_set_stores_holder` are met … -/
example : ∃ old a' c', arr4.set T0 1 (elem 1) ⟨3, [], []⟩ = .ok (old, a', c') ∧
    ElemOk T0 (elem 1) ∧ ArrInv T0 arr4 (⟨3, [], []⟩ : Ctx).ctr ∧ old = elem 1 :=
  ⟨_, _, _, rfl, elem_ok 1, arr4_inv, rfl⟩

/-- … and the log is `store ⟨1,2⟩` (the left leaf, unchanged in content), `store ⟨1,1⟩` (the root) -/
example : (arr4.set T0 1 (elem 1) ⟨3, [], []⟩).toOption.map (fun r => r.2.2.eff)
    = some [.store ⟨1, 2⟩, .store ⟨1, 1⟩] := by decide

/-- the conclusion of `arr_set_stores_holder` on this run, obtained from the theorem -/
example : ∃ id s', (id, ASlab.data s') ∈ ATree.slabs arr4.d arr4.root ∧ elem 1 ∈ s'.elems ∧
    lastAction [.store ⟨1, 2⟩, .store ⟨1, 1⟩] id = some true := by
  have h : arr4.set T0 1 (elem 1) ⟨3, [], []⟩
      = .ok (elem 1, arr4, ⟨3, [.store ⟨1, 2⟩, .store ⟨1, 1⟩], []⟩) := by rfl
  exact arr_set_stores_holder legal arr4 ⟨3, [], []⟩ 1 (elem 1) (elem_ok 1) arr4_inv _ _ _ h

/-- two leaves, two different IDs: `leaf_positions` applies -/
example : ∃ i j : Nat, i ≠ j ∧ (flatten arr4.d arr4.root)[i]? = some (elem 1) ∧
    (flatten arr4.d arr4.root)[j]? = some (elem 2) :=
  leaf_positions 1 (ofMeta rootSlab) (by decide) ⟨1, 2⟩ ⟨1, 3⟩ left right
    (List.mem_cons_of_mem _ List.mem_cons_self)
    (List.mem_cons_of_mem _ (List.mem_cons_of_mem _ List.mem_cons_self))
    (by decide) (elem 1) (elem 2) (by simp [left]) (by simp [right])

end Example

end Atree
