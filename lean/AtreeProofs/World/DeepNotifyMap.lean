import AtreeProofs.World.DeepNotifyArr
import AtreeProofs.World.DeepMapHold
/-
  DEEP ACCOUNT, part 7: the step of the tracked induction through a MAP parent.
-/
namespace Atree.Deep
open Gen World Codec
open MapHolder (StoredSince Ext)

variable {D : SlabID → DigestFn 4} {rank : SlabID → Nat}

theorem sig_map_set {m m' : OMap 3} {j : Nat} {k : MKey} {e el : Elem} (hl : m'.toList = m.toList.set j (k, e))
    (hge : m.toList[j]? = some (k, el)) (hp : e.pay = el.pay) : (Cont.map m').sig = (Cont.map m).sig := by
  simp only [Cont.sig, hl, List.map_set, Prod.mk.injEq, true_and]
  apply list_set_self
  rw [List.getElem?_map, hge, hp]; rfl

/-- the position of `.ref y` among the values of the map `q` is unique -/
theorem uniq_pos_map {w : World} (hu : UniqueRef w) {q y : SlabID} {m : OMap 3} (hq : w.cont? q = some (.map m))
    (hy : (w.cont? y).isSome) :
    ∀ (i j : Nat) (e1 e2 : Elem), (m.toList.map (·.2))[i]? = some e1 → (m.toList.map (·.2))[j]? = some e2 →
      e1.pay = .ref y → e2.pay = .ref y → i = j := by
  intro i j e1 e2 h1 h2 p1 p2
  refine (hu q q _ _ i j y hq hq ?_ ?_ hy).2
  · show ((m.toList.map (·.2)).map (·.pay))[i]? = _
    rw [List.getElem?_map, h1]; simp [p1]
  · show ((m.toList.map (·.2)).map (·.pay))[j]? = _
    rw [List.getElem?_map, h2]; simp [p2]

theorem deep_map_core {fuel : Nat} (IH : NotifyDeep D rank fuel) {w0 w : World} {ctr0 : Nat} {y : SlabID} {cx : Ctx}
    {hi : HInfo} {c : Cont} {pm : OMap 3} {k : MKey} {el : Elem}
    (P : WPre D rank w0 ctr0 w cx.ctr) (hsame : ∀ z, rank z < rank y → w.cont? z = w0.cont? z)
    (hh : AList.find? w.hinfo y = some hi) (hc : w.cont? y = some c)
    (hpm : w.cont? hi.parent = some (.map pm)) (hkey : hi.key = some k)
    (hmem : (k, el) ∈ pm.toList) (hel : el.pay = .ref y) (hpar : HandleOk w hi.parent)
    {old : Option Elem} {w4 : World} {cx4 : Ctx}
    (hsr : mapSetRaw fuel w hi.parent k (.child y hi.wrap) cx = .ok (old, w4, cx4)) :
    NDPost rank y w cx w4 cx4 := by
  have hlegal := P.legal
  have hylive : (w.cont? y).isSome := by rw [hc]; rfl
  have hpy : World.Holds w hi.parent y :=
    ⟨_, hpm, by
      simp only [Cont.pays, Cont.storedElems, List.mem_map]
      exact ⟨el, ⟨(k, el), hmem, rfl⟩, hel⟩⟩
  have hrk : rank hi.parent < rank y := P.rank _ _ hpy hylive
  have hne : y ≠ hi.parent := by intro h; rw [← h] at hrk; omega
  obtain ⟨hkok, _, hwb⟩ := (P.closure y hi hh).2 pm k hpm hkey
  have hv : WValH rank w hi.parent (maxInlineMapValue w.T k.size) (.child y hi.wrap) := ⟨hne, hrk, hwb, hylive⟩
  have hsameq : ∀ z, rank z ≤ rank hi.parent → w.cont? z = w0.cont? z := fun z hz => hsame z (by omega)
  obtain ⟨j, hj⟩ := List.mem_iff_getElem?.mp hmem
  rw [mapSetRaw] at hsr
  simp only [hpm] at hsr
  split at hsr
  · cases hsr
  · rename_i e w1 cx1 hst
    split at hsr
    · cases hsr
    · rename_i old1 m' cx2 hs
      try dsimp only at hsr
      split at hsr
      · cases hsr
      · rename_i w3 cx3 hnp
        cases hsr
        -- the transition of the child
        obtain ⟨P1, post1, hctr1, hm1, hh1, hco1, he1, he2, hepay⟩ :=
          storableOf_pre P hv (maxInlineMapValue_le_arr _ _) hst
        have hst' : w.childStorable y hi.wrap (maxInlineMapValue w.T k.size) cx = .ok (e, w1, cx1) := hst
        obtain ⟨_, _, _, _, hcoy, _, hpe⟩ := childStorable_frame hst'
        obtain ⟨c1, hc1, hfc⟩ := childStorable_form hc hst'
        have hT1 : w1.T = w.T := P1.T.trans P.T.symm
        have hp1 : w1.cont? hi.parent = some (.map pm) := by rw [hco1 _ (Nat.le_refl _)]; exact hpm
        have hlegal1 := P1.legal
        have hpok : MapOk w1.T (D hi.parent) pm cx1.ctr := (P1.conts _ _ hp1).1
        have hvid : pm.rootID = hi.parent := (P1.conts _ _ hp1).2.1
        have hpaddr : hi.parent.addr = w1.addr := (P1.conts _ _ hp1).2.2.1
        have hroom := P1.map_room hp1 ((hco1 _ (Nat.le_refl _)).trans (hsameq _ (Nat.le_refl _)))
        have hcfg := P1.cfgOk hp1
        have hk1 : KeyOk w1.T 4 (D hi.parent) k := by rw [hT1]; exact hkok
        have he2' : e.size ≤ maxInlineMapValue w1.T k.size := by rw [hT1]; exact he2
        have hvr : ValueOkR w1.T k.size e := ValueOkR.of_le he1 he2'
        -- the core `set`
        obtain ⟨heff, hok', hinl', hrid, hle, hsz⟩ := hpok.set_ok hlegal1 hcfg hk1 hvr hroom hs
        rw [storedValue_ref _ _ e cx1 y hpe] at heff
        have htree0 : TreeOk pm.addr cx1.ctr (.map pm) := by
          have := P1.heap.treeOk hp1
          have ha : pm.addr = w1.addr := by
            show pm.rootID.addr = w1.addr
            rw [hvid, hpaddr]
          rw [ha]; exact this
        obtain ⟨E, C, hlog, hca, _, _, htree⟩ := cstep_map_set hlegal1 hpok hcfg hk1 hvr hroom htree0 hs
        have htree' : TreeOk w1.addr cx2.ctr (.map m') := by
          have ha : pm.addr = w1.addr := by
            show pm.rootID.addr = w1.addr
            rw [hvid, hpaddr]
          rw [ha] at htree; exact htree
        -- the effect is an overwrite at position `j`
        have hks : ((Cont.map pm).kslots w1.T)[j]? = some (some k, maxInlineMapValue w1.T k.size, el) := by
          rw [Cont.kslots_map]; exact ⟨k, el, hj, rfl⟩
        have hl : m'.toList = pm.toList.set j (k, e) := by
          rcases heff with ⟨_, hnone, _⟩ | ⟨v0, A, B, _, hA, hB⟩
          · exact absurd rfl (hnone _ hmem)
          · have hA' : ((Cont.map pm).kslots w1.T)[A.length]? = some (some k, maxInlineMapValue w1.T k.size, v0) := by
              rw [Cont.kslots_map]; exact ⟨k, v0, by rw [hA]; exact getElem?_mid rfl, rfl⟩
            have := Cont.kslot_key_unique hpok hks hA' rfl rfl
            subst this
            rw [hB, hA, set_mid rfl]
        obtain ⟨P2, hsame2, post12⟩ := mutate_pre (w2 := w1.setCont hi.parent (.map m')) P1
          (fun z hz => (hco1 z (Nat.le_of_lt hz)).trans (hsameq z (Nat.le_of_lt hz)))
          hp1 hlog hca hok' htree' (hrid.trans hvid)
          (by
            intro hi0'
            have hi0 : pm.isInlined = true := by rw [← hinl']; exact hi0'
            have h1 := hsz hi0
            show m'.rootHdr.size ≤ w1.T
            have : pm.rootHdr.size ≤ maxInlineArr w1.T := by
              have := P1.inv0.room hi.parent (.map pm) (by
                rw [← hsameq _ (Nat.le_refl _), ← hco1 _ (Nat.le_refl _)]; exact hp1) hi0
              rw [← P1.T] at this
              exact this
            have := inline_plus_entry_le w1.T hlegal1
            omega)
          rfl
          (by
            intro x hx
            simp only [Cont.pays, Cont.storedElems, hl, List.mem_map] at hx ⊢
            obtain ⟨e', ⟨q, hq, rfl⟩, hpe'⟩ := hx
            rcases List.mem_or_eq_of_mem_set hq with h1 | h1
            · exact Or.inl ⟨q.2, ⟨q, h1, rfl⟩, hpe'⟩
            · subst h1; exact Or.inr (hepay x hpe'))
          (SameTab.refl _)
        -- signatures, uniqueness, handles in the world at the recursive notification
        have hS12 : ContsSig w (w1.setCont hi.parent (.map m')) := by
          refine ⟨hT1, fun q => ?_⟩
          by_cases hq : hi.parent = q
          · subst hq
            rw [cont?_setCont_self, hpm]
            simp only [Option.map_some, Option.some.injEq]
            exact sig_map_set hl hj (by rw [hpe, hel])
          · rw [cont?_setCont, if_neg hq]
            by_cases hqy : q = y
            · subst hqy
              rw [hc1, hc]
              simp only [Option.map_some, Option.some.injEq]
              rcases hfc with rfl | ⟨_, _, _⟩
              · rfl
              · obtain ⟨_, _, _, _, _, ⟨c0, c0', g1, g2, g3⟩, _⟩ := childStorable_frame hst'
                rw [hc] at g1; rw [hc1] at g2; cases g1; cases g2
                exact g3.sig_eq
            · rw [hcoy q hqy]
        have hidx12 : ∀ q z, AList.find? ((w1.setCont hi.parent (.map m')).idxOf q) z = AList.find? (w.idxOf q) z := by
          intro q z; simp [World.idxOf, hm1]
        have hcur12 : CurKept w (w1.setCont hi.parent (.map m')) :=
          CurKept.of_sig hS12 hidx12 (fun x hix hx _ => by simp only [hinfo_setCont, hh1]; exact hx)
        have hpar2 : HandleOk (w1.setCont hi.parent (.map m')) hi.parent :=
          hpar.transfer (fun p x => (hS12.holds_iff p x).mp) hcur12
        -- the induction hypothesis and the account of the recursive notification
        obtain ⟨tr3, sig3, above3, self3⟩ := IH w0 ctr0 _ hi.parent cx2 w3 cx4 P2 hsame2 hpar2 hnp
        have post23 : Post (w1.setCont hi.parent (.map m')) cx2 w3 cx4 :=
          notifyHeap D rank fuel w0 ctr0 _ hi.parent cx2 w3 cx4 P2 hsame2 hnp
        obtain ⟨qc3, hq3, hf3⟩ := self3 (.map m') (cont?_setCont_self _ _ _)
        have h3y : w3.cont? y = some c1 := by
          rw [above3 y hne (Nat.le_of_lt hrk), cont?_setCont_ne _ _ _ _ hne]; exact hc1
        have hS13 : ContsSig w w3 := hS12.trans sig3
        have hqy3 : World.Holds w3 hi.parent y := hS13.holds hpy
        have hy2 : ((w1.setCont hi.parent (.map m')).cont? y).isSome := by
          rw [cont?_setCont_ne _ _ _ _ hne, hc1]; rfl
        have hcw4 : ∀ z, (w3.setCallbackMap hi.parent k (.child y hi.wrap)).cont? z = w3.cont? z :=
          fun z => cont?_setCallbackMap _ _ _ _ _
        refine ⟨?_, ?_, ?_, ?_⟩
        · intro U4
          have U3 : UniqueRef w3 := by
            refine ContsSig.uniqueRef ⟨(T_setCallbackMap _ _ _ _).symm, fun q => by rw [hcw4]⟩ U4
          have U2 : UniqueRef (w1.setCont hi.parent (.map m')) := sig3.symm.uniqueRef U3
          have huq := uniq_pos_map U2 (cont?_setCont_self _ _ _) hy2
          -- the holder of the reference to `y`
          have hholdq : ∀ id s, (id, s) ∈ (Cont.map m').treeSlabs → ((Cont.map pm).isInlined = true → id ≠ hi.parent) →
              (∃ e1 ∈ C10Persist.slabElems s, e1.pay = .ref y) → StoredSince cx1 cx2 id := by
            intro id s h1 h2 h3
            rcases Bool.eq_false_or_eq_true pm.isInlined with hi0 | hi0
            · refine map_hold_inl hcfg (hpok.2 hi0) he2' hpe hs (hok'.2 (by rw [hinl']; exact hi0)) huq id s h1 ?_ h3
              rw [hrid, hvid]
              exact h2 hi0
            · exact map_hold hcfg (hpok.1 hi0).1 he2' hpe hs (hok'.1 (by rw [hinl']; exact hi0)).1 huq id s h1 h3
          exact track_step (w := w) (w1 := w1) (w2 := w1.setCont hi.parent (.map m')) (w3 := w3) (qc := .map pm)
            (qc' := .map m') (c1 := c1) hne P.heap hvid hpm hcoy (cont?_setCont_self _ _ _)
            (fun z hz => cont?_setCont_ne _ _ _ _ hz) hinl' htree'.1 (hrid.trans hvid)
            (ext_of_post post1) (ext_of_log hlog) (ext_of_post post23) hholdq (tr3 U3) (kept_of_post post23)
            h3y hq3 hf3 U3 hqy3 hcw4
        · exact hS13.trans ⟨T_setCallbackMap _ _ _ _, fun q => by rw [hcw4]⟩
        · intro z hzy hrz
          have hzp : z ≠ hi.parent := by intro h; rw [h] at hrz; omega
          rw [hcw4, above3 z hzp (by omega), cont?_setCont_ne _ _ _ _ hzp]
          exact hcoy z hzy
        · intro c0 hc0
          rw [hc] at hc0; cases hc0
          exact ⟨c1, by rw [hcw4]; exact h3y, hfc⟩

end Atree.Deep
