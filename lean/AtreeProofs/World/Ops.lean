import AtreeProofs.World.Dom
/-
  The public operations (`arrInsert`, `arrSet`, `arrRemove`, `mapSet`, `mapRemove`) keep the set of
  known containers and, if the underlying array / map operations keep the root ID, every value ID.
-/
namespace Atree
open Gen

/-- "`Arr.insert` keeps the root slab ID" -/
def InsertRootStable (T : Nat) : Prop :=
  ∀ (a a' : Arr) (c c' : Ctx) (j : Nat) (e : Elem), a.insert T j e c = .ok (a', c') → a'.rootID = a.rootID

/-- "`Arr.remove` keeps the root slab ID" -/
def RemoveRootStable (T : Nat) : Prop :=
  ∀ (a a' : Arr) (c c' : Ctx) (j : Nat) (old : Elem), a.remove T j c = .ok (old, a', c') → a'.rootID = a.rootID

/-- "`OMap.remove` keeps the root slab ID" -/
def MapRemoveRootStable (cfg : MCfg) : Prop :=
  ∀ (m m' : OMap 3) (c c' : Ctx) (k rk : MKey) (rv : Elem), m.remove cfg k c = .ok (rk, rv, m', c') → m'.rootID = m.rootID

namespace World

theorem DomRel.mono {H H' : Prop} {w w' : World} (h : DomRel H w w') (hi : H' → H) : DomRel H' w w' :=
  ⟨h.1, h.2.1, h.2.2.1, fun hH => h.2.2.2 (hi hH)⟩

theorem DomRel.shiftIdx {H : Prop} (w : World) (p : SlabID) (f : Nat → Nat) : DomRel H w (w.shiftIdx p f) :=
  DomRel.of_conts rfl rfl rfl

theorem DomRel.setIdx {H : Prop} (w : World) (p : SlabID) (m : AList SlabID Nat) : DomRel H w (w.setIdx p m) :=
  DomRel.of_conts rfl rfl rfl

/-- transport of `notifyParent_domRel` along a `DomRel` (same `T`, same `mcfg`) -/
theorem notifyParent_domRel' {H : Prop} {fuel : Nat} {w0 w : World} {x : SlabID} {cx : Ctx} {w' : World} {cx' : Ctx}
    (d : DomRel H w0 w) (h : notifyParent fuel w x cx = .ok (w', cx')) :
    DomRel (RootStable w0.T w0.mcfg) w w' := by
  have := notifyParent_domRel h
  rwa [d.1, d.mcfg_eq] at this

theorem arrInsert_domRel {w : World} {p : SlabID} {i : Nat} {v : WVal} {cx : Ctx} {w' : World} {cx' : Ctx}
    (h : w.arrInsert p i v cx = .ok (w', cx')) :
    DomRel (RootStable w.T w.mcfg ∧ InsertRootStable w.T) w w' := by
  unfold arrInsert at h
  split at h
  · rename_i a hpa
    split at h
    · cases h
    · simp only [bind, Except.bind] at h
      split at h
      · cases h
      · rename_i r hst
        obtain ⟨e, w1, cx1⟩ := r
        simp only at h
        have d1 : DomRel (RootStable w.T w.mcfg ∧ InsertRootStable w.T) w w1 := DomRel.storableOf hst
        split at h
        · cases h
        · rename_i a' cx2 hins
          split at h
          · cases h
          · rename_i r2 hnp
            obtain ⟨w3, cx3⟩ := r2
            simp only [pure, Except.pure] at h
            cases h
            obtain ⟨c1, hc1, hv1⟩ := d1.get_some hpa
            have d2 : DomRel (RootStable w.T w.mcfg ∧ InsertRootStable w.T) w1 (w1.setCont p (.arr a')) :=
              DomRel.setCont hc1 (fun hH => by
                rw [hv1 hH]
                rw [d1.1] at hins
                exact hH.2 a a' cx1 cx2 i e hins)
            have d3 : DomRel (RootStable w.T w.mcfg ∧ InsertRootStable w.T) (w1.setCont p (.arr a'))
                ((w1.setCont p (.arr a')).shiftIdx p (fun j => if j ≥ i then j + 1 else j)) := DomRel.shiftIdx _ _ _
            have d123 := d1.trans (d2.trans d3)
            have d4 : DomRel (RootStable w.T w.mcfg ∧ InsertRootStable w.T) _ w3 := (notifyParent_domRel' d123 hnp).mono And.left
            exact (d123.trans d4).trans (DomRel.setCallbackArr _ _ _ _)
  · cases h

theorem arrSet_domRel {w : World} {p : SlabID} {i : Nat} {v : WVal} {cx : Ctx} {old : Elem} {w' : World} {cx' : Ctx}
    (h : w.arrSet p i v cx = .ok (old, w', cx')) : DomRel (RootStable w.T w.mcfg) w w' := by
  unfold arrSet at h
  simp only [bind, Except.bind] at h
  split at h
  · cases h
  · rename_i r hset
    obtain ⟨old1, w1, cx1⟩ := r
    simp only at h
    have d1 := arrSetRaw_domRel hset
    split at h
    · cases h
    · rename_i r2 hun
      obtain ⟨old2, ov, w2, cx2⟩ := r2
      simp only [pure, Except.pure] at h
      cases h
      have d2 : DomRel (RootStable w.T w.mcfg) w1 w2 := DomRel.uninlineIfNeeded hun
      refine d1.trans (d2.trans ?_)
      cases ov with
      | none => exact DomRel.refl _ _
      | some o =>
        simp only
        repeat' split
        all_goals first | exact DomRel.refl _ _ | exact DomRel.setIdx _ _ _

theorem arrRemove_domRel {w : World} {p : SlabID} {i : Nat} {cx : Ctx} {old : Elem} {w' : World} {cx' : Ctx}
    (h : w.arrRemove p i cx = .ok (old, w', cx')) :
    DomRel (RootStable w.T w.mcfg ∧ RemoveRootStable w.T) w w' := by
  unfold arrRemove at h
  split at h
  · rename_i a hpa
    split at h
    · cases h
    · rename_i old1 a' cx1 hrem
      simp only [bind, Except.bind] at h
      have d1 : DomRel (RootStable w.T w.mcfg ∧ RemoveRootStable w.T) w (w.setCont p (.arr a')) :=
        DomRel.setCont hpa (fun hH => hH.2 a a' cx cx1 i old1 hrem)
      have d2 : DomRel (RootStable w.T w.mcfg ∧ RemoveRootStable w.T) (w.setCont p (.arr a'))
          ((w.setCont p (.arr a')).shiftIdx p (fun j => if j > i then j - 1 else j)) := DomRel.shiftIdx _ _ _
      have d12 := d1.trans d2
      split at h
      · cases h
      · rename_i r hnp
        obtain ⟨w3, cx3⟩ := r
        simp only at h
        have d3 : DomRel (RootStable w.T w.mcfg ∧ RemoveRootStable w.T) _ w3 := (notifyParent_domRel' d12 hnp).mono And.left
        split at h
        · cases h
        · rename_i r2 hun
          obtain ⟨old2, ov, w4, cx4⟩ := r2
          simp only [pure, Except.pure] at h
          cases h
          have d4 : DomRel (RootStable w.T w.mcfg ∧ RemoveRootStable w.T) w3 w4 := DomRel.uninlineIfNeeded hun
          refine d12.trans (d3.trans (d4.trans ?_))
          split
          · exact DomRel.refl _ _
          · exact DomRel.setIdx _ _ _
  · cases h

theorem mapSet_domRel {w : World} {p : SlabID} {k : MKey} {v : WVal} {cx : Ctx} {old : Option Elem} {w' : World} {cx' : Ctx}
    (h : w.mapSet p k v cx = .ok (old, w', cx')) : DomRel (RootStable w.T w.mcfg) w w' := by
  unfold mapSet at h
  simp only [bind, Except.bind] at h
  split at h
  · cases h
  · rename_i r hset
    obtain ⟨old1, w1, cx1⟩ := r
    simp only at h
    have d1 := mapSetRaw_domRel hset
    split at h
    · simp only [pure, Except.pure] at h
      cases h; exact d1
    · split at h
      · cases h
      · rename_i r2 hun
        obtain ⟨o', ov, w2, cx2⟩ := r2
        simp only [pure, Except.pure] at h
        cases h
        exact d1.trans (DomRel.uninlineIfNeeded hun)

theorem mapRemove_domRel {w : World} {p : SlabID} {k : MKey} {cx : Ctx} {rk : MKey} {rv : Elem} {w' : World} {cx' : Ctx}
    (h : w.mapRemove p k cx = .ok (rk, rv, w', cx')) :
    DomRel (RootStable w.T w.mcfg ∧ MapRemoveRootStable w.mcfg) w w' := by
  unfold mapRemove at h
  split at h
  · rename_i m hpm
    split at h
    · cases h
    · rename_i rk1 rv1 m' cx1 hrem
      simp only [bind, Except.bind] at h
      have d1 : DomRel (RootStable w.T w.mcfg ∧ MapRemoveRootStable w.mcfg) w (w.setCont p (.map m')) :=
        DomRel.setCont hpm (fun hH => hH.2 m m' cx cx1 k rk1 rv1 hrem)
      split at h
      · cases h
      · rename_i r hnp
        obtain ⟨w3, cx3⟩ := r
        simp only at h
        have d3 : DomRel (RootStable w.T w.mcfg ∧ MapRemoveRootStable w.mcfg) _ w3 := (notifyParent_domRel' d1 hnp).mono And.left
        split at h
        · cases h
        · rename_i r2 hun
          obtain ⟨rv2, ov, w4, cx4⟩ := r2
          simp only [pure, Except.pure] at h
          cases h
          exact d1.trans (d3.trans (DomRel.uninlineIfNeeded hun))
  · cases h

end World
end Atree
