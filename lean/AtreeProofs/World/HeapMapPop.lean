import AtreeProofs.Map.EffectsTop
import AtreeProofs.Map.EffectsTree
/-
  `MTree.popIterate` removes EXACTLY the slabs of the tree below the root (the lemmas of
  `AtreeProofs/Map/EffectsTop.lean` state "at least"): below the first level of a data slab there is
  no external collision group (`NoExt`), so the inner `popIter` calls make no storage call.
-/
namespace Atree
open Gen

variable {r : Nat} {T : Nat} {D : DigestFn (r + 1)}

/-- `popIter` makes no storage call on elements satisfying `P` -/
def PopNone {α : Type} (o : ElemsOps α) (P : α → Prop) : Prop := ∀ e c, P e → (o.popIter e c).2 = c

theorem hkey_popNone {α : Type} {o : ElemsOps α} {P : α → Prop} (ho : PopNone o P) :
    PopNone (HkeyElems.ops o) (HP P) := by
  intro he c hp
  show (HkeyElems.popIter o he c).2 = c
  unfold HkeyElems.popIter
  have key : ∀ (l : List (MElemF α)) (acc : List (MKey × Elem) × Ctx), (∀ el ∈ l, ElP P el) →
      (l.foldl (fun (acc : List (MKey × Elem) × Ctx) el =>
        let (l, c) := el.popIter o acc.2
        (acc.1 ++ l, c)) acc).2 = acc.2 := by
    intro l
    induction l with
    | nil => intro acc _; rfl
    | cons el l ih =>
      intro acc hl
      rw [List.foldl_cons, ih _ (fun x hx => hl x (List.mem_cons_of_mem _ hx))]
      have h1 := hl el List.mem_cons_self
      cases el with
      | single x => rfl
      | inl g => exact ho g acc.2 h1
      | ext id sz s => exact absurd h1 (by simp [ElP])
  exact key he.elems.reverse ([], c) (fun el hel => hp el (List.mem_reverse.1 hel))

theorem melems_popNone : ∀ r, PopNone (MElems.ops r) (NoExt r)
  | 0 => fun _ _ _ => rfl
  | r + 1 => hkey_popNone (melems_popNone r)

theorem elem_popIter_log' {α : Type} {o : ElemsOps α} {P : α → Prop} (ho : PopNone o P) (el : MElemF α) (c : Ctx)
    (hF : FirstOk P el) :
    ∃ E, (el.popIter o c).2.eff = c.eff ++ E ∧ (∀ x ∈ E, ∃ i ∈ AList.keys (grp [el]), x = Eff.remove i) ∧
      ∀ id ∈ AList.keys (grp [el]), Eff.remove id ∈ E := by
  cases el with
  | single x => exact ⟨[], by simp [MElemF.popIter], by simp, by simp [grp, AList.keys]⟩
  | inl g =>
    refine ⟨[], ?_, by simp, by simp [grp, AList.keys]⟩
    show (o.popIter g c).2.eff = _
    rw [ho g c hF]; simp
  | ext id sz s =>
    have h1 := ho s.elems c hF.2
    refine ⟨[.remove id], ?_, ?_, ?_⟩
    · show ((o.popIter s.elems c).2.emit (.remove id)).eff = _
      rw [h1]; rfl
    · intro x hx
      rw [List.mem_singleton] at hx
      exact ⟨id, by simp [grp, AList.keys], hx⟩
    · intro j hj
      simp only [grp, AList.keys, List.filterMap_cons, List.filterMap_nil, List.map_cons, List.map_nil,
        List.mem_singleton] at hj
      subst hj
      simp

theorem hkey_popIter_fold' {α : Type} {o : ElemsOps α} {P : α → Prop} (ho : PopNone o P) :
    ∀ (l : List (MElemF α)) (acc : List (MKey × Elem) × Ctx), (∀ el ∈ l, FirstOk P el) →
    ∃ E, (l.foldl (fun (acc : List (MKey × Elem) × Ctx) el =>
        let (l, c) := el.popIter o acc.2
        (acc.1 ++ l, c)) acc).2.eff = acc.2.eff ++ E ∧ (∀ x ∈ E, ∃ i ∈ AList.keys (grp l), x = Eff.remove i) ∧
      ∀ id ∈ AList.keys (grp l), Eff.remove id ∈ E
  | [], acc, _ => ⟨[], by simp, by simp, by simp [AList.keys]⟩
  | el :: l, acc, hF => by
    obtain ⟨E1, h1, h2, h3⟩ := elem_popIter_log' ho el acc.2 (hF el List.mem_cons_self)
    obtain ⟨E2, h4, h5, h6⟩ := hkey_popIter_fold' ho l (acc.1 ++ (el.popIter o acc.2).1, (el.popIter o acc.2).2)
      (fun x hx => hF x (List.mem_cons_of_mem _ hx))
    have hg : grp (el :: l) = grp [el] ++ grp l := by rw [← grp_append]; rfl
    refine ⟨E1 ++ E2, ?_, ?_, ?_⟩
    · rw [List.foldl_cons]
      simp only at h4 ⊢
      rw [h4, h1, List.append_assoc]
    · intro x hx
      rw [hg, keys_append]
      rcases List.mem_append.1 hx with h | h
      · obtain ⟨i, hi, e⟩ := h2 x h; exact ⟨i, List.mem_append.2 (Or.inl hi), e⟩
      · obtain ⟨i, hi, e⟩ := h5 x h; exact ⟨i, List.mem_append.2 (Or.inr hi), e⟩
    · intro id hid
      rw [hg, keys_append] at hid
      rcases List.mem_append.1 hid with h | h
      · exact List.mem_append.2 (Or.inl (h3 id h))
      · exact List.mem_append.2 (Or.inr (h6 id h))

theorem mdata_pop_log' (s : MDataSlab r) (c : Ctx) (hF : ∀ el ∈ s.elems.elems, FirstOk (NoExt r) el) :
    ∃ E, (MDataSlab.popIterate s c).2.2.eff = c.eff ++ E ∧
      (∀ x ∈ E, ∃ i ∈ AList.keys (msub 0 s), x = Eff.remove i) ∧
      ∀ id ∈ AList.keys (msub 0 s), Eff.remove id ∈ E := by
  obtain ⟨E, h1, h2, h3⟩ := hkey_popIter_fold' (melems_popNone r) s.elems.elems.reverse ([], c)
    (fun el hel => hF el (List.mem_reverse.1 hel))
  have hk : ∀ id, id ∈ AList.keys (msub 0 s) ↔ id ∈ AList.keys (grp s.elems.elems.reverse) := by
    intro id
    rw [msub_zero, groupSlabs_eq, keys_map_view, keys_grp_reverse]
  refine ⟨E, h1, ?_, ?_⟩
  · intro x hx
    obtain ⟨i, hi, e⟩ := h2 x hx
    exact ⟨i, (hk i).2 hi, e⟩
  · intro id hid
    exact h3 id ((hk id).1 hid)

theorem mtree_pop_log' : ∀ (d : Nat) (top : Bool) (t : MTree r d) (c : Ctx), MTreeInv T D d top t →
    ∃ E, (MTree.popIterate d t c).2.2.eff = c.eff ++ E ∧
      (∀ x ∈ E, ∃ i ∈ AList.keys (msub d t), x = Eff.remove i) ∧
      ∀ id ∈ AList.keys (msub d t), Eff.remove id ∈ E
  | 0, top, s, c, hinv =>
    mdata_pop_log' s c (firstOk_of_inv ((mtreeInv_zero_iff T D top s).mp hinv).elems_inv)
  | d + 1, top, m, c, hinv => by
    have hkids : ∀ ch ∈ m.children, MTreeInv T D d false ch :=
      ((mtreeInv_succ_iff T D d top m).mp hinv).1.2.2.2.2.1
    have key : ∀ (l : List (MTree r d)) (acc : List (MKey × Elem) × Ctx), (∀ ch ∈ l, MTreeInv T D d false ch) →
        ∃ E, (l.foldl (fun (acc : List (MKey × Elem) × Ctx) child =>
            let (es, _, c) := MTree.popIterate d child acc.2
            (acc.1 ++ es, c.emit (.remove (MTree.hdr d child).id))) acc).2.eff = acc.2.eff ++ E ∧
          (∀ x ∈ E, ∃ i ∈ AList.keys (l.flatMap (MTree.slabs d)), x = Eff.remove i) ∧
          ∀ id ∈ AList.keys (l.flatMap (MTree.slabs d)), Eff.remove id ∈ E := by
      intro l
      induction l with
      | nil => intro acc _; exact ⟨[], by simp, by simp, by simp [AList.keys]⟩
      | cons t l ih =>
        intro acc hl
        obtain ⟨E1, h1, h2, h3⟩ := mtree_pop_log' d false t acc.2 (hl t List.mem_cons_self)
        obtain ⟨E2, h4, h5, h6⟩ := ih
          (acc.1 ++ (MTree.popIterate d t acc.2).1,
            (MTree.popIterate d t acc.2).2.2.emit (.remove (MTree.hdr d t).id))
          (fun x hx => hl x (List.mem_cons_of_mem _ hx))
        have hks : AList.keys ((t :: l).flatMap (MTree.slabs d))
            = (MTree.hdr d t).id :: AList.keys (msub d t) ++ AList.keys (l.flatMap (MTree.slabs d)) := by
          rw [List.flatMap_cons, keys_append, mslabs_eq, keys_cons']
        refine ⟨E1 ++ [.remove (MTree.hdr d t).id] ++ E2, ?_, ?_, ?_⟩
        · rw [List.foldl_cons]
          simp only at h4 ⊢
          rw [h4]
          simp only [Ctx.emit, h1, List.append_assoc]
        · intro x hx
          rw [hks]
          rcases List.mem_append.1 hx with h | h
          · rcases List.mem_append.1 h with h | h
            · obtain ⟨i, hi, e⟩ := h2 x h
              exact ⟨i, List.mem_append.2 (Or.inl (List.mem_cons_of_mem _ hi)), e⟩
            · rw [List.mem_singleton] at h
              exact ⟨_, List.mem_append.2 (Or.inl List.mem_cons_self), h⟩
          · obtain ⟨i, hi, e⟩ := h5 x h
            exact ⟨i, List.mem_append.2 (Or.inr hi), e⟩
        · intro id hid
          rw [hks] at hid
          rcases List.mem_append.1 hid with h | h
          · rcases List.mem_cons.1 h with h | h
            · subst h; simp
            · exact List.mem_append.2 (Or.inl (List.mem_append.2 (Or.inl (h3 id h))))
          · exact List.mem_append.2 (Or.inr (h6 id h))
    obtain ⟨E, h1, h2, h3⟩ := key m.children.reverse ([], c) (fun ch hch => hkids ch (List.mem_reverse.1 hch))
    have hms : msub (d + 1) m = (m : MMetaSlab (MTree r d)).children.flatMap (MTree.slabs d) := rfl
    refine ⟨E, ?_, ?_, ?_⟩
    · simp only [MTree.popIterate]
      exact h1
    · intro x hx
      obtain ⟨i, hi, e⟩ := h2 x hx
      exact ⟨i, by rw [hms]; exact (keys_flatMap_reverse _ i).1 hi, e⟩
    · intro id hid
      rw [hms] at hid
      exact h3 id ((keys_flatMap_reverse _ id).2 hid)

end Atree
