import AtreeProofs.World.StepSlot
/-
  The other elementary steps: the out-of-date container turns out to be in sync (`unstale`),
  a closure is dropped (`hinfo_sub`), a closure is (re)installed (`callback_arr`, `callback_map`),
  pending containers are settled (`shrink`).
-/
namespace Atree
open Gen

namespace World

variable {D : SlabID → DigestFn 4} {rank : SlabID → Nat} {O : SlabID → Prop}

/-- every slot that refers to `y` is in sync: `y` is not out of date any more -/
theorem WorldOkGen.unstale {w : World} {ctr : Nat} {y : SlabID} (H : WorldOkGen D rank (some y) O w ctr)
    (hfix : ∀ p pc, w.cont? p = some pc → ∀ le ∈ pc.slots w.T, ∀ c, le.2.pay = .ref y → w.cont? y = some c →
      ∀ wrap, slabIDStorableSize + 2 * wrap ≤ le.1 → (c.isInlined = false → le.2.size = slotSize c wrap) →
        (∀ hi, ¬ O y → AList.find? w.hinfo y = some hi → ClosureAt w y hi le.1 le.2 → hi.wrap = wrap) →
        le.2.size = slotSize c wrap ∧ c.isInlined = c.inlinable (le.1 - 2 * wrap)) :
    WorldOkGen D rank none O w ctr := by
  refine ⟨H.legal, H.ids, H.addr, H.conts, ?_, H.band, H.unique, H.inlRef, H.mutIdx, H.closure, H.rank, H.below, H.idxLive, H.hinfoLive⟩
  intro p pc hp le hle x c hx hc
  obtain ⟨wr, h1, h2, h3, h4⟩ := H.slots p pc hp le hle x c hx hc
  refine ⟨wr, h1, fun _ => ?_, fun he => (by cases he), h4⟩
  by_cases hxy : x = y
  · subst hxy
    exact hfix p pc hp le hle c hx hc wr h1 (h3 rfl) h4
  · exact h2 (by intro he; cases he; exact hxy rfl)

/-- a world in sync is in particular in sync up to one container -/
theorem WorldOkGen.restale {w : World} {ctr : Nat} (H : WorldOkGen D rank none O w ctr) (y : SlabID) :
    WorldOkGen D rank (some y) O w ctr := by
  refine ⟨H.legal, H.ids, H.addr, H.conts, ?_, H.band, H.unique, H.inlRef, H.mutIdx, H.closure, H.rank, H.below, H.idxLive, H.hinfoLive⟩
  intro p pc hp le hle x c hx hc
  obtain ⟨wr, h1, h2, _, h4⟩ := H.slots p pc hp le hle x c hx hc
  have := h2 (by intro he; cases he)
  exact ⟨wr, h1, fun _ => this, fun _ _ => this.1, h4⟩

/-- nobody refers to `y`: it cannot be out of date -/
theorem WorldOkGen.unstale_root {w : World} {ctr : Nat} {y : SlabID} (H : WorldOkGen D rank (some y) O w ctr)
    (hroot : ∀ p, ¬ Holds w p y) : WorldOkGen D rank none O w ctr := by
  refine H.unstale ?_
  intro p pc hp le hle c hx _
  exact absurd (holds_of_slot hp hle hx) (hroot p)

/-- `ClosureAt` does not depend on the closure table -/
theorem closureAt_congr {w w' : World} (hT : w'.T = w.T) (hc : ∀ z, w'.cont? z = w.cont? z)
    {x : SlabID} {hi : HInfo} (hidx : AList.find? (w'.idxOf hi.parent) x = AList.find? (w.idxOf hi.parent) x)
    (lim : Nat) (e : Elem) : ClosureAt w' x hi lim e ↔ ClosureAt w x hi lim e := by
  unfold ClosureAt
  rw [hc, hidx, hT]

/-- dropping closures keeps the invariant -/
theorem WorldOkGen.hinfo_sub {w w' : World} {ctr : Nat} {stale : Option SlabID}
    (H : WorldOkGen D rank stale O w ctr) (hT : w'.T = w.T) (ha : w'.addr = w.addr)
    (hc : ∀ z, w'.cont? z = w.cont? z) (hm : w'.mutIdx = w.mutIdx)
    (hh : ∀ x hi, AList.find? w'.hinfo x = some hi → AList.find? w.hinfo x = some hi) :
    WorldOkGen D rank stale O w' ctr := by
  have hS : ContsSig w w' := ⟨hT, fun q => by rw [hc]⟩
  have hidx : ∀ q, w'.idxOf q = w.idxOf q := fun q => by simp [World.idxOf, hm]
  refine ⟨by rw [hT]; exact H.legal, ?_, ?_, ?_, ?_, ?_, hS.uniqueRef H.unique, ?_,
    hS.mutIdxOkX H.mutIdx (fun q x => by rw [hidx]), hS.closureOk H.closure hh, hS.cRank H.rank,
    hS.refsBelow H.below (Nat.le_refl _),
    hS.idxLive H.idxLive (fun p x i hi => by rw [hidx] at hi; exact hi), hS.hinfoLive H.hinfoLive hh⟩
  · intro z cz hz; rw [hc] at hz; exact H.ids z cz hz
  · intro z cz hz; rw [hc] at hz; rw [ha]; exact H.addr z cz hz
  · intro z cz hz; rw [hc] at hz; rw [hT]; exact H.conts z cz hz
  · intro p pc hp le hle x c hx hcx
    rw [hc] at hp hcx
    rw [hT] at hle
    obtain ⟨wr, h1, h2, h3, h4⟩ := H.slots p pc hp le hle x c hx hcx
    refine ⟨wr, h1, h2, h3, ?_⟩
    intro hi hO hhi hca
    exact h4 hi hO (hh x hi hhi) ((closureAt_congr hT hc (by rw [hidx]) _ _).mp hca)
  · intro z cz hz hi; rw [hc] at hz; rw [hT]; exact H.band z cz hz hi
  · intro z cz hz hi hO
    rw [hc] at hz
    obtain ⟨q, hq⟩ := H.inlRef z cz hz hi hO
    exact ⟨q, hS.holds hq⟩

/-- (re)installing the closure of `y`, which sits in slot `idx` of the ARRAY `p` -/
theorem WorldOkGen.callback_arr {w w' : World} {ctr : Nat} (H : WorldOkGen D rank none O w ctr)
    {p y : SlabID} {pa : Arr} {idx : Nat} {e : Elem} {c : Cont} {hn : HInfo}
    (hp : w.cont? p = some (.arr pa)) (he : pa.toList[idx]? = some e) (hpay : e.pay = .ref y)
    (hy : w.cont? y = some c) (hsz : e.size = slotSize c hn.wrap)
    (hpar : hn.parent = p) (hmax : hn.maxInline = maxInlineArr w.T - 2 * hn.wrap)
    (hT : w'.T = w.T) (ha : w'.addr = w.addr) (hc : ∀ z, w'.cont? z = w.cont? z)
    (hh : ∀ z, AList.find? w'.hinfo z = if y = z then some hn else AList.find? w.hinfo z)
    (hidx : ∀ q z, AList.find? (w'.idxOf q) z = if p = q ∧ y = z then some idx else AList.find? (w.idxOf q) z) :
    WorldOkGen D rank none O w' ctr := by
  have hS : ContsSig w w' := ⟨hT, fun q => by rw [hc]⟩
  have hks : ((Cont.arr pa).kslots w.T)[idx]? = some (none, maxInlineArr w.T, e) := by
    rw [Cont.kslots_arr]; exact ⟨e, he, rfl⟩
  have hysome : (w.cont? y).isSome := by rw [hy]; rfl
  -- the wrapped reference fits: from the slot
  obtain ⟨wr0, hb0, hs0, _, _⟩ := H.slots p _ hp (maxInlineArr w.T, e)
    (List.mem_of_getElem? (Cont.kslot_slot hks)) y c hpay hy
  have hwr0 : wr0 = hn.wrap := by
    have := (hs0 (by intro h; cases h)).1
    rw [hsz] at this
    exact (slotSize_inj this).symm
  refine ⟨by rw [hT]; exact H.legal, ?_, ?_, ?_, ?_, ?_, hS.uniqueRef H.unique, ?_, ?_, ?_, hS.cRank H.rank,
    hS.refsBelow H.below (Nat.le_refl _), ?_, ?_⟩
  rotate_right 2
  · intro q x i hi
    rw [hidx] at hi
    rw [hc, hc]
    split at hi
    · rename_i hpq; obtain ⟨rfl, rfl⟩ := hpq; exact ⟨hysome, pa, hp⟩
    · exact H.idxLive q x i hi
  · intro x hi hx
    rw [hh] at hx
    rw [hc]
    split at hx
    · cases hx; rw [hpar, hp]; rfl
    · exact H.hinfoLive x hi hx
  · intro z cz hz; rw [hc] at hz; exact H.ids z cz hz
  · intro z cz hz; rw [hc] at hz; rw [ha]; exact H.addr z cz hz
  · intro z cz hz; rw [hc] at hz; rw [hT]; exact H.conts z cz hz
  · -- slots
    intro q qc hq le hle x cx hx hcx
    rw [hc] at hq hcx
    rw [hT] at hle
    obtain ⟨wr, h1, h2, h3, h4⟩ := H.slots q qc hq le hle x cx hx hcx
    refine ⟨wr, h1, h2, h3, ?_⟩
    intro hi hO hhi hca
    rw [hh] at hhi
    by_cases hyx : y = x
    · subst hyx
      rw [if_pos rfl] at hhi
      cases hhi
      -- the slot is `(p, idx)`
      rcases hca with ⟨pa2, i2, hpa2, hi2, hge2, _, _⟩ | ⟨pm2, k2, hpm2, _⟩
      · rw [hpar, hc, hp] at hpa2; cases hpa2
        rw [hpar, hidx, if_pos ⟨rfl, rfl⟩] at hi2
        cases hi2
        rw [he] at hge2; cases hge2
        rw [hcx] at hy; cases hy
        have := (h2 (by intro h; cases h)).1
        rw [hsz] at this
        exact slotSize_inj this
      · rw [hpar, hc, hp] at hpm2; cases hpm2
    · rw [if_neg hyx] at hhi
      refine h4 hi hO hhi ((closureAt_congr hT hc ?_ _ _).mp hca)
      rw [hidx, if_neg (fun h => hyx h.2)]
  · intro z cz hz hi; rw [hc] at hz; rw [hT]; exact H.band z cz hz hi
  · intro z cz hz hi hO
    rw [hc] at hz
    obtain ⟨q, hq⟩ := H.inlRef z cz hz hi hO
    exact ⟨q, hS.holds hq⟩
  · -- mutIdx
    intro q a hq x i hi hO
    rw [hc] at hq
    rw [hidx] at hi
    split at hi
    · rename_i hpq
      obtain ⟨rfl, rfl⟩ := hpq
      cases hi
      rw [hp] at hq; cases hq
      rw [Cont.kslot_pay hks, hpay]
    · exact H.mutIdx q a hq x i hi hO
  · -- closure
    intro x hi hx
    rw [hh] at hx
    split at hx
    · rename_i hyx
      subst hyx
      cases hx
      refine ⟨fun pa2 _ => ?_, fun pm2 k2 hpm2 _ => ?_⟩
      · rw [hT]; exact ⟨hmax, by rw [← hwr0]; exact hb0⟩
      · rw [hpar, hc, hp] at hpm2; cases hpm2
    · obtain ⟨c1, c2⟩ := H.closure x hi hx
      refine ⟨fun pa2 hpa2 => ?_, fun pm2 k2 hpm2 hk2 => ?_⟩
      · rw [hc] at hpa2; rw [hT]; exact c1 pa2 hpa2
      · rw [hc] at hpm2; rw [hT]; exact c2 pm2 k2 hpm2 hk2

/-- (re)installing the closure of `y`, which is the value of key `k` of the MAP `p` -/
theorem WorldOkGen.callback_map {w w' : World} {ctr : Nat} (H : WorldOkGen D rank none O w ctr)
    {p y : SlabID} {pm : OMap 3} {k : MKey} {e : Elem} {c : Cont} {hn : HInfo}
    (hp : w.cont? p = some (.map pm)) (he : (k, e) ∈ pm.toList)
    (hy : w.cont? y = some c) (hsz : ¬ O y → e.size = slotSize c hn.wrap)
    (hwb : slabIDStorableSize + 2 * hn.wrap ≤ maxInlineMapValue w.T k.size)
    (hkok : KeyOk w.T 4 (D p) k)
    (hpar : hn.parent = p) (hkey : hn.key = some k)
    (hmax : hn.maxInline = maxInlineMapValue w.T k.size - 2 * hn.wrap)
    (hT : w'.T = w.T) (ha : w'.addr = w.addr) (hc : ∀ z, w'.cont? z = w.cont? z) (hm : w'.mutIdx = w.mutIdx)
    (hh : ∀ z, AList.find? w'.hinfo z = if y = z then some hn else AList.find? w.hinfo z) :
    WorldOkGen D rank none O w' ctr := by
  have hS : ContsSig w w' := ⟨hT, fun q => by rw [hc]⟩
  have hidx : ∀ q, w'.idxOf q = w.idxOf q := fun q => by simp [World.idxOf, hm]
  have hmok : MapOk w.T (D p) pm ctr := H.conts p _ hp
  refine ⟨by rw [hT]; exact H.legal, ?_, ?_, ?_, ?_, ?_, hS.uniqueRef H.unique, ?_,
    hS.mutIdxOkX H.mutIdx (fun q x => by rw [hidx]), ?_, hS.cRank H.rank, hS.refsBelow H.below (Nat.le_refl _),
    hS.idxLive H.idxLive (fun q x i hi => by rw [hidx] at hi; exact hi), ?_⟩
  rotate_right
  · intro x hi hx
    rw [hh] at hx
    rw [hc]
    split at hx
    · cases hx; rw [hpar, hp]; rfl
    · exact H.hinfoLive x hi hx
  · intro z cz hz; rw [hc] at hz; exact H.ids z cz hz
  · intro z cz hz; rw [hc] at hz; rw [ha]; exact H.addr z cz hz
  · intro z cz hz; rw [hc] at hz; rw [hT]; exact H.conts z cz hz
  · -- slots
    intro q qc hq le hle x cx hx hcx
    rw [hc] at hq hcx
    rw [hT] at hle
    obtain ⟨wr, h1, h2, h3, h4⟩ := H.slots q qc hq le hle x cx hx hcx
    refine ⟨wr, h1, h2, h3, ?_⟩
    intro hi hO hhi hca
    rw [hh] at hhi
    by_cases hyx : y = x
    · subst hyx
      rw [if_pos rfl] at hhi
      cases hhi
      rcases hca with ⟨pa2, i2, hpa2, _⟩ | ⟨pm2, k2, hpm2, hk2, hmem2, _, _⟩
      · rw [hpar, hc, hp] at hpa2; cases hpa2
      · rw [hpar, hc, hp] at hpm2; cases hpm2
        rw [hkey] at hk2; cases hk2
        -- same key, hence same value
        have hee : le.2 = e := by
          have hd := hmok.distinct
          obtain ⟨i1, hi1⟩ := List.mem_iff_getElem?.mp hmem2
          obtain ⟨i2, hi2⟩ := List.mem_iff_getElem?.mp he
          have hk1 : ((Cont.map pm).kslots w.T)[i1]? = some (some k, maxInlineMapValue w.T k.size, le.2) := by
            rw [Cont.kslots_map]; exact ⟨k, le.2, hi1, rfl⟩
          have hk2' : ((Cont.map pm).kslots w.T)[i2]? = some (some k, maxInlineMapValue w.T k.size, e) := by
            rw [Cont.kslots_map]; exact ⟨k, e, hi2, rfl⟩
          have := Cont.kslot_key_unique hmok hk1 hk2' rfl rfl
          subst this
          rw [hi1] at hi2
          simpa using hi2
        rw [hcx] at hy; cases hy
        have := (h2 (by intro h; cases h)).1
        rw [hee, hsz hO] at this
        exact slotSize_inj this
    · rw [if_neg hyx] at hhi
      exact h4 hi hO hhi ((closureAt_congr hT hc (by rw [hidx]) _ _).mp hca)
  · intro z cz hz hi; rw [hc] at hz; rw [hT]; exact H.band z cz hz hi
  · intro z cz hz hi hO
    rw [hc] at hz
    obtain ⟨q, hq⟩ := H.inlRef z cz hz hi hO
    exact ⟨q, hS.holds hq⟩
  · -- closure
    intro x hi hx
    rw [hh] at hx
    split at hx
    · rename_i hyx
      subst hyx
      cases hx
      refine ⟨fun pa2 hpa2 => ?_, fun pm2 k2 _ hk2 => ?_⟩
      · rw [hpar, hc, hp] at hpa2; cases hpa2
      · rw [hkey] at hk2; cases hk2
        rw [hT, hpar]; exact ⟨hkok, hmax, hwb⟩
    · obtain ⟨c1, c2⟩ := H.closure x hi hx
      refine ⟨fun pa2 hpa2 => ?_, fun pm2 k2 hpm2 hk2 => ?_⟩
      · rw [hc] at hpa2; rw [hT]; exact c1 pa2 hpa2
      · rw [hc] at hpm2; rw [hT]; exact c2 pm2 k2 hpm2 hk2

/-- settling the pending containers: those that leave `O` satisfy what `O` exempted them from -/
theorem WorldOkGen.shrink {w : World} {ctr : Nat} {O' : SlabID → Prop} (H : WorldOkGen D rank none O w ctr)
    (hinl : ∀ x c, O x → ¬ O' x → w.cont? x = some c → c.isInlined = true → ∃ p, Holds w p x)
    (hidx : ∀ x, O x → ¬ O' x → ∀ p a (i : Nat), w.cont? p = some (.arr a) →
      AList.find? (w.idxOf p) x = some i → (Cont.arr a).pays[i]? = some (Pay.ref x))
    (hfaith : ∀ x c, O x → ¬ O' x → w.cont? x = some c → ∀ hi lim e, AList.find? w.hinfo x = some hi →
      ClosureAt w x hi lim e → e.size = slotSize c hi.wrap) :
    WorldOkGen D rank none O' w ctr := by
  refine ⟨H.legal, H.ids, H.addr, H.conts, ?_, H.band, H.unique, ?_, ?_, H.closure, H.rank, H.below, H.idxLive, H.hinfoLive⟩
  · intro p pc hp le hle x c hx hc
    obtain ⟨wr, h1, h2, h3, h4⟩ := H.slots p pc hp le hle x c hx hc
    refine ⟨wr, h1, h2, h3, ?_⟩
    intro hi hO' hhi hca
    by_cases hO : O x
    · have := hfaith x c hO hO' hc hi _ _ hhi hca
      rw [(h2 (by intro h; cases h)).1] at this
      exact (slotSize_inj this).symm
    · exact h4 hi hO hhi hca
  · intro x c hx hi hO'
    by_cases hO : O x
    · exact hinl x c hO hO' hx hi
    · exact H.inlRef x c hx hi hO
  · intro p a hp x i hi hO'
    by_cases hO : O x
    · exact hidx x hO hO' p a i hp hi
    · exact H.mutIdx p a hp x i hi hO

end World
end Atree
