import AtreeProofs.World.ArrRef
import AtreeProofs.World.MapRefW
import AtreeProofs.World.Basic
/-
  `ContOk` (structural validity of one container, in either form): monotone in the allocation
  counter, kept by the inline / un-inline transitions of `Cont.inline` / `Cont.uninline`.
-/
namespace Atree
open Gen

variable {T : Nat} {D : DigestFn 4}

theorem ContOk.mono {c : Cont} {ctr ctr' : Nat} (h : ContOk T D ctr c) (hc : ctr ≤ ctr') : ContOk T D ctr' c := by
  cases c with
  | arr a => exact ArrOk.mono (T := T) h hc
  | map m => exact MapOk.mono (T := T) (D := D) h hc

/-- the value ID of a valid container has been allocated -/
theorem ContOk.vid_le {c : Cont} {ctr : Nat} (h : ContOk T D ctr c) : c.vid.idx ≤ ctr := by
  cases c with
  | arr a => exact (ArrOk.rootID_ok (T := T) h).2
  | map m => exact MapOk.rootID_le (T := T) (D := D) h

/-! ### maps: the two transitions -/

/-- the slab `Cont.inline` builds -/
def inlineMSlab {r : Nat} (s : MDataSlab r) : MDataSlab r :=
  { s with inlined := true, hdr := { s.hdr with size := inlinedMapDataSlabPrefixSize + s.elems.size } }
/-- the slab `Cont.uninline` builds -/
def uninlineMSlab {r : Nat} (s : MDataSlab r) : MDataSlab r :=
  { s with inlined := false, hdr := { s.hdr with size := mapRootDataSlabPrefixSize + s.elems.size } }

theorem mapInv_inline {r : Nat} {D : DigestFn (r + 1)} {s : MDataSlab r} {ty cnt seed ctr : Nat}
    (h : MapInv T D ⟨0, s, ty, cnt, seed⟩) (hc : MapCtrOk (⟨0, s, ty, cnt, seed⟩ : OMap r) ctr) :
    MapInvInl T D ⟨0, inlineMSlab s, ty, cnt, seed⟩ ctr := by
  have hd : MDataInv T D true s := h.tree
  have hl := hd.loose
  have hl' : MDataLoose T D true (inlineMSlab s) := by
    refine ⟨hl.elems_inv, ?_, hl.first_eq, hl.root_eq, fun _ => rfl⟩
    show inlinedMapDataSlabPrefixSize + s.elems.size = (inlineMSlab s).prefixSize + s.elems.size
    simp [MDataSlab.prefixSize, inlineMSlab]
  refine MapInvInl.of_loose hl' rfl ?_ h.count_eq ?_
  · have : s.next = SlabID.undef := by
      have := h.chain
      simpa [MTree.leaves, MLeafChain] using this
    exact this
  · intro id hid ha
    exact hc id hid ha

theorem mapInvInl_uninline (hT : legalThreshold T = true) {r : Nat} {D : DigestFn (r + 1)} {s : MDataSlab r}
    {ty cnt seed ctr : Nat} (h : MapInvInl T D ⟨0, s, ty, cnt, seed⟩ ctr) (hband : s.hdr.size ≤ T) :
    MapInv T D ⟨0, uninlineMSlab s, ty, cnt, seed⟩ ∧ MapCtrOk (⟨0, uninlineMSlab s, ty, cnt, seed⟩ : OMap r) ctr := by
  obtain ⟨hl, hi2, hnext, hcnt, hids⟩ := MapInvInl.loose h
  have hsz := hl.size_eq
  have hpfx : s.prefixSize = inlinedMapDataSlabPrefixSize := by simp [MDataSlab.prefixSize, hi2]
  have hl' : MDataLoose T D true (uninlineMSlab s) := by
    refine ⟨hl.elems_inv, ?_, hl.first_eq, hl.root_eq, fun hh => by cases hh⟩
    show mapRootDataSlabPrefixSize + s.elems.size = (uninlineMSlab s).prefixSize + s.elems.size
    have : (uninlineMSlab s).root = true := hl.root_eq
    simp [MDataSlab.prefixSize, uninlineMSlab, hl.root_eq]
  have hd : MDataInv T D true (uninlineMSlab s) := by
    refine (mdataInv_iff hT true _).mpr ⟨hl', ?_, fun hh => by cases hh⟩
    show mapRootDataSlabPrefixSize + s.elems.size ≤ maxThr T
    rw [hsz, hpfx] at hband
    have := map_legal_bounds hT
    simp only [maxThr, mapRootDataSlabPrefixSize, inlinedMapDataSlabPrefixSize] at hband ⊢
    omega
  refine ⟨⟨hd, ?_, hcnt, hl'.distinct, rfl⟩, ?_⟩
  · show MLeafChain [uninlineMSlab s]
    exact hnext
  · intro id hid ha
    exact hids id hid ha

/-! ### `Cont.inline` / `Cont.uninline` -/

theorem contOk_inline {c c' : Cont} {id : SlabID} {cx cx' : Ctx} {ctr : Nat} (h : ContOk T D ctr c)
    (hi : c.inline id cx = .ok (c', cx')) : ContOk T D ctr c' := by
  unfold Cont.inline at hi
  split at hi
  · rename_i s ty
    split at hi
    · cases hi
    · rename_i hs
      cases hi
      have hni : (⟨0, s, ty⟩ : Arr).isInlined = false := by simpa [Arr.isInlined] using hs
      exact ArrOk.of_inl (arrInv_inline ((h : ArrOk T _ ctr).1 hni))
  · rename_i s ty cnt seed
    split at hi
    · cases hi
    · rename_i hs
      cases hi
      have hni : (⟨0, s, ty, cnt, seed⟩ : OMap 3).isInlined = false := by simpa [OMap.isInlined] using hs
      obtain ⟨h1, h2⟩ := (h : MapOk T D _ ctr).1 hni
      exact MapOk.of_inl (mapInv_inline h1 h2)
  · cases hi

theorem contOk_uninline (hT : legalThreshold T = true) {c c' : Cont} {id : SlabID} {cx cx' : Ctx} {ctr : Nat}
    (h : ContOk T D ctr c) (hband : c.rootSize ≤ T)
    (hi : c.uninline id cx = .ok (c', cx')) : ContOk T D ctr c' := by
  unfold Cont.uninline at hi
  split at hi
  · rename_i s ty
    split at hi
    · cases hi
    · rename_i hs
      cases hi
      have hni : (⟨0, s, ty⟩ : Arr).isInlined = true := by simpa [Arr.isInlined] using hs
      exact ArrOk.of_inv (arrInvInl_uninline hT ((h : ArrOk T _ ctr).2 hni) hband)
  · rename_i s ty cnt seed
    split at hi
    · cases hi
    · rename_i hs
      cases hi
      have hni : (⟨0, s, ty, cnt, seed⟩ : OMap 3).isInlined = true := by simpa [OMap.isInlined] using hs
      obtain ⟨h1, h2⟩ := mapInvInl_uninline hT ((h : MapOk T D _ ctr).2 hni) hband
      exact MapOk.of_inv h1 h2
  · cases hi

/-- `inlinable` of a valid container: one root slab whose inlined size fits -/
theorem ContOk.inlinable_inl {c : Cont} {ctr : Nat} (h : ContOk T D ctr c) (hi : c.isInlined = true) (lim : Nat) :
    c.inlinable lim = decide (c.rootSize ≤ lim) := by
  cases c with
  | arr a =>
    obtain ⟨s, ty, rfl, h1, h2, _⟩ := (h : ArrOk T a ctr).2 hi
    simp only [Cont.inlinable, Cont.rootSize, Arr.rootHdr, ATree.hdr, h1, h2, Bool.true_and, if_true]
    rfl
  | map m =>
    obtain ⟨s, ty, cnt, seed, rfl, h1, h2, _, _, h5, _⟩ := (h : MapOk T D m ctr).2 hi
    simp [Cont.inlinable, Cont.rootSize, OMap.rootHdr, MTree.hdr, h1, h5]

end Atree
