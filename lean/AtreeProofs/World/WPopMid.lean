import AtreeProofs.World.WPopStep
import AtreeProofs.World.PopOps
import AtreeProofs.World.Notify
/-
  The bulk pop with kept containers, generically for arrays and maps: the state at the call of
  `notifyParent` (`Emptied` + `forgetElems`) is an instance of `PopRel`; `step_pop`, the simulation
  of the notification on the pruned world and the main induction `notify_ok` give the invariant
  afterwards, the frame, and the handles.
-/
namespace Atree
open Gen

namespace World

variable {D : SlabID → DigestFn 4} {rank : SlabID → Nat}

/-- a rank for `Holds` is a rank for element references -/
theorem refRankOk_of_cRank {w : World} (hr : CRank rank w) : RefRankOk rank w := by
  intro u c hc e he v hp hv
  exact hr u v ⟨c, hc, List.mem_map.mpr ⟨e, he, hp⟩⟩ hv

/-- a payload of a container is the payload of one of its stored elements -/
theorem mem_pays_iff {c : Cont} {y : SlabID} : Pay.ref y ∈ c.pays ↔ ∃ e ∈ c.storedElems, e.pay = .ref y := by
  simp only [Cont.pays, List.mem_map]

/-- the last edge of a path of element references -/
theorem Reach.last {w : World} {v x : SlabID} (h : Reach w v x) :
    x = v ∨ ∃ u c e, Reach w v u ∧ w.cont? u = some c ∧ e ∈ c.storedElems ∧ e.pay = .ref x := by
  induction h with
  | refl _ => exact Or.inl rfl
  | @step u v x c e hc he hp hre ih =>
    rcases ih with rfl | ⟨u', c', e', hr', hc', he', hp'⟩
    · exact Or.inr ⟨u, c, e, Reach.refl (by rw [hc]; rfl), hc, he, hp⟩
    · exact Or.inr ⟨u', c', e', Reach.step hc he hp hr', hc', he', hp'⟩

/-- with unique references, two containers above a common one are comparable -/
theorem Reach.comparable {w : World} (hu : UniqueRef w) {a z : SlabID} (h1 : Reach w a z) :
    ∀ b, Reach w b z → Reach w a b ∨ Reach w b a := by
  induction h1 with
  | refl _ => exact fun b hb => Or.inr hb
  | @step u v x c e hc he hp hre ih =>
    intro b hb
    rcases ih b hb with h | h
    · exact Or.inl (Reach.step hc he hp h)
    · rcases h.last with rfl | ⟨u', c', e', hr', hc', he', hp'⟩
      · exact Or.inl (Reach.step hc he hp (Reach.refl hre.src_isSome))
      · obtain ⟨i, hi⟩ := List.mem_iff_getElem?.mp (mem_pays_iff.mpr ⟨e, he, hp⟩)
        obtain ⟨j, hj⟩ := List.mem_iff_getElem?.mp (mem_pays_iff.mpr ⟨e', he', hp'⟩)
        have := (hu u u' c c' i j v hc hc' hi hj hre.src_isSome).1
        subst this
        exact Or.inr hr'

/-- the elements the caller disposes of: those that do not refer to a kept container -/
theorem mem_disposed {keep : List SlabID} {es : List Elem} {e : Elem} :
    e ∈ disposed keep es ↔ e ∈ es ∧ ∀ v, e.pay = .ref v → v ∉ keep := by
  unfold disposed
  rw [List.mem_filter]
  constructor
  · rintro ⟨h1, h2⟩
    refine ⟨h1, fun v hv hk => ?_⟩
    rw [hv] at h2
    simp [hk] at h2
  · rintro ⟨h1, h2⟩
    refine ⟨h1, ?_⟩
    cases hp : e.pay with
    | val n => rfl
    | ref v => simpa using h2 v hp

/-- the state after the disposal of the elements `ds` of the emptied container `h` -/
theorem popRel_mid {w e0 : World} {h : SlabID} {pc pc' : Cont} {ctr : Nat}
    (H : WorldOkPK D rank (fun _ => False) w ctr) (hp : w.cont? h = some pc) (E : Emptied w h pc' e0)
    (hidx : ∀ x, AList.find? (e0.idxOf h) x = none)
    (ds : List Elem) (hds : ∀ e ∈ ds, e ∈ pc.storedElems) :
    PopRel w (e0.forgetElems ds) h pc pc' ∧ NotBelow w ds h := by
  have hrr := refRankOk_of_cRank H.rank
  have hfree : NotBelow w ds h :=
    notBelow_of_rank hrr (fun e he v hv hl => hrr h pc hp e (hds e he) v hv hl)
  obtain ⟨s, cl, n1, snd⟩ := forgetElems_spec ds e0
  obtain ⟨m1, m2, m3⟩ := E.mid_h hfree
  refine ⟨⟨E.mid_T ds, (E.mid_shrink ds).addr.trans E.addr, hp, m1, E.empty, m2, ?_, ?_, ?_, ?_⟩, hfree⟩
  · intro x
    have : (e0.forgetElems ds).idxOf h = e0.idxOf h := by simp only [idxOf, m3]
    rw [this]; exact hidx x
  · intro z hz
    rcases s.keep z with ⟨a, b, c⟩ | ⟨a, b, c, d⟩
    · exact Or.inl ⟨a.trans (E.cont_ne z hz), by rw [b, E.hinfo], c.trans (E.idx_ne z hz)⟩
    · exact Or.inr ⟨by rw [← E.cont_ne z hz]; exact a, b, c, d⟩
  · intro u c hu hc hn y hy
    obtain ⟨e, he, hpe⟩ := mem_pays_iff.mp hy
    exact cl u c (by rw [E.cont_ne u hu]; exact hc) hn e he y hpe
  · intro q qc hq hqc y hy hyl
    cases hyn : (e0.forgetElems ds).cont? y with
    | some c => rfl
    | none =>
      exfalso
      have hqw : w.cont? q = some qc := by
        rw [← E.cont_ne q hq]; exact s.some_of_some hqc
      have hyh : y ≠ h := by intro he; subst he; rw [m1] at hyn; cases hyn
      obtain ⟨e, he, v, hv, hr⟩ := snd y (by rw [E.cont_ne y hyh]; exact hyl) hyn
      obtain ⟨i, hi⟩ := List.mem_iff_getElem?.mp hy
      rcases hr.last with rfl | ⟨u, cu, eu, hru, hcu, heu, hpu⟩
      · -- `y` is an element of `h` itself
        have hm0 : Pay.ref y ∈ pc.pays := mem_pays_iff.mpr ⟨e, hds e he, hv⟩
        obtain ⟨j, hj⟩ := List.mem_iff_getElem?.mp hm0
        exact hq (H.unique q h qc pc i j y hqw hp hi hj hyl).1
      · have huh : u ≠ h := by
          intro he'; subst he'
          rw [E.cont_h] at hcu; cases hcu
          rw [E.empty] at heu; cases heu
        have hcuw : w.cont? u = some cu := by rw [← E.cont_ne u huh]; exact hcu
        have hm0 : Pay.ref y ∈ cu.pays := mem_pays_iff.mpr ⟨eu, heu, hpu⟩
        obtain ⟨j, hj⟩ := List.mem_iff_getElem?.mp hm0
        have hqu : q = u := (H.unique q u qc cu i j y hqw hcuw hi hj hyl).1
        subst hqu
        have := cl.reach_none hru (n1 e he v hv)
        rw [this] at hqc; cases hqc

/-- Generic core of the bulk pops.  `e0`: the world with `h` emptied; `es`: the popped elements. -/
theorem pop_core {w e0 w' : World} {h : SlabID} {pc pc' : Cont} {keep : List SlabID} {es : List Elem}
    {fuel : Nat} {cx1 cx' : Ctx} {ctr : Nat}
    (H : WorldOkPK D rank (fun _ => False) w ctr) (hhand : HandleOk w h) (hp : w.cont? h = some pc)
    (E : Emptied w h pc' e0) (hidx : ∀ x, AList.find? (e0.idxOf h) x = none)
    (hes : ∀ e, e ∈ es ↔ e ∈ pc.storedElems)
    (hokp : ContOk w.T (D h) cx1.ctr pc') (harr : pc'.isArr = pc.isArr) (hinlp : pc'.isInlined = pc.isInlined)
    (hvid : pc'.vid = pc.vid) (hbp : pc'.isInlined = true → pc'.rootSize ≤ w.T) (hctr : ctr ≤ cx1.ctr)
    (hn : notifyParent fuel (e0.forgetElems (disposed keep es)) h cx1 = .ok (w', cx')) :
    WorldOkPK D rank (fun x => KeptOf keep pc x ∧ (w.cont? x).isSome) w' cx'.ctr ∧ cx1.ctr ≤ cx'.ctr ∧
      (∃ c'', w'.cont? h = some c'' ∧ Cont.SameData pc' c'') ∧
      PopFrame w w' h pc keep ∧ HandleOk w' h ∧
      (∀ z, HandleOk w z → (w'.cont? z).isSome → HandleOk w' z) ∧
      (∀ z, z ≠ h → rank h ≤ rank z → NotBelow w (disposedOf keep pc) z → w'.cont? z = w.cont? z) := by
  let K : SlabID → Prop := fun x => KeptOf keep pc x ∧ (w.cont? x).isSome
  let ds := disposed keep es
  have hds : ∀ e ∈ ds, e ∈ pc.storedElems := fun e he => (hes e).mp (mem_disposed.mp he).1
  obtain ⟨P, hfree⟩ := popRel_mid H hp E hidx ds hds
  have hdseq : ∀ e, e ∈ ds ↔ e ∈ disposedOf keep pc := by
    intro e
    unfold disposedOf
    rw [mem_disposed, mem_disposed, hes]
  obtain ⟨s, cl, n1, snd⟩ := forgetElems_spec ds e0
  -- the popped children are dropped or kept
  have hpop : ∀ x, Pay.ref x ∈ pc.pays → (w.cont? x).isSome → (e0.forgetElems ds).cont? x = none ∨ K x := by
    intro x hx hxl
    by_cases hk : x ∈ keep
    · exact Or.inr ⟨⟨hk, hx⟩, hxl⟩
    · obtain ⟨e, he, hpe⟩ := mem_pays_iff.mp hx
      refine Or.inl (n1 e (mem_disposed.mpr ⟨(hes e).mpr he, fun v hv => ?_⟩) x hpe)
      rw [hpe] at hv; cases hv; exact hk
  have hK : ∀ x, K x → Pay.ref x ∈ pc.pays ∧ (w.cont? x).isSome := fun x hx => ⟨hx.1.2, hx.2⟩
  obtain ⟨Hm, hmut, hKroot⟩ := step_pop (K := K) H P hokp harr hinlp hvid hbp hctr hpop hK
  -- handles in the pruned mid state
  have hhandm : ∀ z, HandleOk w z → ((e0.forgetElems ds).cont? z).isSome → HandleOk (e0.forgetElems ds).prune z :=
    fun z hz hl => P.handleOk H.unique hz hl
  have hhand' := hhandm h hhand (by rw [P.now]; rfl)
  -- the notification, on the pruned mid state
  have hbm : HinfoBelow (e0.forgetElems ds) cx1.ctr :=
    fun x hi hx => Nat.le_trans (H.hinfoBelow x hi (P.hinfo_sub hx)) hctr
  obtain ⟨w0', hn0, S3⟩ := sim_notifyParent fuel _ _ _ _ _ _ _ (sim_prune hbm) hn
  obtain ⟨H3, F3, hc3⟩ := notify_ok D rank K fuel _ _ _ _ _ Hm hhand'
    (fun z hz _ => H.rank h z ⟨pc, hp, hz.1.2⟩ hz.2) hn0
  have hmut3 : MutIdxOkX w0' (fun _ => False) :=
    F3.sig.mutIdxOkX hmut (fun q x => by rw [F3.idx])
  have hK3 : ∀ x, K x → ∀ q, ¬ Holds w0' q x :=
    fun x hx q hq => hKroot x hx q ((F3.sig.holds_iff q x).mp hq)
  have Hfin := WorldOkPK.of_sim H3 S3 hc3 hmut3 hK3
  have hsome3 : ∀ z, (w'.cont? z).isSome = ((e0.forgetElems ds).cont? z).isSome := by
    intro z
    rw [← S3.cont?, F3.sig.isSome, cont?_prune]
  refine ⟨Hfin, hc3, ?_, ⟨?_, ?_, ?_, ?_⟩, ?_, ?_, ?_⟩
  rotate_right
  · -- the strong frame: what is neither below `h` in rank nor disposed of is untouched
    intro z hz hrk hnb
    have hnb' : NotBelow w ds z := fun e he => hnb e ((hdseq e).mp he)
    have := (E.mid_other hnb' hz).1
    rw [← S3.cont?, F3.above z hz hrk, cont?_prune, this]
  · have := F3.self
    rw [cont?_prune, P.now] at this
    obtain ⟨c'', hc'', hsd⟩ := this.get_some
    exact ⟨c'', by rw [← S3.cont?]; exact hc'', hsd⟩
  · -- gone
    intro e he v x hv hr
    have hg := E.mid_gone hfree ((hdseq e).mpr he) hv hr
    have := hsome3 x
    rw [hg] at this
    cases hx : w'.cont? x with
    | none => rfl
    | some c => rw [hx] at this; cases this
  · -- sig frame
    intro z hz hnb
    have hnb' : NotBelow w ds z := fun e he => hnb e ((hdseq e).mp he)
    have := (E.mid_other hnb' hz).1
    rw [← S3.cont?, F3.sig.sig z, cont?_prune, this]
  · -- the kept children are detached roots, unchanged with everything below them
    intro k hk hkl
    have hKk : K k := ⟨hk, hkl⟩
    refine ⟨?_, ?_⟩
    rotate_left
    · intro z hr
      have hrr := refRankOk_of_cRank H.rank
      have hrk : rank h < rank k := H.rank h k ⟨pc, hp, hk.2⟩ hkl
      have hrz : rank k ≤ rank z := hr.rank_le hrr
      have hzh : z ≠ h := by intro he; subst he; omega
      -- `z` is below no disposed element
      have hnb : NotBelow w ds z := by
        intro e he v hv hrv
        have hvk : v ≠ k := fun hvk => (mem_disposed.mp he).2 v hv (hvk ▸ hk.1)
        have hvl : (w.cont? v).isSome := hrv.src_isSome
        have hvh : Pay.ref v ∈ pc.pays := mem_pays_iff.mpr ⟨e, hds e he, hv⟩
        have hrv' : rank h < rank v := H.rank h v ⟨pc, hp, hvh⟩ hvl
        -- a path between two distinct elements of `h` would pass through `h`
        have key : ∀ a b, a ≠ b → Pay.ref b ∈ pc.pays → (w.cont? b).isSome → rank h < rank a → ¬ Reach w a b := by
          intro a b hab hb hbl hra hrab
          rcases hrab.last with rfl | ⟨u, cu, eu, hru, hcu, heu, hpu⟩
          · exact hab rfl
          · obtain ⟨i, hi⟩ := List.mem_iff_getElem?.mp hb
            obtain ⟨j, hj⟩ := List.mem_iff_getElem?.mp (mem_pays_iff.mpr ⟨eu, heu, hpu⟩)
            have := (H.unique u h cu pc j i b hcu hp hj hi hbl).1
            subst this
            have := hru.rank_le hrr
            omega
        rcases hr.comparable H.unique v hrv with h1 | h1
        · exact key k v (Ne.symm hvk) hvh hvl hrk h1
        · exact key v k hvk hk.2 hkl hrv' h1
      have hmid := (E.mid_other hnb hzh).1
      rw [← S3.cont?, F3.above z hzh (by omega), cont?_prune, hmid]
    constructor
    · rw [hsome3]
      rcases hpop k hk.2 hkl with hd | _
      · -- not dropped: no disposed element refers to it, and it is below none of them
        exfalso
        have hkh : k ≠ h := by
          intro he; subst he
          have := H.rank k k ⟨pc, hp, hk.2⟩ hkl
          omega
        obtain ⟨e, he, v, hv, hr⟩ := snd k (by rw [E.cont_ne k hkh]; exact hkl) hd
        rcases hr.last with rfl | ⟨u, cu, eu, hru, hcu, heu, hpu⟩
        · exact (mem_disposed.mp he).2 k hv hk.1
        · have huh : u ≠ h := by
            intro he'; subst he'
            rw [E.cont_h] at hcu; cases hcu
            rw [E.empty] at heu; cases heu
          have hcuw : w.cont? u = some cu := by rw [← E.cont_ne u huh]; exact hcu
          obtain ⟨i, hi⟩ := List.mem_iff_getElem?.mp hk.2
          obtain ⟨j, hj⟩ := List.mem_iff_getElem?.mp (mem_pays_iff.mpr ⟨eu, heu, hpu⟩)
          exact huh (H.unique u h cu pc j i k hcuw hp hj hi hkl).1
      · cases hc : (e0.forgetElems ds).cont? k with
        | some c => rfl
        | none =>
          exfalso
          have hkh : k ≠ h := by
            intro he; subst he
            have := H.rank k k ⟨pc, hp, hk.2⟩ hkl
            omega
          obtain ⟨e, he, v, hv, hr⟩ := snd k (by rw [E.cont_ne k hkh]; exact hkl) hc
          rcases hr.last with rfl | ⟨u, cu, eu, hru, hcu, heu, hpu⟩
          · exact (mem_disposed.mp he).2 k hv hk.1
          · have huh : u ≠ h := by
              intro he'; subst he'
              rw [E.cont_h] at hcu; cases hcu
              rw [E.empty] at heu; cases heu
            have hcuw : w.cont? u = some cu := by rw [← E.cont_ne u huh]; exact hcu
            obtain ⟨i, hi⟩ := List.mem_iff_getElem?.mp hk.2
            obtain ⟨j, hj⟩ := List.mem_iff_getElem?.mp (mem_pays_iff.mpr ⟨eu, heu, hpu⟩)
            exact huh (H.unique u h cu pc j i k hcuw hp hj hi hkl).1
    · intro q hq
      exact hK3 k hKk q ((S3.holds_iff q k).mpr hq)
  · -- nothing new
    intro z hz
    rw [hsome3] at hz
    exact P.live hz
  · exact S3.handleOk_up (hhand'.transfer (fun q x => (F3.sig.holds_iff q x).mp) F3.cur)
  · intro z hz hl
    rw [hsome3] at hl
    exact S3.handleOk_up ((hhandm z hz hl).transfer (fun q x => (F3.sig.holds_iff q x).mp) F3.cur)

end World
end Atree
