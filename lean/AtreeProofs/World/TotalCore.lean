import AtreeProofs.World.NotifyPrep
import AtreeProofs.Map.Limit
/-
  TOTAL correctness, part 1 (audit item S3): EXISTENCE forms of the container-level steps the
  nested-container operations are made of.  The implication forms (`ArrOk.set_ok`, `MapOk.set_ok`,
  `childStorable_valid`, …) say what a SUCCESSFUL step did; the lemmas here say that the step
  SUCCEEDS on a valid container and well-formed arguments, and which error it answers otherwise:

  * `ArrOk.set_total` / `insert_total` / `remove_total` (either form of the root; an inlined root
    needs room), with the rejections `set_oob` / `insert_oob` / `remove_oob` / `insert_full`;
  * `MapOk.set_total` (unless the collision limit refuses: `MapOk.set_limited`),
    `MapOk.remove_total` / `remove_absent`, and `MapOk.not_limited_of_mem`: a key that is PRESENT is
    never refused by the collision limit;
  * `Cont.inline_total` / `uninline_total` / `childStorable_total`: the four-way inline / un-inline
    switch of `Storable()` never answers the fatal error on a valid container.
-/
namespace Atree
open Gen ATree MetaSlab

variable {T : Nat}

/-! ### arrays -/

/-- `Arr.set` succeeds on an index in range -/
theorem ArrOk.set_total (hT : legalThreshold T = true) {a : Arr} {c : Ctx} (h : ArrOk T a c.ctr)
    {i : Nat} {v : Elem} (hv : StorOk T v)
    (hroom : a.isInlined = true → a.rootHdr.size + maxInlineArr T ≤ maxThr T)
    (hi : i < a.toList.length) :
    ∃ a' c', a.set T i v c = .ok (a.toList.getD i default, a', c') := by
  cases hinl : a.isInlined
  · obtain ⟨a2, c2, heq, _⟩ := arr_set_okR hT a c i v hv (h.1 hinl) hi
    exact ⟨a2, c2, heq⟩
  · obtain ⟨a2, c2, heq, _⟩ := arrInl_set hT (h.2 hinl) hv (hroom hinl) hi
    exact ⟨a2, c2, heq⟩

/-- `Arr.set` rejects an index out of range -/
theorem ArrOk.set_oob {a : Arr} {c : Ctx} (h : ArrOk T a c.ctr) {i : Nat} (v : Elem)
    (hi : a.toList.length ≤ i) : a.set T i v c = .error .indexOutOfBounds := by
  cases hinl : a.isInlined
  · exact arr_set_err a c i v (h.1 hinl) hi
  · obtain ⟨s, ty, rfl, _⟩ := h.2 hinl
    unfold Arr.set
    show (ATree.set T 0 (ofData s) i v c >>= _) = _
    rw [set_zero_err s i v c _ (DataSlab.set_err T s i v c hi)]; rfl

/-- `Arr.insert` succeeds on an index in range when the array is not full -/
theorem ArrOk.insert_total (hT : legalThreshold T = true) {a : Arr} {c : Ctx} (h : ArrOk T a c.ctr)
    {i : Nat} {v : Elem} (hv : StorOk T v)
    (hroom : a.isInlined = true → a.rootHdr.size + maxInlineArr T ≤ maxThr T)
    (hcount : a.count < maxArrayElementCount) (hi : i ≤ a.toList.length) :
    ∃ a' c', a.insert T i v c = .ok (a', c') := by
  cases hinl : a.isInlined
  · obtain ⟨a2, c2, heq, _⟩ := arr_insert_okR hT a c i v hv (h.1 hinl) hcount hi
    exact ⟨a2, c2, heq⟩
  · obtain ⟨a2, c2, heq, _⟩ := arrInl_insert hT (h.2 hinl) hv (hroom hinl) hcount hi
    exact ⟨a2, c2, heq⟩

/-- `Arr.insert` on a full array: `ArrayElementCannotExceedMaxElementCountError`, whatever the index -/
theorem Arr.insert_full (a : Arr) (c : Ctx) (i : Nat) (v : Elem) (hfull : a.count = maxArrayElementCount) :
    a.insert T i v c = .error .maxElementCount := by
  unfold Arr.insert
  rw [if_pos hfull]

/-- `Arr.insert` rejects an index out of range (array not full) -/
theorem ArrOk.insert_oob {a : Arr} {c : Ctx} (h : ArrOk T a c.ctr) {i : Nat} (v : Elem)
    (hne : a.count ≠ maxArrayElementCount) (hi : a.toList.length < i) :
    a.insert T i v c = .error .indexOutOfBounds := by
  cases hinl : a.isInlined
  · exact arr_insert_err a c i v (h.1 hinl) hne hi
  · obtain ⟨s, ty, rfl, _⟩ := h.2 hinl
    unfold Arr.insert
    have hne' : ¬ s.hdr.count = maxArrayElementCount := hne
    show (if s.hdr.count = maxArrayElementCount then _ else _) = _
    rw [if_neg hne']
    show (ATree.insert T 0 (ofData s) i v c >>= _) = _
    rw [insert_zero_err s i v c _ (DataSlab.insert_err T s i v c hi)]; rfl

/-- `Arr.remove` succeeds on an index in range -/
theorem ArrOk.remove_total (hT : legalThreshold T = true) {a : Arr} {c : Ctx} (h : ArrOk T a c.ctr)
    {i : Nat} (hi : i < a.toList.length) :
    ∃ a' c', a.remove T i c = .ok (a.toList.getD i default, a', c') := by
  cases hinl : a.isInlined
  · obtain ⟨a2, c2, heq, _⟩ := arr_remove_okR hT a c i (h.1 hinl) hi
    exact ⟨a2, c2, heq⟩
  · obtain ⟨a2, c2, heq, _⟩ := arrInl_remove (h.2 hinl) hi
    exact ⟨a2, c2, heq⟩

/-- `Arr.remove` rejects an index out of range -/
theorem ArrOk.remove_oob {a : Arr} {c : Ctx} (h : ArrOk T a c.ctr) {i : Nat}
    (hi : a.toList.length ≤ i) : a.remove T i c = .error .indexOutOfBounds := by
  cases hinl : a.isInlined
  · exact arr_remove_err a c i (h.1 hinl) hi
  · obtain ⟨s, ty, rfl, _⟩ := h.2 hinl
    unfold Arr.remove
    show (ATree.remove T 0 (ofData s) i c >>= _) = _
    rw [remove_zero_err s i c _ (DataSlab.remove_err s i c hi)]; rfl

/-! ### maps -/

section maps
variable {r : Nat} {D : DigestFn (r + 1)} {cfg : MCfg}

/-- the structural invariant the collision-limit lemmas speak about, in either form -/
theorem MapOk.sinv {m : OMap r} {ctr : Nat} (h : MapOk T D m ctr) : SInv T D m.d true m.root := by
  cases hi : m.isInlined
  · exact (h.1 hi).1.sinv
  · obtain ⟨s, ty, cnt, seed, rfl, _⟩ := h.2 hi
    exact (MapInvInl.loose (h.2 hi)).1

/-- a key that is present is not refused by the collision limit (`OMap.set` of an existing key
    overwrites; the limit only guards the creation of a new entry) -/
theorem MapOk.not_limited_of_mem (hT : legalThreshold T = true) {m : OMap r} {ctr : Nat} (h : MapOk T D m ctr)
    {k : MKey} {v : Elem} (hmem : (k, v) ∈ m.toList) : ¬ TLimited cfg m.d m.root k :=
  fun hl => tlimited_absent hT m.d true m.root h.sinv hl _ hmem rfl

/-- `OMap.set` succeeds unless the collision limit refuses the key -/
theorem MapOk.set_total (hT : legalThreshold T = true) {m : OMap r} {c : Ctx} (h : MapOk T D m c.ctr)
    (hcfg : CfgOk cfg T m) {k : MKey} (hk : KeyOk T (r + 1) D k) {v : Elem} (hv : ValueOkR T k.size v)
    (hroom : m.isInlined = true → m.rootHdr.size + maxEntry T ≤ maxThr T)
    (hnl : ¬ TLimited cfg m.d m.root k) :
    ∃ old m' c', m.set cfg k v c = .ok (old, m', c') := by
  have hc : CfgFor cfg T (r + 1) := ⟨hcfg.1, hcfg.2.1⟩
  cases hinl : m.isInlined
  · obtain ⟨hinv, _⟩ := h.1 hinl
    obtain ⟨old, m', c', heq, _⟩ := (OMap.set_spec_refC hT hcfg hinv hk hv c).2 hnl
    exact ⟨old, m', c', heq⟩
  · obtain ⟨s, ty, cnt, seed, rfl, _⟩ := h.2 hinl
    obtain ⟨hloose, _, _, _, _⟩ := MapInvInl.loose (h.2 hinl)
    obtain ⟨old2, t', c1, heq, hp⟩ := (set_spec_zero_ref hT hc s hloose hk hv c).2 hnl
    have hroom' : s.hdr.size + maxEntry T ≤ maxThr T := hroom hinl
    have hsz : (MTree.hdr 0 t').size ≤ s.hdr.size + maxEntry T := hp.size_le
    have hnf : ¬ MTree.isFull cfg.T 0 t' = true := by
      rw [hcfg.1]
      intro hf
      have := (mtree_isFull_iff T 0 t').mp hf
      omega
    exact ⟨_, _, _, OMap.set_inl_unfold s ty cnt seed k v c k old2 t' c1 heq hnf⟩

/-- `OMap.set` of a key refused by the collision limit: the collision-limit error -/
theorem MapOk.set_limited (hT : legalThreshold T = true) {m : OMap r} {c : Ctx} (h : MapOk T D m c.ctr)
    (hcfg : CfgOk cfg T m) {k : MKey} (hk : KeyOk T (r + 1) D k) {v : Elem} (hv : ValueOkR T k.size v)
    (hl : TLimited cfg m.d m.root k) : m.set cfg k v c = .error .collisionLimit := by
  have hc : CfgFor cfg T (r + 1) := ⟨hcfg.1, hcfg.2.1⟩
  cases hinl : m.isInlined
  · exact (OMap.set_spec_refC hT hcfg (h.1 hinl).1 hk hv c).1 hl
  · obtain ⟨s, ty, cnt, seed, rfl, _⟩ := h.2 hinl
    obtain ⟨hloose, _, _, _, _⟩ := MapInvInl.loose (h.2 hinl)
    have s1 := (set_spec_zero_ref hT hc s hloose hk hv c).1 hl
    simp only [OMap.set, s1, bind, Except.bind]

/-- `OMap.remove` succeeds on a key that is present and hands back its pair -/
theorem MapOk.remove_total (hT : legalThreshold T = true) {m : OMap r} {c : Ctx} (h : MapOk T D m c.ctr)
    (hcfg : CfgOk cfg T m) {k : MKey} (hk : KeyOk T (r + 1) D k)
    (hroom : m.isInlined = true → m.rootHdr.size + maxEntry T ≤ maxThr T)
    {v : Elem} (hmem : (k, v) ∈ m.toList) :
    ∃ m' c', m.remove cfg k c = .ok (k, v, m', c') := by
  have hc : CfgFor cfg T (r + 1) := ⟨hcfg.1, hcfg.2.1⟩
  cases hinl : m.isInlined
  · obtain ⟨hinv, hctr⟩ := h.1 hinl
    obtain ⟨m2, c2, heq, _⟩ := (OMap.remove_specC hT hcfg hinv hk c hctr).2 v hmem
    exact ⟨m2, c2, heq⟩
  · obtain ⟨s, ty, cnt, seed, rfl, _⟩ := h.2 hinl
    obtain ⟨hloose, _, _, _, _⟩ := MapInvInl.loose (h.2 hinl)
    obtain ⟨t', c1, heq, hp⟩ := (remove_spec_zero hT hc s hloose hk c).2 v hmem
    have hroom' : s.hdr.size + maxEntry T ≤ maxThr T := hroom hinl
    have hsz : (MTree.hdr 0 t').size ≤ s.hdr.size + maxEntry T := hp.size_le
    have hnf : ¬ MTree.isFull cfg.T 0 t' = true := by
      rw [hcfg.1]
      intro hf
      have := (mtree_isFull_iff T 0 t').mp hf
      omega
    exact ⟨_, _, OMap.remove_inl_unfold s ty cnt seed k c k v t' c1 heq hnf⟩

/-- `OMap.remove` of an absent key: `keyNotFound` -/
theorem MapOk.remove_absent (hT : legalThreshold T = true) {m : OMap r} {c : Ctx} (h : MapOk T D m c.ctr)
    (hcfg : CfgOk cfg T m) {k : MKey} (hk : KeyOk T (r + 1) D k)
    (habs : ∀ p ∈ m.toList, p.1 ≠ k) : m.remove cfg k c = .error .keyNotFound := by
  have hc : CfgFor cfg T (r + 1) := ⟨hcfg.1, hcfg.2.1⟩
  cases hinl : m.isInlined
  · exact (OMap.remove_specC hT hcfg (h.1 hinl).1 hk c (h.1 hinl).2).1 habs
  · obtain ⟨s, ty, cnt, seed, rfl, _⟩ := h.2 hinl
    obtain ⟨hloose, _, _, _, _⟩ := MapInvInl.loose (h.2 hinl)
    have s1 := (remove_spec_zero hT hc s hloose hk c).1 habs
    simp only [OMap.remove, s1, bind, Except.bind]

end maps

/-! ### the inline / un-inline switch -/

namespace Cont

theorem inline_arr0 (s : DataSlab) (ty : Nat) (id : SlabID) (cx : Ctx) (hs : s.inlined = false) :
    ∃ c' cx', Cont.inline (.arr ⟨0, s, ty⟩) id cx = .ok (c', cx') := by
  simp only [Cont.inline, hs]
  exact ⟨_, _, rfl⟩

theorem inline_map0 (s : MDataSlab 3) (ty cnt seed : Nat) (id : SlabID) (cx : Ctx) (hs : s.inlined = false) :
    ∃ c' cx', Cont.inline (.map ⟨0, s, ty, cnt, seed⟩) id cx = .ok (c', cx') := by
  simp only [Cont.inline, hs]
  exact ⟨_, _, rfl⟩

theorem uninline_arr0 (s : DataSlab) (ty : Nat) (id : SlabID) (cx : Ctx) (hs : s.inlined = true) :
    ∃ c' cx', Cont.uninline (.arr ⟨0, s, ty⟩) id cx = .ok (c', cx') := by
  simp only [Cont.uninline, hs]
  exact ⟨_, _, rfl⟩

theorem uninline_map0 (s : MDataSlab 3) (ty cnt seed : Nat) (id : SlabID) (cx : Ctx) (hs : s.inlined = true) :
    ∃ c' cx', Cont.uninline (.map ⟨0, s, ty, cnt, seed⟩) id cx = .ok (c', cx') := by
  simp only [Cont.uninline, hs]
  exact ⟨_, _, rfl⟩

/-- `Inline()` succeeds on a standalone container that passes the `Inlinable` test -/
theorem inline_total {c : Cont} {lim : Nat} (hable : c.inlinable lim = true) (hinl : c.isInlined = false)
    (id : SlabID) (cx : Ctx) : ∃ c' cx', c.inline id cx = .ok (c', cx') := by
  cases c with
  | arr a =>
    obtain ⟨d, s, ty⟩ := a
    cases d with
    | zero =>
      exact inline_arr0 s ty id cx hinl
    | succ d => simp [Cont.inlinable] at hable
  | map m =>
    obtain ⟨d, s, ty, cnt, seed⟩ := m
    cases d with
    | zero =>
      exact inline_map0 s ty cnt seed id cx hinl
    | succ d => simp [Cont.inlinable] at hable

/-- `Uninline()` succeeds on an inlined container -/
theorem uninline_total {c : Cont} (hinl : c.isInlined = true) (id : SlabID) (cx : Ctx) :
    ∃ c' cx', c.uninline id cx = .ok (c', cx') := by
  cases c with
  | arr a =>
    obtain ⟨d, s, ty⟩ := a
    cases d with
    | zero =>
      exact uninline_arr0 s ty id cx hinl
    | succ d => simp [Cont.isInlined, Arr.isInlined] at hinl
  | map m =>
    obtain ⟨d, s, ty, cnt, seed⟩ := m
    cases d with
    | zero =>
      exact uninline_map0 s ty cnt seed id cx hinl
    | succ d => simp [Cont.isInlined, OMap.isInlined] at hinl

end Cont

namespace World

/-- `Storable()` of a live container never fails: in each of the four cases of the switch the form
    of the container is the one `Inline` / `Uninline` expects -/
theorem childStorable_total {w : World} {y : SlabID} {c : Cont} (hy : w.cont? y = some c)
    (wrap lim : Nat) (cx : Ctx) : ∃ e w1 cx1, w.childStorable y wrap lim cx = .ok (e, w1, cx1) := by
  unfold childStorable
  simp only [hy]
  split
  · exact ⟨_, _, _, rfl⟩
  · split
    · exact ⟨_, _, _, rfl⟩
    · split
      · rename_i h1 h2 h3
        simp only [Bool.and_eq_true, Bool.not_eq_true'] at h3
        obtain ⟨c', cx', hin⟩ := Cont.inline_total h3.1 h3.2 y cx
        rw [hin]
        exact ⟨_, _, _, rfl⟩
      · rename_i h1 h2 h3
        have hinl : c.isInlined = true := by
          cases hi : c.isInlined with
          | true => rfl
          | false =>
            cases hb : c.inlinable (lim - 2 * wrap) <;> simp [hi, hb] at h1 h2 h3
        obtain ⟨c', cx', hun⟩ := Cont.uninline_total hinl y cx
        rw [hun]
        exact ⟨_, _, _, rfl⟩

end World
end Atree
