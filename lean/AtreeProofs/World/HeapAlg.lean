import AtreeProofs.WorldHeap
import AtreeProofs.World.Basic
import AtreeProofs.Map.EffectsAcct
/-
  Algebra of World-level heap accounts (`World.WAcct`, `AtreeProofs/WorldHeap.lean`):
  membership in the heap list, reflexivity, transitivity, the FRAME step (one container of the
  table is replaced, the account of that container lifts to the world), and the passage from the
  semantic account to the lookup-level statement `WEffectsComplete`.
-/
namespace Atree
open Gen

/-! ### lists -/

theorem keys_tail {α : Type} (L : List (SlabID × α)) : AList.keys L.tail = (AList.keys L).tail := by
  cases L <;> rfl

theorem mem_keys_of_mem_tail {α : Type} {L : List (SlabID × α)} {id : SlabID} (h : id ∈ AList.keys L.tail) :
    id ∈ AList.keys L := by
  rw [keys_tail] at h; exact List.mem_of_mem_tail h

namespace Cont

theorem heapIds_sub_treeIds (c : Cont) : ∀ id ∈ c.heapIds, id ∈ c.treeIds := by
  intro id h
  unfold heapIds slabs at h
  split at h
  · exact mem_keys_of_mem_tail h
  · exact h

theorem mem_slabs_treeSlabs (c : Cont) : ∀ p ∈ c.slabs, p ∈ c.treeSlabs := by
  intro p h
  unfold slabs at h
  split at h
  · exact List.mem_of_mem_tail h
  · exact h

theorem nodup_heapIds {c : Cont} (h : c.treeIds.Nodup) : c.heapIds.Nodup := by
  unfold heapIds slabs
  split
  · rw [keys_tail]; exact List.Nodup.sublist (List.tail_sublist _) h
  · exact h

theorem mem_heapIds_iff (c : Cont) (id : SlabID) : id ∈ c.heapIds ↔ ∃ s, (id, s) ∈ c.slabs :=
  mem_keys_iff c.slabs id

end Cont

namespace World

/-! ### the heap as a list and as a predicate -/

theorem mem_heapOf_iff (w : World) (id : SlabID) (s : WSlab) : (id, s) ∈ w.heapOf ↔ w.HasSlab id s := by
  unfold heapOf HasSlab
  simp only [List.mem_flatMap, List.mem_eraseDups]
  constructor
  · rintro ⟨x, _, hx⟩
    cases hc : w.cont? x with
    | none => rw [hc] at hx; cases hx
    | some c => rw [hc] at hx; exact ⟨x, c, hc, hx⟩
  · rintro ⟨x, c, hc, hm⟩
    refine ⟨x, ?_, by rw [hc]; exact hm⟩
    have : AList.find? w.conts x ≠ none := by
      have : w.cont? x = AList.find? w.conts x := rfl
      rw [← this, hc]; simp
    exact (AList.find?_ne_none_iff _ _).1 this

theorem inHeap_iff (w : World) (id : SlabID) : w.InHeap id ↔ ∃ s, w.HasSlab id s := by
  unfold InHeap HasSlab
  constructor
  · rintro ⟨x, c, hc, hm⟩
    obtain ⟨s, hs⟩ := (Cont.mem_heapIds_iff c id).1 hm
    exact ⟨s, x, c, hc, hs⟩
  · rintro ⟨s, x, c, hc, hm⟩
    exact ⟨x, c, hc, (Cont.mem_heapIds_iff c id).2 ⟨s, hm⟩⟩

theorem mem_heapIds_iff (w : World) (id : SlabID) : id ∈ w.heapIds ↔ w.InHeap id := by
  unfold heapIds
  rw [mem_keys_iff, inHeap_iff]
  simp only [mem_heapOf_iff]

theorem InHeap.inTree {w : World} {id : SlabID} (h : w.InHeap id) : w.InTree id := by
  obtain ⟨x, c, hc, hm⟩ := h
  exact ⟨x, c, hc, c.heapIds_sub_treeIds id hm⟩

theorem HasSlab.inHeap {w : World} {id : SlabID} {s : WSlab} (h : w.HasSlab id s) : w.InHeap id :=
  (inHeap_iff w id).2 ⟨s, h⟩

/-- worlds with the same table of containers have the same heap -/
theorem hasSlab_congr {w w' : World} (h : ∀ z, w'.cont? z = w.cont? z) (id : SlabID) (s : WSlab) :
    w'.HasSlab id s ↔ w.HasSlab id s := by
  unfold HasSlab; simp only [h]

theorem inHeap_congr {w w' : World} (h : ∀ z, w'.cont? z = w.cont? z) (id : SlabID) :
    w'.InHeap id ↔ w.InHeap id := by
  unfold InHeap; simp only [h]

theorem inTree_congr {w w' : World} (h : ∀ z, w'.cont? z = w.cont? z) (id : SlabID) :
    w'.InTree id ↔ w.InTree id := by
  unfold InTree; simp only [h]

/-! ### the ownership invariant -/

theorem HeapOk.congr {w w' : World} {ctr : Nat} (H : HeapOk w ctr) (h : ∀ z, w'.cont? z = w.cont? z)
    (ha : w'.addr = w.addr) : HeapOk w' ctr := by
  refine ⟨?_, ?_, ?_, ?_⟩
  · intro x c x' c' id h1 h2; rw [h] at h1 h2; exact H.own x c x' c' id h1 h2
  · intro x c h1; rw [h] at h1; exact H.nodup x c h1
  · intro x c id h1; rw [h] at h1; exact H.below x c id h1
  · intro x c id h1; rw [h] at h1; rw [ha]; exact H.addr x c id h1

theorem HeapOk.mono {w : World} {ctr ctr' : Nat} (H : HeapOk w ctr) (h : ctr ≤ ctr') : HeapOk w ctr' :=
  ⟨H.own, H.nodup, fun x c id h1 h2 => Nat.le_trans (H.below x c id h1 h2) h, H.addr⟩

theorem HeapOk.inTree_le {w : World} {ctr : Nat} (H : HeapOk w ctr) {id : SlabID} (h : w.InTree id) : id.idx ≤ ctr := by
  obtain ⟨x, c, hc, hm⟩ := h
  exact H.below x c id hc hm

/-- with the ownership invariant a slab ID has one content -/
theorem HeapOk.hasSlab_unique {w : World} {ctr : Nat} (H : HeapOk w ctr) {id : SlabID} {s s' : WSlab}
    (h : w.HasSlab id s) (h' : w.HasSlab id s') : s = s' := by
  obtain ⟨x, c, hc, hm⟩ := h
  obtain ⟨x', c', hc', hm'⟩ := h'
  have hx : x = x' := H.own x c x' c' id hc hc'
    (c.heapIds_sub_treeIds id (mem_keys_of_mem hm)) (c'.heapIds_sub_treeIds id (mem_keys_of_mem hm'))
  subst hx
  rw [hc] at hc'; cases hc'
  have hnd : (AList.keys c.slabs).Nodup := Cont.nodup_heapIds (H.nodup x c hc)
  have h1 := (AList.mem_iff_find? c.slabs hnd id s).1 hm
  have h2 := (AList.mem_iff_find? c.slabs hnd id s').1 hm'
  rw [h1] at h2; cases h2; rfl

theorem HeapOk.nodup_heapIds {w : World} {ctr : Nat} (H : HeapOk w ctr) : w.heapIds.Nodup := by
  unfold heapIds heapOf
  have hnd := nodup_eraseDups (AList.keys w.conts)
  generalize (AList.keys w.conts).eraseDups = L at hnd
  induction L with
  | nil => simp [AList.keys]
  | cons x L ih =>
    rw [List.nodup_cons] at hnd
    rw [List.flatMap_cons, keys_append, List.nodup_append]
    refine ⟨?_, ih hnd.2, ?_⟩
    · cases hc : w.cont? x with
      | none => simp [AList.keys]
      | some c => exact Cont.nodup_heapIds (H.nodup x c hc)
    · intro a ha b hb hab
      subst hab
      cases hc : w.cont? x with
      | none => rw [hc] at ha; simp [AList.keys] at ha
      | some c =>
        rw [hc] at ha
        rw [mem_keys_iff] at hb
        obtain ⟨s, hs⟩ := hb
        rw [List.mem_flatMap] at hs
        obtain ⟨y, hy, hs⟩ := hs
        cases hc' : w.cont? y with
        | none => rw [hc'] at hs; cases hs
        | some c' =>
          rw [hc'] at hs
          have := H.own x c y c' a hc hc' (c.heapIds_sub_treeIds a ha)
            (c'.heapIds_sub_treeIds a (mem_keys_of_mem hs))
          subst this
          exact hnd.1 hy

theorem HeapOk.slabAt_eq_some {w : World} {ctr : Nat} (H : HeapOk w ctr) (id : SlabID) (s : WSlab) :
    w.slabAt id = some s ↔ w.HasSlab id s := by
  unfold slabAt
  rw [← AList.mem_iff_find? w.heapOf H.nodup_heapIds, mem_heapOf_iff]

theorem slabAt_isSome (w : World) (id : SlabID) : (w.slabAt id).isSome ↔ w.InHeap id := by
  unfold slabAt
  rw [← mem_heapIds_iff, heapIds]
  rw [Option.isSome_iff_ne_none, AList.find?_ne_none_iff]

theorem slabAt_isNone (w : World) (id : SlabID) : (w.slabAt id).isNone ↔ ¬ w.InHeap id := by
  rw [← slabAt_isSome]
  cases w.slabAt id <;> simp

/-! ### accounts -/

namespace WAcct

theorem refl (c : Nat) (w : World) : WAcct c c w w [] [] :=
  ⟨Nat.le_refl _, fun _ _ h => Or.inl h, fun _ h h' => absurd h h', by simp, by simp, by simp, by simp,
    fun _ h => Or.inl h⟩

/-- only the table of containers matters -/
theorem congr {c c' : Nat} {w w' v v' : World} {E : List Eff} {cr : List SlabID} (h : WAcct c c' w w' E cr)
    (hv : ∀ z, v.cont? z = w.cont? z) (hv' : ∀ z, v'.cont? z = w'.cont? z) : WAcct c c' v v' E cr := by
  refine ⟨h.le, ?_, ?_, ?_, ?_, ?_, h.fresh, ?_⟩
  · intro id s h1
    rw [hasSlab_congr hv' id s] at h1
    rw [hasSlab_congr hv id s]
    exact h.kept id s h1
  · intro id h1 h2
    rw [inHeap_congr hv id] at h1
    rw [inHeap_congr hv' id] at h2
    exact h.gone id h1 h2
  · intro id h1
    rw [inHeap_congr hv' id]
    exact h.stored id h1
  · intro id h1
    rw [inHeap_congr hv' id]
    exact h.removed id h1
  · intro id h1
    rw [inTree_congr hv id]
    exact h.foot id h1
  · intro id h1
    rw [inTree_congr hv' id] at h1
    rw [inTree_congr hv id]
    exact h.tnew id h1

/-- nothing happened to the table of containers -/
theorem of_conts {c : Nat} {w w' : World} (h : ∀ z, w'.cont? z = w.cont? z) : WAcct c c w w' [] [] :=
  (refl c w).congr (fun _ => rfl) h

/-- one step after the other -/
theorem trans {c c1 c2 : Nat} {w w1 w2 : World} {E1 E2 : List Eff} {cr1 cr2 : List SlabID}
    (h1 : WAcct c c1 w w1 E1 cr1) (h2 : WAcct c1 c2 w1 w2 E2 cr2)
    (hS : ∀ id, w.InTree id → id.idx ≤ c) : WAcct c c2 w w2 (E1 ++ E2) (cr1 ++ cr2) := by
  have hc := h1.le
  have hc' := h2.le
  refine ⟨Nat.le_trans hc hc', ?_, ?_, ?_, ?_, ?_, ?_, ?_⟩
  · intro id s hp
    rcases h2.kept id s hp with h3 | h3
    · cases hl : lastAction E2 id with
      | none =>
        rw [lastAction_append_none hl]
        exact h1.kept id s h3
      | some b =>
        cases b with
        | true => exact Or.inr (lastAction_append_some hl)
        | false => exact absurd hp.inHeap (h2.removed id hl)
    · exact Or.inr (lastAction_append_some h3)
  · intro id hid hid2
    by_cases hm : w1.InHeap id
    · exact lastAction_append_some (h2.gone id hm hid2)
    · have hg := h1.gone id hid hm
      cases hl : lastAction E2 id with
      | none => rw [lastAction_append_none hl]; exact hg
      | some b =>
        cases b with
        | false => exact lastAction_append_some hl
        | true =>
          rcases h2.stored id hl with h3 | h3
          · exact absurd h3 hid2
          · have := h2.fresh id h3
            have := hS id hid.inTree
            omega
  · intro id hid
    cases hl : lastAction E2 id with
    | none =>
      rw [lastAction_append_none hl] at hid
      rcases h1.stored id hid with h3 | h3
      · by_cases hm : w2.InHeap id
        · exact Or.inl hm
        · have := h2.gone id h3 hm
          rw [hl] at this; cases this
      · exact Or.inr (List.mem_append.2 (Or.inl h3))
    | some b =>
      rw [lastAction_append_some hl] at hid
      cases hid
      rcases h2.stored id hl with h3 | h3
      · exact Or.inl h3
      · exact Or.inr (List.mem_append.2 (Or.inr h3))
  · intro id hid hm
    cases hl : lastAction E2 id with
    | none =>
      rw [lastAction_append_none hl] at hid
      obtain ⟨s, hs⟩ := (inHeap_iff w2 id).1 hm
      rcases h2.kept id s hs with h3 | h3
      · exact h1.removed id hid h3.inHeap
      · rw [hl] at h3; cases h3
    | some b =>
      rw [lastAction_append_some hl] at hid
      cases hid
      exact h2.removed id hl hm
  · intro id hid
    cases hl : lastAction E2 id with
    | none =>
      rw [lastAction_append_none hl] at hid
      exact h1.foot id hid
    | some b =>
      rcases h2.foot id (by rw [hl]; simp) with h3 | h3
      · exact h1.tnew id h3
      · exact Or.inr (by omega)
  · intro id hid
    rcases List.mem_append.1 hid with h3 | h3
    · exact h1.fresh id h3
    · have := h2.fresh id h3; omega
  · intro id hid
    rcases h2.tnew id hid with h3 | h3
    · exact h1.tnew id h3
    · exact Or.inr (by omega)

end WAcct

/-! ### one container is replaced -/

/-- the account of ONE container: from `pc` to `pc'` -/
structure CAcct (c c' : Nat) (pc pc' : Cont) (E : List Eff) (cr : List SlabID) : Prop where
  le : c ≤ c'
  kept : ∀ p ∈ pc'.slabs, p ∈ pc.slabs ∨ lastAction E p.1 = some true
  gone : ∀ id ∈ pc.heapIds, id ∉ pc'.heapIds → lastAction E id = some false
  stored : ∀ id, lastAction E id = some true → id ∈ pc'.heapIds ∨ id ∈ cr
  removed : ∀ id, lastAction E id = some false → id ∉ pc'.heapIds
  foot : ∀ id, lastAction E id ≠ none → id ∈ pc.treeIds ∨ c < id.idx
  fresh : ∀ id ∈ cr, c < id.idx
  tnew : ∀ id ∈ pc'.treeIds, id ∈ pc.treeIds ∨ c < id.idx

theorem hasSlab_setCont (w : World) (p : SlabID) (pc' : Cont) (id : SlabID) (s : WSlab) :
    (w.setCont p pc').HasSlab id s ↔ (id, s) ∈ pc'.slabs ∨ ∃ x c, x ≠ p ∧ w.cont? x = some c ∧ (id, s) ∈ c.slabs := by
  unfold HasSlab
  constructor
  · rintro ⟨x, c, hc, hm⟩
    rw [cont?_setCont] at hc
    split at hc
    · cases hc; exact Or.inl hm
    · rename_i hne; exact Or.inr ⟨x, c, fun h => hne h.symm, hc, hm⟩
  · rintro (hm | ⟨x, c, hne, hc, hm⟩)
    · exact ⟨p, pc', cont?_setCont_self _ _ _, hm⟩
    · exact ⟨x, c, by rw [cont?_setCont_ne _ _ _ _ hne]; exact hc, hm⟩

theorem inHeap_setCont (w : World) (p : SlabID) (pc' : Cont) (id : SlabID) :
    (w.setCont p pc').InHeap id ↔ id ∈ pc'.heapIds ∨ ∃ x c, x ≠ p ∧ w.cont? x = some c ∧ id ∈ c.heapIds := by
  unfold InHeap
  constructor
  · rintro ⟨x, c, hc, hm⟩
    rw [cont?_setCont] at hc
    split at hc
    · cases hc; exact Or.inl hm
    · rename_i hne; exact Or.inr ⟨x, c, fun h => hne h.symm, hc, hm⟩
  · rintro (hm | ⟨x, c, hne, hc, hm⟩)
    · exact ⟨p, pc', cont?_setCont_self _ _ _, hm⟩
    · exact ⟨x, c, by rw [cont?_setCont_ne _ _ _ _ hne]; exact hc, hm⟩

theorem inTree_setCont (w : World) (p : SlabID) (pc' : Cont) (id : SlabID) :
    (w.setCont p pc').InTree id ↔ id ∈ pc'.treeIds ∨ ∃ x c, x ≠ p ∧ w.cont? x = some c ∧ id ∈ c.treeIds := by
  unfold InTree
  constructor
  · rintro ⟨x, c, hc, hm⟩
    rw [cont?_setCont] at hc
    split at hc
    · cases hc; exact Or.inl hm
    · rename_i hne; exact Or.inr ⟨x, c, fun h => hne h.symm, hc, hm⟩
  · rintro (hm | ⟨x, c, hne, hc, hm⟩)
    · exact ⟨p, pc', cont?_setCont_self _ _ _, hm⟩
    · exact ⟨x, c, by rw [cont?_setCont_ne _ _ _ _ hne]; exact hc, hm⟩

/-- THE FRAME STEP: container `p` changes from `pc` to `pc'`, accounted for by `E`; every other
    container is untouched; the ownership invariant is kept. -/
theorem CAcct.lift {c c' : Nat} {w : World} {p : SlabID} {pc pc' : Cont} {E : List Eff} {cr : List SlabID}
    (h : CAcct c c' pc pc' E cr) (H : HeapOk w c) (hp : w.cont? p = some pc)
    (hnd : pc'.treeIds.Nodup) (hle : ∀ id ∈ pc'.treeIds, id.idx ≤ c' ∧ id.addr = w.addr) :
    WAcct c c' w (w.setCont p pc') E cr ∧ HeapOk (w.setCont p pc') c' := by
  -- an ID touched by the log or new in the tree of `p` is not in the tree of another container
  have hother : ∀ id, (id ∈ pc.treeIds ∨ c < id.idx) → ∀ x cc, x ≠ p → w.cont? x = some cc → id ∉ cc.treeIds := by
    intro id h1 x cc hne hx hm
    rcases h1 with h1 | h1
    · exact hne (H.own x cc p pc id hx hp hm h1)
    · have := H.below x cc id hx hm; omega
  refine ⟨⟨h.le, ?_, ?_, ?_, ?_, ?_, h.fresh, ?_⟩, ?_, ?_, ?_, ?_⟩
  · intro id s h1
    rcases (hasSlab_setCont w p pc' id s).1 h1 with h2 | ⟨x, cc, _, hx, h2⟩
    · rcases h.kept (id, s) h2 with h3 | h3
      · exact Or.inl ⟨p, pc, hp, h3⟩
      · exact Or.inr h3
    · exact Or.inl ⟨x, cc, hx, h2⟩
  · intro id h1 h2
    obtain ⟨x, cc, hx, hm⟩ := h1
    by_cases hxp : x = p
    · subst hxp
      rw [hp] at hx; cases hx
      exact h.gone id hm (fun h3 => h2 ((inHeap_setCont w x pc' id).2 (Or.inl h3)))
    · exact absurd ((inHeap_setCont w p pc' id).2 (Or.inr ⟨x, cc, hxp, hx, hm⟩)) h2
  · intro id h1
    rcases h.stored id h1 with h2 | h2
    · exact Or.inl ((inHeap_setCont w p pc' id).2 (Or.inl h2))
    · exact Or.inr h2
  · intro id h1 h2
    rcases (inHeap_setCont w p pc' id).1 h2 with h3 | ⟨x, cc, hne, hx, h3⟩
    · exact h.removed id h1 h3
    · exact hother id (h.foot id (by rw [h1]; simp)) x cc hne hx (cc.heapIds_sub_treeIds id h3)
  · intro id h1
    rcases h.foot id h1 with h2 | h2
    · exact Or.inl ⟨p, pc, hp, h2⟩
    · exact Or.inr h2
  · intro id h1
    rcases (inTree_setCont w p pc' id).1 h1 with h2 | ⟨x, cc, _, hx, h2⟩
    · rcases h.tnew id h2 with h3 | h3
      · exact Or.inl ⟨p, pc, hp, h3⟩
      · exact Or.inr h3
    · exact Or.inl ⟨x, cc, hx, h2⟩
  · intro x cc x' cc' id hx hx' hm hm'
    rw [cont?_setCont] at hx hx'
    split at hx <;> split at hx'
    · rename_i e1 e2; exact e1.symm.trans e2
    · rename_i e1 e2
      cases hx
      exact absurd hm' (hother id (h.tnew id hm) x' cc' (fun e => e2 e.symm) hx')
    · rename_i e1 e2
      cases hx'
      exact absurd hm (hother id (h.tnew id hm') x cc (fun e => e1 e.symm) hx)
    · exact H.own x cc x' cc' id hx hx' hm hm'
  · intro x cc hx
    rw [cont?_setCont] at hx
    split at hx
    · cases hx; exact hnd
    · exact H.nodup x cc hx
  · intro x cc id hx hm
    rw [cont?_setCont] at hx
    split at hx
    · cases hx; exact (hle id hm).1
    · exact Nat.le_trans (H.below x cc id hx hm) h.le
  · intro x cc id hx hm
    rw [cont?_setCont] at hx
    split at hx
    · cases hx; exact (hle id hm).2
    · exact H.addr x cc id hx hm

/-! ### from the semantic account to the lookup-level statement -/

theorem WAcct.effectsComplete {c c' : Nat} {w w' : World} {E : List Eff} {cr : List SlabID}
    (h : WAcct c c' w w' E cr) (H : HeapOk w c) (H' : HeapOk w' c') : WEffectsComplete w w' E cr := by
  refine ⟨?_, ?_, ?_, ?_⟩
  · intro id h1 h2
    obtain ⟨s, hs⟩ := Option.isSome_iff_exists.1 h1
    rcases h.kept id s ((H'.slabAt_eq_some id s).1 hs) with h3 | h3
    · exact absurd (hs.trans ((H.slabAt_eq_some id s).2 h3).symm) h2
    · exact h3
  · intro id h1 h2
    exact h.gone id ((slabAt_isSome w id).1 h1) ((slabAt_isNone w' id).1 h2)
  · intro id h1
    rcases h.stored id h1 with h2 | h2
    · exact Or.inl ((slabAt_isSome w' id).2 h2)
    · exact Or.inr h2
  · intro id h1
    exact (slabAt_isNone w' id).2 (h.removed id h1)

/-- "applying the log to the heap of the old world gives the heap of the new world" -/
theorem WEffectsComplete.applyLog {w w' : World} {E : List Eff} {cr : List SlabID}
    (h : WEffectsComplete w w' E cr) : applyLog w.slabAt w'.slabAt E = w'.slabAt := by
  funext id
  unfold World.applyLog
  cases hl : lastAction E id with
  | none =>
    simp only
    cases h' : w'.slabAt id with
    | none =>
      cases h0 : w.slabAt id with
      | none => rfl
      | some s =>
        have := h.gone_removed id (by rw [h0]; rfl) (by rw [h']; rfl)
        rw [hl] at this; cases this
    | some s =>
      by_cases he : w'.slabAt id = w.slabAt id
      · rw [← he, h']
      · have := h.changed_stored id (by rw [h']; rfl) he
        rw [hl] at this; cases this
  | some b =>
    cases b with
    | true => rfl
    | false =>
      have := h.removed_not_in_heap id hl
      simp only
      cases h' : w'.slabAt id with
      | none => rfl
      | some s => rw [h'] at this; cases this

end World
end Atree
