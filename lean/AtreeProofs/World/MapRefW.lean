import AtreeProofs.WorldOk
import AtreeProofs.World.MapRef.Top
/-
  Container-level facts about maps in EITHER form (standalone under `MapInv`, inlined single-slab
  root under `MapInvInl`) whose values may be references: `get` reads the dictionary, `set` /
  `remove` have the zipper effects `SetEffect` / `RemEffect` on the pair list and keep the form, the
  root ID and the invariant.  As for arrays, an inlined root needs ROOM (`OMap.set` / `remove`
  test `isFull` whatever the form of the root).
-/
namespace Atree
open Gen

variable {T : Nat} {r : Nat} {D : DigestFn (r + 1)} {cfg : MCfg}

/-! ### standalone maps: the specifications of `OMap.set` / `remove` with the counter made explicit -/

theorem OMap.set_spec_refC (hT : legalThreshold T = true) {m : OMap r} (hcfg : CfgOk cfg T m) (h : MapInv T D m)
    {k : MKey} (hk : KeyOk T (r + 1) D k) {v : Elem} (hv : ValueOkR T k.size v) (c : Ctx) :
    (TLimited cfg m.d m.root k → m.set cfg k v c = .error .collisionLimit) ∧
    (¬ TLimited cfg m.d m.root k → ∃ old m' c', m.set cfg k v c = .ok (old, m', c') ∧
      OSetPost T D cfg m m' k v old c c' ∧ c.ctr ≤ c'.ctr) := by
  have hc' : CfgFor cfg T (r + 1) := ⟨hcfg.1, hcfg.2.1⟩
  obtain ⟨d, root, ty, cnt, seed⟩ := m
  obtain ⟨h1, h2⟩ := MTree.set_spec_ref hT hc' hk hv d true root c h.tree
  constructor
  · intro hl
    have := h1 hl
    simp only [OMap.set, this, bind, Except.bind]
  · intro hnl
    obtain ⟨old, root', c1, heq, hp⟩ := h2 hnl
    have hinl : treeInl d root' = false := by
      rw [hp.inl, ← isInlined_eq d root ty cnt seed]; exact h.standalone
    have hle : (MTree.hdr d root').size ≤ maxThr T + slack1 T d := by
      have := hp.size_le; have := MTreeInv.le_max d true root h.tree; omega
    have hchain : ChainTo (MTree.leaves d root') SlabID.undef :=
      hp.leaves.2.2.2 _ ((mLeafChain_iff _).mp h.chain)
    obtain ⟨m3, c3, heq3, hpost⟩ := root_fixup hT d root' ty (if old.isNone then cnt + 1 else cnt) seed c1
      hp.sinv hinl hle hchain
    have hT' : cfg.T = T := hcfg.1
    refine ⟨old, m3, c3, ?_, ?_, by have := hp.ctr; have := hpost.ctr; omega⟩
    · simp only [OMap.set, heq, bind, Except.bind, pure, Except.pure, hT']
      simp only [heq3]
    · have htl : m3.toList = MTree.toList d root' := hpost.toList
      have hcnt : cnt = (MTree.toList d root).length := h.count_eq
      have hlen := hp.eff.length
      have hrid : m3.rootID = (⟨d, root, ty, cnt, seed⟩ : OMap r).rootID := by
        rw [hpost.rootID]; exact hp.id_eq
      refine ⟨by rw [htl]; exact hp.eff, MapInv.of_rootPost hpost ?_, ?_, hrid, hpost.ty, hpost.seed, hpost.count⟩
      · rw [hpost.count, htl, hlen]
        show (if old.isNone then cnt + 1 else cnt) = _
        cases old <;> simp [hcnt]
      · intro hc
        refine ctxOk_of hc (by have := hp.ctr; have := hpost.ctr; omega) hrid ?_
        intro id hid
        rcases hpost.ids id hid with h' | h'
        · rcases hp.ids id h' with h'' | h''
          · exact Or.inl h''
          · right; have := hpost.ctr; omega
        · exact Or.inr h'

theorem OMap.remove_specC (hT : legalThreshold T = true) {m : OMap r} (hcfg : CfgOk cfg T m) (h : MapInv T D m)
    {k : MKey} (hk : KeyOk T (r + 1) D k) (c : Ctx) (hc : CtxOk m c) :
    ((∀ p ∈ m.toList, p.1 ≠ k) → m.remove cfg k c = .error .keyNotFound) ∧
    (∀ v, (k, v) ∈ m.toList → ∃ m' c', m.remove cfg k c = .ok (k, v, m', c') ∧ ORemPost T D m m' k v c c' ∧
      c.ctr ≤ c'.ctr) := by
  have hc' : CfgFor cfg T (r + 1) := ⟨hcfg.1, hcfg.2.1⟩
  obtain ⟨d, root, ty, cnt, seed⟩ := m
  obtain ⟨h1, h2⟩ := MTree.remove_spec hT hc' hk d true root c h.tree
  constructor
  · intro hne
    have := h1 hne
    simp only [OMap.remove, this, bind, Except.bind]
  · intro v hv
    obtain ⟨root', c1, heq, hp⟩ := h2 v hv
    have hinl : treeInl d root' = false := by
      rw [hp.inl, ← isInlined_eq d root ty cnt seed]; exact h.standalone
    have hle : (MTree.hdr d root').size ≤ maxThr T + slack1 T d := by
      have := hp.size_le; have := MTreeInv.le_max d true root h.tree; omega
    have hchain : ChainTo (MTree.leaves d root') SlabID.undef :=
      hp.leaves.2.2.2 _ ((mLeafChain_iff _).mp h.chain)
    obtain ⟨m3, c3, heq3, hpost⟩ := root_fixup hT d root' ty (cnt - 1) seed c1 hp.sinv hinl hle hchain
    have hT' : cfg.T = T := hcfg.1
    refine ⟨m3, c3, ?_, ?_, by have := hp.ctr; have := hpost.ctr; omega⟩
    · simp only [OMap.remove, heq, bind, Except.bind, pure, Except.pure, hT']
      simp only [heq3]
    · have htl : m3.toList = MTree.toList d root' := hpost.toList
      have hcnt : cnt = (MTree.toList d root).length := h.count_eq
      have hlen := hp.eff.length
      have hrid : m3.rootID = (⟨d, root, ty, cnt, seed⟩ : OMap r).rootID := by
        rw [hpost.rootID]; exact hp.id_eq
      refine ⟨by rw [htl]; exact hp.eff, MapInv.of_rootPost hpost ?_, ?_, hrid, hpost.ty, hpost.seed, hpost.count⟩
      · rw [hpost.count, htl]
        show cnt - 1 = _
        omega
      · refine ctxOk_of hc (by have := hp.ctr; have := hpost.ctr; omega) hrid ?_
        intro id hid
        rcases hpost.ids id hid with h' | h'
        · rcases hp.ids id h' with h'' | h''
          · exact Or.inl h''
          · right; have := hpost.ctr; omega
        · exact Or.inr h'


/-! ### either form -/

/-- a map in either form -/
def MapOk (T : Nat) {r : Nat} (D : DigestFn (r + 1)) (m : OMap r) (ctr : Nat) : Prop :=
  (m.isInlined = false → MapInv T D m ∧ MapCtrOk m ctr) ∧ (m.isInlined = true → MapInvInl T D m ctr)

theorem contOk_map (T : Nat) (D : DigestFn 4) (ctr : Nat) (m : OMap 3) :
    ContOk T D ctr (.map m) ↔ MapOk T D m ctr := Iff.rfl

theorem MapCtrOk.mono {m : OMap r} {ctr ctr' : Nat} (h : MapCtrOk m ctr) (hc : ctr ≤ ctr') : MapCtrOk m ctr' :=
  fun id hid ha => Nat.le_trans (h id hid ha) hc

theorem MapInvInl.mono {m : OMap r} {ctr ctr' : Nat} (h : MapInvInl T D m ctr) (hc : ctr ≤ ctr') :
    MapInvInl T D m ctr' := by
  obtain ⟨s, ty, cnt, seed, rfl, h1, h2, h3, h4, h5, h6, h7, h8⟩ := h
  exact ⟨s, ty, cnt, seed, rfl, h1, h2, h3, h4, h5, h6, h7, fun id hid ha => Nat.le_trans (h8 id hid ha) hc⟩

theorem MapInvInl.isInlined {m : OMap r} {ctr : Nat} (h : MapInvInl T D m ctr) : m.isInlined = true := by
  obtain ⟨s, ty, cnt, seed, rfl, _, h2, _⟩ := h
  exact h2

theorem MapOk.mono {m : OMap r} {ctr ctr' : Nat} (h : MapOk T D m ctr) (hc : ctr ≤ ctr') : MapOk T D m ctr' :=
  ⟨fun hi => ⟨(h.1 hi).1, (h.1 hi).2.mono hc⟩, fun hi => (h.2 hi).mono hc⟩

theorem MapOk.of_inv {m : OMap r} {ctr : Nat} (h : MapInv T D m) (hc : MapCtrOk m ctr) : MapOk T D m ctr :=
  ⟨fun _ => ⟨h, hc⟩, fun hi => by rw [h.standalone] at hi; cases hi⟩

theorem MapOk.of_inl {m : OMap r} {ctr : Nat} (h : MapInvInl T D m ctr) : MapOk T D m ctr :=
  ⟨fun hi => (by rw [h.isInlined] at hi; cases hi), fun _ => h⟩

/-- the root slab of an inlined map, as a loose data slab -/
theorem MapInvInl.loose {s : MDataSlab r} {ty cnt seed ctr : Nat} (h : MapInvInl T D ⟨0, s, ty, cnt, seed⟩ ctr) :
    MDataLoose T D true s ∧ s.inlined = true ∧ s.next = SlabID.undef ∧ cnt = (MTree.toList 0 s).length ∧
    (∀ id ∈ CtxOk.mapSlabIds 0 s, id.addr = s.hdr.id.addr → id.idx ≤ ctr) := by
  obtain ⟨s0, ty0, cnt0, seed0, heq, h1, h2, h3, h4, h5, h6, h7, h8⟩ := h
  cases heq
  refine ⟨⟨h4, ?_, h6, h1, fun _ => rfl⟩, h2, h3, h7, h8⟩
  rw [h5]; simp [MDataSlab.prefixSize, h2]

theorem MapInvInl.of_loose {s : MDataSlab r} {ty cnt seed ctr : Nat} (hl : MDataLoose T D true s)
    (h2 : s.inlined = true) (h3 : s.next = SlabID.undef) (h7 : cnt = (MTree.toList 0 s).length)
    (h8 : ∀ id ∈ CtxOk.mapSlabIds 0 s, id.addr = s.hdr.id.addr → id.idx ≤ ctr) :
    MapInvInl T D ⟨0, s, ty, cnt, seed⟩ ctr := by
  refine ⟨s, ty, cnt, seed, rfl, hl.root_eq, h2, h3, hl.elems_inv, ?_, hl.first_eq, h7, h8⟩
  rw [hl.size_eq]; simp [MDataSlab.prefixSize, h2]

theorem MapOk.keys_ok {m : OMap r} {ctr : Nat} (h : MapOk T D m ctr) : ∀ p ∈ m.toList, KeyOk T (r + 1) D p.1 := by
  cases hi : m.isInlined
  · exact (h.1 hi).1.allKeyOk
  · obtain ⟨s, ty, cnt, seed, rfl, _⟩ := h.2 hi
    have := (MapInvInl.loose (h.2 hi)).1
    intro p hp
    exact (this.pairs_ok p hp).1

theorem MapOk.distinct {m : OMap r} {ctr : Nat} (h : MapOk T D m ctr) : KeysDistinct m.toList := by
  cases hi : m.isInlined
  · exact (h.1 hi).1.distinct
  · obtain ⟨s, ty, cnt, seed, rfl, _⟩ := h.2 hi
    exact (MapInvInl.loose (h.2 hi)).1.distinct

theorem MapOk.count_eq {m : OMap r} {ctr : Nat} (h : MapOk T D m ctr) : m.count = m.toList.length := by
  cases hi : m.isInlined
  · exact (h.1 hi).1.count_eq
  · obtain ⟨s, ty, cnt, seed, rfl, _⟩ := h.2 hi
    exact (MapInvInl.loose (h.2 hi)).2.2.2.1

theorem MapOk.rootID_le {m : OMap r} {ctr : Nat} (h : MapOk T D m ctr) : m.rootID.idx ≤ ctr := by
  cases hi : m.isInlined
  · obtain ⟨d, root, ty, cnt, seed⟩ := m
    have := (h.1 hi).2
    refine this _ ?_ rfl
    cases d with
    | zero => exact List.mem_cons_self
    | succ d => exact List.mem_cons_self
  · obtain ⟨s, ty, cnt, seed, rfl, _⟩ := h.2 hi
    exact (MapInvInl.loose (h.2 hi)).2.2.2.2 _ (by rw [mapSlabIds_zero]; exact List.mem_cons_self) rfl

/-- `OMap.get` reads the dictionary (either form) -/
theorem MapOk.get_spec (hT : legalThreshold T = true) {m : OMap r} {ctr : Nat} (h : MapOk T D m ctr)
    (hcfg : CfgOk cfg T m) {k : MKey} (hk : KeyOk T (r + 1) D k) :
    (∀ v, (k, v) ∈ m.toList → m.get cfg k = .ok (k, v)) ∧
    ((∀ p ∈ m.toList, p.1 ≠ k) → m.get cfg k = .error .keyNotFound) := by
  have hc : CfgFor cfg T (r + 1) := ⟨hcfg.1, hcfg.2.1⟩
  cases hi : m.isInlined
  · exact MTree.get_spec hT hc m.d true m.root (h.1 hi).1.sinv hk
  · obtain ⟨s, ty, cnt, seed, rfl, _⟩ := h.2 hi
    exact MDataSlab.get_spec hT hc (MapInvInl.loose (h.2 hi)).1 hk

/-- a successful lookup found a pair of the list -/
theorem MapOk.get_ok (hT : legalThreshold T = true) {m : OMap r} {ctr : Nat} (h : MapOk T D m ctr)
    (hcfg : CfgOk cfg T m) {k : MKey} (hk : KeyOk T (r + 1) D k) {k' : MKey} {el : Elem}
    (hg : m.get cfg k = .ok (k', el)) : k' = k ∧ (k, el) ∈ m.toList := by
  obtain ⟨g1, g2⟩ := h.get_spec hT hcfg hk
  by_cases hex : ∃ v, (k, v) ∈ m.toList
  · obtain ⟨v, hv⟩ := hex
    rw [g1 v hv] at hg
    cases hg
    exact ⟨rfl, hv⟩
  · have : ∀ p ∈ m.toList, p.1 ≠ k := by
      intro p hp he
      exact hex ⟨p.2, by rw [← he]; exact hp⟩
    rw [g2 this] at hg; cases hg


/-! ### inlined roots -/

theorem OMap.set_inl_unfold (m : MDataSlab r) (ty cnt seed : Nat) (k : MKey) (v : Elem) (c : Ctx)
    (ks : MKey) (old : Option Elem) (t' : MDataSlab r) (c1 : Ctx)
    (heq : MTree.set cfg 0 m k v c = .ok (ks, old, t', c1))
    (hnf : ¬ MTree.isFull cfg.T 0 t' = true) :
    OMap.set cfg (⟨0, m, ty, cnt, seed⟩ : OMap r) k v c
      = .ok (old, ⟨0, t', ty, if old.isNone then cnt + 1 else cnt, seed⟩, c1) := by
  have heq3 : (OMap.promoteIfSingleChild (⟨0, t', ty, if old.isNone then cnt + 1 else cnt, seed⟩ : OMap r) c1).1.splitRootIfFull cfg.T
      (OMap.promoteIfSingleChild (⟨0, t', ty, if old.isNone then cnt + 1 else cnt, seed⟩ : OMap r) c1).2
      = .ok (⟨0, t', ty, if old.isNone then cnt + 1 else cnt, seed⟩, c1) := by
    show OMap.splitRootIfFull cfg.T (⟨0, t', ty, if old.isNone then cnt + 1 else cnt, seed⟩ : OMap r) c1 = _
    simp only [OMap.splitRootIfFull]
    rw [if_neg hnf]
  simp only [OMap.set, heq, bind, Except.bind, pure, Except.pure]
  simp only [heq3]

theorem OMap.remove_inl_unfold (m : MDataSlab r) (ty cnt seed : Nat) (k : MKey) (c : Ctx)
    (rk : MKey) (rv : Elem) (t' : MDataSlab r) (c1 : Ctx)
    (heq : MTree.remove cfg 0 m k c = .ok (rk, rv, t', c1))
    (hnf : ¬ MTree.isFull cfg.T 0 t' = true) :
    OMap.remove cfg (⟨0, m, ty, cnt, seed⟩ : OMap r) k c
      = .ok (rk, rv, ⟨0, t', ty, cnt - 1, seed⟩, c1) := by
  have heq3 : (OMap.promoteIfSingleChild (⟨0, t', ty, cnt - 1, seed⟩ : OMap r) c1).1.splitRootIfFull cfg.T
      (OMap.promoteIfSingleChild (⟨0, t', ty, cnt - 1, seed⟩ : OMap r) c1).2
      = .ok (⟨0, t', ty, cnt - 1, seed⟩, c1) := by
    show OMap.splitRootIfFull cfg.T (⟨0, t', ty, cnt - 1, seed⟩ : OMap r) c1 = _
    simp only [OMap.splitRootIfFull]
    rw [if_neg hnf]
  simp only [OMap.remove, heq, bind, Except.bind, pure, Except.pure]
  simp only [heq3]

/-- result of a successful `OMap.set` -/
theorem MapOk.set_ok (hT : legalThreshold T = true) {m : OMap r} {c : Ctx} (h : MapOk T D m c.ctr)
    (hcfg : CfgOk cfg T m) {k : MKey} (hk : KeyOk T (r + 1) D k) {v : Elem} (hv : ValueOkR T k.size v)
    (hroom : m.isInlined = true → m.rootHdr.size + maxEntry T ≤ maxThr T)
    {old : Option Elem} {m' : OMap r} {c' : Ctx} (hr : m.set cfg k v c = .ok (old, m', c')) :
    SetEffect m.toList m'.toList k (storedValue cfg k v c) old ∧ MapOk T D m' c'.ctr ∧
      m'.isInlined = m.isInlined ∧ m'.rootID = m.rootID ∧ c.ctr ≤ c'.ctr ∧
      (m.isInlined = true → m'.rootHdr.size ≤ m.rootHdr.size + maxEntry T) := by
  have hc : CfgFor cfg T (r + 1) := ⟨hcfg.1, hcfg.2.1⟩
  cases hinl : m.isInlined
  · obtain ⟨hinv, hctr⟩ := h.1 hinl
    obtain ⟨s1, s2⟩ := OMap.set_spec_refC hT hcfg hinv hk hv c
    by_cases hl : TLimited cfg m.d m.root k
    · rw [s1 hl] at hr; cases hr
    · obtain ⟨old2, m2, c2, heq, hp, hcc⟩ := s2 hl
      rw [heq] at hr; cases hr
      exact ⟨hp.eff, MapOk.of_inv hp.inv (hp.ctx hctr), hp.inv.standalone, hp.rootID, hcc,
        fun hh => by cases hh⟩
  · obtain ⟨s, ty, cnt, seed, rfl, _⟩ := h.2 hinl
    have hinv := h.2 hinl
    obtain ⟨hloose, hi2, hnext, hcnt, hids⟩ := MapInvInl.loose hinv
    obtain ⟨s1, s2⟩ := set_spec_zero_ref hT hc s hloose hk hv c
    have hroom' : s.hdr.size + maxEntry T ≤ maxThr T := hroom hinl
    by_cases hl : TLimited cfg 0 s k
    · exfalso
      have : OMap.set cfg (⟨0, s, ty, cnt, seed⟩ : OMap r) k v c = .error .collisionLimit := by
        simp only [OMap.set, s1 hl, bind, Except.bind]
      rw [this] at hr; cases hr
    · obtain ⟨old2, t', c1, heq, hp⟩ := s2 hl
      have hsz : (MTree.hdr 0 t').size ≤ s.hdr.size + maxEntry T := hp.size_le
      have hnf : ¬ MTree.isFull cfg.T 0 t' = true := by
        rw [hcfg.1]
        intro hf
        have := (mtree_isFull_iff T 0 t').mp hf
        omega
      rw [OMap.set_inl_unfold s ty cnt seed k v c k old2 t' c1 heq hnf] at hr
      cases hr
      have hl' : MDataLoose T D true t' := hp.sinv
      have hinl' : (t' : MDataSlab r).inlined = true := by
        have := hp.inl
        simp only [treeInl] at this
        rw [this]; exact hi2
      have hnext' : (t' : MDataSlab r).next = SlabID.undef := by
        have := hp.leaves.2.2.2 SlabID.undef (by simp only [MTree.leaves, ChainTo]; exact hnext)
        simpa only [MTree.leaves, ChainTo] using this
      have hid' : (t' : MDataSlab r).hdr.id = s.hdr.id := hp.id_eq
      refine ⟨hp.eff, MapOk.of_inl (MapInvInl.of_loose hl' hinl' hnext' ?_ ?_), hinl', hp.id_eq, hp.ctr,
        fun _ => hsz⟩
      · have hlen := hp.eff.length
        show (if old.isNone then cnt + 1 else cnt) = (MTree.toList 0 t').length
        rw [hlen]
        cases old <;> simp [hcnt]
      · intro id hid ha
        rcases hp.ids id hid with h' | h'
        · have := hids id h' (ha.trans (congrArg SlabID.addr hid'))
          exact Nat.le_trans this hp.ctr
        · exact h'

/-- result of a successful `OMap.remove` -/
theorem MapOk.remove_ok (hT : legalThreshold T = true) {m : OMap r} {c : Ctx} (h : MapOk T D m c.ctr)
    (hcfg : CfgOk cfg T m) {k : MKey} (hk : KeyOk T (r + 1) D k)
    (hroom : m.isInlined = true → m.rootHdr.size + maxEntry T ≤ maxThr T)
    {rk : MKey} {rv : Elem} {m' : OMap r} {c' : Ctx} (hr : m.remove cfg k c = .ok (rk, rv, m', c')) :
    rk = k ∧ RemEffect m.toList m'.toList k rv ∧ MapOk T D m' c'.ctr ∧
      m'.isInlined = m.isInlined ∧ m'.rootID = m.rootID ∧ c.ctr ≤ c'.ctr ∧
      (m.isInlined = true → m'.rootHdr.size ≤ m.rootHdr.size + maxEntry T) := by
  have hc : CfgFor cfg T (r + 1) := ⟨hcfg.1, hcfg.2.1⟩
  cases hinl : m.isInlined
  · obtain ⟨hinv, hctr⟩ := h.1 hinl
    obtain ⟨s1, s2⟩ := OMap.remove_specC hT hcfg hinv hk c hctr
    by_cases hex : ∃ v, (k, v) ∈ m.toList
    · obtain ⟨v, hv⟩ := hex
      obtain ⟨m2, c2, heq, hp, hcc⟩ := s2 v hv
      rw [heq] at hr; cases hr
      exact ⟨rfl, hp.eff, MapOk.of_inv hp.inv hp.ctx, hp.inv.standalone, hp.rootID, hcc,
        fun hh => by cases hh⟩
    · have : ∀ p ∈ m.toList, p.1 ≠ k := by
        intro p hp he
        exact hex ⟨p.2, by rw [← he]; exact hp⟩
      rw [s1 this] at hr; cases hr
  · obtain ⟨s, ty, cnt, seed, rfl, _⟩ := h.2 hinl
    have hinv := h.2 hinl
    obtain ⟨hloose, hi2, hnext, hcnt, hids⟩ := MapInvInl.loose hinv
    obtain ⟨s1, s2⟩ := remove_spec_zero hT hc s hloose hk c
    have hroom' : s.hdr.size + maxEntry T ≤ maxThr T := hroom hinl
    by_cases hex : ∃ v, (k, v) ∈ MTree.toList 0 s
    · obtain ⟨v, hv⟩ := hex
      obtain ⟨t', c1, heq, hp⟩ := s2 v hv
      have hsz : (MTree.hdr 0 t').size ≤ s.hdr.size + maxEntry T := hp.size_le
      have hnf : ¬ MTree.isFull cfg.T 0 t' = true := by
        rw [hcfg.1]
        intro hf
        have := (mtree_isFull_iff T 0 t').mp hf
        omega
      rw [OMap.remove_inl_unfold s ty cnt seed k c k v t' c1 heq hnf] at hr
      cases hr
      have hl' : MDataLoose T D true t' := hp.sinv
      have hinl' : (t' : MDataSlab r).inlined = true := by
        have := hp.inl
        simp only [treeInl] at this
        rw [this]; exact hi2
      have hnext' : (t' : MDataSlab r).next = SlabID.undef := by
        have := hp.leaves.2.2.2 SlabID.undef (by simp only [MTree.leaves, ChainTo]; exact hnext)
        simpa only [MTree.leaves, ChainTo] using this
      have hid' : (t' : MDataSlab r).hdr.id = s.hdr.id := hp.id_eq
      refine ⟨rfl, hp.eff, MapOk.of_inl (MapInvInl.of_loose hl' hinl' hnext' ?_ ?_), hinl', hp.id_eq, hp.ctr,
        fun _ => hsz⟩
      · obtain ⟨A, B, hA, hB⟩ := hp.eff
        show cnt - 1 = (MTree.toList 0 t').length
        rw [hB, hcnt, hA]; simp
      · intro id hid ha
        rcases hp.ids id hid with h' | h'
        · have := hids id h' (ha.trans (congrArg SlabID.addr hid'))
          exact Nat.le_trans this hp.ctr
        · exact h'
    · exfalso
      have hne : ∀ p ∈ MTree.toList 0 s, p.1 ≠ k := by
        intro p hp he
        exact hex ⟨p.2, by rw [← he]; exact hp⟩
      have : OMap.remove cfg (⟨0, s, ty, cnt, seed⟩ : OMap r) k c = .error .keyNotFound := by
        simp only [OMap.remove, s1 hne, bind, Except.bind]
      rw [this] at hr; cases hr

end Atree
