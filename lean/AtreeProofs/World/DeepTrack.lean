import AtreeProofs.World.DeepSub
import AtreeProofs.World.HeapNotify
/-
  DEEP ACCOUNT, part 3: what a notification has to account for (`Track`), and the step of the chain
  in abstract form (`track_step`): the child `y` changes form, ONE core `set` on its parent `q`
  (which stores the slab holding the reference to `y` when `q` owns that slab: hypothesis `hold`),
  then the notification from `q` (induction hypothesis).
-/
namespace Atree.Deep
open Gen World Codec
open MapHolder (StoredSince Ext)

/-- container `y` is live and inlined in `w` -/
def Inl (w : World) (y : SlabID) : Prop := ∃ c, w.cont? y = some c ∧ c.isInlined = true

/-- WHAT A NOTIFICATION FROM `y` ACCOUNTS FOR.  `w`: the world in which the content of `y` has
    already changed but its parent has not been told yet; `w'`: the world after the notification.
    Every heap slab (present before and after with the same shallow content) from which — through
    containers inlined in `w'` — one reaches a container whose entry differs (`¬ StorSame`), or
    reaches `y` itself when `y` is inlined before or after, was stored since `cx`. -/
def Track (y : SlabID) (w : World) (cx : Ctx) (w' : World) (cx' : Ctx) : Prop :=
  ∀ id s, w'.HasSlab id s → w.HasSlab id s →
    (∃ x, DRef w' (C10Persist.slabElems s) x ∧ (¬ StorSame w w' x ∨ (x = y ∧ (Inl w y ∨ Inl w' y)))) →
    StoredSince cx cx' id

/-! ### small facts -/

theorem lastAction_true_mem {E : List Eff} {id : SlabID} (h : lastAction E id = some true) : Eff.store id ∈ E := by
  induction E with
  | nil => simp at h
  | cons e E ih =>
    rw [lastAction_cons] at h
    cases hl : lastAction E id with
    | some b =>
      rw [hl] at h
      simp only [Option.some_or, Option.some.injEq] at h
      subst h
      exact List.mem_cons_of_mem _ (ih hl)
    | none =>
      rw [hl] at h
      simp only [Option.none_or] at h
      cases e with
      | store i =>
        simp only [actStep] at h
        split at h
        · rename_i e1; subst e1; exact List.mem_cons_self
        · cases h
      | remove i =>
        simp only [actStep] at h
        split at h <;> cases h
      | alloc a i => cases h

theorem storedSince_of_log {c c' : Ctx} {E : List Eff} {C : List (SlabID × Elem)} {id : SlabID} (h : Log c c' E C)
    (hl : lastAction E id = some true) : StoredSince c c' id :=
  ⟨E, h.eff, lastAction_true_mem hl⟩

theorem ext_of_log {c c' : Ctx} {E : List Eff} {C : List (SlabID × Elem)} (h : Log c c' E C) : Ext c c' := ⟨E, h.eff⟩

theorem ext_of_post {w w' : World} {cx cx' : Ctx} (h : Post w cx w' cx') : Ext cx cx' := by
  obtain ⟨E, C, hl, _⟩ := h
  exact ext_of_log hl

/-- the `kept` clause of the account, in membership form -/
theorem kept_of_post {w w' : World} {cx cx' : Ctx} (h : Post w cx w' cx') :
    ∀ id s, w'.HasSlab id s → w.HasSlab id s ∨ StoredSince cx cx' id := by
  obtain ⟨E, C, hl, ha, _⟩ := h
  intro id s hs
  rcases ha.kept id s hs with h1 | h1
  · exact Or.inl h1
  · exact Or.inr (storedSince_of_log hl h1)

theorem hasSlab_congr {w w' : World} (h : ∀ z, w'.cont? z = w.cont? z) {id : SlabID} {s : WSlab} (hs : w.HasSlab id s) :
    w'.HasSlab id s := by
  obtain ⟨x, c, hx, hm⟩ := hs
  exact ⟨x, c, by rw [h]; exact hx, hm⟩

/-- a live container is held by at most one container -/
theorem holder_unique {w : World} (hu : UniqueRef w) {p p' x : SlabID} (h : World.Holds w p x) (h' : World.Holds w p' x)
    (hx : (w.cont? x).isSome) : p = p' := by
  obtain ⟨pc, hpc, hm⟩ := h
  obtain ⟨pc', hpc', hm'⟩ := h'
  obtain ⟨i, hi⟩ := List.mem_iff_getElem?.1 hm
  obtain ⟨j, hj⟩ := List.mem_iff_getElem?.1 hm'
  exact (hu p p' pc pc' i j x hpc hpc' hi hj hx).1

/-- the root ID of an inlined container is not the ID of a heap slab -/
theorem root_not_in_heap {w : World} {ctr : Nat} (H : HeapOk w ctr) {q : SlabID} {qc : Cont} (hq : w.cont? q = some qc)
    (hv : qc.vid = q) (hi : qc.isInlined = true) (s : WSlab) : ¬ w.HasSlab q s := by
  rintro ⟨z, cz, hz, hm⟩
  have h1 : q ∈ cz.heapIds := mem_keys_of_mem hm
  have h2 : q ∈ cz.treeIds := cz.heapIds_sub_treeIds q h1
  have h3 : q ∈ qc.treeIds := by rw [← hv]; exact qc.vid_mem_treeIds
  have hzq : z = q := H.own z cz q qc q hz hq h2 h3
  subst hzq
  rw [hq] at hz; cases hz
  rw [Cont.heapIds_of_inlined hi] at h1
  have hnd := H.nodup z qc hq
  rw [Cont.treeIds_cons] at hnd h1
  rw [hv] at hnd h1
  exact (List.nodup_cons.1 hnd).1 h1

/-! ### the abstract step -/

theorem track_step {w w1 w2 w3 w' : World} {cx cx1 cx2 cx3 : Ctx} {y q : SlabID} {c1 qc qc' qc3 : Cont} {ctr : Nat}
    (hne : y ≠ q)
    (hheap : HeapOk w ctr) (hqv : qc.vid = q) (hq : w.cont? q = some qc)
    (h1o : ∀ z, z ≠ y → w1.cont? z = w.cont? z)
    (h2q : w2.cont? q = some qc') (h2o : ∀ z, z ≠ q → w2.cont? z = w1.cont? z)
    (hform : qc'.isInlined = qc.isInlined) (hnd' : qc'.treeIds.Nodup) (hqv' : qc'.vid = q)
    (hext1 : Ext cx cx1) (hext2 : Ext cx1 cx2) (hext3 : Ext cx2 cx3)
    (hold : ∀ id s, (id, s) ∈ qc'.treeSlabs → (qc.isInlined = true → id ≠ q) →
      (∃ e ∈ C10Persist.slabElems s, e.pay = .ref y) → StoredSince cx1 cx2 id)
    (htr : Track q w2 cx2 w3 cx3)
    (hkept : ∀ id s, w3.HasSlab id s → w2.HasSlab id s ∨ StoredSince cx2 cx3 id)
    (h3y : w3.cont? y = some c1) (h3q : w3.cont? q = some qc3) (hf3 : FormRel qc' qc3)
    (hu : UniqueRef w3) (hqy : World.Holds w3 q y)
    (hc' : ∀ z, w'.cont? z = w3.cont? z) :
    Track y w cx w' cx3 := by
  have hext12 : Ext cx cx2 := hext1.trans hext2
  intro id s hs' hs ⟨x, hx, hcase⟩
  have hs3 : w3.HasSlab id s := hasSlab_congr (fun z => (hc' z).symm) hs'
  have hx3 : DRef w3 (C10Persist.slabElems s) x := hx.congr (fun z _ => (hc' z).symm)
  rcases hkept id s hs3 with hs2 | hst
  case inr => exact StoredSince.after hext12 hst
  have fromIH : (∃ x, DRef w3 (C10Persist.slabElems s) x ∧
      (¬ StorSame w2 w3 x ∨ (x = q ∧ (Inl w2 q ∨ Inl w3 q)))) → StoredSince cx cx3 id :=
    fun h => StoredSince.after hext12 (htr id s hs3 hs2 h)
  have fromHold : (id, s) ∈ qc'.treeSlabs → (qc.isInlined = true → id ≠ q) →
      (∃ e ∈ C10Persist.slabElems s, e.pay = .ref y) → StoredSince cx cx3 id :=
    fun h1 h2 h3 => (StoredSince.after hext1 (hold id s h1 h2 h3)).mono hext3
  have hylive : (w3.cont? y).isSome := by rw [h3y]; rfl
  by_cases hxy : x = y
  · subst hxy
    rcases hx3.last with ⟨e, he, hp⟩ | ⟨z, cz, hz, hcz, hi, e, he, hp⟩
    · -- the slab holds the reference to `x` itself: it is a slab of `q`
      obtain ⟨z0, cz0, hz0, hm⟩ := hs3
      have hh0 : World.Holds w3 z0 x :=
        holds_of_elem hz0 (slabElems_sub (slabs_sub_treeSlabs cz0 _ hm) e he) hp
      have hz0q : z0 = q := holder_unique hu hh0 hqy hylive
      subst hz0q
      rw [h3q] at hz0; cases hz0
      rcases hf3.slab_cases hm with h1 | ⟨h1, h2, h3⟩ | ⟨h1, h2, h3⟩
      · refine fromHold (List.mem_of_mem_tail h1) (fun _ => ?_) ⟨e, he, hp⟩
        intro hid
        rw [Cont.treeIds_cons, hqv'] at hnd'
        exact (List.nodup_cons.1 hnd').1 (hid ▸ mem_keys_of_mem h1)
      · exact fromHold h3 (fun hi => by rw [hform] at h2; rw [h2] at hi; cases hi) ⟨e, he, hp⟩
      · exfalso
        have hid : id = z0 := by simpa [hqv'] using h1
        subst hid
        exact root_not_in_heap hheap hq hqv (by rw [← hform]; exact h3) s hs
    · -- through an inlined container `z`: it is `q`
      have hh0 : World.Holds w3 z x := holds_of_elem hcz (inlElems_sub cz e he) hp
      have hzq : z = q := holder_unique hu hh0 hqy hylive
      subst hzq
      exact fromIH ⟨z, hz, Or.inr ⟨rfl, Or.inr ⟨cz, hcz, hi⟩⟩⟩
  · have hns : ¬ StorSame w w' x := by
      rcases hcase with h | ⟨h, _⟩
      · exact h
      · exact absurd h hxy
    by_cases hxq : x = q
    · subst hxq
      refine fromIH ⟨x, hx3, Or.inr ⟨rfl, ?_⟩⟩
      rcases Bool.eq_false_or_eq_true qc.isInlined with hi | hi
      · exact Or.inl ⟨qc', h2q, by rw [hform]; exact hi⟩
      · rcases Bool.eq_false_or_eq_true qc3.isInlined with hi3 | hi3
        · exact Or.inr ⟨qc3, h3q, hi3⟩
        · exact absurd (Or.inr ⟨qc, qc3, hq, by rw [hc']; exact h3q, hi, hi3⟩) hns
    · refine fromIH ⟨x, hx3, Or.inl ?_⟩
      intro hss
      apply hns
      have e2 : w2.cont? x = w.cont? x := by rw [h2o x hxq, h1o x hxy]
      unfold StorSame at hss ⊢
      rw [hc' x, ← e2]
      exact hss

end Atree.Deep
