import AtreeProofs.WorldCodec.DeepDefs
/-
  DEEP ACCOUNT, part 1 (M-a): what the storable `World.stor e` of a stored element depends on.

  `World.storOf` descends from an element `{size, ref x}` into the container `x` only when `x` is
  INLINED, and then renders the elements `inlElems x` of its single root slab.  So `stor e` is a
  function of the entries `cont? x` of the containers reached from `e` through inlined containers
  (`DRef`), and of a container that is NOT inlined only the fact that it is not inlined matters
  (`StorSame`).

  * `storOf_congr` / `stor_congr` — two worlds that agree (`StorSame`) on every container reached from
    `e` (chain followed in the NEW world) give the same storable;
  * `stor_congr_conts`          — in particular two worlds with the same table of containers;
  * `not_deepSame`              — contrapositive, slab form: if the deep content of a slab differs,
    some container reached from the slab's local elements has a different entry, and is inlined in
    one of the two worlds (or appears / disappears).
-/
namespace Atree.Deep
open Atree Gen World Codec

/-- the elements the embedded form (`Codec.contStor`) of a single-slab container renders: the
    elements of the root data slab; for a map those stored locally in it (the values of an external
    collision group are in the group's own slab) -/
def inlElems : Cont → List Elem
  | .arr ⟨0, (s : DataSlab), _⟩ => s.elems
  | .arr ⟨_ + 1, _, _⟩ => []
  | .map ⟨0, (s : MDataSlab 3), _, _, _⟩ => C10Persist.localVals 4 s.elems
  | .map ⟨_ + 1, _, _, _, _⟩ => []

/-- container `x` is referenced by an element of `es`, or by a locally stored element of a
    container that is INLINED in `w` and embedded (recursively) in an element of `es`.
    `x` itself may be inlined or standalone. -/
inductive DRef (w : World) : List Elem → SlabID → Prop
  | direct {es : List Elem} {e : Elem} {x : SlabID} : e ∈ es → e.pay = .ref x → DRef w es x
  | nested {es : List Elem} {e : Elem} {y x : SlabID} {cy : Cont} : e ∈ es → e.pay = .ref y →
      w.cont? y = some cy → cy.isInlined = true → DRef w (inlElems cy) x → DRef w es x

/-- the entry of container `x` is the same in both worlds as far as `stor` can see: the same entry,
    or a standalone container in both -/
def StorSame (w w' : World) (x : SlabID) : Prop :=
  w'.cont? x = w.cont? x ∨
  ∃ c c', w.cont? x = some c ∧ w'.cont? x = some c' ∧ c.isInlined = false ∧ c'.isInlined = false

theorem StorSame.of_eq {w w' : World} {x : SlabID} (h : w'.cont? x = w.cont? x) : StorSame w w' x := Or.inl h

theorem DRef.mono {w : World} {es es' : List Elem} {x : SlabID} (h : DRef w es x) (hs : ∀ e ∈ es, e ∈ es') :
    DRef w es' x := by
  cases h with
  | direct h1 h2 => exact DRef.direct (hs _ h1) h2
  | nested h1 h2 h3 h4 h5 => exact DRef.nested (hs _ h1) h2 h3 h4 h5

/-- the last link of the chain: `x` is referenced directly, or by a locally stored element of an
    inlined container that is itself reached -/
theorem DRef.last {w : World} {es : List Elem} {x : SlabID} (h : DRef w es x) :
    (∃ e ∈ es, e.pay = .ref x) ∨
    (∃ z cz, DRef w es z ∧ w.cont? z = some cz ∧ cz.isInlined = true ∧ ∃ e ∈ inlElems cz, e.pay = .ref x) := by
  induction h with
  | direct h1 h2 => exact Or.inl ⟨_, h1, h2⟩
  | @nested es e y x cy h1 h2 h3 h4 _ ih =>
    right
    rcases ih with ⟨e', he', hp⟩ | ⟨z, cz, hz, hcz, hi, e', he', hp⟩
    · exact ⟨y, cy, DRef.direct h1 h2, h3, h4, e', he', hp⟩
    · exact ⟨z, cz, DRef.nested h1 h2 h3 h4 hz, hcz, hi, e', he', hp⟩

/-- one more link at the end of the chain -/
theorem DRef.snoc {w : World} {es : List Elem} {z x : SlabID} {cz : Cont} {e : Elem} (h : DRef w es z)
    (hcz : w.cont? z = some cz) (hi : cz.isInlined = true) (he : e ∈ inlElems cz) (hp : e.pay = .ref x) :
    DRef w es x := by
  induction h with
  | direct h1 h2 => exact DRef.nested h1 h2 hcz hi (DRef.direct he hp)
  | nested h1 h2 h3 h4 _ ih => exact DRef.nested h1 h2 h3 h4 (ih hcz)

/-- the chain only looks at the containers that are referenced: two worlds that agree on every
    container reached have the same chains -/
theorem DRef.congr {w w' : World} {es : List Elem} {x : SlabID} (h : DRef w es x)
    (hc : ∀ z, DRef w es z → w'.cont? z = w.cont? z) : DRef w' es x := by
  induction h with
  | direct h1 h2 => exact DRef.direct h1 h2
  | @nested es e y x cy h1 h2 h3 h4 h5 ih =>
    refine DRef.nested h1 h2 (by rw [hc y (DRef.direct h1 h2)]; exact h3) h4 (ih ?_)
    intro z hz
    exact hc z (DRef.nested h1 h2 h3 h4 hz)

/-! ### congruence of the renderers -/

theorem melsOf_congr {re re' : Elem → Stor} : ∀ (r : Nat) (els : MElems r),
    (∀ v ∈ C10Persist.localVals r els, re v = re' v) → melsOf re r els = melsOf re' r els
  | 0, (se : SingleElems), h => by
    show Codec.MEls.single se.level (se.elems.map (selOf re)) = .single se.level (se.elems.map (selOf re'))
    congr 1
    apply List.map_congr_left
    intro x hx
    have : re x.val = re' x.val := h x.val (by
      show x.val ∈ se.elems.map (·.val)
      exact List.mem_map.2 ⟨x, hx, rfl⟩)
    simp only [selOf, this]
  | r + 1, (he : HkeyElems (MElems r)), h => by
    show Codec.MEls.hkey he.level he.hkeys (he.elems.map (melOf re (melsOf re r))) =
      .hkey he.level he.hkeys (he.elems.map (melOf re' (melsOf re' r)))
    congr 1
    apply List.map_congr_left
    intro el hel
    have hsub : ∀ v, v ∈ (match el with
        | .single x => [x.val]
        | .inl g => C10Persist.localVals r g
        | .ext _ _ _ => []) → re v = re' v := by
      intro v hv
      apply h v
      show v ∈ he.elems.flatMap _
      exact List.mem_flatMap.2 ⟨el, hel, hv⟩
    cases el with
    | single x =>
      have : re x.val = re' x.val := hsub x.val (by simp)
      simp only [melOf, selOf, this]
    | inl g =>
      simp only [melOf]
      rw [melsOf_congr r g (fun v hv => hsub v hv)]
    | ext id sz g => rfl

theorem contStor_congr {re re' : Elem → Stor} (c : Cont) (h : ∀ e ∈ inlElems c, re e = re' e) :
    contStor re c = contStor re' c := by
  cases c with
  | arr a =>
    obtain ⟨d, root, ty⟩ := a
    cases d with
    | zero =>
      show Stor.arr _ _ ((root : DataSlab).elems.map re) = Stor.arr _ _ ((root : DataSlab).elems.map re')
      congr 1
      exact List.map_congr_left h
    | succ d => rfl
  | map m =>
    obtain ⟨d, root, ty, cnt, seed⟩ := m
    cases d with
    | zero =>
      show Stor.map _ _ (melsOf re 4 (root : MDataSlab 3).elems) = Stor.map _ _ (melsOf re' 4 (root : MDataSlab 3).elems)
      rw [melsOf_congr 4 _ h]
    | succ d => rfl

/-! ### congruence of `storOf` / `stor` -/

theorem storOf_congr {w w' : World} : ∀ (fuel : Nat) (e : Elem),
    (∀ x, DRef w' [e] x → StorSame w w' x) → storOf fuel w' e = storOf fuel w e := by
  intro fuel
  induction fuel with
  | zero =>
    intro e h
    obtain ⟨sz, pay⟩ := e
    cases pay with
    | val p => simp [storOf]
    | ref x =>
      rcases h x (DRef.direct (List.mem_singleton.2 rfl) rfl) with h1 | ⟨c, c', h1, h2, h3, h4⟩
      · simp only [storOf, h1]
      · simp only [storOf, h1, h2, h3, h4]
  | succ fuel ih =>
    intro e h
    obtain ⟨sz, pay⟩ := e
    cases pay with
    | val p => simp [storOf]
    | ref x =>
      rcases h x (DRef.direct (List.mem_singleton.2 rfl) rfl) with h1 | ⟨c, c', h1, h2, h3, h4⟩
      · cases hc : w.cont? x with
        | none => simp only [storOf, h1, hc]
        | some c =>
          have hc' : w'.cont? x = some c := by rw [h1, hc]
          cases hi : c.isInlined with
          | false => simp only [storOf, hc, hc', hi, Bool.false_eq_true, if_false]
          | true =>
            simp only [storOf, hc, hc', hi, if_true]
            congr 1
            apply contStor_congr
            intro e' he'
            apply ih
            intro z hz
            exact h z (DRef.nested (List.mem_singleton.2 rfl) rfl hc' hi (hz.mono (by
              intro e'' h''; rw [List.mem_singleton.1 h'']; exact he')))
      · simp only [storOf, h1, h2, h3, h4, Bool.false_eq_true, if_false]

/-- STOR CONGRUENCE: the storable of `e` is the same in two worlds that agree (up to `StorSame`) on
    the containers reached from `e` -/
theorem stor_congr {w w' : World} (e : Elem) (h : ∀ x, DRef w' [e] x → StorSame w w' x) :
    w'.stor e = w.stor e :=
  storOf_congr e.size e h

/-- the same table of containers, the same storables (`arrGet`, `mapGet`, `reopen`) -/
theorem stor_congr_conts {w w' : World} (h : ∀ z, w'.cont? z = w.cont? z) (e : Elem) : w'.stor e = w.stor e :=
  stor_congr e (fun x _ => Or.inl (h x))

/-- FIRST CHANGED CONTAINER ON THE CHAIN (slab form): if the deep content of slab `s` differs in `w`
    and `w'`, some container reached from the local elements of `s` through containers inlined in
    `w'` has a different entry in the two worlds — and is not a standalone container in both. -/
theorem not_deepSame {w w' : World} {s : WSlab} (h : ¬ WC.DeepSame w w' s) :
    ∃ x, DRef w' (C10Persist.slabElems s) x ∧ ¬ StorSame w w' x := by
  apply Classical.byContradiction
  intro hno
  apply h
  intro e he
  apply stor_congr
  intro x hx
  apply Classical.byContradiction
  intro hns
  exact hno ⟨x, hx.mono (by intro e' h'; rw [List.mem_singleton.1 h']; exact he), hns⟩

/-- nothing changed in the table of containers: the deep account is empty -/
theorem deepStoredC_of_conts {w w' : World} (h : ∀ z, w'.cont? z = w.cont? z) (E : List Eff) :
    WC.DeepStoredC w w' E := by
  intro id s _ _ hd
  exact absurd (fun e _ => stor_congr_conts h e) hd

end Atree.Deep
