import AtreeProofs.Array.EffectsTop
import AtreeProofs.World.ArrRefCore
/-
  The effect-log accounts of `Arr.insert` / `Arr.set` (`AtreeProofs/Array/EffectsTree.lean`,
  `EffectsTop.lean`) for elements that may carry a REFERENCE payload (`StorOk` instead of
  `ValueOk`): the proofs are the same, with `insert_genR` / `set_genR` in place of `insert_gen` /
  `set_gen` (the account itself never looks at the payload).
-/
namespace Atree
open Gen ATree MetaSlab
variable {T d : Nat}

theorem insert_acctR (hT : legalThreshold T = true) :
    ∀ (d : Nat) (t : ATree d) (top : Bool) (i : Nat) (v : Elem) (c : Ctx) (addr : Nat)
      (t' : ATree d) (c' : Ctx),
    TreeInv T d top t → NotInl d t → StorOk T v → IdsOk addr c.ctr (slabIds d t) →
    ATree.insert T d t i v c = .ok (t', c') →
    ∃ E C, Log c c' E C ∧ Acct c.ctr (ATree.slabs d t) (ATree.slabs d t') E (C.map (·.1))
  | 0, t, top, i, v, c, addr, t', c' => by
    refine forall_ofData ?_ t; intro s _ hni _ _ hr
    exact data_insert_acct s t' i v c c' hni hr
  | d + 1, t, top, i, v, c, addr, t', c' => by
    refine forall_ofMeta ?_ t; intro m hinv _ hv hids hr
    obtain ⟨hs, _, _, _⟩ := (treeInv_succ T d top m).1 hinv
    obtain ⟨k, adj, child, child', c1, hchild, hins, htl⟩ := insert_succ_inv m i v c t' c' hr
    obtain ⟨A, B, hch, hk⟩ := split_at_getElem? hchild
    have hc : TreeInv T d false child := hs.kids_inv child (by rw [hch]; simp)
    have hadj : adj ≤ (flatten d child).length := by
      rcases Nat.lt_or_ge (flatten d child).length adj with h | h
      · rw [insert_err_gen d child false adj v c hc.shape_false h] at hins; cases hins
      · exact h
    obtain ⟨child'', c1', hins', hstep, _⟩ :=
      insert_genR hT d child false adj v c hc hc.notInl_of_false hv hadj
    rw [hins] at hins'
    simp only [Except.ok.injEq, Prod.mk.injEq] at hins'
    obtain ⟨rfl, rfl⟩ := hins'
    obtain ⟨E1, C1, hlog1, hacct1⟩ := insert_acctR hT d child false adj v c addr child' c1 hc
      hc.notInl_of_false hv (ids_child hch hids) hins
    have hch1 : (insM1 m k child').children = A ++ child' :: B := by
      show m.children.set k child' = _
      rw [hch, set_mid hk]
    have ids1 := ids_after_child (m1 := insM1 m k child') hch hch1 rfl hstep.repl hids
    rw [slabIds_succ] at ids1
    have hnd := ids1.1
    have hle : ∀ id ∈ (insM1 m k child').hdr.id :: (insM1 m k child').children.flatMap (slabIds d),
        id.idx ≤ c1.ctr := fun id h => (ids1.2 id h).2.2
    rcases htl with ⟨m2, hsp, rfl⟩ | ⟨rfl, rfl⟩
    · obtain ⟨E2, hlog2, hacct2⟩ := tail_split_acct (e := ent (d + 1) (ofMeta m)) hch1 hk hsp hnd hle
      rw [hch1] at hacct2
      obtain ⟨h1, h2⟩ := parent_acct hch hids hlog1 hacct1 hlog2 hacct2
      exact ⟨_, _, h1, h2⟩
    · have hacct2 := tail_plain_acct (m1 := insM1 m k child') (m2 := insM1 m k child')
        (e := ent (d + 1) (ofMeta m)) rfl rfl hnd hle
      rw [hch1] at hacct2
      obtain ⟨h1, h2⟩ := parent_acct hch hids hlog1 hacct1 (Log.store c1 m.hdr.id) hacct2
      exact ⟨_, _, h1, h2⟩


theorem set_acctR (hT : legalThreshold T = true) :
    ∀ (d : Nat) (t : ATree d) (top : Bool) (i : Nat) (v : Elem) (c : Ctx) (addr : Nat) (old : Elem)
      (t' : ATree d) (c' : Ctx),
    TreeInv T d top t → NotInl d t → StorOk T v → IdsOk addr c.ctr (slabIds d t) →
    ATree.set T d t i v c = .ok (old, t', c') →
    ∃ E C, Log c c' E C ∧ Acct c.ctr (ATree.slabs d t) (ATree.slabs d t') E (C.map (·.1))
  | 0, t, top, i, v, c, addr, old, t', c' => by
    refine forall_ofData ?_ t; intro s _ hni _ _ hr
    exact data_set_acct s t' i v old c c' hni hr
  | d + 1, t, top, i, v, c, addr, old, t', c' => by
    refine forall_ofMeta ?_ t; intro m hinv _ hv hids hr
    obtain ⟨hs, _, _, _⟩ := (treeInv_succ T d top m).1 hinv
    obtain ⟨k, adj, child, child', c1, m2, hchild, hset, haft, rfl⟩ := set_succ_inv m i v c old t' c' hr
    obtain ⟨A, B, hch, hk⟩ := split_at_getElem? hchild
    have hc : TreeInv T d false child := hs.kids_inv child (by rw [hch]; simp)
    have hadj : adj < (flatten d child).length := by
      rcases Nat.lt_or_ge adj (flatten d child).length with h | h
      · exact h
      · rw [set_err_gen d child false adj v c hc.shape_false h] at hset; cases hset
    obtain ⟨child'', c1', hset', hstep, _⟩ :=
      set_genR hT d child false adj v c hc hc.notInl_of_false hv hadj
    rw [hset] at hset'
    simp only [Except.ok.injEq, Prod.mk.injEq] at hset'
    obtain ⟨_, rfl, rfl⟩ := hset'
    obtain ⟨E1, C1, hlog1, hacct1⟩ := set_acctR hT d child false adj v c addr old child' c1 hc
      hc.notInl_of_false hv (ids_child hch hids) hset
    have hch1 : (setM1 m k child').children = A ++ child' :: B := by
      rw [setM1_children, hch, set_mid hk]
    have ids1 := ids_after_child (m1 := setM1 m k child') hch hch1 rfl hstep.repl hids
    rw [slabIds_succ] at ids1
    have hnd := ids1.1
    have hle : ∀ id ∈ (setM1 m k child').hdr.id :: (setM1 m k child').children.flatMap (slabIds d),
        id.idx ≤ c1.ctr := fun id h => (ids1.2 id h).2.2
    rcases afterSet_inv _ _ _ _ _ _ haft with hsp | ⟨u, hmr⟩ | ⟨rfl, rfl⟩
    · obtain ⟨E2, hlog2, hacct2⟩ := tail_split_acct (e := ent (d + 1) (ofMeta m)) hch1 hk hsp hnd hle
      rw [hch1] at hacct2
      obtain ⟨h1, h2⟩ := parent_acct hch hids hlog1 hacct1 hlog2 hacct2
      exact ⟨_, _, h1, h2⟩
    · obtain ⟨E2, hlog2, hacct2⟩ := tail_mor_acct (e := ent (d + 1) (ofMeta m)) hch1 hk hmr hnd hle
      rw [hch1] at hacct2
      obtain ⟨h1, h2⟩ := parent_acct hch hids hlog1 hacct1 hlog2 hacct2
      exact ⟨_, _, h1, h2⟩
    · have hacct2 := tail_plain_acct (m1 := setM1 m k child') (m2 := setM1 m k child')
        (e := ent (d + 1) (ofMeta m)) rfl rfl hnd hle
      rw [hch1] at hacct2
      obtain ⟨h1, h2⟩ := parent_acct hch hids hlog1 hacct1 (Log.store c1 m.hdr.id) hacct2
      exact ⟨_, _, h1, h2⟩

theorem arr_insert_acctR (hT : legalThreshold T = true) (a : Arr) (c : Ctx) (i : Nat) (v : Elem)
    (hv : StorOk T v) (h : ArrInv T a c.ctr) (a' : Arr) (c' : Ctx)
    (hr : a.insert T i v c = .ok (a', c')) :
    ∃ E C, Log c c' E C ∧
      Acct c.ctr (ATree.slabs a.d a.root) (ATree.slabs a'.d a'.root) E (C.map (·.1)) := by
  obtain ⟨d, t, ty⟩ := a
  unfold Arr.insert at hr
  split at hr
  · cases hr
  · obtain ⟨⟨t', c1⟩, hins, hr⟩ := bind_eq_ok hr
    simp only at hins hr
    have hi : i ≤ (flatten d t).length := by
      rcases Nat.lt_or_ge (flatten d t).length i with h1 | h1
      · rw [insert_err_gen d t true i v c h.shape h1] at hins; cases hins
      · exact h1
    obtain ⟨t'', c1', hins', hstep, _⟩ := insert_genR hT d t true i v c h.tree h.notInl hv hi
    rw [hins] at hins'
    simp only [Except.ok.injEq, Prod.mk.injEq] at hins'
    obtain ⟨rfl, rfl⟩ := hins'
    obtain ⟨E1, C1, hlog1, hacct1⟩ :=
      insert_acctR hT d t true i v c _ t' c1 h.tree h.notInl hv h.ids hins
    by_cases hfull : ATree.isFull T d t' = true
    · simp only [hfull, if_true] at hr
      have hids' := repl_single_ids hstep.repl _ h.ids
      obtain ⟨_, E2, hlog2, hacct2⟩ := splitRoot_acct d t' ty c1 _ a' c' hids' hr
      refine ⟨E1 ++ E2, C1, by simpa using hlog1.trans hlog2, ?_⟩
      simpa using hacct1.trans hacct2 hlog1.ctr_le (keys_le_of_ids h.ids)
    · simp only [hfull] at hr
      cases hr
      exact ⟨E1, C1, hlog1, hacct1⟩

theorem arr_set_acctR (hT : legalThreshold T = true) (a : Arr) (c : Ctx) (i : Nat) (v : Elem)
    (hv : StorOk T v) (h : ArrInv T a c.ctr) (old : Elem) (a' : Arr) (c' : Ctx)
    (hr : a.set T i v c = .ok (old, a', c')) :
    ∃ E C, Log c c' E C ∧
      Acct c.ctr (ATree.slabs a.d a.root) (ATree.slabs a'.d a'.root) E (C.map (·.1)) := by
  obtain ⟨d, t, ty⟩ := a
  unfold Arr.set at hr
  obtain ⟨⟨old', t', c1⟩, hset, hr⟩ := bind_eq_ok hr
  simp only at hset hr
  have hi : i < (flatten d t).length := by
    rcases Nat.lt_or_ge i (flatten d t).length with h1 | h1
    · exact h1
    · rw [set_err_gen d t true i v c h.shape h1] at hset; cases hset
  obtain ⟨t'', c1', hset', hstep, _⟩ := set_genR hT d t true i v c h.tree h.notInl hv hi
  rw [hset] at hset'
  simp only [Except.ok.injEq, Prod.mk.injEq] at hset'
  obtain ⟨_, rfl, rfl⟩ := hset'
  obtain ⟨E1, C1, hlog1, hacct1⟩ :=
    set_acctR hT d t true i v c _ old' t' c1 h.tree h.notInl hv h.ids hset
  have hids' := repl_single_ids hstep.repl _ h.ids
  by_cases hfull : ATree.isFull T d t' = true
  · simp only [hfull, if_true] at hr
    obtain ⟨⟨a2, c2⟩, hsr, hr⟩ := bind_eq_ok hr
    simp only [pure, Except.pure, Except.ok.injEq, Prod.mk.injEq] at hr
    obtain ⟨_, rfl, rfl⟩ := hr
    obtain ⟨⟨m2, rfl, hlen⟩, E2, hlog2, hacct2⟩ := splitRoot_acct d t' ty c1 _ a2 c2 hids' hsr
    rw [promote_not_single d m2 ty c2 (by omega)]
    refine ⟨E1 ++ E2, C1, by simpa using hlog1.trans hlog2, ?_⟩
    simpa using hacct1.trans hacct2 hlog1.ctr_le (keys_le_of_ids h.ids)
  · simp only [hfull] at hr
    obtain ⟨⟨a2, c2⟩, hsr, hr⟩ := bind_eq_ok hr
    simp only [pure, Except.pure, Except.ok.injEq, Prod.mk.injEq] at hr hsr
    obtain ⟨_, rfl, rfl⟩ := hr
    obtain ⟨rfl, rfl⟩ := hsr
    obtain ⟨E2, hlog2, hacct2⟩ := promote_acct d t' ty c1 _ hstep.shape hids'
    refine ⟨E1 ++ E2, C1, by simpa using hlog1.trans hlog2, ?_⟩
    simpa using hacct1.trans hacct2 hlog1.ctr_le (keys_le_of_ids h.ids)


end Atree
