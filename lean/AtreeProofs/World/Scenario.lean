import AtreeProofs.World.Eval
/-
  A concrete run of the model used by the non-vacuity sections of C10 / C11 (T = 256):
  a root array `R`, a child array `X` inserted into it, five plain inserts through the child (it
  stays inline, ending exactly at the inline limit 117), a sixth one (it is un-inlined), the
  removal of the child from the parent, and a later mutation of the detached child (which would fit
  inline again, so that its stale callback fires and finds its slot gone).
  All states are computed with the kernel-evaluable copies (`…S`), which are equal to the model.
-/
namespace Atree.Scenario
open Atree Gen World

def w0 : World := { T := 256, addr := 1 }
def cx0 : Ctx := { ctr := 0, eff := [] }

def okW (r : Except WErr (World × Ctx)) : World × Ctx :=
  match r with | .ok x => x | .error _ => (w0, cx0)
def okE (r : Except WErr (Elem × World × Ctx)) : Elem × World × Ctx :=
  match r with | .ok x => x | .error _ => (default, w0, cx0)

theorem eq_okW (r : Except WErr (World × Ctx)) (h : r.toBool = true) : r = .ok (okW r) := by
  cases r with
  | ok x => rfl
  | error e => cases h

theorem eq_okE (r : Except WErr (Elem × World × Ctx)) (h : r.toBool = true) : r = .ok (okE r) := by
  cases r with
  | ok x => rfl
  | error e => cases h

def R : SlabID := ⟨1, 1⟩
def X : SlabID := ⟨1, 2⟩
/-- a plain 20-byte value -/
def pl (n : Nat) : WVal := .plain { size := 20, pay := .val n }

def s1 : SlabID × World × Ctx := w0.newArr 7 cx0
def s2 : SlabID × World × Ctx := s1.2.1.newArr 8 s1.2.2
/-- `X` inserted into `R` -/
def s3 : World × Ctx := okW (s2.2.1.arrInsertS R 0 (.child X 0) s2.2.2)
def s4 : World × Ctx := okW (s3.1.arrInsertS X 0 (pl 1) s3.2)
def s5 : World × Ctx := okW (s4.1.arrInsertS X 1 (pl 2) s4.2)
def s6 : World × Ctx := okW (s5.1.arrInsertS X 2 (pl 3) s5.2)
def s7 : World × Ctx := okW (s6.1.arrInsertS X 3 (pl 4) s6.2)
/-- `X` holds 5 values, inline, exactly at the limit -/
def s8 : World × Ctx := okW (s7.1.arrInsertS X 4 (pl 5) s7.2)
/-- sixth value: `X` is pushed over the limit and un-inlined -/
def s9 : World × Ctx := okW (s8.1.arrInsertS X 5 (pl 6) s8.2)
/-- `X` removed from `R` -/
def s10 : Elem × World × Ctx := okE (s9.1.arrRemoveS R 0 s9.2)
/-- the detached `X` is mutated again (a value is removed: it would fit inline again) -/
def s11 : Elem × World × Ctx := okE (s10.2.1.arrRemoveS X 0 s10.2.2)

/-- executable check of `MutIdxOk` (every recorded index holds a reference to its child) -/
def mutIdxOkB (w : World) : Bool :=
  w.mutIdx.all (fun pm =>
    match w.cont? pm.1 with
    | some (.arr a) => pm.2.all (fun xi =>
        match a.toList[xi.2]? with
        | some e => e.pay == .ref xi.1
        | none => false)
    | _ => true)

/-- every step of the run is a successful run of the MODEL operation -/
theorem run_ok :
    s2.2.1.arrInsert R 0 (.child X 0) s2.2.2 = .ok s3 ∧
    s3.1.arrInsert X 0 (pl 1) s3.2 = .ok s4 ∧ s4.1.arrInsert X 1 (pl 2) s4.2 = .ok s5 ∧
    s5.1.arrInsert X 2 (pl 3) s5.2 = .ok s6 ∧ s6.1.arrInsert X 3 (pl 4) s6.2 = .ok s7 ∧
    s7.1.arrInsert X 4 (pl 5) s7.2 = .ok s8 ∧ s8.1.arrInsert X 5 (pl 6) s8.2 = .ok s9 ∧
    s9.1.arrRemove R 0 s9.2 = .ok s10 ∧ s10.2.1.arrRemove X 0 s10.2.2 = .ok s11 := by
  simp only [arrInsert_eq_S, arrRemove_eq_S]
  refine ⟨?_, ?_, ?_, ?_, ?_, ?_, ?_, ?_, ?_⟩
  · apply eq_okW; decide
  · apply eq_okW; decide
  · apply eq_okW; decide
  · apply eq_okW; decide
  · apply eq_okW; decide
  · apply eq_okW; decide
  · apply eq_okW; decide
  · apply eq_okE; decide
  · apply eq_okE; decide

/-! the states right before the notifications inside the sixth insert and inside the last removal -/

/-- the array a container is, or an empty one -/
def arrOf (w : World) (v : SlabID) : Arr :=
  match w.cont? v with
  | some (.arr a) => a
  | _ => (Arr.new 0 0 cx0).1

/-- world and context at the call of `notifyParent` inside `arrInsert w p i (.plain e) cx` -/
def preInsert (w : World) (p : SlabID) (i : Nat) (e : Elem) (cx : Ctx) : World × Ctx :=
  match (arrOf w p).insert w.T i e cx with
  | .ok (a', cx') => ((w.setCont p (.arr a')).shiftIdx p (fun j => if j ≥ i then j + 1 else j), cx')
  | .error _ => (w, cx)

/-- world and context at the call of `notifyParent` inside `arrRemove w p i cx` -/
def preRemove (w : World) (p : SlabID) (i : Nat) (cx : Ctx) : World × Ctx :=
  match (arrOf w p).remove w.T i cx with
  | .ok (_, a', cx') => ((w.setCont p (.arr a')).shiftIdx p (fun j => if j > i then j - 1 else j), cx')
  | .error _ => (w, cx)

/-- before the notification of the sixth insert: `X` has grown to 137 bytes but is still inline -/
def mid9 : World × Ctx := preInsert s8.1 X 5 ⟨20, .val 6⟩ s8.2
/-- before the notification of the last removal: `X` is detached, standalone, and would fit inline -/
def mid11 : World × Ctx := preRemove s10.2.1 X 0 s10.2.2

end Atree.Scenario
