import AtreeProofs.World.OpsArr
import AtreeProofs.World.OpsOld
/-
  `arrRemove` and `arrSet` keep the global invariant.
-/
namespace Atree
open Gen

namespace World

variable {D : SlabID → DigestFn 4}

theorem kslots_arr_eraseIdx (T : Nat) {a a' : Arr} {i : Nat} (h : a'.toList = a.toList.eraseIdx i) :
    (Cont.arr a').kslots T = ((Cont.arr a).kslots T).eraseIdx i := by
  simp only [Cont.kslots, h, map_eraseIdx']

theorem kslots_arr_set (T : Nat) {a a' : Arr} {i : Nat} {e : Elem} (h : a'.toList = a.toList.set i e) :
    (Cont.arr a').kslots T = ((Cont.arr a).kslots T).set i (none, maxInlineArr T, e) := by
  simp only [Cont.kslots, h, List.map_set]

/-- the caller-side clean-up of the index table -/
def eraseOld (w : World) (p : SlabID) (ov : Option SlabID) : World :=
  match ov with
  | none => w
  | some o => w.setIdx p (AList.erase (w.idxOf p) o)

theorem sigFrame_eraseOld (w : World) (p : SlabID) (ov : Option SlabID) (q : SlabID) :
    SigFrame w (eraseOld w p ov) q := by
  cases ov <;> exact SigFrame.of_conts (fun _ _ => rfl)

/-- the clean-up only drops the entry of the old child -/
theorem eraseOld_keep (w : World) (p : SlabID) (ov : Option SlabID) (q z : SlabID)
    (h : ∀ o, ov = some o → o ≠ z) :
    AList.find? ((eraseOld w p ov).idxOf q) z = AList.find? (w.idxOf q) z := by
  cases ov with
  | none => rfl
  | some o =>
    simp only [eraseOld, idxOf_setIdx]
    split
    · rename_i hpq; subst hpq
      rw [AList.find?_erase, if_neg (h o rfl)]
    · rfl

theorem eraseOld_facts (w : World) (p : SlabID) (ov : Option SlabID) :
    (eraseOld w p ov).T = w.T ∧ (eraseOld w p ov).addr = w.addr ∧ (∀ z, (eraseOld w p ov).cont? z = w.cont? z) ∧
    (eraseOld w p ov).hinfo = w.hinfo ∧
    (∀ q z (j : Nat), AList.find? ((eraseOld w p ov).idxOf q) z = some j → AList.find? (w.idxOf q) z = some j) ∧
    (∀ q z, q ≠ p → AList.find? ((eraseOld w p ov).idxOf q) z = AList.find? (w.idxOf q) z) ∧
    (∀ o, ov = some o → AList.find? ((eraseOld w p ov).idxOf p) o = none) := by
  cases ov with
  | none => exact ⟨rfl, rfl, fun _ => rfl, rfl, fun _ _ _ h => h, fun _ _ _ => rfl, fun o h => by cases h⟩
  | some o =>
    refine ⟨rfl, rfl, fun _ => rfl, rfl, ?_, ?_, ?_⟩
    · intro q z j h
      simp only [eraseOld, idxOf_setIdx] at h
      split at h
      · rename_i hpq; subst hpq
        rw [AList.find?_erase] at h
        split at h
        · cases h
        · exact h
      · exact h
    · intro q z hq
      simp only [eraseOld, idxOf_setIdx, if_neg (Ne.symm hq)]
    · intro o' h
      cases h
      simp only [eraseOld, idxOf_setIdx, if_true, AList.find?_erase]

/-- the container handed back is a root afterwards: its handle is current -/
theorem HandedBack.handleOk {w w' : World} {old : Elem} (h : HandedBack w w' old) {z : SlabID}
    (hz : old.pay = .ref z) (hl : (w.cont? z).isSome) : HandleOk w' z := by
  obtain ⟨c, hc⟩ := Option.isSome_iff_exists.mp hl
  obtain ⟨_, _, _, _, _, hr⟩ := h z c hz hc
  exact HandleOk.root z hr

theorem arrRemove_okA {rank0 : SlabID → Nat} {w : World} {p : SlabID} {i : Nat} {cx : Ctx} {old' : Elem} {w' : World}
    {cx' : Ctx} (H0 : WorldOkGen D rank0 none (fun _ => False) w cx.ctr) (hhand : HandleOk w p)
    (h : w.arrRemove p i cx = .ok (old', w', cx')) :
    WorldOk D w' cx'.ctr ∧ cx.ctr ≤ cx'.ctr ∧ RemovedAt w w' p i old' ∧ HandleOk w' p ∧ SigFrame w w' p ∧
      OpFrame rank0 w w' p (Moved none (some old')) := by
  unfold arrRemove at h
  split at h
  · rename_i a hpa
    split at h
    · cases h
    · rename_i old a' cx1 hrem
      simp only [bind, Except.bind] at h
      split at h
      · cases h
      · rename_i r hnp
        obtain ⟨w3, cx3⟩ := r
        simp only at h
        split at h
        · cases h
        · rename_i r2 hun
          obtain ⟨old2, ov, w4, cx4⟩ := r2
          simp only [pure, Except.pure] at h
          cases h
          change WorldOk D (eraseOld w4 p ov) cx'.ctr ∧ cx.ctr ≤ cx'.ctr ∧
            RemovedAt w (eraseOld w4 p ov) p i old' ∧ HandleOk (eraseOld w4 p ov) p ∧
            SigFrame w (eraseOld w4 p ov) p ∧ OpFrame rank0 w (eraseOld w4 p ov) p (Moved none (some old'))
          have hpok : ArrOk w.T a cx.ctr := H0.conts p _ hpa
          obtain ⟨hold, hl, hok', hinl', hrid, _, hctr1, hsz⟩ := hpok.remove_ok H0.legal hrem
          have hks : ((Cont.arr a).kslots w.T)[i]? = some (none, maxInlineArr w.T, old) := by
            rw [Cont.kslots_arr]; exact ⟨old, hold, rfl⟩
          have hb2 := two_inline_le w.T H0.legal
          have H2 : WorldOkGen D rank0 (some p) (fun z => old.pay = .ref z)
              ((w.setCont p (.arr a')).shiftIdx p (fun j => if j > i then j - 1 else j)) cx1.ctr := by
            refine step_remove (pc' := .arr a') H0 hpa (fun _ h => absurd h id) hok' rfl hinl' hrid ?_ hctr1
              (kslots_arr_eraseIdx w.T hl) hks (fun x hx => hx) rfl rfl rfl
              (find?_idxOf_shiftIdx _ _ _) (by simp) (fun z hz => by simp [Ne.symm hz])
            intro hi2
            have hi2' : a.isInlined = true := by rw [← hinl']; exact hi2
            have hroom : a.rootHdr.size ≤ maxInlineArr w.T :=
              H0.inl_budget hpa hi2' (by intro h; cases h) (fun h => h)
            have := hsz hi2'
            show a'.rootHdr.size ≤ w.T
            omega
          have hhand2 : HandleOk ((w.setCont p (.arr a')).shiftIdx p (fun j => if j > i then j - 1 else j)) p :=
            handleOk_mutate (pc' := .arr a') H0.rank H2.rank hpa (by simp) (fun z hz => by simp [Ne.symm hz]) rfl rfl
              (fun q x hq => by rw [find?_idxOf_shiftIdx, if_neg (Ne.symm hq)]; rfl) hhand
          have hsome2 : ∀ z, (((w.setCont p (.arr a')).shiftIdx p (fun j => if j > i then j - 1 else j)).cont? z).isSome
              = (w.cont? z).isSome := by
            intro z
            rw [cont?_shiftIdx, cont?_setCont]
            split
            · rename_i hpz; subst hpz; rw [hpa]; rfl
            · rfl
          obtain ⟨H3, F3, hctr3⟩ := notify_ok D rank0 (fun z => old.pay = .ref z) _ _ _ _ _ _ H2 hhand2
            (fun z hz hzs => by
              rw [hsome2] at hzs
              exact H0.rank p z (holds_of_kslot hpa hks hz) hzs) hnp
          obtain ⟨cp3, hcp3, hsd3⟩ := (by
            have := F3.self
            rw [cont?_shiftIdx, cont?_setCont_self] at this
            exact this.get_some : ∃ cp3, w3.cont? p = some cp3 ∧ Cont.SameData (.arr a') cp3)
          obtain ⟨a3, rfl, hl3, hrid3, _⟩ := hsd3.arr
          -- nobody refers to the removed container any more
          have hunref : ∀ z, old.pay = .ref z → (w3.cont? z).isSome → ∀ q, ¬ Holds w3 q z := by
            intro z hz hzs q hq
            rw [F3.sig.isSome, hsome2] at hzs
            have hq2 := (F3.sig.holds_iff q z).mp hq
            obtain ⟨qc, hqc, hm⟩ := hq2
            obtain ⟨j, hj⟩ := List.mem_iff_getElem?.mp hm
            have hpi : (Cont.arr a).pays[i]? = some (Pay.ref z) := by rw [Cont.kslot_pay hks]; exact congrArg some hz
            by_cases hqp : q = p
            · subst hqp
              rw [cont?_shiftIdx, cont?_setCont_self] at hqc
              cases hqc
              rw [Cont.pays, Cont.storedElems, hl] at hj
              by_cases hji : j < i
              · rw [List.getElem?_map, List.getElem?_eraseIdx_of_lt hji, ← List.getElem?_map] at hj
                have := (H0.unique q q _ _ j i z hpa hpa hj hpi hzs).2
                omega
              · rw [List.getElem?_map, List.getElem?_eraseIdx_of_ge (by omega), ← List.getElem?_map] at hj
                have := (H0.unique q q _ _ (j + 1) i z hpa hpa hj hpi hzs).2
                omega
            · rw [cont?_shiftIdx, cont?_setCont_ne _ _ _ _ hqp] at hqc
              exact hqp (H0.unique q p qc _ j i z hqc hpa hj hpi hzs).1
          obtain ⟨e1, e2, e3, e4, e5, e6, e7⟩ := eraseOld_facts w4 p ov
          have hun' := uninlineIfNeeded_ok hun
          obtain ⟨H5, f1, f2, hT4, hh4, hm4, hS34, hpay, hctr4⟩ :=
            finish_old (w5 := eraseOld w4 p ov) H3 hunref hun e1 e2 e3 e4 e5 (by
              intro z hz q aq j hq hj
              rw [e3] at hq
              have hidx43 : ∀ q z, AList.find? (w4.idxOf q) z = AList.find? (w3.idxOf q) z := by
                intro q z; simp [World.idxOf, hun'.2.2.1]
              obtain ⟨_, _, _, _, _, hcase⟩ := hun'
              rcases hcase with ⟨_, _, _, _, hnone⟩ | ⟨x, c, hov, hx, hc, _⟩
              · have := (H3.idxLive q z j (by rw [← hidx43]; exact e5 q z j hj)).1
                rw [hnone z hz] at this; cases this
              · have hzx : x = z := by rw [hx] at hz; cases hz; rfl
                subst hzx
                by_cases hqp : q = p
                · subst hqp
                  rw [e7 x hov] at hj; cases hj
                · rw [e6 q x hqp, hidx43, F3.idx, find?_idxOf_shiftIdx, if_neg (Ne.symm hqp)] at hj
                  have hxs : (w.cont? x).isSome := by rw [← hsome2, ← F3.sig.isSome, hc]; rfl
                  have hq4 : w4.cont? q = some (.arr aq) := hq
                  obtain ⟨c3, hc3, hs3⟩ := (finish_old_sig hun).symm.get hq4
                  obtain ⟨c2, hc2, hs2⟩ := F3.sig.symm.get hc3
                  rw [cont?_shiftIdx, cont?_setCont_ne _ _ _ _ hqp] at hc2
                  obtain ⟨a0, rfl⟩ := Cont.sig_kind_arr ((hs2.trans hs3))
                  have := H0.mutIdx q a0 hc2 x j hj id
                  have hpi : (Cont.arr a).pays[i]? = some (Pay.ref x) := by
                    rw [Cont.kslot_pay hks]; exact congrArg some hx
                  exact hqp (H0.unique q p _ _ j i x hc2 hpa this hpi hxs).1)
          have hpnot : ∀ z, old.pay = .ref z → z ≠ p := by
            intro z hz he
            subst he
            have := H0.rank z z (holds_of_kslot hpa hks hz) (by rw [hpa]; rfl)
            omega
          have hp4 : w4.cont? p = some (.arr a3) := by
            rw [f1 p (fun h => hpnot p h rfl)]; exact hcp3
          -- the handle of `p`
          have hhand3 : HandleOk w3 p := hhand2.transfer (fun q y => (F3.sig.holds_iff q y).mp) F3.cur
          have hidx43 : ∀ q z, AList.find? (w4.idxOf q) z = AList.find? (w3.idxOf q) z := by
            intro q z; simp [World.idxOf, hm4]
          have hhand4 : HandleOk w4 p :=
            hhand3.transfer (fun q y => (hS34.holds_iff q y).mp)
              (CurKept.of_sig hS34 hidx43 (fun y hiy hy _ => by rw [hh4]; exact hy))
          have hr4 : CRank rank0 w4 := hS34.cRank H3.rank
          have hhand5 : HandleOk (eraseOld w4 p ov) p :=
            handleOk_mutate (pc := .arr a3) (pc' := .arr a3) hr4 H5.rank hp4 (by rw [e3]; exact hp4) (fun z _ => e3 z) e1 e4
              (fun q x hq => e6 q x hq) hhand4
          have hback : HandedBack w (eraseOld w4 p ov) old := by
            intro x c hx hc
            have hxs3 : (w3.cont? x).isSome := by rw [F3.sig.isSome, hsome2, hc]; rfl
            obtain ⟨c3, hc3⟩ := Option.isSome_iff_exists.mp hxs3
            have hxp : x ≠ p := hpnot x hx
            have hc3' : w3.cont? x = some c := by
              have hrk := H0.rank p x (holds_of_kslot hpa hks hx) (by rw [hc]; rfl)
              rw [F3.above x hxp (by omega), cont?_shiftIdx, cont?_setCont_ne _ _ _ _ hxp]; exact hc
            obtain ⟨c', hc', hni, hsd⟩ := f2 x c hx hc3'
            refine ⟨c', by rw [e3]; exact hc', hni, hsd.vid, hsd.storedElems, ?_⟩
            intro q hq
            obtain ⟨qc, hqc, hm⟩ := hq
            rw [e3] at hqc
            exact hunref x hx hxs3 q ((hS34.holds_iff q x).mp ⟨qc, hqc, hm⟩)
          -- all the handles
          have hEold : ∀ z, Moved none (some old') z → old.pay = .ref z := by
            rintro z (⟨wr, h⟩ | ⟨o, h, hz⟩)
            · cases h
            · cases h; rw [← hpay]; exact hz
          have hsome5 : ∀ z, ((eraseOld w4 p ov).cont? z).isSome = (w.cont? z).isSome := by
            intro z; rw [e3, hS34.isSome, F3.sig.isSome, hsome2]
          have K12 : HKeep (Moved none (some old')) w
              ((w.setCont p (.arr a')).shiftIdx p (fun j => if j > i then j - 1 else j)) :=
            hkeep_remove (pc' := .arr a') _ hpa rfl (kslots_arr_eraseIdx w.T hl) hks
              (fun z hz => moved_old none (by rw [hpay]; exact hz)) rfl (find?_idxOf_shiftIdx _ _ _) (by simp)
              (fun z hz => by simp [Ne.symm hz])
          have K23 : HKeep (Moved none (some old')) _ w3 :=
            HKeep.of_curKept _ (fun q y => (F3.sig.holds_iff q y).mp) F3.cur
          have K34 : HKeep (Moved none (some old')) w3 w4 := HKeep.of_sig _ hS34 hidx43 hh4
          have K45 : HKeep (Moved none (some old')) w4 (eraseOld w4 p ov) :=
            HKeep.of_erase e1 e3 e4 (fun q z hzE => eraseOld_keep w4 p ov q z (fun o ho hoz => by
              obtain ⟨_, _, _, _, _, hcase⟩ := hun'
              rcases hcase with ⟨h1, _⟩ | ⟨o', c', h1, h2, _⟩
              · rw [ho] at h1; cases h1
              · rw [ho] at h1; cases h1
                exact hzE (moved_old none (by rw [hpay, ← hoz]; exact h2))))
          refine ⟨⟨rank0, by rw [hctr4]; exact H5⟩, by omega, ⟨a, a3, old, hpa, by rw [e3]; exact hp4, hold,
            by rw [hl3, hl], hpay, hback⟩, hhand5,
            (((sigFrame_setCont_shift _ _ _ _).trans (SigFrame.of_sig F3.sig p)).trans (SigFrame.of_sig hS34 p)).trans
              (sigFrame_eraseOld _ _ _ _),
            fun z hz hrk hzE => ⟨?_, ?_⟩, fun q y hq => ?_, fun z hzh hzs => ?_⟩
          · rw [e3, f1 z (fun h => hzE (moved_old none (by rw [hpay]; exact h))), F3.above z hz hrk, cont?_shiftIdx,
              cont?_setCont_ne _ _ _ _ hz]
          · rw [e4, hh4, F3.hinfo z hz hrk]; rfl
          · rw [e6 q y hq, hidx43, F3.idx, find?_idxOf_shiftIdx, if_neg (Ne.symm hq)]; rfl
          · exact (((K12.trans K23).trans K34).trans K45).handleOk
              (fun z hz hl => hback.handleOk (hEold z hz) hl) hzh (by rw [← hsome5]; exact hzs)
  · cases h

theorem arrRemove_ok {w : World} {p : SlabID} {i : Nat} {cx : Ctx} {old' : Elem} {w' : World} {cx' : Ctx}
    (H : WorldOk D w cx.ctr) (hhand : HandleOk w p)
    (h : w.arrRemove p i cx = .ok (old', w', cx')) :
    WorldOk D w' cx'.ctr ∧ cx.ctr ≤ cx'.ctr ∧ RemovedAt w w' p i old' ∧ HandleOk w' p ∧ SigFrame w w' p := by
  obtain ⟨rank0, H0⟩ := H
  obtain ⟨h1, h2, h3, h4, h5, _⟩ := arrRemove_okA H0 hhand h
  exact ⟨h1, h2, h3, h4, h5⟩

/-! ### `arrSet` -/

theorem slabID_beq_false {x y : SlabID} (h : x ≠ y) : (x == y) = false := by
  obtain ⟨a1, i1⟩ := x
  obtain ⟨a2, i2⟩ := y
  cases hb : (SlabID.mk a1 i1 == SlabID.mk a2 i2) with
  | false => rfl
  | true =>
    exfalso
    apply h
    have : (a1 == a2 && i1 == i2) = true := hb
    simp only [Bool.and_eq_true, beq_iff_eq] at this
    rw [this.1, this.2]

theorem arrSet_final (w4 : World) (p x : SlabID) (wr : Nat) (ov : Option SlabID) :
    (∀ o, ov = some o → (x == o) = false) →
    (match ov with
      | none => w4
      | some ov =>
        if (match WVal.child x wr with | .child nv _ => nv == ov | _ => false) = true then w4
        else w4.setIdx p (AList.erase (w4.idxOf p) ov)) = eraseOld w4 p ov := by
  intro h
  cases ov with
  | none => rfl
  | some o => simp [h o rfl, eraseOld]

/-- after the slot `i` of `p` has been overwritten (and the ancestors notified), nobody refers to the
    container the old element referred to -/
theorem old_unreferenced {w w1 w2 w3 : World} {ctr : Nat} {rank : SlabID → Nat} {O : SlabID → Prop}
    (H0 : WorldOkGen D rank none O w ctr) {p : SlabID} {a a' : Arr} {i : Nat} {old e : Elem}
    (hpa : w.cont? p = some (.arr a)) (hold : a.toList[i]? = some old) (hl : a'.toList = a.toList.set i e)
    (he : ∀ z, e.pay = .ref z → (w.cont? z).isSome → ∀ q, ¬ Holds w q z)
    (hS1 : ContsSig w w1) (hp1 : w1.cont? p = some (.arr a))
    (hc2 : w2.cont? p = some (.arr a')) (hco2 : ∀ z, z ≠ p → w2.cont? z = w1.cont? z) (hS23 : ContsSig w2 w3) :
    ∀ z, old.pay = .ref z → (w3.cont? z).isSome → ∀ q, ¬ Holds w3 q z := by
  intro z hz hzs q hq
  have hsome2 : ∀ y, (w2.cont? y).isSome = (w1.cont? y).isSome := by
    intro y
    by_cases hy : y = p
    · subst hy; rw [hc2, hp1]; rfl
    · rw [hco2 y hy]
  rw [hS23.isSome, hsome2, hS1.isSome] at hzs
  have hpi : (Cont.arr a).pays[i]? = some (Pay.ref z) := by
    rw [Cont.pays, Cont.storedElems, List.getElem?_map, hold]; exact congrArg some hz
  have hq2 := (hS23.holds_iff q z).mp hq
  obtain ⟨qc, hqc, hm⟩ := hq2
  obtain ⟨j, hj⟩ := List.mem_iff_getElem?.mp hm
  by_cases hqp : q = p
  · subst hqp
    rw [hc2] at hqc; cases hqc
    rw [Cont.pays, Cont.storedElems, hl, List.getElem?_map] at hj
    by_cases hji : j = i
    · subst hji
      rw [List.getElem?_set_self (List.getElem?_eq_some_iff.mp hold).1] at hj
      simp only [Option.map_some, Option.some.injEq] at hj
      exact he z hj hzs q ⟨_, hpa, List.mem_of_getElem? hpi⟩
    · rw [List.getElem?_set_ne (Ne.symm hji), ← List.getElem?_map] at hj
      exact hji (H0.unique q q _ _ j i z hpa hpa hj hpi hzs).2
  · rw [hco2 q hqp] at hqc
    obtain ⟨qc0, hqc0, hs0⟩ := hS1.symm.get hqc
    have hj0 : qc0.pays[j]? = some (Pay.ref z) := by rw [Cont.sig_pays hs0]; exact hj
    exact hqp (H0.unique q p qc0 _ j i z hqc0 hpa hj0 hpi hzs).1

theorem arrSet_okA {rank0 : SlabID → Nat} {w : World} {p : SlabID} {i : Nat} {v : WVal} {cx : Ctx} {old' : Elem}
    {w' : World} {cx' : Ctx} (H0 : WorldOkGen D rank0 none (fun _ => False) w cx.ctr) (hhand : HandleOk w p)
    (hv : WValOk w p (maxInlineArr w.T) v) (h : w.arrSet p i v cx = .ok (old', w', cx')) :
    WorldOk D w' cx'.ctr ∧ cx.ctr ≤ cx'.ctr ∧ SetAt w w' p i v old' ∧ HandleOk w' p ∧ SigFrame w w' p ∧
      OpFrame rank0 w w' p (Moved (some v) (some old')) := by
  unfold arrSet at h
  simp only [bind, Except.bind] at h
  split at h
  · cases h
  · rename_i r hset
    obtain ⟨old, w3c, cx3⟩ := r
    simp only at h
    split at h
    · cases h
    · rename_i r2 hun
      obtain ⟨old2, ov, w4, cx4⟩ := r2
      simp only [pure, Except.pure] at h
      cases h
      rw [arrSetRaw] at hset
      split at hset
      · rename_i a hpa
        split at hset
        · cases hset
        · split at hset
          · cases hset
          · rename_i e w1 cx1 hst
            split at hset
            · cases hset
            · rename_i old1 a' cx2 hs
              simp only at hset
              split at hset
              · cases hset
              · rename_i w3 cx3' hnp
                cases hset
                have hb2 := two_inline_le w.T H0.legal
                cases v with
                | plain e0 =>
                  simp only [World.storableOf] at hst
                  cases hst
                  obtain ⟨⟨_, n, hn⟩, hsz0⟩ := hv
                  have hpok : ArrOk w.T a cx.ctr := H0.conts p _ hpa
                  have hso : StorOk w.T e := StorOk.of_elemOk ⟨by assumption, hsz0⟩
                  obtain ⟨hold, hl, hok', hinl', hrid, _, hctr2, hsz⟩ :=
                    hpok.set_ok H0.legal hso (H0.arr_room hpa (by intro h; cases h) (fun h => h)) hs
                  rw [toStorable_fit _ _ e cx hsz0] at hl hsz
                  simp only at hl hsz
                  have hks : ((Cont.arr a).kslots w.T)[i]? = some (none, maxInlineArr w.T, old) := by
                    rw [Cont.kslots_arr]; exact ⟨old, hold, rfl⟩
                  have H2 : WorldOkGen D rank0 (some p) (fun z => old.pay = .ref z) (w.setCont p (.arr a')) cx2.ctr := by
                    refine step_set (pc' := .arr a') H0 hpa (fun _ h => absurd h id) hok' rfl hinl' hrid ?_ hctr2
                      (kslots_arr_set w.T hl) hks (fun x hx => hx) ?_ ?_ rfl rfl rfl (fun q x => rfl) (by simp)
                      (fun z hz => by simp [Ne.symm hz])
                    · intro hi2
                      have hi2' : a.isInlined = true := by rw [← hinl']; exact hi2
                      have hroom : a.rootHdr.size ≤ maxInlineArr w.T :=
                        H0.inl_budget hpa hi2' (by intro h; cases h) (fun h => h)
                      have := hsz hi2'
                      show a'.rootHdr.size ≤ w.T
                      omega
                    · intro x c hx _
                      simp only at hx
                      rw [hn] at hx; cases hx
                    · intro r hr
                      simp only at hr
                      rw [hn] at hr; cases hr
                  have hhand2 : HandleOk (w.setCont p (.arr a')) p :=
                    handleOk_mutate (pc' := .arr a') H0.rank H2.rank hpa (by simp) (fun z hz => by simp [Ne.symm hz])
                      rfl rfl (fun q x hq => rfl) hhand
                  have hsome2 : ∀ z, ((w.setCont p (.arr a')).cont? z).isSome = (w.cont? z).isSome := by
                    intro z
                    rw [cont?_setCont]
                    split
                    · rename_i hpz; subst hpz; rw [hpa]; rfl
                    · rfl
                  obtain ⟨H3, F3, hctr3⟩ := notify_ok D rank0 (fun z => old.pay = .ref z) _ _ _ _ _ _ H2 hhand2
                    (fun z hz hzs => by
                      rw [hsome2] at hzs
                      exact H0.rank p z (holds_of_kslot hpa hks hz) hzs) hnp
                  obtain ⟨cp3, hcp3, hsd3⟩ := (by
                    have := F3.self
                    rw [cont?_setCont_self] at this
                    exact this.get_some : ∃ cp3, w3.cont? p = some cp3 ∧ Cont.SameData (.arr a') cp3)
                  obtain ⟨a3, rfl, hl3, hrid3, _⟩ := hsd3.arr
                  have hunref := old_unreferenced H0 hpa hold hl (fun z hz => by rw [hn] at hz; cases hz)
                    (ContsSig.refl w) hpa (cont?_setCont_self _ _ _) (fun z hz => cont?_setCont_ne _ _ _ _ hz) F3.sig
                  change WorldOk D (eraseOld w4 p ov) cx'.ctr ∧ cx.ctr ≤ cx'.ctr ∧
                    SetAt w (eraseOld w4 p ov) p i (.plain e) old' ∧ HandleOk (eraseOld w4 p ov) p ∧
                    SigFrame w (eraseOld w4 p ov) p ∧
                    OpFrame rank0 w (eraseOld w4 p ov) p (Moved (some (.plain e)) (some old'))
                  have hw3c : w3.setCallbackArr p i (.plain e) = w3 := rfl
                  rw [hw3c] at hun
                  obtain ⟨e1, e2, e3, e4, e5, e6, e7⟩ := eraseOld_facts w4 p ov
                  have hun' := uninlineIfNeeded_ok hun
                  have hidx43 : ∀ q z, AList.find? (w4.idxOf q) z = AList.find? (w3.idxOf q) z := by
                    intro q z; simp [World.idxOf, hun'.2.2.1]
                  obtain ⟨H5, f1, f2, hT4, hh4, hm4, hS34, hpay, hctr4⟩ :=
                    finish_old (w5 := eraseOld w4 p ov) H3 hunref hun e1 e2 e3 e4 e5 (by
                      intro z hz q aq j hq hj
                      rw [e3] at hq
                      obtain ⟨_, _, _, _, _, hcase⟩ := hun'
                      rcases hcase with ⟨_, _, _, _, hnone⟩ | ⟨x, c, hov, hx, hc, _⟩
                      · have := (H3.idxLive q z j (by rw [← hidx43]; exact e5 q z j hj)).1
                        rw [hnone z hz] at this; cases this
                      · have hzx : x = z := by rw [hx] at hz; cases hz; rfl
                        subst hzx
                        by_cases hqp : q = p
                        · subst hqp
                          rw [e7 x hov] at hj; cases hj
                        · rw [e6 q x hqp, hidx43, F3.idx] at hj
                          have hxs : (w.cont? x).isSome := by rw [← hsome2, ← F3.sig.isSome, hc]; rfl
                          have hq4 : w4.cont? q = some (.arr aq) := hq
                          obtain ⟨c3, hc3, hs3⟩ := (finish_old_sig hun).symm.get hq4
                          obtain ⟨c2, hc2, hs2⟩ := F3.sig.symm.get hc3
                          rw [cont?_setCont_ne _ _ _ _ hqp] at hc2
                          obtain ⟨a0, rfl⟩ := Cont.sig_kind_arr ((hs2.trans hs3))
                          have := H0.mutIdx q a0 hc2 x j hj id
                          have hpi : (Cont.arr a).pays[i]? = some (Pay.ref x) := by
                            rw [Cont.kslot_pay hks]; exact congrArg some hx
                          exact hqp (H0.unique q p _ _ j i x hc2 hpa this hpi hxs).1)
                  have hpnot : ∀ z, old.pay = .ref z → z ≠ p := by
                    intro z hz he
                    subst he
                    have := H0.rank z z (holds_of_kslot hpa hks hz) (by rw [hpa]; rfl)
                    omega
                  have hp4 : w4.cont? p = some (.arr a3) := by
                    rw [f1 p (fun h => hpnot p h rfl)]; exact hcp3
                  have hhand3 : HandleOk w3 p := hhand2.transfer (fun q y => (F3.sig.holds_iff q y).mp) F3.cur
                  have hhand4 : HandleOk w4 p :=
                    hhand3.transfer (fun q y => (hS34.holds_iff q y).mp)
                      (CurKept.of_sig hS34 hidx43 (fun y hiy hy _ => by rw [hh4]; exact hy))
                  have hr4 : CRank rank0 w4 := hS34.cRank H3.rank
                  have hhand5 : HandleOk (eraseOld w4 p ov) p :=
                    handleOk_mutate (pc := .arr a3) (pc' := .arr a3) hr4 H5.rank hp4 (by rw [e3]; exact hp4)
                      (fun z _ => e3 z) e1 e4 (fun q x hq => e6 q x hq) hhand4
                  have hback : HandedBack w (eraseOld w4 p ov) old := by
                    intro x c hx hc
                    have hxs3 : (w3.cont? x).isSome := by rw [F3.sig.isSome, hsome2, hc]; rfl
                    have hxp : x ≠ p := hpnot x hx
                    have hc3' : w3.cont? x = some c := by
                      have hrk := H0.rank p x (holds_of_kslot hpa hks hx) (by rw [hc]; rfl)
                      rw [F3.above x hxp (by omega), cont?_setCont_ne _ _ _ _ hxp]; exact hc
                    obtain ⟨c', hc', hni, hsd⟩ := f2 x c hx hc3'
                    refine ⟨c', by rw [e3]; exact hc', hni, hsd.vid, hsd.storedElems, ?_⟩
                    intro q hq
                    obtain ⟨qc, hqc, hm⟩ := hq
                    rw [e3] at hqc
                    exact hunref x hx hxs3 q ((hS34.holds_iff q x).mp ⟨qc, hqc, hm⟩)
                  -- all the handles
                  have hEold : ∀ z, Moved (some (WVal.plain e)) (some old') z → old.pay = .ref z := by
                    rintro z (⟨wr, h⟩ | ⟨o, h, hz⟩)
                    · cases h
                    · cases h; rw [← hpay]; exact hz
                  have hsome5 : ∀ z, ((eraseOld w4 p ov).cont? z).isSome = (w.cont? z).isSome := by
                    intro z; rw [e3, hS34.isSome, F3.sig.isSome, hsome2]
                  have K12 : HKeep (Moved (some (WVal.plain e)) (some old')) w (w.setCont p (.arr a')) :=
                    hkeep_set (pc' := .arr a') _ hpa rfl (kslots_arr_set w.T hl) hks
                      (fun z hz => moved_old _ (by rw [hpay]; exact hz))
                      (fun z hz => by simp only at hz; rw [hn] at hz; cases hz) rfl (fun q x => rfl) (by simp)
                      (fun z hz => by simp [Ne.symm hz])
                  have K23 : HKeep (Moved (some (WVal.plain e)) (some old')) _ w3 :=
                    HKeep.of_curKept _ (fun q y => (F3.sig.holds_iff q y).mp) F3.cur
                  have K34 : HKeep (Moved (some (WVal.plain e)) (some old')) w3 w4 := HKeep.of_sig _ hS34 hidx43 hh4
                  have K45 : HKeep (Moved (some (WVal.plain e)) (some old')) w4 (eraseOld w4 p ov) :=
                    HKeep.of_erase e1 e3 e4 (fun q z hzE => eraseOld_keep w4 p ov q z (fun o ho hoz => by
                      obtain ⟨_, _, _, _, _, hcase⟩ := hun'
                      rcases hcase with ⟨h1, _⟩ | ⟨o', c', h1, h2, _⟩
                      · rw [ho] at h1; cases h1
                      · rw [ho] at h1; cases h1
                        exact hzE (moved_old _ (by rw [hpay, ← hoz]; exact h2))))
                  refine ⟨⟨rank0, by rw [hctr4]; exact H5⟩, by omega, ⟨a, a3, old, e, hpa, by rw [e3]; exact hp4, hold,
                    by rw [hl3, hl], hpay, hback, fun e0 he0 => by cases he0; rfl, fun x wr hxw => by cases hxw⟩, hhand5,
                    (((sigFrame_setCont _ _ _).trans (SigFrame.of_sig F3.sig p)).trans (SigFrame.of_sig hS34 p)).trans
                      (sigFrame_eraseOld _ _ _ _),
                    fun z hz hrk hzE => ⟨?_, ?_⟩, fun q y hq => ?_, fun z hzh hzs => ?_⟩
                  · rw [e3, f1 z (fun h => hzE (moved_old _ (by rw [hpay]; exact h))), F3.above z hz hrk,
                      cont?_setCont_ne _ _ _ _ hz]
                  · rw [e4, hh4, F3.hinfo z hz hrk]; rfl
                  · rw [e6 q y hq, hidx43, F3.idx]; rfl
                  · exact (((K12.trans K23).trans K34).trans K45).handleOk
                      (fun z hz hl => hback.handleOk (hEold z hz) hl) hzh (by rw [← hsome5]; exact hzs)
                | child x wr =>
                  obtain ⟨hlive, hroot, hanc, hwb⟩ := hv
                  obtain ⟨c, hx⟩ := Option.isSome_iff_exists.mp hlive
                  simp only [World.storableOf] at hst
                  obtain ⟨rank', c1, H1, hr', hrk, hc1, hsd1, he, hinl1, he1, he2, hco1, hT1, ha1, hh1, hm1, hctr1,
                    hroot1, hS1, hrp, hrle⟩ := prep_child H0 hx hroot hanc hwb (Nat.le_refl _) hst
                  have hxp : p ≠ x := by intro h; rw [h] at hrk; omega
                  have hpa1 : w1.cont? p = some (.arr a) := by rw [hco1 p hxp]; exact hpa
                  have hpok : ArrOk w.T a cx1.ctr := by rw [hctr1]; exact H0.conts p _ hpa
                  have hepay : e.pay = .ref x := by rw [he]
                  have hOp : ¬ PendChild (fun _ => False) x p := by
                    rintro (h | h)
                    · exact h
                    · exact hxp h
                  have hroom := H1.arr_room hpa1 (by intro h; cases h) hOp
                  rw [hT1] at hs hroom
                  obtain ⟨hold, hl, hok', hinl', hrid, _, hctr2, hsz⟩ :=
                    hpok.set_ok H0.legal (StorOk.of_elemOk ⟨he1, he2⟩) hroom hs
                  rw [toStorable_ref _ _ e cx1 x hepay] at hl hsz
                  simp only at hl hsz
                  have hks : ((Cont.arr a).kslots w.T)[i]? = some (none, maxInlineArr w.T, old) := by
                    rw [Cont.kslots_arr]; exact ⟨old, hold, rfl⟩
                  have hxle : x.idx ≤ cx.ctr := by
                    have := (H0.conts x c hx).vid_le
                    rw [H0.ids x c hx] at this; exact this
                  have H2 : WorldOkGen D rank' (some p)
                      (fun z => PendChild (fun _ => False) x z ∨ old.pay = .ref z) (w1.setCont p (.arr a')) cx2.ctr := by
                    refine step_set (pc' := .arr a') H1 hpa1 (fun _ h => Or.inl h) (by rw [hT1]; exact hok') rfl hinl' hrid ?_
                      (by rw [← hctr1]; exact hctr2) (by rw [hT1]; exact kslots_arr_set w.T hl) (by rw [hT1]; exact hks)
                      (fun z hz => Or.inr hz) ?_ ?_ rfl rfl rfl (fun q z => rfl) (by simp)
                      (fun z hz => by simp [Ne.symm hz])
                    · intro hi2
                      have hi2' : a.isInlined = true := by rw [← hinl']; exact hi2
                      have hroom' : a.rootHdr.size ≤ maxInlineArr w1.T :=
                        H1.inl_budget hpa1 hi2' (by intro h; cases h) hOp
                      have := hsz hi2'
                      rw [hT1] at hroom' ⊢
                      show a'.rootHdr.size ≤ w.T
                      omega
                    · intro x' c' hx' hc'
                      simp only at hx'
                      rw [hepay] at hx'; cases hx'
                      rw [hc1] at hc'; cases hc'
                      exact ⟨hroot1, Or.inl (Or.inr rfl), hrk, wr, hwb, by rw [he], hinl1⟩
                    · intro r hr
                      simp only at hr
                      rw [hepay] at hr; cases hr
                      have := hctr1; omega
                  have hidx1 : ∀ q z, AList.find? (w1.idxOf q) z = AList.find? (w.idxOf q) z := by
                    intro q z; simp [World.idxOf, hm1]
                  have hhand1 : HandleOk w1 p :=
                    hhand.transfer (fun q y => (hS1.holds_iff q y).mp)
                      (CurKept.of_sig hS1 hidx1 (fun y hiy hy _ => by rw [hh1]; exact hy))
                  have hhand2 : HandleOk (w1.setCont p (.arr a')) p :=
                    handleOk_mutate (pc' := .arr a') H1.rank H2.rank hpa1 (by simp) (fun z hz => by simp [Ne.symm hz])
                      rfl rfl (fun q y hq => rfl) hhand1
                  have hsome2 : ∀ z, ((w1.setCont p (.arr a')).cont? z).isSome = (w.cont? z).isSome := by
                    intro z
                    rw [cont?_setCont, ← hS1.isSome]
                    split
                    · rename_i hpz; subst hpz; rw [hpa1]; rfl
                    · rfl
                  obtain ⟨H3, F3, hctr3⟩ := notify_ok D rank'
                    (fun z => PendChild (fun _ => False) x z ∨ old.pay = .ref z) _ _ _ _ _ _ H2 hhand2
                    (fun z hz hzs => by
                      rw [hsome2] at hzs
                      rcases hz with (h | h) | h
                      · exact absurd h id
                      · rw [h]; exact hrk
                      · exact hr' p z (holds_of_kslot hpa hks h) hzs) hnp
                  obtain ⟨cp3, hcp3, hsd3⟩ := (by
                    have := F3.self
                    rw [cont?_setCont_self] at this
                    exact this.get_some : ∃ cp3, w3.cont? p = some cp3 ∧ Cont.SameData (.arr a') cp3)
                  obtain ⟨a3, rfl, hl3, hrid3, _⟩ := hsd3.arr
                  have he3 : a3.toList[i]? = some (⟨slotSize c1 wr, .ref x⟩ : Elem) := by
                    rw [hl3, hl, List.getElem?_set_self (List.getElem?_eq_some_iff.mp hold).1, he]
                  have hx3 : w3.cont? x = some c1 := by
                    rw [F3.above x (Ne.symm hxp) (by omega), cont?_setCont_ne _ _ _ _ (Ne.symm hxp)]
                    exact hc1
                  have hnoidx : ∀ q aq j, q ≠ p → w3.cont? q = some (.arr aq) →
                      AList.find? (w3.idxOf q) x = some j → False := by
                    intro q aq j hqp hq hj
                    rw [F3.idx] at hj
                    have hj' : AList.find? (w.idxOf q) x = some j := by rw [← hidx1]; exact hj
                    obtain ⟨c2, hc2, hs2⟩ := F3.sig.symm.get hq
                    rw [cont?_setCont_ne _ _ _ _ hqp] at hc2
                    obtain ⟨c0, hc0, hs0⟩ := hS1.symm.get hc2
                    obtain ⟨a0, rfl⟩ := Cont.sig_kind_arr (hs0.trans hs2)
                    have := H0.mutIdx q a0 hc0 x j hj' id
                    exact hroot q ⟨_, hc0, List.mem_of_getElem? this⟩
                  have H4 := finish_child_arr (O' := fun z => old.pay = .ref z) H3 (fun z hz => by
                      rcases hz with (h | h) | h
                      · exact absurd h id
                      · exact Or.inr h
                      · exact Or.inl h) (fun z hz => Or.inr hz) hcp3 he3 hx3 hnoidx
                  -- nobody refers to the old child
                  have hunref3 := old_unreferenced H0 hpa hold hl (fun z hz _ => by
                      rw [hepay] at hz; cases hz; exact hroot)
                    hS1 hpa1 (cont?_setCont_self _ _ _) (fun z hz => cont?_setCont_ne _ _ _ _ hz) F3.sig
                  have hunref : ∀ z, old.pay = .ref z → ((w3.setCallbackArr p i (.child x wr)).cont? z).isSome →
                      ∀ q, ¬ Holds (w3.setCallbackArr p i (.child x wr)) q z := by
                    intro z hz hzs q hq
                    rw [cont?_setCallbackArr] at hzs
                    obtain ⟨qc, hqc, hm⟩ := hq
                    rw [cont?_setCallbackArr] at hqc
                    exact hunref3 z hz hzs q ⟨qc, hqc, hm⟩
                  -- the old child is not the new one
                  have hxold : ∀ z, old.pay = .ref z → z ≠ x := by
                    intro z hz he'
                    subst he'
                    exact hroot p (holds_of_kslot hpa hks hz)
                  have hovne : ∀ o, ov = some o → (x == o) = false := by
                    intro o hov
                    obtain ⟨_, _, _, _, _, hcase⟩ := uninlineIfNeeded_ok hun
                    rcases hcase with ⟨h1, _⟩ | ⟨o', c', h1, h2, _⟩
                    · rw [hov] at h1; cases h1
                    · rw [hov] at h1; cases h1
                      exact slabID_beq_false (fun h => hxold o h2 h.symm)
                  suffices hgen : ∀ w6, w6 = eraseOld w4 p ov → WorldOk D w6 cx'.ctr ∧ cx.ctr ≤ cx'.ctr ∧
                      SetAt w w6 p i (.child x wr) old' ∧ HandleOk w6 p ∧ SigFrame w w6 p ∧
                      OpFrame rank0 w w6 p (Moved (some (.child x wr)) (some old')) from
                    hgen _ (arrSet_final w4 p x wr ov hovne)
                  intro w6 hw6
                  subst hw6
                  obtain ⟨e1, e2, e3, e4, e5, e6, e7⟩ := eraseOld_facts w4 p ov
                  have hun' := uninlineIfNeeded_ok hun
                  have hidx43 : ∀ q z, AList.find? (w4.idxOf q) z
                      = AList.find? ((w3.setCallbackArr p i (.child x wr)).idxOf q) z := by
                    intro q z; simp [World.idxOf, hun'.2.2.1]
                  obtain ⟨H5, f1, f2, hT4, hh4, hm4, hS34, hpay, hctr4⟩ :=
                    finish_old (w5 := eraseOld w4 p ov) H4 hunref hun e1 e2 e3 e4 e5 (by
                      intro z hz q aq j hq hj
                      rw [e3] at hq
                      obtain ⟨_, _, _, _, _, hcase⟩ := hun'
                      rcases hcase with ⟨_, _, _, _, hnone⟩ | ⟨o, c', hov, ho, hc', _⟩
                      · have := (H4.idxLive q z j (by rw [← hidx43]; exact e5 q z j hj)).1
                        rw [hnone z hz] at this; cases this
                      · have hzo : o = z := by rw [ho] at hz; cases hz; rfl
                        subst hzo
                        by_cases hqp : q = p
                        · subst hqp
                          rw [e7 o hov] at hj; cases hj
                        · rw [e6 q o hqp, hidx43, idxOf_setCallbackArr, if_neg (fun h => hqp h.1.symm), F3.idx] at hj
                          have hj' : AList.find? (w.idxOf q) o = some j := by rw [← hidx1]; exact hj
                          have hos : (w.cont? o).isSome := by
                            rw [cont?_setCallbackArr] at hc'
                            rw [← hsome2, ← F3.sig.isSome, hc']; rfl
                          have hq4 : w4.cont? q = some (.arr aq) := hq
                          obtain ⟨c3, hc3, hs3⟩ := (finish_old_sig hun).symm.get hq4
                          rw [cont?_setCallbackArr] at hc3
                          obtain ⟨c2, hc2, hs2⟩ := F3.sig.symm.get hc3
                          rw [cont?_setCont_ne _ _ _ _ hqp] at hc2
                          obtain ⟨c0, hc0, hs0⟩ := hS1.symm.get hc2
                          obtain ⟨a0, rfl⟩ := Cont.sig_kind_arr ((hs0.trans hs2).trans hs3)
                          have := H0.mutIdx q a0 hc0 o j hj' id
                          have hpi : (Cont.arr a).pays[i]? = some (Pay.ref o) := by
                            rw [Cont.kslot_pay hks]; exact congrArg some ho
                          exact hqp (H0.unique q p _ _ j i o hc0 hpa this hpi hos).1)
                  have hpnot : ∀ z, old.pay = .ref z → z ≠ p := by
                    intro z hz he'
                    subst he'
                    have := H0.rank z z (holds_of_kslot hpa hks hz) (by rw [hpa]; rfl)
                    omega
                  have hp4 : w4.cont? p = some (.arr a3) := by
                    rw [f1 p (fun h => hpnot p h rfl), cont?_setCallbackArr]; exact hcp3
                  have hx4 : w4.cont? x = some c1 := by
                    rw [f1 x (fun h => hxold x h rfl), cont?_setCallbackArr]; exact hx3
                  -- the handle of `p`
                  have hhand3 : HandleOk w3 p := hhand2.transfer (fun q y => (F3.sig.holds_iff q y).mp) F3.cur
                  have hpays3 : (Cont.arr a3).pays[i]? = some (Pay.ref x) := by
                    rw [Cont.pays, Cont.storedElems, List.getElem?_map, he3]; rfl
                  have hcur34 : CurKept w3 (w3.setCallbackArr p i (.child x wr)) :=
                    curKept_callback_arr (hn := ⟨p, none, maxInlineArr w3.T - 2 * wr, wr⟩) hcp3 hpays3 rfl
                      (T_setCallbackArr _ _ _ _) (fun z => cont?_setCallbackArr _ _ _ _ _)
                      (hinfo_setCallbackArr _ _ _ _ _) (idxOf_setCallbackArr _ _ _ _ _)
                      (fun hi' _ hcur => closureCurrent_parent H3 ⟨_, hcp3, List.mem_of_getElem? hpays3⟩
                        (by rw [hx3]; rfl) hcur)
                  have hhand3c : HandleOk (w3.setCallbackArr p i (.child x wr)) p :=
                    hhand3.transfer (fun q y hq => by
                      obtain ⟨qc, hqc, hm⟩ := hq
                      rw [cont?_setCallbackArr] at hqc
                      exact ⟨qc, hqc, hm⟩) hcur34
                  have hhand4 : HandleOk w4 p :=
                    hhand3c.transfer (fun q y => (hS34.holds_iff q y).mp)
                      (CurKept.of_sig hS34 hidx43 (fun y hiy hy _ => by rw [hh4]; exact hy))
                  have hr4 : CRank rank' w4 := hS34.cRank H4.rank
                  have hhand5 : HandleOk (eraseOld w4 p ov) p :=
                    handleOk_mutate (pc := .arr a3) (pc' := .arr a3) hr4 H5.rank hp4 (by rw [e3]; exact hp4)
                      (fun z _ => e3 z) e1 e4 (fun q y hq => e6 q y hq) hhand4
                  have hback : HandedBack w (eraseOld w4 p ov) old := by
                    intro o c' ho hc'
                    have hos3 : (w3.cont? o).isSome := by rw [F3.sig.isSome, hsome2, hc']; rfl
                    have hop : o ≠ p := hpnot o ho
                    have hox : o ≠ x := hxold o ho
                    have hc3' : (w3.setCallbackArr p i (.child x wr)).cont? o = some c' := by
                      have hrk' := hr' p o (holds_of_kslot hpa hks ho) (by rw [hc']; rfl)
                      rw [cont?_setCallbackArr, F3.above o hop (by omega), cont?_setCont_ne _ _ _ _ hop, hco1 o hox]
                      exact hc'
                    obtain ⟨c'', hc'', hni, hsd⟩ := f2 o c' ho hc3'
                    refine ⟨c'', by rw [e3]; exact hc'', hni, hsd.vid, hsd.storedElems, ?_⟩
                    intro q hq
                    obtain ⟨qc, hqc, hm⟩ := hq
                    rw [e3] at hqc
                    exact hunref o ho (by rw [cont?_setCallbackArr]; exact hos3) q
                      ((hS34.holds_iff q o).mp ⟨qc, hqc, hm⟩)
                  have hxhand : HandleOk (eraseOld w4 p ov) x := by
                    refine HandleOk.child x ⟨p, none, maxInlineArr w3.T - 2 * wr, wr⟩
                      (by rw [e4, hh4, hinfo_setCallbackArr, if_pos rfl]) ?_ hhand5
                    refine ⟨maxInlineArr w3.T, _, Or.inl ⟨a3, i, by rw [e3]; exact hp4, ?_, he3, rfl,
                      by rw [e1, hT4]; simp⟩⟩
                    rw [eraseOld_keep w4 p ov p x (fun o ho => by
                        obtain ⟨_, _, _, _, _, hcase⟩ := uninlineIfNeeded_ok hun
                        rcases hcase with ⟨h1, _⟩ | ⟨o', c', h1, h2, _⟩
                        · rw [ho] at h1; cases h1
                        · rw [ho] at h1; cases h1
                          exact hxold o h2),
                      hidx43, idxOf_setCallbackArr, if_pos ⟨rfl, rfl⟩]
                  -- all the handles
                  have hEcases : ∀ z, Moved (some (WVal.child x wr)) (some old') z → z = x ∨ old.pay = .ref z := by
                    rintro z (⟨wr', h⟩ | ⟨o, h, hz⟩)
                    · cases h; exact Or.inl rfl
                    · cases h; right; rw [← hpay]; exact hz
                  have hsome5 : ∀ z, ((eraseOld w4 p ov).cont? z).isSome = (w.cont? z).isSome := by
                    intro z; rw [e3, hS34.isSome, cont?_setCallbackArr, F3.sig.isSome, hsome2]
                  have K01 : HKeep (Moved (some (WVal.child x wr)) (some old')) w w1 := HKeep.of_sig _ hS1 hidx1 hh1
                  have K12 : HKeep (Moved (some (WVal.child x wr)) (some old')) w1 (w1.setCont p (.arr a')) :=
                    hkeep_set (pc' := .arr a') _ hpa1 rfl (by rw [hT1]; exact kslots_arr_set w.T hl)
                      (by rw [hT1]; exact hks) (fun z hz => moved_old _ (by rw [hpay]; exact hz))
                      (fun z hz => by simp only at hz; rw [hepay] at hz; cases hz; exact moved_child x wr _)
                      rfl (fun q z => rfl) (by simp) (fun z hz => by simp [Ne.symm hz])
                  have K23 : HKeep (Moved (some (WVal.child x wr)) (some old')) _ w3 :=
                    HKeep.of_curKept _ (fun q y => (F3.sig.holds_iff q y).mp) F3.cur
                  have K3c : HKeep (Moved (some (WVal.child x wr)) (some old')) w3
                      (w3.setCallbackArr p i (.child x wr)) :=
                    HKeep.of_curKept _ (fun q y hq => by
                      obtain ⟨qc, hqc, hm⟩ := hq
                      rw [cont?_setCallbackArr] at hqc
                      exact ⟨qc, hqc, hm⟩) hcur34
                  have Kc4 : HKeep (Moved (some (WVal.child x wr)) (some old')) _ w4 := HKeep.of_sig _ hS34 hidx43 hh4
                  have K45 : HKeep (Moved (some (WVal.child x wr)) (some old')) w4 (eraseOld w4 p ov) :=
                    HKeep.of_erase e1 e3 e4 (fun q z hzE => eraseOld_keep w4 p ov q z (fun o ho hoz => by
                      obtain ⟨_, _, _, _, _, hcase⟩ := hun'
                      rcases hcase with ⟨h1, _⟩ | ⟨o', c', h1, h2, _⟩
                      · rw [ho] at h1; cases h1
                      · rw [ho] at h1; cases h1
                        exact hzE (moved_old _ (by rw [hpay, ← hoz]; exact h2))))
                  refine ⟨⟨rank', by rw [hctr4]; exact H5⟩, by have := hctr1; omega, ⟨a, a3, old, e, hpa, by rw [e3]; exact hp4,
                    hold, by rw [hl3, hl], hpay, hback, fun e0 he0 => (by cases he0), fun x' wr' hxw => ?_⟩, hhand5,
                    (((((SigFrame.of_sig hS1 p).trans (sigFrame_setCont _ _ _)).trans (SigFrame.of_sig F3.sig p)).trans
                      (sigFrame_cbArr _ _ _ _ _)).trans (SigFrame.of_sig hS34 p)).trans (sigFrame_eraseOld _ _ _ _),
                    fun z hz hrk hzE => ⟨?_, ?_⟩, fun q y hq => ?_, fun z hzh hzs => ?_⟩
                  · cases hxw
                    exact ⟨hepay, hxhand, c1, by rw [e3]; exact hx4, by rw [he]⟩
                  · have hzx : z ≠ x := fun h => hzE (h ▸ moved_child x wr _)
                    rw [e3, f1 z (fun h => hzE (moved_old _ (by rw [hpay]; exact h))), cont?_setCallbackArr,
                      F3.above z hz (by have := hrle z; omega), cont?_setCont_ne _ _ _ _ hz, hco1 z hzx]
                  · have hzx : x ≠ z := fun h => hzE (h ▸ moved_child x wr _)
                    rw [e4, hh4, hinfo_setCallbackArr, if_neg hzx, F3.hinfo z hz (by have := hrle z; omega)]
                    show AList.find? w1.hinfo z = _
                    rw [hh1]
                  · rw [e6 q y hq, hidx43, idxOf_setCallbackArr, if_neg (fun h => hq h.1.symm), F3.idx]
                    exact hidx1 q y
                  · exact (((((K01.trans K12).trans K23).trans K3c).trans Kc4).trans K45).handleOk
                      (fun z hz hl => by
                        rcases hEcases z hz with h | h
                        · rw [h]; exact hxhand
                        · exact hback.handleOk h hl) hzh (by rw [← hsome5]; exact hzs)
      · cases hset

theorem arrSet_ok {w : World} {p : SlabID} {i : Nat} {v : WVal} {cx : Ctx} {old' : Elem} {w' : World} {cx' : Ctx}
    (H : WorldOk D w cx.ctr) (hhand : HandleOk w p) (hv : WValOk w p (maxInlineArr w.T) v)
    (h : w.arrSet p i v cx = .ok (old', w', cx')) :
    WorldOk D w' cx'.ctr ∧ cx.ctr ≤ cx'.ctr ∧ SetAt w w' p i v old' ∧ HandleOk w' p ∧ SigFrame w w' p := by
  obtain ⟨rank0, H0⟩ := H
  obtain ⟨h1, h2, h3, h4, h5, _⟩ := arrSet_okA H0 hhand hv h
  exact ⟨h1, h2, h3, h4, h5⟩

end World
end Atree
