import AtreeProofs.World.PopOps
import AtreeProofs.World.Eval
/-
  Kernel-evaluable copies of `arrPop` / `mapPop` / `mapSet` (on `notifyS`), proved equal to the
  model, and executable checks of the invariants used as hypotheses (`IdsOk`, acyclic parent
  pointers, acyclic element references), proved sound.
-/
namespace Atree
open Gen
namespace World

def arrPopS (w : World) (h : SlabID) (cx : Ctx) : Except WErr (List Elem × World × Ctx) :=
  match w.cont? h with
  | some (.arr a) =>
    let (es, a', cx) := a.popIterate cx
    let w := w.setCont h (.arr a')
    let w := w.setIdx h []
    let w := w.forgetElems es
    match notifyS w.fuelOf w h cx with
    | .error e => .error e
    | .ok (w, cx) => .ok (es, w, cx)
  | _ => .error .unknownContainer

def mapPopS (w : World) (h : SlabID) (cx : Ctx) : Except WErr (List (MKey × Elem) × World × Ctx) :=
  match w.cont? h with
  | some (.map m) =>
    let (kvs, m', cx) := m.popIterate cx
    let w := w.setCont h (.map m')
    let w := w.forgetElems (kvs.map (·.2))
    match notifyS w.fuelOf w h cx with
    | .error e => .error e
    | .ok (w, cx) => .ok (kvs, w, cx)
  | _ => .error .unknownContainer

def mapSetS (w : World) (p : SlabID) (k : MKey) (v : WVal) (cx : Ctx) : Except WErr (Option Elem × World × Ctx) := do
  let (old, w, cx) ← mapSetRawWith (notifyS w.fuelOf) w p k v cx
  match old with
  | none => return (none, w, cx)
  | some o =>
    let (o', _, w, cx) ← w.uninlineIfNeeded o cx
    return (some o', w, cx)

theorem arrPop_eq_S : arrPop = arrPopS := by
  funext w h cx
  unfold arrPop arrPopS
  simp only [notifyParent_eq_notifyS]
  rfl

theorem mapPop_eq_S : mapPop = mapPopS := by
  funext w h cx
  unfold mapPop mapPopS
  simp only [notifyParent_eq_notifyS]
  rfl

theorem mapSet_eq_S : mapSet = mapSetS := by
  funext w p k v cx
  unfold mapSet mapSetS
  simp only [mapSetRaw_eq_S]
  rfl

/-! ### executable invariant checks -/

theorem AList.mem_of_find? {κ α : Type} [DecidableEq κ] {m : AList κ α} {k : κ} {v : α}
    (h : AList.find? m k = some v) : (k, v) ∈ m := by
  induction m with
  | nil => cases h
  | cons p m ih =>
    obtain ⟨k', v'⟩ := p
    rw [AList.find?_cons] at h
    split at h
    · rename_i hk; subst hk; cases h; exact List.mem_cons_self
    · exact List.mem_cons_of_mem _ (ih h)

/-- executable `IdsOk` -/
def idsOkB (w : World) : Bool := w.conts.all (fun p => decide (p.2.vid = p.1))

theorem idsOk_of_B {w : World} (h : idsOkB w = true) : IdsOk w := by
  intro v c hc
  have := List.all_eq_true.mp h _ (AList.mem_of_find? hc)
  simpa using this

/-- executable `RankOk` (acyclic parent pointers) -/
def rankOkB (rank : SlabID → Nat) (w : World) : Bool :=
  w.hinfo.all (fun p => decide (rank p.2.parent < rank p.1))

theorem rankOk_of_B {rank : SlabID → Nat} {w : World} (h : rankOkB rank w = true) : RankOk rank w := by
  intro y hi hy
  have := List.all_eq_true.mp h _ (AList.mem_of_find? hy)
  simpa using this

/-- executable `RefRankOk` (acyclic element references) -/
def refRankOkB (rank : SlabID → Nat) (w : World) : Bool :=
  w.conts.all (fun p => p.2.storedElems.all (fun e =>
    match e.pay with
    | .ref v => !(w.cont? v).isSome || decide (rank p.1 < rank v)
    | _ => true))

theorem refRankOk_of_B {rank : SlabID → Nat} {w : World} (h : refRankOkB rank w = true) : RefRankOk rank w := by
  intro u c hc e he v hp hv
  have h1 := List.all_eq_true.mp h _ (AList.mem_of_find? hc)
  have h2 := List.all_eq_true.mp h1 e he
  simp only [hp, hv, Bool.not_true, Bool.false_or, decide_eq_true_eq] at h2
  exact h2

end World
end Atree
