import AtreeProofs.World.DeepOpsArr
/-
  DEEP ACCOUNT, part 11: `Array.Set` (membership form `DeepM`).
-/
namespace Atree.Deep
open Gen World Codec
open MapHolder (StoredSince Ext)

variable {D : SlabID → DigestFn 4}

/-- `Array.Set` -/
theorem arrSet_deepM {rank0 : SlabID → Nat} {w w' : World} {p : SlabID} {i : Nat} {v : WVal} {cx cx' : Ctx} {old' : Elem}
    (H0 : WorldOkPK D rank0 (fun _ => False) w cx.ctr) (Hh : HeapOk w cx.ctr) (hh : HandleOk w p)
    (hv : WValOk w p (maxInlineArr w.T) v) (h : w.arrSet p i v cx = .ok (old', w', cx')) : DeepM w cx w' cx' := by
  obtain ⟨H', _, hset, _, _, _, _⟩ := C10W.worldOk'_arrSet_all D w p i v cx old' w' cx' ⟨rank0, H0⟩ hh hv h
  have U' := uniqueRef_of_ok' H'
  obtain ⟨rank, hrk, hv'⟩ := C09W.wvalH_of_ok H0 hv
  have HI := (HInv.of_pk H0).with_rank hrk
  have P := WPre.of_inv HI Hh
  obtain ⟨old, w3c, cx3, ov, w4, hsr, hun, hfin, hfinT⟩ := arrSet_split h
  obtain ⟨a, e, w1, cx1, a', cx2, w3, hp, hst, hs, hnp, rfl⟩ := arrSetRaw_split hsr
  obtain ⟨P1, post1, hctr1, hm1, hh1, hco1, he1, he2, hepay⟩ := storableOf_pre P hv' (Nat.le_refl _) hst
  obtain ⟨_, _, _, _, hfr, _⟩ := storableOf_frame hst
  have hS01 := contsSig_storableOf hst
  have hT1 : w1.T = w.T := P1.T
  have hp1 : w1.cont? p = some (.arr a) := by rw [hco1 p (Nat.le_refl _)]; exact hp
  have hlegal := P1.legal
  have hpok : ArrOk w1.T a cx1.ctr := (P1.conts p _ hp1).1
  have hvid : a.rootID = p := (P1.conts p _ hp1).2.1
  have hpaddr : p.addr = w1.addr := (P1.conts p _ hp1).2.2.1
  have hroom := P1.arr_room hp1 (hco1 p (Nat.le_refl _))
  have hve : ElemOk w1.T e := ⟨he1, by rw [hT1]; exact he2⟩
  obtain ⟨hold, hl, hok', hinl', hrid, hty, hle, hsz⟩ := hpok.set_ok hlegal (StorOk.of_elemOk hve) hroom hs
  rw [toStorable_fit w1.T a.addr e cx1 hve.2] at hl hsz
  simp only at hl hsz
  obtain ⟨E, C, hlog, hca, _, _⟩ := cstep_arr_set hlegal hpok hve hroom hs
  have htree : TreeOk w1.addr cx2.ctr (.arr a') := by
    have := treeOk_arr hok'
    have ha : a'.addr = w1.addr := by
      show a'.rootID.addr = w1.addr
      rw [hrid, hvid, hpaddr]
    rw [ha] at this; exact this
  have hb2 := two_inline_le w1.T hlegal
  obtain ⟨P2, hsame2, post12⟩ := mutate_pre (w2 := w1.setCont p (.arr a')) P1
    (fun z hz => hco1 z (Nat.le_of_lt hz)) hp1 hlog hca hok' htree (hrid.trans hvid)
    (by
      intro hi0'
      have hi0 : a.isInlined = true := by rw [← hinl']; exact hi0'
      have h1 := hsz hi0
      have h2 := hroom hi0
      have h3 := hve.2
      show a'.rootHdr.size ≤ w1.T
      have : a.rootHdr.size ≤ maxInlineArr w1.T := by
        have := P1.inv0.room p (.arr a) (by rw [← hco1 p (Nat.le_refl _)]; exact hp1) hi0
        rw [← P1.T] at this
        exact this
      omega)
    rfl
    (by
      intro x hx
      simp only [Cont.pays, Cont.storedElems, hl, List.mem_map] at hx ⊢
      obtain ⟨e', he', hpe⟩ := hx
      rcases List.mem_or_eq_of_mem_set he' with h1 | h1
      · exact Or.inl ⟨e', h1, hpe⟩
      · subst h1; exact Or.inr (hepay x hpe))
    (SameTab.refl _)
  have h2p : (w1.setCont p (.arr a')).cont? p = some (.arr a') := cont?_setCont_self _ _ _
  have h2o : ∀ z, z ≠ p → (w1.setCont p (.arr a')).cont? z = w1.cont? z := fun z hz => cont?_setCont_ne _ _ _ _ hz
  have hpar2 : HandleOk (w1.setCont p (.arr a')) p :=
    handleOk_mutate P1.rank P2.rank hp1 h2p h2o rfl rfl (fun _ _ _ => rfl) (handleOk_storableOf hst hh)
  have ND := notifyDeep D rank _ w cx.ctr _ p cx2 w3 cx3 P2 hsame2 hpar2 hnp
  have post23 := notifyHeap D rank _ w cx.ctr _ p cx2 w3 cx3 P2 hsame2 hnp
  have hcw : ∀ z, (w3.setCallbackArr p i v).cont? z = w3.cont? z := fun z => cont?_setCallbackArr _ _ _ _ _
  have post23c : Post (w1.setCont p (.arr a')) cx2 (w3.setCallbackArr p i v) cx3 :=
    post23.congr_right hcw (addr_setCallbackArr _ _ _ _)
  have post34 := uninlineIfNeeded_post post23c.heapOk post23c.idsOk hun
  have hu4 := uninline_conts hun
  have U3 : UniqueRef w3 := by
    have U4 : UniqueRef w4 := uniqueRef_congr (fun z => (hfin z).symm) hfinT.symm U'
    have U3c := (contsSig_uninline hun).symm.uniqueRef U4
    exact uniqueRef_congr (fun z => (hcw z).symm) (T_setCallbackArr _ _ _ _).symm U3c
  obtain ⟨a0, a'', old0, e'', hp0, hp', hget0, hl'', _, hback, _, hch⟩ := hset
  rw [hp] at hp0; cases hp0
  have hgetw : a.toList[i]? = some old := hold
  rw [hgetw] at hget0; cases hget0
  have hilt : i < a.toList.length := (List.getElem?_eq_some_iff.1 hgetw).1
  have hB : ∀ z, ¬ (old.pay = .ref z ∧ (w3.cont? z).isSome) → w'.cont? z = w3.cont? z := by
    intro z hz
    rw [hfin, hu4 z (by rw [hcw]; exact hz), hcw]
  have hpne : ¬ (old.pay = .ref p ∧ (w3.cont? p).isSome) := by
    rintro ⟨hpp, _⟩
    have hH : World.Holds w p p :=
      ⟨_, hp, by
        simp only [Cont.pays, Cont.storedElems, List.mem_map]
        exact ⟨old, List.mem_of_getElem? hgetw, hpp⟩⟩
    have := HI.rank p p hH (by rw [hp]; rfl)
    omega
  have hlive3 : ∀ z, z ≠ p → (w3.cont? z).isSome → (w.cont? z).isSome := by
    intro z hz h3
    rw [ND.sig.isSome, h2o z hz, hS01.isSome] at h3
    exact h3
  refine deep_of_track (p := p) (Mv := MvOf v) (Mo := fun z => old.pay = .ref z ∧ (w3.cont? z).isSome)
    ?_ hB hpne (by rw [hp]; rfl) (by rw [hp']; rfl) (inl_of_form hp h2p hinl') ?_ ?_
    (ND.track U3) ((ext_of_post post1).trans (ext_of_post post12)) (ext_of_post post23) (ext_of_post post34)
    ?_ (kept_of_post post23) U'
  · intro z hz hzv
    rw [h2o z hz]
    exact hfr z (fun wr hvz => hzv ⟨wr, hvz⟩)
  · rintro m ⟨wr, rfl⟩
    obtain ⟨hlive, hnone, _, _⟩ := hv
    obtain ⟨hpe, _, c, hc, _⟩ := hch m wr rfl
    refine ⟨hnone, ⟨_, hp', ?_⟩, by rw [hc]; rfl⟩
    simp only [Cont.pays, Cont.storedElems, hl'', List.mem_map]
    exact ⟨e'', List.mem_set hilt _, hpe⟩
  · rintro m ⟨hm, hl3⟩
    have hmp : m ≠ p := fun e => hpne ⟨e ▸ hm, e ▸ hl3⟩
    obtain ⟨c, hc⟩ := Option.isSome_iff_exists.1 (hlive3 m hmp hl3)
    obtain ⟨c', _, _, _, _, hno⟩ := hback m c hm hc
    exact hno
  · intro id s hs
    rcases kept_of_post post34 id s (hasSlab_congr (fun z => (hfin z).symm) hs) with h1 | h1
    · exact Or.inl (hasSlab_congr (fun z => (hcw z).symm) h1)
    · exact Or.inr h1

end Atree.Deep
