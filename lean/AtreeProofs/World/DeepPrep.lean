import AtreeProofs.World.DeepTrack
import AtreeProofs.World.HeapWOps
/-
  DEEP ACCOUNT, part 4: preparation of the tracked induction.
  * `childStorable_form`  — the child after `childStorable` is the child in (possibly) another form;
  * `mutate_pre`          — the world after ONE core operation on `p` (first half of `mutate_notify`);
  * `arr_hold`            — a successful `Arr.set` of a reference to `y` stores every slab of the new
                            tree that holds a reference to `y` (there is one: `UniqueRef`), unless
                            the array is inlined (then it owns no slab).
-/
namespace Atree.Deep
open Gen World Codec
open MapHolder (StoredSince Ext)

variable {D : SlabID → DigestFn 4} {rank : SlabID → Nat}

/-! ### `childStorable` -/

theorem childStorable_form {w : World} {y : SlabID} {c : Cont} (hy : w.cont? y = some c) {wrap lim : Nat}
    {cx : Ctx} {e : Elem} {w1 : World} {cx1 : Ctx} (hst : w.childStorable y wrap lim cx = .ok (e, w1, cx1)) :
    ∃ c1, w1.cont? y = some c1 ∧ FormRel c c1 := by
  unfold childStorable at hst
  simp only [hy] at hst
  split at hst
  · cases hst; exact ⟨c, hy, FormRel.refl c⟩
  · split at hst
    · cases hst; exact ⟨c, hy, FormRel.refl c⟩
    · split at hst
      · split at hst
        · cases hst
        · rename_i c' cx2 hin
          cases hst
          exact ⟨c', by simp, FormRel.of_inline hin⟩
      · split at hst
        · cases hst
        · rename_i c' cx2 hun
          cases hst
          exact ⟨c', by simp, FormRel.of_uninline hun⟩

/-! ### one core operation on `p`, framed into the world -/

/-- container `p` of `w1` is replaced by `pc'` (account `hca`): the precondition of the
    notification from `p`, and the account of the step -/
theorem mutate_pre {w0 w1 w2 : World} {ctr0 : Nat} {p : SlabID}
    {pc pc' : Cont} {cx1 cx2 : Ctx} {E : List Eff} {C : List (SlabID × Elem)}
    (P1 : WPre D rank w0 ctr0 w1 cx1.ctr) (hsame : ∀ z, rank z < rank p → w1.cont? z = w0.cont? z)
    (hp : w1.cont? p = some pc)
    (hlog : Log cx1 cx2 E C) (hca : CAcct cx1.ctr cx2.ctr pc pc' E (C.map (·.1)))
    (hok' : ContOk w1.T (D p) cx2.ctr pc') (htree : TreeOk w1.addr cx2.ctr pc') (hvid : pc'.vid = p)
    (hband : pc'.isInlined = true → pc'.rootSize ≤ w1.T) (hkind : pc'.isArr = pc.isArr)
    (hpays : ∀ x, Pay.ref x ∈ pc'.pays → Pay.ref x ∈ pc.pays ∨ rank p < rank x)
    (htab : SameTab (w1.setCont p pc') w2) :
    WPre D rank w0 ctr0 w2 cx2.ctr ∧ (∀ z, rank z < rank p → w2.cont? z = w0.cont? z) ∧ Post w1 cx1 w2 cx2 := by
  obtain ⟨hacct, hheap⟩ := hca.lift P1.heap hp htree.1 htree.2
  have hle := hlog.ctr_le
  have hpaddr : p.addr = w1.addr := (P1.conts p pc hp).2.2.1
  have P2 : WPre D rank w0 ctr0 (w1.setCont p pc') cx2.ctr := by
    refine ⟨P1.inv0, Nat.le_trans P1.le hle, P1.T, P1.addr, ?_, ?_, hheap, ?_⟩
    · intro x c hx
      rw [cont?_setCont] at hx
      split at hx
      · rename_i e1
        cases hx
        subst e1
        exact ⟨hok', hvid, hpaddr, hband⟩
      · obtain ⟨g1, g2⟩ := P1.conts x c hx
        exact ⟨g1.mono hle, g2⟩
    · intro q x hq hx
      have hx1 : (w1.cont? x).isSome := by
        rw [cont?_setCont] at hx
        split at hx
        · rename_i e1; subst e1; rw [hp]; rfl
        · exact hx
      obtain ⟨qc, hqc, hm⟩ := hq
      rw [cont?_setCont] at hqc
      split at hqc
      · rename_i e1
        cases hqc
        subst e1
        rcases hpays x hm with h1 | h1
        · exact P1.rank _ x ⟨pc, hp, h1⟩ hx1
        · exact h1
      · exact P1.rank q x ⟨qc, hqc, hm⟩ hx1
    · refine closureOk_of_kind (w := w1) (w' := w1.setCont p pc') rfl rfl ?_ P1.closure
      intro z
      rw [cont?_setCont]
      split
      · rename_i e1; subst e1; rw [hp]; simp [hkind]
      · rfl
  have P2' := P2.congr htab
  have hsame2 : ∀ z, rank z < rank p → w2.cont? z = w0.cont? z := by
    intro z hz
    rw [htab.conts, cont?_setCont_ne _ _ _ _ (by intro e1; subst e1; omega)]
    exact hsame z hz
  have h12 : Post w1 cx1 w2 cx2 :=
    Post.congr_right ⟨E, C, hlog, hacct, hheap, P2.idsOk⟩ htab.conts htab.addr
  exact ⟨P2', hsame2, h12⟩

/-! ### the holder of a reference in an array -/

/-- the tree slabs of an inlined array: its root slab only -/
theorem treeSlabs_arr_inl {a : Arr} (hi : a.isInlined = true) : ∀ p ∈ (Cont.arr a).treeSlabs, p.1 = a.rootID := by
  obtain ⟨d, root, ty⟩ := a
  cases d with
  | zero =>
    intro p hp
    simp only [Cont.treeSlabs, List.mem_map] at hp
    obtain ⟨q, hq, rfl⟩ := hp
    have hq : q ∈ [((root : DataSlab).hdr.id, ASlab.data root)] := hq
    rw [List.mem_singleton] at hq
    subst hq
    rfl
  | succ d => cases hi

/-- two slabs of an array's tree that both hold an element with payload `.ref y` are the same slab
    when `.ref y` occurs at one position only -/
theorem arr_holder_unique {a : Arr} {y : SlabID}
    (huq : ∀ (i j : Nat) (e1 e2 : Elem), a.toList[i]? = some e1 → a.toList[j]? = some e2 → e1.pay = .ref y → e2.pay = .ref y → i = j)
    {id : SlabID} {s : WSlab} (hs : (id, s) ∈ (Cont.arr a).treeSlabs) {e1 : Elem} (he1 : e1 ∈ C10Persist.slabElems s)
    (hp1 : e1.pay = .ref y) {id0 : SlabID} {s0 : DataSlab} (hs0 : (id0, ASlab.data s0) ∈ ATree.slabs a.d a.root)
    {e : Elem} (he : e ∈ s0.elems) (hp : e.pay = .ref y) : id = id0 := by
  simp only [Cont.treeSlabs, List.mem_map] at hs
  obtain ⟨p, hpm, heq⟩ := hs
  simp only [Prod.mk.injEq] at heq
  obtain ⟨rfl, rfl⟩ := heq
  obtain ⟨pid, ps⟩ := p
  cases ps with
  | index _ _ _ _ => cases he1
  | data s1 =>
    apply Classical.byContradiction
    intro hne
    obtain ⟨i, j, hij, hi, hj⟩ := leaf_positions' a.d a.root pid id0 s1 s0 hpm hs0 hne e1 e he1 he
    exact hij (huq i j e1 e hi hj hp1 hp)

/-- `Arr.set` STORES THE HOLDER: every slab of the new tree that holds a reference to `y` was stored
    since the `set` began — for an inlined array, which owns no slab, the statement is about the root
    ID only and excluded by `hnr`. -/
theorem arr_hold {T : Nat} (hT : legalThreshold T = true) {a a' : Arr} {c c' : Ctx} {i : Nat} {e old : Elem} {y : SlabID}
    (hok : ArrOk T a c.ctr) (hve : ElemOk T e) (hpe : e.pay = .ref y)
    (hs : a.set T i e c = .ok (old, a', c')) (hinl' : a'.isInlined = a.isInlined)
    (huq : ∀ (i j : Nat) (e1 e2 : Elem), a'.toList[i]? = some e1 → a'.toList[j]? = some e2 → e1.pay = .ref y → e2.pay = .ref y → i = j) :
    ∀ id s, (id, s) ∈ (Cont.arr a').treeSlabs → (a.isInlined = true → id ≠ a'.rootID) →
      (∃ e1 ∈ C10Persist.slabElems s, e1.pay = .ref y) → StoredSince c c' id := by
  intro id s hm hnr ⟨e1, he1, hp1⟩
  rcases Bool.eq_false_or_eq_true a.isInlined with hi | hi
  · exact absurd (treeSlabs_arr_inl (by rw [hinl']; exact hi) _ hm) (hnr hi)
  · obtain ⟨E, C, hlog, hh⟩ := arr_set_holds hT a c i e hve (hok.1 hi) old a' c' hs
    obtain ⟨id0, s0, hs0, he0, hl⟩ := hh.data
    have : id = id0 := arr_holder_unique huq hm he1 hp1 hs0 he0 hpe
    subst this
    exact storedSince_of_log hlog hl

end Atree.Deep
