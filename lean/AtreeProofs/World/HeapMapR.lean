import AtreeProofs.Map.EffectsTop
import AtreeProofs.World.MapRef.Tree
/-
  The effect-log account of `OMap.set` (`AtreeProofs/Map/EffectsTop.lean`) for a value that may
  carry a REFERENCE payload (`ValueOkR` instead of `ValueOkM`): the same proof, with
  `MTree.set_spec_ref` in place of `MTree.set_spec`.
-/
namespace Atree
open Gen
variable {r : Nat} {T : Nat} {D : DigestFn (r + 1)}

theorem omap_set_acctR (hT : legalThreshold T = true) {cfg : MCfg} {m : OMap r} (hcfg : CfgOk cfg T m)
    (h : MapInv T D m) {k : MKey} (hk : KeyOk T (r + 1) D k) {v : Elem} (hv : ValueOkR T k.size v) (c : Ctx)
    (hc : CtxOk m c) (hids : MIdsOk m) {old : Option Elem} {m' : OMap r} {c' : Ctx}
    (hr : m.set cfg k v c = .ok (old, m', c')) :
    ∃ E C, MLog m.addr c c' E C ∧
      MAcct m.addr c.ctr c'.ctr (MTree.slabs m.d m.root) (MTree.slabs m'.d m'.root) E (C.map (·.1)) ∧
      lastAction E m.rootID = some true ∧ m'.rootID = m.rootID := by
  have hc' : CfgFor cfg T (r + 1) := ⟨hcfg.1, hcfg.2.1⟩
  have hold := old_of_ctxOk hc
  have haddr : cfg.addr = m.addr := hcfg.2.2
  rw [← haddr] at hold ⊢
  obtain ⟨d, root, ty, cnt, seed⟩ := m
  obtain ⟨h1, h2⟩ := MTree.set_spec_ref hT hc' hk hv d true root c h.tree
  by_cases hl : TLimited cfg d root k
  · have := h1 hl
    simp [OMap.set, this, bind, Except.bind] at hr
  · obtain ⟨old', root', c1, heq, hp⟩ := h2 hl
    have hinl : treeInl d root = false := by
      rw [← isInlined_eq d root ty cnt seed]; exact h.standalone
    have hra : (MTree.hdr d root).id.addr = cfg.addr := haddr.symm
    obtain ⟨hid, E1, C1, hlog1, hacct1, hla1⟩ := mset_acct d root root' true c1 h.tree hinl hra hids hold heq
    simp only [OMap.set, heq, bind, Except.bind, pure, Except.pure] at hr
    split at hr
    · cases hr
    · rename_i p hfix
      obtain ⟨m3, c3⟩ := p
      simp only [Except.ok.injEq, Prod.mk.injEq] at hr
      obtain ⟨_, rfl, rfl⟩ := hr
      obtain ⟨E2, hlog2, hacct2, hla2, hid2⟩ := rootfix_acct (T := T) (D := D) cfg.T d root' ty _ seed c1 m3 c3 hp.sinv
        (by rw [hid]; exact hra) (hacct1.nodup hids) (hacct1.old hold) hfix
      rw [hid] at hla2 hid2
      refine ⟨E1 ++ E2, C1, by simpa using hlog1.trans hlog2, by simpa using hacct1.trans hacct2 hold, ?_, hid2⟩
      exact lastAction_keep hla1 hla2


end Atree
