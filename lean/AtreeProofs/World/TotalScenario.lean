import AtreeProofs.World.TotalKeyed
import AtreeProofs.World.OkScenario
/-
  TOTAL correctness, part 9 (audit item S3): helpers for the non-vacuity instances and for the
  counterexample of `Props/C10Total.lean`:
  * decidable checkers (`keyedB`, `notLimB`) for the side conditions of the totality theorems on
    the concrete worlds of `World/OkScenario.lean`;
  * `WorldOkGen.add_keyless_closure`: adding, to a world that satisfies the global invariant, a
    KEY-LESS closure that names a live MAP keeps the global invariant — `WorldOk` does not exclude
    such closures (they are unreachable; `KeyedClosures` excludes them);
  * `wbad`: such a world, on which `arrInsert` through the (current) handle of a root answers the
    internal error `.fatal`.
-/
namespace Atree
open Gen

namespace World

variable {D : SlabID → DigestFn 4}

/-! ### checkers -/

/-- `KeyedClosures`, decidably -/
def keyedB (w : World) : Bool :=
  w.hinfo.all (fun e => match w.cont? e.2.parent with
    | some (.map _) => e.2.key.isSome
    | _ => true)

theorem keyedB_sound {w : World} (h : keyedB w = true) : KeyedClosures w := by
  intro x hi pm hx hp
  have := List.all_eq_true.mp h (x, hi) (OkScenario.find?_mem hx)
  simp only [hp] at this
  exact this

/-- no leaf of the map holds the first-level digest `hk`: the collision limit cannot refuse a key
    with that digest -/
def notLimB (c : Cont) (hk : Nat) : Bool :=
  match c with
  | .map m => (MTree.leaves m.d m.root).all (fun s => !(s.elems.hkeys.contains hk))
  | .arr _ => false

theorem notLimB_sound {m : OMap 3} {cfg : MCfg} {k : MKey} (h : notLimB (.map m) (k.dig 0) = true) :
    ¬ TLimited cfg m.d m.root k := by
  rintro ⟨s, hs, hl⟩
  have hd := hl.dig_mem
  have := List.all_eq_true.mp h s hs
  simp only [Bool.not_eq_true', List.contains_eq_mem, decide_eq_false_iff_not] at this
  exact this hd

theorem cont_arr_of {w : World} {x : SlabID} (h : (w.cont? x).map Cont.isArr = some true) :
    ∃ a, w.cont? x = some (.arr a) := by
  cases hc : w.cont? x with
  | none => rw [hc] at h; cases h
  | some c =>
    cases c with
    | arr a => exact ⟨a, rfl⟩
    | map m => rw [hc] at h; cases h

theorem cont_map_of {w : World} {x : SlabID} (h : (w.cont? x).map Cont.isArr = some false) :
    ∃ m, w.cont? x = some (.map m) := by
  cases hc : w.cont? x with
  | none => rw [hc] at h; cases h
  | some c =>
    cases c with
    | arr a => rw [hc] at h; cases h
    | map m => exact ⟨m, rfl⟩

/-! ### a key-less closure that names a map -/

/-- `WorldOk` does not exclude a (stale) key-less closure that names a live map -/
theorem WorldOkGen.add_keyless_closure {w : World} {ctr : Nat} {rank : SlabID → Nat}
    (H : WorldOkGen D rank none (fun _ => False) w ctr) (x : SlabID) {q : SlabID} {m : OMap 3}
    (hq : w.cont? q = some (.map m)) (mi wr : Nat) :
    WorldOkGen D rank none (fun _ => False)
      { w with hinfo := AList.insert w.hinfo x ⟨q, none, mi, wr⟩ } ctr := by
  refine ⟨H.legal, H.ids, H.addr, H.conts, ?_, H.band, H.unique, H.inlRef, H.mutIdx, ?_, H.rank, H.below,
    H.idxLive, ?_⟩
  · intro p pc hp le hle y c hy hc
    obtain ⟨wrp, h1, h2, h3, h4⟩ := H.slots p pc hp le hle y c hy hc
    refine ⟨wrp, h1, h2, h3, ?_⟩
    intro hi hO hhi hca
    have hhi' : AList.find? (AList.insert w.hinfo x ⟨q, none, mi, wr⟩) y = some hi := hhi
    rw [AList.find?_insert] at hhi'
    split at hhi'
    · cases hhi'
      rcases hca with ⟨pa, i, hpa, _⟩ | ⟨pm, k, _, hk, _⟩
      · have hpa' : w.cont? q = some (.arr pa) := hpa
        rw [hq] at hpa'; cases hpa'
      · cases hk
    · exact h4 hi hO hhi' hca
  · intro y hi hy
    have hy' : AList.find? (AList.insert w.hinfo x ⟨q, none, mi, wr⟩) y = some hi := hy
    rw [AList.find?_insert] at hy'
    split at hy'
    · cases hy'
      refine ⟨fun pa hpa => ?_, fun pm k _ hk => ?_⟩
      · have hpa' : w.cont? q = some (.arr pa) := hpa
        rw [hq] at hpa'; cases hpa'
      · cases hk
    · exact H.closure y hi hy'
  · intro y hi hy
    have hy' : AList.find? (AList.insert w.hinfo x ⟨q, none, mi, wr⟩) y = some hi := hy
    rw [AList.find?_insert] at hy'
    split at hy'
    · cases hy'
      show (w.cont? q).isSome
      rw [hq]; rfl
    · exact H.hinfoLive y hi hy'

/-- the answer is the internal error `.fatal` -/
def isFatal {α : Type} (r : Except WErr α) : Bool :=
  match r with
  | .error .fatal => true
  | _ => false

theorem eq_fatal {α : Type} {r : Except WErr α} (h : isFatal r = true) : r = .error .fatal := by
  cases r with
  | ok x => cases h
  | error e => cases e <;> first | rfl | cases h

end World

namespace OkScenario
open World

/-- the world after `NewArray` (`R`) and `NewMap` (`M`) of `OkScenario`, plus a key-less closure of
    the root array `R` that names the map `M` -/
def wbad : World := { t2.2.1 with hinfo := AList.insert t2.2.1.hinfo R ⟨M, none, 117, 0⟩ }

theorem wbad_worldOk : WorldOk D wbad t2.2.2.ctr := by
  obtain ⟨rank, H⟩ := ok2
  obtain ⟨m, hm⟩ := cont_map_of (w := t2.2.1) (x := M) (by decide)
  exact ⟨rank, H.add_keyless_closure R hm 117 0⟩

theorem wbad_facts : HandleOk wbad R ∧ WValOk wbad R (maxInlineArr wbad.T) (pl 1) ∧
    (wbad.cont? R).map Cont.isArr = some true ∧ (wbad.cont? R).map (fun c => c.storedElems.length) = some 0 :=
  ⟨HandleOk.root _ (unrefB_sound (by decide)), ⟨⟨by decide, 1, rfl⟩, by decide⟩, by decide, by decide⟩

theorem wbad_fatal : wbad.arrInsert R 0 (pl 1) t2.2.2 = .error .fatal := by
  rw [arrInsert_eq_S]
  exact eq_fatal (by decide)

theorem wbad_not_keyed : ¬ KeyedClosures wbad := by
  intro h
  obtain ⟨m, hm⟩ := cont_map_of (w := wbad) (x := M) (by decide)
  have := h R ⟨M, none, 117, 0⟩ m (by decide) hm
  cases this

/-! ### the depth-3 world `t7` (the array `A`, holding one value, inlined and wrapped in the map
`M`, itself inlined in the root array `R`) -/

def K2 : MKey := ⟨10, 2, [2, 2, 2, 2]⟩

theorem keyOk_K2 : KeyOk 256 4 D0 K2 := ⟨rfl, by decide, by decide⟩

theorem t7_handles : HandleOk t7.1 A ∧ HandleOk t7.1 M ∧ HandleOk t7.1 R := by
  have hM : HandleOk t7.1 M :=
    handleOk_parent ok7.1 ok7.2 (x := A) (p := M) (holds_of_check (by decide)) (by decide)
  exact ⟨ok7.2, hM, handleR7⟩

theorem t7_shape : Holds t7.1 R M ∧ Holds t7.1 M A ∧
    (t7.1.cont? A).map Cont.isArr = some true ∧ (t7.1.cont? M).map Cont.isArr = some false ∧
    (t7.1.cont? A).map (fun c => c.storedElems.length) = some 1 ∧
    (t7.1.cont? A).map Cont.isInlined = some true ∧ (t7.1.cont? M).map Cont.isInlined = some true :=
  ⟨holds_of_check (by decide), holds_of_check (by decide), by decide, by decide, by decide, by decide, by decide⟩

theorem t7_keyed : KeyedClosures t7.1 := keyedB_sound (by decide)

theorem t7_notLim : (t7.1.cont? M).map (fun c => notLimB c (K2.dig 0)) = some true := by decide

end OkScenario
end Atree
