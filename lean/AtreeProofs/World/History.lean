import AtreeProofs.WorldHistory
import AtreeProofs.World.WPopAll
import AtreeProofs.World.WPopMid
/-
  Helper lemmas for the history theorems (`Props/C10Hist.lean`): handles across creation and
  disposal, reachability in the table of signatures.
-/
namespace Atree
open Gen

namespace World

/-! ### handles across the creation of a container -/

/-- a new, empty container is filed under a fresh identifier: every current handle stays current -/
theorem handleOk_new {w w' : World} {x : SlabID} {c : Cont} (hnew : w.cont? x = none)
    (hx : w'.cont? x = some c) (hc : c.pays = []) (hco : ∀ z, z ≠ x → w'.cont? z = w.cont? z)
    (hh : w'.hinfo = w.hinfo) (hm : w'.mutIdx = w.mutIdx) {z : SlabID} (h : HandleOk w z) : HandleOk w' z := by
  refine h.transfer ?_ ?_
  · intro q y ⟨qc, hqc, hmem⟩
    by_cases hq : q = x
    · subst hq
      rw [hx] at hqc; cases hqc
      rw [hc] at hmem; cases hmem
    · rw [hco q hq] at hqc
      exact ⟨qc, hqc, hmem⟩
  · intro y hi h1 h2
    refine ⟨hi, by rw [hh]; exact h1, rfl, ?_⟩
    rw [closureCurrent_iff] at h2 ⊢
    obtain ⟨j, pc, hpc, hpay, harr, hmap⟩ := h2
    have hpx : hi.parent ≠ x := by
      intro he; rw [he, hnew] at hpc; cases hpc
    refine ⟨j, pc, by rw [hco _ hpx]; exact hpc, hpay, fun ha => ?_, hmap⟩
    have : w'.idxOf hi.parent = w.idxOf hi.parent := by simp [World.idxOf, hm]
    rw [this]; exact harr ha

/-! ### handles across a disposal -/

theorem Reach.snoc {w : World} {k a x : SlabID} (h : Reach w k a) (hax : Holds w a x) (hx : (w.cont? x).isSome) :
    Reach w k x := by
  induction h with
  | refl _ =>
    obtain ⟨c, hc, hm⟩ := hax
    obtain ⟨e, he, hp⟩ := mem_pays_iff.mp hm
    exact Reach.step hc he hp (Reach.refl hx)
  | step hc he hp _ ih => exact Reach.step hc he hp (ih hax)

/-- disposing of the containers reachable from `k`: every current handle of a container that is
    still there stays current -/
theorem handleOk_forget {w w' : World} {k : SlabID} (F : ForgetFrame w w' k) {z : SlabID} (h : HandleOk w z)
    (hz : (w'.cont? z).isSome) : HandleOk w' z := by
  obtain ⟨f1, f2, _, _⟩ := F
  have hnr : ∀ y, (w'.cont? y).isSome → ¬ Reach w k y := by
    intro y hy hr
    rw [(f1 y hr).1] at hy; cases hy
  induction h with
  | root x hr =>
    refine HandleOk.root x (fun q hq => hr q ?_)
    obtain ⟨qc, hqc, hm⟩ := hq
    have hq' := (f2 q (hnr q (by rw [hqc]; rfl))).1
    exact ⟨qc, by rw [← hq']; exact hqc, hm⟩
  | child x hi hhi hc _ ih =>
    have hxn := hnr x hz
    obtain ⟨e1, e2, _⟩ := f2 x hxn
    have hxl : (w.cont? x).isSome := by rw [← e1]; exact hz
    rw [closureCurrent_iff] at hc
    obtain ⟨j, hj⟩ := hc
    have hpn : ¬ Reach w k hi.parent := fun hr => hxn (hr.snoc hj.holds hxl)
    obtain ⟨g1, _, g3⟩ := f2 hi.parent hpn
    obtain ⟨pc, hpc, hpay, harr, hmap⟩ := hj
    have hpl : (w'.cont? hi.parent).isSome := by rw [g1, hpc]; rfl
    refine HandleOk.child x hi (by rw [e2]; exact hhi) ?_ (ih hpl)
    rw [closureCurrent_iff]
    refine ⟨j, pc, by rw [g1]; exact hpc, hpay, fun ha => ?_, hmap⟩
    have : w'.idxOf hi.parent = w.idxOf hi.parent := by simp only [World.idxOf, g3]
    rw [this]; exact harr ha

/-! ### liveness across an operation -/

theorem SigFrame.live_at {w w' : World} {p : SlabID} (h : SigFrame w w' p) (hp : (w'.cont? p).isSome) {z : SlabID}
    (hz : (w.cont? z).isSome) : (w'.cont? z).isSome := by
  by_cases hzp : z = p
  · subst hzp; exact hp
  · rw [h.isSome hzp]; exact hz

/-! ### the table of signatures -/

theorem absTab_some {w : World} {z : SlabID} {s : Sig} (h : absTab w z = some s) :
    ∃ c, w.cont? z = some c ∧ c.sig = s := by
  unfold absTab at h
  cases hc : w.cont? z with
  | none => rw [hc] at h; cases h
  | some c => rw [hc] at h; exact ⟨c, rfl, by simpa using h⟩

theorem absTab_of {w : World} {z : SlabID} {c : Cont} (h : w.cont? z = some c) : absTab w z = some c.sig := by
  unfold absTab; rw [h]; rfl

theorem absTab_isSome (w : World) (z : SlabID) : (absTab w z).isSome = (w.cont? z).isSome := by
  unfold absTab; cases w.cont? z <;> rfl

theorem mem_sig_iff {c : Cont} {py : Pay} : (∃ ko, (ko, py) ∈ c.sig.2) ↔ ∃ e ∈ c.storedElems, e.pay = py := by
  have h1 : py ∈ c.pays ↔ ∃ ko, (ko, py) ∈ c.sig.2 := by
    rw [Cont.pays_eq_sig, List.mem_map]
    constructor
    · rintro ⟨⟨ko, p⟩, ht, rfl⟩; exact ⟨ko, ht⟩
    · rintro ⟨ko, ht⟩; exact ⟨(ko, py), ht, rfl⟩
  rw [← h1, Cont.pays, List.mem_map]

/-- reachability through references only depends on the table of signatures -/
theorem reach_iff_treach (w : World) (v x : SlabID) : Reach w v x ↔ TReach (absTab w) v x := by
  constructor
  · intro h
    induction h with
    | refl hs => exact TReach.refl (by rw [absTab_isSome]; exact hs)
    | step hc he hp _ ih =>
      obtain ⟨ko, hk⟩ := mem_sig_iff.mpr ⟨_, he, hp⟩
      exact TReach.step (absTab_of hc) hk ih
  · intro h
    induction h with
    | refl hs => exact Reach.refl (by rw [← absTab_isSome]; exact hs)
    | step hu hk _ ih =>
      obtain ⟨c, hc, hs⟩ := absTab_some hu
      obtain ⟨e, he, hp⟩ := mem_sig_iff.mp ⟨_, by rw [hs]; exact hk⟩
      exact Reach.step hc he hp ih

/-- the table after an operation that changes the signature of `p` only -/
theorem absTab_upd {w w' : World} {p : SlabID} {c' : Cont} (h : SigFrame w w' p) (hp : w'.cont? p = some c') :
    absTab w' = (absTab w).upd p c'.sig := by
  funext z
  unfold Tab.upd
  by_cases hz : z = p
  · subst hz; rw [if_pos rfl]; exact absTab_of hp
  · rw [if_neg hz]; exact h z hz

theorem absTab_eq_of_conts {w w' : World} (h : ∀ z, w'.cont? z = w.cont? z) : absTab w' = absTab w := by
  funext z; unfold absTab; rw [h]

theorem sig_arr (a : Arr) : (Cont.arr a).sig = (true, a.toList.map (fun e => (none, e.pay))) := rfl
theorem sig_map (m : OMap 3) : (Cont.map m).sig = (false, m.toList.map (fun p => (some p.1, p.2.pay))) := rfl

/-- histories compose -/
theorem Run.append {D : SlabID → DigestFn 4} {s1 s2 s3 : HState} {t1 t2 : List (WOp × WObs)}
    (h1 : Run D s1 t1 s2) (h2 : Run D s2 t2 s3) : Run D s1 (t1 ++ t2) s3 := by
  induction h1 with
  | nil => exact h2
  | cons hs _ ih => exact Run.cons hs (ih h2)

theorem SpecRun.append {A1 A2 A3 : Tab} {t1 t2 : List (WOp × WObs)}
    (h1 : SpecRun A1 t1 A2) (h2 : SpecRun A2 t2 A3) : SpecRun A1 (t1 ++ t2) A3 := by
  induction h1 with
  | nil => exact h2
  | cons hs _ ih => exact SpecRun.cons hs (ih h2)

end World
end Atree
