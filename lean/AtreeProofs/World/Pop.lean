import AtreeProofs.World.Frame
import AtreeProofs.World.Ops
/-
  `forget` / `forgetElems` (the caller of `PopIterate` disposes of everything handed out): the
  containers that vanish from the tables are EXACTLY the ones reachable, through element
  references, from the popped elements; every other entry of every table is untouched.

  * `Reach w v x`   — `x` is `v` or nested (at any depth) below `v` in `w`
  * `Shrink w w'`   — `w'` is `w` with some known containers dropped from all three tables
  * `Closed w w'`   — the dropped containers are closed under element references
  * `forget_shrink`, `forget_closed` (adequate fuel), `forget_sound`, and the same for `forgetElems`
-/
namespace Atree
open Gen

namespace AList
variable {κ : Type} [DecidableEq κ] {α : Type}

theorem length_erase_le (m : AList κ α) (k : κ) : (erase m k).length ≤ m.length :=
  List.length_filter_le _ _

theorem length_erase_lt (m : AList κ α) (k : κ) (h : (find? m k).isSome) :
    (erase m k).length < m.length := by
  induction m with
  | nil => simp at h
  | cons p m ih =>
    obtain ⟨k', v⟩ := p
    unfold erase at ih ⊢
    by_cases hk : k' = k
    · have := List.length_filter_le (fun p : κ × α => !decide (p.1 = k)) m
      simp only [List.filter_cons, hk, decide_true, Bool.not_true, Bool.false_eq_true, if_false,
        List.length_cons]
      omega
    · rw [find?_cons, if_neg hk] at h
      have := ih h
      simp only [List.filter_cons, hk, decide_false, Bool.not_false, if_true, List.length_cons]
      omega

end AList

namespace World

/-! ### the element-reference graph -/

theorem childRefs_eq (w : World) (c : Cont) :
    Cont.childRefs w c = c.storedElems.filterMap (fun e => match e.pay with
      | .ref v => if (w.cont? v).isSome then some v else none
      | _ => none) := by
  cases c <;> rfl

theorem mem_childRefs {w : World} {c : Cont} {v : SlabID} :
    v ∈ Cont.childRefs w c ↔ (∃ e ∈ c.storedElems, e.pay = .ref v) ∧ (w.cont? v).isSome := by
  rw [childRefs_eq, List.mem_filterMap]
  constructor
  · rintro ⟨e, he, h⟩
    split at h
    · rename_i v' hp
      split at h
      · rename_i hs
        cases h
        exact ⟨⟨e, he, hp⟩, hs⟩
      · cases h
    · cases h
  · rintro ⟨⟨e, he, hp⟩, hs⟩
    refine ⟨e, he, ?_⟩
    simp only [hp, hs, if_true]

/-- `x` is the container `v` itself or is nested below it (through element references that
    resolve to known containers) -/
inductive Reach (w : World) : SlabID → SlabID → Prop
  | refl {v : SlabID} : (w.cont? v).isSome → Reach w v v
  | step {u v x : SlabID} {c : Cont} {e : Elem} :
      w.cont? u = some c → e ∈ c.storedElems → e.pay = .ref v → Reach w v x → Reach w u x

theorem Reach.src_isSome {w : World} {v x : SlabID} (h : Reach w v x) : (w.cont? v).isSome := by
  cases h with
  | refl hs => exact hs
  | step hc _ _ _ => rw [hc]; rfl

theorem Reach.dst_isSome {w : World} {v x : SlabID} (h : Reach w v x) : (w.cont? x).isSome := by
  induction h with
  | refl hs => exact hs
  | step _ _ _ _ ih => exact ih

theorem Reach.trans {w : World} {u v x : SlabID} (h1 : Reach w u v) (h2 : Reach w v x) : Reach w u x := by
  induction h1 with
  | refl _ => exact h2
  | step hc he hp _ ih => exact Reach.step hc he hp (ih h2)

/-- references go strictly up in rank (towards the leaves): the element-reference graph is acyclic -/
def RefRankOk (rank : SlabID → Nat) (w : World) : Prop :=
  ∀ u c, w.cont? u = some c → ∀ e ∈ c.storedElems, ∀ v, e.pay = .ref v → (w.cont? v).isSome →
    rank u < rank v

theorem Reach.rank_le {rank : SlabID → Nat} {w : World} (hr : RefRankOk rank w) {v x : SlabID}
    (h : Reach w v x) : rank v ≤ rank x := by
  induction h with
  | refl _ => exact Nat.le_refl _
  | step hc he hp hre ih =>
    have := hr _ _ hc _ he _ hp hre.src_isSome
    omega

/-! ### dropping one container from all tables -/

/-- the tables without the entries of `v` -/
def dropKey (w : World) (v : SlabID) : World :=
  { w with conts := AList.erase w.conts v, hinfo := AList.erase w.hinfo v, mutIdx := AList.erase w.mutIdx v }

theorem forget_zero (w : World) (v : SlabID) : forget 0 w v = w := rfl

theorem forget_succ (fuel : Nat) (w : World) (v : SlabID) :
    forget (fuel + 1) w v =
      match w.cont? v with
      | none => w
      | some c => (Cont.childRefs w c).foldl (forget fuel) (w.dropKey v) := rfl

theorem cont?_dropKey (w : World) (v y : SlabID) :
    (w.dropKey v).cont? y = if v = y then none else w.cont? y := by
  simp [cont?, dropKey, AList.find?_erase]

/-- `w'` is `w` with some known containers dropped from all three tables -/
structure Shrink (w w' : World) : Prop where
  T : w'.T = w.T
  addr : w'.addr = w.addr
  len : w'.conts.length ≤ w.conts.length
  keep : ∀ y, (w'.cont? y = w.cont? y ∧ AList.find? w'.hinfo y = AList.find? w.hinfo y ∧
                AList.find? w'.mutIdx y = AList.find? w.mutIdx y) ∨
              ((w.cont? y).isSome ∧ w'.cont? y = none ∧ AList.find? w'.hinfo y = none ∧
                AList.find? w'.mutIdx y = none)

theorem Shrink.refl (w : World) : Shrink w w :=
  ⟨rfl, rfl, Nat.le_refl _, fun _ => Or.inl ⟨rfl, rfl, rfl⟩⟩

theorem Shrink.trans {w1 w2 w3 : World} (h12 : Shrink w1 w2) (h23 : Shrink w2 w3) : Shrink w1 w3 := by
  refine ⟨h23.T.trans h12.T, h23.addr.trans h12.addr, Nat.le_trans h23.len h12.len, fun y => ?_⟩
  rcases h23.keep y with ⟨a1, a2, a3⟩ | ⟨b1, b2, b3, b4⟩
  · rcases h12.keep y with ⟨c1, c2, c3⟩ | ⟨d1, d2, d3, d4⟩
    · exact Or.inl ⟨a1.trans c1, a2.trans c2, a3.trans c3⟩
    · exact Or.inr ⟨d1, a1.trans d2, a2.trans d3, a3.trans d4⟩
  · rcases h12.keep y with ⟨c1, _, _⟩ | ⟨d1, d2, _, _⟩
    · exact Or.inr ⟨by rw [← c1]; exact b1, b2, b3, b4⟩
    · rw [d2] at b1; cases b1

theorem Shrink.none_stays {w w' : World} (h : Shrink w w') {y : SlabID} (hy : w.cont? y = none) :
    w'.cont? y = none := by
  rcases h.keep y with ⟨a, _, _⟩ | ⟨_, b, _, _⟩
  · rw [a]; exact hy
  · exact b

theorem Shrink.some_of_some {w w' : World} (h : Shrink w w') {y : SlabID} {c : Cont}
    (hy : w'.cont? y = some c) : w.cont? y = some c := by
  rcases h.keep y with ⟨a, _, _⟩ | ⟨_, b, _, _⟩
  · rw [← a]; exact hy
  · rw [b] at hy; cases hy

/-- an entry that is still there is unchanged, in every table -/
theorem Shrink.kept {w w' : World} (h : Shrink w w') {y : SlabID} (hy : (w'.cont? y).isSome) :
    w'.cont? y = w.cont? y ∧ AList.find? w'.hinfo y = AList.find? w.hinfo y ∧
      AList.find? w'.mutIdx y = AList.find? w.mutIdx y := by
  rcases h.keep y with a | ⟨_, b, _, _⟩
  · exact a
  · rw [b] at hy; cases hy

theorem Shrink.idxOf_kept {w w' : World} (h : Shrink w w') {y : SlabID} (hy : (w'.cont? y).isSome) :
    w'.idxOf y = w.idxOf y := by
  simp only [idxOf, (h.kept hy).2.2]

theorem Shrink.dropKey (w : World) (v : SlabID) (hv : (w.cont? v).isSome) : Shrink w (w.dropKey v) := by
  refine ⟨rfl, rfl, AList.length_erase_le _ _, fun y => ?_⟩
  by_cases hvy : v = y
  · subst hvy
    exact Or.inr ⟨hv, by simp [cont?_dropKey], by simp [World.dropKey, AList.find?_erase],
      by simp [World.dropKey, AList.find?_erase]⟩
  · exact Or.inl ⟨by simp [cont?_dropKey, hvy], by simp [World.dropKey, AList.find?_erase, hvy],
      by simp [World.dropKey, AList.find?_erase, hvy]⟩

theorem length_dropKey_lt (w : World) (v : SlabID) (hv : (w.cont? v).isSome) :
    (w.dropKey v).conts.length < w.conts.length :=
  AList.length_erase_lt _ _ hv

theorem Reach.mono {w w' : World} (hs : Shrink w w') {v x : SlabID} (h : Reach w' v x) : Reach w v x := by
  induction h with
  | refl hv =>
    cases hc : w'.cont? _ with
    | none => rw [hc] at hv; cases hv
    | some c => exact Reach.refl (by rw [hs.some_of_some hc]; rfl)
  | step hc he hp _ ih => exact Reach.step (hs.some_of_some hc) he hp ih

/-! ### `forget` only drops known containers -/

theorem foldl_forget_shrink (fuel : Nat) (ih : ∀ w v, Shrink w (forget fuel w v)) :
    ∀ (L : List SlabID) (w : World), Shrink w (L.foldl (forget fuel) w) := by
  intro L
  induction L with
  | nil => intro w; exact Shrink.refl w
  | cons k L ihL => intro w; exact (ih w k).trans (ihL _)

theorem forget_shrink : ∀ (fuel : Nat) (w : World) (v : SlabID), Shrink w (forget fuel w v) := by
  intro fuel
  induction fuel with
  | zero => intro w v; exact Shrink.refl w
  | succ fuel ih =>
    intro w v
    rw [forget_succ]
    cases hc : w.cont? v with
    | none => exact Shrink.refl w
    | some c =>
      exact (Shrink.dropKey w v (by rw [hc]; rfl)).trans (foldl_forget_shrink fuel ih _ _)

/-! ### what is dropped is reachable -/

theorem foldl_forget_sound (fuel : Nat)
    (ih : ∀ w v u, (w.cont? u).isSome → (forget fuel w v).cont? u = none → Reach w v u) :
    ∀ (L : List SlabID) (w : World) (u : SlabID), (w.cont? u).isSome →
      (L.foldl (forget fuel) w).cont? u = none → ∃ k ∈ L, Reach w k u := by
  intro L
  induction L with
  | nil => intro w u hs hn; rw [List.foldl_nil] at hn; rw [hn] at hs; cases hs
  | cons k L ihL =>
    intro w u hs hn
    rw [List.foldl_cons] at hn
    cases h1 : (forget fuel w k).cont? u with
    | none => exact ⟨k, by simp, ih w k u hs h1⟩
    | some c1 =>
      obtain ⟨k', hk', hr⟩ := ihL (forget fuel w k) u (by rw [h1]; rfl) hn
      exact ⟨k', by simp [hk'], hr.mono (forget_shrink fuel w k)⟩

theorem forget_sound : ∀ (fuel : Nat) (w : World) (v u : SlabID), (w.cont? u).isSome →
    (forget fuel w v).cont? u = none → Reach w v u := by
  intro fuel
  induction fuel with
  | zero => intro w v u hs hn; rw [forget_zero] at hn; rw [hn] at hs; cases hs
  | succ fuel ih =>
    intro w v u hs hn
    rw [forget_succ] at hn
    cases hc : w.cont? v with
    | none => rw [hc] at hn; rw [hn] at hs; cases hs
    | some c =>
      rw [hc] at hn
      simp only at hn
      by_cases hvu : v = u
      · subst hvu; exact Reach.refl hs
      · have hs0 : ((w.dropKey v).cont? u).isSome := by rw [cont?_dropKey, if_neg hvu]; exact hs
        obtain ⟨k, hk, hr⟩ := foldl_forget_sound fuel ih _ _ u hs0 hn
        obtain ⟨⟨e, he, hp⟩, _⟩ := mem_childRefs.mp hk
        exact Reach.step hc he hp (hr.mono (Shrink.dropKey w v (by rw [hc]; rfl)))

/-! ### with enough fuel, what is dropped is closed under element references -/

/-- every container referenced by a dropped container is gone as well -/
def Closed (w w' : World) : Prop :=
  ∀ u c, w.cont? u = some c → w'.cont? u = none → ∀ e ∈ c.storedElems, ∀ y, e.pay = .ref y →
    w'.cont? y = none

theorem Closed.refl (w : World) : Closed w w := by
  intro u c h1 h2; rw [h1] at h2; cases h2

theorem Closed.trans {w1 w2 w3 : World} (s12 : Shrink w1 w2) (c12 : Closed w1 w2) (s23 : Shrink w2 w3)
    (c23 : Closed w2 w3) : Closed w1 w3 := by
  intro u c h1 h3 e he y hp
  cases h2 : w2.cont? u with
  | none => exact s23.none_stays (c12 u c h1 h2 e he y hp)
  | some c2 =>
    have hc2 : w1.cont? u = some c2 := s12.some_of_some h2
    rw [h1] at hc2; cases hc2
    exact c23 u c h2 h3 e he y hp

theorem foldl_forget_closed (fuel : Nat)
    (ih : ∀ w v, w.conts.length < fuel → Closed w (forget fuel w v) ∧ (forget fuel w v).cont? v = none) :
    ∀ (L : List SlabID) (w : World), w.conts.length < fuel →
      Closed w (L.foldl (forget fuel) w) ∧ ∀ k ∈ L, (L.foldl (forget fuel) w).cont? k = none := by
  intro L
  induction L with
  | nil => intro w _; exact ⟨Closed.refl w, fun k hk => by simp at hk⟩
  | cons k L ihL =>
    intro w hlen
    rw [List.foldl_cons]
    have s1 := forget_shrink fuel w k
    obtain ⟨c1, n1⟩ := ih w k hlen
    obtain ⟨c2, n2⟩ := ihL (forget fuel w k) (Nat.lt_of_le_of_lt s1.len hlen)
    have s2 := foldl_forget_shrink fuel (forget_shrink fuel) L (forget fuel w k)
    refine ⟨Closed.trans s1 c1 s2 c2, fun k' hk' => ?_⟩
    rcases List.mem_cons.mp hk' with rfl | hk'
    · exact s2.none_stays n1
    · exact n2 k' hk'

theorem forget_closed : ∀ (fuel : Nat) (w : World) (v : SlabID), w.conts.length < fuel →
    Closed w (forget fuel w v) ∧ (forget fuel w v).cont? v = none := by
  intro fuel
  induction fuel with
  | zero => intro w v h; omega
  | succ fuel ih =>
    intro w v hlen
    rw [forget_succ]
    cases hc : w.cont? v with
    | none => exact ⟨Closed.refl w, hc⟩
    | some c =>
      simp only
      have hv : (w.cont? v).isSome := by rw [hc]; rfl
      have s0 := Shrink.dropKey w v hv
      have hlen0 : (w.dropKey v).conts.length < fuel := by
        have := length_dropKey_lt w v hv; omega
      obtain ⟨c1, n1⟩ := foldl_forget_closed fuel ih (Cont.childRefs w c) (w.dropKey v) hlen0
      have s1 := foldl_forget_shrink fuel (forget_shrink fuel) (Cont.childRefs w c) (w.dropKey v)
      refine ⟨?_, s1.none_stays (by simp [cont?_dropKey])⟩
      intro u cu hu hn e he y hp
      by_cases hvu : v = u
      · subst hvu
        rw [hc] at hu; cases hu
        cases hy : w.cont? y with
        | none => exact (s0.trans s1).none_stays hy
        | some cy => exact n1 y (mem_childRefs.mpr ⟨⟨e, he, hp⟩, by rw [hy]; rfl⟩)
      · exact c1 u cu (by rw [cont?_dropKey, if_neg hvu]; exact hu) hn e he y hp

/-- everything reachable from a dropped container is gone -/
theorem Closed.reach_none {w w' : World} (hc : Closed w w') {v x : SlabID} (hr : Reach w v x)
    (hv : w'.cont? v = none) : w'.cont? x = none := by
  induction hr with
  | refl _ => exact hv
  | step hcu he hp _ ih => exact ih (hc _ _ hcu hv _ he _ hp)

/-! ### `forgetElems` -/

theorem forgetElems_nil (w : World) : w.forgetElems [] = w := rfl

theorem forgetElems_cons (w : World) (e : Elem) (es : List Elem) :
    w.forgetElems (e :: es) =
      World.forgetElems (match e.pay with | .ref v => forget w.fuelOf w v | _ => w) es := rfl

/-- Complete description of `forgetElems`. -/
theorem forgetElems_spec : ∀ (es : List Elem) (w : World),
    Shrink w (w.forgetElems es) ∧ Closed w (w.forgetElems es) ∧
    (∀ e ∈ es, ∀ v, e.pay = .ref v → (w.forgetElems es).cont? v = none) ∧
    (∀ u, (w.cont? u).isSome → (w.forgetElems es).cont? u = none →
       ∃ e ∈ es, ∃ v, e.pay = .ref v ∧ Reach w v u) := by
  intro es
  induction es with
  | nil =>
    intro w
    refine ⟨Shrink.refl w, Closed.refl w, fun e he => by simp at he, fun u hs hn => ?_⟩
    rw [forgetElems_nil] at hn; rw [hn] at hs; cases hs
  | cons e es ih =>
    intro w
    rw [forgetElems_cons]
    cases hp : e.pay with
    | val n =>
      simp only
      obtain ⟨s, c, n1, snd⟩ := ih w
      refine ⟨s, c, fun e' he' v hv => ?_, fun u hs hn => ?_⟩
      · rcases List.mem_cons.mp he' with rfl | he'
        · rw [hp] at hv; cases hv
        · exact n1 e' he' v hv
      · obtain ⟨e', he', v, hv, hr⟩ := snd u hs hn
        exact ⟨e', by simp [he'], v, hv, hr⟩
    | ref v0 =>
      simp only
      have s0 := forget_shrink w.fuelOf w v0
      obtain ⟨c0, n0⟩ := forget_closed w.fuelOf w v0 (by unfold fuelOf; omega)
      obtain ⟨s, c, n1, snd⟩ := ih (forget w.fuelOf w v0)
      refine ⟨s0.trans s, Closed.trans s0 c0 s c, fun e' he' v hv => ?_, fun u hs hn => ?_⟩
      · rcases List.mem_cons.mp he' with rfl | he'
        · rw [hp] at hv; cases hv
          exact s.none_stays n0
        · exact n1 e' he' v hv
      · cases h1 : (forget w.fuelOf w v0).cont? u with
        | none => exact ⟨e, by simp, v0, hp, forget_sound _ w v0 u hs h1⟩
        | some c1 =>
          obtain ⟨e', he', v, hv, hr⟩ := snd u (by rw [h1]; rfl) hn
          exact ⟨e', by simp [he'], v, hv, hr.mono s0⟩

/-- the popped subtree is gone -/
theorem forgetElems_reach_none {w : World} {es : List Elem} {e : Elem} {v x : SlabID}
    (he : e ∈ es) (hp : e.pay = .ref v) (hr : Reach w v x) : (w.forgetElems es).cont? x = none := by
  obtain ⟨_, c, n1, _⟩ := forgetElems_spec es w
  exact c.reach_none hr (n1 e he v hp)

/-- `x` is not nested below any of the elements `es` -/
def NotBelow (w : World) (es : List Elem) (x : SlabID) : Prop :=
  ∀ e ∈ es, ∀ v, e.pay = .ref v → ¬ Reach w v x

/-- everything outside the popped subtree keeps its entries in all tables -/
theorem forgetElems_keep {w : World} {es : List Elem} {x : SlabID} (hx : NotBelow w es x) :
    (w.forgetElems es).cont? x = w.cont? x ∧
    AList.find? (w.forgetElems es).hinfo x = AList.find? w.hinfo x ∧
    AList.find? (w.forgetElems es).mutIdx x = AList.find? w.mutIdx x := by
  obtain ⟨s, _, _, snd⟩ := forgetElems_spec es w
  rcases s.keep x with a | ⟨b1, b2, _, _⟩
  · exact a
  · obtain ⟨e, he, v, hv, hr⟩ := snd x b1 b2
    exact absurd hr (hx e he v hv)

theorem notBelow_of_rank {rank : SlabID → Nat} {w : World} (hr : RefRankOk rank w) {es : List Elem}
    {x : SlabID} (hx : ∀ e ∈ es, ∀ v, e.pay = .ref v → (w.cont? v).isSome → rank x < rank v) :
    NotBelow w es x := by
  intro e he v hv hre
  have := hx e he v hv hre.src_isSome
  have := hre.rank_le hr
  omega

end World
end Atree
