import AtreeProofs.World.WPopForget
import AtreeProofs.World.ArrRef
import AtreeProofs.World.MapRefW
import AtreeProofs.World.OpsArr
/-
  A container that nobody refers to (a popped child kept by the caller, a container handed back by
  `Remove`): its notification finds nothing (C11), so a mutation through its handle writes nothing
  but the container itself.
-/
namespace Atree
open Gen

namespace World

variable {D : SlabID → DigestFn 4} {rank : SlabID → Nat}

/-- A notification whose closure (if any) finds no slot that holds the notifier changes no container,
    no index, and no storage: it returns the world unchanged or only drops the closure. -/
theorem notify_finds_nothing {fuel : Nat} {w : World} {k : SlabID} {cx : Ctx} {w' : World} {cx' : Ctx}
    (h1 : ∀ hi pa idx, AList.find? w.hinfo k = some hi → w.cont? hi.parent = some (.arr pa) →
      AList.find? (w.idxOf hi.parent) k = some idx → False)
    (h2 : ∀ hi pm key k' el, AList.find? w.hinfo k = some hi → w.cont? hi.parent = some (.map pm) →
      hi.key = some key → pm.get w.mcfg key = .ok (k', el) → el.pay = .ref k → False)
    (h : notifyParent fuel w k cx = .ok (w', cx')) :
    cx' = cx ∧ (w' = w ∨ w' = { w with hinfo := AList.erase w.hinfo k }) := by
  cases fuel with
  | zero => rw [notifyParent] at h; cases h
  | succ fuel =>
    rw [notifyParent] at h
    split at h
    · cases h; exact ⟨rfl, Or.inl rfl⟩
    · cases h
    · rename_i hi c hh hc
      split at h
      · cases h; exact ⟨rfl, Or.inl rfl⟩
      · simp only at h
        split at h
        · cases h; exact ⟨rfl, Or.inr rfl⟩
        · rename_i pa hpa
          split at h
          · cases h; exact ⟨rfl, Or.inr rfl⟩
          · rename_i idx hidx
            exact absurd (h1 hi pa idx hh hpa hidx) id
        · rename_i pm hpm
          split at h
          · cases h
          · rename_i key hk
            split at h
            · cases h; exact ⟨rfl, Or.inr rfl⟩
            · cases h
            · rename_i k' el hget
              split at h
              · cases h; exact ⟨rfl, Or.inr rfl⟩
              · rename_i hpay
                have hpay' : el.pay = .ref k := by
                  by_cases hq : el.pay = .ref k
                  · exact hq
                  · exact absurd hq hpay
                exact absurd (h2 hi pm key k' el hh hpm hk hget hpay') id

/-- the map configuration of the world fits every live map -/
theorem WorldOkPK.cfgOk {w : World} {ctr : Nat} {K : SlabID → Prop} (H : WorldOkPK D rank K w ctr)
    {p : SlabID} {pm : OMap 3} (hp : w.cont? p = some (.map pm)) : CfgOk w.mcfg w.T pm := by
  refine ⟨rfl, rfl, ?_⟩
  have h1 : pm.rootID = p := H.ids p _ hp
  have h2 := H.addr p _ hp
  show w.addr = pm.rootID.addr
  rw [h1, h2]

/-- In a valid world the closure of an unreferenced container finds nothing: no recorded index of
    an array parent, no value under the recorded key of a map parent, refers to it. -/
theorem WorldOkPK.root_closure_finds_nothing {w : World} {ctr : Nat} {K : SlabID → Prop}
    (H : WorldOkPK D rank K w ctr) {k : SlabID} (hroot : ∀ q, ¬ Holds w q k) :
    (∀ hi pa idx, AList.find? w.hinfo k = some hi → w.cont? hi.parent = some (.arr pa) →
      AList.find? (w.idxOf hi.parent) k = some idx → False) ∧
    (∀ hi pm key k' el, AList.find? w.hinfo k = some hi → w.cont? hi.parent = some (.map pm) →
      hi.key = some key → pm.get w.mcfg key = .ok (k', el) → el.pay = .ref k → False) := by
  constructor
  · intro hi pa idx _ hpa hidx
    exact hroot _ ⟨_, hpa, List.mem_of_getElem? (H.mutIdx _ pa hpa k idx hidx id)⟩
  · intro hi pm key k' el hh hpm hk hget hpay
    obtain ⟨hkok, _, _⟩ := (H.closure k hi hh).2 pm key hpm hk
    have hmok : MapOk w.T (D hi.parent) pm ctr := H.conts hi.parent _ hpm
    obtain ⟨_, hmem⟩ := hmok.get_ok H.legal (H.cfgOk hpm) hkok hget
    exact hroot _ ⟨_, hpm, mem_pays_iff.mpr ⟨el, List.mem_map.mpr ⟨_, hmem, rfl⟩, hpay⟩⟩

/-- `Array.Insert` of a plain value through the handle of a DETACHED ROOT `k` (standalone, or an
    in-memory slab that was inlined in a container it has been popped from): the element is
    inserted, and nothing else changes — no other container, closure or index table. -/
theorem root_arrInsert_plain {w : World} {K : SlabID → Prop} {k : SlabID} {i : Nat} {e : Elem} {cx : Ctx}
    {w'' : World} {cx'' : Ctx}
    (H : WorldOkPK D rank K w cx.ctr) (hk : DetachedRoot w k) (he : ElemOk w.T e)
    (h : w.arrInsert k i (.plain e) cx = .ok (w'', cx'')) :
    ∃ a a'', w.cont? k = some (.arr a) ∧ w''.cont? k = some (.arr a'') ∧ i ≤ a.toList.length ∧
      a''.toList = a.toList.insertIdx i e ∧ w''.T = w.T ∧ w''.addr = w.addr ∧ cx.ctr ≤ cx''.ctr ∧
      ∀ z, z ≠ k → w''.cont? z = w.cont? z ∧ AList.find? w''.hinfo z = AList.find? w.hinfo z ∧
        AList.find? w''.mutIdx z = AList.find? w.mutIdx z := by
  unfold arrInsert at h
  split at h
  · rename_i a hpa
    split at h
    · cases h
    · simp only [bind, Except.bind] at h
      split at h
      · cases h
      · rename_i r hst
        obtain ⟨e1, w1, cx1⟩ := r
        simp only at h
        split at h
        · cases h
        · rename_i a' cx2 hins
          split at h
          · cases h
          · rename_i r2 hnp
            obtain ⟨w3, cx3⟩ := r2
            simp only [pure, Except.pure] at h
            cases h
            simp only [World.storableOf] at hst
            cases hst
            have hpok : ArrOk w.T a cx.ctr := H.conts k _ hpa
            have F := thrFacts H.legal
            have hroom : a.isInlined = true → a.rootHdr.size + maxInlineArr w.T ≤ maxThr w.T := by
              intro hi
              have := H.band k _ hpa hi
              have h0 : a.rootHdr.size ≤ w.T := this
              rw [F.inlE, F.maxE]
              omega
            obtain ⟨hi, hl, _, _, _, _, hctr2, _⟩ := hpok.insert_ok H.legal (StorOk.of_elemOk he) hroom hins
            rw [toStorable_fit _ _ e cx he.2] at hl
            simp only at hl
            -- the notification finds nothing
            obtain ⟨r1, r2⟩ := H.root_closure_finds_nothing hk.2
            have hmi := H.mutIdx k a hpa
            obtain ⟨hcx3, hw3⟩ := notify_finds_nothing (k := k)
              (w := (w.setCont k (.arr a')).shiftIdx k (fun j => if j ≥ i then j + 1 else j))
              (fun hi0 pa idx hh hpa2 hidx => by
                by_cases hpk : hi0.parent = k
                · rw [hpk, find?_idxOf_shiftIdx, if_pos rfl] at hidx
                  cases h0 : AList.find? (w.idxOf k) k with
                  | none =>
                    have h0' : AList.find? ((w.setCont k (.arr a')).idxOf k) k = none := h0
                    rw [h0'] at hidx; cases hidx
                  | some j => exact hk.2 k ⟨_, hpa, List.mem_of_getElem? (hmi k j h0 id)⟩
                · rw [cont?_shiftIdx, cont?_setCont_ne _ _ _ _ hpk] at hpa2
                  rw [find?_idxOf_shiftIdx, if_neg (Ne.symm hpk)] at hidx
                  exact r1 hi0 pa idx hh hpa2 hidx)
              (fun hi0 pm key k' el hh hpm hkey hget hpay => by
                by_cases hpk : hi0.parent = k
                · rw [hpk, cont?_shiftIdx, cont?_setCont_self] at hpm; cases hpm
                · rw [cont?_shiftIdx, cont?_setCont_ne _ _ _ _ hpk] at hpm
                  exact r2 hi0 pm key k' el hh hpm hkey hget hpay)
              hnp
            have hc3 : w3.conts = (w.setCont k (.arr a')).conts := by rcases hw3 with rfl | rfl <;> rfl
            have hm3 : w3.mutIdx = ((w.setCont k (.arr a')).shiftIdx k (fun j => if j ≥ i then j + 1 else j)).mutIdx := by
              rcases hw3 with rfl | rfl <;> rfl
            have hT3 : w3.T = w.T := by rcases hw3 with rfl | rfl <;> rfl
            have ha3 : w3.addr = w.addr := by rcases hw3 with rfl | rfl <;> rfl
            have hh3 : ∀ z, z ≠ k → AList.find? w3.hinfo z = AList.find? w.hinfo z := by
              intro z hz
              rcases hw3 with rfl | rfl
              · rfl
              · show AList.find? (AList.erase _ k) z = _
                rw [AList.find?_erase, if_neg (Ne.symm hz)]; rfl
            have hcz : ∀ z, (w3.setCallbackArr k i (.plain e)).cont? z = (w.setCont k (.arr a')).cont? z := by
              intro z
              show AList.find? w3.conts z = _
              rw [hc3]; rfl
            refine ⟨a, a', hpa, by rw [hcz, cont?_setCont_self], hi, hl, hT3, ha3, by rw [hcx3]; exact hctr2,
              fun z hz => ⟨?_, hh3 z hz, ?_⟩⟩
            · rw [hcz, cont?_setCont_ne _ _ _ _ hz]
            · show AList.find? w3.mutIdx z = _
              rw [hm3]
              simp only [World.shiftIdx, World.setIdx, mutIdx_setCont, AList.find?_insert, if_neg (Ne.symm hz)]
  · cases h

/-- `OrderedMap.Set` of a plain value through the handle of a detached root `k`: no other
    container's content changes (C11 for a container that nobody refers to).  `hself`: the closure
    of `k` does not name `k` itself (closures are installed by the holder of the child). -/
theorem root_mapSet_plain_frame {w : World} {K : SlabID → Prop} {k : SlabID} {key : MKey} {e : Elem} {cx : Ctx}
    {old : Option Elem} {w'' : World} {cx'' : Ctx} {ctr : Nat}
    (H : WorldOkPK D rank K w ctr) (hk : DetachedRoot w k)
    (hself : ∀ hi, AList.find? w.hinfo k = some hi → hi.parent ≠ k)
    (h : w.mapSet k key (.plain e) cx = .ok (old, w'', cx'')) : SigFrame w w'' k := by
  unfold mapSet at h
  simp only [bind, Except.bind] at h
  split at h
  · cases h
  · rename_i r hraw
    obtain ⟨old1, w3, cx3⟩ := r
    -- the raw set: only `k` is written
    have hraw' : ∀ z, z ≠ k → w3.cont? z = w.cont? z := by
      rw [mapSetRaw] at hraw
      split at hraw
      · rename_i m hpm
        split at hraw
        · cases hraw
        · rename_i e1 w1 cx1 hst
          simp only [World.storableOf] at hst
          cases hst
          split at hraw
          · cases hraw
          · rename_i old2 m' cx2 hset
            simp only at hraw
            split at hraw
            · cases hraw
            · rename_i w4 cx4 hnp
              cases hraw
              obtain ⟨r1, r2⟩ := H.root_closure_finds_nothing hk.2
              obtain ⟨_, hw4⟩ := notify_finds_nothing (k := k) (w := w.setCont k (.map m'))
                (fun hi0 pa idx hh hpa2 hidx => by
                  have hpk := hself hi0 hh
                  rw [cont?_setCont_ne _ _ _ _ hpk] at hpa2
                  exact r1 hi0 pa idx hh hpa2 hidx)
                (fun hi0 pm key' k' el hh hpm2 hkey hget hpay => by
                  have hpk := hself hi0 hh
                  rw [cont?_setCont_ne _ _ _ _ hpk] at hpm2
                  exact r2 hi0 pm key' k' el hh hpm2 hkey hget hpay)
                hnp
              intro z hz
              rcases hw4 with rfl | rfl
              · simp [World.setCallbackMap, Ne.symm hz]
              · simp [World.setCallbackMap, World.cont?, World.setCont, AList.find?_insert, Ne.symm hz]
      · cases hraw
    have hS1 : SigFrame w w3 k := SigFrame.of_conts hraw'
    simp only at h
    cases old1 with
    | none =>
      simp only [pure, Except.pure] at h
      cases h
      exact hS1
    | some o =>
      simp only at h
      split at h
      · cases h
      · rename_i r2 hun
        obtain ⟨o', ov, w5, cx5⟩ := r2
        simp only [pure, Except.pure] at h
        cases h
        refine hS1.trans ?_
        obtain ⟨_, _, _, _, _, hcase⟩ := uninlineIfNeeded_ok hun
        rcases hcase with ⟨_, _, rfl, _, _⟩ | ⟨x, c, _, _, hxc, hform⟩
        · exact SigFrame.of_conts (fun _ _ => rfl)
        · rcases hform with ⟨_, _, rfl, _⟩ | ⟨_, c', hsd, _, rfl, _, _⟩
          · exact SigFrame.of_conts (fun _ _ => rfl)
          · intro z _
            by_cases hzx : z = x
            · subst hzx
              rw [cont?_setCont_self, hxc]
              simp only [Option.map_some, hsd.sig_eq]
            · rw [cont?_setCont_ne _ _ _ _ hzx]

end World
end Atree
