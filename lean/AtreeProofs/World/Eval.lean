import AtreeProofs.World.Basic
/-
  Kernel-evaluable copies of the World operations.  `notifyParent` / `arrSetRaw` / `mapSetRaw` are
  compiled by well-founded recursion, which `decide` cannot evaluate; `notifyS` is the same function
  by structural recursion on the fuel (the `set` bodies are shared through `…With`).  Each copy is
  proved EQUAL to the model function, so facts established by evaluation transfer to the model.
-/
namespace Atree
open Gen

deriving instance DecidableEq for HInfo
deriving instance DecidableEq for WErr

namespace World

/-- body of `arrSetRaw` with the notification abstracted -/
def arrSetRawWith (np : World → SlabID → Ctx → Except WErr (World × Ctx))
    (w : World) (p : SlabID) (i : Nat) (v : WVal) (cx : Ctx) : Except WErr (Elem × World × Ctx) :=
  match w.cont? p with
  | some (.arr a) =>
    if i ≥ a.count then .error (.arr .indexOutOfBounds)
    else
      match w.storableOf v (maxInlineArr w.T) cx with
      | .error e => .error e
      | .ok (e, w, cx) =>
        match a.set w.T i e cx with
        | .error er => .error (.arr er)
        | .ok (old, a', cx) =>
          let w := w.setCont p (.arr a')
          match np w p cx with
          | .error e => .error e
          | .ok (w, cx) => .ok (old, w.setCallbackArr p i v, cx)
  | _ => .error .unknownContainer

/-- body of `mapSetRaw` with the notification abstracted -/
def mapSetRawWith (np : World → SlabID → Ctx → Except WErr (World × Ctx))
    (w : World) (p : SlabID) (k : MKey) (v : WVal) (cx : Ctx) : Except WErr (Option Elem × World × Ctx) :=
  match w.cont? p with
  | some (.map m) =>
    match w.storableOf v (maxInlineMapValue w.T k.size) cx with
    | .error e => .error e
    | .ok (e, w, cx) =>
      match m.set w.mcfg k e cx with
      | .error er => .error (.map er)
      | .ok (old, m', cx) =>
        let w := w.setCont p (.map m')
        match np w p cx with
        | .error e => .error e
        | .ok (w, cx) => .ok (old, w.setCallbackMap p k v, cx)
  | _ => .error .unknownContainer

/-- `notifyParent` by structural recursion -/
def notifyS : Nat → World → SlabID → Ctx → Except WErr (World × Ctx)
  | 0, _, _, _ => .error .outOfFuel
  | fuel + 1, w, x, cx =>
    match AList.find? w.hinfo x, w.cont? x with
    | none, _ => .ok (w, cx)
    | some _, none => .error .unknownContainer
    | some hi, some c =>
      if !c.isInlined && !c.inlinable hi.maxInline then .ok (w, cx)
      else
        let notFound : World := { w with hinfo := AList.erase w.hinfo x }
        match w.cont? hi.parent with
        | none => .ok (notFound, cx)
        | some (.arr pa) =>
          match AList.find? (w.idxOf hi.parent) x with
          | none => .ok (notFound, cx)
          | some idx =>
            match pa.get idx with
            | .error e => .error (.arr e)
            | .ok el =>
              if el.pay ≠ .ref x then .ok (notFound, cx)
              else
                match arrSetRawWith (notifyS fuel) w hi.parent idx (.child x hi.wrap) cx with
                | .error e => .error e
                | .ok (old, w, cx) => if old.pay ≠ .ref x then .error .fatal else .ok (w, cx)
        | some (.map pm) =>
          match hi.key with
          | none => .error .fatal
          | some k =>
            match pm.get w.mcfg k with
            | .error .keyNotFound => .ok (notFound, cx)
            | .error e => .error (.map e)
            | .ok (_, el) =>
              if el.pay ≠ .ref x then .ok (notFound, cx)
              else
                match mapSetRawWith (notifyS fuel) w hi.parent k (.child x hi.wrap) cx with
                | .error e => .error e
                | .ok (old, w, cx) =>
                  match old with
                  | some o => if o.pay ≠ .ref x then .error .fatal else .ok (w, cx)
                  | none => .error .fatal

theorem arrSetRaw_eq_with (fuel : Nat) : arrSetRaw fuel = arrSetRawWith (notifyParent fuel) := by
  funext w p i v cx
  rw [arrSetRaw]; rfl

theorem mapSetRaw_eq_with (fuel : Nat) : mapSetRaw fuel = mapSetRawWith (notifyParent fuel) := by
  funext w p k v cx
  rw [mapSetRaw]; rfl

theorem notifyParent_eq_notifyS : ∀ fuel, notifyParent fuel = notifyS fuel := by
  intro fuel
  induction fuel with
  | zero => funext w x cx; rw [notifyParent]; rfl
  | succ fuel ih =>
    funext w x cx
    rw [notifyParent, arrSetRaw_eq_with, mapSetRaw_eq_with, ih]
    rfl

theorem arrSetRaw_eq_S (fuel : Nat) : arrSetRaw fuel = arrSetRawWith (notifyS fuel) := by
  rw [arrSetRaw_eq_with, notifyParent_eq_notifyS]

theorem mapSetRaw_eq_S (fuel : Nat) : mapSetRaw fuel = mapSetRawWith (notifyS fuel) := by
  rw [mapSetRaw_eq_with, notifyParent_eq_notifyS]

/-- `arrInsert` on the evaluable notification -/
def arrInsertS (w : World) (p : SlabID) (i : Nat) (v : WVal) (cx : Ctx) : Except WErr (World × Ctx) :=
  match w.cont? p with
  | some (.arr a) =>
    if i > a.count then .error (.arr .indexOutOfBounds)
    else do
      let (e, w, cx) ← w.storableOf v (maxInlineArr w.T) cx
      match a.insert w.T i e cx with
      | .error er => .error (.arr er)
      | .ok (a', cx) =>
        let w := w.setCont p (.arr a')
        let w := w.shiftIdx p (fun j => if j ≥ i then j + 1 else j)
        let (w, cx) ← notifyS w.fuelOf w p cx
        return (w.setCallbackArr p i v, cx)
  | _ => .error .unknownContainer

def arrSetS (w : World) (p : SlabID) (i : Nat) (v : WVal) (cx : Ctx) : Except WErr (Elem × World × Ctx) := do
  let (old, w, cx) ← arrSetRawWith (notifyS w.fuelOf) w p i v cx
  let (old', oldVid, w, cx) ← w.uninlineIfNeeded old cx
  let w := match oldVid with
    | none => w
    | some ov =>
      let same := match v with | .child nv _ => nv == ov | _ => false
      if same then w else w.setIdx p (AList.erase (w.idxOf p) ov)
  return (old', w, cx)

def arrRemoveS (w : World) (p : SlabID) (i : Nat) (cx : Ctx) : Except WErr (Elem × World × Ctx) :=
  match w.cont? p with
  | some (.arr a) =>
    match a.remove w.T i cx with
    | .error er => .error (.arr er)
    | .ok (old, a', cx) => do
      let w := w.setCont p (.arr a')
      let w := w.shiftIdx p (fun j => if j > i then j - 1 else j)
      let (w, cx) ← notifyS w.fuelOf w p cx
      let (old', oldVid, w, cx) ← w.uninlineIfNeeded old cx
      let w := match oldVid with
        | none => w
        | some ov => w.setIdx p (AList.erase (w.idxOf p) ov)
      return (old', w, cx)
  | _ => .error .unknownContainer

theorem arrInsert_eq_S : arrInsert = arrInsertS := by
  funext w p i v cx
  unfold arrInsert arrInsertS
  simp only [notifyParent_eq_notifyS]
  rfl

theorem arrSet_eq_S : arrSet = arrSetS := by
  funext w p i v cx
  unfold arrSet arrSetS
  simp only [arrSetRaw_eq_S]
  rfl

theorem arrRemove_eq_S : arrRemove = arrRemoveS := by
  funext w p i cx
  unfold arrRemove arrRemoveS
  simp only [notifyParent_eq_notifyS]
  rfl

end World
end Atree
