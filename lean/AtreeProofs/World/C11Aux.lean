import AtreeProofs.Props.C10WPopOps
/-
  Helper lemmas for `AtreeProofs/Props/C11Slot.lean` (C11: detached containers cannot corrupt a
  former parent).
-/
namespace Atree
open Gen

namespace World

/-- the un-inlining of the element handed back and the index bookkeeping at the end of `arrSet` -/
theorem arrSet_unfold {w : World} {p : SlabID} {i : Nat} {v : WVal} {cx : Ctx} {old : Elem} {w' : World} {cx' : Ctx}
    (h : w.arrSet p i v cx = .ok (old, w', cx')) :
    ∃ old1 w1 cx1 ov w2, arrSetRaw w.fuelOf w p i v cx = .ok (old1, w1, cx1) ∧
      w1.uninlineIfNeeded old1 cx1 = .ok (old, ov, w2, cx') ∧
      (ov = none → w' = w2) ∧
      (∀ o, ov = some o → (∀ wr, v ≠ .child o wr) → w' = w2.setIdx p (AList.erase (w2.idxOf p) o)) ∧
      (∀ o wr, ov = some o → v = .child o wr → w' = w2) := by
  unfold arrSet at h
  simp only [bind, Except.bind] at h
  split at h
  · cases h
  · rename_i r hraw
    obtain ⟨old1, w1, cx1⟩ := r
    simp only at h
    split at h
    · cases h
    · rename_i r2 hun
      obtain ⟨old2, ov, w2, cx2⟩ := r2
      simp only [pure, Except.pure] at h
      cases h
      refine ⟨old1, w1, cx1, ov, w2, hraw, hun, ?_, ?_, ?_⟩
      · rintro rfl; rfl
      · rintro o rfl hne
        cases v with
        | plain e => rfl
        | child nv wr =>
          have : (nv == o) = false := by
            rw [beq_eq_false_iff_ne]
            intro he; exact hne wr (by rw [he])
          simp only [this]; rfl
      · rintro o wr rfl rfl
        simp

/-- an element of a live array that refers to `x`: the array holds `x` -/
theorem holds_arr_of_mem {w : World} {p x : SlabID} {a : Arr} {e : Elem} (hp : w.cont? p = some (.arr a))
    (he : e ∈ a.toList) (hx : e.pay = .ref x) : Holds w p x :=
  ⟨_, hp, mem_pays_iff.mpr ⟨e, he, hx⟩⟩

/-- a value of a live map that refers to `x`: the map holds `x` -/
theorem holds_map_of_mem {w : World} {p x : SlabID} {m : OMap 3} {k : MKey} {e : Elem} (hp : w.cont? p = some (.map m))
    (he : (k, e) ∈ m.toList) (hx : e.pay = .ref x) : Holds w p x :=
  ⟨_, hp, mem_pays_iff.mpr ⟨e, List.mem_map.mpr ⟨_, he, rfl⟩, hx⟩⟩

/-- the container handed back by an operation is a detached root afterwards, standalone, with the
    same data and value ID -/
theorem HandedBack.detached {w w' : World} {old : Elem} {x : SlabID} {c : Cont} (hb : HandedBack w w' old)
    (hx : old.pay = .ref x) (hc : w.cont? x = some c) :
    DetachedRoot w' x ∧ ∃ c', w'.cont? x = some c' ∧ c'.isInlined = false ∧ c'.vid = c.vid ∧
      c'.storedElems = c.storedElems := by
  obtain ⟨c', h1, h2, h3, h4, h5⟩ := hb x c hx hc
  exact ⟨⟨by rw [h1]; rfl, h5⟩, c', h1, h2, h3, h4⟩

/-- in a list of pairwise different keys, the key at a position occurs nowhere else -/
theorem keysDistinct_zipper {A B : List (MKey × Elem)} {k : MKey} {v : Elem} (h : KeysDistinct (A ++ (k, v) :: B)) :
    ∀ p ∈ A ++ B, p.1 ≠ k := by
  unfold KeysDistinct at h
  rw [List.pairwise_append, List.pairwise_cons] at h
  obtain ⟨_, ⟨hB, _⟩, hAB⟩ := h
  intro p hp he
  rcases List.mem_append.mp hp with hA | hB'
  · have := hAB p hA (k, v) List.mem_cons_self
    rw [he] at this
    simp [MKey.same_self] at this
  · have := hB p hB'
    rw [he] at this
    simp [MKey.same_self] at this

variable {D : SlabID → DigestFn 4}

/-- reading a key that no pair of a live map carries: `KeyNotFound` -/
theorem get_absent_of_worldOk' {w : World} {ctr : Nat} (H : WorldOk' D w ctr) {p : SlabID} {pm : OMap 3}
    (hp : w.cont? p = some (.map pm)) {k : MKey} (hk : KeyOk w.T 4 (D p) k) (hno : ∀ q ∈ pm.toList, q.1 ≠ k) :
    pm.get w.mcfg k = .error .keyNotFound := by
  obtain ⟨rank, H0⟩ := H
  have hmok : MapOk w.T (D p) pm ctr := H0.conts p _ hp
  exact (hmok.get_spec H0.legal (H0.cfgOk hp) hk).2 hno

/-- reading a key of a live map: the pair of the list -/
theorem get_present_of_worldOk' {w : World} {ctr : Nat} (H : WorldOk' D w ctr) {p : SlabID} {pm : OMap 3}
    (hp : w.cont? p = some (.map pm)) {k : MKey} (hk : KeyOk w.T 4 (D p) k) {e : Elem} (hmem : (k, e) ∈ pm.toList) :
    pm.get w.mcfg k = .ok (k, e) := by
  obtain ⟨rank, H0⟩ := H
  have hmok : MapOk w.T (D p) pm ctr := H0.conts p _ hp
  exact (hmok.get_spec H0.legal (H0.cfgOk hp) hk).1 e hmem

/-- the keys of a live map are pairwise different -/
theorem keysDistinct_of_worldOk' {w : World} {ctr : Nat} (H : WorldOk' D w ctr) {p : SlabID} {pm : OMap 3}
    (hp : w.cont? p = some (.map pm)) : KeysDistinct pm.toList := by
  obtain ⟨rank, H0⟩ := H
  have hmok : MapOk w.T (D p) pm ctr := H0.conts p _ hp
  exact hmok.distinct

end World
end Atree
