import AtreeProofs.Props.C10WPopOps
/-
  Helper lemmas for `AtreeProofs/Props/C11Slot.lean` (C11: detached containers cannot corrupt a
  former parent).
-/
namespace Atree
open Gen

namespace World

/-- the un-inlining of the element handed back and the index bookkeeping at the end of `arrSet` -/
theorem arrSet_unfold {w : World} {p : SlabID} {i : Nat} {v : WVal} {cx : Ctx} {old : Elem} {w' : World} {cx' : Ctx}
    (h : w.arrSet p i v cx = .ok (old, w', cx')) :
    ∃ old1 w1 cx1 ov w2, arrSetRaw w.fuelOf w p i v cx = .ok (old1, w1, cx1) ∧
      w1.uninlineIfNeeded old1 cx1 = .ok (old, ov, w2, cx') ∧
      (ov = none → w' = w2) ∧
      (∀ o, ov = some o → (∀ wr, v ≠ .child o wr) → w' = w2.setIdx p (AList.erase (w2.idxOf p) o)) ∧
      (∀ o wr, ov = some o → v = .child o wr → w' = w2) := by
  unfold arrSet at h
  simp only [bind, Except.bind] at h
  split at h
  · cases h
  · rename_i r hraw
    obtain ⟨old1, w1, cx1⟩ := r
    simp only at h
    split at h
    · cases h
    · rename_i r2 hun
      obtain ⟨old2, ov, w2, cx2⟩ := r2
      simp only [pure, Except.pure] at h
      cases h
      refine ⟨old1, w1, cx1, ov, w2, hraw, hun, ?_, ?_, ?_⟩
      · rintro rfl; rfl
      · rintro o rfl hne
        cases v with
        | plain e => rfl
        | child nv wr =>
          have : (nv == o) = false := by
            rw [beq_eq_false_iff_ne]
            intro he; exact hne wr (by rw [he])
          simp only [this]; rfl
      · rintro o wr rfl rfl
        simp

/-- an element of a live array that refers to `x`: the array holds `x` -/
theorem holds_arr_of_mem {w : World} {p x : SlabID} {a : Arr} {e : Elem} (hp : w.cont? p = some (.arr a))
    (he : e ∈ a.toList) (hx : e.pay = .ref x) : Holds w p x :=
  ⟨_, hp, mem_pays_iff.mpr ⟨e, he, hx⟩⟩

/-- a value of a live map that refers to `x`: the map holds `x` -/
theorem holds_map_of_mem {w : World} {p x : SlabID} {m : OMap 3} {k : MKey} {e : Elem} (hp : w.cont? p = some (.map m))
    (he : (k, e) ∈ m.toList) (hx : e.pay = .ref x) : Holds w p x :=
  ⟨_, hp, mem_pays_iff.mpr ⟨e, List.mem_map.mpr ⟨_, he, rfl⟩, hx⟩⟩

/-- the container handed back by an operation is a detached root afterwards, standalone, with the
    same data and value ID -/
theorem HandedBack.detached {w w' : World} {old : Elem} {x : SlabID} {c : Cont} (hb : HandedBack w w' old)
    (hx : old.pay = .ref x) (hc : w.cont? x = some c) :
    DetachedRoot w' x ∧ ∃ c', w'.cont? x = some c' ∧ c'.isInlined = false ∧ c'.vid = c.vid ∧
      c'.storedElems = c.storedElems := by
  obtain ⟨c', h1, h2, h3, h4, h5⟩ := hb x c hx hc
  exact ⟨⟨by rw [h1]; rfl, h5⟩, c', h1, h2, h3, h4⟩

/-- in a list of pairwise different keys, the key at a position occurs nowhere else -/
theorem keysDistinct_zipper {A B : List (MKey × Elem)} {k : MKey} {v : Elem} (h : KeysDistinct (A ++ (k, v) :: B)) :
    ∀ p ∈ A ++ B, p.1 ≠ k := by
  unfold KeysDistinct at h
  rw [List.pairwise_append, List.pairwise_cons] at h
  obtain ⟨_, ⟨hB, _⟩, hAB⟩ := h
  intro p hp he
  rcases List.mem_append.mp hp with hA | hB'
  · have := hAB p hA (k, v) List.mem_cons_self
    rw [he] at this
    simp [MKey.same_self] at this
  · have := hB p hB'
    rw [he] at this
    simp [MKey.same_self] at this

variable {D : SlabID → DigestFn 4}

/-- reading a key that no pair of a live map carries: `KeyNotFound` -/
theorem get_absent_of_worldOk' {w : World} {ctr : Nat} (H : WorldOk' D w ctr) {p : SlabID} {pm : OMap 3}
    (hp : w.cont? p = some (.map pm)) {k : MKey} (hk : KeyOk w.T 4 (D p) k) (hno : ∀ q ∈ pm.toList, q.1 ≠ k) :
    pm.get w.mcfg k = .error .keyNotFound := by
  obtain ⟨rank, H0⟩ := H
  have hmok : MapOk w.T (D p) pm ctr := H0.conts p _ hp
  exact (hmok.get_spec H0.legal (H0.cfgOk hp) hk).2 hno

/-- reading a key of a live map: the pair of the list -/
theorem get_present_of_worldOk' {w : World} {ctr : Nat} (H : WorldOk' D w ctr) {p : SlabID} {pm : OMap 3}
    (hp : w.cont? p = some (.map pm)) {k : MKey} (hk : KeyOk w.T 4 (D p) k) {e : Elem} (hmem : (k, e) ∈ pm.toList) :
    pm.get w.mcfg k = .ok (k, e) := by
  obtain ⟨rank, H0⟩ := H
  have hmok : MapOk w.T (D p) pm ctr := H0.conts p _ hp
  exact (hmok.get_spec H0.legal (H0.cfgOk hp) hk).1 e hmem

/-- the keys of a live map are pairwise different -/
theorem keysDistinct_of_worldOk' {w : World} {ctr : Nat} (H : WorldOk' D w ctr) {p : SlabID} {pm : OMap 3}
    (hp : w.cont? p = some (.map pm)) : KeysDistinct pm.toList := by
  obtain ⟨rank, H0⟩ := H
  have hmok : MapOk w.T (D p) pm ctr := H0.conts p _ hp
  exact hmok.distinct

/-! ### `DetachedRoot` across an operation on a container `p` -/

/-- a reference held after the operation by a container other than `p` was there before -/
theorem SigFrame.holds_rev {w w' : World} {p : SlabID} (h : SigFrame w w' p) {q x : SlabID} (hq : q ≠ p)
    (hh : Holds w' q x) : Holds w q x := by
  obtain ⟨qc', hqc', hm⟩ := hh
  have := h q hq
  rw [hqc'] at this
  cases hc : w.cont? q with
  | none => rw [hc] at this; cases this
  | some c =>
    rw [hc] at this
    simp only [Option.map_some, Option.some.injEq] at this
    exact ⟨c, hc, by rw [← Cont.sig_pays this]; exact hm⟩

/-- a container other than `p` stays live -/
theorem SigFrame.live {w w' : World} {p : SlabID} (h : SigFrame w w' p) {z : SlabID} (hz : z ≠ p)
    (hl : (w.cont? z).isSome) : (w'.cont? z).isSome := by
  have := h z hz
  cases hc : w.cont? z with
  | none => rw [hc] at hl; cases hl
  | some c =>
    rw [hc] at this
    cases hc' : w'.cont? z with
    | none => rw [hc'] at this; cases this
    | some c' => rfl

/-- `x` stays a detached root across an operation that keeps the signature of every container but
    `p`, keeps `p` live and leaves no reference to `x` in `p` -/
theorem DetachedRoot.of_frame {w w' : World} {p x : SlabID} (hx : DetachedRoot w x) (hS : SigFrame w w' p)
    (hlive : (w'.cont? p).isSome) (hp : ∀ c', w'.cont? p = some c' → Pay.ref x ∉ c'.pays) :
    DetachedRoot w' x := by
  refine ⟨?_, fun q hq => ?_⟩
  · by_cases hxp : x = p
    · rw [hxp]; exact hlive
    · exact hS.live hxp hx.1
  · by_cases hqp : q = p
    · obtain ⟨c', hc', hm⟩ := hq
      rw [hqp] at hc'
      exact hp c' hc' hm
    · exact hx.2 q (hS.holds_rev hqp hq)

/-- the element stored for the value `v` (the plain value itself, or a reference to the child
    container handed in) does not refer to `x`, unless `v` is `x` -/
theorem WValOk.new_elem_not_ref {w : World} {p : SlabID} {lim : Nat} {v : WVal} {x : SlabID} {e : Elem}
    (hv : WValOk w p lim v) (hvx : ∀ wr, v ≠ .child x wr)
    (h1 : ∀ e0, v = .plain e0 → e = e0) (h2 : ∀ y wr, v = .child y wr → e.pay = .ref y) :
    e.pay ≠ .ref x := by
  cases v with
  | plain e0 =>
    obtain ⟨n, hn⟩ := hv.1.2
    rw [h1 e0 rfl, hn]
    intro h; cases h
  | child y wr =>
    rw [h2 y wr rfl]
    intro h; cases h
    exact hvx wr rfl

/-! ### `SetType` changes no signature -/

/-- `SetType` through a current handle changes no container's signature (kind, keys, payloads):
    the proof of `setType_ok` (World/OpsMisc.lean), keeping the signature frame of the notification. -/
theorem setType_sig {w : World} {p : SlabID} {ty : Nat} {cx : Ctx} {w' : World} {cx' : Ctx}
    (H : WorldOk D w cx.ctr) (hhand : HandleOk w p) (h : w.setType p ty cx = .ok (w', cx')) :
    ContsSig w w' := by
  obtain ⟨rank0, H0⟩ := H
  unfold setType at h
  split at h
  · rename_i a hpa
    have hpok : ArrOk w.T a cx.ctr := H0.conts p _ hpa
    have hsd : Cont.SameData (.arr a) (.arr { a with ty := ty }) := ⟨rfl, rfl, fun _ => rfl⟩
    have hctr : (a.setType ty cx).2.ctr = cx.ctr := by
      simp only [Arr.setType]; split <;> rfl
    have H1 : WorldOkGen D rank0 none (fun _ => False) (w.setCont p (.arr (a.setType ty cx).1)) cx.ctr :=
      step_sameform (c1 := .arr { a with ty := ty }) H0 hpa hsd (arrOk_setType hpok)
        (by obtain ⟨d, t, ty0⟩ := a; cases d <;> rfl) rfl
        (fun lim => by obtain ⟨d, t, ty0⟩ := a; cases d <;> rfl)
        rfl rfl rfl rfl (cont?_setCont_self _ _ _) (fun z hz => cont?_setCont_ne _ _ _ _ hz)
    have hS : ContsSig w (w.setCont p (.arr (a.setType ty cx).1)) := by
      refine ⟨rfl, fun q => ?_⟩
      by_cases hq : p = q
      · subst hq; rw [cont?_setCont_self, hpa]; rfl
      · rw [cont?_setCont, if_neg hq]
    have hhand1 : HandleOk (w.setCont p (.arr (a.setType ty cx).1)) p :=
      hhand.transfer (fun q y => (hS.holds_iff q y).mp) (CurKept.of_sig hS (fun _ _ => rfl) (fun _ _ hy _ => hy))
    simp only at h
    split at h
    · obtain ⟨_, F3, _⟩ := notify_ok D rank0 (fun _ => False) _ _ _ _ _ _
        (by rw [hctr]; exact H1.restale p) hhand1 (fun z hz _ => absurd hz id) h
      exact hS.trans F3.sig
    · cases h; exact hS
  · rename_i m hpm
    have hmok : MapOk w.T (D p) m cx.ctr := H0.conts p _ hpm
    have hsd : Cont.SameData (.map m) (.map { m with ty := ty }) := ⟨rfl, rfl, fun _ _ => rfl⟩
    have hctr : (m.setType ty cx).2.ctr = cx.ctr := by
      simp only [OMap.setType]; split <;> rfl
    have H1 : WorldOkGen D rank0 none (fun _ => False) (w.setCont p (.map (m.setType ty cx).1)) cx.ctr :=
      step_sameform (c1 := .map { m with ty := ty }) H0 hpm hsd (mapOk_setType hmok)
        (by obtain ⟨d, t, ty0, cnt, seed⟩ := m; cases d <;> rfl) rfl
        (fun lim => by obtain ⟨d, t, ty0, cnt, seed⟩ := m; cases d <;> rfl)
        rfl rfl rfl rfl (cont?_setCont_self _ _ _) (fun z hz => cont?_setCont_ne _ _ _ _ hz)
    have hS : ContsSig w (w.setCont p (.map (m.setType ty cx).1)) := by
      refine ⟨rfl, fun q => ?_⟩
      by_cases hq : p = q
      · subst hq; rw [cont?_setCont_self, hpm]; rfl
      · rw [cont?_setCont, if_neg hq]
    have hhand1 : HandleOk (w.setCont p (.map (m.setType ty cx).1)) p :=
      hhand.transfer (fun q y => (hS.holds_iff q y).mp) (CurKept.of_sig hS (fun _ _ => rfl) (fun _ _ hy _ => hy))
    simp only at h
    split at h
    · obtain ⟨_, F3, _⟩ := notify_ok D rank0 (fun _ => False) _ _ _ _ _ _
        (by rw [hctr]; exact H1.restale p) hhand1 (fun z hz _ => absurd hz id) h
      exact hS.trans F3.sig
    · cases h; exact hS
  · cases h

/-- the same for the invariant across disposals -/
theorem setType_sig' {w : World} {p : SlabID} {ty : Nat} {cx : Ctx} {w' : World} {cx' : Ctx}
    (H : WorldOk' D w cx.ctr) (hhand : HandleOk w p) (h : w.setType p ty cx = .ok (w', cx')) :
    ∀ q, (w'.cont? q).map Cont.sig = (w.cont? q).map Cont.sig := by
  obtain ⟨H0, S⟩ := H.down
  obtain ⟨w0', h0, S'⟩ := sim_setType S h
  have := setType_sig H0 (S.handleOk_down hhand) h0
  intro q
  rw [← S'.cont?, ← S.cont?]
  exact this.sig q

end World
end Atree
