import AtreeProofs.World.TotalNotify
import AtreeProofs.World.OpsMap
import AtreeProofs.World.OpsMisc
/-
  TOTAL correctness, part 3 (audit item S3): the public mutators SUCCEED through a current handle,
  under `WorldOk` (+ `KeyedClosures`, see `TotalNotify.lean`).  Array operations and `setType`
  here, map operations in `TotalOpsMap.lean`.

  Shape of every proof: the local steps succeed (`storableOf_total`, `ArrOk.*_total`), the world at
  the notification satisfies the hypotheses of `notify_total` (the construction is the one of the
  partial-correctness theorem `*_ok`), the caller-side steps after the notification
  (`uninlineIfNeeded_total`, the clean-up of the index table) cannot fail.
  The `*_run` lemmas compute an operation from the results of its steps; they are also used by the
  reverse simulation (`TotalSim.lean`).
-/
namespace Atree
open Gen

namespace World

variable {D : SlabID → DigestFn 4}

/-! ### closures and kinds across an update -/

/-- `KeyedClosures` survives an update that changes the kind of no container and installs only
    closures of the right kind -/
theorem KeyedClosures.transfer {w w' : World} (h : KeyedClosures w)
    (hkind : ∀ z m', w'.cont? z = some (.map m') → ∃ m, w.cont? z = some (.map m))
    (hh : ∀ x hi, AList.find? w'.hinfo x = some hi →
      AList.find? w.hinfo x = some hi ∨ hi.key.isSome = true ∨ ∃ a, w'.cont? hi.parent = some (.arr a)) :
    KeyedClosures w' := by
  intro x hi pm hx hp
  rcases hh x hi hx with h1 | h1 | ⟨a, h1⟩
  · obtain ⟨m, hm⟩ := hkind _ _ hp
    exact h x hi m h1 hm
  · exact h1
  · rw [hp] at h1; cases h1

/-- same signatures: same kinds -/
theorem ContsSig.map_back {w w' : World} (hS : ContsSig w w') {z : SlabID} {m' : OMap 3}
    (h : w'.cont? z = some (.map m')) : ∃ m, w.cont? z = some (.map m) := by
  obtain ⟨c, hc, hs⟩ := hS.symm.get h
  cases c with
  | arr a => simp [Cont.sig] at hs
  | map m => exact ⟨m, hc⟩

/-- the world at the notification of an operation on `p`: `p` has been replaced by a container of
    the same kind, the closures are those of `w` -/
theorem KeyedClosures.mutate {w w1 w2 : World} (h : KeyedClosures w) (hS1 : ContsSig w w1) (hh1 : w1.hinfo = w.hinfo)
    {p : SlabID} {pc pc' : Cont} (hp : w.cont? p = some pc) (hkind : pc'.isArr = pc.isArr)
    (hcp : w2.cont? p = some pc') (hco : ∀ z, z ≠ p → w2.cont? z = w1.cont? z) (hh2 : w2.hinfo = w1.hinfo) :
    KeyedClosures w2 := by
  refine h.transfer (fun z m' hz => ?_) (fun x hi hx => Or.inl (by rw [← hh1, ← hh2]; exact hx))
  by_cases hzp : z = p
  · subst hzp
    rw [hcp] at hz; cases hz
    cases pc with
    | arr a => cases hkind
    | map m => exact ⟨m, hp⟩
  · rw [hco z hzp] at hz
    exact hS1.map_back hz

/-! ### steps that cannot fail -/

/-- `Value.Storable()` of a well-formed value never fails -/
theorem storableOf_total {w : World} {p : SlabID} {lim : Nat} {v : WVal} (hv : WValOk w p lim v) (cx : Ctx) :
    ∃ e w1 cx1, w.storableOf v lim cx = .ok (e, w1, cx1) := by
  cases v with
  | plain e => exact ⟨_, _, _, rfl⟩
  | child x wr =>
    obtain ⟨c, hc⟩ := Option.isSome_iff_exists.mp hv.1
    exact childStorable_total hc wr lim cx

/-- `uninlineStorableIfNeeded` never fails (an inlined container has the one-slab form `Uninline`
    expects) -/
theorem uninlineIfNeeded_total (w : World) (e : Elem) (cx : Ctx) :
    ∃ e' ov w' cx', w.uninlineIfNeeded e cx = .ok (e', ov, w', cx') := by
  unfold uninlineIfNeeded
  cases hp : e.pay with
  | val n => exact ⟨_, _, _, _, rfl⟩
  | ref vid =>
    simp only
    cases hc : w.cont? vid with
    | none => exact ⟨_, _, _, _, rfl⟩
    | some c =>
      simp only
      cases hi : c.isInlined with
      | false => exact ⟨_, _, _, _, rfl⟩
      | true =>
        obtain ⟨c', cx', hun⟩ := Cont.uninline_total hi vid cx
        simp only [hun, if_true]
        exact ⟨_, _, _, _, rfl⟩

/-- the notification with the fuel of the public operations -/
theorem notify_fuelOf_total {rank : SlabID → Nat} {O : SlabID → Prop} {w : World} {y : SlabID} {cx : Ctx}
    (H : WorldOkGen D rank (some y) O w cx.ctr) (hhand : HandleOk w y)
    (hO : ∀ z, O z → (w.cont? z).isSome → rank y < rank z) (hlive : (w.cont? y).isSome)
    (hK : KeyedClosures w) : ∃ w' cx', notifyParent w.fuelOf w y cx = .ok (w', cx') :=
  notify_total D rank O _ w y cx H hhand hO hlive hK (fuelOk_fuelOf rank w y)

/-! ### the operations computed from their steps -/

theorem arrInsert_run {w : World} {p : SlabID} {a : Arr} {i : Nat} {v : WVal} {cx : Ctx}
    {e : Elem} {w1 : World} {cx1 : Ctx} {a' : Arr} {cx2 : Ctx} {w3 : World} {cx3 : Ctx}
    (hpa : w.cont? p = some (.arr a)) (hi : i ≤ a.count)
    (hst : w.storableOf v (maxInlineArr w.T) cx = .ok (e, w1, cx1))
    (hins : a.insert w1.T i e cx1 = .ok (a', cx2))
    (hnp : notifyParent ((w1.setCont p (.arr a')).shiftIdx p (fun j => if j ≥ i then j + 1 else j)).fuelOf
      ((w1.setCont p (.arr a')).shiftIdx p (fun j => if j ≥ i then j + 1 else j)) p cx2 = .ok (w3, cx3)) :
    w.arrInsert p i v cx = .ok (w3.setCallbackArr p i v, cx3) := by
  unfold arrInsert
  simp only [hpa, if_neg (Nat.not_lt.mpr hi), bind, Except.bind, hst, hins, hnp]
  rfl

theorem arrSet_run {w : World} {p : SlabID} {i : Nat} {v : WVal} {cx : Ctx}
    {old : Elem} {w3 : World} {cx3 : Ctx} {old' : Elem} {ov : Option SlabID} {w4 : World} {cx4 : Ctx}
    (hraw : arrSetRaw w.fuelOf w p i v cx = .ok (old, w3, cx3))
    (hun : w3.uninlineIfNeeded old cx3 = .ok (old', ov, w4, cx4)) :
    ∃ w5, w.arrSet p i v cx = .ok (old', w5, cx4) := by
  unfold arrSet
  simp only [bind, Except.bind, hraw, hun, pure, Except.pure]
  exact ⟨_, rfl⟩

theorem arrRemove_run {w : World} {p : SlabID} {a : Arr} {i : Nat} {cx : Ctx}
    {old : Elem} {a' : Arr} {cx1 : Ctx} {w3 : World} {cx3 : Ctx}
    {old' : Elem} {ov : Option SlabID} {w4 : World} {cx4 : Ctx}
    (hpa : w.cont? p = some (.arr a)) (hrem : a.remove w.T i cx = .ok (old, a', cx1))
    (hnp : notifyParent ((w.setCont p (.arr a')).shiftIdx p (fun j => if j > i then j - 1 else j)).fuelOf
      ((w.setCont p (.arr a')).shiftIdx p (fun j => if j > i then j - 1 else j)) p cx1 = .ok (w3, cx3))
    (hun : w3.uninlineIfNeeded old cx3 = .ok (old', ov, w4, cx4)) :
    ∃ w5, w.arrRemove p i cx = .ok (old', w5, cx4) := by
  unfold arrRemove
  simp only [hpa, hrem, bind, Except.bind, hnp, hun, pure, Except.pure]
  exact ⟨_, rfl⟩

/-! ### `arrInsert` -/

/-- `Array.Insert` through a current handle succeeds: index in range, array not full -/
theorem arrInsert_succeeds {w : World} {p : SlabID} {i : Nat} {v : WVal} {cx : Ctx} {a : Arr}
    (H : WorldOk D w cx.ctr) (hK : KeyedClosures w) (hhand : HandleOk w p)
    (hv : WValOk w p (maxInlineArr w.T) v) (hpa : w.cont? p = some (.arr a))
    (hi : i ≤ a.toList.length) (hcount : a.count < maxArrayElementCount) :
    ∃ w' cx', w.arrInsert p i v cx = .ok (w', cx') := by
  obtain ⟨rank0, H0⟩ := H
  have hpok0 : ArrOk w.T a cx.ctr := H0.conts p _ hpa
  obtain ⟨e, w1, cx1, hst⟩ := storableOf_total hv cx
  obtain ⟨rank', O1, H1, hr', hS1, hT1, ha1, hh1, hm1, hctr1, he1, he2, hco1, hO1p, hO1, hO1e, hplain⟩ :=
    prep_value H0 (Nat.le_refl _) hv hst
  have hpa1 : w1.cont? p = some (.arr a) := by rw [hco1 p hO1p]; exact hpa
  have hpok : ArrOk w.T a cx1.ctr := by rw [hctr1]; exact hpok0
  have hroom := H1.arr_room hpa1 (by intro h; cases h) hO1p
  rw [hT1] at hroom
  have hso : StorOk w.T e := StorOk.of_elemOk ⟨he1, he2⟩
  obtain ⟨a', cx2, hins⟩ := hpok.insert_total H0.legal hso hroom hcount hi
  obtain ⟨_, hl, hok', hinl', hrid, hty, hctr2, hsz⟩ := hpok.insert_ok H0.legal hso hroom hins
  rw [toStorable_fit _ _ e cx1 he2] at hl hsz
  simp only at hl hsz
  have hb2 := two_inline_le w.T H0.legal
  have hbp : (Cont.arr a').isInlined = true → (Cont.arr a').rootSize ≤ w1.T := by
    intro hi2
    have hi2' : a.isInlined = true := by rw [← hinl']; exact hi2
    have hroom' : a.rootHdr.size ≤ maxInlineArr w1.T := H1.inl_budget hpa1 hi2' (by intro h; cases h) hO1p
    have := hsz hi2'
    rw [hT1] at hroom' ⊢
    show a'.rootHdr.size ≤ w.T
    omega
  have hnew : ∀ x c, e.pay = .ref x → w1.cont? x = some c →
      (∀ q, ¬ Holds w1 q x) ∧ O1 x ∧ rank' p < rank' x ∧
      ∃ wrap, slabIDStorableSize + 2 * wrap ≤ maxInlineArr w1.T ∧ e.size = slotSize c wrap ∧
        c.isInlined = c.inlinable (maxInlineArr w1.T - 2 * wrap) := by
    intro x c hx hc
    obtain ⟨g1, g2, _, c0, c1, wr, _, _, g6, _, g8, g9, g10⟩ := hO1 x (hO1e x hx)
    rw [hc] at g6; cases g6
    refine ⟨fun q hq => g1 q ((hS1.holds_iff q x).mp hq), hO1e x hx, g2, wr, ?_, ?_, ?_⟩
    · rw [hT1]; exact g9
    · rw [g8]
    · rw [hT1]; exact g10
  have hnewb : ∀ r, e.pay = .ref r → r.idx ≤ cx2.ctr := by
    intro r hr
    obtain ⟨_, _, _, c0, _, _, g5, _⟩ := hO1 r (hO1e r hr)
    have := (H0.conts r c0 g5).vid_le
    rw [H0.ids r c0 g5] at this
    have := hctr1; omega
  have H2 : WorldOkGen D rank' (some p) O1
      ((w1.setCont p (.arr a')).shiftIdx p (fun j => if j ≥ i then j + 1 else j)) cx2.ctr := by
    refine step_insert (pc' := .arr a') (tn := (none, maxInlineArr w1.T, e)) H1 hpa1 (fun _ h => h)
      (by rw [hT1]; exact hok') rfl hinl' hrid hbp (by rw [← hctr1]; exact hctr2)
      (kslots_arr_insertIdx w1.T hl) (by rw [kslots_arr_length]; exact hi) hnew hnewb rfl rfl rfl
      (find?_idxOf_shiftIdx _ _ _) (by simp) (fun z hz => by simp [Ne.symm hz])
  have hidx1 : ∀ q z, AList.find? (w1.idxOf q) z = AList.find? (w.idxOf q) z := by
    intro q z; simp [World.idxOf, hm1]
  have hhand1 : HandleOk w1 p :=
    hhand.transfer (fun q y => (hS1.holds_iff q y).mp)
      (CurKept.of_sig hS1 hidx1 (fun y hiy hy _ => by rw [hh1]; exact hy))
  have hhand2 : HandleOk ((w1.setCont p (.arr a')).shiftIdx p (fun j => if j ≥ i then j + 1 else j)) p :=
    handleOk_mutate (pc' := .arr a') H1.rank H2.rank hpa1 (by simp) (fun z hz => by simp [Ne.symm hz]) rfl rfl
      (fun q y hq => by rw [find?_idxOf_shiftIdx, if_neg (Ne.symm hq)]; rfl) hhand1
  have hK2 : KeyedClosures ((w1.setCont p (.arr a')).shiftIdx p (fun j => if j ≥ i then j + 1 else j)) :=
    hK.mutate hS1 hh1 hpa (pc' := .arr a') rfl (by simp) (fun z hz => by simp [Ne.symm hz]) rfl
  obtain ⟨w3, cx3, hnp⟩ := notify_fuelOf_total H2 hhand2 (fun z hz _ => (hO1 z hz).2.1) (by simp) hK2
  rw [← hT1] at hins
  exact ⟨_, _, arrInsert_run hpa (by rw [hpok0.count_eq]; exact hi) hst hins hnp⟩

/-! ### `arrSet` -/

/-- `Array.Set` through a current handle succeeds on an index in range, and hands back the old
    element (its payload) -/
theorem arrSet_succeeds {w : World} {p : SlabID} {i : Nat} {v : WVal} {cx : Ctx} {a : Arr}
    (H : WorldOk D w cx.ctr) (hK : KeyedClosures w) (hhand : HandleOk w p)
    (hv : WValOk w p (maxInlineArr w.T) v) (hpa : w.cont? p = some (.arr a))
    (hi : i < a.toList.length) :
    ∃ old' w' cx', w.arrSet p i v cx = .ok (old', w', cx') := by
  obtain ⟨rank0, H0⟩ := H
  have hpok0 : ArrOk w.T a cx.ctr := H0.conts p _ hpa
  obtain ⟨e, w1, cx1, hst⟩ := storableOf_total hv cx
  obtain ⟨rank', O1, H1, hr', hS1, hT1, ha1, hh1, hm1, hctr1, he1, he2, hco1, hO1p, hO1, hO1e, hplain⟩ :=
    prep_value H0 (Nat.le_refl _) hv hst
  have hpa1 : w1.cont? p = some (.arr a) := by rw [hco1 p hO1p]; exact hpa
  have hpok : ArrOk w.T a cx1.ctr := by rw [hctr1]; exact hpok0
  have hroom := H1.arr_room hpa1 (by intro h; cases h) hO1p
  rw [hT1] at hroom
  have hso : StorOk w.T e := StorOk.of_elemOk ⟨he1, he2⟩
  obtain ⟨a', cx2, hs⟩ := hpok.set_total H0.legal hso hroom hi
  generalize hold0 : a.toList.getD i default = old at hs
  obtain ⟨hold, hl, hok', hinl', hrid, _, hctr2, hsz⟩ := hpok.set_ok H0.legal hso hroom hs
  rw [toStorable_fit _ _ e cx1 he2] at hl hsz
  simp only at hl hsz
  have hks : ((Cont.arr a).kslots w.T)[i]? = some (none, maxInlineArr w.T, old) := by
    rw [Cont.kslots_arr]; exact ⟨old, hold, rfl⟩
  have hb2 := two_inline_le w.T H0.legal
  have hbp : (Cont.arr a').isInlined = true → (Cont.arr a').rootSize ≤ w1.T := by
    intro hi2
    have hi2' : a.isInlined = true := by rw [← hinl']; exact hi2
    have hroom' : a.rootHdr.size ≤ maxInlineArr w1.T := H1.inl_budget hpa1 hi2' (by intro h; cases h) hO1p
    have := hsz hi2'
    rw [hT1] at hroom' ⊢
    show a'.rootHdr.size ≤ w.T
    omega
  have hnew : ∀ x c, e.pay = .ref x → w1.cont? x = some c →
      (∀ q, ¬ Holds w1 q x) ∧ (O1 x ∨ old.pay = .ref x) ∧ rank' p < rank' x ∧
      ∃ wrap, slabIDStorableSize + 2 * wrap ≤ maxInlineArr w1.T ∧ e.size = slotSize c wrap ∧
        c.isInlined = c.inlinable (maxInlineArr w1.T - 2 * wrap) := by
    intro x c hx hc
    obtain ⟨g1, g2, _, c0, c1, wr, _, _, g6, _, g8, g9, g10⟩ := hO1 x (hO1e x hx)
    rw [hc] at g6; cases g6
    refine ⟨fun q hq => g1 q ((hS1.holds_iff q x).mp hq), Or.inl (hO1e x hx), g2, wr, ?_, ?_, ?_⟩
    · rw [hT1]; exact g9
    · rw [g8]
    · rw [hT1]; exact g10
  have hnewb : ∀ r, e.pay = .ref r → r.idx ≤ cx2.ctr := by
    intro r hr
    obtain ⟨_, _, _, c0, _, _, g5, _⟩ := hO1 r (hO1e r hr)
    have := (H0.conts r c0 g5).vid_le
    rw [H0.ids r c0 g5] at this
    have := hctr1; omega
  have H2 : WorldOkGen D rank' (some p) (fun z => O1 z ∨ old.pay = .ref z) (w1.setCont p (.arr a')) cx2.ctr := by
    refine step_set (pc' := .arr a') (tn := (none, maxInlineArr w1.T, e)) H1 hpa1 (fun _ h => Or.inl h)
      (by rw [hT1]; exact hok') rfl hinl' hrid hbp (by rw [← hctr1]; exact hctr2)
      (kslots_arr_set w1.T hl) (by rw [hT1]; exact hks) (fun z hz => Or.inr hz) hnew hnewb rfl rfl rfl
      (fun q z => rfl) (by simp) (fun z hz => by simp [Ne.symm hz])
  have hidx1 : ∀ q z, AList.find? (w1.idxOf q) z = AList.find? (w.idxOf q) z := by
    intro q z; simp [World.idxOf, hm1]
  have hhand1 : HandleOk w1 p :=
    hhand.transfer (fun q y => (hS1.holds_iff q y).mp)
      (CurKept.of_sig hS1 hidx1 (fun y hiy hy _ => by rw [hh1]; exact hy))
  have hhand2 : HandleOk (w1.setCont p (.arr a')) p :=
    handleOk_mutate (pc' := .arr a') H1.rank H2.rank hpa1 (by simp) (fun z hz => by simp [Ne.symm hz])
      rfl rfl (fun q y hq => rfl) hhand1
  have hsome2 : ∀ z, ((w1.setCont p (.arr a')).cont? z).isSome = (w.cont? z).isSome := by
    intro z
    rw [cont?_setCont, ← hS1.isSome]
    split
    · rename_i hpz; subst hpz; rw [hpa1]; rfl
    · rfl
  have hK2 : KeyedClosures (w1.setCont p (.arr a')) :=
    hK.mutate hS1 hh1 hpa (pc' := .arr a') rfl (by simp) (fun z hz => by simp [Ne.symm hz]) rfl
  obtain ⟨w3, cx3, hnp⟩ := notify_total D rank' (fun z => O1 z ∨ old.pay = .ref z) w.fuelOf _ _ _ H2 hhand2
    (fun z hz hzs => by
      rw [hsome2] at hzs
      rcases hz with h | h
      · exact (hO1 z h).2.1
      · exact hr' p z (holds_of_kslot hpa hks h) hzs) (by simp) hK2
    (fuelOk_fuelOf_of_live rank' p (fun z hz => by rw [← hsome2]; exact hz))
  rw [← hT1] at hs
  have hraw := arrSetRaw_ok (fuel := w.fuelOf) (v := v) hpa (by rw [hpok0.count_eq]; exact hi) hst hs hnp
  obtain ⟨old', ov, w4, cx4, hun⟩ := uninlineIfNeeded_total (w3.setCallbackArr p i v) old cx3
  obtain ⟨w5, h5⟩ := arrSet_run hraw hun
  exact ⟨_, _, _, h5⟩

/-! ### `arrRemove` -/

/-- `Array.Remove` through a current handle succeeds on an index in range -/
theorem arrRemove_succeeds {w : World} {p : SlabID} {i : Nat} {cx : Ctx} {a : Arr}
    (H : WorldOk D w cx.ctr) (hK : KeyedClosures w) (hhand : HandleOk w p)
    (hpa : w.cont? p = some (.arr a)) (hi : i < a.toList.length) :
    ∃ old' w' cx', w.arrRemove p i cx = .ok (old', w', cx') := by
  obtain ⟨rank0, H0⟩ := H
  have hpok : ArrOk w.T a cx.ctr := H0.conts p _ hpa
  obtain ⟨a', cx1, hrem⟩ := hpok.remove_total H0.legal hi
  generalize hold0 : a.toList.getD i default = old at hrem
  obtain ⟨hold, hl, hok', hinl', hrid, _, hctr1, hsz⟩ := hpok.remove_ok H0.legal hrem
  have hks : ((Cont.arr a).kslots w.T)[i]? = some (none, maxInlineArr w.T, old) := by
    rw [Cont.kslots_arr]; exact ⟨old, hold, rfl⟩
  have hb2 := two_inline_le w.T H0.legal
  have H2 : WorldOkGen D rank0 (some p) (fun z => old.pay = .ref z)
      ((w.setCont p (.arr a')).shiftIdx p (fun j => if j > i then j - 1 else j)) cx1.ctr := by
    refine step_remove (pc' := .arr a') H0 hpa (fun _ h => absurd h id) hok' rfl hinl' hrid ?_ hctr1
      (kslots_arr_eraseIdx w.T hl) hks (fun x hx => hx) rfl rfl rfl
      (find?_idxOf_shiftIdx _ _ _) (by simp) (fun z hz => by simp [Ne.symm hz])
    intro hi2
    have hi2' : a.isInlined = true := by rw [← hinl']; exact hi2
    have hroom : a.rootHdr.size ≤ maxInlineArr w.T :=
      H0.inl_budget hpa hi2' (by intro h; cases h) (fun h => h)
    have := hsz hi2'
    show a'.rootHdr.size ≤ w.T
    omega
  have hhand2 : HandleOk ((w.setCont p (.arr a')).shiftIdx p (fun j => if j > i then j - 1 else j)) p :=
    handleOk_mutate (pc' := .arr a') H0.rank H2.rank hpa (by simp) (fun z hz => by simp [Ne.symm hz]) rfl rfl
      (fun q x hq => by rw [find?_idxOf_shiftIdx, if_neg (Ne.symm hq)]; rfl) hhand
  have hsome2 : ∀ z, (((w.setCont p (.arr a')).shiftIdx p (fun j => if j > i then j - 1 else j)).cont? z).isSome
      = (w.cont? z).isSome := by
    intro z
    rw [cont?_shiftIdx, cont?_setCont]
    split
    · rename_i hpz; subst hpz; rw [hpa]; rfl
    · rfl
  have hK2 : KeyedClosures ((w.setCont p (.arr a')).shiftIdx p (fun j => if j > i then j - 1 else j)) :=
    hK.mutate (ContsSig.refl w) rfl hpa (pc' := .arr a') rfl (by simp) (fun z hz => by simp [Ne.symm hz]) rfl
  obtain ⟨w3, cx3, hnp⟩ := notify_fuelOf_total H2 hhand2
    (fun z hz hzs => by
      rw [hsome2] at hzs
      exact H0.rank p z (holds_of_kslot hpa hks hz) hzs) (by simp) hK2
  obtain ⟨old', ov, w4, cx4, hun⟩ := uninlineIfNeeded_total w3 old cx3
  obtain ⟨w5, h5⟩ := arrRemove_run hpa hrem hnp hun
  exact ⟨_, _, _, h5⟩

/-! ### `setType` -/

/-- `SetType` through a current handle of a live container succeeds -/
theorem setType_succeeds {w : World} {p : SlabID} {ty : Nat} {cx : Ctx}
    (H : WorldOk D w cx.ctr) (hK : KeyedClosures w) (hhand : HandleOk w p) (hlive : (w.cont? p).isSome) :
    ∃ w' cx', w.setType p ty cx = .ok (w', cx') := by
  obtain ⟨rank0, H0⟩ := H
  obtain ⟨c, hc⟩ := Option.isSome_iff_exists.mp hlive
  unfold setType
  cases c with
  | arr a =>
    simp only [hc]
    have hpa := hc
    have hpok : ArrOk w.T a cx.ctr := H0.conts p _ hpa
    have hsd : Cont.SameData (.arr a) (.arr { a with ty := ty }) := ⟨rfl, rfl, fun _ => rfl⟩
    have hctr : (a.setType ty cx).2.ctr = cx.ctr := by
      simp only [Arr.setType]; split <;> rfl
    have H1 : WorldOkGen D rank0 none (fun _ => False) (w.setCont p (.arr (a.setType ty cx).1)) cx.ctr :=
      step_sameform (c1 := .arr { a with ty := ty }) H0 hpa hsd (arrOk_setType hpok)
        (by obtain ⟨d, t, ty0⟩ := a; cases d <;> rfl) rfl
        (fun lim => by obtain ⟨d, t, ty0⟩ := a; cases d <;> rfl)
        rfl rfl rfl rfl (cont?_setCont_self _ _ _) (fun z hz => cont?_setCont_ne _ _ _ _ hz)
    have hS : ContsSig w (w.setCont p (.arr (a.setType ty cx).1)) := by
      refine ⟨rfl, fun q => ?_⟩
      by_cases hq : p = q
      · subst hq; rw [cont?_setCont_self, hpa]; rfl
      · rw [cont?_setCont, if_neg hq]
    have hhand1 : HandleOk (w.setCont p (.arr (a.setType ty cx).1)) p :=
      hhand.transfer (fun q y => (hS.holds_iff q y).mp) (CurKept.of_sig hS (fun _ _ => rfl) (fun _ _ hy _ => hy))
    by_cases hinl : a.isInlined = true
    · rw [if_pos hinl]
      exact notify_fuelOf_total (by rw [hctr]; exact H1.restale p) hhand1 (fun z hz _ => absurd hz id)
        (by simp) (hK.of_sig hS (fun _ _ hx => hx))
    · rw [if_neg hinl]; exact ⟨_, _, rfl⟩
  | map m =>
    simp only [hc]
    have hpm := hc
    have hmok : MapOk w.T (D p) m cx.ctr := H0.conts p _ hpm
    have hsd : Cont.SameData (.map m) (.map { m with ty := ty }) := ⟨rfl, rfl, fun _ _ => rfl⟩
    have hctr : (m.setType ty cx).2.ctr = cx.ctr := by
      simp only [OMap.setType]; split <;> rfl
    have H1 : WorldOkGen D rank0 none (fun _ => False) (w.setCont p (.map (m.setType ty cx).1)) cx.ctr :=
      step_sameform (c1 := .map { m with ty := ty }) H0 hpm hsd (mapOk_setType hmok)
        (by obtain ⟨d, t, ty0, cnt, seed⟩ := m; cases d <;> rfl) rfl
        (fun lim => by obtain ⟨d, t, ty0, cnt, seed⟩ := m; cases d <;> rfl)
        rfl rfl rfl rfl (cont?_setCont_self _ _ _) (fun z hz => cont?_setCont_ne _ _ _ _ hz)
    have hS : ContsSig w (w.setCont p (.map (m.setType ty cx).1)) := by
      refine ⟨rfl, fun q => ?_⟩
      by_cases hq : p = q
      · subst hq; rw [cont?_setCont_self, hpm]; rfl
      · rw [cont?_setCont, if_neg hq]
    have hhand1 : HandleOk (w.setCont p (.map (m.setType ty cx).1)) p :=
      hhand.transfer (fun q y => (hS.holds_iff q y).mp) (CurKept.of_sig hS (fun _ _ => rfl) (fun _ _ hy _ => hy))
    by_cases hinl : m.isInlined = true
    · rw [if_pos hinl]
      exact notify_fuelOf_total (by rw [hctr]; exact H1.restale p) hhand1 (fun z hz _ => absurd hz id)
        (by simp) (hK.of_sig hS (fun _ _ hx => hx))
    · rw [if_neg hinl]; exact ⟨_, _, rfl⟩

end World
end Atree
