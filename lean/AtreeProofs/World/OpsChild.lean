import AtreeProofs.World.OpsPrep
/-
  Shared by the public operations that store a CHILD container: what `childStorable` on the
  (unreferenced) value leaves behind, and how the final `setCallback…` settles the child.
-/
namespace Atree
open Gen

namespace World

variable {D : SlabID → DigestFn 4}

/-- the pending set while the child `x` is being stored -/
def PendChild (O : SlabID → Prop) (x : SlabID) : SlabID → Prop := fun z => O z ∨ z = x

/-- `childStorable` on the value about to be stored -/
theorem prep_child {w : World} {ctr : Nat} {rank0 : SlabID → Nat} {O : SlabID → Prop}
    (H0 : WorldOkGen D rank0 none O w ctr) {p x : SlabID} {c : Cont} {wr lim : Nat}
    (hx : w.cont? x = some c) (hroot : ∀ q, ¬ Holds w q x) (hanc : ¬ Anc w x p)
    (hwb : slabIDStorableSize + 2 * wr ≤ lim) (hlim : lim ≤ maxInlineArr w.T)
    {cx : Ctx} {e : Elem} {w1 : World} {cx1 : Ctx}
    (hst : w.childStorable x wr lim cx = .ok (e, w1, cx1)) :
    ∃ rank' c1, WorldOkGen D rank' none (PendChild O x) w1 ctr ∧ CRank rank' w ∧ rank' p < rank' x ∧
      w1.cont? x = some c1 ∧ Cont.SameData c c1 ∧ e = ⟨slotSize c1 wr, .ref x⟩ ∧
      c1.isInlined = c1.inlinable (lim - 2 * wr) ∧ 1 ≤ e.size ∧ e.size ≤ lim ∧
      (∀ z, z ≠ x → w1.cont? z = w.cont? z) ∧ w1.T = w.T ∧ w1.addr = w.addr ∧ w1.hinfo = w.hinfo ∧
      w1.mutIdx = w.mutIdx ∧ cx1.ctr = cx.ctr ∧ (∀ q, ¬ Holds w1 q x) ∧ ContsSig w w1 ∧
      rank' p = rank0 p ∧ ∀ z, rank0 z ≤ rank' z := by
  obtain ⟨rank', hr', hrk, hrp, hrle⟩ := rank_insert H0.rank H0.unique hroot hanc
  have H1 := H0.with_rank hr'
  obtain ⟨c1, hsd, hok1, hinl1, _, hfit1, he, he1, he2, hc1, hco1, hT1, ha1, hh1, hm1, hctr1⟩ :=
    childStorable_valid H1 hx hwb hlim hst
  have hb2 := two_inline_le w.T H0.legal
  have H1' := step_childform H1 hx hroot hsd hok1 (fun hi => by have := hfit1 hi; omega) hT1 ha1 hh1 hm1 hc1 hco1
  have hS : ContsSig w w1 := by
    refine ⟨hT1, fun q => ?_⟩
    by_cases hq : q = x
    · subst hq; rw [hc1, hx]; simp [hsd.sig_eq]
    · rw [hco1 q hq]
  exact ⟨rank', c1, H1', hr', hrk, hc1, hsd, he, hinl1, he1, he2, hco1, hT1, ha1, hh1, hm1, hctr1,
    fun q hq => hroot q ((hS.holds_iff q x).mp hq), hS, hrp, hrle⟩

/-- the closure of the stored child `x` (slot `i` of the array `p`) is installed: `x` is settled -/
theorem finish_child_arr {w3 : World} {ctr : Nat} {rank : SlabID → Nat} {O O' : SlabID → Prop}
    (H3 : WorldOkGen D rank none O w3 ctr) {p x : SlabID} {a3 : Arr} {i wr : Nat} {c1 : Cont}
    (hO : ∀ z, O z → O' z ∨ z = x) (_hO' : ∀ z, O' z → O z)
    (hp : w3.cont? p = some (.arr a3))
    (he : a3.toList[i]? = some (⟨slotSize c1 wr, .ref x⟩ : Elem)) (hx : w3.cont? x = some c1)
    (hnoidx : ∀ q a j, q ≠ p → w3.cont? q = some (.arr a) → AList.find? (w3.idxOf q) x = some j → False) :
    WorldOkGen D rank none O' (w3.setCallbackArr p i (.child x wr)) ctr := by
  have H4 := H3.callback_arr (w' := w3.setCallbackArr p i (.child x wr))
    (hn := ⟨p, none, maxInlineArr w3.T - 2 * wr, wr⟩) hp he rfl hx rfl rfl rfl
    (T_setCallbackArr _ _ _ _) rfl (fun z => cont?_setCallbackArr _ _ _ _ _)
    (hinfo_setCallbackArr _ _ _ _ _) (idxOf_setCallbackArr _ _ _ _ _)
  have hpays : (Cont.arr a3).pays[i]? = some (Pay.ref x) := by
    rw [Cont.pays, Cont.storedElems, List.getElem?_map, he]; rfl
  refine H4.shrink ?_ ?_ ?_
  · intro z cz hOz hO'z _ _
    have hzx : z = x := by
      rcases hO z hOz with h | h
      · exact absurd h hO'z
      · exact h
    subst hzx
    exact ⟨p, .arr a3, by rw [cont?_setCallbackArr]; exact hp, List.mem_of_getElem? hpays⟩
  · intro z hOz hO'z q a j hq hj
    have hzx : z = x := by
      rcases hO z hOz with h | h
      · exact absurd h hO'z
      · exact h
    subst hzx
    rw [cont?_setCallbackArr] at hq
    rw [idxOf_setCallbackArr] at hj
    by_cases hpq : p = q
    · subst hpq
      rw [if_pos ⟨rfl, rfl⟩] at hj
      cases hj
      rw [hp] at hq; cases hq
      exact hpays
    · rw [if_neg (fun h => hpq h.1)] at hj
      exact absurd (hnoidx q a j (Ne.symm hpq) hq hj) id
  · intro z cz hOz hO'z hz hi lim e hhi hca
    have hzx : z = x := by
      rcases hO z hOz with h | h
      · exact absurd h hO'z
      · exact h
    subst hzx
    rw [cont?_setCallbackArr, hx] at hz; cases hz
    rw [hinfo_setCallbackArr, if_pos rfl] at hhi
    cases hhi
    rcases hca with ⟨pa2, i2, hpa2, hi2, hge2, _, _⟩ | ⟨pm2, k2, hpm2, _⟩
    · rw [cont?_setCallbackArr, hp] at hpa2; cases hpa2
      rw [idxOf_setCallbackArr, if_pos ⟨rfl, rfl⟩] at hi2
      cases hi2
      rw [he] at hge2; cases hge2
      rfl
    · rw [cont?_setCallbackArr, hp] at hpm2; cases hpm2

/-- the same for a child stored as the value of key `k` of the map `p` -/
theorem finish_child_map {w3 : World} {ctr : Nat} {rank : SlabID → Nat} {O O' : SlabID → Prop}
    (H3 : WorldOkGen D rank none O w3 ctr) {p x : SlabID} {m3 : OMap 3} {k : MKey} {wr : Nat} {c1 : Cont}
    (hO : ∀ z, O z → O' z ∨ z = x) (_hO' : ∀ z, O' z → O z)
    (hp : w3.cont? p = some (.map m3))
    (he : (k, (⟨slotSize c1 wr, .ref x⟩ : Elem)) ∈ m3.toList) (hx : w3.cont? x = some c1)
    (hwb : slabIDStorableSize + 2 * wr ≤ maxInlineMapValue w3.T k.size) (hkok : KeyOk w3.T 4 (D p) k)
    (hnoidx : ∀ q a j, w3.cont? q = some (.arr a) → AList.find? (w3.idxOf q) x = some j → False) :
    WorldOkGen D rank none O' (w3.setCallbackMap p k (.child x wr)) ctr := by
  have H4 := H3.callback_map (w' := w3.setCallbackMap p k (.child x wr))
    (hn := ⟨p, some k, maxInlineMapValue w3.T k.size - 2 * wr, wr⟩) hp he hx (fun _ => rfl) hwb hkok rfl rfl rfl
    (T_setCallbackMap _ _ _ _) rfl (fun z => cont?_setCallbackMap _ _ _ _ _) (mutIdx_setCallbackMap _ _ _ _)
    (hinfo_setCallbackMap _ _ _ _ _)
  have hmok : MapOk w3.T (D p) m3 ctr := H3.conts p _ hp
  have hidx4 : ∀ q, (w3.setCallbackMap p k (.child x wr)).idxOf q = w3.idxOf q := fun q => by simp [World.idxOf]
  refine H4.shrink ?_ ?_ ?_
  · intro z cz hOz hO'z _ _
    have hzx : z = x := by
      rcases hO z hOz with h | h
      · exact absurd h hO'z
      · exact h
    subst hzx
    refine ⟨p, .map m3, by rw [cont?_setCallbackMap]; exact hp, ?_⟩
    rw [Cont.pays, Cont.storedElems]
    exact List.mem_map.mpr ⟨_, List.mem_map.mpr ⟨_, he, rfl⟩, rfl⟩
  · intro z hOz hO'z q a j hq hj
    have hzx : z = x := by
      rcases hO z hOz with h | h
      · exact absurd h hO'z
      · exact h
    subst hzx
    rw [cont?_setCallbackMap] at hq
    rw [hidx4] at hj
    exact absurd (hnoidx q a j hq hj) id
  · intro z cz hOz hO'z hz hi lim e hhi hca
    have hzx : z = x := by
      rcases hO z hOz with h | h
      · exact absurd h hO'z
      · exact h
    subst hzx
    rw [cont?_setCallbackMap, hx] at hz; cases hz
    rw [hinfo_setCallbackMap, if_pos rfl] at hhi
    cases hhi
    rcases hca with ⟨pa2, i2, hpa2, _⟩ | ⟨pm2, k2, hpm2, hk2, hmem2, _, _⟩
    · rw [cont?_setCallbackMap, hp] at hpa2; cases hpa2
    · rw [cont?_setCallbackMap, hp] at hpm2
      have hmm : m3 = pm2 := by cases hpm2; rfl
      subst hmm
      have hkk : k = k2 := by simpa using hk2
      subst hkk
      -- same key, same value
      obtain ⟨i1, hi1⟩ := List.mem_iff_getElem?.mp hmem2
      obtain ⟨i2, hi2⟩ := List.mem_iff_getElem?.mp he
      have hk1 : ((Cont.map m3).kslots w3.T)[i1]? = some (some k, maxInlineMapValue w3.T k.size, e) := by
        rw [Cont.kslots_map]; exact ⟨k, e, hi1, rfl⟩
      have hk2' : ((Cont.map m3).kslots w3.T)[i2]?
          = some (some k, maxInlineMapValue w3.T k.size, (⟨slotSize c1 wr, .ref z⟩ : Elem)) := by
        rw [Cont.kslots_map]; exact ⟨k, _, hi2, rfl⟩
      have := Cont.kslot_key_unique hmok hk1 hk2' rfl rfl
      subst this
      rw [hi1] at hi2
      simp only [Option.some.injEq, Prod.mk.injEq, true_and] at hi2
      rw [hi2]

end World
end Atree
