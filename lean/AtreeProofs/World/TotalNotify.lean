import AtreeProofs.World.Notify
import AtreeProofs.World.TotalCore
/-
  TOTAL correctness, part 2 (audit item S3): THE NOTIFICATION CHAIN TERMINATES AND NEVER FAILS.

  `notify_total`: a notification from a live container `y` whose parent slot is out of date, issued
  through a current handle, with enough fuel, answers `.ok`.  Every `.error` branch of
  `notifyParent` / `arrSetRaw` / `mapSetRaw` is excluded by a reason:
    * `.outOfFuel`            — the fuel bound `FuelOk` (below);
    * `.unknownContainer`     — `y` is live; the parent found through the closure is live;
    * `pa.get idx` fails      — a recorded index is in range (`MutIdxOkX`);
    * `pm.get k` fails otherwise than by `keyNotFound` — `MapOk.get_spec`;
    * `hi.key = none` on a MAP parent — `KeyedClosures` (below): a closure that names a live map carries
                                 a key.  NOTE: this is NOT a clause of `WorldOk` / `WorldOk'` (which only say
                                 "IF the closure of a map parent has a key, the key is usable", `ClosureOk`);
                                 for a CURRENT closure it follows from `ClosureAt`, but a detached root may
                                 keep a STALE closure, and nothing in `WorldOk'` prevents a stale key-less
                                 closure from naming a live map (unreachable: the kind of a container never
                                 changes and IDs are not reused — `KeyedClosures` is preserved by every
                                 operation, `AtreeProofs/World/TotalKeyed.lean`).  See
                                 `C10Total.fatal_without_keyedClosures` for the run of the model;
    * `old.pay ≠ .ref y`      — the element handed back by the parent's `set` is the one just read;
    * `Inline` / `Uninline`   — `childStorable_total`;
    * the parent's `set`      — the index is in range / the key is PRESENT (so the collision limit does not
                                 apply: `MapOk.not_limited_of_mem`), the new element is within the per-element
                                 limit, an inlined parent has room (`WorldOkGen.arr_room` / `map_room`).

  TERMINATION RESTS ON `CRank` — the acyclicity of the relation "is an element of" (a rank function
  decreases from a child to the container that holds it) — and NOT on the closure pointers: each
  recursive call moves from `y` to a container that HOLDS `y`, hence of smaller rank, and the set of
  live containers does not change along the chain.  The measure is `FuelOk rank w y fuel`: every
  duplicate-free list of live containers ranked below `y` is shorter than `fuel`.  `fuelOk_fuelOf`:
  the fuel `fuelOf w = w.conts.length + 2` the public operations pass always suffices.
-/
namespace Atree
open Gen

/-! ### counting -/

theorem nodup_subset_length_le {α : Type} [DecidableEq α] :
    ∀ (L S : List α), S.Nodup → (∀ x ∈ S, x ∈ L) → S.length ≤ L.length
  | [], S, _, hs => by
    cases S with
    | nil => exact Nat.le_refl _
    | cons a S => exact absurd (hs a List.mem_cons_self) (by simp)
  | a :: L, S, hnd, hs => by
    have ih := nodup_subset_length_le L (S.erase a) (hnd.erase a) (fun x hx => by
      have h1 := (List.Nodup.mem_erase_iff hnd).mp hx
      rcases List.mem_cons.mp (hs x h1.2) with h | h
      · exact absurd h h1.1
      · exact h)
    have hlen : S.length ≤ (S.erase a).length + 1 := by
      rw [List.length_erase]
      split <;> omega
    simp only [List.length_cons]
    omega

namespace World

variable {D : SlabID → DigestFn 4} {rank : SlabID → Nat} {O : SlabID → Prop}

/-! ### the fuel bound -/

/-- enough fuel for a notification from `y`: every duplicate-free list of LIVE containers of rank
    below `rank y` is shorter than `fuel`.  (Under `CRank` the containers `y` is nested in are such a
    list: the bound says `fuel` exceeds the nesting depth of `y`.) -/
def FuelOk (rank : SlabID → Nat) (w : World) (y : SlabID) (fuel : Nat) : Prop :=
  ∀ S : List SlabID, S.Nodup → (∀ z ∈ S, (w.cont? z).isSome ∧ rank z < rank y) → S.length < fuel

theorem FuelOk.pos {w : World} {y : SlabID} {fuel : Nat} (h : FuelOk rank w y fuel) : 0 < fuel := by
  simpa using h [] List.nodup_nil (by simp)

theorem FuelOk.mono {w : World} {y : SlabID} {fuel fuel' : Nat} (h : FuelOk rank w y fuel) (hle : fuel ≤ fuel') :
    FuelOk rank w y fuel' := fun S h1 h2 => Nat.lt_of_lt_of_le (h S h1 h2) hle

/-- one step up the containment chain consumes one unit of fuel: `p` is live and ranked below `y`,
    and is not among the containers ranked below `p` -/
theorem FuelOk.step {w w2 : World} {y p : SlabID} {fuel : Nat} (hF : FuelOk rank w y (fuel + 1))
    (hlive : ∀ z, (w2.cont? z).isSome → (w.cont? z).isSome) (hp : (w.cont? p).isSome)
    (hrk : rank p < rank y) : FuelOk rank w2 p fuel := by
  intro S hnd hS
  have := hF (p :: S) (List.nodup_cons.mpr ⟨fun hm => by have := (hS p hm).2; omega, hnd⟩) (by
    intro z hz
    rcases List.mem_cons.mp hz with h | h
    · subst h; exact ⟨hp, hrk⟩
    · exact ⟨hlive z (hS z h).1, by have := (hS z h).2; omega⟩)
  simp only [List.length_cons] at this
  omega

/-- a live container has an entry in the table -/
theorem mem_keys_of_live {w : World} {z : SlabID} (h : (w.cont? z).isSome) : z ∈ AList.keys w.conts := by
  rw [← AList.find?_ne_none_iff]
  intro hn
  rw [World.cont?, hn] at h
  cases h

/-- a duplicate-free list of live containers is not longer than the table -/
theorem live_nodup_length_le {w : World} {S : List SlabID} (hnd : S.Nodup) (hS : ∀ z ∈ S, (w.cont? z).isSome) :
    S.length ≤ w.conts.length := by
  have := nodup_subset_length_le (AList.keys w.conts) S hnd (fun z hz => mem_keys_of_live (hS z hz))
  simpa [AList.keys] using this

/-- THE FUEL OF THE PUBLIC OPERATIONS SUFFICES, for every container of every world -/
theorem fuelOk_fuelOf (rank : SlabID → Nat) (w : World) (y : SlabID) : FuelOk rank w y w.fuelOf := by
  intro S hnd hS
  have := live_nodup_length_le hnd (fun z hz => (hS z hz).1)
  simp only [fuelOf]
  omega

/-- … and also for a world with the same live containers -/
theorem fuelOk_fuelOf_of_live (rank : SlabID → Nat) {w w2 : World} (y : SlabID)
    (hlive : ∀ z, (w2.cont? z).isSome → (w.cont? z).isSome) : FuelOk rank w2 y w.fuelOf := by
  intro S hnd hS
  have := live_nodup_length_le (w := w) hnd (fun z hz => hlive z (hS z hz).1)
  simp only [fuelOf]
  omega

/-! ### `arrSetRaw` / `mapSetRaw` once the local steps are known -/

theorem arrSetRaw_ok {fuel : Nat} {w : World} {p : SlabID} {a : Arr} {i : Nat} {v : WVal} {cx : Ctx}
    {e : Elem} {w1 : World} {cx1 : Ctx} {old : Elem} {a' : Arr} {cx2 : Ctx} {w3 : World} {cx3 : Ctx}
    (hp : w.cont? p = some (.arr a)) (hi : i < a.count)
    (hst : w.storableOf v (maxInlineArr w.T) cx = .ok (e, w1, cx1))
    (hs : a.set w1.T i e cx1 = .ok (old, a', cx2))
    (hnp : notifyParent fuel (w1.setCont p (.arr a')) p cx2 = .ok (w3, cx3)) :
    arrSetRaw fuel w p i v cx = .ok (old, w3.setCallbackArr p i v, cx3) := by
  rw [arrSetRaw]
  simp only [hp, hst, hs, if_neg (Nat.not_le.mpr hi), hnp]

theorem mapSetRaw_ok {fuel : Nat} {w : World} {p : SlabID} {m : OMap 3} {k : MKey} {v : WVal} {cx : Ctx}
    {e : Elem} {w1 : World} {cx1 : Ctx} {old : Option Elem} {m' : OMap 3} {cx2 : Ctx} {w3 : World} {cx3 : Ctx}
    (hp : w.cont? p = some (.map m))
    (hst : w.storableOf v (maxInlineMapValue w.T k.size) cx = .ok (e, w1, cx1))
    (hs : m.set w1.mcfg k e cx1 = .ok (old, m', cx2))
    (hnp : notifyParent fuel (w1.setCont p (.map m')) p cx2 = .ok (w3, cx3)) :
    mapSetRaw fuel w p k v cx = .ok (old, w3.setCallbackMap p k v, cx3) := by
  rw [mapSetRaw]
  simp only [hp, hst, hs, hnp]

/-! ### closures and the kind of the parent -/

/-- a closure that names a live MAP carries a key (closures are installed by `setCallbackArr` on an
    array parent — no key — or by `setCallbackMap` on a map parent — with the key; the kind of a
    container never changes).  Not a clause of `WorldOk'`; see the header. -/
def KeyedClosures (w : World) : Prop :=
  ∀ x hi pm, AList.find? w.hinfo x = some hi → w.cont? hi.parent = some (.map pm) → hi.key.isSome = true

theorem KeyedClosures.of_sig {w w' : World} (h : KeyedClosures w) (hS : ContsSig w w')
    (hh : ∀ x hi, AList.find? w'.hinfo x = some hi → AList.find? w.hinfo x = some hi) : KeyedClosures w' := by
  intro x hi pm hx hp
  obtain ⟨c, hc, hs⟩ := hS.symm.get hp
  cases c with
  | arr a => simp [Cont.sig] at hs
  | map m => exact h x hi m (hh x hi hx) hc

/-! ### the statement proved by induction on the fuel -/

def NotifyTotal (D : SlabID → DigestFn 4) (rank : SlabID → Nat) (O : SlabID → Prop) (fuel : Nat) : Prop :=
  ∀ w y cx, WorldOkGen D rank (some y) O w cx.ctr → HandleOk w y →
    (∀ z, O z → (w.cont? z).isSome → rank y < rank z) → (w.cont? y).isSome → KeyedClosures w →
    FuelOk rank w y fuel →
    ∃ w' cx', notifyParent fuel w y cx = .ok (w', cx')

/-! ### the step through an ARRAY parent -/

theorem notify_arr_total {fuel : Nat} (IH : NotifyTotal D rank O fuel) {w : World} {y : SlabID} {cx : Ctx}
    {hi : HInfo} {c : Cont} {pa : Arr} {idx : Nat} {el : Elem}
    (H : WorldOkGen D rank (some y) O w cx.ctr) (hO : ∀ z, O z → (w.cont? z).isSome → rank y < rank z)
    (hh : AList.find? w.hinfo y = some hi) (hc : w.cont? y = some c)
    (hpa : w.cont? hi.parent = some (.arr pa)) (hidx : AList.find? (w.idxOf hi.parent) y = some idx)
    (hget : pa.get idx = .ok el) (hel : el.pay = .ref y) (hpar : HandleOk w hi.parent)
    (hK : KeyedClosures w) (hF : FuelOk rank w y (fuel + 1)) :
    ∃ w4 cx4, arrSetRaw fuel w hi.parent idx (.child y hi.wrap) cx = .ok (el, w4, cx4) := by
  have hpok : ArrOk w.T pa cx.ctr := H.conts hi.parent _ hpa
  have hge : pa.toList[idx]? = some el := hpok.get_ok H.legal hget
  have hilt : idx < pa.toList.length := (List.getElem?_eq_some_iff.mp hge).1
  have hks : ((Cont.arr pa).kslots w.T)[idx]? = some (none, maxInlineArr w.T, el) := by
    rw [Cont.kslots_arr]; exact ⟨el, hge, rfl⟩
  have hysome : (w.cont? y).isSome := by rw [hc]; rfl
  have hpy : Holds w hi.parent y := holds_of_kslot hpa hks hel
  have hrk : rank hi.parent < rank y := H.rank _ _ hpy hysome
  have hne : y ≠ hi.parent := by intro h; rw [← h] at hrk; omega
  have hOp : ¬ O hi.parent := fun h => by have := hO _ h (by rw [hpa]; rfl); omega
  obtain ⟨hmax, hwb⟩ := (H.closure y hi hh).1 pa hpa
  -- the local steps succeed
  obtain ⟨e, w1, cx1, hst⟩ := childStorable_total hc hi.wrap (maxInlineArr w.T) cx
  obtain ⟨c1, hsd, hok1, hinl1, _, hfit1, he, he1, he2, hc1, hco1, hT1, ha1, hh1, hm1, hctr1⟩ :=
    childStorable_valid H hc hwb (Nat.le_refl _) hst
  have hpok1 : ArrOk w.T pa cx1.ctr := by rw [hctr1]; exact hpok
  have hroom := H.arr_room hpa (by intro h; cases h; exact hne rfl) hOp
  obtain ⟨a', cx3, hs⟩ := hpok1.set_total H.legal (StorOk.of_elemOk ⟨he1, he2⟩) hroom hilt
  have hgd : pa.toList.getD idx default = el := by
    rw [List.getD_eq_getElem?_getD, hge]; rfl
  rw [hgd] at hs
  have hepay : e.pay = .ref y := by rw [he]
  obtain ⟨hold, hl, hok', hinl', hrid, _, hctr3, hsz⟩ :=
    hpok1.set_ok H.legal (StorOk.of_elemOk ⟨he1, he2⟩) hroom hs
  rw [toStorable_ref _ _ e cx1 y hepay] at hl hsz
  simp only at hl hsz
  have hks' : (Cont.arr a').kslots w.T
      = ((Cont.arr pa).kslots w.T).set idx (none, maxInlineArr w.T, ⟨slotSize c1 hi.wrap, .ref y⟩) := by
    simp only [Cont.kslots, hl, List.map_set, he]
  have hb2 := two_inline_le w.T H.legal
  -- the world at the recursive notification
  have H2 : WorldOkGen D rank (some hi.parent) O (w1.setCont hi.parent (.arr a')) cx3.ctr := by
    refine step_slot H hc hpa hks hel hsd (hok1.mono (by rw [← hctr1]; exact hctr3)) hwb hinl1
      (fun hi1 => by have := hfit1 hi1; omega)
      (fun hi' _ hhi' _ => by rw [hh] at hhi'; cases hhi'; rfl)
      hks' rfl hok' hinl' hrid ?_ (by rw [← hctr1]; exact hctr3) hT1 ha1 hh1 hm1
      (by rw [cont?_setCont_ne _ _ _ _ hne]; exact hc1) (by simp)
      (fun z hzy hzp => by rw [cont?_setCont_ne _ _ _ _ hzp]; exact hco1 z hzy)
    intro hi2
    have hi2' : pa.isInlined = true := by rw [← hinl']; exact hi2
    have hroom : pa.rootHdr.size ≤ maxInlineArr w.T :=
      H.inl_budget hpa hi2' (by intro h; cases h; exact hne rfl) hOp
    have := hsz hi2'
    show a'.rootHdr.size ≤ w.T
    omega
  have hS12 : ContsSig w (w1.setCont hi.parent (.arr a')) := by
    refine ⟨hT1, fun q => ?_⟩
    by_cases hq : hi.parent = q
    · subst hq
      rw [cont?_setCont_self, hpa]
      simp only [Option.map_some, Option.some.injEq]
      rw [Cont.sig_eq_kslots w.T, Cont.sig_eq_kslots w.T (Cont.arr pa), hks', List.map_set]
      congr 1
      apply list_set_self
      rw [List.getElem?_map, hks]; simp [hel]
    · rw [cont?_setCont, if_neg hq]
      by_cases hqy : q = y
      · subst hqy; rw [hc1, hc]; simp [hsd.sig_eq]
      · rw [hco1 q hqy]
  have hidx12 : ∀ q z, AList.find? ((w1.setCont hi.parent (.arr a')).idxOf q) z = AList.find? (w.idxOf q) z := by
    intro q z; simp [World.idxOf, hm1]
  have hcur12 : CurKept w (w1.setCont hi.parent (.arr a')) :=
    CurKept.of_sig hS12 hidx12 (fun x hix hx _ => by simp only [hinfo_setCont, hh1]; exact hx)
  have hpar2 : HandleOk (w1.setCont hi.parent (.arr a')) hi.parent :=
    hpar.transfer (fun p x => (hS12.holds_iff p x).mp) hcur12
  have hF2 : FuelOk rank (w1.setCont hi.parent (.arr a')) hi.parent fuel :=
    hF.step (fun z hz => by rw [← hS12.isSome]; exact hz) (by rw [hpa]; rfl) hrk
  obtain ⟨w3, cx3', hnp⟩ := IH _ _ _ H2 hpar2
    (fun z hz hzs => by have := hO z hz (by rw [← hS12.isSome]; exact hzs); omega)
    (by rw [cont?_setCont_self]; rfl)
    (hK.of_sig hS12 (fun x hix hx => by simpa only [hinfo_setCont, hh1] using hx)) hF2
  have hcnt : idx < pa.count := by rw [hpok.count_eq]; exact hilt
  rw [← hT1] at hs
  exact ⟨_, _, arrSetRaw_ok hpa hcnt (by simpa only [World.storableOf] using hst) hs hnp⟩

/-! ### the step through a MAP parent -/

theorem notify_map_total {fuel : Nat} (IH : NotifyTotal D rank O fuel) {w : World} {y : SlabID} {cx : Ctx}
    {hi : HInfo} {c : Cont} {pm : OMap 3} {k k' : MKey} {el : Elem}
    (H : WorldOkGen D rank (some y) O w cx.ctr) (hO : ∀ z, O z → (w.cont? z).isSome → rank y < rank z)
    (hh : AList.find? w.hinfo y = some hi) (hc : w.cont? y = some c)
    (hpm : w.cont? hi.parent = some (.map pm)) (hk : hi.key = some k)
    (hget : pm.get w.mcfg k = .ok (k', el)) (hel : el.pay = .ref y) (hpar : HandleOk w hi.parent)
    (hK : KeyedClosures w) (hF : FuelOk rank w y (fuel + 1)) :
    ∃ w4 cx4, mapSetRaw fuel w hi.parent k (.child y hi.wrap) cx = .ok (some el, w4, cx4) := by
  have hmok : MapOk w.T (D hi.parent) pm cx.ctr := H.conts hi.parent _ hpm
  have hcfg := H.cfgOk hpm
  obtain ⟨hkok, hmax, hwb⟩ := (H.closure y hi hh).2 pm k hpm hk
  obtain ⟨_, hmem⟩ := hmok.get_ok H.legal hcfg hkok hget
  obtain ⟨j, hj⟩ := List.mem_iff_getElem?.mp hmem
  have hks : ((Cont.map pm).kslots w.T)[j]? = some (some k, maxInlineMapValue w.T k.size, el) := by
    rw [Cont.kslots_map]; exact ⟨k, el, hj, rfl⟩
  have hysome : (w.cont? y).isSome := by rw [hc]; rfl
  have hpy : Holds w hi.parent y := holds_of_kslot hpm hks hel
  have hrk : rank hi.parent < rank y := H.rank _ _ hpy hysome
  have hne : y ≠ hi.parent := by intro h; rw [← h] at hrk; omega
  have hOp : ¬ O hi.parent := fun h => by have := hO _ h (by rw [hpm]; rfl); omega
  -- the local steps succeed
  obtain ⟨e, w1, cx1, hst⟩ := childStorable_total hc hi.wrap (maxInlineMapValue w.T k.size) cx
  obtain ⟨c1, hsd, hok1, hinl1, _, hfit1, he, he1, he2, hc1, hco1, hT1, ha1, hh1, hm1, hctr1⟩ :=
    childStorable_valid H hc hwb (maxInlineMapValue_le_arr _ _) hst
  have hcfg1 : w1.mcfg = w.mcfg := by simp [World.mcfg, hT1, ha1]
  have hmok1 : MapOk w.T (D hi.parent) pm cx1.ctr := by rw [hctr1]; exact hmok
  have hepay : e.pay = .ref y := by rw [he]
  have hroom := H.map_room hpm (by intro h; cases h; exact hne rfl) hOp
  have hvr : ValueOkR w.T k.size e := ⟨he1, Or.inr he2⟩
  obtain ⟨old, m', cx3, hs⟩ := hmok1.set_total H.legal hcfg hkok hvr hroom
    (hmok.not_limited_of_mem H.legal hmem)
  obtain ⟨heff, hok', hinl', hrid, hctr3, hsz⟩ := hmok1.set_ok H.legal hcfg hkok hvr hroom hs
  rw [storedValue_ref _ _ e cx1 y hepay] at heff
  -- the effect is an overwrite at position `j`; the old value is the element just read
  have hl : m'.toList = pm.toList.set j (k, e) ∧ old = some el := by
    rcases heff with ⟨_, hnone, _⟩ | ⟨v0, A, B, hov, hA, hB⟩
    · exact absurd rfl (hnone _ hmem)
    · have hA' : ((Cont.map pm).kslots w.T)[A.length]? = some (some k, maxInlineMapValue w.T k.size, v0) := by
        rw [Cont.kslots_map]; exact ⟨k, v0, by rw [hA]; exact getElem?_mid rfl, rfl⟩
      have := Cont.kslot_key_unique hmok hks hA' rfl rfl
      subst this
      refine ⟨by rw [hB, hA, set_mid rfl], ?_⟩
      rw [hov]
      have h1 : pm.toList[A.length]? = some (k, v0) := by rw [hA]; exact getElem?_mid rfl
      rw [hj] at h1
      cases h1; rfl
  obtain ⟨hl, hold⟩ := hl
  subst hold
  have hks' : (Cont.map m').kslots w.T
      = ((Cont.map pm).kslots w.T).set j (some k, maxInlineMapValue w.T k.size, ⟨slotSize c1 hi.wrap, .ref y⟩) := by
    simp only [Cont.kslots, hl, List.map_set, he]
  have hb2 := inline_plus_entry_le w.T H.legal
  have H2 : WorldOkGen D rank (some hi.parent) O (w1.setCont hi.parent (.map m')) cx3.ctr := by
    refine step_slot H hc hpm hks hel hsd (hok1.mono (by rw [← hctr1]; exact hctr3)) hwb hinl1
      (fun hi1 => by
        have := hfit1 hi1
        have := maxInlineMapValue_le_arr w.T k.size
        have := two_inline_le w.T H.legal
        omega)
      (fun hi' _ hhi' _ => by rw [hh] at hhi'; cases hhi'; rfl)
      hks' rfl hok' hinl' hrid ?_ (by rw [← hctr1]; exact hctr3) hT1 ha1 hh1 hm1
      (by rw [cont?_setCont_ne _ _ _ _ hne]; exact hc1) (by simp)
      (fun z hzy hzp => by rw [cont?_setCont_ne _ _ _ _ hzp]; exact hco1 z hzy)
    intro hi2
    have hi2' : pm.isInlined = true := by rw [← hinl']; exact hi2
    have hroom : pm.rootHdr.size ≤ maxInlineArr w.T :=
      H.inl_budget hpm hi2' (by intro h; cases h; exact hne rfl) hOp
    have := hsz hi2'
    show m'.rootHdr.size ≤ w.T
    omega
  have hS12 : ContsSig w (w1.setCont hi.parent (.map m')) := by
    refine ⟨hT1, fun q => ?_⟩
    by_cases hq : hi.parent = q
    · subst hq
      rw [cont?_setCont_self, hpm]
      simp only [Option.map_some, Option.some.injEq]
      rw [Cont.sig_eq_kslots w.T, Cont.sig_eq_kslots w.T (Cont.map pm), hks', List.map_set]
      congr 1
      apply list_set_self
      rw [List.getElem?_map, hks]; simp [hel]
    · rw [cont?_setCont, if_neg hq]
      by_cases hqy : q = y
      · subst hqy; rw [hc1, hc]; simp [hsd.sig_eq]
      · rw [hco1 q hqy]
  have hidx12 : ∀ q z, AList.find? ((w1.setCont hi.parent (.map m')).idxOf q) z = AList.find? (w.idxOf q) z := by
    intro q z; simp [World.idxOf, hm1]
  have hcur12 : CurKept w (w1.setCont hi.parent (.map m')) :=
    CurKept.of_sig hS12 hidx12 (fun x hix hx _ => by simp only [hinfo_setCont, hh1]; exact hx)
  have hpar2 : HandleOk (w1.setCont hi.parent (.map m')) hi.parent :=
    hpar.transfer (fun p x => (hS12.holds_iff p x).mp) hcur12
  have hF2 : FuelOk rank (w1.setCont hi.parent (.map m')) hi.parent fuel :=
    hF.step (fun z hz => by rw [← hS12.isSome]; exact hz) (by rw [hpm]; rfl) hrk
  obtain ⟨w3, cx3', hnp⟩ := IH _ _ _ H2 hpar2
    (fun z hz hzs => by have := hO z hz (by rw [← hS12.isSome]; exact hzs); omega)
    (by rw [cont?_setCont_self]; rfl)
    (hK.of_sig hS12 (fun x hix hx => by simpa only [hinfo_setCont, hh1] using hx)) hF2
  rw [← hcfg1] at hs
  exact ⟨_, _, mapSetRaw_ok hpm (by simpa only [World.storableOf] using hst) hs hnp⟩

/-! ### the induction -/

/-- THE NOTIFICATION CHAIN NEVER FAILS (statement by induction on the fuel, see the header) -/
theorem notify_total (D : SlabID → DigestFn 4) (rank : SlabID → Nat) (O : SlabID → Prop) :
    ∀ fuel, NotifyTotal D rank O fuel := by
  intro fuel
  induction fuel with
  | zero => intro w y cx _ _ _ _ _ hF; exact absurd hF.pos (Nat.lt_irrefl 0)
  | succ fuel ih =>
    intro w y cx H hhand hO hlive hK hF
    obtain ⟨c, hc⟩ := Option.isSome_iff_exists.mp hlive
    have hOy : ¬ O y := fun hh => by have := hO y hh hlive; omega
    rw [notifyParent]
    cases hh : AList.find? w.hinfo y with
    | none => exact ⟨_, _, rfl⟩
    | some hi =>
      simp only [hc]
      by_cases hstay : (!c.isInlined && !c.inlinable hi.maxInline) = true
      · rw [if_pos hstay]; exact ⟨_, _, rfl⟩
      · rw [if_neg hstay]
        try simp only
        cases hp : w.cont? hi.parent with
        | none => exact ⟨_, _, rfl⟩
        | some pc =>
          cases pc with
          | arr pa =>
            try simp only
            cases hidx : AList.find? (w.idxOf hi.parent) y with
            | none => exact ⟨_, _, rfl⟩
            | some idx =>
              try simp only
              have hpok : ArrOk w.T pa cx.ctr := H.conts hi.parent _ hp
              have hpays := H.mutIdx hi.parent pa hp y idx hidx hOy
              rw [Cont.pays, Cont.storedElems, List.getElem?_map] at hpays
              obtain ⟨el, hge, hpay⟩ : ∃ el, pa.toList[idx]? = some el ∧ el.pay = .ref y := by
                cases hg : pa.toList[idx]? with
                | none => rw [hg] at hpays; cases hpays
                | some el => rw [hg] at hpays; exact ⟨el, rfl, by simpa using hpays⟩
              have hget : pa.get idx = .ok el := hpok.get_of_getElem? H.legal hge
              rw [hget]
              try simp only
              rw [if_neg (by rw [hpay]; exact fun h => h rfl)]
              have hks : ((Cont.arr pa).kslots w.T)[idx]? = some (none, maxInlineArr w.T, el) := by
                rw [Cont.kslots_arr]; exact ⟨el, hge, rfl⟩
              obtain ⟨hi', hhi', _, hpar⟩ := hhand.of_held (holds_of_kslot hp hks hpay)
              rw [hh] at hhi'; cases hhi'
              obtain ⟨w4, cx4, hsr⟩ := notify_arr_total ih H hO hh hc hp hidx hget hpay hpar hK hF
              rw [hsr]
              try simp only
              rw [if_neg (by rw [hpay]; exact fun h => h rfl)]
              exact ⟨_, _, rfl⟩
          | map pm =>
            try simp only
            cases hk : hi.key with
            | none =>
              have := hK y hi pm hh hp
              rw [hk] at this
              cases this
            | some k =>
              try simp only
              obtain ⟨hkok, _, _⟩ := (H.closure y hi hh).2 pm k hp hk
              have hmok : MapOk w.T (D hi.parent) pm cx.ctr := H.conts hi.parent _ hp
              have hcfg := H.cfgOk hp
              obtain ⟨g1, g2⟩ := hmok.get_spec H.legal hcfg hkok
              by_cases hex : ∃ v, (k, v) ∈ pm.toList
              · obtain ⟨el, hmem⟩ := hex
                have hget := g1 el hmem
                rw [hget]
                try simp only
                by_cases hpay : el.pay = .ref y
                · rw [if_neg (by rw [hpay]; exact fun h => h rfl)]
                  obtain ⟨j, hj⟩ := List.mem_iff_getElem?.mp hmem
                  have hks : ((Cont.map pm).kslots w.T)[j]? = some (some k, maxInlineMapValue w.T k.size, el) := by
                    rw [Cont.kslots_map]; exact ⟨k, el, hj, rfl⟩
                  obtain ⟨hi', hhi', _, hpar⟩ := hhand.of_held (holds_of_kslot hp hks hpay)
                  rw [hh] at hhi'; cases hhi'
                  obtain ⟨w4, cx4, hsr⟩ := notify_map_total ih H hO hh hc hp hk hget hpay hpar hK hF
                  rw [hsr]
                  try simp only
                  rw [if_neg (by rw [hpay]; exact fun h => h rfl)]
                  exact ⟨_, _, rfl⟩
                · rw [if_pos hpay]; exact ⟨_, _, rfl⟩
              · have habs : ∀ p ∈ pm.toList, p.1 ≠ k := by
                  intro p hp' he
                  exact hex ⟨p.2, by rw [← he]; exact hp'⟩
                rw [g2 habs]
                exact ⟨_, _, rfl⟩

end World
end Atree
