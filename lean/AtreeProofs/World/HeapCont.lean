import AtreeProofs.World.HeapAlg
import AtreeProofs.Map.EffectsSteps
import AtreeProofs.Array.Effects
/-
  Heap accounts of ONE container (`World.CAcct`): the shape of `Cont.treeSlabs` / `Cont.slabs`,
  `Cont.inline` (the root slab leaves storage) and `Cont.uninline` (the root slab enters storage),
  and the passage from the tree-level accounts `Acct` (arrays) / `MAcct` (maps) to `CAcct`.
-/
namespace Atree
open Gen

namespace Cont

/-! ### shape of the slab lists -/

theorem treeIds_arr (a : Arr) : (Cont.arr a).treeIds = ATree.slabIds a.d a.root := by
  unfold treeIds treeSlabs
  rw [← keys_slabs]
  simp [AList.keys, List.map_map, Function.comp_def]

theorem treeIds_map (m : OMap 3) : (Cont.map m).treeIds = AList.keys (MTree.slabs m.d m.root) := by
  unfold treeIds treeSlabs
  simp [AList.keys, List.map_map, Function.comp_def]

theorem slabs_of_standalone {c : Cont} (h : c.isInlined = false) : c.slabs = c.treeSlabs := by
  unfold slabs; rw [h]; rfl

theorem slabs_of_inlined {c : Cont} (h : c.isInlined = true) : c.slabs = c.treeSlabs.tail := by
  unfold slabs; rw [h]; rfl

theorem heapIds_of_standalone {c : Cont} (h : c.isInlined = false) : c.heapIds = c.treeIds := by
  unfold heapIds treeIds; rw [slabs_of_standalone h]

theorem heapIds_of_inlined {c : Cont} (h : c.isInlined = true) : c.heapIds = c.treeIds.tail := by
  unfold heapIds treeIds; rw [slabs_of_inlined h, keys_tail]

/-- the tree slabs of a container: the root slab under the value ID, then the rest -/
theorem treeSlabs_cons (c : Cont) : ∃ x, c.treeSlabs = (c.vid, x) :: c.treeSlabs.tail := by
  cases c with
  | arr a =>
    obtain ⟨d, t, ty⟩ := a
    simp only [treeSlabs, slabs_eq d t, List.map_cons, List.tail_cons]
    exact ⟨_, rfl⟩
  | map m =>
    obtain ⟨d, t, ty, cnt, seed⟩ := m
    simp only [treeSlabs, mslabs_eq d t, List.map_cons, List.tail_cons]
    exact ⟨_, rfl⟩

theorem treeIds_cons (c : Cont) : c.treeIds = c.vid :: AList.keys c.treeSlabs.tail := by
  obtain ⟨x, hx⟩ := treeSlabs_cons c
  unfold treeIds
  conv => lhs; rw [hx]
  rfl

theorem vid_mem_treeIds (c : Cont) : c.vid ∈ c.treeIds := by
  rw [treeIds_cons]; exact List.mem_cons_self

/-- `Inline` / `Uninline` only change the root slab -/
theorem inline_tail {c c' : Cont} {id : SlabID} {cx cx' : Ctx} (h : c.inline id cx = .ok (c', cx')) :
    c'.treeSlabs.tail = c.treeSlabs.tail ∧ c'.vid = c.vid := by
  unfold Cont.inline at h
  split at h
  · split at h
    · cases h
    · cases h; exact ⟨rfl, rfl⟩
  · split at h
    · cases h
    · cases h; exact ⟨rfl, rfl⟩
  · cases h

theorem uninline_tail {c c' : Cont} {id : SlabID} {cx cx' : Ctx} (h : c.uninline id cx = .ok (c', cx')) :
    c'.treeSlabs.tail = c.treeSlabs.tail ∧ c'.vid = c.vid := by
  unfold Cont.uninline at h
  split at h
  · split at h
    · cases h
    · cases h; exact ⟨rfl, rfl⟩
  · split at h
    · cases h
    · cases h; exact ⟨rfl, rfl⟩
  · cases h

end Cont

namespace World

/-! ### the root slab leaves / enters storage -/

theorem lastAction_remove1 (i id : SlabID) : lastAction [Eff.remove i] id = if i = id then some false else none := by
  rw [lastAction_single]; rfl

theorem lastAction_store1 (i id : SlabID) : lastAction [Eff.store i] id = if i = id then some true else none := by
  rw [lastAction_single]; rfl

/-- `Inline`: the root slab is removed from storage, everything else stays -/
theorem cacct_inline {c c' : Cont} {id : SlabID} {cx cx' : Ctx} (h : c.inline id cx = .ok (c', cx'))
    (hid : c.vid = id) (hnd : c.treeIds.Nodup) (ctr : Nat) :
    CAcct ctr ctr c c' [.remove id] [] ∧ c'.treeIds = c.treeIds ∧ cx' = cx.emit (.remove id) := by
  obtain ⟨h1, h2, _, h4⟩ := Cont.inline_ok h
  obtain ⟨ht, hv⟩ := Cont.inline_tail h
  have hids : c'.treeIds = c.treeIds := by rw [Cont.treeIds_cons, Cont.treeIds_cons c, ht, hv]
  have hs : c.slabs = c.treeSlabs := Cont.slabs_of_standalone h1
  have hs' : c'.slabs = c.treeSlabs.tail := by rw [Cont.slabs_of_inlined h2, ht]
  have hh : c.heapIds = id :: AList.keys c.treeSlabs.tail := by
    rw [Cont.heapIds_of_standalone h1, Cont.treeIds_cons, hid]
  have hh' : c'.heapIds = AList.keys c.treeSlabs.tail := by unfold Cont.heapIds; rw [hs']
  have hnot : id ∉ AList.keys c.treeSlabs.tail := by
    rw [Cont.treeIds_cons, hid] at hnd
    exact (List.nodup_cons.1 hnd).1
  refine ⟨⟨Nat.le_refl _, ?_, ?_, ?_, ?_, ?_, by simp, ?_⟩, hids, h4⟩
  · intro p hp
    rw [hs'] at hp
    rw [hs]
    exact Or.inl (List.mem_of_mem_tail hp)
  · intro j hj hj'
    rw [hh] at hj; rw [hh'] at hj'
    rcases List.mem_cons.1 hj with e | e
    · rw [lastAction_remove1, if_pos e.symm]
    · exact absurd e hj'
  · intro j hj
    rw [lastAction_remove1] at hj
    split at hj <;> cases hj
  · intro j hj
    rw [lastAction_remove1] at hj
    split at hj
    · rename_i e; subst e; rw [hh']; exact hnot
    · cases hj
  · intro j hj
    rw [lastAction_remove1] at hj
    split at hj
    · rename_i e; subst e; left; rw [← hid]; exact Cont.vid_mem_treeIds c
    · exact absurd rfl hj
  · intro j hj
    rw [hids] at hj; exact Or.inl hj

/-- `Uninline`: the root slab is stored, everything else stays -/
theorem cacct_uninline {c c' : Cont} {id : SlabID} {cx cx' : Ctx} (h : c.uninline id cx = .ok (c', cx'))
    (hid : c.vid = id) (ctr : Nat) :
    CAcct ctr ctr c c' [.store id] [] ∧ c'.treeIds = c.treeIds ∧ cx' = cx.emit (.store id) := by
  obtain ⟨h1, h2, _, h4⟩ := Cont.uninline_ok h
  obtain ⟨ht, hv⟩ := Cont.uninline_tail h
  have hids : c'.treeIds = c.treeIds := by rw [Cont.treeIds_cons, Cont.treeIds_cons c, ht, hv]
  have hs : c.slabs = c.treeSlabs.tail := Cont.slabs_of_inlined h1
  have hs' : c'.slabs = c'.treeSlabs := Cont.slabs_of_standalone h2
  have hh : c.heapIds = AList.keys c.treeSlabs.tail := by unfold Cont.heapIds; rw [hs]
  have hh' : c'.heapIds = id :: AList.keys c.treeSlabs.tail := by
    rw [Cont.heapIds_of_standalone h2, Cont.treeIds_cons, hv, hid, ht]
  refine ⟨⟨Nat.le_refl _, ?_, ?_, ?_, ?_, ?_, by simp, ?_⟩, hids, h4⟩
  · intro p hp
    rw [hs'] at hp
    obtain ⟨x, hx⟩ := Cont.treeSlabs_cons c'
    rw [hx] at hp
    rcases List.mem_cons.1 hp with e | e
    · right; rw [e, hv, hid, lastAction_store1, if_pos rfl]
    · left; rw [hs, ← ht]; exact e
  · intro j hj hj'
    rw [hh] at hj; rw [hh'] at hj'
    exact absurd (List.mem_cons_of_mem _ hj) hj'
  · intro j hj
    rw [lastAction_store1] at hj
    split at hj
    · rename_i e; subst e; left; rw [hh']; exact List.mem_cons_self
    · cases hj
  · intro j hj
    rw [lastAction_store1] at hj
    split at hj <;> cases hj
  · intro j hj
    rw [lastAction_store1] at hj
    split at hj
    · rename_i e; subst e; left; rw [← hid]; exact Cont.vid_mem_treeIds c
    · exact absurd rfl hj
  · intro j hj
    rw [hids] at hj; exact Or.inl hj

/-! ### from tree-level accounts to container accounts -/

/-- a container whose owned slabs did not change (e.g. an operation on an inlined array, whose only
    slab is embedded in the parent) and which touched nothing -/
theorem cacct_nil {pc pc' : Cont} (hs : pc'.slabs = pc.slabs) (ht : pc'.treeIds = pc.treeIds) (c : Nat) :
    CAcct c c pc pc' [] [] := by
  have hh : pc'.heapIds = pc.heapIds := by unfold Cont.heapIds; rw [hs]
  refine ⟨Nat.le_refl _, fun p hp => Or.inl (hs ▸ hp), fun id h1 h2 => absurd (hh ▸ h1) h2, by simp, by simp,
    by simp, by simp, fun id h => Or.inl (ht ▸ h)⟩

/-- a standalone map: the account `MAcct` of its tree is the account of the container -/
theorem cacct_of_macct_map {m m' : OMap 3} {a c c' : Nat} {E : List Eff} {cr : List SlabID}
    (h : MAcct a c c' (MTree.slabs m.d m.root) (MTree.slabs m'.d m'.root) E cr)
    (hi : m.isInlined = false) (hi' : m'.isInlined = false) (hrid : m'.rootID = m.rootID)
    (hroot : (m'.ty, m'.count, m'.seed) ≠ (m.ty, m.count, m.seed) → lastAction E m.rootID = some true) :
    CAcct c c' (.map m) (.map m') E cr := by
  have hs : (Cont.map m).slabs = (Cont.map m).treeSlabs := Cont.slabs_of_standalone hi
  have hs' : (Cont.map m').slabs = (Cont.map m').treeSlabs := Cont.slabs_of_standalone hi'
  have hk : (Cont.map m).heapIds = AList.keys (MTree.slabs m.d m.root) := by
    rw [Cont.heapIds_of_standalone (c := .map m) hi, Cont.treeIds_map]
  have hk' : (Cont.map m').heapIds = AList.keys (MTree.slabs m'.d m'.root) := by
    rw [Cont.heapIds_of_standalone (c := .map m') hi', Cont.treeIds_map]
  refine ⟨h.le, ?_, ?_, ?_, ?_, ?_, ?_, ?_⟩
  · intro p hp
    rw [hs'] at hp
    simp only [Cont.treeSlabs, List.mem_map] at hp
    obtain ⟨q, hq, rfl⟩ := hp
    rcases h.kept q hq with h1 | h1
    · by_cases hr : q.1 = m.rootID
      · by_cases hx : (m'.ty, m'.count, m'.seed) = (m.ty, m.count, m.seed)
        · left
          rw [hs]
          simp only [Cont.treeSlabs, List.mem_map]
          refine ⟨q, h1, ?_⟩
          simp only [hrid, hr, if_true, hx]
        · right; simp only; rw [hr]; exact hroot hx
      · left
        rw [hs]
        simp only [Cont.treeSlabs, List.mem_map]
        refine ⟨q, h1, ?_⟩
        simp only [hrid, hr, if_false]
    · exact Or.inr h1
  · intro id h1 h2
    rw [hk] at h1; rw [hk'] at h2
    exact h.gone id h1 h2
  · intro id h1
    rw [hk']
    exact h.stored id h1
  · intro id h1
    rw [hk']
    exact h.removed id h1
  · intro id h1
    rw [Cont.treeIds_map]
    rcases h.foot id h1 with h2 | h2
    · exact Or.inl h2
    · exact Or.inr h2.2.1
  · intro id h1
    exact (h.fresh id h1).2.1
  · intro id h1
    rw [Cont.treeIds_map] at h1 ⊢
    rcases h.keys_new id h1 with h2 | h2
    · exact Or.inl h2
    · exact Or.inr h2.2.1

/-- a standalone array: the account `Acct` of its tree is the account of the container -/
theorem cacct_of_acct_arr {a a' : Arr} {c c' : Nat} {E : List Eff} {cr : List SlabID}
    (h : Acct c (ATree.slabs a.d a.root) (ATree.slabs a'.d a'.root) E cr) (hle : c ≤ c')
    (hi : a.isInlined = false) (hi' : a'.isInlined = false) (hrid : a'.rootID = a.rootID)
    (hty : a'.ty ≠ a.ty → lastAction E a.rootID = some true) :
    CAcct c c' (.arr a) (.arr a') E cr := by
  have hs : (Cont.arr a).slabs = (Cont.arr a).treeSlabs := Cont.slabs_of_standalone hi
  have hs' : (Cont.arr a').slabs = (Cont.arr a').treeSlabs := Cont.slabs_of_standalone hi'
  have hk : (Cont.arr a).heapIds = AList.keys (ATree.slabs a.d a.root) := by
    rw [Cont.heapIds_of_standalone (c := .arr a) hi, Cont.treeIds_arr, keys_slabs]
  have hk' : (Cont.arr a').heapIds = AList.keys (ATree.slabs a'.d a'.root) := by
    rw [Cont.heapIds_of_standalone (c := .arr a') hi', Cont.treeIds_arr, keys_slabs]
  refine ⟨hle, ?_, ?_, ?_, ?_, ?_, h.fresh, ?_⟩
  · intro p hp
    rw [hs'] at hp
    simp only [Cont.treeSlabs, List.mem_map] at hp
    obtain ⟨q, hq, rfl⟩ := hp
    rcases h.kept q hq with h1 | h1
    · by_cases hr : q.1 = a.rootID
      · by_cases hx : a'.ty = a.ty
        · left
          rw [hs]
          simp only [Cont.treeSlabs, List.mem_map]
          refine ⟨q, h1, ?_⟩
          simp only [hrid, hr, if_true, hx]
        · right; simp only; rw [hr]; exact hty hx
      · left
        rw [hs]
        simp only [Cont.treeSlabs, List.mem_map]
        refine ⟨q, h1, ?_⟩
        simp only [hrid, hr, if_false]
    · exact Or.inr h1
  · intro id h1 h2
    rw [hk] at h1; rw [hk'] at h2
    exact h.gone id h1 h2
  · intro id h1
    rw [hk']
    exact h.stored id h1
  · intro id h1
    rw [hk']
    exact h.removed id h1
  · intro id h1
    rw [Cont.treeIds_arr, ← keys_slabs]
    exact h.foot id h1
  · intro id h1
    rw [Cont.treeIds_arr, ← keys_slabs] at h1 ⊢
    exact h.keys_new id h1

end World
end Atree
