import AtreeProofs.World.PopThm
/-
  The MAP-parent analogue of `C10.notify_updates_array_parent`, and its lift through a pop.
-/
namespace Atree
open Gen

/-! ### a fact about `OMap.set` / `OMap.get` that needs no invariant -/

theorem toStorableLim_ref (lim addr : Nat) (e : Elem) (c : Ctx) (r : SlabID) (he : e.pay = .ref r) :
    toStorableLim lim addr e c = (e, c) := by
  unfold toStorableLim; rw [he]

theorem hkey_set_single {α : Type} (o : ElemsOps α) (cfg : MCfg) (hL : 0 < cfg.L) (hcl : 0 < cfg.climit)
    (he : HkeyElems α) (x : SElem) (k : MKey)
    (hk : he.hkeys = [k.dig 0]) (hel : he.elems = [.single x]) (hlev : he.level = 0)
    (hsame : x.key.same k = true)
    (e : Elem) (r : SlabID) (hr : e.pay = .ref r) (c0 : Ctx) :
    ∃ he' : HkeyElems α, HkeyElems.set o cfg he 0 k e c0 = .ok (x.key, some x.val, he', c0) ∧
      he'.hkeys = [k.dig 0] ∧ (∃ sz, he'.elems = [.single ⟨x.key, e, sz⟩]) := by
  have hL' : ¬ (0 ≥ cfg.L) := by omega
  have hcl' : ¬ (0 ≥ cfg.climit) := by omega
  unfold HkeyElems.set
  simp only [hk, hel, hlev, hL', if_false, List.head?_cons, List.getLast?_singleton,
    Nat.lt_irrefl, gt_iff_lt, List.length_cons, List.length_nil, HkeyElems.findEqLt]
  simp [MElemF.count, MElemF.set, hsame, toStorableLim_ref _ _ e c0 r hr, hcl', bind, Except.bind, pure, Except.pure]

theorem hkey_get_single {α : Type} (o : ElemsOps α) (cfg : MCfg) (hL : 0 < cfg.L)
    (he : HkeyElems α) (x : SElem) (k : MKey)
    (hk : he.hkeys = [k.dig 0]) (hel : he.elems = [.single x]) (hsame : x.key.same k = true) :
    HkeyElems.get o cfg he 0 k = .ok (x.key, x.val) := by
  have hL' : ¬ (0 ≥ cfg.L) := by omega
  unfold HkeyElems.get
  simp [hk, hel, hL', HkeyElems.findEq, MElemF.get, hsame]

/-- `OMap.set` then `OMap.get` on a single-slab map holding ONE entry, under its key, for a
    reference: the key holds the new element (a too large element makes the root split fail). -/
theorem OMap.set_get_single (cfg : MCfg) (hL : 0 < cfg.L) (hcl : 0 < cfg.climit)
    (s : MDataSlab 3) (ty cnt seed : Nat) (x : SElem) (k : MKey)
    (hk : s.elems.hkeys = [k.dig 0]) (hel : s.elems.elems = [.single x]) (hlev : s.elems.level = 0)
    (hsame : x.key.same k = true)
    (e : Elem) (r : SlabID) (he : e.pay = .ref r) (c0 : Ctx) (old : Option Elem) (m' : OMap 3) (c1 : Ctx)
    (h : OMap.set cfg (⟨0, s, ty, cnt, seed⟩ : OMap 3) k e c0 = .ok (old, m', c1)) :
    m'.get cfg k = .ok (x.key, e) := by
  obtain ⟨he', hset, hk', sz, hel'⟩ := hkey_set_single (MDataSlab.eops 3) cfg hL hcl s.elems x k hk hel hlev hsame e r he c0
  unfold OMap.set at h
  simp only [MTree.set, MDataSlab.set, hset, bind, Except.bind, pure, Except.pure, OMap.promoteIfSingleChild,
    Option.isNone_some, Bool.false_eq_true, if_false] at h
  unfold OMap.splitRootIfFull at h
  split at h
  · cases h
  · rename_i v heq
    split at heq
    · exfalso
      unfold OMap.splitRoot at heq
      simp [MTree.split, MDataSlab.split, MTree.setId, MTree.setRoot, hel', bind, Except.bind] at heq
    · cases heq
      cases h
      show HkeyElems.get (MDataSlab.eops 3) cfg he' 0 k = _
      exact hkey_get_single (MDataSlab.eops 3) cfg hL he' ⟨x.key, e, sz⟩ k hk' hel' hsame

namespace World

/-- The notification reaches a MAP parent: if the child's recorded key in the parent still holds
    the child, then after `notifyParentIfNeeded` the parent's value under that key refers to the
    child with the size of the child's current form, and the child is inline exactly when it fits
    the budget of a map value under that key.  Hypotheses as in `C10.notify_updates_array_parent`
    (`hmax`: the recorded budget is the one `OrderedMap.set` recomputes; acyclic parent pointers;
    `hset`: setting the key to a reference and reading it back gives that reference). -/
theorem notify_updates_map_parent (fuel : Nat) (w : World) (x p : SlabID) (hi : HInfo) (cx : Ctx)
    (c : Cont) (pm : OMap 3) (k k0 : MKey) (el : Elem)
    (hh : AList.find? w.hinfo x = some hi) (hp : hi.parent = p) (hk : hi.key = some k)
    (hc : w.cont? x = some c) (hid : c.vid = x)
    (hpm : w.cont? p = some (.map pm)) (hget : pm.get w.mcfg k = .ok (k0, el)) (hel : el.pay = .ref x)
    (hmax : hi.maxInline = maxInlineMapValue w.T k.size - 2 * hi.wrap)
    (rank : SlabID → Nat)
    (hacyc : ∀ y h, AList.find? w.hinfo y = some h → rank h.parent < rank y)
    (hset : ∀ (e : Elem) (c0 : Ctx) (old : Option Elem) (m' : OMap 3) (c1 : Ctx), e.pay = .ref x →
        pm.set w.mcfg k e c0 = .ok (old, m', c1) → ∃ k1, m'.get w.mcfg k = .ok (k1, e))
    (w' : World) (cx' : Ctx) (h : notifyParent (fuel + 1) w x cx = .ok (w', cx')) :
    ∃ c' pm', w'.cont? x = some c' ∧ w'.cont? p = some (.map pm') ∧
      c'.vid = x ∧ c'.storedElems = c.storedElems ∧
      (c.isInlined = false ∧ c.inlinable hi.maxInline = false → w' = w ∧ cx' = cx) ∧
      (¬ (c.isInlined = false ∧ c.inlinable hi.maxInline = false) →
         c'.isInlined = c.inlinable hi.maxInline ∧
         ∃ k1 el', pm'.get w.mcfg k = .ok (k1, el') ∧ el'.pay = .ref x ∧ el'.size = World.slotSize c' hi.wrap) := by
  subst hp
  have hrk : rank hi.parent < rank x := hacyc x hi hh
  have hxp : x ≠ hi.parent := by intro he; rw [← he] at hrk; omega
  rw [notifyParent] at h
  simp only [hh, hc] at h
  split at h
  · rename_i hstay
    cases h
    refine ⟨c, pm, hc, hpm, hid, rfl, fun _ => ⟨rfl, rfl⟩, fun hn => absurd ?_ hn⟩
    simpa using hstay
  · rename_i hstay
    have hnst : ¬ (c.isInlined = false ∧ c.inlinable hi.maxInline = false) := by simpa using hstay
    simp only [hpm, hk, hget, hel, ne_eq, not_true_eq_false, if_false] at h
    split at h
    · cases h
    · rename_i old w2 cx2 hsr
      split at h
      · split at h
        · cases h
        · cases h
          rw [mapSetRaw] at hsr
          simp only [hpm] at hsr
          simp only [World.storableOf] at hsr
          split at hsr
          · cases hsr
          · rename_i e w1 cx1 hst
            split at hsr
            · cases hsr
            · rename_i old1 m' cx3 hs
              split at hsr
              · cases hsr
              · rename_i w3 cx4 hnp
                cases hsr
                obtain ⟨c1, hsd, hinl, he, hcase⟩ := childStorable_ok hc hst
                obtain ⟨f1, _, fT, fA, _, _, _⟩ := childStorable_frame hst
                have hm1 : w1.mcfg = w.mcfg := by simp [World.mcfg, fT, fA]
                have hc1 : w1.cont? x = some c1 := by
                  rcases hcase with ⟨_, h2, h3, _⟩ | ⟨_, h3, _⟩
                  · rw [h3, h2]; exact hc
                  · rw [h3]; simp
                rw [hm1] at hs
                obtain ⟨k1, hg⟩ := hset e cx1 _ m' cx3 (by rw [he]) hs
                have hr2 : RankOk rank (w1.setCont hi.parent (.map m')) := by
                  intro y h' hy
                  simp only [hinfo_setCont, f1] at hy
                  exact hacyc y h' hy
                obtain ⟨_, g2, g3⟩ := (mutual_frame rank fuel).1 _ _ _ _ _ hr2 hnp
                rw [cont?_setCont_self] at g3
                obtain ⟨cp', hcp', hsp⟩ := g3.get_some
                obtain ⟨pm', rfl, _, _, hgets⟩ := hsp.map
                refine ⟨c1, pm', ?_, ?_, hsd.vid.trans hid, hsd.storedElems, fun hs => absurd hs hnst,
                  fun _ => ⟨?_, k1, e, ?_, by rw [he], by rw [he]⟩⟩
                · rw [cont?_setCallbackMap, g2 x hxp (by omega), cont?_setCont_ne _ _ _ _ hxp]; exact hc1
                · rw [cont?_setCallbackMap]; exact hcp'
                · rw [hinl, hmax]
                · rw [hgets]; exact hg
      · cases h

variable {w w0 : World} {h : SlabID} {c0 : Cont} {es : List Elem} {cxm : Ctx} {w' : World} {cx' : Ctx}

/-- (C, map parent) the parent's value under the recorded key is in sync with the emptied child
    after the pop -/
theorem pop_updates_map_parent_g (E : Emptied w h c0 w0) {p : SlabID} {hi : HInfo} {pm : OMap 3} {k k0 : MKey} {el : Elem}
    (hh : AList.find? w.hinfo h = some hi) (hp : hi.parent = p) (hk : hi.key = some k) (hid : c0.vid = h)
    (hpm : w.cont? p = some (.map pm)) (hget : pm.get w.mcfg k = .ok (k0, el)) (hel : el.pay = .ref h)
    (hsync : c0.isInlined = false → el.size = World.slotSize c0 hi.wrap)
    (hmax : hi.maxInline = maxInlineMapValue w.T k.size - 2 * hi.wrap)
    (rank : SlabID → Nat) (hacyc : RankOk rank w)
    (hset : ∀ (e : Elem) (c1 : Ctx) (old : Option Elem) (m' : OMap 3) (c2 : Ctx), e.pay = .ref h →
        pm.set w.mcfg k e c1 = .ok (old, m', c2) → ∃ k1, m'.get w.mcfg k = .ok (k1, e))
    (hfree : NotBelow w es h) (hpfree : NotBelow w es p)
    (hn : notifyParent ((w0.forgetElems es).conts.length + 1 + 1) (w0.forgetElems es) h cxm = .ok (w', cx')) :
    ∃ c' pm' k1 el', w'.cont? h = some c' ∧ c'.vid = h ∧ c'.storedElems = [] ∧
      w'.cont? p = some (.map pm') ∧ pm'.get w.mcfg k = .ok (k1, el') ∧ el'.pay = .ref h ∧
      el'.size = World.slotSize c' hi.wrap ∧
      (c0.isInlined = false ∧ c0.inlinable hi.maxInline = false → w' = w0.forgetElems es ∧ cx' = cxm) ∧
      (¬ (c0.isInlined = false ∧ c0.inlinable hi.maxInline = false) →
        c'.isInlined = c0.inlinable hi.maxInline) := by
  have hph : p ≠ h := by
    intro hph; have := hacyc h hi hh; rw [hp, hph] at this; omega
  obtain ⟨m1, m2, _⟩ := E.mid_h hfree
  obtain ⟨o1, _, _, _⟩ := E.mid_other hpfree hph
  have hT := E.mid_T es
  have hM := E.mid_mcfg es
  obtain ⟨c', pm', hc', hpm', hvid, hse, hstay, hgo⟩ := notify_updates_map_parent
    ((w0.forgetElems es).conts.length + 1) (w0.forgetElems es) h p hi cxm c0 pm k k0 el
    (by rw [m2]; exact hh) hp hk m1 hid (by rw [o1]; exact hpm) (by rw [hM]; exact hget) hel
    (by rw [hT]; exact hmax) rank (E.mid_rankOk es hacyc) (by rw [hM]; exact hset) w' cx' hn
  rw [E.empty] at hse
  rw [hM] at hgo
  by_cases hst : c0.isInlined = false ∧ c0.inlinable hi.maxInline = false
  · obtain ⟨e1, e2⟩ := hstay hst
    subst e1; subst e2
    rw [m1] at hc'; cases hc'
    rw [o1, hpm] at hpm'; cases hpm'
    exact ⟨c0, pm, k0, el, m1, hvid, hse, by rw [o1]; exact hpm, hget, hel, hsync hst.1,
      fun _ => ⟨rfl, rfl⟩, fun hn => absurd hst hn⟩
  · obtain ⟨hinl, k1, el', g1, g2, g3⟩ := hgo hst
    exact ⟨c', pm', k1, el', hc', hvid, hse, hpm', g1, g2, g3, fun hs => absurd hs hst, fun _ => hinl⟩

end World
end Atree
