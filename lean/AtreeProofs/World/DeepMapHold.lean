import AtreeProofs.World.DeepPrep
import AtreeProofs.World.HeapMapInl
/-
  DEEP ACCOUNT, part 6: "`OMap.set` stores the holder" in the form the tracked induction needs.
  * `map_hold`      — standalone map: every slab of the new tree that locally holds a reference to
                      `y` was stored (there is one: `UniqueRef`);
  * `map_hold_inl`  — INLINED map (its root slab is embedded in the parent, but it may own external
                      collision-group slabs): every GROUP slab of the new map that locally holds a
                      reference to `y` was stored.  (New core lemma `omapInl_set_holds`, by
                      `MapHolder.set0_val`.)
-/
namespace Atree.Deep
open Gen World Codec
open MapHolder (StoredSince Ext HoldS)

variable {r : Nat}

/-! ### positions -/

/-- the values of a single data slab and its groups, from the invariant of its elements only (an
    inlined root is not a `MTreeInv` leaf) -/
theorem mvals_perm0 {T L : Nat} {DL : DigestFn L} (s : MDataSlab r) (h : ElemsInv T L DL (r + 1) 0 [] s.elems) :
    ((MTree.toList 0 s).map (·.2)).Perm ((MTree.slabs 0 s).flatMap (fun p => mslabVals p.2)) := by
  obtain ⟨_, hF⟩ := MapHolder.firstGood_of_inv h
  have h1 := MapHolder.first_vals_perm s.elems.elems hF
  rw [mslabs_zero, List.flatMap_cons, groupSlabs_eq, List.flatMap_map]
  show List.Perm _ (C10Persist.localVals (r + 1) s.elems ++ _)
  rw [MapHolder.localVals_succ]
  exact h1

/-- two different slabs of a map tree hold two different positions of the dictionary -/
theorem map_two_pos {d : Nat} {t : MTree r d}
    (hperm : ((MTree.toList d t).map (·.2)).Perm ((MTree.slabs d t).flatMap (fun p => mslabVals p.2)))
    {id1 id2 : SlabID} {sv1 sv2 : MSlabView r}
    (h1 : (id1, sv1) ∈ MTree.slabs d t) (h2 : (id2, sv2) ∈ MTree.slabs d t) (hne : id1 ≠ id2)
    {e1 e2 : Elem} (he1 : e1 ∈ mslabVals sv1) (he2 : e2 ∈ mslabVals sv2) :
    ∃ i j : Nat, i ≠ j ∧ ((MTree.toList d t).map (·.2))[i]? = some e1 ∧ ((MTree.toList d t).map (·.2))[j]? = some e2 := by
  obtain ⟨p, q, hpq, hp, hq⟩ := MapHolder.flatMap_two_pos (f := fun p : SlabID × MSlabView r => mslabVals p.2) h1 h2
    (fun he => hne (congrArg Prod.fst he)) he1 he2
  exact MapHolder.perm_two_pos hperm.symm hpq hp hq

/-- a slab of a map container as a slab of its tree -/
theorem mem_treeSlabs_map {m : OMap 3} {id : SlabID} {s : WSlab} (h : (id, s) ∈ (Cont.map m).treeSlabs) :
    ∃ sv, (id, sv) ∈ MTree.slabs m.d m.root ∧ C10Persist.slabElems s = mslabVals sv := by
  simp only [Cont.treeSlabs, List.mem_map] at h
  obtain ⟨p, hp, heq⟩ := h
  simp only [Prod.mk.injEq] at heq
  obtain ⟨rfl, rfl⟩ := heq
  exact ⟨p.2, hp, slabElems_map _ _⟩

/-- uniqueness of the holder in a map -/
theorem map_holder_unique {m : OMap 3} {y : SlabID}
    (hperm : ((MTree.toList m.d m.root).map (·.2)).Perm ((MTree.slabs m.d m.root).flatMap (fun p => mslabVals p.2)))
    (huq : ∀ (i j : Nat) (e1 e2 : Elem), (m.toList.map (·.2))[i]? = some e1 → (m.toList.map (·.2))[j]? = some e2 →
      e1.pay = .ref y → e2.pay = .ref y → i = j)
    {id id0 : SlabID} {sv sv0 : MSlabView 3} (h : (id, sv) ∈ MTree.slabs m.d m.root)
    (h0 : (id0, sv0) ∈ MTree.slabs m.d m.root) {e1 e : Elem} (he1 : e1 ∈ mslabVals sv) (he : e ∈ mslabVals sv0)
    (hp1 : e1.pay = .ref y) (hp : e.pay = .ref y) : id = id0 := by
  apply Classical.byContradiction
  intro hne
  obtain ⟨i, j, hij, hi, hj⟩ := map_two_pos hperm h h0 hne he1 he
  exact hij (huq i j e1 e hi hj hp1 hp)

/-! ### standalone maps -/

theorem map_hold {T : Nat} {Dm : DigestFn 4} {cfg : MCfg} {m m' : OMap 3} (hcfg : CfgOk cfg T m)
    (hinv : MapInv T Dm m) {k : MKey} {e : Elem} {y : SlabID} (hv2 : e.size ≤ maxInlineMapValue T k.size)
    (hpe : e.pay = .ref y) {c c' : Ctx} {old : Option Elem}
    (hs : m.set cfg k e c = .ok (old, m', c')) (hinv' : MapInv T Dm m')
    (huq : ∀ (i j : Nat) (e1 e2 : Elem), (m'.toList.map (·.2))[i]? = some e1 → (m'.toList.map (·.2))[j]? = some e2 →
      e1.pay = .ref y → e2.pay = .ref y → i = j) :
    ∀ id s, (id, s) ∈ (Cont.map m').treeSlabs → (∃ e1 ∈ C10Persist.slabElems s, e1.pay = .ref y) →
      StoredSince c c' id := by
  intro id s hm ⟨e1, he1, hp1⟩
  obtain ⟨id0, sv0, hm0, he0, hst⟩ := MapHolder.omap_set_holds hcfg hinv hv2 c hs
  obtain ⟨sv, hsv, hel⟩ := mem_treeSlabs_map hm
  rw [hel] at he1
  have hperm := mslab_vals_perm m'.d true m'.root hinv'.tree
  have : id = id0 := map_holder_unique hperm huq hsv hm0 he1 he0 hp1 hpe
  subst this
  exact hst

/-! ### inlined maps -/

/-- `MDataSlab.set` on an INLINED data slab: the written value is stored locally in the slab itself
    (nothing is stored: the slab is embedded in its parent), or in an external group slab, which
    was stored -/
theorem mdataInl_set_holds {cfg : MCfg} {T L : Nat} {DL : DigestFn L} (s s' : MDataSlab r) {k : MKey} {v : Elem}
    {c c' : Ctx} {ks : MKey} {old : Option Elem} (hinl : s.inlined = true)
    (hinv : ElemsInv T L DL (r + 1) 0 [] s.elems)
    (hfit : v.size ≤ maxInlineMapValue cfg.T k.size)
    (h : s.set cfg k v c = .ok (ks, old, s', c')) :
    v ∈ C10Persist.localVals (r + 1) s'.elems ∨
    ∃ id g, (id, MSlabView.group g) ∈ s'.groupSlabs ∧ v ∈ C10Persist.localVals r g.elems ∧ StoredSince c c' id := by
  unfold MDataSlab.set at h
  obtain ⟨⟨ks', old', elems, c1⟩, hset, h⟩ := mbind_eq_ok h
  simp only [pure, Except.pure, Except.ok.injEq, Prod.mk.injEq] at h
  obtain ⟨_, _, rfl, rfl⟩ := h
  obtain ⟨hlen, hF⟩ := MapHolder.firstGood_of_inv hinv
  simp only [MDataSlab.storeIfNotInlined, hinl, if_true]
  rcases MapHolder.set0_val (MapHolder.MElems.opsVal cfg v r) hlen hF hfit hset with
    ⟨⟨el, hel, hv⟩, _⟩ | ⟨id, sz, g, hel, hv, hst⟩
  · left
    show v ∈ C10Persist.localVals (r + 1) elems
    rw [MapHolder.localVals_succ]
    exact List.mem_flatMap.2 ⟨el, hel, hv⟩
  · right
    refine ⟨id, g, ?_, hv, hst⟩
    simp only [MDataSlab.groupSlabs, List.mem_filterMap]
    exact ⟨_, hel, rfl⟩

/-- `OMap.set` on an inlined map that stays inlined -/
theorem omapInl_set_holds {cfg : MCfg} {T L : Nat} {DL : DigestFn L} (s : MDataSlab r) (ty cnt seed : Nat) {k : MKey}
    {v : Elem} {c c' : Ctx} {old : Option Elem} {m' : OMap r} (hinl : s.inlined = true)
    (hinv : ElemsInv T L DL (r + 1) 0 [] s.elems) (hfit : v.size ≤ maxInlineMapValue cfg.T k.size)
    (h : OMap.set cfg (⟨0, s, ty, cnt, seed⟩ : OMap r) k v c = .ok (old, m', c')) (hinl' : m'.isInlined = true) :
    ∃ (s' : MDataSlab r) (cnt' : Nat), m' = ⟨0, s', ty, cnt', seed⟩ ∧
      (v ∈ C10Persist.localVals (r + 1) s'.elems ∨
       ∃ id g, (id, MSlabView.group g) ∈ s'.groupSlabs ∧ v ∈ C10Persist.localVals r g.elems ∧ StoredSince c c' id) := by
  simp only [OMap.set, bind, Except.bind, pure, Except.pure] at h
  split at h
  · cases h
  · rename_i res hset
    obtain ⟨ks, old1, t', c1⟩ := res
    have hset' : s.set cfg k v c = .ok (ks, old1, t', c1) := hset
    have hh := mdataInl_set_holds s t' hinl hinv hfit hset'
    simp only [OMap.promoteIfSingleChild] at h
    split at h
    · cases h
    · rename_i res2 hfix
      simp only [Except.ok.injEq, Prod.mk.injEq] at h
      obtain ⟨_, rfl, rfl⟩ := h
      obtain ⟨m3, c3⟩ := res2
      rcases OMap.splitRootIfFull_cases hfix with hsp | ⟨rfl, rfl⟩
      · rw [OMap.splitRoot_notInl hsp] at hinl'
        cases hinl'
      · exact ⟨t', _, rfl, hh⟩

theorem map_hold_inl {T : Nat} {Dm : DigestFn 4} {cfg : MCfg} {m m' : OMap 3} {ctr ctr' : Nat} (hcfg : CfgOk cfg T m)
    (hinv : MapInvInl T Dm m ctr) {k : MKey} {e : Elem} {y : SlabID} (hv2 : e.size ≤ maxInlineMapValue T k.size)
    (hpe : e.pay = .ref y) {c c' : Ctx} {old : Option Elem}
    (hs : m.set cfg k e c = .ok (old, m', c')) (hinv' : MapInvInl T Dm m' ctr')
    (huq : ∀ (i j : Nat) (e1 e2 : Elem), (m'.toList.map (·.2))[i]? = some e1 → (m'.toList.map (·.2))[j]? = some e2 →
      e1.pay = .ref y → e2.pay = .ref y → i = j) :
    ∀ id s, (id, s) ∈ (Cont.map m').treeSlabs → id ≠ m'.rootID → (∃ e1 ∈ C10Persist.slabElems s, e1.pay = .ref y) →
      StoredSince c c' id := by
  intro id s hm hnr ⟨e1, he1, hp1⟩
  obtain ⟨s0, ty, cnt, seed, rfl, _, hi0, _, hel0, _⟩ := hinv
  have hfit : e.size ≤ maxInlineMapValue cfg.T k.size := by rw [hcfg.1]; exact hv2
  have hinl' : m'.isInlined = true := by
    obtain ⟨s1, ty1, cnt1, seed1, rfl, _, hi1, _⟩ := hinv'
    exact hi1
  obtain ⟨s', cnt', rfl, hcase⟩ := omapInl_set_holds s0 ty cnt seed hi0 hel0 hfit hs hinl'
  obtain ⟨s1, ty1, cnt1, seed1, heq, _, _, _, hel1, _⟩ := hinv'
  cases heq
  obtain ⟨sv, hsv, hel⟩ := mem_treeSlabs_map hm
  rw [hel] at he1
  have hperm := mvals_perm0 s' hel1
  have hroot : ((s'.hdr.id, MSlabView.data s') : SlabID × MSlabView 3) ∈ MTree.slabs 0 s' := by
    rw [mslabs_zero]; exact List.mem_cons_self
  rcases hcase with hloc | ⟨id0, g, hg, hvg, hst⟩
  · exfalso
    exact hnr (map_holder_unique (m := ⟨0, s', ty, cnt', seed⟩) hperm huq hsv hroot he1 hloc hp1 hpe)
  · have hg' : (id0, MSlabView.group g) ∈ MTree.slabs 0 s' := by
      rw [mslabs_zero]; exact List.mem_cons_of_mem _ hg
    have : id = id0 := map_holder_unique (m := ⟨0, s', ty, cnt', seed⟩) hperm huq hsv hg' he1 hvg hp1 hpe
    subst this
    exact hst

end Atree.Deep
