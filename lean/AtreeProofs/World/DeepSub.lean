import AtreeProofs.World.DeepStor
import AtreeProofs.World.StoreHolderArr
import AtreeProofs.World.StoreHolderMap
import AtreeProofs.World.HeapCont
/-
  DEEP ACCOUNT, part 2: the local elements of a slab are elements of the container that owns it
  (no invariant needed), hence a chain `DRef` from a heap slab only meets containers that are HELD
  by a live container (`held_of_dref`); the relation `FormRel` between a container and the same
  container after an inline / un-inline transition.
-/
namespace Atree.Deep
open Atree Gen World Codec

/-! ### local values are values -/

theorem localVals_sub_toList : ∀ (r : Nat) (e : MElems r), ∀ v ∈ C10Persist.localVals r e, v ∈ ((MElems.ops r).toList e).map (·.2)
  | 0, (se : SingleElems), v, hv => by
    have hv : v ∈ se.elems.map (·.val) := hv
    show v ∈ (SingleElems.elems se |>.map (fun x => (x.key, x.val))).map (·.2)
    rw [List.map_map]
    exact hv
  | r + 1, (he : HkeyElems (MElems r)), v, hv => by
    show v ∈ (he.elems.flatMap (fun el => el.toList (MElems.ops r))).map (·.2)
    have hv : v ∈ he.elems.flatMap (fun el => match el with
        | .single x => [x.val]
        | .inl g => C10Persist.localVals r g
        | .ext _ _ _ => []) := hv
    obtain ⟨el, hel, hv⟩ := List.mem_flatMap.1 hv
    rw [List.map_flatMap]
    refine List.mem_flatMap.2 ⟨el, hel, ?_⟩
    cases el with
    | single x =>
      simp only [List.mem_singleton] at hv
      subst hv
      simp [MElemF.toList]
    | inl g => exact localVals_sub_toList r g v hv
    | ext _ _ _ => cases hv

/-- the values of an external group referenced from the first level are values of the data slab -/
theorem group_sub_toList {r : Nat} (s : MDataSlab r) (id : SlabID) (g : GroupSlab (MElems r))
    (h : (id, MSlabView.group g) ∈ s.groupSlabs) : ∀ v ∈ C10Persist.localVals r g.elems, v ∈ (MTree.toList 0 s).map (·.2) := by
  intro v hv
  simp only [MDataSlab.groupSlabs, List.mem_filterMap] at h
  obtain ⟨el, hel, heq⟩ := h
  cases el with
  | single x => cases heq
  | inl g0 => cases heq
  | ext id0 sz g0 =>
    simp only [Option.some.injEq, Prod.mk.injEq, MSlabView.group.injEq] at heq
    obtain ⟨rfl, rfl⟩ := heq
    show v ∈ (HkeyElems.toList (MElems.ops r) s.elems).map (·.2)
    show v ∈ (s.elems.elems.flatMap (fun el => el.toList (MElems.ops r))).map (·.2)
    rw [List.map_flatMap]
    exact List.mem_flatMap.2 ⟨_, hel, localVals_sub_toList r g0.elems v hv⟩

/-- a locally stored value of a slab of a map tree is a value of the dictionary (no invariant) -/
theorem mslabVals_sub : ∀ {r : Nat} (d : Nat) (t : MTree r d) (id : SlabID) (sv : MSlabView r),
    (id, sv) ∈ MTree.slabs d t → ∀ v ∈ mslabVals sv, v ∈ (MTree.toList d t).map (·.2)
  | r, 0, (s : MDataSlab r), id, sv, h, v, hv => by
    rw [mslabs_zero] at h
    rcases List.mem_cons.1 h with h | h
    · simp only [Prod.mk.injEq] at h
      obtain ⟨_, rfl⟩ := h
      exact localVals_sub_toList (r + 1) s.elems v hv
    · have h' := h
      simp only [MDataSlab.groupSlabs, List.mem_filterMap] at h'
      obtain ⟨el, _, heq⟩ := h'
      cases el with
      | single x => cases heq
      | inl g0 => cases heq
      | ext id0 sz g0 =>
        simp only [Option.some.injEq, Prod.mk.injEq] at heq
        obtain ⟨rfl, rfl⟩ := heq
        exact group_sub_toList s _ g0 h v hv
  | r, d + 1, (m : MMetaSlab (MTree r d)), id, sv, h, v, hv => by
    rw [mslabs_succ] at h
    rcases List.mem_cons.1 h with h | h
    · simp only [Prod.mk.injEq] at h
      obtain ⟨_, rfl⟩ := h
      cases hv
    · obtain ⟨child, hc, hin⟩ := List.mem_flatMap.1 h
      show v ∈ (m.children.flatMap (MTree.toList d)).map (·.2)
      rw [List.map_flatMap]
      exact List.mem_flatMap.2 ⟨child, hc, mslabVals_sub d child id sv hin v hv⟩

/-- THE LOCAL ELEMENTS OF A SLAB OF A CONTAINER'S TREE ARE STORED ELEMENTS OF THE CONTAINER -/
theorem slabElems_sub {c : Cont} {id : SlabID} {s : WSlab} (h : (id, s) ∈ c.treeSlabs) :
    ∀ e ∈ C10Persist.slabElems s, e ∈ c.storedElems := by
  intro e he
  cases c with
  | arr a =>
    simp only [Cont.treeSlabs, List.mem_map] at h
    obtain ⟨p, hp, heq⟩ := h
    simp only [Prod.mk.injEq] at heq
    obtain ⟨rfl, rfl⟩ := heq
    obtain ⟨pid, ps⟩ := p
    cases ps with
    | data s0 => exact leaf_elems_sub a.d a.root pid s0 hp e he
    | index _ _ _ _ => cases he
  | map m =>
    simp only [Cont.treeSlabs, List.mem_map] at h
    obtain ⟨p, hp, heq⟩ := h
    simp only [Prod.mk.injEq] at heq
    obtain ⟨rfl, rfl⟩ := heq
    obtain ⟨pid, ps⟩ := p
    rw [slabElems_map] at he
    exact mslabVals_sub m.d m.root pid ps hp e he

theorem slabs_sub_treeSlabs (c : Cont) : ∀ p ∈ c.slabs, p ∈ c.treeSlabs := by
  intro p hp
  unfold Cont.slabs at hp
  split at hp
  · exact List.mem_of_mem_tail hp
  · exact hp

/-- the elements the embedded form renders are stored elements of the container -/
theorem inlElems_sub (c : Cont) : ∀ e ∈ inlElems c, e ∈ c.storedElems := by
  intro e he
  cases c with
  | arr a =>
    obtain ⟨d, root, ty⟩ := a
    cases d with
    | zero => exact he
    | succ d => cases he
  | map m =>
    obtain ⟨d, root, ty, cnt, seed⟩ := m
    cases d with
    | zero => exact localVals_sub_toList 4 (root : MDataSlab 3).elems e he
    | succ d => cases he

/-! ### chains from a heap slab only meet containers that are held -/

theorem holds_of_elem {w : World} {q x : SlabID} {qc : Cont} {e : Elem} (hq : w.cont? q = some qc)
    (he : e ∈ qc.storedElems) (hp : e.pay = .ref x) : World.Holds w q x :=
  ⟨qc, hq, by
    simp only [Cont.pays, List.mem_map]
    exact ⟨e, he, hp⟩⟩

/-- a container reached from the local elements of a heap slab is held by a live container -/
theorem held_of_dref {w : World} {id : SlabID} {s : WSlab} {x : SlabID} (hs : w.HasSlab id s)
    (hx : DRef w (C10Persist.slabElems s) x) : ∃ q, World.Holds w q x := by
  obtain ⟨z, cz, hz, hm⟩ := hs
  rcases hx.last with ⟨e, he, hp⟩ | ⟨y, cy, _, hcy, _, e, he, hp⟩
  · exact ⟨z, holds_of_elem hz (slabElems_sub (slabs_sub_treeSlabs cz _ hm) e he) hp⟩
  · exact ⟨y, holds_of_elem hcy (inlElems_sub cy e he) hp⟩

/-- the chain is the same in two worlds that agree on every held container -/
theorem DRef.congr_held {w w' : World} {id : SlabID} {s : WSlab} {x : SlabID} (hs : w.HasSlab id s)
    (hx : DRef w (C10Persist.slabElems s) x) (hc : ∀ z, (∃ q, World.Holds w q z) → w'.cont? z = w.cont? z) :
    DRef w' (C10Persist.slabElems s) x :=
  hx.congr (fun z hz => hc z (held_of_dref hs hz))

/-! ### the same container in another form -/

/-- `c'` is `c`, or `c` after `Inline` / `Uninline`: the form flipped, every slab but the root slab
    is the same, same value ID -/
def FormRel (c c' : Cont) : Prop :=
  c' = c ∨ (c'.isInlined = !c.isInlined ∧ c'.treeSlabs.tail = c.treeSlabs.tail ∧ c'.vid = c.vid)

theorem FormRel.refl (c : Cont) : FormRel c c := Or.inl rfl

theorem FormRel.tail {c c' : Cont} (h : FormRel c c') : c'.treeSlabs.tail = c.treeSlabs.tail := by
  rcases h with rfl | ⟨_, h, _⟩
  · rfl
  · exact h

theorem FormRel.vid {c c' : Cont} (h : FormRel c c') : c'.vid = c.vid := by
  rcases h with rfl | ⟨_, _, h⟩
  · rfl
  · exact h

theorem FormRel.of_inline {c c' : Cont} {id : SlabID} {cx cx' : Ctx} (h : c.inline id cx = .ok (c', cx')) :
    FormRel c c' := by
  obtain ⟨h1, h2, _, _⟩ := Cont.inline_ok h
  obtain ⟨h3, h4⟩ := Cont.inline_tail h
  exact Or.inr ⟨by rw [h1, h2]; rfl, h3, h4⟩

theorem FormRel.of_uninline {c c' : Cont} {id : SlabID} {cx cx' : Ctx} (h : c.uninline id cx = .ok (c', cx')) :
    FormRel c c' := by
  obtain ⟨h1, h2, _, _⟩ := Cont.uninline_ok h
  obtain ⟨h3, h4⟩ := Cont.uninline_tail h
  exact Or.inr ⟨by rw [h1, h2]; rfl, h3, h4⟩

/-- a container of the same form is the same container -/
theorem FormRel.eq_of_form {c c' : Cont} (h : FormRel c c') (hi : c'.isInlined = c.isInlined) : c' = c := by
  rcases h with h | ⟨h, _, _⟩
  · exact h
  · rw [hi] at h
    cases hc : c.isInlined <;> simp [hc] at h

/-- a slab owned by `c'` is a slab of the tree of `c`, unless it is the root slab of `c'` -/
theorem FormRel.slab_cases {c c' : Cont} (h : FormRel c c') {p : SlabID × WSlab} (hp : p ∈ c'.slabs) :
    p ∈ c.treeSlabs.tail ∨ (c' = c ∧ c.isInlined = false ∧ p ∈ c.treeSlabs) ∨
      (p.1 = c.vid ∧ c'.isInlined = false ∧ c.isInlined = true) := by
  rcases Bool.eq_false_or_eq_true c'.isInlined with hi' | hi'
  · rw [Cont.slabs_of_inlined hi'] at hp
    exact Or.inl (by rw [← h.tail]; exact hp)
  · rw [Cont.slabs_of_standalone hi'] at hp
    rcases h with rfl | ⟨h1, h2, h3⟩
    · exact Or.inr (Or.inl ⟨rfl, hi', hp⟩)
    · have hi : c.isInlined = true := by
        rw [hi'] at h1
        cases hc : c.isInlined <;> simp [hc] at h1 ⊢
      obtain ⟨x, hx⟩ := Cont.treeSlabs_cons c'
      rw [hx] at hp
      rcases List.mem_cons.1 hp with e | e
      · exact Or.inr (Or.inr ⟨by rw [e, h3], hi', hi⟩)
      · exact Or.inl (by rw [← h2]; exact e)

end Atree.Deep
