import AtreeProofs.World.DeepOpsArr
import AtreeProofs.World.C11Aux
/-
  DEEP ACCOUNT, part 12: `OrderedMap.Set`, `OrderedMap.Remove` (membership form `DeepM`).
-/
namespace Atree.Deep
open Gen World Codec
open MapHolder (StoredSince Ext)

variable {D : SlabID → DigestFn 4}

theorem key_value_unique {l : List (MKey × Elem)} (hd : KeysDistinct l) {k : MKey} {v1 v2 : Elem}
    (h1 : (k, v1) ∈ l) (h2 : (k, v2) ∈ l) : v1 = v2 := by
  obtain ⟨A, B, rfl⟩ := List.append_of_mem h1
  have hz := keysDistinct_zipper hd
  rcases List.mem_append.1 h2 with h | h
  · exact absurd rfl (hz _ (List.mem_append.2 (Or.inl h)))
  · rcases List.mem_cons.1 h with h | h
    · cases h; rfl
    · exact absurd rfl (hz _ (List.mem_append.2 (Or.inr h)))

/-- `OrderedMap.Set` -/
theorem mapSet_deepM {rank0 : SlabID → Nat} {w w' : World} {p : SlabID} {k : MKey} {v : WVal} {cx cx' : Ctx}
    {old' : Option Elem}
    (H0 : WorldOkPK D rank0 (fun _ => False) w cx.ctr) (Hh : HeapOk w cx.ctr) (hh : HandleOk w p)
    (hk : KeyOk w.T 4 (D p) k) (hv : WValOk w p (maxInlineMapValue w.T k.size) v)
    (h : w.mapSet p k v cx = .ok (old', w', cx')) : DeepM w cx w' cx' := by
  obtain ⟨H', _, hset, _, _, _, _⟩ := C10W.worldOk'_mapSet_all D w p k v cx old' w' cx' ⟨rank0, H0⟩ hh hk hv h
  have U' := uniqueRef_of_ok' H'
  obtain ⟨rank, hrk, hv'⟩ := C09W.wvalH_of_ok H0 hv
  have HI := (HInv.of_pk H0).with_rank hrk
  have P := WPre.of_inv HI Hh
  obtain ⟨old, w3c, cx3, hsr, hcase⟩ := mapSet_split h
  obtain ⟨m, e, w1, cx1, m', cx2, w3, hp, hst, hs, hnp, rfl⟩ := mapSetRaw_split hsr
  obtain ⟨P1, post1, hctr1, hm1, hh1, hco1, he1, he2, hepay⟩ :=
    storableOf_pre P hv' (maxInlineMapValue_le_arr _ _) hst
  obtain ⟨_, _, _, _, hfr, _⟩ := storableOf_frame hst
  have hS01 := contsSig_storableOf hst
  have hT1 : w1.T = w.T := P1.T
  have hp1 : w1.cont? p = some (.map m) := by rw [hco1 p (Nat.le_refl _)]; exact hp
  have hlegal := P1.legal
  have hpok : MapOk w1.T (D p) m cx1.ctr := (P1.conts p _ hp1).1
  have hvid : m.rootID = p := (P1.conts p _ hp1).2.1
  have hpaddr : p.addr = w1.addr := (P1.conts p _ hp1).2.2.1
  have hroom := P1.map_room hp1 (hco1 p (Nat.le_refl _))
  have hcfg := P1.cfgOk hp1
  have hk1 : KeyOk w1.T 4 (D p) k := by rw [hT1]; exact hk
  have he2' : e.size ≤ maxInlineMapValue w1.T k.size := by rw [hT1]; exact he2
  have hvr : ValueOkR w1.T k.size e := ValueOkR.of_le he1 he2'
  obtain ⟨heff, hok', hinl', hrid, hle, hsz⟩ := hpok.set_ok hlegal hcfg hk1 hvr hroom hs
  have hsv : storedValue w1.mcfg k e cx1 = e := by
    show (toStorableLim (maxInlineMapValue w1.T k.size) w1.addr e cx1).1 = e
    rw [toStorableLim_of_le _ _ _ _ he2']
  rw [hsv] at heff
  have hma : m.addr = w1.addr := by
    show m.rootID.addr = w1.addr
    rw [hvid, hpaddr]
  have htree0 : TreeOk m.addr cx1.ctr (.map m) := by
    rw [hma]; exact P1.heap.treeOk hp1
  obtain ⟨E, C, hlog, hca, _, _, htree⟩ := cstep_map_set hlegal hpok hcfg hk1 hvr hroom htree0 hs
  rw [hma] at htree
  obtain ⟨P2, hsame2, post12⟩ := mutate_pre (w2 := w1.setCont p (.map m')) P1
    (fun z hz => hco1 z (Nat.le_of_lt hz)) hp1 hlog hca hok' htree (hrid.trans hvid)
    (by
      intro hi0'
      have hi0 : m.isInlined = true := by rw [← hinl']; exact hi0'
      have h1 := hsz hi0
      show m'.rootHdr.size ≤ w1.T
      have : m.rootHdr.size ≤ maxInlineArr w1.T := by
        have := P1.inv0.room p (.map m) (by rw [← hco1 p (Nat.le_refl _)]; exact hp1) hi0
        rw [← P1.T] at this
        exact this
      have := inline_plus_entry_le w1.T hlegal
      omega)
    rfl
    (by
      intro x hx
      simp only [Cont.pays, Cont.storedElems, List.mem_map] at hx ⊢
      obtain ⟨e', ⟨q, hq, rfl⟩, hpe⟩ := hx
      rcases heff with ⟨_, _, A, B, hA, hB⟩ | ⟨v0, A, B, _, hA, hB⟩
      · rw [hB] at hq
        rcases List.mem_append.1 hq with h1 | h1
        · exact Or.inl ⟨q.2, ⟨q, by rw [hA]; exact List.mem_append.2 (Or.inl h1), rfl⟩, hpe⟩
        · rcases List.mem_cons.1 h1 with h2 | h2
          · subst h2; exact Or.inr (hepay x hpe)
          · exact Or.inl ⟨q.2, ⟨q, by rw [hA]; exact List.mem_append.2 (Or.inr h2), rfl⟩, hpe⟩
      · rw [hB] at hq
        rcases List.mem_append.1 hq with h1 | h1
        · exact Or.inl ⟨q.2, ⟨q, by rw [hA]; exact List.mem_append.2 (Or.inl h1), rfl⟩, hpe⟩
        · rcases List.mem_cons.1 h1 with h2 | h2
          · subst h2; exact Or.inr (hepay x hpe)
          · exact Or.inl ⟨q.2, ⟨q, by rw [hA]; exact List.mem_append.2 (Or.inr (List.mem_cons_of_mem _ h2)), rfl⟩, hpe⟩)
    (SameTab.refl _)
  have h2p : (w1.setCont p (.map m')).cont? p = some (.map m') := cont?_setCont_self _ _ _
  have h2o : ∀ z, z ≠ p → (w1.setCont p (.map m')).cont? z = w1.cont? z := fun z hz => cont?_setCont_ne _ _ _ _ hz
  have hpar2 : HandleOk (w1.setCont p (.map m')) p :=
    handleOk_mutate P1.rank P2.rank hp1 h2p h2o rfl rfl (fun _ _ _ => rfl) (handleOk_storableOf hst hh)
  have ND := notifyDeep D rank _ w cx.ctr _ p cx2 w3 cx3 P2 hsame2 hpar2 hnp
  have post23 := notifyHeap D rank _ w cx.ctr _ p cx2 w3 cx3 P2 hsame2 hnp
  have hcw : ∀ z, (w3.setCallbackMap p k v).cont? z = w3.cont? z := fun z => cont?_setCallbackMap _ _ _ _ _
  have post23c : Post (w1.setCont p (.map m')) cx2 (w3.setCallbackMap p k v) cx3 :=
    post23.congr_right hcw (addr_setCallbackMap _ _ _ _)
  obtain ⟨m0, m'', e'', oldo, hp0, hp', heff'', hbackS, _, _, hch⟩ := hset
  rw [hp] at hp0; cases hp0
  have hmem'' : (k, e'') ∈ m''.toList := by
    rcases heff'' with ⟨_, _, A, B, _, hB⟩ | ⟨v0, A, B, _, _, hB⟩ <;> rw [hB] <;> simp
  have hMvP : ∀ m1, MvOf v m1 → (∀ q, ¬ World.Holds w q m1) ∧ World.Holds w' p m1 ∧ (w'.cont? m1).isSome := by
    rintro m1 ⟨wr, rfl⟩
    obtain ⟨hlive, hnone, _, _⟩ := hv
    obtain ⟨hpe, _, c, hc, _⟩ := hch m1 wr rfl
    refine ⟨hnone, ⟨_, hp', ?_⟩, by rw [hc]; rfl⟩
    simp only [Cont.pays, Cont.storedElems, List.mem_map]
    exact ⟨e'', ⟨(k, e''), hmem'', rfl⟩, hpe⟩
  have hAz : ∀ z, z ≠ p → ¬ MvOf v z → (w1.setCont p (.map m')).cont? z = w.cont? z := by
    intro z hz hzv
    rw [h2o z hz]
    exact hfr z (fun wr hvz => hzv ⟨wr, hvz⟩)
  have hlive3 : ∀ z, z ≠ p → (w3.cont? z).isSome → (w.cont? z).isSome := by
    intro z hz h3
    rw [ND.sig.isSome, h2o z hz, hS01.isSome] at h3
    exact h3
  rcases hcase with ⟨rfl, rfl, rfl⟩ | ⟨o, o', ov, rfl, hun⟩
  · -- a new key: nothing handed back
    have U3 : UniqueRef w3 := uniqueRef_congr (fun z => (hcw z).symm) (T_setCallbackMap _ _ _ _).symm U'
    exact deep_of_track (p := p) (Mv := MvOf v) (Mo := fun _ => False) hAz (fun z _ => hcw z) (fun h => h)
      (by rw [hp]; rfl) (by rw [hp']; rfl) (inl_of_form hp h2p hinl') hMvP (fun m1 hm => absurd hm id)
      (ND.track U3) ((ext_of_post post1).trans (ext_of_post post12)) (ext_of_post post23) (Ext.refl _)
      (fun id s hs => Or.inl (hasSlab_congr (fun z => (hcw z).symm) hs)) (kept_of_post post23) U'
  · -- an overwrite: the old value is handed back
    have post34 := uninlineIfNeeded_post post23c.heapOk post23c.idsOk hun
    have hu4 := uninline_conts hun
    have U3 : UniqueRef w3 := by
      have U3c := (contsSig_uninline hun).symm.uniqueRef U'
      exact uniqueRef_congr (fun z => (hcw z).symm) (T_setCallbackMap _ _ _ _).symm U3c
    have hko : (k, o) ∈ m.toList := by
      rcases heff with ⟨hn, _⟩ | ⟨v0, A, B, hv0, hA, _⟩
      · cases hn
      · cases hv0; rw [hA]; simp
    have hB : ∀ z, ¬ (o.pay = .ref z ∧ (w3.cont? z).isSome) → w'.cont? z = w3.cont? z := by
      intro z hz
      rw [hu4 z (by rw [hcw]; exact hz), hcw]
    have hpne : ¬ (o.pay = .ref p ∧ (w3.cont? p).isSome) := by
      rintro ⟨hpp, _⟩
      have hH : World.Holds w p p :=
        ⟨_, hp, by
          simp only [Cont.pays, Cont.storedElems, List.mem_map]
          exact ⟨o, ⟨(k, o), hko, rfl⟩, hpp⟩⟩
      have := HI.rank p p hH (by rw [hp]; rfl)
      omega
    have hback : HandedBack w w' o := by
      rcases heff'' with ⟨_, hnone, _⟩ | ⟨v0, A, B, hv0, hA, _⟩
      · exact absurd rfl (hnone _ hko)
      · obtain ⟨_, _, _, hb⟩ := hbackS v0 hv0
        have hk0 : (k, v0) ∈ m.toList := by rw [hA]; simp
        have hd : KeysDistinct m.toList := hpok.distinct
        rw [key_value_unique hd hko hk0]
        exact hb
    refine deep_of_track (p := p) (Mv := MvOf v) (Mo := fun z => o.pay = .ref z ∧ (w3.cont? z).isSome)
      hAz hB hpne (by rw [hp]; rfl) (by rw [hp']; rfl) (inl_of_form hp h2p hinl') hMvP ?_
      (ND.track U3) ((ext_of_post post1).trans (ext_of_post post12)) (ext_of_post post23) (ext_of_post post34)
      ?_ (kept_of_post post23) U'
    · rintro m1 ⟨hm, hl3⟩
      have hmp : m1 ≠ p := fun e => hpne ⟨e ▸ hm, e ▸ hl3⟩
      obtain ⟨c, hc⟩ := Option.isSome_iff_exists.1 (hlive3 m1 hmp hl3)
      obtain ⟨c', _, _, _, _, hno⟩ := hback m1 c hm hc
      exact hno
    · intro id s hs
      rcases kept_of_post post34 id s hs with h1 | h1
      · exact Or.inl (hasSlab_congr (fun z => (hcw z).symm) h1)
      · exact Or.inr h1

/-- `OrderedMap.Remove` -/
theorem mapRemove_deepM {rank0 : SlabID → Nat} {w w' : World} {p : SlabID} {k : MKey} {cx cx' : Ctx} {rk : MKey}
    {rv' : Elem}
    (H0 : WorldOkPK D rank0 (fun _ => False) w cx.ctr) (Hh : HeapOk w cx.ctr) (hh : HandleOk w p)
    (hk : KeyOk w.T 4 (D p) k) (h : w.mapRemove p k cx = .ok (rk, rv', w', cx')) : DeepM w cx w' cx' := by
  obtain ⟨H', _, hrem, _, _, _, _⟩ := C10W.worldOk'_mapRemove_all D w p k cx rk rv' w' cx' ⟨rank0, H0⟩ hh hk h
  have U' := uniqueRef_of_ok' H'
  have HI := HInv.of_pk H0
  have P := WPre.of_inv HI Hh
  unfold mapRemove at h
  split at h
  · rename_i m hp
    split at h
    · cases h
    · rename_i rk0 rv m' cx2 hs
      simp only [bind, Except.bind] at h
      split at h
      · cases h
      · rename_i r hnp
        obtain ⟨w3, cx3⟩ := r
        simp only at h
        split at h
        · cases h
        · rename_i r2 hun
          obtain ⟨o', ov, w4, cx4⟩ := r2
          simp only [pure, Except.pure] at h
          cases h
          have hlegal := P.legal
          have hpok : MapOk w.T (D p) m cx.ctr := (P.conts p _ hp).1
          have hvid : m.rootID = p := (P.conts p _ hp).2.1
          have hpaddr : p.addr = w.addr := (P.conts p _ hp).2.2.1
          have hroom := P.map_room hp rfl
          have hcfg := P.cfgOk hp
          obtain ⟨_, heff, hok', hinl', hrid, hle, hsz⟩ := hpok.remove_ok hlegal hcfg hk hroom hs
          have hma : m.addr = w.addr := by
            show m.rootID.addr = w.addr
            rw [hvid, hpaddr]
          have htree0 : TreeOk m.addr cx.ctr (.map m) := by
            rw [hma]; exact P.heap.treeOk hp
          obtain ⟨E, C, hlog, hca, _, _, htree⟩ := cstep_map_remove hlegal hpok hcfg hk hroom htree0 hs
          rw [hma] at htree
          obtain ⟨P2, hsame2, post12⟩ := mutate_pre (w2 := w.setCont p (.map m')) P
            (fun _ _ => rfl) hp hlog hca hok' htree (hrid.trans hvid)
            (by
              intro hi0'
              have hi0 : m.isInlined = true := by rw [← hinl']; exact hi0'
              have h1 := hsz hi0
              show m'.rootHdr.size ≤ w.T
              have : m.rootHdr.size ≤ maxInlineArr w.T := HI.room p (.map m) hp hi0
              have := inline_plus_entry_le w.T hlegal
              omega)
            rfl
            (by
              intro x hx
              simp only [Cont.pays, Cont.storedElems, List.mem_map] at hx ⊢
              obtain ⟨e', ⟨q, hq, rfl⟩, hpe⟩ := hx
              obtain ⟨A, B, hA, hB⟩ := heff
              rw [hB] at hq
              refine Or.inl ⟨q.2, ⟨q, ?_, rfl⟩, hpe⟩
              rw [hA]
              rcases List.mem_append.1 hq with h1 | h1
              · exact List.mem_append.2 (Or.inl h1)
              · exact List.mem_append.2 (Or.inr (List.mem_cons_of_mem _ h1)))
            (SameTab.refl _)
          have h2p : (w.setCont p (.map m')).cont? p = some (.map m') := cont?_setCont_self _ _ _
          have h2o : ∀ z, z ≠ p → (w.setCont p (.map m')).cont? z = w.cont? z :=
            fun z hz => cont?_setCont_ne _ _ _ _ hz
          have hpar2 : HandleOk (w.setCont p (.map m')) p :=
            handleOk_mutate HI.rank P2.rank hp h2p h2o rfl rfl (fun _ _ _ => rfl) hh
          have ND := notifyDeep D rank0 _ w cx.ctr _ p cx2 w3 cx3 P2 hsame2 hpar2 hnp
          have post23 := notifyHeap D rank0 _ w cx.ctr _ p cx2 w3 cx3 P2 hsame2 hnp
          have post34 := uninlineIfNeeded_post post23.heapOk post23.idsOk hun
          have hu4 := uninline_conts hun
          have U3 : UniqueRef w3 := (contsSig_uninline hun).symm.uniqueRef U'
          obtain ⟨m0, m'', rv0, hp0, hp', _, heff'', _, hback0⟩ := hrem
          rw [hp] at hp0; cases hp0
          have hkrv : (k, rv) ∈ m.toList := by
            obtain ⟨A, B, hA, _⟩ := heff
            rw [hA]; simp
          have hback : HandedBack w w' rv := by
            obtain ⟨A, B, hA, _⟩ := heff''
            have hk0 : (k, rv0) ∈ m.toList := by rw [hA]; simp
            rw [key_value_unique hpok.distinct hkrv hk0]
            exact hback0
          have hpne : ¬ (rv.pay = .ref p ∧ (w3.cont? p).isSome) := by
            rintro ⟨hpp, _⟩
            have hH : World.Holds w p p :=
              ⟨_, hp, by
                simp only [Cont.pays, Cont.storedElems, List.mem_map]
                exact ⟨rv, ⟨(k, rv), hkrv, rfl⟩, hpp⟩⟩
            have := HI.rank p p hH (by rw [hp]; rfl)
            omega
          have hlive3 : ∀ z, z ≠ p → (w3.cont? z).isSome → (w.cont? z).isSome := by
            intro z hz h3
            rw [ND.sig.isSome, h2o z hz] at h3
            exact h3
          refine deep_of_track (p := p) (Mv := fun _ => False) (Mo := fun z => rv.pay = .ref z ∧ (w3.cont? z).isSome)
            (fun z hz _ => h2o z hz) hu4 hpne
            (by rw [hp]; rfl) (by rw [hp']; rfl) (inl_of_form hp h2p hinl') (fun m1 hm => absurd hm id) ?_
            (ND.track U3) (ext_of_post post12) (ext_of_post post23) (ext_of_post post34)
            (kept_of_post post34) (kept_of_post post23) U'
          rintro m1 ⟨hm, hl3⟩
          have hmp : m1 ≠ p := fun e => hpne ⟨e ▸ hm, e ▸ hl3⟩
          obtain ⟨c, hc⟩ := Option.isSome_iff_exists.1 (hlive3 m1 hmp hl3)
          obtain ⟨c', _, _, _, _, hno⟩ := hback m1 c hm hc
          exact hno
  · cases h

end Atree.Deep
