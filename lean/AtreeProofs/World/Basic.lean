import AtreeProofs.WorldInv
import AtreeProofs.AListLemmas
/-
  Basic facts about the World model: table accessors, `Cont.inline` / `Cont.uninline`,
  `childStorable`, `uninlineIfNeeded`, lookups in permuted association lists.
-/
namespace Atree
open Gen

/-! ### association lists: permutations and maps -/

namespace AList
variable {κ : Type} [DecidableEq κ] {α β : Type}

omit [DecidableEq κ] in
theorem keys_map_snd (m : AList κ α) (g : κ → α → β) :
    keys (m.map (fun e => (e.1, g e.1 e.2))) = keys m := by
  simp [keys, List.map_map, Function.comp_def]

theorem find?_map_snd (m : AList κ α) (g : α → β) (k : κ) :
    find? (m.map (fun e => (e.1, g e.2))) k = (find? m k).map g := by
  induction m with
  | nil => rfl
  | cons p m ih =>
    obtain ⟨k', v⟩ := p
    simp only [List.map_cons, find?_cons, ih]
    split <;> rfl

omit [DecidableEq κ] in
theorem keys_perm {m m' : AList κ α} (h : List.Perm m m') : List.Perm (keys m) (keys m') :=
  List.Perm.map _ h

/-- With unique keys, lookups do not depend on the order of the entries. -/
theorem find?_perm {m m' : AList κ α} (h : List.Perm m m') (hnd : (keys m').Nodup) (k : κ) :
    find? m k = find? m' k := by
  have hnd' : (keys m).Nodup := (keys_perm h).nodup_iff.mpr hnd
  cases h1 : find? m' k with
  | none =>
    rw [find?_eq_none_iff] at h1 ⊢
    intro hk; exact h1 ((keys_perm h).mem_iff.mp hk)
  | some v =>
    rw [← mem_iff_find? m' hnd] at h1
    rw [← mem_iff_find? m hnd']
    exact h.mem_iff.mpr h1

end AList

/-! ### a fact about `Arr.set` / `Arr.get` that needs no invariant -/

theorem toStorable_ref (T addr : Nat) (e : Elem) (c : Ctx) (r : SlabID) (he : e.pay = .ref r) :
    toStorable T addr e c = (e, c) := by
  unfold toStorable; rw [he]

/-- `Arr.set` then `Arr.get` on a single-slab array holding ONE element, for a reference:
    the slot holds the new element (a too large element makes the root split fail). -/
theorem Arr.set_get_single (T ty : Nat) (s : DataSlab) (e0 : Elem) (hs : s.elems = [e0])
    (e : Elem) (r : SlabID) (he : e.pay = .ref r) (c0 : Ctx) (old : Elem) (a' : Arr) (c1 : Ctx)
    (h : Arr.set T ⟨0, s, ty⟩ 0 e c0 = .ok (old, a', c1)) : a'.get 0 = .ok e := by
  unfold Arr.set at h
  simp only [ATree.set, DataSlab.set, hs, List.getElem?_cons_zero, toStorable_ref T _ e c0 r he,
    List.set_cons_zero, bind, Except.bind] at h
  split at h
  · -- full: the root split fails on a single element
    exfalso
    unfold Arr.splitRoot at h
    simp [ATree.split, DataSlab.split, ATree.setId, ATree.setRoot, bind, Except.bind] at h
  · simp only [pure, Except.pure, Arr.promoteIfSingleChild] at h
    cases h
    rfl

/-! ### `Cont` -/

namespace Cont

/-- `c'` holds the same data as `c`: same stored elements, same lookups; only the form of the
    root slab (inline / standalone, hence its size) may differ. -/
def SameData : Cont → Cont → Prop
  | .arr a, .arr a' => a'.toList = a.toList ∧ a'.rootID = a.rootID ∧ (∀ i, a'.get i = a.get i)
  | .map m, .map m' => m'.toList = m.toList ∧ m'.rootID = m.rootID ∧ (∀ cfg k, m'.get cfg k = m.get cfg k)
  | _, _ => False

theorem SameData.refl (c : Cont) : SameData c c := by
  cases c <;> simp [SameData]

theorem SameData.trans {a b c : Cont} (h1 : SameData a b) (h2 : SameData b c) : SameData a c := by
  cases a <;> cases b <;> cases c <;> simp only [SameData] at h1 h2 ⊢
  · exact ⟨h2.1.trans h1.1, h2.2.1.trans h1.2.1, fun i => (h2.2.2 i).trans (h1.2.2 i)⟩
  · exact ⟨h2.1.trans h1.1, h2.2.1.trans h1.2.1, fun cfg k => (h2.2.2 cfg k).trans (h1.2.2 cfg k)⟩

theorem SameData.storedElems {c c' : Cont} (h : SameData c c') : c'.storedElems = c.storedElems := by
  cases c <;> cases c' <;> simp only [SameData] at h
  · exact h.1
  · simp [Cont.storedElems, h.1]

theorem SameData.vid {c c' : Cont} (h : SameData c c') : c'.vid = c.vid := by
  cases c <;> cases c' <;> simp only [SameData] at h
  · exact h.2.1
  · exact h.2.1

theorem SameData.arr {a : Arr} {c' : Cont} (h : SameData (.arr a) c') :
    ∃ a', c' = .arr a' ∧ a'.toList = a.toList ∧ a'.rootID = a.rootID ∧ ∀ i, a'.get i = a.get i := by
  cases c' with
  | arr a' => exact ⟨a', rfl, h⟩
  | map m => simp [SameData] at h

theorem SameData.map {m : OMap 3} {c' : Cont} (h : SameData (.map m) c') :
    ∃ m', c' = .map m' ∧ m'.toList = m.toList ∧ m'.rootID = m.rootID ∧ ∀ cfg k, m'.get cfg k = m.get cfg k := by
  cases c' with
  | arr a' => simp [SameData] at h
  | map m' => exact ⟨m', rfl, h⟩

/-- `Inline` : what it does when it succeeds -/
theorem inline_ok {c c' : Cont} {id : SlabID} {cx cx' : Ctx} (h : c.inline id cx = .ok (c', cx')) :
    c.isInlined = false ∧ c'.isInlined = true ∧ SameData c c' ∧ cx' = cx.emit (.remove id) := by
  unfold Cont.inline at h
  split at h
  · rename_i s ty
    split at h
    · cases h
    · rename_i hs
      cases h
      refine ⟨by simpa [Cont.isInlined, Arr.isInlined] using hs, rfl, ?_, rfl⟩
      exact ⟨rfl, rfl, fun _ => rfl⟩
  · rename_i s ty cnt seed
    split at h
    · cases h
    · rename_i hs
      cases h
      refine ⟨by simpa [Cont.isInlined, OMap.isInlined] using hs, rfl, ?_, rfl⟩
      exact ⟨rfl, rfl, fun _ _ => rfl⟩
  · cases h

/-- `Uninline` : what it does when it succeeds -/
theorem uninline_ok {c c' : Cont} {id : SlabID} {cx cx' : Ctx} (h : c.uninline id cx = .ok (c', cx')) :
    c.isInlined = true ∧ c'.isInlined = false ∧ SameData c c' ∧ cx' = cx.emit (.store id) := by
  unfold Cont.uninline at h
  split at h
  · rename_i s ty
    split at h
    · cases h
    · rename_i hs
      cases h
      refine ⟨by simpa [Cont.isInlined, Arr.isInlined] using hs, rfl, ?_, rfl⟩
      exact ⟨rfl, rfl, fun _ => rfl⟩
  · rename_i s ty cnt seed
    split at h
    · cases h
    · rename_i hs
      cases h
      refine ⟨by simpa [Cont.isInlined, OMap.isInlined] using hs, rfl, ?_, rfl⟩
      exact ⟨rfl, rfl, fun _ _ => rfl⟩
  · cases h

end Cont

/-! ### `World` accessors -/

namespace World

@[simp] theorem cont?_setCont (w : World) (v : SlabID) (c : Cont) (y : SlabID) :
    (w.setCont v c).cont? y = if v = y then some c else w.cont? y := by
  simp [cont?, setCont, AList.find?_insert]

theorem cont?_setCont_self (w : World) (v : SlabID) (c : Cont) : (w.setCont v c).cont? v = some c := by simp

theorem cont?_setCont_ne (w : World) (v : SlabID) (c : Cont) (y : SlabID) (h : y ≠ v) :
    (w.setCont v c).cont? y = w.cont? y := by
  simp [Ne.symm h]

@[simp] theorem hinfo_setCont (w : World) (v : SlabID) (c : Cont) : (w.setCont v c).hinfo = w.hinfo := rfl
@[simp] theorem mutIdx_setCont (w : World) (v : SlabID) (c : Cont) : (w.setCont v c).mutIdx = w.mutIdx := rfl
@[simp] theorem T_setCont (w : World) (v : SlabID) (c : Cont) : (w.setCont v c).T = w.T := rfl
@[simp] theorem addr_setCont (w : World) (v : SlabID) (c : Cont) : (w.setCont v c).addr = w.addr := rfl
@[simp] theorem mcfg_setCont (w : World) (v : SlabID) (c : Cont) : (w.setCont v c).mcfg = w.mcfg := rfl
@[simp] theorem idxOf_setCont (w : World) (v : SlabID) (c : Cont) (p : SlabID) : (w.setCont v c).idxOf p = w.idxOf p := rfl

@[simp] theorem cont?_setIdx (w : World) (p : SlabID) (m : AList SlabID Nat) (y : SlabID) :
    (w.setIdx p m).cont? y = w.cont? y := rfl
@[simp] theorem conts_setIdx (w : World) (p : SlabID) (m : AList SlabID Nat) : (w.setIdx p m).conts = w.conts := rfl
@[simp] theorem hinfo_setIdx (w : World) (p : SlabID) (m : AList SlabID Nat) : (w.setIdx p m).hinfo = w.hinfo := rfl
@[simp] theorem T_setIdx (w : World) (p : SlabID) (m : AList SlabID Nat) : (w.setIdx p m).T = w.T := rfl
@[simp] theorem addr_setIdx (w : World) (p : SlabID) (m : AList SlabID Nat) : (w.setIdx p m).addr = w.addr := rfl
@[simp] theorem mcfg_setIdx (w : World) (p : SlabID) (m : AList SlabID Nat) : (w.setIdx p m).mcfg = w.mcfg := rfl

@[simp] theorem idxOf_setIdx (w : World) (p : SlabID) (m : AList SlabID Nat) (q : SlabID) :
    (w.setIdx p m).idxOf q = if p = q then m else w.idxOf q := by
  simp only [idxOf, setIdx, AList.find?_insert]
  split <;> rfl

@[simp] theorem cont?_shiftIdx (w : World) (p : SlabID) (f : Nat → Nat) (y : SlabID) :
    (w.shiftIdx p f).cont? y = w.cont? y := rfl
@[simp] theorem conts_shiftIdx (w : World) (p : SlabID) (f : Nat → Nat) : (w.shiftIdx p f).conts = w.conts := rfl
@[simp] theorem hinfo_shiftIdx (w : World) (p : SlabID) (f : Nat → Nat) : (w.shiftIdx p f).hinfo = w.hinfo := rfl
@[simp] theorem T_shiftIdx (w : World) (p : SlabID) (f : Nat → Nat) : (w.shiftIdx p f).T = w.T := rfl
@[simp] theorem mcfg_shiftIdx (w : World) (p : SlabID) (f : Nat → Nat) : (w.shiftIdx p f).mcfg = w.mcfg := rfl

theorem idxOf_shiftIdx (w : World) (p : SlabID) (f : Nat → Nat) (q : SlabID) :
    (w.shiftIdx p f).idxOf q = if p = q then (w.idxOf p).map (fun e => (e.1, f e.2)) else w.idxOf q := by
  simp [shiftIdx]

@[simp] theorem cont?_setCallbackArr (w : World) (p : SlabID) (i : Nat) (v : WVal) (y : SlabID) :
    (w.setCallbackArr p i v).cont? y = w.cont? y := by
  cases v <;> rfl
@[simp] theorem conts_setCallbackArr (w : World) (p : SlabID) (i : Nat) (v : WVal) :
    (w.setCallbackArr p i v).conts = w.conts := by
  cases v <;> rfl
@[simp] theorem T_setCallbackArr (w : World) (p : SlabID) (i : Nat) (v : WVal) :
    (w.setCallbackArr p i v).T = w.T := by
  cases v <;> rfl
@[simp] theorem mcfg_setCallbackArr (w : World) (p : SlabID) (i : Nat) (v : WVal) :
    (w.setCallbackArr p i v).mcfg = w.mcfg := by
  cases v <;> rfl

@[simp] theorem cont?_setCallbackMap (w : World) (p : SlabID) (k : MKey) (v : WVal) (y : SlabID) :
    (w.setCallbackMap p k v).cont? y = w.cont? y := by
  cases v <;> rfl
@[simp] theorem conts_setCallbackMap (w : World) (p : SlabID) (k : MKey) (v : WVal) :
    (w.setCallbackMap p k v).conts = w.conts := by
  cases v <;> rfl
@[simp] theorem T_setCallbackMap (w : World) (p : SlabID) (k : MKey) (v : WVal) :
    (w.setCallbackMap p k v).T = w.T := by
  cases v <;> rfl
@[simp] theorem mcfg_setCallbackMap (w : World) (p : SlabID) (k : MKey) (v : WVal) :
    (w.setCallbackMap p k v).mcfg = w.mcfg := by
  cases v <;> rfl
@[simp] theorem mutIdx_setCallbackMap (w : World) (p : SlabID) (k : MKey) (v : WVal) :
    (w.setCallbackMap p k v).mutIdx = w.mutIdx := by
  cases v <;> rfl

/-- a world with the same container table has the same `cont?` -/
theorem cont?_eraseHinfo (w : World) (x y : SlabID) :
    ({ w with hinfo := AList.erase w.hinfo x } : World).cont? y = w.cont? y := rfl

/-! ### `childStorable` -/

/-- Complete description of a successful `childStorable`. -/
theorem childStorable_ok {w : World} {x : SlabID} {wrap lim : Nat} {cx : Ctx} {c : Cont}
    (hc : w.cont? x = some c) {e : Elem} {w' : World} {cx' : Ctx}
    (h : w.childStorable x wrap lim cx = .ok (e, w', cx')) :
    ∃ c', Cont.SameData c c' ∧
      c'.isInlined = c.inlinable (lim - 2 * wrap) ∧
      e = { size := World.slotSize c' wrap, pay := .ref x } ∧
      ((c'.isInlined = c.isInlined ∧ c' = c ∧ w' = w ∧ cx' = cx) ∨
       (c'.isInlined ≠ c.isInlined ∧ w' = w.setCont x c' ∧
          cx' = cx.emit (if c'.isInlined then .remove x else .store x))) := by
  unfold childStorable at h
  simp only [hc] at h
  split at h
  · rename_i h1
    simp only [Bool.and_eq_true] at h1
    cases h
    exact ⟨c, Cont.SameData.refl c, by rw [h1.1, h1.2], by simp [slotSize, h1.2], Or.inl ⟨rfl, rfl, rfl, rfl⟩⟩
  · split at h
    · rename_i h1 h2
      simp only [Bool.and_eq_true, Bool.not_eq_true'] at h2
      cases h
      exact ⟨c, Cont.SameData.refl c, by rw [h2.1, h2.2], by simp [slotSize, h2.2], Or.inl ⟨rfl, rfl, rfl, rfl⟩⟩
    · split at h
      · rename_i h1 h2 h3
        simp only [Bool.and_eq_true, Bool.not_eq_true'] at h3
        split at h
        · cases h
        · rename_i c' cx1 hin
          cases h
          obtain ⟨i1, i2, i3, i4⟩ := Cont.inline_ok hin
          refine ⟨c', i3, by rw [i2, h3.1], by simp [slotSize, i2], Or.inr ⟨by simp [i1, i2], rfl, by simp [i2, i4]⟩⟩
      · rename_i h1 h2 h3
        split at h
        · cases h
        · rename_i c' cx1 hun
          cases h
          obtain ⟨i1, i2, i3, i4⟩ := Cont.uninline_ok hun
          have hable : c.inlinable (lim - 2 * wrap) = false := by
            cases hb : c.inlinable (lim - 2 * wrap) with
            | false => rfl
            | true => simp [hb, i1] at h1
          refine ⟨c', i3, by rw [i2, hable], by simp [slotSize, i2], Or.inr ⟨by simp [i1, i2], rfl, by simp [i2, i4]⟩⟩

/-- `childStorable` fails on an unknown container -/
theorem childStorable_some {w : World} {x : SlabID} {wrap lim : Nat} {cx : Ctx}
    {e : Elem} {w' : World} {cx' : Ctx} (h : w.childStorable x wrap lim cx = .ok (e, w', cx')) :
    ∃ c, w.cont? x = some c := by
  unfold childStorable at h
  split at h
  · cases h
  · exact ⟨_, by assumption⟩

/-- Frame of `childStorable`: tables other than `conts` are untouched, `conts` changes at most at `x`,
    where the data stays the same. -/
theorem childStorable_frame {w : World} {x : SlabID} {wrap lim : Nat} {cx : Ctx}
    {e : Elem} {w' : World} {cx' : Ctx} (h : w.childStorable x wrap lim cx = .ok (e, w', cx')) :
    w'.hinfo = w.hinfo ∧ w'.mutIdx = w.mutIdx ∧ w'.T = w.T ∧ w'.addr = w.addr ∧
    (∀ y, y ≠ x → w'.cont? y = w.cont? y) ∧
    (∃ c c', w.cont? x = some c ∧ w'.cont? x = some c' ∧ Cont.SameData c c') ∧
    e.pay = .ref x := by
  obtain ⟨c, hc⟩ := childStorable_some h
  obtain ⟨c', hs, _, he, hcase⟩ := childStorable_ok hc h
  rcases hcase with ⟨_, h2, h3, _⟩ | ⟨_, h3, _⟩
  · subst h3; subst h2
    exact ⟨rfl, rfl, rfl, rfl, fun _ _ => rfl, ⟨c', c', hc, hc, hs⟩, by rw [he]⟩
  · subst h3
    refine ⟨rfl, rfl, rfl, rfl, fun y hy => cont?_setCont_ne _ _ _ _ hy, ⟨c, c', hc, by simp, hs⟩, by rw [he]⟩

/-! ### `uninlineIfNeeded` -/

theorem uninlineIfNeeded_ok {w : World} {e : Elem} {cx : Ctx}
    {e' : Elem} {ov : Option SlabID} {w' : World} {cx' : Ctx}
    (h : w.uninlineIfNeeded e cx = .ok (e', ov, w', cx')) :
    e'.pay = e.pay ∧ w'.hinfo = w.hinfo ∧ w'.mutIdx = w.mutIdx ∧ w'.T = w.T ∧ w'.addr = w.addr ∧
    ((ov = none ∧ e' = e ∧ w' = w ∧ cx' = cx ∧ ∀ x, e.pay = .ref x → w.cont? x = none) ∨
     (∃ x c, ov = some x ∧ e.pay = .ref x ∧ w.cont? x = some c ∧
        ((c.isInlined = false ∧ e' = e ∧ w' = w ∧ cx' = cx) ∨
         (c.isInlined = true ∧ ∃ c', Cont.SameData c c' ∧ c'.isInlined = false ∧
            w' = w.setCont x c' ∧ cx' = cx.emit (.store x) ∧
            e' = { size := slabIDStorableSize + (e.size - c.rootSize), pay := .ref x })))) := by
  unfold uninlineIfNeeded at h
  split at h
  · rename_i vid hp
    split at h
    · rename_i hn
      cases h
      refine ⟨rfl, rfl, rfl, rfl, rfl, Or.inl ⟨rfl, rfl, rfl, rfl, ?_⟩⟩
      intro x hx; rw [hp] at hx; cases hx; exact hn
    · rename_i c hcs
      split at h
      · rename_i hinl
        split at h
        · cases h
        · rename_i c' cx1 hun
          cases h
          obtain ⟨_, i2, i3, i4⟩ := Cont.uninline_ok hun
          refine ⟨by simp [hp], rfl, rfl, rfl, rfl, Or.inr ⟨vid, c, rfl, hp, hcs, Or.inr ⟨hinl, c', i3, i2, rfl, i4, rfl⟩⟩⟩
      · rename_i hinl
        cases h
        refine ⟨rfl, rfl, rfl, rfl, rfl, Or.inr ⟨vid, c, rfl, hp, hcs, Or.inl ⟨by simpa using hinl, rfl, rfl, rfl⟩⟩⟩
  · rename_i hp
    cases h
    refine ⟨rfl, rfl, rfl, rfl, rfl, Or.inl ⟨rfl, rfl, rfl, rfl, ?_⟩⟩
    intro x hx; exact absurd hx (hp x)

end World
end Atree
