import AtreeProofs.World.TotalPop
import AtreeProofs.World.WPopKeep
/-
  TOTAL correctness, part 7 (audit item S3): THE REJECTIONS.  Which error a public operation of the
  World model answers when its ARGUMENT is rejected by the underlying array / map model — index out
  of range, array full, collision limit, key not found — or when the handle names no container of
  the right kind.  None of them involves the notification.
-/
namespace Atree
open Gen

namespace World

variable {D : SlabID → DigestFn 4}

/-! ### no container of the right kind -/

theorem arrInsert_unknown {w : World} {p : SlabID} (i : Nat) (v : WVal) (cx : Ctx)
    (h : ∀ a, w.cont? p ≠ some (.arr a)) : w.arrInsert p i v cx = .error .unknownContainer := by
  unfold arrInsert
  cases hc : w.cont? p with
  | none => rfl
  | some c =>
    cases c with
    | arr a => exact absurd hc (h a)
    | map m => rfl

theorem arrSet_unknown {w : World} {p : SlabID} (i : Nat) (v : WVal) (cx : Ctx)
    (h : ∀ a, w.cont? p ≠ some (.arr a)) : w.arrSet p i v cx = .error .unknownContainer := by
  unfold arrSet
  rw [arrSetRaw]
  cases hc : w.cont? p with
  | none => rfl
  | some c =>
    cases c with
    | arr a => exact absurd hc (h a)
    | map m => rfl

theorem arrRemove_unknown {w : World} {p : SlabID} (i : Nat) (cx : Ctx)
    (h : ∀ a, w.cont? p ≠ some (.arr a)) : w.arrRemove p i cx = .error .unknownContainer := by
  unfold arrRemove
  cases hc : w.cont? p with
  | none => rfl
  | some c =>
    cases c with
    | arr a => exact absurd hc (h a)
    | map m => rfl

theorem mapSet_unknown {w : World} {p : SlabID} (k : MKey) (v : WVal) (cx : Ctx)
    (h : ∀ m, w.cont? p ≠ some (.map m)) : w.mapSet p k v cx = .error .unknownContainer := by
  unfold mapSet
  rw [mapSetRaw]
  cases hc : w.cont? p with
  | none => rfl
  | some c =>
    cases c with
    | arr a => rfl
    | map m => exact absurd hc (h m)

theorem mapRemove_unknown {w : World} {p : SlabID} (k : MKey) (cx : Ctx)
    (h : ∀ m, w.cont? p ≠ some (.map m)) : w.mapRemove p k cx = .error .unknownContainer := by
  unfold mapRemove
  cases hc : w.cont? p with
  | none => rfl
  | some c =>
    cases c with
    | arr a => rfl
    | map m => exact absurd hc (h m)

theorem setType_unknown {w : World} {p : SlabID} (ty : Nat) (cx : Ctx) (h : w.cont? p = none) :
    w.setType p ty cx = .error .unknownContainer := by
  unfold setType
  simp only [h]

/-! ### arrays: index out of range, array full -/

theorem arrInsert_oob {w : World} {p : SlabID} {i : Nat} {a : Arr} {ctr : Nat} (v : WVal) (cx : Ctx)
    (hok : ArrOk w.T a ctr) (hpa : w.cont? p = some (.arr a)) (hi : a.toList.length < i) :
    w.arrInsert p i v cx = .error (.arr .indexOutOfBounds) := by
  unfold arrInsert
  simp only [hpa]
  rw [if_pos (by rw [hok.count_eq]; exact hi)]

theorem arrInsert_full {w : World} {p : SlabID} {i : Nat} {a : Arr} {ctr : Nat} {v : WVal} {cx : Ctx}
    (hok : ArrOk w.T a ctr) (hpa : w.cont? p = some (.arr a)) (hv : WValOk w p (maxInlineArr w.T) v)
    (hi : i ≤ a.toList.length) (hfull : a.count = maxArrayElementCount) :
    w.arrInsert p i v cx = .error (.arr .maxElementCount) := by
  obtain ⟨e, w1, cx1, hst⟩ := storableOf_total hv cx
  unfold arrInsert
  simp only [hpa]
  rw [if_neg (by rw [hok.count_eq]; omega)]
  simp only [bind, Except.bind, hst, Arr.insert_full a cx1 i e hfull]

theorem arrSet_oob {w : World} {p : SlabID} {i : Nat} {a : Arr} {ctr : Nat} (v : WVal) (cx : Ctx)
    (hok : ArrOk w.T a ctr) (hpa : w.cont? p = some (.arr a)) (hi : a.toList.length ≤ i) :
    w.arrSet p i v cx = .error (.arr .indexOutOfBounds) := by
  unfold arrSet
  rw [arrSetRaw]
  simp only [hpa]
  rw [if_pos (by rw [hok.count_eq]; exact hi)]
  rfl

theorem arrRemove_oob {w : World} {p : SlabID} {i : Nat} {a : Arr} (cx : Ctx)
    (hok : ArrOk w.T a cx.ctr) (hpa : w.cont? p = some (.arr a)) (hi : a.toList.length ≤ i) :
    w.arrRemove p i cx = .error (.arr .indexOutOfBounds) := by
  unfold arrRemove
  simp only [hpa, hok.remove_oob hi]

/-! ### maps: collision limit, key not found -/

theorem mapRemove_absent {w : World} {p : SlabID} {k : MKey} {m : OMap 3} {Dm : DigestFn 4} (cx : Ctx)
    (hT : legalThreshold w.T = true) (hok : MapOk w.T Dm m cx.ctr) (hcfg : CfgOk w.mcfg w.T m)
    (hk : KeyOk w.T 4 Dm k) (hpm : w.cont? p = some (.map m)) (habs : ∀ q ∈ m.toList, q.1 ≠ k) :
    w.mapRemove p k cx = .error (.map .keyNotFound) := by
  unfold mapRemove
  simp only [hpm, hok.remove_absent hT hcfg hk habs]

/-- the storable of a well-formed value, under `WorldOk'`: it exists, it is within the limit of the
    slot, and computing it changes neither the threshold, the address nor the counter -/
theorem storableOf_valid' {w : World} {p : SlabID} {lim : Nat} {v : WVal} {cx : Ctx}
    (H : WorldOk' D w cx.ctr) (hlim : lim ≤ maxInlineArr w.T) (hv : WValOk w p lim v) :
    ∃ e w1 cx1, w.storableOf v lim cx = .ok (e, w1, cx1) ∧ 1 ≤ e.size ∧ e.size ≤ lim ∧
      w1.T = w.T ∧ w1.addr = w.addr ∧ cx1.ctr = cx.ctr := by
  obtain ⟨⟨rank0, H0⟩, S⟩ := H.down
  have e0 := S.eq
  generalize hH0 : w.prune.hinfo = H0' at e0
  have hv0 : WValOk w.prune p lim v := S.wValOk hv
  obtain ⟨e, w01, cx1, hst0⟩ := storableOf_total hv0 cx
  obtain ⟨rank', O1, H1, hr', hS1, hT1, ha1, hh1, hm1, hctr1, he1, he2, _⟩ :=
    prep_value H0 (by rw [S.T]; exact hlim) hv0 hst0
  rw [e0] at hst0 S
  obtain ⟨w1, hst, hw, _, _⟩ := S.storableOf_up hst0
  refine ⟨e, w1, cx1, hst, he1, he2, ?_, ?_, hctr1⟩
  · have : w01.T = w1.T := by rw [hw]; rfl
    rw [← this, hT1]; rfl
  · have : w01.addr = w1.addr := by rw [hw]; rfl
    rw [← this, ha1]; rfl

theorem mapSet_limited {w : World} {p : SlabID} {k : MKey} {v : WVal} {cx : Ctx} {m : OMap 3}
    (H : WorldOk' D w cx.ctr) (hk : KeyOk w.T 4 (D p) k)
    (hv : WValOk w p (maxInlineMapValue w.T k.size) v) (hpm : w.cont? p = some (.map m))
    (hl : TLimited w.mcfg m.d m.root k) :
    w.mapSet p k v cx = .error (.map .collisionLimit) := by
  obtain ⟨e, w1, cx1, hst, he1, he2, hT1, ha1, hctr1⟩ := storableOf_valid' H (maxInlineMapValue_le_arr _ _) hv
  obtain ⟨rank, H0⟩ := H
  have hmok : MapOk w.T (D p) m cx1.ctr := by rw [hctr1]; exact H0.conts p _ hpm
  have hcfg : CfgOk w.mcfg w.T m := H0.cfgOk hpm
  have hcfg1 : w1.mcfg = w.mcfg := by simp [World.mcfg, hT1, ha1]
  have hs := hmok.set_limited H0.legal hcfg hk (⟨he1, Or.inr he2⟩ : ValueOkR w.T k.size e) hl
  unfold mapSet
  rw [mapSetRaw]
  simp only [hpm, hst, hcfg1, hs, bind, Except.bind]

end World
end Atree
