import AtreeProofs.World.Basic
/-
  Frame of the mutual block `notifyParent` / `arrSetRaw` / `mapSetRaw` in a World whose parent
  pointers (`hinfo`) are acyclic: a notification from `y` changes `y` only in form (inline /
  standalone), and otherwise only containers that are strictly above `y`.
  Acyclicity is expressed by a rank function that strictly decreases from child to parent.
-/
namespace Atree
open Gen

namespace World

/-- the parent pointers go strictly down in rank: no container is its own ancestor -/
def RankOk (rank : SlabID → Nat) (w : World) : Prop :=
  ∀ y hi, AList.find? w.hinfo y = some hi → rank hi.parent < rank y

/-- same entry of the container table up to the form of the root slab -/
def OSame : Option Cont → Option Cont → Prop
  | none, none => True
  | some c, some c' => Cont.SameData c c'
  | _, _ => False

theorem OSame.refl (o : Option Cont) : OSame o o := by
  cases o with
  | none => trivial
  | some c => exact Cont.SameData.refl c

theorem OSame.of_eq {o o' : Option Cont} (h : o' = o) : OSame o o' := by subst h; exact OSame.refl _

theorem OSame.trans {a b c : Option Cont} (h1 : OSame a b) (h2 : OSame b c) : OSame a c := by
  cases a <;> cases b <;> cases c <;> simp only [OSame] at h1 h2 ⊢
  exact h1.trans h2

theorem OSame.get_some {o' : Option Cont} {c : Cont} (h : OSame (some c) o') :
    ∃ c', o' = some c' ∧ Cont.SameData c c' := by
  cases o' with
  | none => simp [OSame] at h
  | some c' => exact ⟨c', rfl, h⟩

theorem RankOk.of_hinfo {rank : SlabID → Nat} {w w' : World} (h : RankOk rank w) (hh : w'.hinfo = w.hinfo) :
    RankOk rank w' := by
  intro y hi hy; rw [hh] at hy; exact h y hi hy

theorem RankOk.erase {rank : SlabID → Nat} {w : World} (h : RankOk rank w) (x : SlabID) :
    RankOk rank { w with hinfo := AList.erase w.hinfo x } := by
  intro y hi hy
  simp only [AList.find?_erase] at hy
  split at hy
  · cases hy
  · exact h y hi hy

theorem RankOk.setCallbackArr {rank : SlabID → Nat} {w : World} (h : RankOk rank w) (p : SlabID) (i : Nat) (v : WVal)
    (hv : ∀ z wrap, v = .child z wrap → rank p < rank z) : RankOk rank (w.setCallbackArr p i v) := by
  cases v with
  | plain e => exact h
  | child z wrap =>
    intro y hi hy
    simp only [World.setCallbackArr, AList.find?_insert] at hy
    split at hy
    · rename_i hzy; subst hzy; cases hy; exact hv _ _ rfl
    · exact h y hi hy

theorem RankOk.setCallbackMap {rank : SlabID → Nat} {w : World} (h : RankOk rank w) (p : SlabID) (k : MKey) (v : WVal)
    (hv : ∀ z wrap, v = .child z wrap → rank p < rank z) : RankOk rank (w.setCallbackMap p k v) := by
  cases v with
  | plain e => exact h
  | child z wrap =>
    intro y hi hy
    simp only [World.setCallbackMap, AList.find?_insert] at hy
    split at hy
    · rename_i hzy; subst hzy; cases hy; exact hv _ _ rfl
    · exact h y hi hy

/-- frame of `storableOf` -/
theorem storableOf_frame {w : World} {v : WVal} {lim : Nat} {cx : Ctx}
    {e : Elem} {w' : World} {cx' : Ctx} (h : w.storableOf v lim cx = .ok (e, w', cx')) :
    w'.hinfo = w.hinfo ∧ w'.mutIdx = w.mutIdx ∧ w'.T = w.T ∧ w'.addr = w.addr ∧
    (∀ z, (∀ wrap, v ≠ .child z wrap) → w'.cont? z = w.cont? z) ∧
    (∀ z, OSame (w.cont? z) (w'.cont? z)) := by
  cases v with
  | plain e0 =>
    simp only [World.storableOf] at h; cases h
    exact ⟨rfl, rfl, rfl, rfl, fun _ _ => rfl, fun _ => OSame.refl _⟩
  | child x wrap =>
    obtain ⟨h1, h2, h3, h4, h5, ⟨c, c', hc, hc', hs⟩, _⟩ := childStorable_frame h
    refine ⟨h1, h2, h3, h4, fun z hz => h5 z (fun hzx => hz wrap (by rw [hzx])), fun z => ?_⟩
    by_cases hzx : z = x
    · subst hzx; rw [hc, hc']; exact hs
    · exact OSame.of_eq (h5 z hzx)

/-- The three frame statements, proved simultaneously by induction on the fuel. -/
theorem mutual_frame (rank : SlabID → Nat) (fuel : Nat) :
    (∀ w y cx w' cx', RankOk rank w → notifyParent fuel w y cx = .ok (w', cx') →
        RankOk rank w' ∧ (∀ z, z ≠ y → rank y ≤ rank z → w'.cont? z = w.cont? z) ∧
        OSame (w.cont? y) (w'.cont? y)) ∧
    (∀ w p i v cx old w' cx', RankOk rank w → (∀ z wrap, v = .child z wrap → rank p < rank z) →
        arrSetRaw fuel w p i v cx = .ok (old, w', cx') →
        RankOk rank w' ∧
        (∀ z, z ≠ p → rank p ≤ rank z → (∀ wrap, v ≠ .child z wrap) → w'.cont? z = w.cont? z) ∧
        (∀ z, z ≠ p → rank p ≤ rank z → OSame (w.cont? z) (w'.cont? z))) ∧
    (∀ w p k v cx old w' cx', RankOk rank w → (∀ z wrap, v = .child z wrap → rank p < rank z) →
        mapSetRaw fuel w p k v cx = .ok (old, w', cx') →
        RankOk rank w' ∧
        (∀ z, z ≠ p → rank p ≤ rank z → (∀ wrap, v ≠ .child z wrap) → w'.cont? z = w.cont? z) ∧
        (∀ z, z ≠ p → rank p ≤ rank z → OSame (w.cont? z) (w'.cont? z))) := by
  have harr : ∀ fuel, (∀ w y cx w' cx', RankOk rank w → notifyParent fuel w y cx = .ok (w', cx') →
        RankOk rank w' ∧ (∀ z, z ≠ y → rank y ≤ rank z → w'.cont? z = w.cont? z) ∧
        OSame (w.cont? y) (w'.cont? y)) →
      (∀ w p i v cx old w' cx', RankOk rank w → (∀ z wrap, v = .child z wrap → rank p < rank z) →
        arrSetRaw fuel w p i v cx = .ok (old, w', cx') →
        RankOk rank w' ∧
        (∀ z, z ≠ p → rank p ≤ rank z → (∀ wrap, v ≠ .child z wrap) → w'.cont? z = w.cont? z) ∧
        (∀ z, z ≠ p → rank p ≤ rank z → OSame (w.cont? z) (w'.cont? z))) := by
    intro fuel ihn w p i v cx old w' cx' hr hv h
    rw [arrSetRaw] at h
    split at h
    · rename_i a hpa
      split at h
      · cases h
      · split at h
        · cases h
        · rename_i e w1 cx1 hst
          obtain ⟨f1, _, _, _, f5, f6⟩ := storableOf_frame hst
          split at h
          · cases h
          · rename_i old1 a' cx2 hset
            simp only at h
            split at h
            · cases h
            · rename_i w3 cx3 hnp
              cases h
              have hr2 : RankOk rank (w1.setCont p (.arr a')) := hr.of_hinfo (by simp [f1])
              obtain ⟨hr3, g2, _⟩ := ihn _ _ _ _ _ hr2 hnp
              refine ⟨hr3.setCallbackArr p i v hv, ?_, ?_⟩
              · intro z hzp hrz hzv
                rw [cont?_setCallbackArr, g2 z hzp hrz, cont?_setCont_ne _ _ _ _ hzp, f5 z hzv]
              · intro z hzp hrz
                rw [cont?_setCallbackArr, g2 z hzp hrz, cont?_setCont_ne _ _ _ _ hzp]
                exact f6 z
    · cases h
  have hmap : ∀ fuel, (∀ w y cx w' cx', RankOk rank w → notifyParent fuel w y cx = .ok (w', cx') →
        RankOk rank w' ∧ (∀ z, z ≠ y → rank y ≤ rank z → w'.cont? z = w.cont? z) ∧
        OSame (w.cont? y) (w'.cont? y)) →
      (∀ w p k v cx old w' cx', RankOk rank w → (∀ z wrap, v = .child z wrap → rank p < rank z) →
        mapSetRaw fuel w p k v cx = .ok (old, w', cx') →
        RankOk rank w' ∧
        (∀ z, z ≠ p → rank p ≤ rank z → (∀ wrap, v ≠ .child z wrap) → w'.cont? z = w.cont? z) ∧
        (∀ z, z ≠ p → rank p ≤ rank z → OSame (w.cont? z) (w'.cont? z))) := by
    intro fuel ihn w p k v cx old w' cx' hr hv h
    rw [mapSetRaw] at h
    split at h
    · rename_i m hpm
      split at h
      · cases h
      · rename_i e w1 cx1 hst
        obtain ⟨f1, _, _, _, f5, f6⟩ := storableOf_frame hst
        split at h
        · cases h
        · rename_i old1 m' cx2 hset
          simp only at h
          split at h
          · cases h
          · rename_i w3 cx3 hnp
            cases h
            have hr2 : RankOk rank (w1.setCont p (.map m')) := hr.of_hinfo (by simp [f1])
            obtain ⟨hr3, g2, _⟩ := ihn _ _ _ _ _ hr2 hnp
            refine ⟨hr3.setCallbackMap p k v hv, ?_, ?_⟩
            · intro z hzp hrz hzv
              rw [cont?_setCallbackMap, g2 z hzp hrz, cont?_setCont_ne _ _ _ _ hzp, f5 z hzv]
            · intro z hzp hrz
              rw [cont?_setCallbackMap, g2 z hzp hrz, cont?_setCont_ne _ _ _ _ hzp]
              exact f6 z
    · cases h
  have hnot : ∀ fuel, (∀ w y cx w' cx', RankOk rank w → notifyParent fuel w y cx = .ok (w', cx') →
        RankOk rank w' ∧ (∀ z, z ≠ y → rank y ≤ rank z → w'.cont? z = w.cont? z) ∧
        OSame (w.cont? y) (w'.cont? y)) := by
    intro fuel
    induction fuel with
    | zero => intro w x cx w' cx' _ h; rw [notifyParent] at h; cases h
    | succ fuel ih =>
      intro w x cx w' cx' hr h
      have hsame : RankOk rank w ∧ (∀ z, z ≠ x → rank x ≤ rank z → w.cont? z = w.cont? z) ∧
          OSame (w.cont? x) (w.cont? x) := ⟨hr, fun _ _ _ => rfl, OSame.refl _⟩
      have hnf : RankOk rank { w with hinfo := AList.erase w.hinfo x } ∧
          (∀ z, z ≠ x → rank x ≤ rank z →
            ({ w with hinfo := AList.erase w.hinfo x } : World).cont? z = w.cont? z) ∧
          OSame (w.cont? x) (({ w with hinfo := AList.erase w.hinfo x } : World).cont? x) :=
        ⟨hr.erase x, fun _ _ _ => rfl, OSame.refl _⟩
      rw [notifyParent] at h
      split at h
      · cases h; exact hsame
      · cases h
      · rename_i hi c hh hc
        have hrk : rank hi.parent < rank x := hr x hi hh
        split at h
        · cases h; exact hsame
        · simp only at h
          split at h
          · cases h; exact hnf
          · rename_i pa hpa
            split at h
            · cases h; exact hnf
            · rename_i idx hidx
              split at h
              · cases h
              · rename_i el hget
                split at h
                · cases h; exact hnf
                · split at h
                  · cases h
                  · rename_i old w2 cx2 hset
                    split at h
                    · cases h
                    · cases h
                      obtain ⟨r1, r2, r3⟩ := harr fuel ih _ _ _ _ _ _ _ _ hr
                        (fun z wrap hz => by cases hz; exact hrk) hset
                      refine ⟨r1, fun z hzx hrz => r2 z ?_ (by omega) ?_, r3 x ?_ (by omega)⟩
                      · intro hzp; subst hzp; omega
                      · intro wrap hz; cases hz; exact hzx rfl
                      · intro hzp; rw [hzp] at hrk; omega
          · rename_i pm hpm
            split at h
            · cases h
            · rename_i k hk
              split at h
              · cases h; exact hnf
              · cases h
              · rename_i el hget
                split at h
                · cases h; exact hnf
                · split at h
                  · cases h
                  · rename_i old w2 cx2 hset
                    split at h
                    · split at h
                      · cases h
                      · cases h
                        obtain ⟨r1, r2, r3⟩ := hmap fuel ih _ _ _ _ _ _ _ _ hr
                          (fun z wrap hz => by cases hz; exact hrk) hset
                        refine ⟨r1, fun z hzx hrz => r2 z ?_ (by omega) ?_, r3 x ?_ (by omega)⟩
                        · intro hzp; subst hzp; omega
                        · intro wrap hz; cases hz; exact hzx rfl
                        · intro hzp; rw [hzp] at hrk; omega
                    · cases h
  exact ⟨hnot fuel, harr fuel (hnot fuel), hmap fuel (hnot fuel)⟩

end World
end Atree
