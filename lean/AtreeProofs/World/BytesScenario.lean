import AtreeProofs.Props.C03WorldBytesFinal
import AtreeProofs.WorldCodec.LeafDec
import AtreeProofs.World.PersistScenario
/-
  NON-VACUITY of `Props/C07World.lean` and `Props/C03WorldBytes.lean`: the run of
  `World/OkScenario.lean` — up to the depth-3 world `t8`: `R` (array) ∋ inlined map `M` ∋ wrapped inlined array `A` holding one
  value; `R` ∋ inlined empty array `B`.
-/
namespace Atree.BytesScenario
open Atree Atree.Codec Gen World St
open Atree.OkScenario
open Atree.HeapScenario
open Atree.PersistScenario (hist5 hist6 hist7 hv5 hv6 hv7 hv8)
open Atree.Scenario (w0 cx0)
open Atree.C09 (newEffects newCreated)
open Atree.C09W (Hist)
open Atree.WC

/-! ### the side conditions hold (by evaluation) -/

theorem leaf8 : LeafOk t8.1 t8.2.ctr := by decide
theorem side8 : SideAll t8.1 := by decide

def kind : Slab → String
  | .data .. => "data" | .index .. => "index" | .storable .. => "storable" | .adata .. => "adata"
  | .mdata .. => "mdata" | .mindex .. => "mindex" | .storableG .. => "storableG"

/-- the single slab of the world `t8` as the codec sees it: an array data slab (kind `adata`) whose two
    elements are an inlined map — whose one value is a wrapped inlined array holding one value — and
    an inlined empty array -/
example : (t8.1.toCodec R).map kind = some "adata" := by decide
example : (t8.1.toCodec R).map (fun sl => match sl with | .adata a => vneedISts a.elems | _ => 0) = some 10 := by decide

/-- C07 / C06 for the slab of `R` with its children at three levels, from the theorem -/
example (sl : Slab) (h : t8.1.toCodec R = some sl) :
    (∃ k, decodeSlab R (encodeSlab sl) 0 = .ok sl k) ∧
    (encodeSlab sl).length + omittedNext sl = sl.byteSize + sl.extraDataLen :=
  C07W.hist_decode_encode D t8.1 t8.2 hist8 leaf8 R sl h (side8.at R) 0

/-! ### the run against the storage with the byte codec -/

theorem histB8 : ∃ s, HistB D t8.1 t8.2 s := by
  have h0 : HistB D w0 cx0 St.init := .new 256 1 (by decide)
  have h1 := HistB.req h0 (Req.newArr (D := D) (w := w0) (cx := cx0) 7)
  have h2 := HistB.req h1 (Req.newMap (D := D) 8 5)
  have h3 := HistB.req h2 (Req.newArr (D := D) 9)
  have h4 := HistB.req h3 (Req.newArr (D := D) 10)
  have h5 := HistB.req h4 (Req.arrInsert (D := D) handles4.1 hv5 run5)
  have h6 := HistB.req h5 (Req.mapSet (D := D) ok5.2.2 keyOk_K1 hv6 run6)
  have h7 := HistB.req h6 (Req.arrInsert (D := D) ok6.2.2 hv7 run7)
  have h8 := HistB.req h7 (Req.arrInsert (D := D) handleR7 hv8 run8)
  exact ⟨_, h8⟩

/-- the byte-level commit / reopen theorem applies to the depth-3 world `t8` (no hypothesis left) -/
example (s : St Slab (SlabID × Bytes)) (h : HistB D t8.1 t8.2 s) :=
  C03WBF.world_bytes_commit_reopen D h leaf8 side8.at .det [] []

end Atree.BytesScenario
