import AtreeProofs.World.Dom
/-
  `mutableElementIndex` stays correct (`MutIdxOk`) through the mutual block and through
  `arrInsert`, given the list-level behaviour of `Arr.set` / `Arr.insert` / `Arr.get` on the
  arrays that satisfy some invariant `I` (kept by these operations and by inline / un-inline).
  Key fact: a notification only ever overwrites a slot holding a reference to `x` by another
  reference to `x`, so the PAYLOADS of every array are unchanged by the whole mutual block.
-/
namespace Atree
open Gen

/-- list-level facts about the array operations, for the arrays satisfying `I` -/
structure ArrFacts (T : Nat) (I : Arr → Prop) : Prop where
  set : ∀ (a a' : Arr) (c c' : Ctx) (j : Nat) (e old : Elem), I a → a.set T j e c = .ok (old, a', c') →
    (∃ r, e.pay = .ref r) → I a' ∧ a'.toList = a.toList.set j e
  insert : ∀ (a a' : Arr) (c c' : Ctx) (j : Nat) (e : Elem), I a → a.insert T j e c = .ok (a', c') →
    I a' ∧ j ≤ a.toList.length ∧ ∃ e', a'.toList = a.toList.insertIdx j e' ∧ (∀ r, e.pay = .ref r → e' = e)
  get : ∀ (a : Arr) (j : Nat) (el : Elem), I a → a.get j = .ok el → a.toList[j]? = some el
  form : ∀ (a a' : Arr), a'.toList = a.toList → a'.rootID = a.rootID → (∀ i, a'.get i = a.get i) → I a → I a'

namespace World

/-- every array of the world satisfies `I` -/
def AllI (I : Arr → Prop) (w : World) : Prop := ∀ q a, w.cont? q = some (.arr a) → I a

/-- every array of `w` is still an array in `w'`, with the same payloads at the same positions -/
def PayFrame (w w' : World) : Prop :=
  ∀ q a, w.cont? q = some (.arr a) →
    ∃ a', w'.cont? q = some (.arr a') ∧ a'.toList.map (·.pay) = a.toList.map (·.pay)

theorem PayFrame.refl (w : World) : PayFrame w w := fun _ a h => ⟨a, h, rfl⟩

theorem PayFrame.trans {w1 w2 w3 : World} (h12 : PayFrame w1 w2) (h23 : PayFrame w2 w3) : PayFrame w1 w3 := by
  intro q a h
  obtain ⟨a2, h2, e2⟩ := h12 q a h
  obtain ⟨a3, h3, e3⟩ := h23 q a2 h2
  exact ⟨a3, h3, e3.trans e2⟩

theorem PayFrame.of_conts {w w' : World} (h : ∀ q, w'.cont? q = w.cont? q) : PayFrame w w' :=
  fun q a hq => ⟨a, by rw [h q]; exact hq, rfl⟩

/-- `MutIdxOk` in terms of payloads -/
theorem mutIdxOk_iff (w : World) : MutIdxOk w ↔
    ∀ p a, w.cont? p = some (.arr a) → ∀ x i, AList.find? (w.idxOf p) x = some i →
      (a.toList.map (·.pay))[i]? = some (.ref x) := by
  constructor
  · intro h p a hp x i hx
    obtain ⟨e, he, hpay⟩ := h p a hp x i hx
    rw [List.getElem?_map, he, Option.map_some, hpay]
  · intro h p a hp x i hx
    have := h p a hp x i hx
    rw [List.getElem?_map] at this
    cases he : a.toList[i]? with
    | none => rw [he] at this; cases this
    | some e => rw [he] at this; simp only [Option.map_some, Option.some.injEq] at this; exact ⟨e, rfl, this⟩

/-- the combined invariant -/
def MInv (I : Arr → Prop) (w : World) : Prop := AllI I w ∧ MutIdxOk w

/-- replacing a container by one holding the same data -/
theorem MInv.setCont_same {T : Nat} {I : Arr → Prop} (F : ArrFacts T I) {w : World} (h : MInv I w)
    {x : SlabID} {c c' : Cont} (hc : w.cont? x = some c) (hs : Cont.SameData c c') :
    MInv I (w.setCont x c') ∧ PayFrame w (w.setCont x c') := by
  refine ⟨⟨?_, ?_⟩, ?_⟩
  · intro q a hq
    rw [cont?_setCont] at hq
    split at hq
    · rename_i hxq; subst hxq
      cases hq
      cases c with
      | arr a0 =>
        obtain ⟨a1, h1, h2, h3, h4⟩ := hs.arr
        cases h1
        exact F.form a0 a h2 h3 h4 (h.1 x a0 hc)
      | map m => simp [Cont.SameData] at hs
    · exact h.1 q a hq
  · intro q a hq z i hz
    rw [cont?_setCont] at hq
    rw [idxOf_setCont] at hz
    split at hq
    · rename_i hxq; subst hxq
      cases hq
      cases c with
      | arr a0 =>
        obtain ⟨a1, h1, h2, _, _⟩ := hs.arr
        cases h1
        rw [h2]; exact h.2 x a0 hc z i hz
      | map m => simp [Cont.SameData] at hs
    · exact h.2 q a hq z i hz
  · intro q a hq
    by_cases hxq : x = q
    · subst hxq
      rw [hc] at hq; cases hq
      obtain ⟨a1, h1, h2, _, _⟩ := hs.arr
      exact ⟨a1, by rw [h1]; simp, by rw [h2]⟩
    · exact ⟨a, by rw [cont?_setCont, if_neg hxq]; exact hq, rfl⟩

theorem MInv.childStorable {T : Nat} {I : Arr → Prop} (F : ArrFacts T I) {w : World} (h : MInv I w)
    {x : SlabID} {wrap lim : Nat} {cx : Ctx} {e : Elem} {w' : World} {cx' : Ctx}
    (hst : w.childStorable x wrap lim cx = .ok (e, w', cx')) :
    MInv I w' ∧ PayFrame w w' ∧ w'.mutIdx = w.mutIdx ∧ w'.T = w.T ∧ e.pay = .ref x := by
  obtain ⟨c, hc⟩ := childStorable_some hst
  obtain ⟨c', hs, _, he, hcase⟩ := childStorable_ok hc hst
  rcases hcase with ⟨_, _, h3, _⟩ | ⟨_, h3, _⟩
  · subst h3; exact ⟨h, PayFrame.refl _, rfl, rfl, by rw [he]⟩
  · subst h3
    obtain ⟨m1, m2⟩ := h.setCont_same F hc hs
    exact ⟨m1, m2, rfl, rfl, by rw [he]⟩

theorem MInv.storableOf {T : Nat} {I : Arr → Prop} (F : ArrFacts T I) {w : World} (h : MInv I w)
    {v : WVal} {lim : Nat} {cx : Ctx} {e : Elem} {w' : World} {cx' : Ctx}
    (hst : w.storableOf v lim cx = .ok (e, w', cx')) :
    MInv I w' ∧ PayFrame w w' ∧ w'.mutIdx = w.mutIdx ∧ w'.T = w.T ∧ (∀ x wrap, v = .child x wrap → e.pay = .ref x) := by
  cases v with
  | plain e0 =>
    simp only [World.storableOf] at hst; cases hst
    exact ⟨h, PayFrame.refl _, rfl, rfl, fun _ _ hv => by cases hv⟩
  | child x wrap =>
    obtain ⟨m1, m2, m3, m4, m5⟩ := h.childStorable F hst
    exact ⟨m1, m2, m3, m4, fun _ _ hv => by cases hv; exact m5⟩

theorem MInv.of_same {I : Arr → Prop} {w w' : World} (h : MInv I w) (hc : ∀ q, w'.cont? q = w.cont? q)
    (hm : w'.mutIdx = w.mutIdx) : MInv I w' := by
  refine ⟨fun q a hq => h.1 q a (by rw [← hc q]; exact hq), fun q a hq z i hz => ?_⟩
  have : w'.idxOf q = w.idxOf q := by simp [World.idxOf, hm]
  rw [this] at hz
  exact h.2 q a (by rw [← hc q]; exact hq) z i hz

/-- writing a reference to `x` over a reference to `x` in slot `i` of the array `p` -/
theorem MInv.setSlot {T : Nat} {I : Arr → Prop} (F : ArrFacts T I) {w w1 : World} (h : MInv I w) (h1 : MInv I w1)
    (hm : w1.mutIdx = w.mutIdx)
    {p x : SlabID} {a a' : Arr} {i : Nat} {el e old : Elem} {c c' : Ctx}
    (hpa : w.cont? p = some (.arr a)) (hget : a.get i = .ok el) (hel : el.pay = .ref x) (he : e.pay = .ref x)
    (hset : a.set T i e c = .ok (old, a', c')) :
    MInv I (w1.setCont p (.arr a')) ∧ a'.toList.map (·.pay) = a.toList.map (·.pay) := by
  have hIa := h.1 p a hpa
  obtain ⟨hIa', hl⟩ := F.set a a' c c' i e old hIa hset ⟨x, he⟩
  have hgi := F.get a i el hIa hget
  have hlt : i < a.toList.length := by
    rcases List.getElem?_eq_some_iff.mp hgi with ⟨h, _⟩; exact h
  have hpay : a'.toList.map (·.pay) = a.toList.map (·.pay) := by
    rw [hl, List.map_set]
    apply List.ext_getElem?
    intro j
    rw [List.getElem?_set]
    split
    · rename_i hij; subst hij
      rw [List.getElem?_map, hgi]
      simp [he, hel, hlt]
    · rfl
  refine ⟨⟨?_, ?_⟩, hpay⟩
  · intro q b hq
    rw [cont?_setCont] at hq
    split at hq
    · cases hq; exact hIa'
    · exact h1.1 q b hq
  · rw [mutIdxOk_iff]
    intro q b hq z j hz
    rw [cont?_setCont] at hq
    rw [idxOf_setCont] at hz
    split at hq
    · rename_i hpq; subst hpq
      cases hq
      have : w1.idxOf p = w.idxOf p := by simp [World.idxOf, hm]
      rw [this] at hz
      rw [hpay]
      exact (mutIdxOk_iff w).mp h.2 p a hpa z j hz
    · exact (mutIdxOk_iff w1).mp h1.2 q b hq z j hz

/-- recording `x ↦ i` for an array `p` whose slot `i` holds a reference to `x` -/
theorem MInv.setCallbackArr {I : Arr → Prop} {w : World} (h : MInv I w) {p : SlabID} {i : Nat} {v : WVal}
    (hv : ∀ x wrap, v = .child x wrap → ∀ a, w.cont? p = some (.arr a) → (a.toList.map (·.pay))[i]? = some (.ref x)) :
    MInv I (w.setCallbackArr p i v) := by
  cases v with
  | plain e => exact h
  | child x wrap =>
    refine ⟨fun q a hq => h.1 q a hq, ?_⟩
    rw [mutIdxOk_iff]
    intro q a hq z j hz
    have hq' : w.cont? q = some (.arr a) := hq
    have hidx : (w.setCallbackArr p i (.child x wrap)).idxOf q =
        if p = q then AList.insert (w.idxOf p) x i else w.idxOf q := by
      simp only [World.setCallbackArr, World.idxOf, World.setIdx, AList.find?_insert]
      split <;> rfl
    rw [hidx] at hz
    split at hz
    · rename_i hpq; subst hpq
      rw [AList.find?_insert] at hz
      split at hz
      · rename_i hxz; subst hxz; cases hz
        exact hv x wrap rfl a hq'
      · exact (mutIdxOk_iff w).mp h.2 p a hq' z j hz
    · exact (mutIdxOk_iff w).mp h.2 q a hq' z j hz

/-- The three statements proved simultaneously by induction on the fuel. -/
theorem mutual_mutIdx (T : Nat) (I : Arr → Prop) (F : ArrFacts T I) (fuel : Nat) :
    (∀ w y cx w' cx', w.T = T → MInv I w → notifyParent fuel w y cx = .ok (w', cx') →
        MInv I w' ∧ PayFrame w w' ∧ w'.T = T) ∧
    (∀ w p i x wrap cx old w' cx' a el, w.T = T → MInv I w → w.cont? p = some (.arr a) →
        a.get i = .ok el → el.pay = .ref x →
        arrSetRaw fuel w p i (.child x wrap) cx = .ok (old, w', cx') →
        MInv I w' ∧ PayFrame w w' ∧ w'.T = T) ∧
    (∀ w p k v cx old w' cx', w.T = T → MInv I w → mapSetRaw fuel w p k v cx = .ok (old, w', cx') →
        MInv I w' ∧ PayFrame w w' ∧ w'.T = T) := by
  have harr : ∀ fuel, (∀ w y cx w' cx', w.T = T → MInv I w → notifyParent fuel w y cx = .ok (w', cx') →
        MInv I w' ∧ PayFrame w w' ∧ w'.T = T) →
      (∀ w p i x wrap cx old w' cx' a el, w.T = T → MInv I w → w.cont? p = some (.arr a) →
        a.get i = .ok el → el.pay = .ref x →
        arrSetRaw fuel w p i (.child x wrap) cx = .ok (old, w', cx') →
        MInv I w' ∧ PayFrame w w' ∧ w'.T = T) := by
    intro fuel ihn w p i x wrap cx old w' cx' a el hT hinv hpa hget hel h
    rw [arrSetRaw] at h
    simp only [hpa] at h
    split at h
    · cases h
    · simp only [World.storableOf] at h
      split at h
      · cases h
      · rename_i e w1 cx1 hst
        obtain ⟨m1, f1, hm1, hT1, hep⟩ := hinv.childStorable F hst
        split at h
        · cases h
        · rename_i old1 a' cx2 hset
          split at h
          · cases h
          · rename_i w3 cx3 hnp
            cases h
            rw [hT1, hT] at hset
            obtain ⟨m2, hpay⟩ := hinv.setSlot F m1 hm1 hpa hget hel hep hset
            have f2 : PayFrame w1 (w1.setCont p (.arr a')) := by
              intro q b hq
              by_cases hpq : p = q
              · subst hpq
                obtain ⟨a1, ha1, hp1⟩ := f1 p a hpa
                rw [ha1] at hq; cases hq
                exact ⟨a', by simp, by rw [hpay, hp1]⟩
              · exact ⟨b, by rw [cont?_setCont, if_neg hpq]; exact hq, rfl⟩
            obtain ⟨m3, f3, hT3⟩ := ihn _ _ _ _ _ (by simp [hT1, hT]) m2 hnp
            have f123 := f1.trans (f2.trans f3)
            refine ⟨m3.setCallbackArr ?_, f123.trans (PayFrame.of_conts (fun q => cont?_setCallbackArr _ _ _ _ _)), by simp [hT3]⟩
            intro x' wrap' hv b hb
            cases hv
            obtain ⟨a3, ha3, hp3⟩ := f123 p a hpa
            rw [ha3] at hb; cases hb
            rw [hp3, List.getElem?_map, F.get a i el (hinv.1 p a hpa) hget]
            simp [hel]
  have hmap : ∀ fuel, (∀ w y cx w' cx', w.T = T → MInv I w → notifyParent fuel w y cx = .ok (w', cx') →
        MInv I w' ∧ PayFrame w w' ∧ w'.T = T) →
      (∀ w p k v cx old w' cx', w.T = T → MInv I w → mapSetRaw fuel w p k v cx = .ok (old, w', cx') →
        MInv I w' ∧ PayFrame w w' ∧ w'.T = T) := by
    intro fuel ihn w p k v cx old w' cx' hT hinv h
    rw [mapSetRaw] at h
    split at h
    · rename_i m hpm
      split at h
      · cases h
      · rename_i e w1 cx1 hst
        obtain ⟨m1, f1, hm1, hT1, _⟩ := hinv.storableOf F hst
        have d1 : DomRel False w w1 := DomRel.storableOf hst
        split at h
        · cases h
        · rename_i old1 m' cx2 hset
          simp only at h
          split at h
          · cases h
          · rename_i w3 cx3 hnp
            cases h
            -- `p` is a map in `w1` too
            have hp1 : ∀ b, w1.cont? p ≠ some (.arr b) := by
              intro b hb
              obtain ⟨c1, hc1, hsd⟩ : ∃ c1, w1.cont? p = some c1 ∧ Cont.SameData (.map m) c1 := by
                cases v with
                | plain e0 =>
                  simp only [World.storableOf] at hst; cases hst
                  exact ⟨_, hpm, Cont.SameData.refl _⟩
                | child x wrap =>
                  obtain ⟨_, _, _, _, g5, ⟨c, c', gc, gc', gs⟩, _⟩ := childStorable_frame hst
                  by_cases hpx : p = x
                  · subst hpx
                    rw [hpm] at gc; cases gc
                    exact ⟨c', gc', gs⟩
                  · exact ⟨_, by rw [g5 p hpx]; exact hpm, Cont.SameData.refl _⟩
              rw [hb] at hc1; cases hc1
              simp [Cont.SameData] at hsd
            have m2 : MInv I (w1.setCont p (.map m')) := by
              refine ⟨?_, ?_⟩
              · intro q b hq
                rw [cont?_setCont] at hq
                split at hq
                · cases hq
                · exact m1.1 q b hq
              · intro q b hq z j hz
                rw [cont?_setCont] at hq
                split at hq
                · cases hq
                · exact m1.2 q b hq z j hz
            have f2 : PayFrame w1 (w1.setCont p (.map m')) := by
              intro q b hq
              by_cases hpq : p = q
              · subst hpq; exact absurd hq (hp1 b)
              · exact ⟨b, by rw [cont?_setCont, if_neg hpq]; exact hq, rfl⟩
            obtain ⟨m3, f3, hT3⟩ := ihn _ _ _ _ _ (by simp [hT1, hT]) m2 hnp
            refine ⟨m3.of_same (fun q => cont?_setCallbackMap _ _ _ _ _) (mutIdx_setCallbackMap _ _ _ _),
              (f1.trans (f2.trans f3)).trans (PayFrame.of_conts (fun q => cont?_setCallbackMap _ _ _ _ _)), by simp [hT3]⟩
    · cases h
  have hnot : ∀ fuel, (∀ w y cx w' cx', w.T = T → MInv I w → notifyParent fuel w y cx = .ok (w', cx') →
        MInv I w' ∧ PayFrame w w' ∧ w'.T = T) := by
    intro fuel
    induction fuel with
    | zero => intro w x cx w' cx' _ _ h; rw [notifyParent] at h; cases h
    | succ fuel ih =>
      intro w x cx w' cx' hT hinv h
      have hsame : MInv I w ∧ PayFrame w w ∧ w.T = T := ⟨hinv, PayFrame.refl _, hT⟩
      have hnf : MInv I { w with hinfo := AList.erase w.hinfo x } ∧
          PayFrame w { w with hinfo := AList.erase w.hinfo x } ∧
          ({ w with hinfo := AList.erase w.hinfo x } : World).T = T :=
        ⟨hinv.of_same (fun _ => rfl) rfl, PayFrame.of_conts (fun _ => rfl), hT⟩
      rw [notifyParent] at h
      split at h
      · cases h; exact hsame
      · cases h
      · rename_i hi c hh hc
        split at h
        · cases h; exact hsame
        · simp only at h
          split at h
          · cases h; exact hnf
          · rename_i pa hpa
            split at h
            · cases h; exact hnf
            · rename_i idx hidx
              split at h
              · cases h
              · rename_i el hget
                split at h
                · cases h; exact hnf
                · rename_i hel
                  split at h
                  · cases h
                  · rename_i old w2 cx2 hset
                    split at h
                    · cases h
                    · cases h
                      exact harr fuel ih _ _ _ _ _ _ _ _ _ _ _ hT hinv hpa hget (by simpa using hel) hset
          · rename_i pm hpm
            split at h
            · cases h
            · rename_i k hk
              split at h
              · cases h; exact hnf
              · cases h
              · rename_i el hget
                split at h
                · cases h; exact hnf
                · split at h
                  · cases h
                  · rename_i old w2 cx2 hset
                    split at h
                    · split at h
                      · cases h
                      · cases h
                        exact hmap fuel ih _ _ _ _ _ _ _ _ hT hinv hset
                    · cases h
  exact ⟨hnot fuel, harr fuel (hnot fuel), hmap fuel (hnot fuel)⟩

end World
end Atree

namespace Atree
open Gen
namespace World

/-- `arrInsert` keeps `MutIdxOk` (and `I` on every array) -/
theorem arrInsert_mInv {T : Nat} {I : Arr → Prop} (F : ArrFacts T I) {w : World} {p : SlabID} {i : Nat} {v : WVal}
    {cx : Ctx} {w' : World} {cx' : Ctx} (hT : w.T = T) (hinv : MInv I w)
    (h : w.arrInsert p i v cx = .ok (w', cx')) : MInv I w' := by
  unfold arrInsert at h
  split at h
  · rename_i a hpa
    split at h
    · cases h
    · simp only [bind, Except.bind] at h
      split at h
      · cases h
      · rename_i r hst
        obtain ⟨e, w1, cx1⟩ := r
        simp only at h
        obtain ⟨m1, f1, hm1, hT1, hep⟩ := hinv.storableOf F hst
        split at h
        · cases h
        · rename_i a' cx2 hins
          split at h
          · cases h
          · rename_i r2 hnp
            obtain ⟨w3, cx3⟩ := r2
            simp only [pure, Except.pure] at h
            cases h
            rw [hT1, hT] at hins
            obtain ⟨hIa', hle, e', hl, heq⟩ := F.insert a a' cx1 cx2 i e (hinv.1 p a hpa) hins
            have hidx1 : ∀ q, w1.idxOf q = w.idxOf q := fun q => by simp [World.idxOf, hm1]
            -- the state at the notification
            have m2 : MInv I ((w1.setCont p (.arr a')).shiftIdx p (fun j => if j ≥ i then j + 1 else j)) := by
              refine ⟨?_, ?_⟩
              · intro q b hq
                rw [cont?_shiftIdx, cont?_setCont] at hq
                split at hq
                · cases hq; exact hIa'
                · exact m1.1 q b hq
              · rw [mutIdxOk_iff]
                intro q b hq z j hz
                rw [cont?_shiftIdx, cont?_setCont] at hq
                rw [idxOf_shiftIdx, idxOf_setCont, idxOf_setCont] at hz
                split at hq
                · rename_i hpq; subst hpq
                  cases hq
                  rw [if_pos rfl] at hz
                  replace hz : (AList.find? (w1.idxOf p) z).map (fun j => if j ≥ i then j + 1 else j) = some j := by
                    rw [← AList.find?_map_snd]; exact hz
                  rw [hidx1] at hz
                  cases hj0 : AList.find? (w.idxOf p) z with
                  | none => rw [hj0] at hz; cases hz
                  | some j0 =>
                    rw [hj0] at hz
                    simp only [Option.map_some, Option.some.injEq] at hz
                    have h0 := (mutIdxOk_iff w).mp hinv.2 p a hpa z j0 hj0
                    rw [List.getElem?_map] at h0 ⊢
                    rw [hl, ← hz]
                    by_cases hge : j0 ≥ i
                    · rw [if_pos hge, List.getElem?_insertIdx_of_gt (by omega)]
                      simpa using h0
                    · rw [if_neg hge, List.getElem?_insertIdx_of_lt (by omega)]
                      exact h0
                · rename_i hpq
                  rw [if_neg hpq] at hz
                  exact (mutIdxOk_iff w1).mp m1.2 q b hq z j hz
            obtain ⟨m3, f3, _⟩ := (mutual_mutIdx T I F _).1 _ _ _ _ _ (by simp [hT1, hT]) m2 hnp
            refine m3.setCallbackArr ?_
            intro x wrap hv b hb
            have hex : e.pay = .ref x := hep x wrap hv
            obtain ⟨a3, ha3, hp3⟩ := f3 p a' (by simp)
            rw [ha3] at hb; cases hb
            rw [hp3, List.getElem?_map, hl, List.getElem?_insertIdx_self, if_pos hle, heq x hex]
            simp [hex]
  · cases h

end World
end Atree
