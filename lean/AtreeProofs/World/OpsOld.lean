import AtreeProofs.World.OpsChild
/-
  Shared by the public operations that hand a value back (`arrSet`, `arrRemove`, `mapSet`,
  `mapRemove`): `uninlineIfNeeded` turns the (now unreferenced) container into a standalone one,
  its index entry is dropped, and it is settled.
-/
namespace Atree
open Gen

namespace World

variable {D : SlabID → DigestFn 4} {rank : SlabID → Nat}

theorem WorldOkGen.congr_O {w : World} {ctr : Nat} {stale : Option SlabID} {O O' : SlabID → Prop}
    (H : WorldOkGen D rank stale O w ctr) (h : ∀ z, O z ↔ O' z) : WorldOkGen D rank stale O' w ctr := by
  have : O = O' := funext (fun z => propext (h z))
  rw [← this]; exact H

/-- a `ClosureAt` exhibits a holder -/
theorem ClosureAt.holds {w : World} {x : SlabID} {hi : HInfo} {lim : Nat} {e : Elem}
    (h : ClosureAt w x hi lim e) : Holds w hi.parent x := by
  rcases h with ⟨pa, i, hpa, _, hge, hpay, _⟩ | ⟨pm, k, hpm, _, hmem, hpay, _⟩
  · refine ⟨_, hpa, ?_⟩
    rw [Cont.pays, Cont.storedElems]
    exact List.mem_map.mpr ⟨e, List.mem_of_getElem? hge, hpay⟩
  · refine ⟨_, hpm, ?_⟩
    rw [Cont.pays, Cont.storedElems]
    exact List.mem_map.mpr ⟨e, List.mem_map.mpr ⟨_, hmem, rfl⟩, hpay⟩

/-- dropping index entries keeps the invariant -/
theorem WorldOkGen.idx_sub {w w' : World} {ctr : Nat} {O : SlabID → Prop}
    (H : WorldOkGen D rank none O w ctr) (hT : w'.T = w.T) (ha : w'.addr = w.addr)
    (hc : ∀ z, w'.cont? z = w.cont? z) (hh : w'.hinfo = w.hinfo)
    (hidx : ∀ q z (j : Nat), AList.find? (w'.idxOf q) z = some j → AList.find? (w.idxOf q) z = some j) :
    WorldOkGen D rank none O w' ctr := by
  have hS : ContsSig w w' := ⟨hT, fun q => by rw [hc]⟩
  refine ⟨by rw [hT]; exact H.legal, ?_, ?_, ?_, ?_, ?_, hS.uniqueRef H.unique, ?_, ?_,
    hS.closureOk H.closure (fun x hi hx => by rw [← hh]; exact hx), hS.cRank H.rank,
    hS.refsBelow H.below (Nat.le_refl _), hS.idxLive H.idxLive hidx,
    hS.hinfoLive H.hinfoLive (fun x hi hx => by rw [← hh]; exact hx)⟩
  · intro z cz hz; rw [hc] at hz; exact H.ids z cz hz
  · intro z cz hz; rw [hc] at hz; rw [ha]; exact H.addr z cz hz
  · intro z cz hz; rw [hc] at hz; rw [hT]; exact H.conts z cz hz
  · intro p pc hp le hle x c hx hcx
    rw [hc] at hp hcx
    rw [hT] at hle
    obtain ⟨wr, h1, h2, h3, h4⟩ := H.slots p pc hp le hle x c hx hcx
    refine ⟨wr, h1, h2, h3, ?_⟩
    intro hi hO hhi hca
    rw [hh] at hhi
    refine h4 hi hO hhi ?_
    rcases hca with ⟨pa, i, hpa, hi2, hge, hpay, hlim⟩ | ⟨pm, k, hpm, hk, hmem, hpay, hlim⟩
    · exact Or.inl ⟨pa, i, by rw [← hc]; exact hpa, hidx _ _ _ hi2, hge, hpay, by rw [hlim, hT]⟩
    · exact Or.inr ⟨pm, k, by rw [← hc]; exact hpm, hk, hmem, hpay, by rw [hlim, hT]⟩
  · intro z cz hz hi; rw [hc] at hz; rw [hT]; exact H.band z cz hz hi
  · intro z cz hz hi hO
    rw [hc] at hz
    obtain ⟨q, hq⟩ := H.inlRef z cz hz hi hO
    exact ⟨q, hS.holds hq⟩
  · intro q a hq x i hi hO
    rw [hc] at hq
    exact H.mutIdx q a hq x i (hidx q x i hi) hO

/-- `uninlineIfNeeded` keeps every signature -/
theorem finish_old_sig {w3 : World} {old : Elem} {cx3 : Ctx} {old' : Elem} {ov : Option SlabID} {w4 : World}
    {cx4 : Ctx} (hun : w3.uninlineIfNeeded old cx3 = .ok (old', ov, w4, cx4)) : ContsSig w3 w4 := by
  obtain ⟨_, _, _, hT4, _, hcase⟩ := uninlineIfNeeded_ok hun
  rcases hcase with ⟨_, _, h3, _⟩ | ⟨x, c, _, _, hc, ⟨_, _, h3, _⟩ | ⟨_, c', hsd, _, h3, _⟩⟩
  · subst h3; exact ContsSig.refl _
  · subst h3; exact ContsSig.refl _
  · subst h3
    refine ⟨rfl, fun q => ?_⟩
    by_cases hq : x = q
    · subst hq; rw [cont?_setCont_self, hc]; simp [hsd.sig_eq]
    · rw [cont?_setCont, if_neg hq]

/-- The value handed back is settled: if it refers to a container, `uninlineIfNeeded` makes it a
    standalone one; `w5` is the world after the caller-side clean-up of the index table. -/
theorem finish_old {w3 w5 : World} {ctr : Nat} {old : Elem}
    (H3 : WorldOkGen D rank none (fun z => old.pay = .ref z) w3 ctr)
    (hunref : ∀ z, old.pay = .ref z → (w3.cont? z).isSome → ∀ q, ¬ Holds w3 q z)
    {cx3 : Ctx} {old' : Elem} {ov : Option SlabID} {w4 : World} {cx4 : Ctx}
    (hun : w3.uninlineIfNeeded old cx3 = .ok (old', ov, w4, cx4))
    (hT5 : w5.T = w4.T) (ha5 : w5.addr = w4.addr) (hc5 : ∀ z, w5.cont? z = w4.cont? z) (hh5 : w5.hinfo = w4.hinfo)
    (hidx5 : ∀ q z (j : Nat), AList.find? (w5.idxOf q) z = some j → AList.find? (w4.idxOf q) z = some j)
    (hnoidx5 : ∀ z, old.pay = .ref z → ∀ q a (j : Nat), w5.cont? q = some (.arr a) →
      AList.find? (w5.idxOf q) z = some j → False) :
    WorldOkGen D rank none (fun _ => False) w5 ctr ∧
      (∀ z, old.pay ≠ .ref z → w4.cont? z = w3.cont? z) ∧
      (∀ z c, old.pay = .ref z → w3.cont? z = some c → ∃ c', w4.cont? z = some c' ∧ c'.isInlined = false ∧
        Cont.SameData c c') ∧
      w4.T = w3.T ∧ w4.hinfo = w3.hinfo ∧ w4.mutIdx = w3.mutIdx ∧ ContsSig w3 w4 ∧ old'.pay = old.pay ∧
      cx4.ctr = cx3.ctr := by
  obtain ⟨hpay, hh4, hm4, hT4, ha4, hcase⟩ := uninlineIfNeeded_ok hun
  -- the world after `uninlineIfNeeded`
  have key : ∃ (_ : WorldOkGen D rank none (fun z => old.pay = .ref z) w4 ctr),
      (∀ z, old.pay ≠ .ref z → w4.cont? z = w3.cont? z) ∧
      (∀ z c, old.pay = .ref z → w3.cont? z = some c → ∃ c', w4.cont? z = some c' ∧ c'.isInlined = false ∧
        Cont.SameData c c') ∧ ContsSig w3 w4 := by
    rcases hcase with ⟨_, _, h3, _, hnone⟩ | ⟨x, c, _, hx, hc, ⟨hi, _, h3, _⟩ | ⟨hi, c', hsd, hi', h3, _, _⟩⟩
    · subst h3
      exact ⟨H3, fun _ _ => rfl, fun z c hz hc => (by rw [hnone z hz] at hc; cases hc), ContsSig.refl _⟩
    · subst h3
      refine ⟨H3, fun _ _ => rfl, fun z c0 hz hc0 => ?_, ContsSig.refl _⟩
      rw [hx] at hz; cases hz
      rw [hc] at hc0; cases hc0
      exact ⟨c, hc, hi, Cont.SameData.refl c⟩
    · subst h3
      have hok' : ContOk w3.T (D x) ctr c' := by
        have hokc := H3.conts x c hc
        unfold World.uninlineIfNeeded at hun
        rw [hx] at hun
        simp only [hc, hi, if_true] at hun
        split at hun
        · cases hun
        · rename_i c2 cx2 hun2
          cases hun
          exact contOk_uninline H3.legal hokc (H3.band x c hc hi) hun2
      have H4 := step_childform (w1 := w3.setCont x c') H3 hc (hunref x hx (by rw [hc]; rfl)) hsd hok'
        (fun h => by rw [hi'] at h; cases h)
        rfl rfl rfl rfl (cont?_setCont_self _ _ _) (fun z hz => cont?_setCont_ne _ _ _ _ hz)
      refine ⟨H4.congr_O (fun z => ⟨fun h => h.elim id (fun h' => by rw [h']; exact hx), Or.inl⟩),
        fun z hz => cont?_setCont_ne _ _ _ _ (fun h => hz (by rw [h]; exact hx)), fun z c0 hz hc0 => ?_, ?_⟩
      · rw [hx] at hz; cases hz
        rw [hc] at hc0; cases hc0
        exact ⟨c', cont?_setCont_self _ _ _, hi', hsd⟩
      · refine ⟨rfl, fun q => ?_⟩
        by_cases hq : x = q
        · subst hq; rw [cont?_setCont_self, hc]; simp [hsd.sig_eq]
        · rw [cont?_setCont, if_neg hq]
  obtain ⟨H4, f1, f2, hS34⟩ := key
  have H5 : WorldOkGen D rank none (fun z => old.pay = .ref z) w5 ctr :=
    H4.idx_sub hT5 ha5 hc5 hh5 hidx5
  have hunref5 : ∀ z, old.pay = .ref z → (w5.cont? z).isSome → ∀ q, ¬ Holds w5 q z := by
    intro z hz hzs q hq
    obtain ⟨qc, hqc, hm⟩ := hq
    rw [hc5] at hqc
    rw [hc5, hS34.isSome] at hzs
    exact hunref z hz hzs q ((hS34.holds_iff q z).mp ⟨qc, hqc, hm⟩)
  have hctr4 : cx4.ctr = cx3.ctr := by
    rcases hcase with ⟨_, _, _, h4, _⟩ | ⟨x, c, _, _, _, ⟨_, _, _, h4⟩ | ⟨_, c', _, _, _, h4, _⟩⟩
    · rw [h4]
    · rw [h4]
    · rw [h4]; rfl
  refine ⟨H5.shrink ?_ ?_ ?_, f1, f2, hT4, hh4, hm4, hS34, hpay, hctr4⟩
  · intro z cz hz _ hcz hi
    exfalso
    rw [hc5] at hcz
    obtain ⟨c3, hc3⟩ : ∃ c3, w3.cont? z = some c3 := by
      have := hS34.isSome z
      rw [hcz] at this
      exact Option.isSome_iff_exists.mp this.symm
    obtain ⟨c', hc', hni, _⟩ := f2 z c3 hz hc3
    rw [hcz] at hc'; cases hc'
    rw [hi] at hni; cases hni
  · intro z hz _ q a j hq hj
    exact absurd (hnoidx5 z hz q a j hq hj) id
  · intro z cz hz _ hcz hi lim e _ hca
    exact absurd hca.holds (hunref5 z hz (by rw [hcz]; rfl) _)

end World
end Atree
