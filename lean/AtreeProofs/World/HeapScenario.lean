import AtreeProofs.Props.C09W
import AtreeProofs.Props.C09WHist
import AtreeProofs.World.OkScenario
/-
  NON-VACUITY of the World-level heap theorems: the run of `AtreeProofs/World/OkScenario.lean`
  (T = 256; root array `R` ∋ map `M` (inlined) ∋ array `A` (inlined, wrapped once), and `R` ∋ array `B`
  (standalone: six 20-byte values)) satisfies `HeapOk` at every step, by CHAINING the operation
  theorems of `Props/C09W.lean` — so their hypotheses are satisfiable along a history with an inlined
  and a standalone child at depth 3 — and the heap / the logs are what one expects (by evaluation).
-/
namespace Atree.HeapScenario
open Atree Gen World
open Atree.OkScenario
open Atree.Scenario (w0 cx0)
open Atree.C09 (newEffects newCreated)

theorem w0_ok : WorldOk' D w0 cx0.ctr :=
  C10W.worldOk'_of_worldOk (C10W.worldOk_new D 256 1 0 (by decide))

theorem hk0 : HeapOk w0 cx0.ctr := C09W.heapOk_new 256 1 0

theorem hk1 : HeapOk t1.2.1 t1.2.2.ctr := (C09W.newArr_effects_complete D w0 7 cx0 w0_ok hk0).2.2.1
theorem hk2 : HeapOk t2.2.1 t2.2.2.ctr :=
  (C09W.newMap_effects_complete D t1.2.1 8 5 t1.2.2 (C10W.worldOk'_of_worldOk ok1.1) hk1).2.2.1
theorem hk3 : HeapOk t3.2.1 t3.2.2.ctr :=
  (C09W.newArr_effects_complete D t2.2.1 9 t2.2.2 (C10W.worldOk'_of_worldOk ok2) hk2).2.2.1
theorem hk4 : HeapOk t4.2.1 t4.2.2.ctr :=
  (C09W.newArr_effects_complete D t3.2.1 10 t3.2.2 (C10W.worldOk'_of_worldOk ok3) hk3).2.2.1

/-- `M` inserted into `R`: `M` fits, it is INLINED — its root slab leaves storage -/
theorem step5 : WEffectsComplete t4.2.1 t5.1 (newEffects t4.2.2 t5.2) (newCreated t4.2.2 t5.2) ∧
    HeapOk t5.1 t5.2.ctr := by
  have hv : WValOk t4.2.1 R (maxInlineArr t4.2.1.T) (.child M 0) :=
    ⟨freshB_live (by decide), unrefB_sound (by decide), not_anc_of_fresh (by decide) (by decide), by decide⟩
  obtain ⟨_, h2, h3, _⟩ := C09W.arrInsert_effects_complete D _ _ _ _ _ _ _ (C10W.worldOk'_of_worldOk ok4) hk4 hv run5
  exact ⟨h2, h3⟩

/-- `A` (wrapped once) stored in the inlined map `M`: `A` is inlined, the chain reaches `R` -/
theorem step6 : WEffectsComplete t5.1 t6.2.1 (newEffects t5.2 t6.2.2) (newCreated t5.2 t6.2.2) ∧
    HeapOk t6.2.1 t6.2.2.ctr := by
  have hv : WValOk t5.1 M (maxInlineMapValue t5.1.T K1.size) (.child A 1) :=
    ⟨freshB_live (by decide), unrefB_sound (by decide), not_anc_of_fresh (by decide) (by decide), by decide⟩
  obtain ⟨_, h2, h3, _⟩ := C09W.mapSet_effects_complete D _ _ _ _ _ _ _ _ (C10W.worldOk'_of_worldOk ok5.1) step5.2
    keyOk_K1 hv run6
  exact ⟨h2, h3⟩

/-- a mutation at depth 3: a value inserted into `A` (inlined in `M`, inlined in `R`) — the only
    slab stored is the root slab of `R`, which embeds both -/
theorem step7 : WEffectsComplete t6.2.1 t7.1 (newEffects t6.2.2 t7.2) (newCreated t6.2.2 t7.2) ∧
    HeapOk t7.1 t7.2.ctr := by
  have hv : WValOk t6.2.1 A (maxInlineArr t6.2.1.T) (pl 1) := ⟨⟨by decide, 1, rfl⟩, by decide⟩
  obtain ⟨_, h2, h3, _⟩ := C09W.arrInsert_effects_complete D _ _ _ _ _ _ _ (C10W.worldOk'_of_worldOk ok6.1) step6.2 hv run7
  exact ⟨h2, h3⟩

theorem step8 : WEffectsComplete t7.1 t8.1 (newEffects t7.2 t8.2) (newCreated t7.2 t8.2) ∧ HeapOk t8.1 t8.2.ctr := by
  have hv : WValOk t7.1 R (maxInlineArr t7.1.T) (.child B 0) :=
    ⟨freshB_live (by decide), unrefB_sound (by decide), not_anc_of_fresh (by decide) (by decide), by decide⟩
  obtain ⟨_, h2, h3, _⟩ := C09W.arrInsert_effects_complete D _ _ _ _ _ _ _ (C10W.worldOk'_of_worldOk ok7.1) step7.2 hv run8
  exact ⟨h2, h3⟩

theorem hk9 : HeapOk t9.1 t9.2.ctr :=
  (C09W.arrInsert_effects_complete D _ _ _ _ _ _ _ (C10W.worldOk'_of_worldOk ok8.1) step8.2 (plOk _ (by decide) 2) run9).2.2.1
theorem hk10 : HeapOk t10.1 t10.2.ctr :=
  (C09W.arrInsert_effects_complete D _ _ _ _ _ _ _ (C10W.worldOk'_of_worldOk ok9.1) hk9 (plOk _ (by decide) 3) run10).2.2.1
theorem hk11 : HeapOk t11.1 t11.2.ctr :=
  (C09W.arrInsert_effects_complete D _ _ _ _ _ _ _ (C10W.worldOk'_of_worldOk ok10.1) hk10 (plOk _ (by decide) 4) run11).2.2.1
theorem hk12 : HeapOk t12.1 t12.2.ctr :=
  (C09W.arrInsert_effects_complete D _ _ _ _ _ _ _ (C10W.worldOk'_of_worldOk ok11.1) hk11 (plOk _ (by decide) 5) run12).2.2.1
theorem hk13 : HeapOk t13.1 t13.2.ctr :=
  (C09W.arrInsert_effects_complete D _ _ _ _ _ _ _ (C10W.worldOk'_of_worldOk ok12.1) hk12 (plOk _ (by decide) 6) run13).2.2.1

/-- the sixth value makes `B` (inlined until now) exceed the limit: it is UN-INLINED — its root
    slab enters storage — and `R` is rewritten with a 19-byte reference -/
theorem step14 : WEffectsComplete t13.1 t14.1 (newEffects t13.2 t14.2) (newCreated t13.2 t14.2) ∧
    HeapOk t14.1 t14.2.ctr := by
  obtain ⟨_, h2, h3, _⟩ := C09W.arrInsert_effects_complete D _ _ _ _ _ _ _ (C10W.worldOk'_of_worldOk ok13.1) hk13
    (plOk _ (by decide) 7) run14
  exact ⟨h2, h3⟩

/-! ### what the heap and the logs are (evaluation) -/

/-- four standalone containers -/
example : t4.2.1.heapIds = [B, A, M, R] := by decide
/-- inserting `M` into `R` inlines `M`: its slab is removed, `R` is stored -/
example : newEffects t4.2.2 t5.2 = [.remove M, .store R] := by decide
example : t5.1.heapIds = [R, B, A] := by decide
/-- storing `A` into the inlined map `M`: `A` inlined (removed), `R` stored (it embeds `M` which embeds `A`) -/
example : newEffects t5.2 t6.2.2 = [.remove A, .store R] := by decide
example : t6.2.1.heapIds = [R, B] := by decide
/-- the mutation at depth 3 stores exactly the root slab of `R` -/
example : newEffects t6.2.2 t7.2 = [.store R] := by decide
example : t7.1.heapIds = [R, B] := by decide
/-- `B` inserted into `R` (empty, it fits): inlined -/
example : newEffects t7.2 t8.2 = [.remove B, .store R] := by decide
example : t8.1.heapIds = [R] := by decide
/-- `B` crosses the inline limit: un-inlined (stored), `R` rewritten -/
example : newEffects t13.2 t14.2 = [.store B, .store R] := by decide
example : t14.1.heapIds = [R, B] := by decide
/-- in the final world `M` and `A` are inlined (own no slab), `R` and `B` are standalone -/
example : ((t14.1.cont? M).map Cont.heapIds, (t14.1.cont? A).map Cont.heapIds,
    (t14.1.cont? R).map Cont.heapIds, (t14.1.cont? B).map Cont.heapIds) = (some [], some [], some [R], some [B]) := by
  decide

/-! ### the run as a history (`C09W.Hist`): storage = heap at the end -/

open Atree.C09W (Hist)

theorem hist4 : Hist D t4.2.1 t4.2.2 :=
  .newArr 10 (.newArr 9 (.newMap 8 5 (.newArr 7 (.new 256 1 (by decide)))))

theorem hist8 : Hist D t8.1 t8.2 := by
  have hv5 : WValOk t4.2.1 R (maxInlineArr t4.2.1.T) (.child M 0) :=
    ⟨freshB_live (by decide), unrefB_sound (by decide), not_anc_of_fresh (by decide) (by decide), by decide⟩
  have hv6 : WValOk t5.1 M (maxInlineMapValue t5.1.T K1.size) (.child A 1) :=
    ⟨freshB_live (by decide), unrefB_sound (by decide), not_anc_of_fresh (by decide) (by decide), by decide⟩
  have hv7 : WValOk t6.2.1 A (maxInlineArr t6.2.1.T) (pl 1) := ⟨⟨by decide, 1, rfl⟩, by decide⟩
  have hv8 : WValOk t7.1 R (maxInlineArr t7.1.T) (.child B 0) :=
    ⟨freshB_live (by decide), unrefB_sound (by decide), not_anc_of_fresh (by decide) (by decide), by decide⟩
  exact .arrInsert (.arrInsert (.mapSet (.arrInsert hist4 handles4.1 hv5 run5) ok5.2.2 keyOk_K1 hv6 run6)
    ok6.2.2 hv7 run7) handleR7 hv8 run8

theorem hist14 : Hist D t14.1 t14.2 :=
  .arrInsert (.arrInsert (.arrInsert (.arrInsert (.arrInsert (.arrInsert hist8
    ok8.2 (plOk _ (by decide) 2) run9) ok9.2 (plOk _ (by decide) 3) run10) ok10.2 (plOk _ (by decide) 4) run11)
    ok11.2 (plOk _ (by decide) 5) run12) ok12.2 (plOk _ (by decide) 6) run13) ok13.2 (plOk _ (by decide) 7) run14

/-- storage = heap for the final world of the scenario (from the theorem) … -/
example : C09W.HeapExact t14.1 t14.2 := (C09W.world_heap_exact D _ _ hist14).2.2
/-- … and by evaluation: the IDs whose last event is a store are `R` and `B`, no large-value slab -/
example : [R, M, A, B].map (lastAction t14.2.eff) = [some true, some false, some false, some true] ∧
    t14.2.created = [] := by decide

end Atree.HeapScenario
