import AtreeProofs.E2EMap.Created
import AtreeProofs.World.Eval
import AtreeProofs.WorldCodec.Bytes
/-
  REQUESTS WITH FITTING VALUES CREATE NO LARGE-VALUE SLAB.

  `Ctx.created` is appended to only by `toStorable` (arrays) and `toStorableLim` (maps), and only for a
  PLAIN value (`pay = .val _`) larger than the per-element limit.  A request of a World history
  (`WC.Req`) hands the container code either a plain value that fits (`WValOk`) or a child container,
  which is stored as an element with a reference payload: `created` never moves.  Hence the hypothesis
  `C09.newCreated cx cx' = []` of `WC.HistB.req` always holds (`Req.newCreated_nil`).

  No structural invariant is used: this is a frame property of the code.
  * arrays, "plain tail": after the leaf's `toStorable` nothing touches `created`
    (`arr_set_tail`, `arr_insert_tail`, `arr_remove_created'`, `arr_setType_created`);
  * maps: the plain-tail lemmas of `E2EMap/Created.lean` (`omap_set_plain`, `omap_remove_plain`);
  * World level: `Cont.inline / uninline`, `childStorable`, `storableOf`, `uninlineIfNeeded` only `emit`;
    `notifyParent / arrSetRaw / mapSetRaw` by induction on the fuel.
-/
namespace Atree.WC
open Atree Gen ATree MetaSlab World

/-! ### an element that `Value.Storable` leaves alone -/

/-- the element is its own storable under the per-element limit `lim`: a reference, or a plain value that fits -/
def EFit (lim : Nat) (e : Elem) : Prop := ∀ n, e.pay = .val n → e.size ≤ lim

theorem EFit.of_le {lim : Nat} {e : Elem} (h : e.size ≤ lim) : EFit lim e := fun _ _ => h

theorem EFit.of_ref {lim : Nat} {e : Elem} {r : SlabID} (h : e.pay = .ref r) : EFit lim e := by
  intro n hn; rw [h] at hn; cases hn

theorem toStorable_of_fit {T : Nat} {e : Elem} (h : EFit (maxInlineArr T) e) (addr : Nat) (c : Ctx) :
    toStorable T addr e c = (e, c) := by
  cases hp : e.pay with
  | ref r => unfold toStorable; rw [hp]
  | val n => exact toStorable_fit T addr e c (h n hp)

theorem toStorableLim_of_fit {lim : Nat} {e : Elem} (h : EFit lim e) (addr : Nat) (c : Ctx) :
    toStorableLim lim addr e c = (e, c) := by
  cases hp : e.pay with
  | ref r => exact toStorableLim_refR lim addr e c r hp
  | val n => exact toStorableLim_of_le lim addr e c (h n hp)

/-! ### the storage calls leave `created` alone -/

theorem created_emit (c : Ctx) (e : Eff) : (c.emit e).created = c.created := rfl
theorem created_alloc (c : Ctx) (a : Nat) : (c.alloc a).2.created = c.created := rfl

theorem storeIfNotInlined_created (s : DataSlab) (c : Ctx) : (s.storeIfNotInlined c).created = c.created := by
  unfold DataSlab.storeIfNotInlined
  split <;> rfl

/-! ### arrays, data slabs -/

theorem data_set_tail {T : Nat} {s s' : DataSlab} {i : Nat} {v old : Elem} {c c' : Ctx}
    (h : s.set T i v c = .ok (old, s', c')) : c'.created = (toStorable T s.hdr.id.addr v c).2.created := by
  unfold DataSlab.set at h
  split at h
  · cases h
  · simp only [Except.ok.injEq, Prod.mk.injEq] at h
    obtain ⟨_, _, rfl⟩ := h
    exact storeIfNotInlined_created _ _

theorem data_insert_tail {T : Nat} {s s' : DataSlab} {i : Nat} {v : Elem} {c c' : Ctx}
    (h : s.insert T i v c = .ok (s', c')) : c'.created = (toStorable T s.hdr.id.addr v c).2.created := by
  unfold DataSlab.insert at h
  split at h
  · cases h
  · simp only [Except.ok.injEq, Prod.mk.injEq] at h
    obtain ⟨_, rfl⟩ := h
    exact storeIfNotInlined_created _ _

theorem data_remove_created {s s' : DataSlab} {i : Nat} {old : Elem} {c c' : Ctx}
    (h : s.remove i c = .ok (old, s', c')) : c'.created = c.created := by
  unfold DataSlab.remove at h
  split at h
  · cases h
  · simp only [Except.ok.injEq, Prod.mk.injEq] at h
    obtain ⟨_, _, rfl⟩ := h
    exact storeIfNotInlined_created _ _

/-! ### arrays, the repair steps -/

section steps
variable {T d : Nat}

theorem split_created {t l r : ATree d} {c c' : Ctx} (h : ATree.split d t c = .ok (l, r, c')) :
    c'.created = c.created := by
  obtain ⟨_, _, _, rfl⟩ := split_struct d t c l r c' h
  rfl

theorem splitChildSlab_created {m m2 : MetaSlab (ATree d)} {child : ATree d} {k : Nat} {c c2 : Ctx}
    (h : m.splitChildSlab child k c = .ok (m2, c2)) : c2.created = c.created := by
  unfold splitChildSlab at h
  obtain ⟨⟨l, r, cs⟩, hsp, h⟩ := bind_eq_ok h
  simp only [pure, Except.pure, Except.ok.injEq, Prod.mk.injEq] at h
  obtain ⟨_, rfl⟩ := h
  exact (split_created hsp : cs.created = c.created)

theorem mor_created {m m2 : MetaSlab (ATree d)} {child : ATree d} {k u : Nat} {c c2 : Ctx}
    (h : mergeOrRebalanceChildSlab T m child k u c = .ok (m2, c2)) : c2.created = c.created := by
  obtain ⟨l, r, li, _, hact⟩ := mor_cases m child k u c m2 c2 h
  rcases hact with ⟨flag, h1⟩ | h1
  · have h2 := congrArg Prod.snd h1
    simp only at h2
    rw [h2, rebal_ctx]; rfl
  · have h2 := congrArg Prod.snd h1
    simp only at h2
    rw [h2, merge_ctx]; rfl

theorem afterSet_created {m m2 : MetaSlab (ATree d)} {child : ATree d} {k : Nat} {c c2 : Ctx}
    (h : afterSet T m child k c = .ok (m2, c2)) : c2.created = c.created := by
  rcases afterSet_inv _ _ _ _ _ _ h with hsp | ⟨u, hmr⟩ | ⟨_, rfl⟩
  · exact splitChildSlab_created hsp
  · exact mor_created hmr
  · rfl

end steps

/-! ### arrays, the tree layer -/

/-- PLAIN TAIL of `ArraySlab.Set`: what was created is what `Value.Storable` at the leaf created -/
theorem atree_set_tail {T : Nat} : ∀ (d : Nat) (t : ATree d) (i : Nat) (v : Elem) (c : Ctx) (old : Elem)
    (t' : ATree d) (c' : Ctx), ATree.set T d t i v c = .ok (old, t', c') →
    ∃ addr, c'.created = (toStorable T addr v c).2.created
  | 0, t, i, v, c, old, t', c' => by
    refine forall_ofData ?_ t; intro s hr
    change s.set T i v c = _ at hr
    exact ⟨_, data_set_tail hr⟩
  | d + 1, t, i, v, c, old, t', c' => by
    refine forall_ofMeta ?_ t; intro m hr
    obtain ⟨k, adj, child, child', c1, m2, _, hset, haft, _⟩ := set_succ_inv m i v c old t' c' hr
    obtain ⟨addr, h1⟩ := atree_set_tail d child adj v c old child' c1 hset
    exact ⟨addr, (afterSet_created haft).trans h1⟩

/-- PLAIN TAIL of `ArraySlab.Insert` -/
theorem atree_insert_tail {T : Nat} : ∀ (d : Nat) (t : ATree d) (i : Nat) (v : Elem) (c : Ctx)
    (t' : ATree d) (c' : Ctx), ATree.insert T d t i v c = .ok (t', c') →
    ∃ addr, c'.created = (toStorable T addr v c).2.created
  | 0, t, i, v, c, t', c' => by
    refine forall_ofData ?_ t; intro s hr
    change s.insert T i v c = _ at hr
    exact ⟨_, data_insert_tail hr⟩
  | d + 1, t, i, v, c, t', c' => by
    refine forall_ofMeta ?_ t; intro m hr
    obtain ⟨k, adj, child, child', c1, _, hins, htl⟩ := insert_succ_inv m i v c t' c' hr
    obtain ⟨addr, h1⟩ := atree_insert_tail d child adj v c child' c1 hins
    rcases htl with ⟨m2, hsp, _⟩ | ⟨_, rfl⟩
    · exact ⟨addr, (splitChildSlab_created hsp).trans h1⟩
    · exact ⟨addr, h1⟩

/-- `ArraySlab.Remove` creates nothing -/
theorem atree_remove_created {T : Nat} : ∀ (d : Nat) (t : ATree d) (i : Nat) (c : Ctx) (old : Elem)
    (t' : ATree d) (c' : Ctx), ATree.remove T d t i c = .ok (old, t', c') → c'.created = c.created
  | 0, t, i, c, old, t', c' => by
    refine forall_ofData ?_ t; intro s hr
    change s.remove i c = _ at hr
    exact data_remove_created hr
  | d + 1, t, i, c, old, t', c' => by
    refine forall_ofMeta ?_ t; intro m hr
    obtain ⟨k, adj, child, child', c1, m2, c2, _, hrem, htl, _, rfl⟩ := remove_succ_inv m i c old t' c' hr
    have h1 := atree_remove_created d child adj c old child' c1 hrem
    rcases htl with ⟨u, hmr⟩ | ⟨_, rfl⟩
    · exact (mor_created hmr).trans h1
    · exact h1

/-! ### arrays, the root -/

theorem splitRoot_created {a a' : Arr} {c c' : Ctx} (h : a.splitRoot c = .ok (a', c')) : c'.created = c.created := by
  obtain ⟨d, t, ty⟩ := a
  rw [splitRoot_eq] at h
  obtain ⟨⟨l, r, cs⟩, hsp, h⟩ := bind_eq_ok h
  cases h
  exact (split_created hsp : cs.created = _)

theorem promote_created (a : Arr) (c : Ctx) : (a.promoteIfSingleChild c).2.created = c.created := by
  rcases promote_ctx a c with ⟨i, j, h⟩ | h
  · rw [h]; rfl
  · rw [h]

/-- PLAIN TAIL of `Array.set` -/
theorem arr_set_tail {T : Nat} {a a' : Arr} {i : Nat} {v old : Elem} {c c' : Ctx}
    (h : a.set T i v c = .ok (old, a', c')) : ∃ addr, c'.created = (toStorable T addr v c).2.created := by
  unfold Arr.set at h
  obtain ⟨⟨old', t', c1⟩, hset, h⟩ := bind_eq_ok h
  simp only at hset h
  obtain ⟨addr, h1⟩ := atree_set_tail a.d a.root i v c old' t' c1 hset
  refine ⟨addr, ?_⟩
  rw [← h1]
  split at h
  · obtain ⟨⟨a2, c2⟩, hsr, h⟩ := bind_eq_ok h
    simp only [pure, Except.pure, Except.ok.injEq, Prod.mk.injEq] at h
    obtain ⟨_, _, rfl⟩ := h
    rw [promote_created]
    exact splitRoot_created hsr
  · simp only [bind, Except.bind, pure, Except.pure, Except.ok.injEq, Prod.mk.injEq] at h
    obtain ⟨_, _, rfl⟩ := h
    exact promote_created _ _

/-- PLAIN TAIL of `Array.Insert` -/
theorem arr_insert_tail {T : Nat} {a a' : Arr} {i : Nat} {v : Elem} {c c' : Ctx}
    (h : a.insert T i v c = .ok (a', c')) : ∃ addr, c'.created = (toStorable T addr v c).2.created := by
  unfold Arr.insert at h
  split at h
  · cases h
  · obtain ⟨⟨t', c1⟩, hins, h⟩ := bind_eq_ok h
    simp only at hins h
    obtain ⟨addr, h1⟩ := atree_insert_tail a.d a.root i v c t' c1 hins
    refine ⟨addr, ?_⟩
    rw [← h1]
    split at h
    · exact splitRoot_created h
    · simp only [pure, Except.pure, Except.ok.injEq, Prod.mk.injEq] at h
      rw [← h.2]

/-- `Array.remove` creates nothing -/
theorem arr_remove_created' {T : Nat} {a a' : Arr} {i : Nat} {old : Elem} {c c' : Ctx}
    (h : a.remove T i c = .ok (old, a', c')) : c'.created = c.created := by
  unfold Arr.remove at h
  obtain ⟨⟨old', t', c1⟩, hrem, h⟩ := bind_eq_ok h
  simp only [pure, Except.pure, Except.ok.injEq, Prod.mk.injEq] at h
  obtain ⟨_, _, rfl⟩ := h
  rw [promote_created]
  exact atree_remove_created a.d a.root i c old' t' c1 hrem

theorem arr_setType_created (a : Arr) (ty : Nat) (c : Ctx) : (a.setType ty c).2.created = c.created := by
  unfold Arr.setType
  simp only
  split <;> rfl

theorem arr_new_created (addr ty : Nat) (c : Ctx) : (Arr.new addr ty c).2.created = c.created := rfl

/-- `Array.set` of an element that is its own storable creates nothing -/
theorem arr_set_created_of_fit {T : Nat} {a a' : Arr} {i : Nat} {v old : Elem} {c c' : Ctx}
    (hv : EFit (maxInlineArr T) v) (h : a.set T i v c = .ok (old, a', c')) : c'.created = c.created := by
  obtain ⟨addr, h1⟩ := arr_set_tail h
  rw [h1, toStorable_of_fit hv]

/-- `Array.Insert` of an element that is its own storable creates nothing -/
theorem arr_insert_created_of_fit {T : Nat} {a a' : Arr} {i : Nat} {v : Elem} {c c' : Ctx}
    (hv : EFit (maxInlineArr T) v) (h : a.insert T i v c = .ok (a', c')) : c'.created = c.created := by
  obtain ⟨addr, h1⟩ := arr_insert_tail h
  rw [h1, toStorable_of_fit hv]

/-! ### maps (the plain tails are in `E2EMap/Created.lean`) -/

/-- `OrderedMap.set` of a value that is its own storable next to `k` creates nothing -/
theorem omap_set_created_of_fit {r : Nat} {cfg : MCfg} {m m' : OMap r} {k : MKey} {v : Elem} {old : Option Elem}
    {c c' : Ctx} (hv : EFit (maxInlineMapValue cfg.T k.size) v) (h : m.set cfg k v c = .ok (old, m', c')) :
    c'.created = c.created := by
  have h1 := (E2EM.omap_set_plain h).created
  rw [h1, E2EM.tsv, toStorableLim_of_fit hv]

theorem omap_remove_created' {r : Nat} {cfg : MCfg} {m m' : OMap r} {k k0 : MKey} {v0 : Elem} {c c' : Ctx}
    (h : m.remove cfg k c = .ok (k0, v0, m', c')) : c'.created = c.created :=
  (E2EM.omap_remove_plain h).created

theorem omap_setType_created {r : Nat} (m : OMap r) (ty : Nat) (c : Ctx) : (m.setType ty c).2.created = c.created := by
  unfold OMap.setType
  simp only
  split <;> rfl

theorem omap_new_created {r : Nat} (addr ty : Nat) (seedOf : SlabID → Nat) (c : Ctx) :
    ((OMap.new addr ty seedOf c : OMap r × Ctx)).2.created = c.created := rfl

/-! ### World level: `Inline` / `Uninline` / `Storable()` / `uninlineStorableIfNeeded` -/

theorem inline_created {c c' : Cont} {id : SlabID} {cx cx' : Ctx} (h : c.inline id cx = .ok (c', cx')) :
    cx'.created = cx.created := by
  unfold Cont.inline at h
  split at h
  · split at h
    · cases h
    · cases h; rfl
  · split at h
    · cases h
    · cases h; rfl
  · cases h

theorem uninline_created {c c' : Cont} {id : SlabID} {cx cx' : Ctx} (h : c.uninline id cx = .ok (c', cx')) :
    cx'.created = cx.created := by
  unfold Cont.uninline at h
  split at h
  · split at h
    · cases h
    · cases h; rfl
  · split at h
    · cases h
    · cases h; rfl
  · cases h

/-- `Array.Storable` / `OrderedMap.Storable`: nothing created, the threshold kept, a reference returned -/
theorem childStorable_created {w w' : World} {vid : SlabID} {wrap lim : Nat} {cx cx' : Ctx} {e : Elem}
    (h : w.childStorable vid wrap lim cx = .ok (e, w', cx')) :
    cx'.created = cx.created ∧ w'.T = w.T ∧ e.pay = .ref vid := by
  unfold World.childStorable at h
  split at h
  · cases h
  · simp only at h
    split at h
    · cases h; exact ⟨rfl, rfl, rfl⟩
    · split at h
      · cases h; exact ⟨rfl, rfl, rfl⟩
      · split at h
        · split at h
          · cases h
          · rename_i c' cx1 hin
            cases h; exact ⟨inline_created hin, rfl, rfl⟩
        · split at h
          · cases h
          · rename_i c' cx1 hun
            cases h; exact ⟨uninline_created hun, rfl, rfl⟩

/-- a value handed to a request that `Value.Storable` of the container code leaves alone -/
def VFit (lim : Nat) : WVal → Prop
  | .plain e => e.size ≤ lim
  | .child _ _ => True

theorem VFit.of_wvalOk {w : World} {p : SlabID} {lim : Nat} {v : WVal} (h : WValOk w p lim v) : VFit lim v := by
  cases v with
  | plain e => exact h.2
  | child x wrap => trivial

/-- `Value.Storable`: nothing created, the threshold kept, the storable is its own storable -/
theorem storableOf_created {w w' : World} {v : WVal} {lim lim' : Nat} {cx cx' : Ctx} {e : Elem}
    (hv : VFit lim' v) (h : w.storableOf v lim cx = .ok (e, w', cx')) :
    cx'.created = cx.created ∧ w'.T = w.T ∧ EFit lim' e := by
  cases v with
  | plain e0 =>
    simp only [World.storableOf, Except.ok.injEq, Prod.mk.injEq] at h
    obtain ⟨rfl, rfl, rfl⟩ := h
    exact ⟨rfl, rfl, EFit.of_le hv⟩
  | child x wrap =>
    obtain ⟨h1, h2, h3⟩ := childStorable_created (show w.childStorable x wrap lim cx = .ok (e, w', cx') from h)
    exact ⟨h1, h2, EFit.of_ref h3⟩

theorem uninlineIfNeeded_created {w w' : World} {e e' : Elem} {ov : Option SlabID} {cx cx' : Ctx}
    (h : w.uninlineIfNeeded e cx = .ok (e', ov, w', cx')) : cx'.created = cx.created := by
  unfold World.uninlineIfNeeded at h
  split at h
  · split at h
    · cases h; rfl
    · split at h
      · simp only at h
        split at h
        · cases h
        · rename_i c' cx1 hun
          cases h; exact uninline_created hun
      · cases h; rfl
  · cases h; rfl

/-! ### the mutual block `notifyParent` / `arrSetRaw` / `mapSetRaw` -/

/-- a notification function that creates nothing -/
def NpPlain (np : World → SlabID → Ctx → Except WErr (World × Ctx)) : Prop :=
  ∀ w x cx w' cx', np w x cx = .ok (w', cx') → cx'.created = cx.created

theorem arrSetRawWith_created {np : World → SlabID → Ctx → Except WErr (World × Ctx)} (hnp : NpPlain np)
    {w w' : World} {p : SlabID} {i : Nat} {v : WVal} {cx cx' : Ctx} {old : Elem}
    (hv : VFit (maxInlineArr w.T) v) (h : arrSetRawWith np w p i v cx = .ok (old, w', cx')) :
    cx'.created = cx.created := by
  unfold arrSetRawWith at h
  split at h
  · split at h
    · cases h
    · split at h
      · cases h
      · rename_i e w1 cx1 hst
        obtain ⟨g1, gT, gE⟩ := storableOf_created hv hst
        split at h
        · cases h
        · rename_i old1 a' cx2 hset
          simp only at h
          split at h
          · cases h
          · rename_i w3 cx3 hn
            cases h
            rw [← gT] at gE
            exact ((hnp _ _ _ _ _ hn).trans (arr_set_created_of_fit gE hset)).trans g1
  · cases h

theorem mapSetRawWith_created {np : World → SlabID → Ctx → Except WErr (World × Ctx)} (hnp : NpPlain np)
    {w w' : World} {p : SlabID} {k : MKey} {v : WVal} {cx cx' : Ctx} {old : Option Elem}
    (hv : VFit (maxInlineMapValue w.T k.size) v) (h : mapSetRawWith np w p k v cx = .ok (old, w', cx')) :
    cx'.created = cx.created := by
  unfold mapSetRawWith at h
  split at h
  · split at h
    · cases h
    · rename_i e w1 cx1 hst
      obtain ⟨g1, gT, gE⟩ := storableOf_created hv hst
      split at h
      · cases h
      · rename_i old1 m' cx2 hset
        simp only at h
        split at h
        · cases h
        · rename_i w3 cx3 hn
          cases h
          rw [← gT] at gE
          exact ((hnp _ _ _ _ _ hn).trans (omap_set_created_of_fit (cfg := w1.mcfg) gE hset)).trans g1
  · cases h

/-- `notifyParentIfNeeded()` creates nothing: it only ever stores a child container, i.e. an element with a
    reference payload -/
theorem notifyS_created : ∀ fuel, NpPlain (notifyS fuel) := by
  intro fuel
  induction fuel with
  | zero => intro w x cx w' cx' h; simp only [notifyS] at h; cases h
  | succ fuel ih =>
    intro w x cx w' cx' h
    simp only [notifyS] at h
    split at h
    · cases h; rfl
    · cases h
    · split at h
      · cases h; rfl
      · split at h
        · cases h; rfl
        · -- array parent
          split at h
          · cases h; rfl
          · split at h
            · cases h
            · split at h
              · cases h; rfl
              · split at h
                · cases h
                · rename_i old w2 cx2 hset
                  split at h
                  · cases h
                  · cases h
                    exact arrSetRawWith_created ih (show VFit _ (WVal.child _ _) from trivial) hset
        · -- map parent
          split at h
          · cases h
          · split at h
            · cases h; rfl
            · cases h
            · split at h
              · cases h; rfl
              · split at h
                · cases h
                · rename_i old w2 cx2 hset
                  split at h
                  · split at h
                    · cases h
                    · cases h
                      exact mapSetRawWith_created ih (show VFit _ (WVal.child _ _) from trivial) hset
                  · cases h

theorem notifyParent_created {fuel : Nat} {w w' : World} {x : SlabID} {cx cx' : Ctx}
    (h : notifyParent fuel w x cx = .ok (w', cx')) : cx'.created = cx.created := by
  rw [notifyParent_eq_notifyS] at h
  exact notifyS_created fuel _ _ _ _ _ h

theorem arrSetRaw_created {fuel : Nat} {w w' : World} {p : SlabID} {i : Nat} {v : WVal} {cx cx' : Ctx} {old : Elem}
    (hv : VFit (maxInlineArr w.T) v) (h : arrSetRaw fuel w p i v cx = .ok (old, w', cx')) :
    cx'.created = cx.created := by
  rw [arrSetRaw_eq_S] at h
  exact arrSetRawWith_created (notifyS_created fuel) hv h

theorem mapSetRaw_created {fuel : Nat} {w w' : World} {p : SlabID} {k : MKey} {v : WVal} {cx cx' : Ctx}
    {old : Option Elem} (hv : VFit (maxInlineMapValue w.T k.size) v)
    (h : mapSetRaw fuel w p k v cx = .ok (old, w', cx')) : cx'.created = cx.created := by
  rw [mapSetRaw_eq_S] at h
  exact mapSetRawWith_created (notifyS_created fuel) hv h

/-! ### the public operations -/

theorem newArr_created (w : World) (ty : Nat) (cx : Ctx) : (w.newArr ty cx).2.2.created = cx.created := rfl

theorem newMap_created (w : World) (ty seed : Nat) (cx : Ctx) : (w.newMap ty seed cx).2.2.created = cx.created := rfl

theorem arrInsert_created {w w' : World} {p : SlabID} {i : Nat} {v : WVal} {cx cx' : Ctx}
    (hv : VFit (maxInlineArr w.T) v) (h : w.arrInsert p i v cx = .ok (w', cx')) : cx'.created = cx.created := by
  unfold World.arrInsert at h
  split at h
  · split at h
    · cases h
    · simp only [bind, Except.bind] at h
      split at h
      · cases h
      · rename_i r hst
        obtain ⟨e, w1, cx1⟩ := r
        obtain ⟨g1, gT, gE⟩ := storableOf_created hv hst
        simp only at h
        split at h
        · cases h
        · rename_i a' cx2 hins
          split at h
          · cases h
          · rename_i r2 hnp
            obtain ⟨w3, cx3⟩ := r2
            simp only [pure, Except.pure] at h
            cases h
            rw [← gT] at gE
            exact ((notifyParent_created hnp).trans (arr_insert_created_of_fit gE hins)).trans g1
  · cases h

theorem arrSet_created {w w' : World} {p : SlabID} {i : Nat} {v : WVal} {cx cx' : Ctx} {old : Elem}
    (hv : VFit (maxInlineArr w.T) v) (h : w.arrSet p i v cx = .ok (old, w', cx')) : cx'.created = cx.created := by
  unfold World.arrSet at h
  simp only [bind, Except.bind] at h
  split at h
  · cases h
  · rename_i r hset
    obtain ⟨old1, w1, cx1⟩ := r
    simp only at h
    split at h
    · cases h
    · rename_i r2 hun
      obtain ⟨old2, ov, w2, cx2⟩ := r2
      simp only [pure, Except.pure] at h
      cases h
      exact (uninlineIfNeeded_created hun).trans (arrSetRaw_created hv hset)

theorem arrRemove_created {w w' : World} {p : SlabID} {i : Nat} {cx cx' : Ctx} {old : Elem}
    (h : w.arrRemove p i cx = .ok (old, w', cx')) : cx'.created = cx.created := by
  unfold World.arrRemove at h
  split at h
  · split at h
    · cases h
    · rename_i old1 a' cx1 hrem
      simp only [bind, Except.bind] at h
      split at h
      · cases h
      · rename_i r hnp
        obtain ⟨w3, cx3⟩ := r
        simp only at h
        split at h
        · cases h
        · rename_i r2 hun
          obtain ⟨old2, ov, w4, cx4⟩ := r2
          simp only [pure, Except.pure] at h
          cases h
          exact ((uninlineIfNeeded_created hun).trans (notifyParent_created hnp)).trans (arr_remove_created' hrem)
  · cases h

theorem mapSet_created {w w' : World} {p : SlabID} {k : MKey} {v : WVal} {cx cx' : Ctx} {old : Option Elem}
    (hv : VFit (maxInlineMapValue w.T k.size) v) (h : w.mapSet p k v cx = .ok (old, w', cx')) :
    cx'.created = cx.created := by
  unfold World.mapSet at h
  simp only [bind, Except.bind] at h
  split at h
  · cases h
  · rename_i r hset
    obtain ⟨old1, w1, cx1⟩ := r
    simp only at h
    have h1 := mapSetRaw_created hv hset
    split at h
    · simp only [pure, Except.pure] at h
      cases h; exact h1
    · split at h
      · cases h
      · rename_i r2 hun
        obtain ⟨o', ov, w2, cx2⟩ := r2
        simp only [pure, Except.pure] at h
        cases h
        exact (uninlineIfNeeded_created hun).trans h1

theorem mapRemove_created {w w' : World} {p : SlabID} {k rk : MKey} {rv : Elem} {cx cx' : Ctx}
    (h : w.mapRemove p k cx = .ok (rk, rv, w', cx')) : cx'.created = cx.created := by
  unfold World.mapRemove at h
  split at h
  · split at h
    · cases h
    · rename_i rk1 rv1 m' cx1 hrem
      simp only [bind, Except.bind] at h
      split at h
      · cases h
      · rename_i r hnp
        obtain ⟨w3, cx3⟩ := r
        simp only at h
        split at h
        · cases h
        · rename_i r2 hun
          obtain ⟨rv2, ov, w4, cx4⟩ := r2
          simp only [pure, Except.pure] at h
          cases h
          exact ((uninlineIfNeeded_created hun).trans (notifyParent_created hnp)).trans (omap_remove_created' hrem)
  · cases h

theorem setType_created {w w' : World} {x : SlabID} {ty : Nat} {cx cx' : Ctx}
    (h : w.setType x ty cx = .ok (w', cx')) : cx'.created = cx.created := by
  unfold World.setType at h
  split at h
  · simp only at h
    split at h
    · exact (notifyParent_created h).trans (arr_setType_created _ _ _)
    · cases h; exact arr_setType_created _ _ _
  · simp only at h
    split at h
    · exact (notifyParent_created h).trans (omap_setType_created _ _ _)
    · cases h; exact omap_setType_created _ _ _
  · cases h

/-! ### every request -/

/-- A REQUEST CREATES NO LARGE-VALUE SLAB: the plain value it hands over fits the slot (`WValOk`), a child
    container is stored as a reference -/
theorem Req.created_eq {D : SlabID → DigestFn 4} {w w' : World} {cx cx' : Ctx} (r : Req D w cx w' cx') :
    cx'.created = cx.created := by
  cases r with
  | newArr ty => exact newArr_created w ty cx
  | newMap ty seed => exact newMap_created w ty seed cx
  | arrInsert hh hv hr => exact arrInsert_created (VFit.of_wvalOk hv) hr
  | arrSet hh hv hr => exact arrSet_created (VFit.of_wvalOk hv) hr
  | arrRemove hh hr => exact arrRemove_created hr
  | mapSet hh hk hv hr => exact mapSet_created (VFit.of_wvalOk hv) hr
  | mapRemove hh hk hr => exact mapRemove_created hr
  | setType hh hr => exact setType_created hr
  | arrGet hh hr => rfl
  | mapGet hh hk hr => rfl
  | reopen => rfl

/-- the hypothesis `newCreated cx cx' = []` of `HistB.req` always holds -/
theorem Req.newCreated_nil {D : SlabID → DigestFn 4} {w w' : World} {cx cx' : Ctx} (r : Req D w cx w' cx') :
    C09.newCreated cx cx' = [] := by
  simp [C09.newCreated, r.created_eq]

end Atree.WC
