import AtreeProofs.World.StepMisc
import AtreeProofs.World.Frame
/-
  Preparation of the main induction: the frame of a notification (`NFrame`), transfer of
  `HandleOk`, what `childStorable` does to a valid child, the budget of an inlined parent.
-/
namespace Atree
open Gen

namespace World

variable {D : SlabID → DigestFn 4} {rank : SlabID → Nat} {O : SlabID → Prop}

/-! ### current closures and handles -/

theorem closureCurrent_iff (w : World) (x : SlabID) (hi : HInfo) :
    ClosureCurrent w x hi ↔ ∃ j, ClosurePos w x hi j := by
  constructor
  · rintro ⟨lim, e, hca⟩
    obtain ⟨j, _, _, hpos, _⟩ := (closureAt_iff w x hi lim e).mp hca
    exact ⟨j, hpos⟩
  · rintro ⟨j, hpos⟩
    obtain ⟨pc, hpc, hpay, _⟩ := id hpos
    obtain ⟨le, hle, _⟩ := Cont.pay_slot (T := w.T) hpay
    obtain ⟨ko, hk⟩ := Cont.slot_kslot hle
    exact ⟨le.1, le.2, (closureAt_iff w x hi le.1 le.2).mpr ⟨j, pc, ko, hpos, hpc, hk⟩⟩

theorem ClosurePos.holds {w : World} {x : SlabID} {hi : HInfo} {j : Nat} (h : ClosurePos w x hi j) :
    Holds w hi.parent x := by
  obtain ⟨pc, hpc, hpay, _⟩ := h
  exact ⟨pc, hpc, List.mem_of_getElem? hpay⟩

/-- `ClosurePos` only looks at the parent and the key of the closure -/
theorem ClosurePos.congr_hi {w : World} {x : SlabID} {hi hi' : HInfo} {j : Nat} (h : ClosurePos w x hi j)
    (hp : hi'.parent = hi.parent)
    (hk : ∀ pm, w.cont? hi.parent = some (.map pm) → hi'.key = hi.key) : ClosurePos w x hi' j := by
  obtain ⟨pc, hpc, hpay, harr, hmap⟩ := h
  refine ⟨pc, by rw [hp]; exact hpc, hpay, by rw [hp]; exact harr, ?_⟩
  intro ha
  cases pc with
  | arr a => cases ha
  | map m => rw [hk m hpc]; exact hmap ha

/-- what the handles need from a world update -/
def CurKept (w w' : World) : Prop :=
  ∀ x hi, AList.find? w.hinfo x = some hi → ClosureCurrent w x hi →
    ∃ hi', AList.find? w'.hinfo x = some hi' ∧ hi'.parent = hi.parent ∧ ClosureCurrent w' x hi'

theorem CurKept.refl (w : World) : CurKept w w := fun _ hi h1 h2 => ⟨hi, h1, rfl, h2⟩

theorem CurKept.trans {w1 w2 w3 : World} (h12 : CurKept w1 w2) (h23 : CurKept w2 w3) : CurKept w1 w3 := by
  intro x hi h1 h2
  obtain ⟨hi2, a1, a2, a3⟩ := h12 x hi h1 h2
  obtain ⟨hi3, b1, b2, b3⟩ := h23 x hi2 a1 a3
  exact ⟨hi3, b1, b2.trans a2, b3⟩

/-- same signatures, same index lookups, closures kept: current closures stay current -/
theorem CurKept.of_sig {w w' : World} (hS : ContsSig w w')
    (hidx : ∀ q z, AList.find? (w'.idxOf q) z = AList.find? (w.idxOf q) z)
    (hh : ∀ x hi, AList.find? w.hinfo x = some hi → ClosureCurrent w x hi → AList.find? w'.hinfo x = some hi) :
    CurKept w w' := by
  intro x hi h1 h2
  refine ⟨hi, hh x hi h1 h2, rfl, ?_⟩
  rw [closureCurrent_iff] at h2 ⊢
  obtain ⟨j, hj⟩ := h2
  exact ⟨j, hj.transfer hS (hidx _ _)⟩

theorem HandleOk.transfer {w w' : World} (hholds : ∀ p x, Holds w' p x → Holds w p x) (hcur : CurKept w w')
    {z : SlabID} (h : HandleOk w z) : HandleOk w' z := by
  induction h with
  | root x hr => exact HandleOk.root x (fun p hp => hr p (hholds p x hp))
  | child x hi hhi hc _ ih =>
    obtain ⟨hi', h1, h2, h3⟩ := hcur x hi hhi hc
    exact HandleOk.child x hi' h1 h3 (by rw [h2]; exact ih)

/-- a handle that is held has a current closure, and the parent's handle is current -/
theorem HandleOk.of_held {w : World} {x p : SlabID} (h : HandleOk w x) (hp : Holds w p x) :
    ∃ hi, AList.find? w.hinfo x = some hi ∧ ClosureCurrent w x hi ∧ HandleOk w hi.parent := by
  cases h with
  | root _ hr => exact absurd hp (hr p)
  | child _ hi h1 h2 h3 => exact ⟨hi, h1, h2, h3⟩

/-! ### the frame of a notification -/

structure NFrame (rank : SlabID → Nat) (w w' : World) (y : SlabID) : Prop where
  T : w'.T = w.T
  addr : w'.addr = w.addr
  sig : ContsSig w w'
  above : ∀ z, z ≠ y → rank y ≤ rank z → w'.cont? z = w.cont? z
  self : OSame (w.cont? y) (w'.cont? y)
  hinfo : ∀ z, z ≠ y → rank y ≤ rank z → AList.find? w'.hinfo z = AList.find? w.hinfo z
  idx : ∀ q z, AList.find? (w'.idxOf q) z = AList.find? (w.idxOf q) z
  cur : CurKept w w'

theorem NFrame.refl (rank : SlabID → Nat) (w : World) (y : SlabID) : NFrame rank w w y :=
  ⟨rfl, rfl, ContsSig.refl w, fun _ _ _ => rfl, OSame.refl _, fun _ _ _ => rfl, fun _ _ => rfl, CurKept.refl w⟩

/-! ### slots: limits, budget of an inlined container -/

theorem slot_lim_le {T : Nat} {c : Cont} {le : Nat × Elem} (h : le ∈ c.slots T) : le.1 ≤ maxInlineArr T := by
  cases c with
  | arr a =>
    simp only [Cont.slots, List.mem_map] at h
    obtain ⟨e, _, rfl⟩ := h
    exact Nat.le_refl _
  | map m =>
    simp only [Cont.slots, List.mem_map] at h
    obtain ⟨p, _, rfl⟩ := h
    exact maxInlineMapValue_le_arr T _

theorem holds_slot {w : World} {p x : SlabID} (h : Holds w p x) :
    ∃ pc le, w.cont? p = some pc ∧ le ∈ pc.slots w.T ∧ le.2.pay = .ref x := by
  obtain ⟨pc, hpc, hm⟩ := h
  obtain ⟨j, hj⟩ := List.mem_iff_getElem?.mp hm
  obtain ⟨le, hle, hpay⟩ := Cont.pay_slot (T := w.T) hj
  exact ⟨pc, le, hpc, List.mem_of_getElem? hle, hpay⟩

/-- an inlined container that is in sync fits the per-element limit -/
theorem WorldOkGen.inl_budget {w : World} {ctr : Nat} {stale : Option SlabID}
    (H : WorldOkGen D rank stale O w ctr) {p : SlabID} {pc : Cont} (hp : w.cont? p = some pc)
    (hi : pc.isInlined = true) (hns : some p ≠ stale) (hO : ¬ O p) : pc.rootSize ≤ maxInlineArr w.T := by
  obtain ⟨q, hq⟩ := H.inlRef p pc hp hi hO
  obtain ⟨qc, le, hqc, hle, hpay⟩ := holds_slot hq
  obtain ⟨wr, _, h2, _, _⟩ := H.slots q qc hqc le hle p pc hpay hp
  obtain ⟨_, h2b⟩ := h2 hns
  rw [hi, (H.conts p pc hp).inlinable_inl hi] at h2b
  have := of_decide_eq_true h2b.symm
  have := slot_lim_le hle
  omega

/-- room for one more element in an inlined array that is in sync -/
theorem WorldOkGen.arr_room {w : World} {ctr : Nat} {stale : Option SlabID}
    (H : WorldOkGen D rank stale O w ctr) {p : SlabID} {a : Arr} (hp : w.cont? p = some (.arr a))
    (hns : some p ≠ stale) (hO : ¬ O p) :
    a.isInlined = true → a.rootHdr.size + maxInlineArr w.T ≤ maxThr w.T := by
  intro hi
  have hb : a.rootHdr.size ≤ maxInlineArr w.T := H.inl_budget hp hi hns hO
  have := two_inline_le w.T H.legal
  omega

theorem WorldOkGen.map_room {w : World} {ctr : Nat} {stale : Option SlabID}
    (H : WorldOkGen D rank stale O w ctr) {p : SlabID} {m : OMap 3} (hp : w.cont? p = some (.map m))
    (hns : some p ≠ stale) (hO : ¬ O p) :
    m.isInlined = true → m.rootHdr.size + maxEntry w.T ≤ maxThr w.T := by
  intro hi
  have hb : m.rootHdr.size ≤ maxInlineArr w.T := H.inl_budget hp hi hns hO
  have := inline_plus_entry_le w.T H.legal
  have := two_inline_le w.T H.legal
  omega

/-! ### `childStorable` on a valid child -/

/-- the child after `childStorable`: valid in its new form, inline exactly when it fits, and the
    element handed to the parent is within the per-element limit -/
theorem childStorable_valid {w : World} {ctr : Nat} {stale : Option SlabID}
    (H : WorldOkGen D rank stale O w ctr) {y : SlabID} {c : Cont} (hy : w.cont? y = some c)
    {wrap lim : Nat} (hwb : slabIDStorableSize + 2 * wrap ≤ lim) (_hlim : lim ≤ maxInlineArr w.T)
    {cx : Ctx} {e : Elem} {w1 : World} {cx1 : Ctx}
    (hst : w.childStorable y wrap lim cx = .ok (e, w1, cx1)) :
    ∃ c1, Cont.SameData c c1 ∧ ContOk w.T (D y) ctr c1 ∧
      c1.isInlined = c1.inlinable (lim - 2 * wrap) ∧ c1.isInlined = c.inlinable (lim - 2 * wrap) ∧
      (c1.isInlined = true → c1.rootSize ≤ lim - 2 * wrap) ∧
      e = ⟨slotSize c1 wrap, .ref y⟩ ∧ 1 ≤ e.size ∧ e.size ≤ lim ∧
      w1.cont? y = some c1 ∧ (∀ z, z ≠ y → w1.cont? z = w.cont? z) ∧
      w1.T = w.T ∧ w1.addr = w.addr ∧ w1.hinfo = w.hinfo ∧ w1.mutIdx = w.mutIdx ∧ cx1.ctr = cx.ctr := by
  have hok : ContOk w.T (D y) ctr c := H.conts y c hy
  unfold childStorable at hst
  simp only [hy] at hst
  have fin : ∀ c1, Cont.SameData c c1 → ContOk w.T (D y) ctr c1 → c1.isInlined = c.inlinable (lim - 2 * wrap) →
      c1.inlinable (lim - 2 * wrap) = c.inlinable (lim - 2 * wrap) →
      (c1.isInlined = true → c1.rootSize ≤ lim - 2 * wrap) →
      w1.cont? y = some c1 → (∀ z, z ≠ y → w1.cont? z = w.cont? z) →
      w1.T = w.T → w1.addr = w.addr → w1.hinfo = w.hinfo → w1.mutIdx = w.mutIdx → cx1.ctr = cx.ctr →
      e = ⟨slotSize c1 wrap, .ref y⟩ →
      ∃ c1, Cont.SameData c c1 ∧ ContOk w.T (D y) ctr c1 ∧
        c1.isInlined = c1.inlinable (lim - 2 * wrap) ∧ c1.isInlined = c.inlinable (lim - 2 * wrap) ∧
        (c1.isInlined = true → c1.rootSize ≤ lim - 2 * wrap) ∧
        e = ⟨slotSize c1 wrap, .ref y⟩ ∧ 1 ≤ e.size ∧ e.size ≤ lim ∧
        w1.cont? y = some c1 ∧ (∀ z, z ≠ y → w1.cont? z = w.cont? z) ∧
        w1.T = w.T ∧ w1.addr = w.addr ∧ w1.hinfo = w.hinfo ∧ w1.mutIdx = w.mutIdx ∧ cx1.ctr = cx.ctr := by
    intro c1 h1 h2 h3 h4 h5 h6 h7 h8 h9 h10 h11 h12 h13
    refine ⟨c1, h1, h2, by rw [h3, h4], h3, h5, h13, ?_, ?_, h6, h7, h8, h9, h10, h11, h12⟩
    · rw [h13]
      show 1 ≤ slotSize c1 wrap
      simp only [slotSize, slabIDStorableSize, SlabIDLength]
      split
      · rename_i hi
        have := Cont.rootSize_pos_of_inl h2 hi
        omega
      · omega
    · rw [h13]
      show slotSize c1 wrap ≤ lim
      cases hi : c1.isInlined
      · rw [slotSize_standalone hi]; exact hwb
      · rw [slotSize_inl hi]
        have := h5 hi
        simp only [slabIDStorableSize, SlabIDLength] at hwb
        omega
  split at hst
  · rename_i h1
    simp only [Bool.and_eq_true] at h1
    cases hst
    refine fin c (Cont.SameData.refl c) hok (by rw [h1.1, h1.2]) rfl ?_ hy (fun _ _ => rfl) rfl rfl rfl rfl rfl
      (by simp [slotSize, h1.2])
    intro hi
    have := hok.inlinable_inl hi (lim - 2 * wrap)
    rw [h1.1] at this
    exact of_decide_eq_true this.symm
  · split at hst
    · rename_i h1 h2
      simp only [Bool.and_eq_true, Bool.not_eq_true'] at h2
      cases hst
      refine fin c (Cont.SameData.refl c) hok (by rw [h2.1, h2.2]) rfl ?_ hy (fun _ _ => rfl) rfl rfl rfl rfl rfl
        (by simp [slotSize, h2.2])
      intro hi; rw [h2.2] at hi; cases hi
    · split at hst
      · rename_i h1 h2 h3
        simp only [Bool.and_eq_true, Bool.not_eq_true'] at h3
        split at hst
        · cases hst
        · rename_i c' cx2 hin
          cases hst
          obtain ⟨i1, i2, i3, i4⟩ := Cont.inline_ok hin
          obtain ⟨j1, j2⟩ := Cont.inline_inlinable hin (lim - 2 * wrap)
          refine fin c' i3 (contOk_inline hok hin) (by rw [i2, h3.1]) j1 (fun _ => j2 h3.1)
            (by simp) (fun z hz => cont?_setCont_ne _ _ _ _ hz) rfl rfl rfl rfl (by rw [i4]; rfl)
            (by simp [slotSize, i2])
      · rename_i h1 h2 h3
        split at hst
        · cases hst
        · rename_i c' cx2 hun
          cases hst
          obtain ⟨i1, i2, i3, i4⟩ := Cont.uninline_ok hun
          have hable : c.inlinable (lim - 2 * wrap) = false := by
            cases hb : c.inlinable (lim - 2 * wrap) with
            | false => rfl
            | true => simp [hb, i1] at h1
          refine fin c' i3 (contOk_uninline H.legal hok (H.band y c hy i1) hun) (by rw [i2, hable])
            (Cont.uninline_inlinable hok hun _) (fun hi => by rw [i2] at hi; cases hi)
            (by simp) (fun z hz => cont?_setCont_ne _ _ _ _ hz) rfl rfl rfl rfl (by rw [i4]; rfl)
            (by simp [slotSize, i2])

end World
end Atree
