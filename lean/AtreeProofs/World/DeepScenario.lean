import AtreeProofs.Props.C10Deep
import AtreeProofs.World.PersistScenario
/-
  NON-VACUITY of `Props/C10Deep.lean`: the depth-3 world `t7` of `World/OkScenario.lean`
  (T = 256; root array `R` ∋ map `M` INLINED in `R` ∋ array `A`, wrapped once, INLINED in `M`, holding
  the value 1), reached by the history `PersistScenario.hist7`.  `Array.Set(0, 9)` through the handle
  of `A` overwrites the value by one of the SAME SIZE:
  * the shallow content of the only heap slab `R` does not change (`shallow_same`): its single
    element is `{80, ref M}` before and after — the case the shallow accounts of C09W do not see;
  * its deep content does (`deep_differs`): the storable of that element embeds `M`, which embeds `A`;
  * `C10Deep.arrSet_deepStored` applies (`scenario_deepStored`) and yields that `R` was stored
    (`scenario_stored`), which is what the run of the model shows (`scenario_log`).
-/
namespace Atree.DeepScenario
open Atree Gen World Codec
open Atree.OkScenario Atree.HeapScenario Atree.PersistScenario
open Atree.Scenario (okW eq_okW okE eq_okE w0 cx0)
open Atree.C09 (newEffects)

/-- `Array.Set(0, 9)` through the handle of `A` (depth 3, everything inlined in `R`) -/
def tS : Elem × World × Ctx := okE (t7.1.arrSetS A 0 (pl 9) t7.2)

theorem runS : t7.1.arrSet A 0 (pl 9) t7.2 = .ok tS := by
  rw [arrSet_eq_S]; exact eq_okE _ (by decide)

theorem hvS : WValOk t7.1 A (maxInlineArr t7.1.T) (pl 9) := ⟨⟨by decide, 9, rfl⟩, by decide⟩

/-- THE THEOREM APPLIES -/
theorem scenario_deepStored : WC.DeepStoredC t7.1 tS.2.1 (newEffects t7.2 tS.2.2) :=
  C10Deep.arrSet_deepStored D hist7 ok7.2 hvS runS

/-! ### the slab `R`: same shallow content, different deep content -/

/-- equality of two array DATA slabs of the heap, as a Boolean (no global `DecidableEq` instance is
    introduced) -/
def wsEq : Option WSlab → Option WSlab → Bool
  | some (.arr (.data a) t), some (.arr (.data b) u) =>
    decide (a.hdr = b.hdr) && decide (a.next = b.next) && decide (a.elems = b.elems) &&
      decide (a.root = b.root) && decide (a.inlined = b.inlined) && decide (t = u)
  | _, _ => false

theorem wsEq_sound {x y : Option WSlab} (h : wsEq x y = true) : x = y := by
  unfold wsEq at h
  split at h
  · rename_i a t b u
    simp only [Bool.and_eq_true, decide_eq_true_eq] at h
    obtain ⟨⟨⟨⟨⟨h1, h2⟩, h3⟩, h4⟩, h5⟩, h6⟩ := h
    obtain ⟨ah, an, ae, ar, ai⟩ := a
    obtain ⟨bh, bn, be, br, bi⟩ := b
    simp only at h1 h2 h3 h4 h5
    subst h1; subst h2; subst h3; subst h4; subst h5; subst h6
    rfl
  · cases h

/-- the element of `R` that refers to the inlined map `M` -/
def eM : Elem := { size := 80, pay := .ref M }

theorem shallow_same : tS.2.1.slabAt R = t7.1.slabAt R := wsEq_sound (by decide +kernel)

theorem elems_R : (t7.1.slabAt R).map C10Persist.slabElems = some [eM] := by decide +kernel

mutual
/-- the plain values embedded in a storable, to depth `n` -/
def leaves : Nat → Stor → List Nat
  | 0, _ => []
  | _ + 1, .val _ p => [p]
  | _ + 1, .ref _ => []
  | n + 1, .some s => leaves n s
  | n + 1, .arr _ _ es => es.flatMap (leaves n)
  | n + 1, .map _ _ els => leavesM n els
def leavesS : Nat → SEl → List Nat
  | 0, _ => []
  | n + 1, .mk k v => leaves n k ++ leaves n v
def leavesE : Nat → MEl → List Nat
  | 0, _ => []
  | n + 1, .single e => leavesS n e
  | n + 1, .inl els => leavesM n els
  | _ + 1, .ext _ => []
def leavesM : Nat → MEls → List Nat
  | 0, _ => []
  | n + 1, .hkey _ _ es => es.flatMap (leavesE n)
  | n + 1, .single _ es => es.flatMap (leavesS n)
end

/-- the storable of `eM` embeds the key 1 of `M` and the value held by `A`: 1 before, 9 after -/
theorem leaves_before : leaves 20 (t7.1.stor eM) = [1, 1] := by decide +kernel
theorem leaves_after : leaves 20 (tS.2.1.stor eM) = [1, 9] := by decide +kernel

theorem deep_differs : tS.2.1.stor eM ≠ t7.1.stor eM := by
  intro h
  have := congrArg (leaves 20) h
  rw [leaves_before, leaves_after] at this
  cases this

/-- hence: the slab `R` — in the heap before and after with the same shallow content — was stored -/
theorem scenario_stored : lastAction (newEffects t7.2 tS.2.2) R = some true := by
  have h1 := elems_R
  cases hs : t7.1.slabAt R with
  | none => rw [hs] at h1; cases h1
  | some s =>
    rw [hs] at h1
    simp only [Option.map_some, Option.some.injEq] at h1
    refine scenario_deepStored R s (by rw [shallow_same]; exact hs) hs ?_
    intro hsame
    exact deep_differs (hsame eM (by rw [h1]; exact List.mem_singleton.2 rfl))

/-- … which is what the run of the model shows: the log of the operation is `[store R]` -/
theorem scenario_log : newEffects t7.2 tS.2.2 = [.store R] := by decide +kernel

/-- the log of the operation is a complete account of the DEEP content (`C10Deep.deepC_complete`
    applies: shallow account `C09W.arrSet_effects_complete`, deep account `scenario_deepStored`) -/
theorem scenario_complete :
    C10Persist.Complete (C10Deep.deepC t7.1) (C10Deep.deepC tS.2.1) (newEffects t7.2 tS.2.2) := by
  have hc := (C09W.arrSet_effects_complete D _ _ _ _ _ _ _ _ (C10W.worldOk'_of_worldOk ok7.1) step7.2 hvS runS).2.1
  have hcr : C09.newCreated t7.2 tS.2.2 = [] := by decide +kernel
  exact C10Deep.deepC_complete
    (Eq.subst (motive := fun l => WEffectsComplete t7.1 tS.2.1 (newEffects t7.2 tS.2.2) l) hcr hc) scenario_deepStored

end Atree.DeepScenario
