import AtreeProofs.World.HeapMapR
import AtreeProofs.Props.C10Persist
import AtreeProofs.Map.ExportTree
import AtreeProofs.Map.Example
/-
  "SET STORES THE HOLDER SLAB" for maps.

  A successful `OMap.set cfg k v` on a standalone map stores the slab of the NEW tree that locally
  holds the written value `v` — the data slab, or the external collision-group slab when the key
  lives inside an external group — also when `v` equals the value it overwrites
  (`omap_set_stores_holder`).  The C09 accounts (`omap_set_acctR`) only speak about slabs whose
  content changed; this is the lemma about the map core that `Props/C10Persist.lean`
  (`DeepStored`) is missing.

  Proof: along the run (`HkeyElems.set` at the first level, `MDataSlab.set`, `afterChild` at every
  index slab: split / merge / rebalance / plain store, `promoteIfSingleChild`, `splitRootIfFull`)
  the fact "some slab of the current tree locally holds `v`, and a `.store` of its ID was logged
  since the start" (`MapHolder.HoldS`) is maintained: the data slab is stored by
  `storeIfNotInlined`, a group slab by `groupSlabUpdate` / by its export, and every repair step
  stores all the data slabs it rewrites while group slabs move with their `.ext` element.  At the
  end the ID is a key of the new tree, so by the C09 account (`MAcct.removed`) its last action is
  not a removal; having been stored, its last action is a store.  No distinctness argument about
  the later effects is needed.

  Second part: every value of `MTree.toList` lives in exactly one slab (`mslab_vals_perm`,
  `mslab_vals_sub`, `mslab_positions`).

  Everything is proved for any number `r + 1` of digest levels; `r = 3` is the World model.
  Helper definitions and lemmas are in the namespace `Atree.MapHolder`.
-/
namespace Atree
open Gen
open C10Persist (localVals)

/-- the values stored locally in a map slab (not those inside external groups referenced from it);
    at `r = 3` this is `C10Persist.slabElems` on map slabs (`slabElems_map`) -/
def mslabVals {r : Nat} : MSlabView r → List Elem
  | .data s => localVals (r + 1) s.elems
  | .index .. => []
  | .group g => localVals r g.elems

/- helper definitions and lemmas live in `Atree.MapHolder` -/
namespace MapHolder

/-! ### the values stored locally in a list of elements -/

section vals
variable {α : Type}
/-- the values an element contributes to the slab it sits in (`vals`: the values of a nested
    `elements`); an external group contributes nothing, its values are in its own slab -/
def elVals (vals : α → List Elem) : MElemF α → List Elem
  | .single x => [x.val]
  | .inl g => vals g
  | .ext _ _ _ => []
end vals

/-- below the first level, `set` of a value that fits the inline limit (so that `toStorableLim`
    leaves it alone) puts the value into the `elements` and does not touch the context; generic
    over `ElemsOps` and inherited by `HkeyElems.ops` -/
structure OpsVal (cfg : MCfg) (v : Elem) {α : Type} (o : ElemsOps α) (P : α → Prop) (vals : α → List Elem) : Prop where
  set : ∀ {e : α} {ℓ : Nat} {k : MKey} {c : Ctx} {ks : MKey} {old : Option Elem} {e' : α} {c' : Ctx},
    P e → 1 ≤ ℓ → v.size ≤ maxInlineMapValue cfg.T k.size →
    o.set cfg e ℓ k v c = .ok (ks, old, e', c') → v ∈ vals e' ∧ c' = c
  newWith : ∀ {ℓ : Nat} {x : SElem} {g : α}, o.newWith cfg ℓ x = .ok g → P g

theorem same_size {a b : MKey} (h : a.same b = true) : a.size = b.size := by
  simp only [MKey.same, Bool.and_eq_true, beq_iff_eq] at h
  exact h.1

theorem SingleElems.opsVal (cfg : MCfg) (v : Elem) :
    OpsVal cfg v SingleElems.ops (fun _ => True) (fun e => e.elems.map (·.val)) where
  set := by
    intro e ℓ k c ks old e' c' _ _ hfit h
    have h : SingleElems.set cfg e ℓ k v c = .ok (ks, old, e', c') := h
    unfold SingleElems.set at h
    split at h
    · cases h
    · split at h
      · rename_i i hfi
        split at h
        · cases h
        · rename_i x hx
          obtain ⟨hlt, hp, _⟩ := List.findIdx?_eq_some_iff_getElem.1 hfi
          have hxe : e.elems[i] = x := by
            rw [List.getElem?_eq_getElem hlt] at hx; exact Option.some.inj hx
          rw [hxe] at hp
          have hsz := same_size hp
          rw [toStorableLim_of_le _ _ _ _ (by rw [hsz]; exact hfit)] at h
          simp only [Except.ok.injEq, Prod.mk.injEq] at h
          obtain ⟨_, _, rfl, rfl⟩ := h
          refine ⟨?_, rfl⟩
          simp only
          exact List.mem_map.2 ⟨_, List.mem_set hlt _, rfl⟩
      · simp only [newSingleElement] at h
        rw [toStorableLim_of_le _ _ _ _ hfit] at h
        simp only [Except.ok.injEq, Prod.mk.injEq] at h
        obtain ⟨_, _, rfl, rfl⟩ := h
        refine ⟨?_, rfl⟩
        simp
  newWith := by intros; trivial


section paths
variable {α : Type} {o : ElemsOps α} {cfg : MCfg}

/-- `inlSet_inv` with the content of the exported slab -/
theorem inlSet_inv' {g : α} {ℓ : Nat} {k : MKey} {v : Elem} {c : Ctx} {el' : MElemF α} {ks : MKey}
    {old : Option Elem} {c' : Ctx} (h : MElemF.inlSet o cfg g ℓ k v c = .ok (el', ks, old, c')) :
    ∃ g' c1, o.set cfg g (ℓ + 1) k v c = .ok (ks, old, g', c1) ∧
      ((el' = .inl g' ∧ c' = c1) ∨
       (ℓ = 0 ∧ ∃ sz slab, el' = .ext (c1.alloc cfg.addr).1 sz slab ∧ slab.elems = g' ∧
          c' = (c1.alloc cfg.addr).2.emit (.store (c1.alloc cfg.addr).1))) := by
  unfold MElemF.inlSet at h
  by_cases hl : ℓ + 1 > cfg.L
  · simp [hl, bind, Except.bind, throw, throwThe, MonadExceptOf.throw] at h
  · simp only [hl, if_false, bind, Except.bind, pure, Except.pure] at h
    cases hs : o.set cfg g (ℓ + 1) k v c with
    | error e => simp [hs] at h
    | ok p =>
      obtain ⟨ks', old', g', c1⟩ := p
      simp only [hs] at h
      split at h
      · rename_i hc
        simp only [Except.ok.injEq, Prod.mk.injEq] at h
        obtain ⟨rfl, rfl, rfl, rfl⟩ := h
        simp only [Bool.and_eq_true, beq_iff_eq, decide_eq_true_eq] at hc
        exact ⟨g', c1, rfl, Or.inr ⟨by omega, _, _, rfl, rfl, rfl⟩⟩
      · simp only [Except.ok.injEq, Prod.mk.injEq] at h
        obtain ⟨rfl, rfl, rfl, rfl⟩ := h
        exact ⟨g', c1, rfl, Or.inl ⟨rfl, rfl⟩⟩

/-- `hkey_set_inv` with the bound on the insertion index -/
theorem hkey_set_inv' {e : HkeyElems α} {ℓ : Nat} {k : MKey} {v : Elem} {c : Ctx}
    {res : MKey × Option Elem × HkeyElems α × Ctx}
    (h : HkeyElems.set o cfg e ℓ k v c = .ok res) :
    (∃ idx hk, idx ≤ e.hkeys.length ∧ res = HkeyElems.insertNew cfg e idx hk k v c) ∨
    (∃ i el el' ks old c', e.elems[i]? = some el ∧ el.set o cfg ℓ k v c = .ok (el', ks, old, c') ∧
      res.2.2.1.elems = e.elems.set i el' ∧ res.2.2.2 = c') := by
  unfold HkeyElems.set at h
  split at h
  · cases h
  · extract_lets hkey at h
    split at h
    · cases h; exact Or.inl ⟨_, _, Nat.zero_le _, rfl⟩
    · cases h; exact Or.inl ⟨_, _, Nat.zero_le _, rfl⟩
    · split at h
      · cases h; exact Or.inl ⟨_, _, Nat.zero_le _, rfl⟩
      · split at h
        · cases h; exact Or.inl ⟨_, _, Nat.le_refl _, rfl⟩
        · split at h
          · rename_i lt hf
            cases h
            refine Or.inl ⟨_, _, ?_, rfl⟩
            have := HkeyElems.findEqLt_snd_le e.hkeys hkey e.hkeys.length (e.hkeys.length + 1) 0 e.hkeys.length 0
              (Nat.le_refl _) (Nat.zero_le _)
            rw [hf] at this
            exact this
          · split at h
            · cases h
            · rename_i i _ _ _ el hel
              have h' : HkeyElems.setAt o cfg e ℓ k v c i el = .ok res := h
              obtain ⟨el', ks, old, c', h1, h2, h3⟩ := setAt_inv h'
              exact Or.inr ⟨i, el, el', ks, old, c', hel, h1, h2, h3⟩


/-- what `element.Set` of a fitting value does: the value ends up in the element and the context is
    untouched, or the element is (now) an external group whose slab holds the value and was stored
    last (only at the first level, or when it was external before) -/
theorem elem_set_val {P : α → Prop} {vals : α → List Elem} {v : Elem} (hO : OpsVal cfg v o P vals)
    {el : MElemF α} {ℓ : Nat} {k : MKey} {c : Ctx} {el' : MElemF α} {ks : MKey} {old : Option Elem} {c' : Ctx}
    (hfit : v.size ≤ maxInlineMapValue cfg.T k.size) (hF : FirstOk P el)
    (h : el.set o cfg ℓ k v c = .ok (el', ks, old, c')) :
    (v ∈ elVals vals el' ∧ c' = c) ∨
    ((ℓ = 0 ∨ ¬ ElP P el) ∧ ∃ id sz s, el' = .ext id sz s ∧ v ∈ vals s.elems ∧
      ∃ E, c'.eff = c.eff ++ E ++ [.store id]) := by
  have inl : ∀ g, P g → MElemF.inlSet o cfg g ℓ k v c = .ok (el', ks, old, c') →
      (v ∈ elVals vals el' ∧ c' = c) ∨
      ((ℓ = 0 ∨ ¬ ElP P el) ∧ ∃ id sz s, el' = .ext id sz s ∧ v ∈ vals s.elems ∧
        ∃ E, c'.eff = c.eff ++ E ++ [.store id]) := by
    intro g hg hin
    obtain ⟨g', c1, hset, hcase⟩ := inlSet_inv' hin
    obtain ⟨hv, rfl⟩ := hO.set hg (by omega) hfit hset
    rcases hcase with ⟨rfl, rfl⟩ | ⟨h0, sz, slab, rfl, rfl, rfl⟩
    · exact Or.inl ⟨hv, rfl⟩
    · refine Or.inr ⟨Or.inl h0, _, _, _, rfl, hv, [.alloc cfg.addr ⟨cfg.addr, c1.ctr + 1⟩], ?_⟩
      simp [Ctx.alloc, Ctx.emit]
  cases el with
  | single x =>
    simp only [MElemF.set] at h
    split at h
    · rename_i hsame
      rw [toStorableLim_of_le _ _ _ _ (by rw [same_size hsame]; exact hfit)] at h
      simp only [Except.ok.injEq, Prod.mk.injEq] at h
      obtain ⟨rfl, _, _, rfl⟩ := h
      exact Or.inl ⟨by simp [elVals], rfl⟩
    · obtain ⟨g, hg, h⟩ := mbind_eq_ok h
      exact inl g (hO.newWith hg) h
  | inl g =>
    simp only [MElemF.set] at h
    exact inl g hF h
  | ext id sz s =>
    rcases elem_set_inv h with ⟨x, _, hx, _⟩ | ⟨g, hg, _⟩ | ⟨id', sz', s', elems', c1, he, hset, rfl, rfl⟩
    · cases hx
    · rcases hg with ⟨x, hx, _⟩ | hx <;> cases hx
    · cases he
      obtain ⟨hv, rfl⟩ := hO.set hF.2 (by omega) hfit hset
      refine Or.inr ⟨Or.inr (by simp [ElP]), _, _, _, rfl, hv, [], ?_⟩
      rw [hF.1]
      simp [Ctx.emit]

theorem firstOk_of_elP {P : α → Prop} {el : MElemF α} (h : ElP P el) : FirstOk P el := by
  cases el with
  | single x => trivial
  | inl g => exact h
  | ext _ _ _ => exact absurd h (by simp [ElP])

/-- a digest table with one digest per element and no external group -/
def HG (P : α → Prop) (he : HkeyElems α) : Prop := he.hkeys.length = he.elems.length ∧ ∀ el ∈ he.elems, ElP P el

theorem HkeyElems.opsVal {P : α → Prop} {vals : α → List Elem} {v : Elem} (hO : OpsVal cfg v o P vals) :
    OpsVal cfg v (HkeyElems.ops o) (HG P) (fun he => he.elems.flatMap (elVals vals)) where
  set := by
    intro e ℓ k c ks old e' c' hP hℓ hfit h
    have h : HkeyElems.set o cfg e ℓ k v c = .ok (ks, old, e', c') := h
    rcases hkey_set_inv' h with ⟨idx, hk, hidx, hres⟩ | ⟨i, el, el', ks', old', c'', hel, hs, helems, hc⟩
    · simp only [HkeyElems.insertNew, newSingleElement, toStorableLim_of_le _ _ _ _ hfit, Prod.mk.injEq] at hres
      obtain ⟨_, _, rfl, rfl⟩ := hres
      refine ⟨?_, rfl⟩
      simp only [List.mem_flatMap]
      refine ⟨_, (List.mem_insertIdx (by rw [← hP.1]; exact hidx)).2 (Or.inl rfl), ?_⟩
      simp [elVals]
    · simp only at helems hc
      subst hc
      have hPel := hP.2 el (List.mem_of_getElem? hel)
      rcases elem_set_val hO hfit (firstOk_of_elP hPel) hs with ⟨hv, rfl⟩ | ⟨h0 | h0, _⟩
      · refine ⟨?_, rfl⟩
        rw [helems]
        simp only [List.mem_flatMap]
        exact ⟨el', List.mem_set (List.getElem?_eq_some_iff.1 hel).1 _, hv⟩
      · omega
      · exact absurd hPel h0
  newWith := by
    intro ℓ x g h
    simp only [HkeyElems.ops] at h
    split at h
    · cases h
    · cases h
      refine ⟨rfl, ?_⟩
      intro el hel
      simp only [List.mem_singleton] at hel
      subst hel
      trivial

end paths

/-- one digest per element at every level, no external group anywhere -/
def GoodElems : (r : Nat) → MElems r → Prop
  | 0, _ => True
  | r + 1, (he : HkeyElems (MElems r)) => HG (GoodElems r) he

theorem localVals_succ (r : Nat) (he : HkeyElems (MElems r)) :
    localVals (r + 1) he = he.elems.flatMap (elVals (localVals r)) := by
  show List.flatMap _ he.elems = _
  congr 1
  funext el
  cases el <;> rfl

theorem MElems.opsVal (cfg : MCfg) (v : Elem) : ∀ r, OpsVal cfg v (MElems.ops r) (GoodElems r) (localVals r)
  | 0 => SingleElems.opsVal cfg v
  | r + 1 => by
    have h := HkeyElems.opsVal (MElems.opsVal cfg v r)
    have e : (fun he : HkeyElems (MElems r) => he.elems.flatMap (elVals (localVals r))) = localVals (r + 1) :=
      funext fun he => (localVals_succ r he).symm
    rw [e] at h
    exact h

theorem good_of_inv {T L : Nat} {D : DigestFn L} : ∀ (r ℓ : Nat) (path : List Nat) (e : MElems r),
    ElemsInv T L D r ℓ path e → 1 ≤ ℓ → GoodElems r e
  | 0, _, _, _, _, _ => trivial
  | r + 1, ℓ, path, he, h, hℓ => by
    have h' := (elemsInv_succ_iff T L D r ℓ path he).mp h
    obtain ⟨_, _, hlen, _, _, hel⟩ := h'
    refine ⟨hlen, ?_⟩
    intro el hmem
    obtain ⟨i, hi, hget⟩ := List.mem_iff_getElem.mp hmem
    have hi' : i < he.hkeys.length := by rw [hlen]; exact hi
    have hk : he.hkeys[i]? = some he.hkeys[i] := List.getElem?_eq_getElem hi'
    have he' : he.elems[i]? = some el := by rw [List.getElem?_eq_getElem hi, hget]
    have := hel i _ el hk he'
    cases el with
    | single x => trivial
    | inl g => exact good_of_inv r (ℓ + 1) _ g this.1 (by omega)
    | ext id sz s => exact absurd this.1 (by omega)

theorem firstGood_of_inv {T L r : Nat} {DL : DigestFn L} {he : HkeyElems (MElems r)}
    (h : ElemsInv T L DL (r + 1) 0 [] he) :
    he.hkeys.length = he.elems.length ∧ ∀ el ∈ he.elems, FirstOk (GoodElems r) el := by
  have h' := (elemsInv_succ_iff T L DL r 0 [] he).mp h
  obtain ⟨_, _, hlen, _, _, hel⟩ := h'
  refine ⟨hlen, ?_⟩
  intro el hmem
  obtain ⟨i, hi, hget⟩ := List.mem_iff_getElem.mp hmem
  have hi' : i < he.hkeys.length := by rw [hlen]; exact hi
  have hk : he.hkeys[i]? = some he.hkeys[i] := List.getElem?_eq_getElem hi'
  have he' : he.elems[i]? = some el := by rw [List.getElem?_eq_getElem hi, hget]
  have := hel i _ el hk he'
  cases el with
  | single x => trivial
  | inl g => exact good_of_inv r 1 _ g this.1 (Nat.le_refl 1)
  | ext id sz s => exact ⟨this.2.2.1, good_of_inv r 1 _ s.elems this.2.2.2.2.2.1 (Nat.le_refl 1)⟩


/-! ### stored since -/

/-- the log was extended -/
def Ext (c c' : Ctx) : Prop := ∃ E, c'.eff = c.eff ++ E

/-- the log was extended, and the extension contains a store of `id` -/
def StoredSince (c c' : Ctx) (id : SlabID) : Prop := ∃ E, c'.eff = c.eff ++ E ∧ Eff.store id ∈ E

theorem Ext.refl (c : Ctx) : Ext c c := ⟨[], by simp⟩
theorem Ext.trans {c c1 c2 : Ctx} (h1 : Ext c c1) (h2 : Ext c1 c2) : Ext c c2 := by
  obtain ⟨E1, e1⟩ := h1
  obtain ⟨E2, e2⟩ := h2
  exact ⟨E1 ++ E2, by rw [e2, e1, List.append_assoc]⟩
theorem Ext.emit (c : Ctx) (e : Eff) : Ext c (c.emit e) := ⟨[e], rfl⟩
theorem Ext.alloc (c : Ctx) (a : Nat) : Ext c (c.alloc a).2 := ⟨[.alloc a ⟨a, c.ctr + 1⟩], rfl⟩
theorem Ext.of_alog {a : Nat} {c c' : Ctx} (h : ALog a c c') : Ext c c' := by
  obtain ⟨_, E, e, _⟩ := h
  exact ⟨E, e⟩

theorem StoredSince.ext {c c' : Ctx} {id : SlabID} (h : StoredSince c c' id) : Ext c c' := by
  obtain ⟨E, e, _⟩ := h
  exact ⟨E, e⟩
theorem StoredSince.mono {c c1 c2 : Ctx} {id : SlabID} (h : StoredSince c c1 id) (h2 : Ext c1 c2) :
    StoredSince c c2 id := by
  obtain ⟨E1, e1, hm⟩ := h
  obtain ⟨E2, e2⟩ := h2
  exact ⟨E1 ++ E2, by rw [e2, e1, List.append_assoc], List.mem_append.2 (Or.inl hm)⟩
theorem StoredSince.after {c c1 c2 : Ctx} {id : SlabID} (h1 : Ext c c1) (h : StoredSince c1 c2 id) :
    StoredSince c c2 id := by
  obtain ⟨E1, e1⟩ := h1
  obtain ⟨E2, e2, hm⟩ := h
  exact ⟨E1 ++ E2, by rw [e2, e1, List.append_assoc], List.mem_append.2 (Or.inr hm)⟩
theorem StoredSince.emit (c : Ctx) (id : SlabID) : StoredSince c (c.emit (.store id)) id :=
  ⟨[.store id], rfl, by simp⟩

variable {r : Nat}

/-- some slab of `S` locally holds `v` and was stored since `c0` -/
def HoldS (v : Elem) (S : List (SlabID × MSlabView r)) (c0 c : Ctx) : Prop :=
  ∃ id sv, (id, sv) ∈ S ∧ v ∈ mslabVals sv ∧ StoredSince c0 c id

theorem HoldS.mono {v : Elem} {S : List (SlabID × MSlabView r)} {c0 c c' : Ctx} (h : HoldS v S c0 c) (he : Ext c c') :
    HoldS v S c0 c' := by
  obtain ⟨id, sv, h1, h2, h3⟩ := h
  exact ⟨id, sv, h1, h2, h3.mono he⟩

theorem HoldS.sub {v : Elem} {S S' : List (SlabID × MSlabView r)} {c0 c : Ctx} (h : HoldS v S c0 c)
    (hs : ∀ p ∈ S, p ∈ S') : HoldS v S' c0 c := by
  obtain ⟨id, sv, h1, h2, h3⟩ := h
  exact ⟨id, sv, hs _ h1, h2, h3⟩

/-! ### the first level of a data slab -/

section level0
variable {α : Type} {o : ElemsOps α} {cfg : MCfg} {P : α → Prop} {vals : α → List Elem} {v : Elem}

theorem set0_val (hO : OpsVal cfg v o P vals) {he : HkeyElems α} (hlen : he.hkeys.length = he.elems.length)
    (hF : ∀ el ∈ he.elems, FirstOk P el) {k : MKey} {c : Ctx}
    (hfit : v.size ≤ maxInlineMapValue cfg.T k.size)
    {res : MKey × Option Elem × HkeyElems α × Ctx}
    (h : HkeyElems.set o cfg he 0 k v c = .ok res) :
    ((∃ el ∈ res.2.2.1.elems, v ∈ elVals vals el) ∧ Ext c res.2.2.2) ∨
    (∃ id sz s, .ext id sz s ∈ res.2.2.1.elems ∧ v ∈ vals s.elems ∧ StoredSince c res.2.2.2 id) := by
  rcases hkey_set_inv' h with ⟨idx, hk, hidx, hres⟩ | ⟨i, el, el', ks', old', c'', hel, hs, helems, hc⟩
  · left
    simp only [HkeyElems.insertNew, newSingleElement, toStorableLim_of_le _ _ _ _ hfit] at hres
    subst hres
    refine ⟨⟨_, (List.mem_insertIdx (by rw [← hlen]; exact hidx)).2 (Or.inl rfl), by simp [elVals]⟩, Ext.refl _⟩
  · have hFel := hF el (List.mem_of_getElem? hel)
    have hmem : el' ∈ res.2.2.1.elems := by
      rw [helems]; exact List.mem_set (List.getElem?_eq_some_iff.1 hel).1 _
    rw [hc]
    rcases elem_set_val hO hfit hFel hs with ⟨hv, rfl⟩ | ⟨_, id, sz, s, rfl, hv, E, hE⟩
    · exact Or.inl ⟨⟨el', hmem, hv⟩, Ext.refl _⟩
    · exact Or.inr ⟨id, sz, s, hmem, hv, E ++ [.store id], by rw [hE, List.append_assoc], by simp⟩

end level0

theorem mdata_set_holds {cfg : MCfg} {T L : Nat} {DL : DigestFn L} (s s' : MDataSlab r) {k : MKey} {v : Elem} {c c' : Ctx}
    {ks : MKey} {old : Option Elem} (hinl : s.inlined = false)
    (hinv : ElemsInv T L DL (r + 1) 0 [] s.elems)
    (hfit : v.size ≤ maxInlineMapValue cfg.T k.size)
    (h : s.set cfg k v c = .ok (ks, old, s', c')) : HoldS v (MTree.slabs 0 s') c c' := by
  unfold MDataSlab.set at h
  obtain ⟨⟨ks', old', elems, c1⟩, hset, h⟩ := mbind_eq_ok h
  simp only [pure, Except.pure, Except.ok.injEq, Prod.mk.injEq] at h
  obtain ⟨_, _, rfl, rfl⟩ := h
  obtain ⟨hlen, hF⟩ := firstGood_of_inv hinv
  simp only [MDataSlab.storeIfNotInlined, hinl, Bool.false_eq_true, if_false]
  rw [mslabs_zero]
  rcases set0_val (MElems.opsVal cfg v r) hlen hF hfit hset with ⟨⟨el, hel, hv⟩, hext⟩ | ⟨id, sz, g, hel, hv, hst⟩
  · refine ⟨_, _, List.mem_cons_self, ?_, StoredSince.after hext (StoredSince.emit _ _)⟩
    show v ∈ localVals (r + 1) elems
    rw [localVals_succ]
    exact List.mem_flatMap.2 ⟨el, hel, hv⟩
  · refine ⟨id, .group g, List.mem_cons_of_mem _ ?_, hv, hst.mono (Ext.emit _ _)⟩
    simp only [MDataSlab.groupSlabs, List.mem_filterMap]
    exact ⟨_, hel, rfl⟩

/-! ### split, merge, rebalance: where the locally stored values go -/

/-- the values stored locally in the root slab of a tree -/
def tvals (d : Nat) (t : MTree r d) : List Elem := mslabVals (ment d t)

theorem tvals_zero (t : MTree r 0) : tvals 0 t = (MTree.elems0 0 t).flatMap (elVals (localVals r)) :=
  localVals_succ r (t : MDataSlab r).elems

theorem tvals_succ {d : Nat} (m : MMetaSlab (MTree r d)) : tvals (d + 1) m = [] := rfl

theorem tvals_of_elems0 {t t' : MTree r 0} (h : MTree.elems0 0 t' = MTree.elems0 0 t) : tvals 0 t' = tvals 0 t := by
  rw [tvals_zero, tvals_zero, h]

theorem mem_tvals_pair {l rr l' r' : MTree r 0}
    (h : MTree.elems0 0 l' ++ MTree.elems0 0 r' = MTree.elems0 0 l ++ MTree.elems0 0 rr) (v : Elem) :
    (v ∈ tvals 0 l ∨ v ∈ tvals 0 rr) → (v ∈ tvals 0 l' ∨ v ∈ tvals 0 r') := by
  simp only [tvals_zero, ← List.mem_append, ← List.flatMap_append, h]
  exact fun h => h

theorem split_vals : ∀ (d : Nat) (t l rr : MTree r d) (c c' : Ctx), MTree.split d t c = .ok (l, rr, c') →
    ∀ v, v ∈ tvals d t → v ∈ tvals d l ∨ v ∈ tvals d rr
  | 0, t, l, rr, c, c', h, v, hv => by
    have h1 := MTree.split_elems0 0 t l rr c c' h
    simp only [tvals_zero, ← List.mem_append, ← List.flatMap_append, h1] at hv ⊢
    exact hv
  | _ + 1, _, _, _, _, _, _, _, hv => by cases hv

theorem merge_vals : ∀ (d : Nat) (l rr : MTree r d) (v : Elem),
    (v ∈ tvals d l ∨ v ∈ tvals d rr) → v ∈ tvals d (MTree.merge d l rr)
  | 0, l, rr, v, hv => by
    have h1 := MTree.merge_elems0 0 l rr
    simp only [tvals_zero, ← List.mem_append, ← List.flatMap_append, h1] at hv ⊢
    exact hv
  | _ + 1, _, _, _, hv => by rcases hv with h | h <;> cases h

theorem lend_vals (T : Nat) : ∀ (d : Nat) (l rr l' r' : MTree r d), MTree.lendToRight T d l rr = .ok (l', r') →
    ∀ v, (v ∈ tvals d l ∨ v ∈ tvals d rr) → (v ∈ tvals d l' ∨ v ∈ tvals d r')
  | 0, l, rr, l', r', h, v, hv => mem_tvals_pair (MTree.lend_elems0 T 0 l rr l' r' h) v hv
  | _ + 1, _, _, _, _, _, _, hv => by rcases hv with h | h <;> cases h

theorem borrow_vals (T : Nat) : ∀ (d : Nat) (l rr l' r' : MTree r d), MTree.borrowFromRight T d l rr = .ok (l', r') →
    ∀ v, (v ∈ tvals d l ∨ v ∈ tvals d rr) → (v ∈ tvals d l' ∨ v ∈ tvals d r')
  | 0, l, rr, l', r', h, v, hv => mem_tvals_pair (MTree.borrow_elems0 T 0 l rr l' r' h) v hv
  | _ + 1, _, _, _, _, _, _, hv => by rcases hv with h | h <;> cases h

section parent
variable {T d : Nat}

theorem mrebal_inv_vals {m1 m2 : MMetaSlab (MTree r d)} {l rr : MTree r d} {li ri : Nat} {flag : Bool} {c c2 : Ctx}
    (h : m1.rebalanceChildren T l rr li ri flag c = .ok (m2, c2)) :
    ∃ l' r', (∀ v, (v ∈ tvals d l ∨ v ∈ tvals d rr) → (v ∈ tvals d l' ∨ v ∈ tvals d r')) ∧
      msub d l' ++ msub d r' = msub d l ++ msub d rr ∧
      m2.children = (m1.children.set li l').set ri r' ∧
      c2 = ((c.emit (.store (MTree.hdr d l').id)).emit (.store (MTree.hdr d r').id)).emit (.store m1.hdr.id) := by
  unfold MMetaSlab.rebalanceChildren at h
  extract_lets src jp at h
  have key : ∀ p, jp p = .ok (m2, c2) → m2.children = (m1.children.set li p.1).set ri p.2 ∧
      c2 = ((c.emit (.store (MTree.hdr d p.1).id)).emit (.store (MTree.hdr d p.2).id)).emit (.store m1.hdr.id) := by
    rintro ⟨l', r'⟩ hp
    simp only [jp, src, pure, Except.pure, Except.ok.injEq, Prod.mk.injEq] at hp
    obtain ⟨rfl, rfl⟩ := hp
    exact ⟨rfl, rfl⟩
  clear_value jp
  split at h
  · obtain ⟨⟨l', r'⟩, hlr, h⟩ := mbind_eq_ok h
    obtain ⟨h1, h3⟩ := key _ h
    exact ⟨l', r', borrow_vals T d l rr l' r' hlr, (mborrow_struct T d l rr l' r' hlr).1, h1, h3⟩
  · obtain ⟨⟨l', r'⟩, hlr, h⟩ := mbind_eq_ok h
    obtain ⟨h1, h3⟩ := key _ h
    exact ⟨l', r', lend_vals T d l rr l' r' hlr, (mlend_struct T d l rr l' r' hlr).1, h1, h3⟩

/-- the two adjacent children `mergeOrRebalanceChildSlab` works on -/
theorem mor_shape {m1 : MMetaSlab (MTree r d)} {A B : List (MTree r d)} {child' l rr : MTree r d} {k li : Nat}
    (hch : m1.children = A ++ child' :: B) (hk : A.length = k)
    (hpos : (li = k ∧ l = child' ∧ m1.children[k + 1]? = some rr) ∨
            (li + 1 = k ∧ m1.children[li]? = some l ∧ rr = child')) :
    ∃ P Q, m1.children = P ++ l :: rr :: Q ∧ P.length = li := by
  rcases hpos with ⟨rfl, rfl, hr⟩ | ⟨hli, hl, rfl⟩
  · rw [hch, getElem?_mid_succ hk] at hr
    cases B with
    | nil => simp at hr
    | cons b B' =>
      simp only [List.getElem?_cons_zero, Option.some.injEq] at hr
      subst hr
      exact ⟨A, B', hch, hk⟩
  · rcases List.eq_nil_or_concat A with hn | ⟨P, x, hA⟩
    · subst hn; simp at hk; omega
    · rw [List.concat_eq_append] at hA
      subst hA
      have hP : P.length = li := by simp at hk; omega
      have e1 : P ++ [x] ++ rr :: B = P ++ x :: rr :: B := by simp
      rw [hch, e1, getElem?_mid hP] at hl
      simp only [Option.some.injEq] at hl
      subst hl
      exact ⟨P, B, by rw [hch, e1], hP⟩

variable {v : Elem} {c0 c1 c2 : Ctx}

/-- the holder inside the tree `t` is found again among the trees `X` that replace it -/
theorem hold_move {X : List (MTree r d)} {t : MTree r d} (hh : HoldS v (MTree.slabs d t) c0 c1)
    (hext : Ext c1 c2)
    (hsub : ∀ p ∈ msub d t, ∃ x ∈ X, p ∈ msub d x)
    (hval : v ∈ tvals d t → StoredSince c0 c1 (MTree.hdr d t).id →
      ∃ x ∈ X, v ∈ tvals d x ∧ StoredSince c0 c2 (MTree.hdr d x).id) :
    HoldS v (X.flatMap (MTree.slabs d)) c0 c2 := by
  obtain ⟨id, sv, hmem, hv, hst⟩ := hh
  rw [mslabs_eq] at hmem
  rcases List.mem_cons.1 hmem with he | hm
  · cases he
    obtain ⟨x, hx, hvx, hsx⟩ := hval hv hst
    refine ⟨_, _, List.mem_flatMap.2 ⟨x, hx, ?_⟩, hvx, hsx⟩
    rw [mslabs_eq]; exact List.mem_cons_self
  · obtain ⟨x, hx, hpx⟩ := hsub _ hm
    refine ⟨id, sv, List.mem_flatMap.2 ⟨x, hx, ?_⟩, hv, hst.mono hext⟩
    rw [mslabs_eq]; exact List.mem_cons_of_mem _ hpx

theorem holds_of_children {m2 : MMetaSlab (MTree r d)} {X : List (MTree r d)}
    (h : HoldS v (X.flatMap (MTree.slabs d)) c0 c2) (hX : ∀ x ∈ X, x ∈ m2.children) :
    HoldS v (MTree.slabs (d + 1) m2) c0 c2 := by
  refine h.sub ?_
  intro p hp
  obtain ⟨x, hx, hpx⟩ := List.mem_flatMap.1 hp
  rw [mslabs_succ]
  exact List.mem_cons_of_mem _ (List.mem_flatMap.2 ⟨x, hX x hx, hpx⟩)

theorem storedSince3 (hext : Ext c0 c1) (i1 i2 i3 : SlabID) :
    StoredSince c0 (((c1.emit (.store i1)).emit (.store i2)).emit (.store i3)) i1 ∧
    StoredSince c0 (((c1.emit (.store i1)).emit (.store i2)).emit (.store i3)) i2 := by
  constructor
  · exact StoredSince.after hext ⟨[.store i1, .store i2, .store i3], by simp [Ctx.emit], by simp⟩
  · exact StoredSince.after hext ⟨[.store i1, .store i2, .store i3], by simp [Ctx.emit], by simp⟩

theorem ext3 (c : Ctx) (e1 e2 e3 : Eff) : Ext c (((c.emit e1).emit e2).emit e3) :=
  ⟨[e1, e2, e3], by simp [Ctx.emit]⟩

/-- the repair step of the parent keeps a stored holder -/
theorem afterChild_holds {m m2 : MMetaSlab (MTree r d)} {child child' : MTree r d} {k : Nat}
    (hchild : m.children[k]? = some child)
    (hh : HoldS v (MTree.slabs d child') c0 c1)
    (ha : m.afterChild T child' k c1 = .ok (m2, c2)) : HoldS v (MTree.slabs (d + 1) m2) c0 c2 := by
  obtain ⟨A, B, hch, hk⟩ := split_at_getElem? hchild
  have hch1 : (m.withChild child' k).children = A ++ child' :: B := by
    rw [withChild_children, hch, set_mid hk]
  have hext01 : Ext c0 c1 := by
    obtain ⟨_, _, _, _, hst⟩ := hh
    exact hst.ext
  rcases afterChild_inv ha with hsp | ⟨u, hmr⟩ | ⟨rfl, rfl⟩
  · unfold MMetaSlab.splitChildSlab at hsp
    obtain ⟨⟨l, rr, cs⟩, hs, hsp⟩ := mbind_eq_ok hsp
    simp only [pure, Except.pure, Except.ok.injEq, Prod.mk.injEq] at hsp
    obtain ⟨rfl, rfl⟩ := hsp
    obtain ⟨hs1, _, _, rfl⟩ := msplit_struct d child' c1 l rr cs hs
    have hext : Ext c1 ((c1.alloc (MTree.hdr d child').id.addr).2) := Ext.alloc _ _
    obtain ⟨st1, st2⟩ := storedSince3 (hext01.trans hext) (MTree.hdr d l).id (MTree.hdr d rr).id (m.withChild child' k).hdr.id
    refine holds_of_children (X := [l, rr]) (hold_move hh (hext.trans (ext3 _ _ _ _)) ?_ ?_) ?_
    · intro p hp
      rw [← hs1] at hp
      rcases List.mem_append.1 hp with h | h
      · exact ⟨l, by simp, h⟩
      · exact ⟨rr, by simp, h⟩
    · intro hv _
      rcases split_vals d child' l rr c1 _ hs v hv with h | h
      · exact ⟨l, by simp, h, st1⟩
      · exact ⟨rr, by simp, h, st2⟩
    · intro x hx
      simp only [hch1, set_mid hk, insertIdx_mid hk]
      simp only [List.mem_cons, List.not_mem_nil, or_false] at hx
      rcases hx with rfl | rfl <;> simp
  · obtain ⟨l, rr, li, hpos, hact⟩ := mmor_cases _ child' k u c1 m2 c2 hmr
    obtain ⟨P, Q, hch', hli⟩ := mor_shape hch1 hk hpos
    have hc' : child' = l ∨ child' = rr := by
      rcases hpos with ⟨_, h, _⟩ | ⟨_, _, h⟩
      · exact Or.inl h.symm
      · exact Or.inr h.symm
    rcases hact with ⟨flag, heq⟩ | heq
    · obtain ⟨l', r', hvals, hs1, hkids, rfl⟩ := mrebal_inv_vals heq
      obtain ⟨st1, st2⟩ := storedSince3 hext01 (MTree.hdr d l').id (MTree.hdr d r').id (m.withChild child' k).hdr.id
      refine holds_of_children (X := [l', r']) (hold_move hh (ext3 _ _ _ _) ?_ ?_) ?_
      · intro p hp
        have : p ∈ msub d l' ++ msub d r' := by
          rw [hs1]
          rcases hc' with rfl | rfl
          · exact List.mem_append.2 (Or.inl hp)
          · exact List.mem_append.2 (Or.inr hp)
        rcases List.mem_append.1 this with h | h
        · exact ⟨l', by simp, h⟩
        · exact ⟨r', by simp, h⟩
      · intro hv _
        have : v ∈ tvals d l ∨ v ∈ tvals d rr := by
          rcases hc' with rfl | rfl
          · exact Or.inl hv
          · exact Or.inr hv
        rcases hvals v this with h | h
        · exact ⟨l', by simp, h, st1⟩
        · exact ⟨r', by simp, h, st2⟩
      · intro x hx
        have hk2 : ((P ++ l :: rr :: Q).set li l').set (li + 1) r' = P ++ [l', r'] ++ Q := by
          rw [set_mid hli]
          have : P ++ l' :: rr :: Q = (P ++ [l']) ++ rr :: Q := by simp
          rw [this, set_mid (by simp [hli])]; simp
        rw [hkids, hch', hk2]
        simp only [List.mem_cons, List.not_mem_nil, or_false] at hx
        rcases hx with rfl | rfl <;> simp
    · have h1 : m2 = ((m.withChild child' k).mergeChildren l rr li (li + 1) c1).1 := by rw [← heq]
      have h2 : c2 = ((m.withChild child' k).mergeChildren l rr li (li + 1) c1).2 := by rw [← heq]
      rw [mmerge_ctx] at h2
      subst h2
      obtain ⟨hs1, _⟩ := mmerge_struct d l rr
      have st : StoredSince c0 (((c1.emit (.store (MTree.hdr d (MTree.merge d l rr)).id)).emit
          (.store (m.withChild child' k).hdr.id)).emit (.remove (MTree.hdr d rr).id))
          (MTree.hdr d (MTree.merge d l rr)).id :=
        StoredSince.after hext01 ⟨[.store (MTree.hdr d (MTree.merge d l rr)).id, .store (m.withChild child' k).hdr.id,
          .remove (MTree.hdr d rr).id], by simp [Ctx.emit], by simp⟩
      refine holds_of_children (X := [MTree.merge d l rr]) (hold_move hh (ext3 _ _ _ _) ?_ ?_) ?_
      · intro p hp
        refine ⟨MTree.merge d l rr, by simp, ?_⟩
        rw [hs1]
        rcases hc' with rfl | rfl
        · exact List.mem_append.2 (Or.inl hp)
        · exact List.mem_append.2 (Or.inr hp)
      · intro hv _
        refine ⟨MTree.merge d l rr, by simp, merge_vals d l rr v ?_, st⟩
        rcases hc' with rfl | rfl
        · exact Or.inl hv
        · exact Or.inr hv
      · intro x hx
        simp only [List.mem_singleton] at hx
        subst hx
        rw [h1, mmerge_children, hch', set_mid hli, eraseIdx_mid_succ hli]
        simp
  · refine holds_of_children (X := [child']) (hold_move hh (Ext.emit _ _) ?_ ?_) ?_
    · intro p hp; exact ⟨child', by simp, hp⟩
    · intro hv hst
      exact ⟨child', by simp, hv, hst.mono (Ext.emit _ _)⟩
    · intro x hx
      simp only [List.mem_singleton] at hx
      subst hx
      rw [hch1]; simp

end parent

/-! ### `MTree.set` -/

section tree
variable {T : Nat} {D : DigestFn (r + 1)} {cfg : MCfg} {k : MKey} {v : Elem} {ks : MKey} {old : Option Elem} {c : Ctx}

theorem mset_holds (hfit : v.size ≤ maxInlineMapValue cfg.T k.size) :
    ∀ (d : Nat) (t t' : MTree r d) (top : Bool) (c' : Ctx),
    MTreeInv T D d top t → treeInl d t = false →
    MTree.set cfg d t k v c = .ok (ks, old, t', c') → HoldS v (MTree.slabs d t') c c'
  | 0, s, t', top, c', hinv, hinl, h =>
    mdata_set_holds (s : MDataSlab r) t' hinl ((mtreeInv_zero_iff T D top s).mp hinv).elems_inv hfit h
  | d + 1, m, t', top, c', hinv, _, h => by
    obtain ⟨i, child, child', c1, hchild, hs, ha⟩ := mset_succ_inv m h
    obtain ⟨hci, _⟩ := child_facts' hinv rfl hchild
    exact afterChild_holds hchild (mset_holds hfit d child child' false c1 hci (treeInl_of_nontop d child hci) hs) ha

end tree

/-! ### the root fix-up -/

theorem tvals_deroot : ∀ (d : Nat) (t : MTree r d) (sid : SlabID), tvals d (deroot d t sid) = tvals d t
  | 0, _, _ => rfl
  | _ + 1, _, _ => rfl

theorem tvals_enroot : ∀ (d : Nat) (t : MTree r d) (rid : SlabID), tvals d (enroot d t rid) = tvals d t
  | 0, _, _ => rfl
  | _ + 1, _, _ => rfl

section root
variable {v : Elem} {c0 : Ctx}

theorem splitIfFull_holds (T' d : Nat) (root : MTree r d) (ty cnt seed : Nat) (c : Ctx) {m3 : OMap r} {c3 : Ctx}
    (hh : HoldS v (MTree.slabs d root) c0 c)
    (h : OMap.splitRootIfFull T' (⟨d, root, ty, cnt, seed⟩ : OMap r) c = .ok (m3, c3)) :
    HoldS v (MTree.slabs m3.d m3.root) c0 c3 := by
  simp only [OMap.splitRootIfFull] at h
  split at h
  · obtain ⟨l, rr, c2, hsp, rfl, rfl⟩ := splitRoot_inv d root ty cnt seed c h
    obtain ⟨hs1, _, _, rfl⟩ := msplit_struct d _ _ l rr c2 hsp
    rw [msub_deroot] at hs1
    have hext01 : Ext c0 c := by
      obtain ⟨_, _, _, _, hst⟩ := hh
      exact hst.ext
    have hext : Ext c (((c.alloc (MTree.hdr d root).id.addr).2).alloc
        (MTree.hdr d (deroot d root (c.alloc (MTree.hdr d root).id.addr).1)).id.addr).2 :=
      (Ext.alloc _ _).trans (Ext.alloc _ _)
    obtain ⟨st1, st2⟩ := storedSince3 (hext01.trans hext) (MTree.hdr d l).id (MTree.hdr d rr).id (MTree.hdr d root).id
    refine holds_of_children (m2 := newRootOf d (MTree.hdr d root).id l rr) (X := [l, rr])
      (hold_move hh (hext.trans (ext3 _ _ _ _)) ?_ ?_) (fun x hx => hx)
    · intro p hp
      rw [← hs1] at hp
      rcases List.mem_append.1 hp with h | h
      · exact ⟨l, by simp, h⟩
      · exact ⟨rr, by simp, h⟩
    · intro hv _
      rw [← tvals_deroot d root (c.alloc (MTree.hdr d root).id.addr).1] at hv
      rcases split_vals d _ l rr _ _ hsp v hv with h | h
      · exact ⟨l, by simp, h, st1⟩
      · exact ⟨rr, by simp, h, st2⟩
  · simp only [Except.ok.injEq, Prod.mk.injEq] at h
    obtain ⟨rfl, rfl⟩ := h
    exact hh

theorem promote_cases (d : Nat) (x : MMetaSlab (MTree r d)) (ty cnt seed : Nat) (c : Ctx) :
    OMap.promoteIfSingleChild (⟨d + 1, x, ty, cnt, seed⟩ : OMap r) c = (⟨d + 1, x, ty, cnt, seed⟩, c) ∨
    ∃ h child, x.childHdrs = [h] ∧ x.children = [child] ∧
      OMap.promoteIfSingleChild (⟨d + 1, x, ty, cnt, seed⟩ : OMap r) c =
        (⟨d, enroot d child x.hdr.id, ty, cnt, seed⟩, (c.emit (.store x.hdr.id)).emit (.remove h.id)) := by
  rcases hh : x.childHdrs with _ | ⟨h, _ | ⟨h2, hrest⟩⟩
  · left; simp only [OMap.promoteIfSingleChild, hh]
  · rcases hc : x.children with _ | ⟨child, _ | ⟨b, rest⟩⟩
    · left; simp only [OMap.promoteIfSingleChild, hh, hc]
    · right; exact ⟨h, child, rfl, rfl, promote_eq d x ty cnt seed c hh hc⟩
    · left; simp only [OMap.promoteIfSingleChild, hh, hc]
  · left; simp only [OMap.promoteIfSingleChild, hh]

theorem rootfix_holds_succ (T' : Nat) {d : Nat} (x : MMetaSlab (MTree r d)) (ty cnt seed : Nat) (c1 : Ctx)
    {m3 : OMap r} {c3 : Ctx} (hh : HoldS v (MTree.slabs (d + 1) x) c0 c1)
    (h : (OMap.promoteIfSingleChild (⟨d + 1, x, ty, cnt, seed⟩ : OMap r) c1).1.splitRootIfFull T'
        (OMap.promoteIfSingleChild (⟨d + 1, x, ty, cnt, seed⟩ : OMap r) c1).2 = .ok (m3, c3)) :
    HoldS v (MTree.slabs m3.d m3.root) c0 c3 := by
  rcases promote_cases d x ty cnt seed c1 with he | ⟨hd, child, hhd, hc, he⟩
  · rw [he] at h
    exact splitIfFull_holds T' (d + 1) x ty cnt seed c1 hh h
  · rw [he] at h
    simp only at h
    refine splitIfFull_holds T' d (enroot d child x.hdr.id) ty cnt seed _ ?_ h
    have hh' : HoldS v (MTree.slabs d child) c0 c1 := by
      obtain ⟨id, sv, hmem, hv, hst⟩ := hh
      rw [mslabs_succ, hc] at hmem
      rcases List.mem_cons.1 hmem with he' | hm
      · cases he'; cases hv
      · exact ⟨id, sv, by simpa using hm, hv, hst⟩
    have hext01 : Ext c0 c1 := by
      obtain ⟨_, _, _, _, hst⟩ := hh
      exact hst.ext
    have := hold_move (X := [enroot d child x.hdr.id]) (c2 := (c1.emit (.store x.hdr.id)).emit (.remove hd.id)) hh'
      ((Ext.emit _ _).trans (Ext.emit _ _)) ?_ ?_
    · simpa using this
    · intro p hp
      exact ⟨enroot d child x.hdr.id, by simp, by rw [msub_enroot]; exact hp⟩
    · intro hv _
      refine ⟨enroot d child x.hdr.id, by simp, by rw [tvals_enroot]; exact hv, ?_⟩
      rw [hdr_enroot]
      exact StoredSince.after hext01 ⟨[.store x.hdr.id, .remove hd.id], by simp [Ctx.emit], by simp⟩

theorem rootfix_holds (T' : Nat) : ∀ (d : Nat) (root : MTree r d) (ty cnt seed : Nat) (c1 : Ctx)
    (m3 : OMap r) (c3 : Ctx), HoldS v (MTree.slabs d root) c0 c1 →
    (OMap.promoteIfSingleChild (⟨d, root, ty, cnt, seed⟩ : OMap r) c1).1.splitRootIfFull T'
        (OMap.promoteIfSingleChild (⟨d, root, ty, cnt, seed⟩ : OMap r) c1).2 = .ok (m3, c3) →
    HoldS v (MTree.slabs m3.d m3.root) c0 c3
  | 0, s, ty, cnt, seed, c1, _, _, hh, h => splitIfFull_holds T' 0 s ty cnt seed c1 hh h
  | _ + 1, x, ty, cnt, seed, c1, _, _, hh, h => rootfix_holds_succ T' x ty cnt seed c1 hh h

end root

/-! ### the theorem -/

theorem lastAction_ne_none_of_store {E : List Eff} {id : SlabID} (h : Eff.store id ∈ E) : lastAction E id ≠ none := by
  induction E with
  | nil => cases h
  | cons e E ih =>
    rw [lastAction_cons]
    rcases List.mem_cons.1 h with he | hm
    · subst he
      cases lastAction E id <;> simp [actStep]
    · have := ih hm
      cases hl : lastAction E id with
      | none => exact absurd hl this
      | some b => simp

variable {T : Nat} {D : DigestFn (r + 1)}

/-- the holder, tracked through the whole of `OMap.set` -/
theorem omap_set_holds {cfg : MCfg} {m : OMap r} (hcfg : CfgOk cfg T m) (h : MapInv T D m) {k : MKey} {v : Elem}
    (hv2 : v.size ≤ maxInlineMapValue T k.size) (c : Ctx) {old : Option Elem} {m' : OMap r} {c' : Ctx}
    (hr : m.set cfg k v c = .ok (old, m', c')) : HoldS v (MTree.slabs m'.d m'.root) c c' := by
  obtain ⟨d, root, ty, cnt, seed⟩ := m
  have hfit : v.size ≤ maxInlineMapValue cfg.T k.size := by rw [hcfg.1]; exact hv2
  have hinl : treeInl d root = false := by
    rw [← isInlined_eq d root ty cnt seed]; exact h.standalone
  cases heq : MTree.set cfg d root k v c with
  | error e => simp [OMap.set, heq, bind, Except.bind] at hr
  | ok p =>
    obtain ⟨ks, old', root', c1⟩ := p
    have h1 := mset_holds hfit d root root' true c1 h.tree hinl heq
    simp only [OMap.set, heq, bind, Except.bind, pure, Except.pure] at hr
    split at hr
    · cases hr
    · rename_i p hfix
      obtain ⟨m3, c3⟩ := p
      simp only [Except.ok.injEq, Prod.mk.injEq] at hr
      obtain ⟨_, rfl, rfl⟩ := hr
      exact rootfix_holds cfg.T d root' ty _ seed c1 m3 c3 h1 hfix

end MapHolder
open MapHolder

variable {r : Nat} {T : Nat} {D : DigestFn (r + 1)}

/-- SET STORES THE HOLDER SLAB: after a successful `OMap.set` of a value that fits the inline limit
    on a standalone map there is a slab of the NEW tree whose local values contain `v` and whose
    last action in the log of this operation is a store — whether or not `v` differs from the
    value it replaces. -/
theorem omap_set_stores_holder (hT : legalThreshold T = true) {cfg : MCfg} {m : OMap r} (hcfg : CfgOk cfg T m)
    (h : MapInv T D m) {k : MKey} (hk : KeyOk T (r + 1) D k) {v : Elem} (hv1 : 1 ≤ v.size)
    (hv2 : v.size ≤ maxInlineMapValue T k.size)
    (c : Ctx) (hc : CtxOk m c) (hids : MIdsOk m) {old : Option Elem} {m' : OMap r} {c' : Ctx}
    (hr : m.set cfg k v c = .ok (old, m', c')) :
    ∃ E C, MLog m.addr c c' E C ∧
      ∃ id sv, (id, sv) ∈ MTree.slabs m'.d m'.root ∧ v ∈ mslabVals sv ∧ lastAction E id = some true := by
  obtain ⟨E, C, hlog, hacct, _, _⟩ := omap_set_acctR hT hcfg h hk (ValueOkR.of_le hv1 hv2) c hc hids hr
  obtain ⟨id, sv, hmem, hv, E', hE', hst⟩ := omap_set_holds hcfg h hv2 c hr
  have hEE : E' = E := List.append_cancel_left (hE'.symm.trans hlog.eff)
  subst hEE
  refine ⟨E', C, hlog, id, sv, hmem, hv, ?_⟩
  cases hl : lastAction E' id with
  | none => exact absurd hl (lastAction_ne_none_of_store hst)
  | some b =>
    cases b with
    | true => rfl
    | false => exact absurd (mem_keys_of_mem hmem) (hacct.removed id hl)


/-! ### every value lives in exactly one slab -/

namespace MapHolder

section lists
variable {α β : Type}

theorem flatMap_congr_mem {l : List α} {f g : α → List β} (h : ∀ a ∈ l, f a = g a) : l.flatMap f = l.flatMap g := by
  induction l with
  | nil => rfl
  | cons a l ih =>
    rw [List.flatMap_cons, List.flatMap_cons, h a List.mem_cons_self,
      ih (fun b hb => h b (List.mem_cons_of_mem _ hb))]

theorem perm_flatMap_mem {l : List α} {f g : α → List β} (h : ∀ a ∈ l, (f a).Perm (g a)) :
    (l.flatMap f).Perm (l.flatMap g) := by
  induction l with
  | nil => exact List.Perm.refl _
  | cons a l ih =>
    rw [List.flatMap_cons, List.flatMap_cons]
    exact (h a List.mem_cons_self).append (ih (fun b hb => h b (List.mem_cons_of_mem _ hb)))

/-- a permutation moves two different positions to two different positions -/
theorem perm_two_pos {l1 l2 : List β} (h : l1.Perm l2) : ∀ {a b : β} {p q : Nat}, p ≠ q → l1[p]? = some a → l1[q]? = some b →
    ∃ i j : Nat, i ≠ j ∧ l2[i]? = some a ∧ l2[j]? = some b := by
  induction h with
  | nil => intro a b p q _ h1; simp at h1
  | @cons x l1 l2 hp ih =>
    intro a b p q hne h1 h2
    cases p with
    | zero =>
      cases q with
      | zero => exact absurd rfl hne
      | succ q =>
        simp only [List.getElem?_cons_succ] at h2
        obtain ⟨j, hj⟩ := List.mem_iff_getElem?.1 (hp.mem_iff.1 (List.mem_iff_getElem?.2 ⟨q, h2⟩))
        exact ⟨0, j + 1, by omega, h1, by simpa using hj⟩
    | succ p =>
      cases q with
      | zero =>
        simp only [List.getElem?_cons_succ] at h1
        obtain ⟨i, hi⟩ := List.mem_iff_getElem?.1 (hp.mem_iff.1 (List.mem_iff_getElem?.2 ⟨p, h1⟩))
        exact ⟨i + 1, 0, by omega, by simpa using hi, h2⟩
      | succ q =>
        simp only [List.getElem?_cons_succ] at h1 h2
        obtain ⟨i, j, hij, hi, hj⟩ := ih (by omega) h1 h2
        exact ⟨i + 1, j + 1, by omega, by simpa using hi, by simpa using hj⟩
  | swap x y l =>
    intro a b p q hne h1 h2
    have key : ∀ (n : Nat) (e : β), (y :: x :: l)[n]? = some e →
        ∃ n', (x :: y :: l)[n']? = some e ∧ (n' = 0 ↔ n = 1) ∧ (n' = 1 ↔ n = 0) ∧ (2 ≤ n' → n' = n) := by
      intro n e hn
      match n, hn with
      | 0, hn => exact ⟨1, by simpa using hn, by omega, by omega, by omega⟩
      | 1, hn => exact ⟨0, by simpa using hn, by omega, by omega, by omega⟩
      | n + 2, hn => exact ⟨n + 2, by simpa using hn, by omega, by omega, by omega⟩
    obtain ⟨i, hi, i0, i1, i2⟩ := key p a h1
    obtain ⟨j, hj, j0, j1, j2⟩ := key q b h2
    exact ⟨i, j, by omega, hi, hj⟩
  | trans _ _ ih1 ih2 =>
    intro a b p q hne h1 h2
    obtain ⟨i, j, hij, hi, hj⟩ := ih1 hne h1 h2
    exact ih2 hij hi hj

/-- members of the images of two different members of `S` sit at different positions of `S.flatMap f` -/
theorem flatMap_two_pos {S : List α} {f : α → List β} {x y : α} {a b : β} (hx : x ∈ S) (hy : y ∈ S) (hne : x ≠ y)
    (ha : a ∈ f x) (hb : b ∈ f y) : ∃ p q : Nat, p ≠ q ∧ (S.flatMap f)[p]? = some a ∧ (S.flatMap f)[q]? = some b := by
  induction S with
  | nil => cases hx
  | cons z S ih =>
    rw [List.flatMap_cons]
    have inl : ∀ e, e ∈ f z → ∃ p, p < (f z).length ∧ (f z ++ S.flatMap f)[p]? = some e := by
      intro e he
      obtain ⟨p, hp⟩ := List.mem_iff_getElem?.1 he
      have hlt : p < (f z).length := (List.getElem?_eq_some_iff.1 hp).1
      exact ⟨p, hlt, by rw [List.getElem?_append_left hlt]; exact hp⟩
    have inr : ∀ e w, w ∈ S → e ∈ f w → ∃ p, (f z).length ≤ p ∧ (f z ++ S.flatMap f)[p]? = some e := by
      intro e w hw he
      obtain ⟨p, hp⟩ := List.mem_iff_getElem?.1 (List.mem_flatMap.2 ⟨w, hw, he⟩)
      exact ⟨(f z).length + p, by omega, by rw [List.getElem?_append_right (by omega)]; simpa using hp⟩
    rcases List.mem_cons.1 hx with rfl | hx'
    · rcases List.mem_cons.1 hy with rfl | hy'
      · exact absurd rfl hne
      · obtain ⟨p, hp, h1⟩ := inl a ha
        obtain ⟨q, hq, h2⟩ := inr b y hy' hb
        exact ⟨p, q, by omega, h1, h2⟩
    · rcases List.mem_cons.1 hy with rfl | hy'
      · obtain ⟨p, hp, h1⟩ := inr a x hx' ha
        obtain ⟨q, hq, h2⟩ := inl b hb
        exact ⟨p, q, by omega, h1, h2⟩
      · obtain ⟨p, q, hpq, h1, h2⟩ := ih hx' hy'
        refine ⟨(f z).length + p, (f z).length + q, by omega, ?_, ?_⟩
        · rw [List.getElem?_append_right (by omega)]; simpa using h1
        · rw [List.getElem?_append_right (by omega)]; simpa using h2

end lists

variable {r : Nat}

theorem toList_vals_succ (r : Nat) (he : HkeyElems (MElems r)) (hg : GoodElems (r + 1) he)
    (ih : ∀ g : MElems r, GoodElems r g → ((MElems.ops r).toList g).map (·.2) = localVals r g) :
    ((MElems.ops (r + 1)).toList he).map (·.2) = localVals (r + 1) he := by
  show (he.elems.flatMap (fun el => el.toList (MElems.ops r))).map (·.2) = _
  rw [localVals_succ, List.map_flatMap]
  apply flatMap_congr_mem
  intro el hel
  have hP := hg.2 el hel
  cases el with
  | single x => rfl
  | inl g => exact ih g hP
  | ext _ _ _ => exact absurd hP (by simp [ElP])

/-- without external groups the values of the dictionary of an `elements` are its local values -/
theorem toList_vals : ∀ (r : Nat) (e : MElems r), GoodElems r e → ((MElems.ops r).toList e).map (·.2) = localVals r e
  | 0, se, _ => by
    show (SingleElems.elems se |>.map (fun x => (x.key, x.val))).map (·.2) = (SingleElems.elems se).map (·.val)
    rw [List.map_map]; rfl
  | r + 1, he, hg => toList_vals_succ r he hg (toList_vals r)

/-- the values of the first-level elements `L`: those stored locally, and those of the external groups -/
theorem first_vals_perm (L : List (MElemF (MElems r))) (hF : ∀ el ∈ L, FirstOk (GoodElems r) el) :
    ((L.flatMap (fun el => el.toList (MElems.ops r))).map (·.2)).Perm
      (L.flatMap (elVals (localVals r)) ++ (grp L).flatMap (fun p => localVals r p.2.elems)) := by
  induction L with
  | nil => exact List.Perm.refl _
  | cons el L ih =>
    have ih := ih (fun e he => hF e (List.mem_cons_of_mem _ he))
    have hel := hF el List.mem_cons_self
    rw [List.flatMap_cons, List.map_append, List.flatMap_cons]
    cases el with
    | single x =>
      rw [grp_cons_single]
      exact ih.cons x.val
    | inl g =>
      rw [grp_cons_inl, List.append_assoc]
      have : (MElemF.toList (MElems.ops r) (.inl g)).map (·.2) = elVals (localVals r) (.inl g) := toList_vals r g hel
      rw [this]
      exact ih.append_left _
    | ext id sz s =>
      rw [grp_cons_ext, List.flatMap_cons]
      have : (MElemF.toList (MElems.ops r) (.ext id sz s)).map (·.2) = localVals r s.elems := toList_vals r s.elems hel.2
      rw [this]
      show (localVals r s.elems ++ _).Perm ([] ++ _ ++ _)
      rw [List.nil_append]
      exact (ih.append_left _).trans (List.perm_append_comm_assoc _ _ _)

variable {T : Nat} {D : DigestFn (r + 1)}

theorem mslab_vals_perm_zero {top : Bool} (s : MDataSlab r) (h : MTreeInv T D 0 top s) :
    ((MTree.toList 0 s).map (·.2)).Perm ((MTree.slabs 0 s).flatMap (fun p => mslabVals p.2)) := by
  obtain ⟨_, hF⟩ := firstGood_of_inv ((mtreeInv_zero_iff T D top s).mp h).elems_inv
  have h1 := first_vals_perm s.elems.elems hF
  rw [mslabs_zero, List.flatMap_cons, groupSlabs_eq, List.flatMap_map]
  show List.Perm _ (localVals (r + 1) s.elems ++ _)
  rw [localVals_succ]
  exact h1

theorem mslab_vals_perm_succ {d : Nat} (m : MMetaSlab (MTree r d))
    (ih : ∀ c ∈ m.children, ((MTree.toList d c).map (·.2)).Perm ((MTree.slabs d c).flatMap (fun p => mslabVals p.2))) :
    ((MTree.toList (d + 1) m).map (·.2)).Perm ((MTree.slabs (d + 1) m).flatMap (fun p => mslabVals p.2)) := by
  rw [mslabs_succ, List.flatMap_cons, List.flatMap_assoc]
  show (List.map (·.2) (m.children.flatMap (MTree.toList d))).Perm ([] ++ _)
  rw [List.nil_append, List.map_flatMap]
  exact perm_flatMap_mem ih

end MapHolder
open MapHolder

variable {r : Nat} {T : Nat} {D : DigestFn (r + 1)}

/-- THE VALUES OF THE DICTIONARY ARE THE LOCAL VALUES OF THE SLABS, slab by slab (up to order:
    the values of an external group come right after its data slab's own, not in digest order) -/
theorem mslab_vals_perm : ∀ (d : Nat) (top : Bool) (t : MTree r d), MTreeInv T D d top t →
    ((MTree.toList d t).map (·.2)).Perm ((MTree.slabs d t).flatMap (fun p => mslabVals p.2))
  | 0, _, s, h => mslab_vals_perm_zero s h
  | d + 1, top, m, h =>
    mslab_vals_perm_succ m (fun c hc =>
      mslab_vals_perm d false c (((mtreeInv_succ_iff T D d top m).mp h).1.2.2.2.2.1 c hc))

/-- a locally stored value of a slab of the tree is a value of the dictionary -/
theorem mslab_vals_sub {d : Nat} {top : Bool} {t : MTree r d} (h : MTreeInv T D d top t) {id : SlabID} {sv : MSlabView r}
    (hm : (id, sv) ∈ MTree.slabs d t) : ∀ e ∈ mslabVals sv, e ∈ (MTree.toList d t).map (·.2) := by
  intro e he
  exact (mslab_vals_perm d top t h).mem_iff.2 (List.mem_flatMap.2 ⟨(id, sv), hm, he⟩)

/-- values stored locally in two different slabs sit at two different positions of the dictionary -/
theorem mslab_positions {d : Nat} {top : Bool} {t : MTree r d} (h : MTreeInv T D d top t)
    {id1 id2 : SlabID} {sv1 sv2 : MSlabView r}
    (h1 : (id1, sv1) ∈ MTree.slabs d t) (h2 : (id2, sv2) ∈ MTree.slabs d t) (hne : id1 ≠ id2)
    {e1 e2 : Elem} (he1 : e1 ∈ mslabVals sv1) (he2 : e2 ∈ mslabVals sv2) :
    ∃ i j : Nat, i ≠ j ∧ ((MTree.toList d t).map (·.2))[i]? = some e1 ∧ ((MTree.toList d t).map (·.2))[j]? = some e2 := by
  obtain ⟨p, q, hpq, hp, hq⟩ := flatMap_two_pos (f := fun p : SlabID × MSlabView r => mslabVals p.2) h1 h2
    (fun he => hne (congrArg Prod.fst he)) he1 he2
  exact perm_two_pos (mslab_vals_perm d top t h).symm hpq hp hq


/-! ### the statement at `r = 3` (the World model), and `slabElems` -/

/-- `mslabVals` is `C10Persist.slabElems` on map slabs -/
theorem slabElems_map (sv : MSlabView 3) (x : Option (Nat × Nat × Nat)) :
    C10Persist.slabElems (.map sv x) = mslabVals sv := by
  cases sv <;> rfl

example (s : MDataSlab 3) : mslabVals (.data s) = localVals 4 s.elems := rfl
example (g : GroupSlab (MElems 3)) : mslabVals (.group g : MSlabView 3) = localVals 3 g.elems := rfl

example {T : Nat} {D : DigestFn 4} (hT : legalThreshold T = true) {cfg : MCfg} {m : OMap 3} (hcfg : CfgOk cfg T m)
    (h : MapInv T D m) {k : MKey} (hk : KeyOk T 4 D k) {v : Elem} (hv1 : 1 ≤ v.size)
    (hv2 : v.size ≤ maxInlineMapValue T k.size)
    (c : Ctx) (hc : CtxOk m c) (hids : MIdsOk m) {old : Option Elem} {m' : OMap 3} {c' : Ctx}
    (hr : m.set cfg k v c = .ok (old, m', c')) :
    ∃ E C, MLog m.addr c c' E C ∧ ∃ id sv, (id, sv) ∈ MTree.slabs m'.d m'.root ∧ v ∈ mslabVals sv ∧
      lastAction E id = some true :=
  omap_set_stores_holder hT hcfg h hk hv1 hv2 c hc hids hr

/-! ### Non-vacuity

The example map `MapExample.run` of `AtreeProofs/Map/Example.lean` (`r = 1`, T = 256, owner 7): an
index slab root `7.1` over the data slabs `7.3` and `7.4`, one external collision group `7.2`
referenced from `7.3` holding the keys 311 … 321.  Writing to key 312 THE VALUE IT ALREADY HAS
changes no slab; the group slab `7.2` (the holder), its data slab and the root are stored. -/
namespace MapHolder
section NonVacuity
open MapExample
open Atree.C09 (newEffects)

def runSame : OMap 1 × Ctx := stepSet cfg2 run (key 312) (val 6)

theorem stepSame : run.1.set cfg2 (key 312) (val 6) run.2 = .ok (some (val 6), runSame.1, runSame.2) := by rfl

theorem run_ids : MIdsOk run.1 := by decide

example : runSame.1.toList = run.1.toList := by decide
example : newEffects run.2 runSame.2 = [.store ⟨7, 2⟩, .store ⟨7, 3⟩, .store ⟨7, 1⟩] := by decide
/-- the local values of the four slabs of the new tree: `val 6` is in the group slab `7.2` only -/
example : (MTree.slabs runSame.1.d runSame.1.root).map (fun p => (p.1, mslabVals p.2)) =
    [(⟨7, 1⟩, []),
     (⟨7, 3⟩, [val 16, val 2, val 3, val 4, val 1, val 19]),
     (⟨7, 2⟩, [val 5, val 6, val 7, val 8, val 9]),
     (⟨7, 4⟩, [val 11, val 17, val 12, val 18, val 13, val 14, val 15])] := by decide

/-- the hypotheses of `omap_set_stores_holder` hold for this run -/
example : ∃ E C, MLog run.1.addr run.2 runSame.2 E C ∧
    ∃ id sv, (id, sv) ∈ MTree.slabs runSame.1.d runSame.1.root ∧ val 6 ∈ mslabVals sv ∧ lastAction E id = some true :=
  omap_set_stores_holder (T := 256) (D := D2) legal256 run_good.cfgok run_good.inv (key_ok 312)
    (by decide) (by decide) run.2 run_good.ctx run_ids stepSame

/-- … and those of the uniqueness theorems -/
example : ((MTree.toList run.1.d run.1.root).map (·.2)).Perm
    ((MTree.slabs run.1.d run.1.root).flatMap (fun p => mslabVals p.2)) :=
  mslab_vals_perm run.1.d true run.1.root run_good.inv.tree

end NonVacuity
end MapHolder

end Atree
