import AtreeModel.StorageOps
import AtreeProofs.StorageLemmas
import AtreeProofs.HeapSpec
import AtreeProofs.CommitLemmas
import AtreeProofs.StorageLemmas2
import AtreeProofs.Array.Effects
/-
  Effect logs run against the storage state machine, for an ARBITRARY type `σ` of stored slabs:
  a copy of the definitions of `AtreeProofs/E2ESpec.lean` (`effOp`, `effOps`, `applyEffs`,
  `lastWrite`, `allocCount`) and of the lemmas of `AtreeProofs/E2E/Writes.lean` ("last write wins")
  with the array-specific slab type `E2E.σ` replaced by a type variable.  Used by the World-level
  persistence theorems (`Props/C10Persist.lean`), where a stored slab carries its inlined
  descendants.
-/
namespace Atree.WE2E
open Atree St

variable {σ : Type}

def effOp (content : SlabID → Option σ) : Eff → List (Op σ)
  | .alloc addr _ => [.genID addr]
  | .store id =>
    match content id with
    | some v => [.store id v]
    | none => []
  | .remove id => [.remove id]

/-- events with their own content snapshot -/
def effOpsI (EC : List (Eff × (SlabID → Option σ))) : List (Op σ) :=
  EC.flatMap (fun p => effOp p.2 p.1)

/-- all events with the final content -/
def effOps (content : SlabID → Option σ) (E : List Eff) : List (Op σ) :=
  E.flatMap (effOp content)

variable {β : Type}

def applyEffsI (c : Codec σ β) (s : St σ β) (EC : List (Eff × (SlabID → Option σ))) :
    St σ β :=
  St.run c s (effOpsI EC)

def applyEffs (c : Codec σ β) (s : St σ β) (content : SlabID → Option σ)
    (E : List Eff) : St σ β :=
  St.run c s (effOps content E)

/-- the entry a log with snapshots leaves in `deltas` for `id` (`none` = it does not touch `id`) -/
def writeStep (id : SlabID) (acc : Option (Option σ))
    (p : Eff × (SlabID → Option σ)) : Option (Option σ) :=
  match p.1 with
  | .store i =>
    if i = id then
      match p.2 id with
      | some v => some (some v)
      | none => acc
    else acc
  | .remove i => if i = id then some none else acc
  | .alloc _ _ => acc

def lastWrite (EC : List (Eff × (SlabID → Option σ))) (id : SlabID) : Option (Option σ) :=
  EC.foldl (writeStep id) none

/-- number of `GenerateSlabID(addr)` calls in a log -/
def allocCount (addr : Nat) (E : List Eff) : Nat :=
  (E.filter (fun e => match e with | .alloc a _ => a == addr | _ => false)).length




/-! ### one event -/

theorem run_append (c : Codec σ β) (s : St σ β) (o1 o2 : List (Op σ)) :
    St.run c s (o1 ++ o2) = St.run c (St.run c s o1) o2 := by
  simp [St.run, List.foldl_append]

theorem effOpsI_cons (p : Eff × (SlabID → Option σ)) (EC : List (Eff × (SlabID → Option σ))) :
    effOpsI (p :: EC) = effOp p.2 p.1 ++ effOpsI EC := by
  simp [effOpsI]

theorem effOps_eq_effOpsI (content : SlabID → Option σ) (E : List Eff) :
    effOps content E = effOpsI (E.map (fun e => (e, content))) := by
  simp [effOps, effOpsI, List.flatMap_map]

theorem applyEffs_eq_applyEffsI (c : Codec σ β) (s : St σ β)
    (content : SlabID → Option σ) (E : List Eff) :
    applyEffs c s content E = applyEffsI c s (E.map (fun e => (e, content))) := by
  simp [applyEffs, applyEffsI, effOps_eq_effOpsI]

/-- the effect of one event on the write set entry of `id`, and on the rest of the state -/
theorem run_effOp (c : Codec σ β) (s : St σ β) (p : Eff × (SlabID → Option σ))
    (id : SlabID) (hid : id ≠ SlabID.undef) :
    AList.find? (St.run c s (effOp p.2 p.1)).deltas id = writeStep id (AList.find? s.deltas id) p ∧
    (St.run c s (effOp p.2 p.1)).cache = s.cache ∧ (St.run c s (effOp p.2 p.1)).base = s.base := by
  obtain ⟨e, cf⟩ := p
  cases e with
  | alloc a g =>
    by_cases ha : a = 0 <;> simp [effOp, St.run, St.step, St.generateSlabID, writeStep, ha]
  | store i =>
    simp only [effOp, writeStep]
    cases hcf : cf i with
    | none =>
      by_cases hi : i = id
      · subst hi; simp [St.run, hcf]
      · simp [St.run, hi]
    | some v =>
      by_cases hu : i = SlabID.undef
      · subst hu
        have hi : ¬ SlabID.undef = id := fun e => hid e.symm
        simp [St.run, St.step, St.store, hi]
      · by_cases hi : i = id
        · subst hi
          simp [St.run, St.step, St.store, hu, AList.find?_insert, hcf]
        · simp [St.run, St.step, St.store, hu, AList.find?_insert, hi]
  | remove i =>
    simp only [effOp, writeStep]
    by_cases hu : i = SlabID.undef
    · subst hu
      have hi : ¬ SlabID.undef = id := fun e => hid e.symm
      simp [St.run, St.step, St.remove, hi]
    · by_cases hi : i = id
      · subst hi
        simp [St.run, St.step, St.remove, hu, AList.find?_insert]
      · simp [St.run, St.step, St.remove, hu, AList.find?_insert, hi]

/-- the allocation counters after one event -/
theorem run_effOp_alloc (c : Codec σ β) (s : St σ β) (p : Eff × (SlabID → Option σ))
    (addr : Nat) (haddr : addr ≠ 0) :
    (AList.find? (St.run c s (effOp p.2 p.1)).alloc addr).getD 0 =
      (AList.find? s.alloc addr).getD 0 + allocCount addr [p.1] := by
  obtain ⟨e, cf⟩ := p
  cases e with
  | alloc a g =>
    by_cases ha : a = 0
    · have : ¬ (0 = addr) := fun e => haddr e.symm
      simp [effOp, St.run, St.step, St.generateSlabID, ha, allocCount, this]
    · by_cases h : a = addr
      · subst h
        simp [effOp, St.run, St.step, St.generateSlabID, ha, allocCount, AList.find?_insert]
      · simp [effOp, St.run, St.step, St.generateSlabID, ha, allocCount, AList.find?_insert, h]
  | store i =>
    simp only [effOp, allocCount]
    cases hcf : cf i with
    | none => simp [St.run]
    | some v =>
      by_cases hu : i = SlabID.undef <;> simp [St.run, St.step, St.store, hu]
  | remove i =>
    simp only [effOp, allocCount]
    by_cases hu : i = SlabID.undef <;> simp [St.run, St.step, St.remove, hu]

/-! ### a whole log -/

theorem run_effOpsI (c : Codec σ β) (id : SlabID) (hid : id ≠ SlabID.undef) :
    ∀ (EC : List (Eff × (SlabID → Option σ))) (s : St σ β),
    AList.find? (applyEffsI c s EC).deltas id = EC.foldl (writeStep id) (AList.find? s.deltas id) ∧
    (applyEffsI c s EC).cache = s.cache ∧ (applyEffsI c s EC).base = s.base
  | [], s => ⟨rfl, rfl, rfl⟩
  | p :: EC, s => by
    unfold applyEffsI
    rw [effOpsI_cons, run_append]
    obtain ⟨h1, h2, h3⟩ := run_effOp c s p id hid
    obtain ⟨g1, g2, g3⟩ := run_effOpsI c id hid EC (St.run c s (effOp p.2 p.1))
    unfold applyEffsI at g1 g2 g3
    refine ⟨?_, g2.trans h2, g3.trans h3⟩
    rw [g1, h1, List.foldl_cons]

theorem allocCount_append (addr : Nat) (E1 E2 : List Eff) :
    allocCount addr (E1 ++ E2) = allocCount addr E1 + allocCount addr E2 := by
  simp [allocCount, List.filter_append]

theorem allocCount_cons (addr : Nat) (e : Eff) (E : List Eff) :
    allocCount addr (e :: E) = allocCount addr [e] + allocCount addr E :=
  allocCount_append addr [e] E

theorem run_effOpsI_alloc (c : Codec σ β) (addr : Nat) (haddr : addr ≠ 0) :
    ∀ (EC : List (Eff × (SlabID → Option σ))) (s : St σ β),
    (AList.find? (applyEffsI c s EC).alloc addr).getD 0 =
      (AList.find? s.alloc addr).getD 0 + allocCount addr (EC.map (·.1))
  | [], s => by simp [applyEffsI, effOpsI, St.run, allocCount]
  | p :: EC, s => by
    unfold applyEffsI
    rw [effOpsI_cons, run_append]
    have h1 := run_effOp_alloc c s p addr haddr
    have g1 := run_effOpsI_alloc c addr haddr EC (St.run c s (effOp p.2 p.1))
    unfold applyEffsI at g1
    have h2 := allocCount_cons addr p.1 (EC.map (·.1))
    rw [g1, h1, List.map_cons]
    omega

/-- `writeStep` either keeps the accumulator or overrides it with a value that does not depend on it -/
theorem foldl_writeStep (id : SlabID) (EC : List (Eff × (SlabID → Option σ)))
    (acc : Option (Option σ)) :
    EC.foldl (writeStep id) acc = (match lastWrite EC id with | some w => some w | none => acc) := by
  unfold lastWrite
  induction EC generalizing acc with
  | nil => rfl
  | cons p EC ih =>
    simp only [List.foldl_cons]
    rw [ih (writeStep id acc p), ih (writeStep id none p)]
    cases hl : List.foldl (writeStep id) none EC with
    | some w => rfl
    | none =>
      simp only
      obtain ⟨e, cf⟩ := p
      cases e with
      | alloc a g => simp [writeStep]
      | store i =>
        simp only [writeStep]
        split
        · split <;> rfl
        · rfl
      | remove i =>
        simp only [writeStep]
        split <;> rfl

/-- LAST WRITE WINS: the pending entry of `id` after a log. -/
theorem find?_deltas_applyEffsI (c : Codec σ β) (s : St σ β)
    (EC : List (Eff × (SlabID → Option σ))) (id : SlabID) (hid : id ≠ SlabID.undef) :
    AList.find? (applyEffsI c s EC).deltas id =
      (match lastWrite EC id with | some w => some w | none => AList.find? s.deltas id) := by
  rw [(run_effOpsI c id hid EC s).1, foldl_writeStep]

/-- the view of `id` after a log -/
theorem view_applyEffsI (c : Codec σ β) (s : St σ β)
    (EC : List (Eff × (SlabID → Option σ))) (id : SlabID) (hid : id ≠ SlabID.undef) :
    (applyEffsI c s EC).view c id = (match lastWrite EC id with | some w => w | none => s.view c id) := by
  have hD := find?_deltas_applyEffsI c s EC id hid
  obtain ⟨_, hc, hb⟩ := run_effOpsI c id hid EC s
  unfold St.view
  rw [hc, hb, hD]
  cases lastWrite EC id with
  | some w => rfl
  | none => rfl

/-! ### the final-content version -/

/-- relation between the last write of the final-content version and the last action -/
theorem lastWrite_final (content : SlabID → Option σ) (E : List Eff) (id : SlabID)
    (hwf : lastAction E id = some true → (content id).isSome) :
    lastWrite (E.map (fun e => (e, content))) id =
      (match lastAction E id with
       | some true => some (content id)
       | some false => some none
       | none => none) := by
  cases hcf : content id with
  | some v =>
    -- nothing is skipped for `id`
    have key : ∀ (E : List Eff) (aw : Option (Option σ)) (aa : Option Bool),
        aw = (match aa with | some true => some (some v) | some false => some none | none => none) →
        (E.map (fun e => (e, content))).foldl (writeStep id) aw =
          (match E.foldl (actStep id) aa with
           | some true => some (some v) | some false => some none | none => none) := by
      intro E
      induction E with
      | nil => intro aw aa h; simpa using h
      | cons e E ih =>
        intro aw aa h
        simp only [List.map_cons, List.foldl_cons]
        apply ih
        cases e with
        | alloc a g => simpa [writeStep, actStep] using h
        | store i =>
          simp only [writeStep, actStep]
          by_cases hi : i = id
          · subst hi; simp [hcf]
          · simpa [hi] using h
        | remove i =>
          simp only [writeStep, actStep]
          by_cases hi : i = id
          · subst hi; simp
          · simpa [hi] using h
    have := key E none none rfl
    unfold lastWrite
    rw [this, ← lastAction_eq]
  | none =>
    -- every store of `id` is skipped; the last action is not a store
    have key : ∀ (E : List Eff) (aw : Option (Option σ)) (aa : Option Bool),
        (aa = none → aw = none) → (aa = some false → aw = some none) →
        (E.foldl (actStep id) aa = none →
          (E.map (fun e => (e, content))).foldl (writeStep id) aw = none) ∧
        (E.foldl (actStep id) aa = some false →
          (E.map (fun e => (e, content))).foldl (writeStep id) aw = some none) := by
      intro E
      induction E with
      | nil => intro aw aa h1 h2; exact ⟨h1, h2⟩
      | cons e E ih =>
        intro aw aa h1 h2
        simp only [List.map_cons, List.foldl_cons]
        apply ih
        · cases e with
          | alloc a g => simpa [writeStep, actStep] using h1
          | store i =>
            simp only [writeStep, actStep]
            by_cases hi : i = id
            · subst hi; simp
            · simpa [hi] using h1
          | remove i =>
            simp only [writeStep, actStep]
            by_cases hi : i = id
            · subst hi; simp
            · simpa [hi] using h1
        · cases e with
          | alloc a g => simpa [writeStep, actStep] using h2
          | store i =>
            simp only [writeStep, actStep]
            by_cases hi : i = id
            · subst hi; simp
            · simpa [hi] using h2
          | remove i =>
            simp only [writeStep, actStep]
            by_cases hi : i = id
            · subst hi; simp
            · simpa [hi] using h2
    obtain ⟨k1, k2⟩ := key E none none (fun _ => rfl) (fun h => by cases h)
    rw [← lastAction_eq] at k1 k2
    unfold lastWrite
    cases hl : lastAction E id with
    | none => exact k1 hl
    | some b =>
      cases b with
      | false => exact k2 hl
      | true =>
        have := hwf hl
        rw [hcf] at this
        cases this

/-- the view of `id` after a log run with the final content -/
theorem view_applyEffs (c : Codec σ β) (s : St σ β) (content : SlabID → Option σ)
    (E : List Eff) (id : SlabID) (hid : id ≠ SlabID.undef)
    (hwf : lastAction E id = some true → (content id).isSome) :
    (applyEffs c s content E).view c id =
      (match lastAction E id with
       | some true => content id
       | some false => none
       | none => s.view c id) := by
  rw [applyEffs_eq_applyEffsI, view_applyEffsI c s _ id hid, lastWrite_final content E id hwf]
  cases lastAction E id with
  | none => rfl
  | some b => cases b <;> rfl

/-- nothing is ever filed under the undefined identifier -/
theorem find?_deltas_undef (c : Codec σ β) :
    ∀ (EC : List (Eff × (SlabID → Option σ))) (s : St σ β),
    AList.find? (applyEffsI c s EC).deltas SlabID.undef = AList.find? s.deltas SlabID.undef
  | [], _ => rfl
  | p :: EC, s => by
    unfold applyEffsI
    rw [effOpsI_cons, run_append]
    have ih := find?_deltas_undef c EC (St.run c s (effOp p.2 p.1))
    unfold applyEffsI at ih
    rw [ih]
    obtain ⟨e, cf⟩ := p
    cases e with
    | alloc a g =>
      by_cases ha : a = 0 <;> simp [effOp, St.run, St.step, St.generateSlabID, ha]
    | store i =>
      simp only [effOp]
      cases hcf : cf i with
      | none => simp [St.run]
      | some v =>
        by_cases hu : i = SlabID.undef
        · simp [St.run, St.step, St.store, hu]
        · simp [St.run, St.step, St.store, hu, AList.find?_insert]
    | remove i =>
      simp only [effOp]
      by_cases hu : i = SlabID.undef
      · simp [St.run, St.step, St.remove, hu]
      · simp [St.run, St.step, St.remove, hu, AList.find?_insert]

/-- the pending entry of `id` after a log run with the final content -/
theorem find?_deltas_applyEffs (c : Codec σ β) (s : St σ β) (content : SlabID → Option σ)
    (E : List Eff) (id : SlabID) (hid : id ≠ SlabID.undef)
    (hwf : lastAction E id = some true → (content id).isSome) :
    AList.find? (applyEffs c s content E).deltas id =
      (match lastAction E id with
       | some true => some (content id)
       | some false => some none
       | none => AList.find? s.deltas id) := by
  rw [applyEffs_eq_applyEffsI, find?_deltas_applyEffsI c s _ id hid, lastWrite_final content E id hwf]
  cases lastAction E id with
  | none => rfl
  | some b => cases b <;> rfl

theorem find?_deltas_applyEffs_undef (c : Codec σ β) (s : St σ β)
    (content : SlabID → Option σ) (E : List Eff) :
    AList.find? (applyEffs c s content E).deltas SlabID.undef = AList.find? s.deltas SlabID.undef := by
  rw [applyEffs_eq_applyEffsI]; exact find?_deltas_undef c _ s

theorem applyEffs_frame (c : Codec σ β) (s : St σ β) (content : SlabID → Option σ)
    (E : List Eff) : (applyEffs c s content E).cache = s.cache ∧ (applyEffs c s content E).base = s.base := by
  rw [applyEffs_eq_applyEffsI]
  have := run_effOpsI c ⟨1, 1⟩ (by decide) (E.map (fun e => (e, content))) s
  exact ⟨this.2.1, this.2.2⟩

theorem applyEffs_alloc (c : Codec σ β) (s : St σ β) (content : SlabID → Option σ)
    (E : List Eff) (addr : Nat) (haddr : addr ≠ 0) :
    (AList.find? (applyEffs c s content E).alloc addr).getD 0 =
      (AList.find? s.alloc addr).getD 0 + allocCount addr E := by
  rw [applyEffs_eq_applyEffsI, run_effOpsI_alloc c addr haddr]
  simp [Function.comp_def]

theorem applyEffs_inv (c : Codec σ β) (hc : RoundTrip c) (s : St σ β)
    (content : SlabID → Option σ) (E : List Eff) (h : Inv c s) :
    Inv c (applyEffs c s content E) := inv_run c hc _ s h

theorem applyEffs_append (c : Codec σ β) (s : St σ β) (content : SlabID → Option σ)
    (E1 E2 : List Eff) :
    applyEffs c s content (E1 ++ E2) = applyEffs c (applyEffs c s content E1) content E2 := by
  simp [applyEffs, effOps, List.flatMap_append, run_append]

/-- the storage operations of a log contain no commit -/
theorem effOps_no_commit (content : SlabID → Option σ) (E : List Eff) :
    ∀ op ∈ effOps content E, Op.isCommit op = false := by
  intro op hop
  simp only [effOps, List.mem_flatMap] at hop
  obtain ⟨e, _, he⟩ := hop
  cases e with
  | alloc a g => simp [effOp] at he; subst he; rfl
  | store i =>
    simp only [effOp] at he
    split at he
    · simp at he; subst he; rfl
    · simp at he
  | remove i => simp [effOp] at he; subst he; rfl

/-! ### intermediate contents: same final state -/

/-- LAST WRITE WINS, both versions: if a log is run with per-event content snapshots such that,
    for every identifier, the last write agrees with the final-content version (i.e. the snapshot
    at the last store event of the identifier holds its final content), the resulting storage
    states agree: same pending entry for every identifier, same cache, same ledger, same
    allocation counters. -/
theorem applyEffsI_eq_applyEffs (c : Codec σ β) (s : St σ β)
    (content : SlabID → Option σ) (EC : List (Eff × (SlabID → Option σ)))
    (hlast : ∀ id, lastWrite EC id = lastWrite ((EC.map (·.1)).map (fun e => (e, content))) id) :
    (∀ id, id ≠ SlabID.undef →
      AList.find? (applyEffsI c s EC).deltas id =
        AList.find? (applyEffs c s content (EC.map (·.1))).deltas id) ∧
    (∀ id, id ≠ SlabID.undef →
      (applyEffsI c s EC).view c id = (applyEffs c s content (EC.map (·.1))).view c id) ∧
    (applyEffsI c s EC).cache = (applyEffs c s content (EC.map (·.1))).cache ∧
    (applyEffsI c s EC).base = (applyEffs c s content (EC.map (·.1))).base ∧
    (∀ addr, addr ≠ 0 → (AList.find? (applyEffsI c s EC).alloc addr).getD 0 =
      (AList.find? (applyEffs c s content (EC.map (·.1))).alloc addr).getD 0) := by
  refine ⟨?_, ?_, ?_, ?_, ?_⟩
  · intro id hid
    rw [applyEffs_eq_applyEffsI, find?_deltas_applyEffsI c s EC id hid,
      find?_deltas_applyEffsI c s _ id hid, hlast id]
  · intro id hid
    rw [applyEffs_eq_applyEffsI, view_applyEffsI c s EC id hid, view_applyEffsI c s _ id hid, hlast id]
  · rw [(applyEffs_frame c s content _).1]
    exact (run_effOpsI c ⟨1, 1⟩ (by decide) EC s).2.1
  · rw [(applyEffs_frame c s content _).2]
    exact (run_effOpsI c ⟨1, 1⟩ (by decide) EC s).2.2
  · intro addr haddr
    rw [applyEffs_alloc c s content _ addr haddr, run_effOpsI_alloc c addr haddr]

/-- A sufficient condition for `hlast`, event by event: scanning the log from the end, the first
    store/remove event of `id` met is a remove, or a store whose snapshot holds the final content
    of `id` (which exists); or there is no such event. -/
def LastOk (content : SlabID → Option σ) (id : SlabID) :
    List (Eff × (SlabID → Option σ)) → Prop
  | [] => True
  | p :: rest =>
    -- `rest` is the part of the log BEFORE `p` (the list is scanned in reverse)
    match p.1 with
    | .store i => if i = id then (p.2 id = content id ∧ (content id).isSome) else LastOk content id rest
    | .remove i => if i = id then True else LastOk content id rest
    | .alloc _ _ => LastOk content id rest

theorem lastWrite_concat (EC : List (Eff × (SlabID → Option σ)))
    (p : Eff × (SlabID → Option σ)) (id : SlabID) :
    lastWrite (EC ++ [p]) id = writeStep id (lastWrite EC id) p := by
  simp [lastWrite, List.foldl_append]

theorem lastWrite_of_lastOk (content : SlabID → Option σ) (id : SlabID) :
    ∀ (R : List (Eff × (SlabID → Option σ))), LastOk content id R →
      lastWrite R.reverse id = lastWrite ((R.reverse.map (·.1)).map (fun e => (e, content))) id
  | [], _ => rfl
  | p :: R, h => by
    simp only [List.reverse_cons, List.map_append, List.map_cons, List.map_nil]
    rw [lastWrite_concat, lastWrite_concat]
    obtain ⟨e, cf⟩ := p
    cases e with
    | alloc a g =>
      simp only [writeStep]
      exact lastWrite_of_lastOk content id R h
    | store i =>
      simp only [LastOk] at h
      simp only [writeStep]
      by_cases hi : i = id
      · subst hi
        simp only [if_true] at h ⊢
        obtain ⟨h1, h2⟩ := h
        rw [h1]
        cases hcf : content i with
        | none => rw [hcf] at h2; cases h2
        | some v => rfl
      · simp only [hi, if_false] at h ⊢
        exact lastWrite_of_lastOk content id R h
    | remove i =>
      simp only [LastOk] at h
      simp only [writeStep]
      by_cases hi : i = id
      · subst hi; simp
      · simp only [hi, if_false] at h ⊢
        exact lastWrite_of_lastOk content id R h


end Atree.WE2E
