import AtreeProofs.World.OpsMap
import AtreeProofs.Props.C05
import AtreeProofs.Props.C02
/-
  The operations that do not change the content of a container: `newArr` / `newMap`, `arrGet` /
  `mapGet` (the lookup installs the closure), `reopen`, `setType`.
-/
namespace Atree
open Gen

namespace World

variable {D : SlabID → DigestFn 4}

/-! ### a new standalone container -/

/-- a fresh, empty, standalone container is added under an ID that nobody knows -/
theorem step_new {w w' : World} {ctr ctr' : Nat} {rank : SlabID → Nat} (H : WorldOkGen D rank none (fun _ => False) w ctr)
    {id : SlabID} {c : Cont} (hid : id.idx = ctr + 1) (haddr : id.addr = w.addr) (hvid : c.vid = id)
    (hok : ContOk w.T (D id) ctr' c) (hni : c.isInlined = false) (hempty : c.storedElems = []) (hctr : ctr + 1 ≤ ctr')
    (hT : w'.T = w.T) (ha : w'.addr = w.addr) (hh : w'.hinfo = w.hinfo) (hm : w'.mutIdx = w.mutIdx)
    (hc : w'.cont? id = some c) (hco : ∀ z, z ≠ id → w'.cont? z = w.cont? z) :
    WorldOkGen D rank none (fun _ => False) w' ctr' := by
  have hfresh : w.cont? id = none := by
    cases h : w.cont? id with
    | none => rfl
    | some c0 =>
      have := (H.conts id c0 h).vid_le
      rw [H.ids id c0 h] at this
      omega
  have hnoref : ∀ q qc, w.cont? q = some qc → Pay.ref id ∉ qc.pays := by
    intro q qc hq hm'
    have := H.below q qc hq id hm'
    omega
  have hidx : ∀ q, w'.idxOf q = w.idxOf q := fun q => by simp [World.idxOf, hm]
  have hpays : c.pays = [] := by rw [Cont.pays, hempty]; rfl
  have hslots : c.slots w.T = [] := by
    have := Cont.slots_length w.T c
    rw [hempty] at this
    exact List.eq_nil_of_length_eq_zero this
  have holds : ∀ q x, Holds w' q x → Holds w q x := by
    intro q x ⟨qc, hqc, hm'⟩
    by_cases hq : q = id
    · subst hq; rw [hc] at hqc; cases hqc; rw [hpays] at hm'; cases hm'
    · exact ⟨qc, by rw [← hco q hq]; exact hqc, hm'⟩
  have hCA : ∀ x hi lim e, ClosureAt w' x hi lim e → ClosureAt w x hi lim e := by
    intro x hi lim e hca
    rcases hca with ⟨pa, i, hpa, hi2, hge, hpay, hlim⟩ | ⟨pm, k, hpm, hk, hmem, hpay, hlim⟩
    · by_cases hp : hi.parent = id
      · rw [hp, hc] at hpa; cases hpa
        have : (Cont.arr pa).storedElems = [] := hempty
        rw [Cont.storedElems] at this
        rw [this] at hge; cases hge
      · exact Or.inl ⟨pa, i, by rw [← hco _ hp]; exact hpa, by rw [← hidx]; exact hi2, hge, hpay, by rw [hlim, hT]⟩
    · by_cases hp : hi.parent = id
      · rw [hp, hc] at hpm; cases hpm
        have : (Cont.map pm).storedElems = [] := hempty
        rw [Cont.storedElems] at this
        have hnil : pm.toList = [] := by simpa using this
        rw [hnil] at hmem; cases hmem
      · exact Or.inr ⟨pm, k, by rw [← hco _ hp]; exact hpm, hk, hmem, hpay, by rw [hlim, hT]⟩
  refine ⟨by rw [hT]; exact H.legal, ?_, ?_, ?_, ?_, ?_, ?_, ?_, ?_, ?_, ?_, ?_, ?_, ?_⟩
  · intro z cz hz
    by_cases hzi : z = id
    · subst hzi; rw [hc] at hz; cases hz; exact hvid
    · rw [hco z hzi] at hz; exact H.ids z cz hz
  · intro z cz hz
    rw [ha]
    by_cases hzi : z = id
    · subst hzi; exact haddr
    · rw [hco z hzi] at hz; exact H.addr z cz hz
  · intro z cz hz
    rw [hT]
    by_cases hzi : z = id
    · subst hzi; rw [hc] at hz; cases hz; exact hok
    · rw [hco z hzi] at hz; exact (H.conts z cz hz).mono (by omega)
  · intro q qc hq le hle x cx hx hcx
    rw [hT] at hle
    by_cases hqi : q = id
    · subst hqi; rw [hc] at hq; cases hq; rw [hslots] at hle; cases hle
    · rw [hco q hqi] at hq
      have hxi : x ≠ id := by
        intro he; subst he
        exact hnoref q qc hq (by
          obtain ⟨j, hj⟩ := List.mem_iff_getElem?.mp hle
          have := Cont.slot_pay hj
          rw [hx] at this
          exact List.mem_of_getElem? this)
      rw [hco x hxi] at hcx
      obtain ⟨wr, h1, h2, h3, h4⟩ := H.slots q qc hq le hle x cx hx hcx
      refine ⟨wr, h1, h2, h3, ?_⟩
      intro hi hO hhi hca
      rw [hh] at hhi
      exact h4 hi hO hhi (hCA x hi _ _ hca)
  · intro z cz hz hi
    rw [hT]
    by_cases hzi : z = id
    · subst hzi; rw [hc] at hz; cases hz; rw [hni] at hi; cases hi
    · rw [hco z hzi] at hz; exact H.band z cz hz hi
  · intro q q' qc qc' i j x hq hq' hi hj hx
    have hqi : q ≠ id := by
      intro he; subst he; rw [hc] at hq; cases hq; rw [hpays] at hi; cases hi
    have hqi' : q' ≠ id := by
      intro he; subst he; rw [hc] at hq'; cases hq'; rw [hpays] at hj; cases hj
    rw [hco q hqi] at hq
    rw [hco q' hqi'] at hq'
    have hxi : x ≠ id := fun he => hnoref q qc hq (by rw [← he]; exact List.mem_of_getElem? hi)
    rw [hco x hxi] at hx
    exact H.unique q q' qc qc' i j x hq hq' hi hj hx
  · intro z cz hz hi hO
    by_cases hzi : z = id
    · subst hzi; rw [hc] at hz; cases hz; rw [hni] at hi; cases hi
    · rw [hco z hzi] at hz
      obtain ⟨q, qc, hqc, hm'⟩ := H.inlRef z cz hz hi hO
      have hqi : q ≠ id := by intro he; rw [he, hfresh] at hqc; cases hqc
      exact ⟨q, qc, by rw [hco q hqi]; exact hqc, hm'⟩
  · intro q a hq x i hi hO
    rw [hidx] at hi
    obtain ⟨_, a0, ha0⟩ := H.idxLive q x i hi
    have hqi : q ≠ id := by intro he; rw [he, hfresh] at ha0; cases ha0
    rw [hco q hqi] at hq
    exact H.mutIdx q a hq x i hi hO
  · intro x hi hx
    rw [hh] at hx
    obtain ⟨c1, c2⟩ := H.closure x hi hx
    have hp : hi.parent ≠ id := by
      intro hp
      have := H.hinfoLive x hi hx
      rw [hp, hfresh] at this; cases this
    refine ⟨fun pa hpa => ?_, fun pm k hpm hk => ?_⟩
    · rw [hT]; rw [hco _ hp] at hpa; exact c1 pa hpa
    · rw [hT]; rw [hco _ hp] at hpm; exact c2 pm k hpm hk
  · intro q x hq hx
    have hxi : x ≠ id := by
      intro he; subst he
      obtain ⟨qc, hqc, hm'⟩ := holds q x hq
      exact hnoref q qc hqc hm'
    rw [hco x hxi] at hx
    exact H.rank q x (holds q x hq) hx
  · intro q qc hq r hr
    by_cases hqi : q = id
    · subst hqi; rw [hc] at hq; cases hq; rw [hpays] at hr; cases hr
    · rw [hco q hqi] at hq
      have := H.below q qc hq r hr
      omega
  · intro q x i hi
    rw [hidx] at hi
    obtain ⟨h1, a0, ha0⟩ := H.idxLive q x i hi
    have hqi : q ≠ id := by intro he; rw [he, hfresh] at ha0; cases ha0
    have hxi : x ≠ id := by intro he; rw [he, hfresh] at h1; cases h1
    exact ⟨by rw [hco x hxi]; exact h1, a0, by rw [hco q hqi]; exact ha0⟩
  · intro x hi hx
    rw [hh] at hx
    have := H.hinfoLive x hi hx
    have hp : hi.parent ≠ id := by intro hp; rw [hp, hfresh] at this; cases this
    rw [hco _ hp]; exact this

theorem newArr_ok {w : World} {ty : Nat} {cx : Ctx} (H : WorldOk D w cx.ctr) :
    WorldOk D (w.newArr ty cx).2.1 (w.newArr ty cx).2.2.ctr ∧ (w.newArr ty cx).2.2.ctr = cx.ctr + 1 ∧
      w.cont? (w.newArr ty cx).1 = none ∧
      (∃ a, (w.newArr ty cx).2.1.cont? (w.newArr ty cx).1 = some (.arr a) ∧ a.toList = [] ∧ a.isInlined = false) ∧
      (∀ z, z ≠ (w.newArr ty cx).1 → (w.newArr ty cx).2.1.cont? z = w.cont? z) ∧
      HandleOk (w.newArr ty cx).2.1 (w.newArr ty cx).1 := by
  obtain ⟨rank0, H0⟩ := H
  have hinv := C05.inv_new w.T w.addr ty cx H0.legal
  have hfresh : w.cont? ⟨w.addr, cx.ctr + 1⟩ = none := by
    cases h : w.cont? ⟨w.addr, cx.ctr + 1⟩ with
    | none => rfl
    | some c0 =>
      have := (H0.conts _ c0 h).vid_le
      rw [H0.ids _ c0 h] at this
      simp only at this
      omega
  have H1 : WorldOkGen D rank0 none (fun _ => False) (w.newArr ty cx).2.1 (cx.ctr + 1) :=
    step_new (id := ⟨w.addr, cx.ctr + 1⟩) (c := .arr (Arr.new w.addr ty cx).1) H0 rfl rfl rfl (ArrOk.of_inv hinv) rfl rfl
      (Nat.le_refl _) rfl rfl rfl rfl (cont?_setCont_self _ _ _) (fun z hz => cont?_setCont_ne _ _ _ _ hz)
  refine ⟨⟨rank0, H1⟩, rfl, hfresh, ⟨_, cont?_setCont_self _ _ _, rfl, rfl⟩,
    fun z hz => cont?_setCont_ne _ _ _ _ hz, HandleOk.root _ ?_⟩
  intro q hq
  obtain ⟨qc, hqc, hm⟩ := hq
  by_cases hqi : q = ⟨w.addr, cx.ctr + 1⟩
  · subst hqi
    have : qc = .arr (Arr.new w.addr ty cx).1 := by
      have h2 : (w.newArr ty cx).2.1.cont? ⟨w.addr, cx.ctr + 1⟩ = some (.arr (Arr.new w.addr ty cx).1) :=
        cont?_setCont_self _ _ _
      rw [h2] at hqc; cases hqc; rfl
    subst this
    cases hm
  · have h2 : (w.newArr ty cx).2.1.cont? q = w.cont? q := cont?_setCont_ne _ _ _ _ hqi
    rw [h2] at hqc
    have := H0.below q qc hqc _ hm
    simp [World.newArr, Arr.new, Arr.rootID, Arr.rootHdr, ATree.hdr, Ctx.alloc] at this
    omega

theorem newMap_ok {w : World} {ty seed : Nat} {cx : Ctx} (H : WorldOk D w cx.ctr) :
    WorldOk D (w.newMap ty seed cx).2.1 (w.newMap ty seed cx).2.2.ctr ∧ (w.newMap ty seed cx).2.2.ctr = cx.ctr + 1 ∧
      w.cont? (w.newMap ty seed cx).1 = none ∧
      (∃ m, (w.newMap ty seed cx).2.1.cont? (w.newMap ty seed cx).1 = some (.map m) ∧ m.toList = [] ∧ m.isInlined = false) ∧
      (∀ z, z ≠ (w.newMap ty seed cx).1 → (w.newMap ty seed cx).2.1.cont? z = w.cont? z) ∧
      HandleOk (w.newMap ty seed cx).2.1 (w.newMap ty seed cx).1 := by
  obtain ⟨rank0, H0⟩ := H
  have hinv := (C02.inv_new (r := 3) w.T H0.legal (D ⟨w.addr, cx.ctr + 1⟩) w.addr ty (fun _ => seed) cx).1
  have hfresh : w.cont? ⟨w.addr, cx.ctr + 1⟩ = none := by
    cases h : w.cont? ⟨w.addr, cx.ctr + 1⟩ with
    | none => rfl
    | some c0 =>
      have := (H0.conts _ c0 h).vid_le
      rw [H0.ids _ c0 h] at this
      simp only at this
      omega
  have hctrok : MapCtrOk (OMap.new (r := 3) w.addr ty (fun _ => seed) cx).1 (cx.ctr + 1) := by
    intro id hid _
    simp only [OMap.new, CtxOk.mapSlabIds, Ctx.alloc, List.filterMap_nil, List.mem_singleton] at hid
    rw [hid]
    exact Nat.le_refl _
  have H1 : WorldOkGen D rank0 none (fun _ => False) (w.newMap ty seed cx).2.1 (cx.ctr + 1) :=
    step_new (id := ⟨w.addr, cx.ctr + 1⟩) (c := .map (OMap.new w.addr ty (fun _ => seed) cx).1) H0 rfl rfl rfl
      (MapOk.of_inv hinv hctrok) rfl rfl
      (Nat.le_refl _) rfl rfl rfl rfl (cont?_setCont_self _ _ _) (fun z hz => cont?_setCont_ne _ _ _ _ hz)
  refine ⟨⟨rank0, H1⟩, rfl, hfresh, ⟨_, cont?_setCont_self _ _ _, rfl, rfl⟩,
    fun z hz => cont?_setCont_ne _ _ _ _ hz, HandleOk.root _ ?_⟩
  intro q hq
  obtain ⟨qc, hqc, hm⟩ := hq
  by_cases hqi : q = ⟨w.addr, cx.ctr + 1⟩
  · subst hqi
    have : qc = .map (OMap.new w.addr ty (fun _ => seed) cx).1 := by
      have h2 : (w.newMap ty seed cx).2.1.cont? ⟨w.addr, cx.ctr + 1⟩
          = some (.map (OMap.new w.addr ty (fun _ => seed) cx).1) := cont?_setCont_self _ _ _
      rw [h2] at hqc; cases hqc; rfl
    subst this
    cases hm
  · have h2 : (w.newMap ty seed cx).2.1.cont? q = w.cont? q := cont?_setCont_ne _ _ _ _ hqi
    rw [h2] at hqc
    have := H0.below q qc hqc _ hm
    simp [World.newMap, OMap.new, OMap.rootID, OMap.rootHdr, MTree.hdr, Ctx.alloc] at this
    omega

/-! ### `reopen` -/

theorem reopen_ok {w : World} {ctr : Nat} (H : WorldOk D w ctr) :
    WorldOk D w.reopen ctr ∧ (∀ z, w.reopen.cont? z = w.cont? z) ∧
      (∀ z, (∀ q, ¬ Holds w q z) → HandleOk w.reopen z) := by
  obtain ⟨rank0, H0⟩ := H
  have H1 : WorldOkGen D rank0 none (fun _ => False) { w with hinfo := [] } ctr :=
    H0.hinfo_sub rfl rfl (fun _ => rfl) rfl (fun x hi hx => by cases hx)
  have H2 : WorldOkGen D rank0 none (fun _ => False) w.reopen ctr :=
    H1.idx_sub rfl rfl (fun _ => rfl) rfl (fun q z j hj => by
      simp [World.reopen, World.idxOf] at hj)
  exact ⟨⟨rank0, H2⟩, fun _ => rfl, fun z hz => HandleOk.root z (fun q hq => hz q hq)⟩

/-! ### `arrGet` / `mapGet` : the lookup installs the closure -/

theorem wrapDepth_slotSize (c : Cont) (wrap : Nat) (el : Elem) (h : el.size = slotSize c wrap) :
    wrapDepth c el = wrap := by
  simp only [wrapDepth, slotSize] at *
  rw [h]
  omega

theorem arrGet_ok {w : World} {p : SlabID} {i : Nat} {el : Elem} {w' : World} {ctr : Nat}
    (H : WorldOk D w ctr) (hhand : HandleOk w p) (h : w.arrGet p i = .ok (el, w')) :
    WorldOk D w' ctr ∧ (∀ z, w'.cont? z = w.cont? z) ∧
      (∃ a, w.cont? p = some (.arr a) ∧ a.toList[i]? = some el) ∧
      (∀ z, HandleOk w z → HandleOk w' z) ∧
      (∀ x, el.pay = .ref x → (w.cont? x).isSome → HandleOk w' x) := by
  obtain ⟨rank0, H0⟩ := H
  unfold arrGet at h
  split at h
  · rename_i a hpa
    have hpok : ArrOk w.T a ctr := H0.conts p _ hpa
    split at h
    · cases h
    · rename_i el' hget
      have hge := hpok.get_ok H0.legal hget
      split at h
      · rename_i vid hpay
        split at h
        · rename_i hnone
          cases h
          exact ⟨⟨rank0, H0⟩, fun _ => rfl, ⟨a, hpa, hge⟩, fun _ hz => hz,
            fun x hx hxs => by rw [hpay] at hx; cases hx; rw [hnone] at hxs; cases hxs⟩
        · rename_i c hc
          cases h
          have hks : ((Cont.arr a).kslots w.T)[i]? = some (none, maxInlineArr w.T, el) := by
            rw [Cont.kslots_arr]; exact ⟨el, hge, rfl⟩
          obtain ⟨wr, hb, hs, _, _⟩ := H0.slots p _ hpa (maxInlineArr w.T, el)
            (List.mem_of_getElem? (Cont.kslot_slot hks)) vid c hpay hc
          obtain ⟨hsz, _⟩ := hs (by intro h; cases h)
          have hwd := wrapDepth_slotSize c wr el hsz
          have H1 := H0.callback_arr (w' := w.setCallbackArr p i (.child vid (wrapDepth c el)))
            (hn := ⟨p, none, maxInlineArr w.T - 2 * wrapDepth c el, wrapDepth c el⟩) hpa hge hpay hc
            (by rw [hwd]; exact hsz) rfl rfl (T_setCallbackArr _ _ _ _) rfl (fun z => cont?_setCallbackArr _ _ _ _ _)
            (hinfo_setCallbackArr _ _ _ _ _) (idxOf_setCallbackArr _ _ _ _ _)
          have hpays : (Cont.arr a).pays[i]? = some (Pay.ref vid) := by
            rw [Cont.kslot_pay hks]; exact congrArg some hpay
          have hcur : CurKept w (w.setCallbackArr p i (.child vid (wrapDepth c el))) :=
            curKept_callback_arr (hn := ⟨p, none, maxInlineArr w.T - 2 * wrapDepth c el, wrapDepth c el⟩) hpa hpays rfl
              (T_setCallbackArr _ _ _ _) (fun z => cont?_setCallbackArr _ _ _ _ _)
              (hinfo_setCallbackArr _ _ _ _ _) (idxOf_setCallbackArr _ _ _ _ _)
              (fun hi' _ hcur' => closureCurrent_parent H0 ⟨_, hpa, List.mem_of_getElem? hpays⟩ (by rw [hc]; rfl) hcur')
          have htr : ∀ z, HandleOk w z → HandleOk (w.setCallbackArr p i (.child vid (wrapDepth c el))) z :=
            fun z hz => hz.transfer (fun q y hq => by
              obtain ⟨qc, hqc, hm⟩ := hq
              rw [cont?_setCallbackArr] at hqc
              exact ⟨qc, hqc, hm⟩) hcur
          refine ⟨⟨rank0, H1⟩, fun z => cont?_setCallbackArr _ _ _ _ _, ⟨a, hpa, hge⟩, htr, ?_⟩
          intro x hx _
          rw [hpay] at hx; cases hx
          refine HandleOk.child vid ⟨p, none, maxInlineArr w.T - 2 * wrapDepth c el, wrapDepth c el⟩
            (by rw [hinfo_setCallbackArr, if_pos rfl]) ?_ (htr p hhand)
          refine ⟨maxInlineArr w.T, el, Or.inl ⟨a, i, by rw [cont?_setCallbackArr]; exact hpa, ?_, hge, hpay, by simp⟩⟩
          rw [idxOf_setCallbackArr, if_pos ⟨rfl, rfl⟩]
      · rename_i hnot
        cases h
        exact ⟨⟨rank0, H0⟩, fun _ => rfl, ⟨a, hpa, hge⟩, fun _ hz => hz,
          fun x hx _ => absurd hx (hnot x)⟩
  · cases h

theorem mapGet_ok {w : World} {p : SlabID} {k : MKey} {el : Elem} {w' : World} {ctr : Nat}
    (H : WorldOk D w ctr) (hhand : HandleOk w p) (hk : KeyOk w.T 4 (D p) k) (h : w.mapGet p k = .ok (el, w')) :
    WorldOk D w' ctr ∧ (∀ z, w'.cont? z = w.cont? z) ∧
      (∃ m, w.cont? p = some (.map m) ∧ (k, el) ∈ m.toList) ∧
      (∀ z, HandleOk w z → HandleOk w' z) ∧
      (∀ x, el.pay = .ref x → (w.cont? x).isSome → HandleOk w' x) := by
  obtain ⟨rank0, H0⟩ := H
  unfold mapGet at h
  split at h
  · rename_i m hpm
    have hmok : MapOk w.T (D p) m ctr := H0.conts p _ hpm
    have hcfg := H0.cfgOk hpm
    split at h
    · cases h
    · rename_i k' el' hget
      obtain ⟨hkk, hmem⟩ := hmok.get_ok H0.legal hcfg hk hget
      subst hkk
      split at h
      · rename_i vid hpay
        split at h
        · rename_i hnone
          cases h
          exact ⟨⟨rank0, H0⟩, fun _ => rfl, ⟨m, hpm, hmem⟩, fun _ hz => hz,
            fun x hx hxs => by rw [hpay] at hx; cases hx; rw [hnone] at hxs; cases hxs⟩
        · rename_i c hc
          cases h
          obtain ⟨j, hj⟩ := List.mem_iff_getElem?.mp hmem
          have hks : ((Cont.map m).kslots w.T)[j]? = some (some k', maxInlineMapValue w.T k'.size, el) := by
            rw [Cont.kslots_map]; exact ⟨k', el, hj, rfl⟩
          obtain ⟨wr, hb, hs, _, _⟩ := H0.slots p _ hpm (maxInlineMapValue w.T k'.size, el)
            (List.mem_of_getElem? (Cont.kslot_slot hks)) vid c hpay hc
          obtain ⟨hsz, _⟩ := hs (by intro h; cases h)
          have hwd := wrapDepth_slotSize c wr el hsz
          have H1 := H0.callback_map (w' := w.setCallbackMap p k' (.child vid (wrapDepth c el)))
            (hn := ⟨p, some k', maxInlineMapValue w.T k'.size - 2 * wrapDepth c el, wrapDepth c el⟩) hpm hmem hc
            (fun _ => by rw [hwd]; exact hsz) (by rw [hwd]; exact hb) hk rfl rfl rfl
            (T_setCallbackMap _ _ _ _) rfl (fun z => cont?_setCallbackMap _ _ _ _ _) (mutIdx_setCallbackMap _ _ _ _)
            (hinfo_setCallbackMap _ _ _ _ _)
          have hholds : Holds w p vid := holds_of_kslot hpm hks hpay
          have hcur : CurKept w (w.setCallbackMap p k' (.child vid (wrapDepth c el))) :=
            curKept_callback_map (hn := ⟨p, some k', maxInlineMapValue w.T k'.size - 2 * wrapDepth c el, wrapDepth c el⟩)
              hpm hmem hpay rfl rfl (T_setCallbackMap _ _ _ _) (fun z => cont?_setCallbackMap _ _ _ _ _)
              (mutIdx_setCallbackMap _ _ _ _) (hinfo_setCallbackMap _ _ _ _ _)
              (fun hi' _ hcur' => closureCurrent_parent H0 hholds (by rw [hc]; rfl) hcur')
          have htr : ∀ z, HandleOk w z → HandleOk (w.setCallbackMap p k' (.child vid (wrapDepth c el))) z :=
            fun z hz => hz.transfer (fun q y hq => by
              obtain ⟨qc, hqc, hm⟩ := hq
              rw [cont?_setCallbackMap] at hqc
              exact ⟨qc, hqc, hm⟩) hcur
          refine ⟨⟨rank0, H1⟩, fun z => cont?_setCallbackMap _ _ _ _ _, ⟨m, hpm, hmem⟩, htr, ?_⟩
          intro x hx _
          rw [hpay] at hx; cases hx
          refine HandleOk.child vid ⟨p, some k', maxInlineMapValue w.T k'.size - 2 * wrapDepth c el, wrapDepth c el⟩
            (by rw [hinfo_setCallbackMap, if_pos rfl]) ?_ (htr p hhand)
          exact ⟨maxInlineMapValue w.T k'.size, el,
            Or.inr ⟨m, k', by rw [cont?_setCallbackMap]; exact hpm, rfl, hmem, hpay, by simp⟩⟩
      · rename_i hnot
        cases h
        exact ⟨⟨rank0, H0⟩, fun _ => rfl, ⟨m, hpm, hmem⟩, fun _ hz => hz,
          fun x hx _ => absurd hx (hnot x)⟩
  · cases h

/-! ### `setType` -/

/-- a container is replaced by one of the same form, size and data (only the type info differs) -/
theorem step_sameform {w w' : World} {ctr : Nat} {rank : SlabID → Nat} {stale : Option SlabID} {O : SlabID → Prop}
    (H : WorldOkGen D rank stale O w ctr) {v : SlabID} {c c1 : Cont} (hv : w.cont? v = some c)
    (hsd : Cont.SameData c c1) (hok : ContOk w.T (D v) ctr c1) (hinl : c1.isInlined = c.isInlined)
    (hsz : c1.rootSize = c.rootSize) (hable : ∀ lim, c1.inlinable lim = c.inlinable lim)
    (hT : w'.T = w.T) (ha : w'.addr = w.addr) (hh : w'.hinfo = w.hinfo) (hm : w'.mutIdx = w.mutIdx)
    (hc1 : w'.cont? v = some c1) (hco : ∀ z, z ≠ v → w'.cont? z = w.cont? z) :
    WorldOkGen D rank stale O w' ctr := by
  have hS : ContsSig w w' := by
    refine ⟨hT, fun q => ?_⟩
    by_cases hq : q = v
    · subst hq; rw [hc1, hv]; simp [hsd.sig_eq]
    · rw [hco q hq]
  have hidx : ∀ q, w'.idxOf q = w.idxOf q := fun q => by simp [World.idxOf, hm]
  have hslot : ∀ wr, slotSize c1 wr = slotSize c wr := by
    intro wr; simp only [slotSize, hinl, hsz]
  refine ⟨by rw [hT]; exact H.legal, ?_, ?_, ?_, ?_, ?_, hS.uniqueRef H.unique, ?_,
    hS.mutIdxOkX H.mutIdx (fun q x => by rw [hidx]),
    hS.closureOk H.closure (fun x hi hx => by rw [← hh]; exact hx), hS.cRank H.rank,
    hS.refsBelow H.below (Nat.le_refl _), hS.idxLive H.idxLive (fun q x i hi => by rw [hidx] at hi; exact hi),
    hS.hinfoLive H.hinfoLive (fun x hi hx => by rw [← hh]; exact hx)⟩
  · intro z cz hz
    by_cases hzv : z = v
    · subst hzv; rw [hc1] at hz; cases hz; rw [hsd.vid]; exact H.ids _ _ hv
    · rw [hco z hzv] at hz; exact H.ids z cz hz
  · intro z cz hz
    rw [ha]
    by_cases hzv : z = v
    · subst hzv; exact H.addr _ _ hv
    · rw [hco z hzv] at hz; exact H.addr z cz hz
  · intro z cz hz
    rw [hT]
    by_cases hzv : z = v
    · subst hzv; rw [hc1] at hz; cases hz; exact hok
    · rw [hco z hzv] at hz; exact H.conts z cz hz
  · intro q qc hq le hle x cx hx hcx
    rw [hT] at hle
    have hq' : ∃ qc0, w.cont? q = some qc0 ∧ le ∈ qc0.slots w.T := by
      by_cases hqv : q = v
      · subst hqv; rw [hc1] at hq; cases hq
        exact ⟨c, hv, by rw [← hsd.slots_eq]; exact hle⟩
      · rw [hco q hqv] at hq; exact ⟨qc, hq, hle⟩
    obtain ⟨qc0, hq0, hle0⟩ := hq'
    have hCA : ∀ hi, ClosureAt w' x hi le.1 le.2 → ClosureAt w x hi le.1 le.2 :=
      fun hi hca => (closureAt_sameData hv hsd hT hm hc1 hco _ _ _ _).mp hca
    by_cases hxv : x = v
    · subst hxv
      rw [hc1] at hcx; cases hcx
      obtain ⟨wr, h1, h2, h3, h4⟩ := H.slots q qc0 hq0 le hle0 x c hx hv
      refine ⟨wr, h1, fun hne => ?_, fun he hni => ?_, fun hi hO hhi hca => ?_⟩
      · obtain ⟨a1, a2⟩ := h2 hne
        exact ⟨by rw [hslot]; exact a1, by rw [hinl, hable]; exact a2⟩
      · rw [hslot]; exact h3 he (by rw [← hinl]; exact hni)
      · rw [hh] at hhi; exact h4 hi hO hhi (hCA hi hca)
    · rw [hco x hxv] at hcx
      obtain ⟨wr, h1, h2, h3, h4⟩ := H.slots q qc0 hq0 le hle0 x cx hx hcx
      refine ⟨wr, h1, h2, h3, fun hi hO hhi hca => ?_⟩
      rw [hh] at hhi; exact h4 hi hO hhi (hCA hi hca)
  · intro z cz hz hi
    rw [hT]
    by_cases hzv : z = v
    · subst hzv; rw [hc1] at hz; cases hz; rw [hsz]; exact H.band _ c hv (by rw [← hinl]; exact hi)
    · rw [hco z hzv] at hz; exact H.band z cz hz hi
  · intro z cz hz hi hO
    by_cases hzv : z = v
    · subst hzv
      rw [hc1] at hz; cases hz
      obtain ⟨q, hq⟩ := H.inlRef z c hv (by rw [← hinl]; exact hi) hO
      exact ⟨q, hS.holds hq⟩
    · rw [hco z hzv] at hz
      obtain ⟨q, hq⟩ := H.inlRef z cz hz hi hO
      exact ⟨q, hS.holds hq⟩

theorem arrOk_setType {T : Nat} {a : Arr} {ctr ty : Nat} (h : ArrOk T a ctr) : ArrOk T { a with ty := ty } ctr := by
  obtain ⟨d, t, ty0⟩ := a
  have hinl : (⟨d, t, ty⟩ : Arr).isInlined = (⟨d, t, ty0⟩ : Arr).isInlined := by cases d <;> rfl
  refine ⟨fun hi => ?_, fun hi => ?_⟩
  · have := h.1 (by rw [← hinl]; exact hi)
    exact ⟨this.tree, this.chain, this.ids, hi, this.count_lt⟩
  · obtain ⟨s, ty1, heq, rest⟩ := h.2 (by rw [← hinl]; exact hi)
    cases heq
    exact ⟨s, ty, rfl, rest⟩

theorem mapOk_setType {T : Nat} {Dm : DigestFn 4} {m : OMap 3} {ctr ty : Nat} (h : MapOk T Dm m ctr) :
    MapOk T Dm { m with ty := ty } ctr := by
  obtain ⟨d, t, ty0, cnt0, seed0⟩ := m
  have hinl : (⟨d, t, ty, cnt0, seed0⟩ : OMap 3).isInlined = (⟨d, t, ty0, cnt0, seed0⟩ : OMap 3).isInlined := by
    cases d <;> rfl
  refine ⟨fun hi => ?_, fun hi => ?_⟩
  · obtain ⟨h1, h2⟩ := h.1 (by rw [← hinl]; exact hi)
    exact ⟨⟨h1.tree, h1.chain, h1.count_eq, h1.distinct, hi⟩, h2⟩
  · obtain ⟨s, ty1, cnt, seed, heq, rest⟩ := h.2 (by rw [← hinl]; exact hi)
    cases heq
    exact ⟨s, ty, _, _, rfl, rest⟩

theorem setType_okA {rank0 : SlabID → Nat} {w : World} {p : SlabID} {ty : Nat} {cx : Ctx} {w' : World} {cx' : Ctx}
    (H0 : WorldOkGen D rank0 none (fun _ => False) w cx.ctr) (hhand : HandleOk w p)
    (h : w.setType p ty cx = .ok (w', cx')) :
    WorldOk D w' cx'.ctr ∧ cx.ctr ≤ cx'.ctr ∧
      (∃ c c', w.cont? p = some c ∧ w'.cont? p = some c' ∧ c'.storedElems = c.storedElems ∧ c'.vid = c.vid) ∧
      HandleOk w' p ∧ ContsSig w w' ∧ OpFrame rank0 w w' p (Moved none none) := by
  unfold setType at h
  split at h
  · rename_i a hpa
    have hpok : ArrOk w.T a cx.ctr := H0.conts p _ hpa
    have hsd : Cont.SameData (.arr a) (.arr { a with ty := ty }) := ⟨rfl, rfl, fun _ => rfl⟩
    have hctr : (a.setType ty cx).2.ctr = cx.ctr := by
      simp only [Arr.setType]; split <;> rfl
    have H1 : WorldOkGen D rank0 none (fun _ => False) (w.setCont p (.arr (a.setType ty cx).1)) cx.ctr :=
      step_sameform (c1 := .arr { a with ty := ty }) H0 hpa hsd (arrOk_setType hpok)
        (by obtain ⟨d, t, ty0⟩ := a; cases d <;> rfl) rfl
        (fun lim => by obtain ⟨d, t, ty0⟩ := a; cases d <;> rfl)
        rfl rfl rfl rfl (cont?_setCont_self _ _ _) (fun z hz => cont?_setCont_ne _ _ _ _ hz)
    have hS : ContsSig w (w.setCont p (.arr (a.setType ty cx).1)) := by
      refine ⟨rfl, fun q => ?_⟩
      by_cases hq : p = q
      · subst hq; rw [cont?_setCont_self, hpa]; rfl
      · rw [cont?_setCont, if_neg hq]
    have hhand1 : HandleOk (w.setCont p (.arr (a.setType ty cx).1)) p :=
      hhand.transfer (fun q y => (hS.holds_iff q y).mp) (CurKept.of_sig hS (fun _ _ => rfl) (fun _ _ hy _ => hy))
    simp only at h
    split at h
    · obtain ⟨H3, F3, hctr3⟩ := notify_ok D rank0 (fun _ => False) _ _ _ _ _ _
        (by rw [hctr]; exact H1.restale p) hhand1 (fun z hz _ => absurd hz id) h
      obtain ⟨cp3, hcp3, hsd3⟩ := (by
        have := F3.self
        rw [cont?_setCont_self] at this
        exact this.get_some : ∃ cp3, w'.cont? p = some cp3 ∧ Cont.SameData (.arr (a.setType ty cx).1) cp3)
      refine ⟨⟨rank0, H3⟩, by omega, ⟨_, cp3, hpa, hcp3, hsd3.storedElems, hsd3.vid⟩,
        hhand1.transfer (fun q y => (F3.sig.holds_iff q y).mp) F3.cur,
        hS.trans F3.sig,
        fun z hz hrk _ => ⟨?_, ?_⟩, fun q y _ => ?_, fun z hzh _ => ?_⟩
      · rw [F3.above z hz hrk, cont?_setCont_ne _ _ _ _ hz]
      · rw [F3.hinfo z hz hrk]; rfl
      · rw [F3.idx]; rfl
      · exact (hzh.transfer (fun q y => (hS.holds_iff q y).mp)
          (CurKept.of_sig hS (fun _ _ => rfl) (fun _ _ hy _ => hy))).transfer
            (fun q y => (F3.sig.holds_iff q y).mp) F3.cur
    · cases h
      exact ⟨⟨rank0, by rw [hctr]; exact H1⟩, by omega, ⟨_, _, hpa, cont?_setCont_self _ _ _, rfl, rfl⟩, hhand1,
        hS, fun z hz _ _ => ⟨cont?_setCont_ne _ _ _ _ hz, rfl⟩, fun _ _ _ => rfl,
        fun z hzh _ => hzh.transfer (fun q y => (hS.holds_iff q y).mp)
          (CurKept.of_sig hS (fun _ _ => rfl) (fun _ _ hy _ => hy))⟩
  · rename_i m hpm
    have hmok : MapOk w.T (D p) m cx.ctr := H0.conts p _ hpm
    have hsd : Cont.SameData (.map m) (.map { m with ty := ty }) := ⟨rfl, rfl, fun _ _ => rfl⟩
    have hctr : (m.setType ty cx).2.ctr = cx.ctr := by
      simp only [OMap.setType]; split <;> rfl
    have H1 : WorldOkGen D rank0 none (fun _ => False) (w.setCont p (.map (m.setType ty cx).1)) cx.ctr :=
      step_sameform (c1 := .map { m with ty := ty }) H0 hpm hsd (mapOk_setType hmok)
        (by obtain ⟨d, t, ty0, cnt, seed⟩ := m; cases d <;> rfl) rfl
        (fun lim => by obtain ⟨d, t, ty0, cnt, seed⟩ := m; cases d <;> rfl)
        rfl rfl rfl rfl (cont?_setCont_self _ _ _) (fun z hz => cont?_setCont_ne _ _ _ _ hz)
    have hS : ContsSig w (w.setCont p (.map (m.setType ty cx).1)) := by
      refine ⟨rfl, fun q => ?_⟩
      by_cases hq : p = q
      · subst hq; rw [cont?_setCont_self, hpm]; rfl
      · rw [cont?_setCont, if_neg hq]
    have hhand1 : HandleOk (w.setCont p (.map (m.setType ty cx).1)) p :=
      hhand.transfer (fun q y => (hS.holds_iff q y).mp) (CurKept.of_sig hS (fun _ _ => rfl) (fun _ _ hy _ => hy))
    simp only at h
    split at h
    · obtain ⟨H3, F3, hctr3⟩ := notify_ok D rank0 (fun _ => False) _ _ _ _ _ _
        (by rw [hctr]; exact H1.restale p) hhand1 (fun z hz _ => absurd hz id) h
      obtain ⟨cp3, hcp3, hsd3⟩ := (by
        have := F3.self
        rw [cont?_setCont_self] at this
        exact this.get_some : ∃ cp3, w'.cont? p = some cp3 ∧ Cont.SameData (.map (m.setType ty cx).1) cp3)
      refine ⟨⟨rank0, H3⟩, by omega, ⟨_, cp3, hpm, hcp3, hsd3.storedElems, hsd3.vid⟩,
        hhand1.transfer (fun q y => (F3.sig.holds_iff q y).mp) F3.cur,
        hS.trans F3.sig,
        fun z hz hrk _ => ⟨?_, ?_⟩, fun q y _ => ?_, fun z hzh _ => ?_⟩
      · rw [F3.above z hz hrk, cont?_setCont_ne _ _ _ _ hz]
      · rw [F3.hinfo z hz hrk]; rfl
      · rw [F3.idx]; rfl
      · exact (hzh.transfer (fun q y => (hS.holds_iff q y).mp)
          (CurKept.of_sig hS (fun _ _ => rfl) (fun _ _ hy _ => hy))).transfer
            (fun q y => (F3.sig.holds_iff q y).mp) F3.cur
    · cases h
      exact ⟨⟨rank0, by rw [hctr]; exact H1⟩, by omega, ⟨_, _, hpm, cont?_setCont_self _ _ _, rfl, rfl⟩, hhand1,
        hS, fun z hz _ _ => ⟨cont?_setCont_ne _ _ _ _ hz, rfl⟩, fun _ _ _ => rfl,
        fun z hzh _ => hzh.transfer (fun q y => (hS.holds_iff q y).mp)
          (CurKept.of_sig hS (fun _ _ => rfl) (fun _ _ hy _ => hy))⟩
  · cases h

theorem setType_ok {w : World} {p : SlabID} {ty : Nat} {cx : Ctx} {w' : World} {cx' : Ctx}
    (H : WorldOk D w cx.ctr) (hhand : HandleOk w p) (h : w.setType p ty cx = .ok (w', cx')) :
    WorldOk D w' cx'.ctr ∧ cx.ctr ≤ cx'.ctr ∧
      (∃ c c', w.cont? p = some c ∧ w'.cont? p = some c' ∧ c'.storedElems = c.storedElems ∧ c'.vid = c.vid) ∧
      HandleOk w' p := by
  obtain ⟨rank0, H0⟩ := H
  obtain ⟨h1, h2, h3, h4, _⟩ := setType_okA H0 hhand h
  exact ⟨h1, h2, h3, h4⟩

end World
end Atree
