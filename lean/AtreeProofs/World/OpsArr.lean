import AtreeProofs.World.OpsChild
import AtreeProofs.World.HandleKeep
/-
  `arrInsert` keeps the global invariant.
-/
namespace Atree
open Gen

namespace World

variable {D : SlabID → DigestFn 4}

/-- the index table after `shiftIdx` -/
theorem find?_idxOf_shiftIdx (w : World) (p : SlabID) (f : Nat → Nat) (q x : SlabID) :
    AList.find? ((w.shiftIdx p f).idxOf q) x =
      if p = q then (AList.find? (w.idxOf p) x).map f else AList.find? (w.idxOf q) x := by
  rw [idxOf_shiftIdx]
  split
  · exact AList.find?_map_snd _ _ _
  · rfl

theorem map_insertIdx' {α β : Type} (f : α → β) (l : List α) (i : Nat) (a : α) :
    (l.insertIdx i a).map f = (l.map f).insertIdx i (f a) := by
  apply List.ext_getElem?
  intro j
  rw [List.getElem?_map]
  rcases Nat.lt_trichotomy j i with h | h | h
  · rw [List.getElem?_insertIdx_of_lt h, List.getElem?_insertIdx_of_lt h, List.getElem?_map]
  · subst h
    rw [List.getElem?_insertIdx_self, List.getElem?_insertIdx_self, List.length_map]
    split <;> rfl
  · rw [List.getElem?_insertIdx_of_gt h, List.getElem?_insertIdx_of_gt h, List.getElem?_map]

theorem map_eraseIdx' {α β : Type} (f : α → β) (l : List α) (i : Nat) :
    (l.eraseIdx i).map f = (l.map f).eraseIdx i := by
  apply List.ext_getElem?
  intro j
  rw [List.getElem?_map]
  by_cases h : j < i
  · rw [List.getElem?_eraseIdx_of_lt h, List.getElem?_eraseIdx_of_lt h, List.getElem?_map]
  · rw [List.getElem?_eraseIdx_of_ge (by omega), List.getElem?_eraseIdx_of_ge (by omega), List.getElem?_map]

theorem kslots_arr_insertIdx (T : Nat) {a a' : Arr} {i : Nat} {e : Elem} (h : a'.toList = a.toList.insertIdx i e) :
    (Cont.arr a').kslots T = ((Cont.arr a).kslots T).insertIdx i (none, maxInlineArr T, e) := by
  simp only [Cont.kslots, h, map_insertIdx']

theorem kslots_arr_length (T : Nat) (a : Arr) : ((Cont.arr a).kslots T).length = a.toList.length := by
  simp [Cont.kslots]

/-- `arrInsert` keeps the global invariant; relative to the rank function `rank0` of the world
    before: the frame `OpFrame` (containers not below `p`, closures, index tables, ALL handles). -/
theorem arrInsert_okA {rank0 : SlabID → Nat} {w : World} {p : SlabID} {i : Nat} {v : WVal} {cx : Ctx} {w' : World}
    {cx' : Ctx} (H0 : WorldOkGen D rank0 none (fun _ => False) w cx.ctr) (hhand : HandleOk w p)
    (hv : WValOk w p (maxInlineArr w.T) v) (h : w.arrInsert p i v cx = .ok (w', cx')) :
    WorldOk D w' cx'.ctr ∧ cx.ctr ≤ cx'.ctr ∧ InsertedAt w w' p i v ∧ HandleOk w' p ∧ SigFrame w w' p ∧
      OpFrame rank0 w w' p (Moved (some v) none) := by
  unfold arrInsert at h
  split at h
  · rename_i a hpa
    split at h
    · cases h
    · simp only [bind, Except.bind] at h
      split at h
      · cases h
      · rename_i r hst
        obtain ⟨e, w1, cx1⟩ := r
        simp only at h
        split at h
        · cases h
        · rename_i a' cx2 hins
          split at h
          · cases h
          · rename_i r2 hnp
            obtain ⟨w3, cx3⟩ := r2
            simp only [pure, Except.pure] at h
            cases h
            cases v with
            | plain e0 =>
              simp only [World.storableOf] at hst
              cases hst
              obtain ⟨⟨_, n, hn⟩, hsz0⟩ := hv
              have hpok : ArrOk w.T a cx.ctr := H0.conts p _ hpa
              have hso : StorOk w.T e := StorOk.of_elemOk ⟨by assumption, hsz0⟩
              obtain ⟨hi, hl, hok', hinl', hrid, hty, hctr2, hsz⟩ :=
                hpok.insert_ok H0.legal hso (H0.arr_room hpa (by intro h; cases h) (fun h => h)) hins
              rw [toStorable_fit _ _ e cx hsz0] at hl hsz
              simp only at hl hsz
              have hb2 := two_inline_le w.T H0.legal
              have H2 : WorldOkGen D rank0 (some p) (fun _ => False)
                  ((w.setCont p (.arr a')).shiftIdx p (fun j => if j ≥ i then j + 1 else j)) cx2.ctr := by
                refine step_insert (pc' := .arr a') H0 hpa (fun _ h => h) hok' rfl hinl' hrid ?_ hctr2
                  (kslots_arr_insertIdx w.T hl) (by rw [kslots_arr_length]; exact hi) ?_ ?_ rfl rfl rfl
                  (find?_idxOf_shiftIdx _ _ _) (by simp) (fun z hz => by simp [Ne.symm hz])
                · intro hi2
                  have hi2' : a.isInlined = true := by rw [← hinl']; exact hi2
                  have hroom : a.rootHdr.size ≤ maxInlineArr w.T :=
                    H0.inl_budget hpa hi2' (by intro h; cases h) (fun h => h)
                  have := hsz hi2'
                  show a'.rootHdr.size ≤ w.T
                  omega
                · intro x c hx _
                  simp only at hx
                  rw [hn] at hx; cases hx
                · intro r hr
                  simp only at hr
                  rw [hn] at hr; cases hr
              have hhand2 : HandleOk ((w.setCont p (.arr a')).shiftIdx p (fun j => if j ≥ i then j + 1 else j)) p :=
                handleOk_mutate (pc' := .arr a') H0.rank H2.rank hpa (by simp) (fun z hz => by simp [Ne.symm hz]) rfl rfl
                  (fun q x hq => by rw [find?_idxOf_shiftIdx, if_neg (Ne.symm hq)]; rfl) hhand
              obtain ⟨H3, F3, hctr3⟩ := notify_ok D rank0 (fun _ => False) _ _ _ _ _ _ H2 hhand2
                (fun z hz _ => absurd hz id) hnp
              obtain ⟨cp3, hcp3, hsd3⟩ := (by
                have := F3.self
                rw [cont?_shiftIdx, cont?_setCont_self] at this
                exact this.get_some : ∃ cp3, w3.cont? p = some cp3 ∧ Cont.SameData (.arr a') cp3)
              obtain ⟨a3, rfl, hl3, hrid3, _⟩ := hsd3.arr
              have hsome3 : ∀ z, (w3.cont? z).isSome = (w.cont? z).isSome := by
                intro z
                rw [F3.sig.isSome, cont?_shiftIdx, cont?_setCont]
                split
                · rename_i hpz; subst hpz; rw [hpa]; rfl
                · rfl
              have K12 : HKeep (Moved (some (WVal.plain e)) none) w
                  ((w.setCont p (.arr a')).shiftIdx p (fun j => if j ≥ i then j + 1 else j)) :=
                hkeep_insert (pc' := .arr a') _ hpa rfl (kslots_arr_insertIdx w.T hl)
                  (by rw [kslots_arr_length]; exact hi)
                  (fun x hx => by simp only at hx; rw [hn] at hx; cases hx) rfl (find?_idxOf_shiftIdx _ _ _)
                  (by simp) (fun z hz => by simp [Ne.symm hz])
              have K23 : HKeep (Moved (some (WVal.plain e)) none) _ w3 :=
                HKeep.of_curKept _ (fun q x => (F3.sig.holds_iff q x).mp) F3.cur
              refine ⟨⟨rank0, H3⟩, by omega, ⟨a, a3, e, hpa, hcp3, hi, by rw [hl3, hl],
                fun e0 he0 => by cases he0; rfl, fun x wr hxw => by cases hxw⟩, ?_,
                (sigFrame_setCont_shift _ _ _ _).trans (SigFrame.of_sig F3.sig p),
                fun z hz hrk _ => ⟨?_, ?_⟩, fun q x hq => ?_, fun z hzh hzs => ?_⟩
              · exact hhand2.transfer (fun q x => (F3.sig.holds_iff q x).mp) F3.cur
              · show w3.cont? z = w.cont? z
                rw [F3.above z hz hrk, cont?_shiftIdx, cont?_setCont_ne _ _ _ _ hz]
              · show AList.find? w3.hinfo z = _
                rw [F3.hinfo z hz hrk]; rfl
              · show AList.find? (w3.idxOf q) x = _
                rw [F3.idx, find?_idxOf_shiftIdx, if_neg (Ne.symm hq)]; rfl
              · exact (K12.trans K23).handleOk
                  (fun x hx _ => by rcases hx with ⟨wr, h⟩ | ⟨o, h, _⟩ <;> cases h) hzh
                  (by rw [← hsome3]; exact hzs)
            | child x wr =>
              obtain ⟨hlive, hroot, hanc, hwb⟩ := hv
              obtain ⟨c, hx⟩ := Option.isSome_iff_exists.mp hlive
              simp only [World.storableOf] at hst
              obtain ⟨rank', c1, H1, hr', hrk, hc1, hsd1, he, hinl1, he1, he2, hco1, hT1, ha1, hh1, hm1, hctr1,
                hroot1, hS1, hrp, hrle⟩ := prep_child H0 hx hroot hanc hwb (Nat.le_refl _) hst
              have hxp : p ≠ x := by intro h; rw [h] at hrk; omega
              have hpa1 : w1.cont? p = some (.arr a) := by rw [hco1 p hxp]; exact hpa
              have hpok : ArrOk w.T a cx1.ctr := by rw [hctr1]; exact H0.conts p _ hpa
              have hepay : e.pay = .ref x := by rw [he]
              have hOp : ¬ PendChild (fun _ => False) x p := by
                rintro (h | h)
                · exact h
                · exact hxp h
              have hroom := H1.arr_room hpa1 (by intro h; cases h) hOp
              rw [hT1] at hins hroom
              obtain ⟨hi, hl, hok', hinl', hrid, hty, hctr2, hsz⟩ :=
                hpok.insert_ok H0.legal (StorOk.of_elemOk ⟨he1, he2⟩) hroom hins
              rw [toStorable_ref _ _ e cx1 x hepay] at hl hsz
              simp only at hl hsz
              have hb2 := two_inline_le w.T H0.legal
              have hxle : x.idx ≤ cx.ctr := by
                have := (H0.conts x c hx).vid_le
                rw [H0.ids x c hx] at this; exact this
              have H2 : WorldOkGen D rank' (some p) (PendChild (fun _ => False) x)
                  ((w1.setCont p (.arr a')).shiftIdx p (fun j => if j ≥ i then j + 1 else j)) cx2.ctr := by
                refine step_insert (pc' := .arr a') H1 hpa1 (fun _ h => h) (by rw [hT1]; exact hok') rfl hinl' hrid ?_
                  (by rw [← hctr1]; exact hctr2)
                  (by rw [hT1]; exact kslots_arr_insertIdx w.T hl) (by rw [kslots_arr_length]; exact hi) ?_ ?_ rfl rfl rfl
                  (find?_idxOf_shiftIdx _ _ _) (by simp) (fun z hz => by simp [Ne.symm hz])
                · intro hi2
                  have hi2' : a.isInlined = true := by rw [← hinl']; exact hi2
                  have hroom' : a.rootHdr.size ≤ maxInlineArr w1.T :=
                    H1.inl_budget hpa1 hi2' (by intro h; cases h) hOp
                  have := hsz hi2'
                  rw [hT1] at hroom' ⊢
                  show a'.rootHdr.size ≤ w.T
                  omega
                · intro x' c' hx' hc'
                  simp only at hx'
                  rw [hepay] at hx'; cases hx'
                  rw [hc1] at hc'; cases hc'
                  refine ⟨hroot1, Or.inr rfl, hrk, wr, hwb, by rw [he], hinl1⟩
                · intro r hr
                  simp only at hr
                  rw [hepay] at hr; cases hr
                  have := hctr1; omega
              have hidx1 : ∀ q z, AList.find? (w1.idxOf q) z = AList.find? (w.idxOf q) z := by
                intro q z; simp [World.idxOf, hm1]
              have hhand1 : HandleOk w1 p :=
                hhand.transfer (fun q y => (hS1.holds_iff q y).mp)
                  (CurKept.of_sig hS1 hidx1 (fun y hiy hy _ => by rw [hh1]; exact hy))
              have hhand2 : HandleOk ((w1.setCont p (.arr a')).shiftIdx p (fun j => if j ≥ i then j + 1 else j)) p :=
                handleOk_mutate (pc' := .arr a') H1.rank H2.rank hpa1 (by simp) (fun z hz => by simp [Ne.symm hz]) rfl rfl
                  (fun q y hq => by rw [find?_idxOf_shiftIdx, if_neg (Ne.symm hq)]; rfl) hhand1
              obtain ⟨H3, F3, hctr3⟩ := notify_ok D rank' (PendChild (fun _ => False) x) _ _ _ _ _ _ H2 hhand2
                (fun z hz _ => by
                  rcases hz with h | h
                  · exact absurd h id
                  · rw [h]; exact hrk) hnp
              obtain ⟨cp3, hcp3, hsd3⟩ := (by
                have := F3.self
                rw [cont?_shiftIdx, cont?_setCont_self] at this
                exact this.get_some : ∃ cp3, w3.cont? p = some cp3 ∧ Cont.SameData (.arr a') cp3)
              obtain ⟨a3, rfl, hl3, hrid3, _⟩ := hsd3.arr
              have he3 : a3.toList[i]? = some (⟨slotSize c1 wr, .ref x⟩ : Elem) := by
                rw [hl3, hl, List.getElem?_insertIdx_self, if_pos hi, he]
              have hx3 : w3.cont? x = some c1 := by
                rw [F3.above x (Ne.symm hxp) (by omega), cont?_shiftIdx, cont?_setCont_ne _ _ _ _ (Ne.symm hxp)]
                exact hc1
              have hnoidx : ∀ q aq j, q ≠ p → w3.cont? q = some (.arr aq) →
                  AList.find? (w3.idxOf q) x = some j → False := by
                intro q aq j hqp hq hj
                rw [F3.idx, find?_idxOf_shiftIdx, if_neg (Ne.symm hqp)] at hj
                have hj' : AList.find? (w.idxOf q) x = some j := by rw [← hidx1]; exact hj
                obtain ⟨c2, hc2, hs2⟩ := F3.sig.symm.get hq
                rw [cont?_shiftIdx, cont?_setCont_ne _ _ _ _ hqp] at hc2
                obtain ⟨c0, hc0, hs0⟩ := hS1.symm.get hc2
                obtain ⟨a0, rfl⟩ := Cont.sig_kind_arr (hs0.trans hs2)
                have := H0.mutIdx q a0 hc0 x j hj' id
                exact hroot q ⟨_, hc0, List.mem_of_getElem? this⟩
              have H4 := finish_child_arr (O' := fun _ => False) H3 (fun z hz => by
                  rcases hz with h | h
                  · exact absurd h id
                  · exact Or.inr h) (fun z hz => absurd hz id) hcp3 he3 hx3 hnoidx
              have hhand3 : HandleOk w3 p := hhand2.transfer (fun q y => (F3.sig.holds_iff q y).mp) F3.cur
              have hpays3 : (Cont.arr a3).pays[i]? = some (Pay.ref x) := by
                rw [Cont.pays, Cont.storedElems, List.getElem?_map, he3]; rfl
              have hcur34 : CurKept w3 (w3.setCallbackArr p i (.child x wr)) :=
                curKept_callback_arr (hn := ⟨p, none, maxInlineArr w3.T - 2 * wr, wr⟩) hcp3 hpays3 rfl
                  (T_setCallbackArr _ _ _ _) (fun z => cont?_setCallbackArr _ _ _ _ _)
                  (hinfo_setCallbackArr _ _ _ _ _) (idxOf_setCallbackArr _ _ _ _ _)
                  (fun hi' _ hcur => closureCurrent_parent H3 ⟨_, hcp3, List.mem_of_getElem? hpays3⟩
                    (by rw [hx3]; rfl) hcur)
              have hhand4 : HandleOk (w3.setCallbackArr p i (.child x wr)) p :=
                hhand3.transfer (fun q y hq => by
                  obtain ⟨qc, hqc, hm⟩ := hq
                  rw [cont?_setCallbackArr] at hqc
                  exact ⟨qc, hqc, hm⟩) hcur34
              have hxhand : HandleOk (w3.setCallbackArr p i (.child x wr)) x := by
                refine HandleOk.child x ⟨p, none, maxInlineArr w3.T - 2 * wr, wr⟩
                  (by rw [hinfo_setCallbackArr, if_pos rfl]) ?_ hhand4
                refine ⟨maxInlineArr w3.T, _, Or.inl ⟨a3, i, by rw [cont?_setCallbackArr]; exact hcp3, ?_, he3, rfl,
                  by simp⟩⟩
                rw [idxOf_setCallbackArr, if_pos ⟨rfl, rfl⟩]
              have hEx : ∀ z, Moved (some (WVal.child x wr)) none z → z = x := by
                rintro z (⟨wr', h⟩ | ⟨o, h, _⟩)
                · cases h; rfl
                · cases h
              have hxE : Moved (some (WVal.child x wr)) none x := Or.inl ⟨wr, rfl⟩
              have hsome4 : ∀ z, ((w3.setCallbackArr p i (.child x wr)).cont? z).isSome = (w.cont? z).isSome := by
                intro z
                rw [cont?_setCallbackArr, F3.sig.isSome, cont?_shiftIdx, cont?_setCont, ← hS1.isSome]
                split
                · rename_i hpz; subst hpz; rw [hpa1]; rfl
                · rfl
              have K01 : HKeep (Moved (some (WVal.child x wr)) none) w w1 := HKeep.of_sig _ hS1 hidx1 hh1
              have K12 : HKeep (Moved (some (WVal.child x wr)) none) w1
                  ((w1.setCont p (.arr a')).shiftIdx p (fun j => if j ≥ i then j + 1 else j)) :=
                hkeep_insert (pc' := .arr a') _ hpa1 rfl (by rw [hT1]; exact kslots_arr_insertIdx w.T hl)
                  (by rw [kslots_arr_length]; exact hi)
                  (fun z hz => by simp only at hz; rw [hepay] at hz; cases hz; exact hxE) rfl
                  (find?_idxOf_shiftIdx _ _ _) (by simp) (fun z hz => by simp [Ne.symm hz])
              have K23 : HKeep (Moved (some (WVal.child x wr)) none) _ w3 :=
                HKeep.of_curKept _ (fun q y => (F3.sig.holds_iff q y).mp) F3.cur
              have K34 : HKeep (Moved (some (WVal.child x wr)) none) w3 (w3.setCallbackArr p i (.child x wr)) :=
                HKeep.of_curKept _ (fun q y hq => by
                  obtain ⟨qc, hqc, hm⟩ := hq
                  rw [cont?_setCallbackArr] at hqc
                  exact ⟨qc, hqc, hm⟩) hcur34
              refine ⟨⟨rank', H4⟩, by have := hctr1; omega, ⟨a, a3, e, hpa, by rw [cont?_setCallbackArr]; exact hcp3, hi,
                by rw [hl3, hl], fun e0 he0 => (by cases he0), fun x' wr' hxw => ?_⟩, ?_,
                (((SigFrame.of_sig hS1 p).trans (sigFrame_setCont_shift _ _ _ _)).trans (SigFrame.of_sig F3.sig p)).trans
                  (sigFrame_cbArr _ _ _ _ _),
                fun z hz hrk hzE => ⟨?_, ?_⟩, fun q y hq => ?_, fun z hzh hzs => ?_⟩
              · cases hxw
                exact ⟨hepay, hxhand, c1, by rw [cont?_setCallbackArr]; exact hx3, by rw [he]⟩
              · exact hhand4
              · have hzx : z ≠ x := fun h => hzE (h ▸ hxE)
                rw [cont?_setCallbackArr, F3.above z hz (by have := hrle z; omega), cont?_shiftIdx,
                  cont?_setCont_ne _ _ _ _ hz, hco1 z hzx]
              · have hzx : x ≠ z := fun h => hzE (h ▸ hxE)
                rw [hinfo_setCallbackArr, if_neg hzx, F3.hinfo z hz (by have := hrle z; omega)]
                show AList.find? w1.hinfo z = _
                rw [hh1]
              · rw [idxOf_setCallbackArr, if_neg (fun h => hq h.1.symm), F3.idx, find?_idxOf_shiftIdx,
                  if_neg (Ne.symm hq)]
                exact hidx1 q y
              · exact (((K01.trans K12).trans K23).trans K34).handleOk
                  (fun z hz _ => by rw [hEx z hz]; exact hxhand) hzh (by rw [← hsome4]; exact hzs)
  · cases h

theorem arrInsert_ok {w : World} {p : SlabID} {i : Nat} {v : WVal} {cx : Ctx} {w' : World} {cx' : Ctx}
    (H : WorldOk D w cx.ctr) (hhand : HandleOk w p) (hv : WValOk w p (maxInlineArr w.T) v)
    (h : w.arrInsert p i v cx = .ok (w', cx')) :
    WorldOk D w' cx'.ctr ∧ cx.ctr ≤ cx'.ctr ∧ InsertedAt w w' p i v ∧ HandleOk w' p ∧ SigFrame w w' p := by
  obtain ⟨rank0, H0⟩ := H
  obtain ⟨h1, h2, h3, h4, h5, _⟩ := arrInsert_okA H0 hhand hv h
  exact ⟨h1, h2, h3, h4, h5⟩

end World
end Atree
