import AtreeProofs.ArrayLemmas
/-
  The array core generalised to elements that may carry a REFERENCE payload (a child container or
  a large-value slab), provided they fit the per-element inline limit.  `StorOk` replaces
  `ValueOk`; the proofs are the ones of `AtreeProofs/Array/{SlabLemmas,TreeOps,Top}.lean` with the
  new hypothesis threaded through (only `toStorable_ok` looks at the payload).
-/
namespace Atree
open Gen

/-- what `Arr.insert` / `Arr.set` accept: a plain value of any size (externalised by `toStorable`
    when too large), or any element — e.g. a reference — that fits the inline limit -/
def StorOk (T : Nat) (v : Elem) : Prop :=
  1 ≤ v.size ∧ ((∃ n, v.pay = .val n) ∨ v.size ≤ maxInlineArr T)

theorem StorOk.of_valueOk {T : Nat} {v : Elem} (h : ValueOk v) : StorOk T v := ⟨h.1, Or.inl h.2⟩
theorem StorOk.of_elemOk {T : Nat} {v : Elem} (h : ElemOk T v) : StorOk T v := ⟨h.1, Or.inr h.2⟩

/-- an element that fits is its own storable, whatever its payload -/
theorem toStorable_fit (T addr : Nat) (e : Elem) (c : Ctx) (h : e.size ≤ maxInlineArr T) :
    toStorable T addr e c = (e, c) := by
  unfold toStorable
  split
  · rfl
  · rw [if_neg (by omega)]

theorem toStorable_okR (T addr : Nat) (hT : legalThreshold T = true) (v : Elem) (c : Ctx)
    (hv : StorOk T v) : ElemOk T (toStorable T addr v c).1 := by
  obtain ⟨h1, h2⟩ := hv
  rcases h2 with ⟨n, hn⟩ | h2
  · exact toStorable_ok T addr hT v c ⟨h1, n, hn⟩
  · rw [toStorable_fit T addr v c h2]; exact ⟨h1, h2⟩

namespace DataSlab

theorem set_specR (T : Nat) (hT : legalThreshold T = true) (top : Bool) (s : DataSlab) (i : Nat)
    (v : Elem) (c : Ctx) (hs : DShape T top s) (hv : StorOk T v) (hi : i < s.elems.length) :
    ∃ s' c', s.set T i v c = .ok (s.elems.getD i default, s', c') ∧
      DShape T top s' ∧
      s'.elems = s.elems.set i (toStorable T s.hdr.id.addr v c).1 ∧
      s'.hdr.id = s.hdr.id ∧ s'.next = s.next ∧ s'.hdr.count = s.hdr.count ∧
      s'.hdr.size + (s.elems.getD i default).size
        = s.hdr.size + (toStorable T s.hdr.id.addr v c).1.size ∧
      (s.elems.getD i default).size ≤ maxInlineArr T ∧
      (toStorable T s.hdr.id.addr v c).1.size ≤ maxInlineArr T ∧
      c.ctr ≤ c'.ctr := by
  have hget : s.elems[i]? = some (s.elems.getD i default) := by
    rw [List.getD_eq_getElem?_getD, List.getElem?_eq_getElem hi]; rfl
  have hold : ElemOk T (s.elems.getD i default) := by
    apply hs.elems_ok
    rw [List.getD_eq_getElem?_getD, List.getElem?_eq_getElem hi]
    simp
  have hnew := toStorable_okR T s.hdr.id.addr hT v c hv
  unfold set
  rw [hget]
  simp only
  refine ⟨_, _, rfl, ?_, rfl, rfl, rfl, rfl, ?_, hold.2, hnew.2, ?_⟩
  · constructor
    · simp [hs.count_eq]
    · simp [prefixSize]
    · intro e he
      rcases List.mem_or_eq_of_mem_set he with h | h
      · exact hs.elems_ok e h
      · rw [h]; exact hnew
    · exact hs.root_eq
    · exact hs.not_inl
  · have := sumSizes_set s.elems i (toStorable T s.hdr.id.addr v c).1 _ hget
    have h2 := hs.size_eq
    simp only [prefixSize] at h2 ⊢
    omega
  · simp only [storeIfNotInlined_ctr]
    exact toStorable_ctr_le _ _ _ _

theorem insert_specR (T : Nat) (hT : legalThreshold T = true) (top : Bool) (s : DataSlab) (i : Nat)
    (v : Elem) (c : Ctx) (hs : DShape T top s) (hv : StorOk T v) (hi : i ≤ s.elems.length) :
    ∃ s' c', s.insert T i v c = .ok (s', c') ∧
      DShape T top s' ∧
      s'.elems = s.elems.insertIdx i (toStorable T s.hdr.id.addr v c).1 ∧
      s'.hdr.id = s.hdr.id ∧ s'.next = s.next ∧ s'.hdr.count = s.hdr.count + 1 ∧
      s'.hdr.size = s.hdr.size + (toStorable T s.hdr.id.addr v c).1.size ∧
      (toStorable T s.hdr.id.addr v c).1.size ≤ maxInlineArr T ∧
      c.ctr ≤ c'.ctr := by
  have hnew := toStorable_okR T s.hdr.id.addr hT v c hv
  unfold insert
  have : ¬ i > s.elems.length := by omega
  simp only [this, if_false]
  refine ⟨_, _, rfl, ?_, rfl, rfl, rfl, rfl, rfl, hnew.2, ?_⟩
  · constructor
    · simp [hs.count_eq, List.length_insertIdx, hi]
    · have := sumSizes_insertIdx s.elems i (toStorable T s.hdr.id.addr v c).1 hi
      have h2 := hs.size_eq
      simp only [prefixSize] at h2 ⊢
      omega
    · intro e he
      rcases (List.mem_insertIdx hi).1 he with h | h
      · rw [h]; exact hnew
      · exact hs.elems_ok e h
    · exact hs.root_eq
    · exact hs.not_inl
  · simp only [storeIfNotInlined_ctr]
    exact toStorable_ctr_le _ _ _ _

end DataSlab
end Atree

namespace Atree
open Gen ATree MetaSlab

variable {T d : Nat}

theorem insert_genR (hT : legalThreshold T = true) :
    ∀ (d : Nat) (t : ATree d) (top : Bool) (i : Nat) (v : Elem) (c : Ctx),
    TreeInv T d top t → NotInl d t → StorOk T v → i ≤ (flatten d t).length →
    ∃ t' c', ATree.insert T d t i v c = .ok (t', c') ∧ StepOk T d top t t' c.ctr c'.ctr ∧
      flatten d t' = (flatten d t).insertIdx i (toStorable T (hdr d t).id.addr v c).1 ∧
      (hdr d t').count = (hdr d t).count + 1 ∧
      (hdr d t).size ≤ (hdr d t').size ∧ (hdr d t').size ≤ (hdr d t).size + maxInlineArr T
  | 0, t, top, i, v, c => by
    refine forall_ofData ?_ t; intro s hinv hni hv hi
    have hs : DShape T top s := (shape_zero T top s).1 (hinv.shape hni)
    simp only [flatten_zero] at hi
    obtain ⟨s', c', heq, hs', hel, hid, hn, hcnt, hsz, hle, hc⟩ :=
      DataSlab.insert_specR T hT top s i v c hs hv hi
    refine ⟨ofData s', c', insert_zero_ok s s' i v c c' heq, stepOk_data T top s s' _ _ hs' hid hn hc,
      by simpa using hel, by simpa using hcnt, ?_, ?_⟩
    · simp only [hdr_zero, hsz]; omega
    · simp only [hdr_zero, hsz]; omega
  | d + 1, t, top, i, v, c => by
    refine forall_ofMeta ?_ t; intro m hinv _ hv hi
    have F := thrFacts hT
    obtain ⟨hs, hmax, _, _⟩ := (treeInv_succ T d top m).1 hinv
    have hkids2 := two_kids hT hinv
    simp only [flatten_succ, ← hs.flat_length] at hi
    obtain ⟨A, child, B, adj, hch, hroute, hi2, hadj, hget⟩ := route_insert hT hs hkids2 i hi
    have hA : ∀ t ∈ A, TreeInv T d false t := fun t ht => hs.kids_inv t (by rw [hch]; simp [ht])
    have hB : ∀ t ∈ B, TreeInv T d false t := fun t ht => hs.kids_inv t (by rw [hch]; simp [ht])
    have hc : TreeInv T d false child := hs.kids_inv child (by rw [hch]; simp)
    have hcaddr : (hdr d child).id.addr = m.hdr.id.addr := hs.kids_addr child (by rw [hch]; simp)
    obtain ⟨child', c1, hins, hstep, hflat, hcnt, hsz1, hsz2⟩ :=
      insert_genR hT d child false adj v c hc hc.notInl_of_false hv hadj
    rw [hcaddr] at hflat
    -- the parent with the new child written back
    obtain ⟨b1, b2, b3⟩ := book_after (child' := child') hs hch rfl (· + 1) hcnt
      (prefixSums_map_succ _ _) (by omega)
    have hbook1 : Book (insM1 m A.length child') :=
      ⟨by simp only [insM1, b1, b2], by simp only [insM1, b1, b3]⟩
    have hcount1 : m.hdr.count + 1 = sumCounts ((A ++ child' :: B).map (hdr d)) := by
      rw [hs.count_eq, hs.hdrs_eq, hch]
      simp only [List.map_append, List.map_cons, sumCounts_append, sumCounts_cons, hcnt]; omega
    have hi' : ¬ i > m.hdr.count := by omega
    have hroute' : (i = m.hdr.count ∧ ∃ h, m.childHdrs.getLast? = some h ∧
        A.length = m.childHdrs.length - 1 ∧ adj = h.count) ∨
        (i ≠ m.hdr.count ∧ m.childSlabIndexInfo i = .ok (A.length, adj)) := hroute
    have hfin : ∀ (m2 : MetaSlab (ATree d)) (c2 : Ctx),
        Tail T d (insM1 m A.length child') m2
          c1.ctr c2.ctr →
        m.children.length ≤ m2.children.length →
        ATree.insert T (d + 1) (ofMeta m) i v c = .ok (ofMeta m2, c2) →
        ∃ t' c', ATree.insert T (d + 1) (ofMeta m) i v c = .ok (t', c') ∧
          StepOk T (d + 1) top (ofMeta m) t' c.ctr c'.ctr ∧
          flatten (d + 1) t' = (flatten (d + 1) (ofMeta m)).insertIdx i
            (toStorable T (hdr (d + 1) (ofMeta m)).id.addr v c).1 ∧
          (hdr (d + 1) t').count = (hdr (d + 1) (ofMeta m)).count + 1 ∧
          (hdr (d + 1) (ofMeta m)).size ≤ (hdr (d + 1) t').size ∧
          (hdr (d + 1) t').size ≤ (hdr (d + 1) (ofMeta m)).size + maxInlineArr T := by
      intro m2 c2 htail hlen heq
      have hch1 : (insM1 m A.length child').children = A ++ child' :: B := b2
      obtain ⟨a1, a2, a3, a4, a5, a6⟩ := assemble (m := m) (m1 := insM1 m A.length child') (A := A)
        (B := B) (child := child) (child' := child') hs hch hch1 rfl rfl rfl
        (by rw [hch1]; exact hcount1) hstep.repl htail
      have hl2 := htail.len_ge
      rw [hch1] at hl2
      have hl1 : m.children.length = (A ++ child' :: B).length := by rw [hch]; simp
      refine ⟨ofMeta m2, c2, heq, ⟨(shape_succ T d top m2).2 a1, by simpa using a3, a2⟩, ?_,
        a5, ?_, ?_⟩
      · rw [a4, flatten_succ, hflat, hch, hi2, hdr_succ]
        have : (A ++ child :: B).flatMap (flatten d)
            = A.flatMap (flatten d) ++ flatten d child ++ B.flatMap (flatten d) := by
          simp [List.flatMap_append]
        rw [this, insertIdx_append_mid _ _ _ _ _ hadj]
      · simp only [hdr_succ]; omega
      · simp only [hdr_succ]; have := F.lo; have := F.inlE; omega
    by_cases hfull : ATree.isFull T d child' = true
    · have hlo := (isFull_iff T d child').1 hfull
      have hcmax := hc.le_max
      obtain ⟨m2, c2, hsp, hc2, htail, hlen2⟩ := tail_split hT _ A B child' A.length c1 hbook1 b2 rfl
        hA hB hstep.shape hlo (by omega)
      have hch1 : (insM1 m A.length child').children = A ++ child' :: B := b2
      refine hfin m2 c2 htail (by rw [hlen2, hch1, hch]; simp) ?_
      · exact insert_succ_ok m m2 i A.length adj v c c1 c2 child child' hi' hroute' hget hins
          (by rw [if_pos hfull]; exact hsp)
    · have hnf : ¬ maxThr T < (hdr d child').size := fun h => hfull ((isFull_iff T d child').2 h)
      have hc' : TreeInv T d false child' :=
        (treeInv_false_iff T d child').2 ⟨hstep.shape, by have := hc.ge_min; omega, by omega⟩
      have hch1 : (insM1 m A.length child').children = A ++ child' :: B := b2
      refine hfin _ (c1.emit (.store m.hdr.id)) ?_ (by rw [hch1, hch]; simp) ?_
      · refine Tail.refl c1.ctr ?_ hbook1
        rw [hch1]
        intro t ht
        simp only [List.mem_append, List.mem_cons] at ht
        rcases ht with ht | rfl | ht
        · exact hA t ht
        · exact hc'
        · exact hB t ht
      · exact insert_succ_ok m _ i A.length adj v c c1 _ child child' hi' hroute' hget hins
          (by rw [if_neg hfull])

theorem set_genR (hT : legalThreshold T = true) :
    ∀ (d : Nat) (t : ATree d) (top : Bool) (i : Nat) (v : Elem) (c : Ctx),
    TreeInv T d top t → NotInl d t → StorOk T v → i < (flatten d t).length →
    ∃ t' c', ATree.set T d t i v c = .ok ((flatten d t).getD i default, t', c') ∧
      StepOk T d top t t' c.ctr c'.ctr ∧
      flatten d t' = (flatten d t).set i (toStorable T (hdr d t).id.addr v c).1 ∧
      (hdr d t').count = (hdr d t).count ∧
      (hdr d t').size ≤ (hdr d t).size + maxInlineArr T ∧
      (hdr d t).size ≤ (hdr d t').size + maxInlineArr T ∧
      (d ≠ 0 → (hdr d t).size ≤ (hdr d t').size + 14)
  | 0, t, top, i, v, c => by
    refine forall_ofData ?_ t; intro s hinv hni hv hi
    have hs : DShape T top s := (shape_zero T top s).1 (hinv.shape hni)
    simp only [flatten_zero] at hi
    obtain ⟨s', c', heq, hs', hel, hid, hn, hcnt, hsz, hle1, hle2, hc⟩ :=
      DataSlab.set_specR T hT top s i v c hs hv hi
    refine ⟨ofData s', c', set_zero_ok s s' i v _ c c' heq, stepOk_data T top s s' _ _ hs' hid hn hc,
      by simpa using hel, by simpa using hcnt, ?_, ?_, fun h => absurd rfl h⟩
    · simp only [hdr_zero]; omega
    · simp only [hdr_zero]; omega
  | d + 1, t, top, i, v, c => by
    refine forall_ofMeta ?_ t; intro m hinv _ hv hi
    have F := thrFacts hT
    obtain ⟨hs, hmax, _, _⟩ := (treeInv_succ T d top m).1 hinv
    have hkids2 := two_kids hT hinv
    have hksz := hs.kids_of_size
    simp only [flatten_succ, ← hs.flat_length] at hi
    obtain ⟨A, child, B, adj, hch, hroute, hi2, hadj, hget⟩ := route_flat hT hs i hi
    have hA : ∀ t ∈ A, TreeInv T d false t := fun t ht => hs.kids_inv t (by rw [hch]; simp [ht])
    have hB : ∀ t ∈ B, TreeInv T d false t := fun t ht => hs.kids_inv t (by rw [hch]; simp [ht])
    have hc : TreeInv T d false child := hs.kids_inv child (by rw [hch]; simp)
    have hcaddr : (hdr d child).id.addr = m.hdr.id.addr := hs.kids_addr child (by rw [hch]; simp)
    obtain ⟨child', c1, hset, hstep, hflat, hcnt, hsz1, hsz2, _⟩ :=
      set_genR hT d child false adj v c hc hc.notInl_of_false hv hadj
    rw [hcaddr] at hflat
    have hlenAB : m.children.length = A.length + 1 + B.length := by rw [hch]; simp; omega
    have hflatm : (A ++ child :: B).flatMap (flatten d)
        = A.flatMap (flatten d) ++ flatten d child ++ B.flatMap (flatten d) := by
      simp [List.flatMap_append]
    have hold : (flatten d child).getD adj default
        = (flatten (d + 1) (ofMeta m)).getD i default := by
      rw [flatten_succ, hch, hflatm, hi2, getD_append_mid _ _ _ _ _ hadj]
    rw [hold] at hset
    -- the parent with the new child written back
    have hh : m.childHdrs = A.map (hdr d) ++ hdr d child :: B.map (hdr d) := by
      rw [hs.hdrs_eq, hch]; simp
    have hch1 : (setM1 m A.length child').children = A ++ child' :: B := by
      rw [setM1_children, hch, set_mid rfl]
    have hbook1 : Book (setM1 m A.length child') := by
      refine ⟨?_, ?_⟩
      · rw [hch1]; show m.childHdrs.set A.length (hdr d child') = _
        rw [hh, set_mid (by simp)]; simp
      · show m.countSum = prefixSums (m.childHdrs.set A.length (hdr d child')) 0
        rw [hs.sums_eq, hh, set_mid (by simp), prefixSums_mid, prefixSums_mid, hcnt]
    have hcount1 : (setM1 m A.length child').hdr.count
        = sumCounts ((setM1 m A.length child').children.map (hdr d)) := by
      rw [hch1, setM1_hdr, hs.count_eq, hs.hdrs_eq, hch]
      simp only [List.map_append, List.map_cons, sumCounts_append, sumCounts_cons, hcnt]
    have haddr1 : ∀ t ∈ (setM1 m A.length child').children, (hdr d t).id.addr = m.hdr.id.addr := by
      rw [hch1]
      intro t ht
      simp only [List.mem_append, List.mem_cons] at ht
      rcases ht with ht | rfl | ht
      · exact hs.kids_addr t (by rw [hch]; simp [ht])
      · rw [hstep.id_eq]; exact hcaddr
      · exact hs.kids_addr t (by rw [hch]; simp [ht])
    have hfin : ∀ (m2 : MetaSlab (ATree d)) (c2 : Ctx),
        Tail T d (setM1 m A.length child') m2 c1.ctr c2.ctr →
        afterSet T (setM1 m A.length child') child' A.length c1 = .ok (m2, c2) →
        ∃ t' c', ATree.set T (d + 1) (ofMeta m) i v c
            = .ok ((flatten (d + 1) (ofMeta m)).getD i default, t', c') ∧
          StepOk T (d + 1) top (ofMeta m) t' c.ctr c'.ctr ∧
          flatten (d + 1) t' = (flatten (d + 1) (ofMeta m)).set i
            (toStorable T (hdr (d + 1) (ofMeta m)).id.addr v c).1 ∧
          (hdr (d + 1) t').count = (hdr (d + 1) (ofMeta m)).count ∧
          (hdr (d + 1) t').size ≤ (hdr (d + 1) (ofMeta m)).size + maxInlineArr T ∧
          (hdr (d + 1) (ofMeta m)).size ≤ (hdr (d + 1) t').size + maxInlineArr T ∧
          (d + 1 ≠ 0 → (hdr (d + 1) (ofMeta m)).size ≤ (hdr (d + 1) t').size + 14) := by
      intro m2 c2 htail heq
      obtain ⟨a1, a2, a3, a4, a5, a6⟩ := assemble (m := m) (m1 := setM1 m A.length child') (A := A)
        (B := B) (child := child) (child' := child') hs hch hch1 rfl rfl rfl hcount1 hstep.repl htail
      have hl1 := htail.len_le
      have hl2 := htail.len_ge
      rw [hch1] at hl1 hl2
      simp only [List.length_append, List.length_cons] at hl1 hl2
      refine ⟨ofMeta m2, c2, set_succ_ok m m2 i A.length adj v _ c c1 c2 child child' hroute hget hset heq,
        ⟨(shape_succ T d top m2).2 a1, by simpa using a3, a2⟩, ?_, a5, ?_, ?_, ?_⟩
      · rw [a4, flatten_succ, hflat, hch, hi2, hdr_succ, hflatm, set_append_mid _ _ _ _ _ hadj]
      · simp only [hdr_succ]; have := F.lo; have := F.inlE; omega
      · simp only [hdr_succ]; have := F.lo; have := F.inlE; omega
      · intro _; simp only [hdr_succ]; omega
    have hcmax := hc.le_max
    have hcmin := hc.ge_min
    by_cases hfull : ATree.isFull T d child' = true
    · have hlo := (isFull_iff T d child').1 hfull
      obtain ⟨m2, c2, hsp, hc2, htail, _⟩ := tail_split hT _ A B child' A.length c1 hbook1 hch1 rfl
        hA hB hstep.shape hlo (by omega)
      exact hfin m2 c2 htail (by rw [afterSet_full _ _ _ _ hfull]; exact hsp)
    · have hnf : ¬ maxThr T < (hdr d child').size := fun h => hfull ((isFull_iff T d child').2 h)
      by_cases hu : (hdr d child').size < minThr T
      · obtain ⟨m2, c2, hmr, hc2, htail, _⟩ := mergeOrRebalance_spec hT _ A B child' A.length c1
          m.hdr.id.addr hbook1 hch1 rfl hA hB hstep.shape hu (by omega) haddr1
          (by rw [setM1_hdr, hksz, F.hsz]; omega)
        refine hfin m2 c2 (by rw [hc2]; exact htail) ?_
        rw [afterSet_under _ _ _ _ hfull hu]; exact hmr
      · have hc' : TreeInv T d false child' :=
          (treeInv_false_iff T d child').2 ⟨hstep.shape, by omega, by omega⟩
        refine hfin _ (c1.emit (.store (setM1 m A.length child').hdr.id)) ?_
          (afterSet_none _ _ _ _ hfull (by omega))
        refine Tail.refl c1.ctr ?_ hbook1
        rw [hch1]
        intro t ht
        simp only [List.mem_append, List.mem_cons] at ht
        rcases ht with ht | rfl | ht
        · exact hA t ht
        · exact hc'
        · exact hB t ht

end Atree

namespace Atree
open Gen ATree MetaSlab

variable {T : Nat}

theorem ATree.split_ctr_eq : ∀ {d : Nat} {t l r : ATree d} {c c' : Ctx},
    ATree.split d t c = .ok (l, r, c') → c'.ctr = c.ctr + 1
  | 0, t, l, r, c, c', h => by
    simp only [ATree.split, DataSlab.split] at h
    split at h
    · cases h
    · cases h; rfl
  | d + 1, t, l, r, c, c', h => by
    simp only [ATree.split, MetaSlab.split] at h
    split at h
    · cases h
    · cases h; rfl

theorem Arr.splitRoot_ctr_le {a a' : Arr} {c c' : Ctx} (h : a.splitRoot c = .ok (a', c')) :
    c.ctr ≤ c'.ctr := by
  obtain ⟨d, t, ty⟩ := a
  rw [splitRoot_eq] at h
  simp only [bind, Except.bind, pure, Except.pure] at h
  split at h
  · cases h
  · rename_i p hp
    obtain ⟨l, r, c2⟩ := p
    cases h
    have := ATree.split_ctr_eq hp
    simp only [Ctx.emit_ctr, Ctx.alloc_ctr] at this ⊢
    omega

theorem arr_insert_okR (hT : legalThreshold T = true) (a : Arr) (c : Ctx) (i : Nat) (v : Elem)
    (hv : StorOk T v) (h : ArrInv T a c.ctr) (hcount : a.count < maxArrayElementCount)
    (hi : i ≤ a.toList.length) :
    ∃ a' c', a.insert T i v c = .ok (a', c') ∧ ArrInv T a' c'.ctr ∧
      a'.toList = a.toList.insertIdx i (toStorable T a.addr v c).1 ∧
      a'.rootID = a.rootID ∧ a'.ty = a.ty ∧ c.ctr ≤ c'.ctr := by
  obtain ⟨d, t, ty⟩ := a
  have hcount : (hdr d t).count < maxArrayElementCount := hcount
  have hi : i ≤ (flatten d t).length := hi
  obtain ⟨t', c1, hins, hstep, hflat, hcnt, hsz1, hsz2⟩ :=
    insert_genR hT d t true i v c h.tree h.notInl hv hi
  have hne : ¬ (hdr d t).count = maxArrayElementCount := by omega
  have hchain := repl_single_chain hstep.repl h.chain
  have hids : IdsOk (hdr d t').id.addr c1.ctr (slabIds d t') := by
    rw [hstep.id_eq]; exact repl_single_ids hstep.repl _ h.ids
  have hcnt' : (hdr d t').count < maxArrayElementCount + 1 := by omega
  have hmax : (hdr d t).size ≤ maxThr T := h.tree.le_max
  have hunf : Arr.insert T ⟨d, t, ty⟩ i v c =
      if ATree.isFull T d t' = true then Arr.splitRoot ⟨d, t', ty⟩ c1 else .ok (⟨d, t', ty⟩, c1) := by
    unfold Arr.insert
    show (if (hdr d t).count = maxArrayElementCount then _ else _) = _
    rw [if_neg hne]
    show (ATree.insert T d t i v c >>= _) = _
    rw [hins]; rfl
  rw [hunf]
  by_cases hfull : ATree.isFull T d t' = true
  · rw [if_pos hfull]
    have hlo := (isFull_iff T d t').1 hfull
    obtain ⟨a2, c2, hsr, hinv2, hl2, hid2, hty2, _⟩ :=
      splitRoot_spec hT d t' ty c1 hstep.shape hlo (by omega) hchain hids hcnt'
    exact ⟨a2, c2, hsr, hinv2, by rw [hl2, hflat]; rfl, by rw [hid2, hstep.id_eq]; rfl, hty2,
      Nat.le_trans hstep.repl.ctr (Arr.splitRoot_ctr_le hsr)⟩
  · rw [if_neg hfull]
    have hnf : ¬ maxThr T < (hdr d t').size := fun hh => hfull ((isFull_iff T d t').2 hh)
    refine ⟨⟨d, t', ty⟩, c1, rfl, ?_, by show flatten d t' = _; rw [hflat]; rfl,
      by show (hdr d t').id = _; rw [hstep.id_eq]; rfl, rfl, hstep.repl.ctr⟩
    refine arrInv_of_shape hstep.shape (by omega) ?_ hchain hids hcnt'
    -- the number of children of a top index slab did not shrink
    have hk := ((treeInv_iff T d true t).1 ⟨h.tree, h.notInl⟩).2.2.2 rfl
    revert hk hsz1
    have hsh' := hstep.shape
    have hsh := h.shape
    revert hsh hsh'
    cases d with
    | zero => intros; trivial
    | succ d =>
      refine forall_ofMeta ?_ t; intro m
      refine forall_ofMeta ?_ t'; intro m'
      intro hsh' hsh hsz1 hk
      have e1 := ((shape_succ T d true m).1 hsh).kids_of_size
      have e2 := ((shape_succ T d true m').1 hsh').kids_of_size
      simp only [topKids_succ, hdr_succ] at hk hsz1 ⊢
      omega

theorem arr_set_okR (hT : legalThreshold T = true) (a : Arr) (c : Ctx) (i : Nat) (v : Elem)
    (hv : StorOk T v) (h : ArrInv T a c.ctr) (hi : i < a.toList.length) :
    ∃ a' c', a.set T i v c = .ok (a.toList.getD i default, a', c') ∧ ArrInv T a' c'.ctr ∧
      a'.toList = a.toList.set i (toStorable T a.addr v c).1 ∧
      a'.rootID = a.rootID ∧ a'.ty = a.ty ∧ c.ctr ≤ c'.ctr := by
  obtain ⟨d, t, ty⟩ := a
  have hi : i < (flatten d t).length := hi
  obtain ⟨t', c1, hset, hstep, hflat, hcnt, hsz1, hsz2, hsz3⟩ :=
    set_genR hT d t true i v c h.tree h.notInl hv hi
  have hchain := repl_single_chain hstep.repl h.chain
  have hids : IdsOk (hdr d t').id.addr c1.ctr (slabIds d t') := by
    rw [hstep.id_eq]; exact repl_single_ids hstep.repl _ h.ids
  have hcnt' : (hdr d t').count < maxArrayElementCount + 1 := by rw [hcnt]; exact h.count_lt
  have hmax : (hdr d t).size ≤ maxThr T := h.tree.le_max
  have h40 : d ≠ 0 → 40 ≤ (hdr d t).size := fun hd => top_size_ge h.tree hd
  show ∃ a' c', Arr.set T ⟨d, t, ty⟩ i v c = .ok ((flatten d t).getD i default, a', c') ∧ _
  by_cases hfull : ATree.isFull T d t' = true
  · have hunf : Arr.set T ⟨d, t, ty⟩ i v c =
        Arr.splitRoot ⟨d, t', ty⟩ c1 >>= fun p =>
          pure ((flatten d t).getD i default, (p.1.promoteIfSingleChild p.2).1,
            (p.1.promoteIfSingleChild p.2).2) := by
      unfold Arr.set
      show (ATree.set T d t i v c >>= _) = _
      rw [hset]
      show (if ATree.isFull T d t' = true then _ else _) = _
      rw [if_pos hfull]
    rw [hunf]
    have hlo := (isFull_iff T d t').1 hfull
    obtain ⟨a2, c2, hsr, hinv2, hl2, hid2, hty2, hprom⟩ :=
      splitRoot_spec hT d t' ty c1 hstep.shape hlo (by omega) hchain hids hcnt'
    refine ⟨a2, c2, ?_, hinv2, by rw [hl2, hflat]; rfl, by rw [hid2, hstep.id_eq]; rfl, hty2,
      Nat.le_trans hstep.repl.ctr (Arr.splitRoot_ctr_le hsr)⟩
    rw [hsr]
    show Except.ok (_, (a2.promoteIfSingleChild c2).1, (a2.promoteIfSingleChild c2).2) = _
    rw [hprom c2]
  · have hunf : Arr.set T ⟨d, t, ty⟩ i v c =
        .ok ((flatten d t).getD i default, ((⟨d, t', ty⟩ : Arr).promoteIfSingleChild c1).1,
            ((⟨d, t', ty⟩ : Arr).promoteIfSingleChild c1).2) := by
      unfold Arr.set
      show (ATree.set T d t i v c >>= _) = _
      rw [hset]
      show (if ATree.isFull T d t' = true then _ else _) = _
      rw [if_neg hfull]; rfl
    rw [hunf]
    have hnf : ¬ maxThr T < (hdr d t').size := fun hh => hfull ((isFull_iff T d t').2 hh)
    obtain ⟨p1, p2, p3, p4⟩ := promote_spec hT d t' ty c1 hstep.shape (by omega)
      (fun hd => by have := h40 hd; have := hsz3 hd; omega) hchain hids hcnt'
    exact ⟨_, _, rfl, p1, by rw [p2, hflat]; rfl, by rw [p3, hstep.id_eq]; rfl, p4,
      by rw [promote_ctr]; exact hstep.repl.ctr⟩

theorem arr_remove_okR (hT : legalThreshold T = true) (a : Arr) (c : Ctx) (i : Nat)
    (h : ArrInv T a c.ctr) (hi : i < a.toList.length) :
    ∃ a' c', a.remove T i c = .ok (a.toList.getD i default, a', c') ∧ ArrInv T a' c'.ctr ∧
      a'.toList = a.toList.eraseIdx i ∧ a'.rootID = a.rootID ∧ a'.ty = a.ty ∧ c.ctr ≤ c'.ctr := by
  obtain ⟨d, t, ty⟩ := a
  have hi : i < (flatten d t).length := hi
  obtain ⟨t', c1, hrem, hstep, hflat, hcnt, hsz1, hsz2, hsz3⟩ :=
    remove_gen hT d t true i c h.tree h.notInl hi
  have hchain := repl_single_chain hstep.repl h.chain
  have hids : IdsOk (hdr d t').id.addr c1.ctr (slabIds d t') := by
    rw [hstep.id_eq]; exact repl_single_ids hstep.repl _ h.ids
  have hcnt0 : (hdr d t).count < maxArrayElementCount + 1 := h.count_lt
  have hcnt' : (hdr d t').count < maxArrayElementCount + 1 := by omega
  have hmax : (hdr d t).size ≤ maxThr T := h.tree.le_max
  have hunf : Arr.remove T ⟨d, t, ty⟩ i c =
      .ok ((flatten d t).getD i default, ((⟨d, t', ty⟩ : Arr).promoteIfSingleChild c1).1,
          ((⟨d, t', ty⟩ : Arr).promoteIfSingleChild c1).2) := by
    unfold Arr.remove
    show (ATree.remove T d t i c >>= _) = _
    rw [hrem]; rfl
  have h40 : d ≠ 0 → 40 ≤ (hdr d t).size := fun hd => top_size_ge h.tree hd
  obtain ⟨p1, p2, p3, p4⟩ := promote_spec hT d t' ty c1 hstep.shape (by omega)
    (fun hd => by have := h40 hd; have := hsz3 hd; omega) hchain hids hcnt'
  exact ⟨_, _, hunf, p1, by rw [p2, hflat]; rfl, by rw [p3, hstep.id_eq]; rfl, p4,
    by rw [promote_ctr]; exact hstep.repl.ctr⟩

end Atree
