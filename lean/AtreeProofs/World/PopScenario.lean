import AtreeProofs.World.PopEval
import AtreeProofs.World.Scenario
/-
  Concrete runs of the model used by the non-vacuity sections of C10Pop (T = 256).
  * run A: root array `R` ∋ inlined child array `X` ∋ [20-byte value, inlined grandchild array `Y`
    (holding one value), 20-byte value]; then `arrPop X` (`aP`).  Also: `X` removed from `R`
    (`a9`), then `arrPop` of the DETACHED `X` (`aD`).
  * run B: the same shape, but `X` holds four 100-byte values besides `Y`: it is a standalone
    two-level tree (root index slab `X` over the data slabs ⟨1,4⟩, ⟨1,5⟩); then `arrPop X` (`bP`).
  * run M: root array `R` ∋ inlined child MAP `M` ∋ {k1 ↦ value, k2 ↦ inlined array `Y`}; then
    `mapPop M` (`mP`); also `M` removed from `R` (`m8`) and `mapPop` of the detached `M` (`mD`).
  * run N: root MAP `M0` ∋ {k1 ↦ inlined child array `X` ∋ [value, inlined array `Y` ∋ [value]]}; then
    `arrPop X` (`nP`).
  * run Q: root map `M0` ∋ {k1 ↦ STANDALONE child map `M` (105 bytes) ∋ {k2 ↦ value, k1 ↦ inlined array `Y`}};
    then `mapPop M` (`qP`).
  All states are computed with the kernel-evaluable copies (`…S`), which are equal to the model.
-/
namespace Atree.PopScenario
open Atree Gen World
open Atree.Scenario (w0 cx0 okW okE eq_okW eq_okE R X pl arrOf)

def Y : SlabID := ⟨1, 3⟩
/-- the map child has the ID of the second allocation, like `X` -/
def M : SlabID := ⟨1, 2⟩

def okL (r : Except WErr (List Elem × World × Ctx)) : List Elem × World × Ctx :=
  match r with | .ok x => x | .error _ => ([], w0, cx0)
def okK (r : Except WErr (List (MKey × Elem) × World × Ctx)) : List (MKey × Elem) × World × Ctx :=
  match r with | .ok x => x | .error _ => ([], w0, cx0)
def okM (r : Except WErr (Option Elem × World × Ctx)) : Option Elem × World × Ctx :=
  match r with | .ok x => x | .error _ => (none, w0, cx0)

theorem eq_okL (r : Except WErr (List Elem × World × Ctx)) (h : r.toBool = true) : r = .ok (okL r) := by
  cases r with
  | ok x => rfl
  | error e => cases h
theorem eq_okK (r : Except WErr (List (MKey × Elem) × World × Ctx)) (h : r.toBool = true) : r = .ok (okK r) := by
  cases r with
  | ok x => rfl
  | error e => cases h
theorem eq_okM (r : Except WErr (Option Elem × World × Ctx)) (h : r.toBool = true) : r = .ok (okM r) := by
  cases r with
  | ok x => rfl
  | error e => cases h

/-- a plain 100-byte value -/
def big (n : Nat) : WVal := .plain { size := 100, pay := .val n }

/-! ### run A -/
def a1 : SlabID × World × Ctx := w0.newArr 7 cx0
def a2 : SlabID × World × Ctx := a1.2.1.newArr 8 a1.2.2
def a3 : SlabID × World × Ctx := a2.2.1.newArr 9 a2.2.2
def a4 : World × Ctx := okW (a3.2.1.arrInsertS R 0 (.child X 0) a3.2.2)
def a5 : World × Ctx := okW (a4.1.arrInsertS X 0 (pl 1) a4.2)
def a6 : World × Ctx := okW (a5.1.arrInsertS X 1 (.child Y 0) a5.2)
def a7 : World × Ctx := okW (a6.1.arrInsertS Y 0 (pl 2) a6.2)
def a8 : World × Ctx := okW (a7.1.arrInsertS X 2 (pl 3) a7.2)
/-- `arrPop X` -/
def aP : List Elem × World × Ctx := okL (a8.1.arrPopS X a8.2)
/-- `X` removed from `R` … -/
def a9 : Elem × World × Ctx := okE (a8.1.arrRemoveS R 0 a8.2)
/-- … then `arrPop` of the detached `X` -/
def aD : List Elem × World × Ctx := okL (a9.2.1.arrPopS X a9.2.2)

/-! ### run B -/
def b5 : World × Ctx := okW (a4.1.arrInsertS X 0 (.child Y 0) a4.2)
def b6 : World × Ctx := okW (b5.1.arrInsertS Y 0 (pl 2) b5.2)
def b7 : World × Ctx := okW (b6.1.arrInsertS X 1 (big 1) b6.2)
def b8 : World × Ctx := okW (b7.1.arrInsertS X 2 (big 2) b7.2)
def b9 : World × Ctx := okW (b8.1.arrInsertS X 3 (big 3) b8.2)
def b10 : World × Ctx := okW (b9.1.arrInsertS X 4 (big 4) b9.2)
def bP : List Elem × World × Ctx := okL (b10.1.arrPopS X b10.2)

/-! ### run M -/
def k1 : MKey := ⟨10, 1, [1, 1, 1, 1]⟩
def k2 : MKey := ⟨10, 2, [2, 2, 2, 2]⟩
def m2 : SlabID × World × Ctx := a1.2.1.newMap 8 5 a1.2.2
def m3 : SlabID × World × Ctx := m2.2.1.newArr 9 m2.2.2
def m4 : World × Ctx := okW (m3.2.1.arrInsertS R 0 (.child M 0) m3.2.2)
def m5 : Option Elem × World × Ctx := okM (m4.1.mapSetS M k1 (pl 1) m4.2)
def m6 : Option Elem × World × Ctx := okM (m5.2.1.mapSetS M k2 (.child Y 0) m5.2.2)
def m7 : World × Ctx := okW (m6.2.1.arrInsertS Y 0 (pl 2) m6.2.2)
/-- `mapPop M` -/
def mP : List (MKey × Elem) × World × Ctx := okK (m7.1.mapPopS M m7.2)
def m8 : Elem × World × Ctx := okE (m7.1.arrRemoveS R 0 m7.2)
/-- `mapPop` of the detached `M` -/
def mD : List (MKey × Elem) × World × Ctx := okK (m8.2.1.mapPopS M m8.2.2)

/-! ### run N -/
def M0 : SlabID := ⟨1, 1⟩
def n1 : SlabID × World × Ctx := w0.newMap 7 5 cx0
def n2 : SlabID × World × Ctx := n1.2.1.newArr 8 n1.2.2
def n3 : SlabID × World × Ctx := n2.2.1.newArr 9 n2.2.2
def n4 : Option Elem × World × Ctx := okM (n3.2.1.mapSetS M0 k1 (.child X 0) n3.2.2)
def n5 : World × Ctx := okW (n4.2.1.arrInsertS X 0 (pl 1) n4.2.2)
def n6 : World × Ctx := okW (n5.1.arrInsertS X 1 (.child Y 0) n5.2)
def n7 : World × Ctx := okW (n6.1.arrInsertS Y 0 (pl 2) n6.2)
/-- `arrPop X` -/
def nP : List Elem × World × Ctx := okL (n7.1.arrPopS X n7.2)

/-! ### run Q -/
def q2 : SlabID × World × Ctx := n1.2.1.newMap 8 6 n1.2.2
def q3 : SlabID × World × Ctx := q2.2.1.newArr 9 q2.2.2
def q4 : Option Elem × World × Ctx := okM (q3.2.1.mapSetS M0 k1 (.child M 0) q3.2.2)
def q5 : Option Elem × World × Ctx := okM (q4.2.1.mapSetS M k2 (pl 1) q4.2.2)
def q6 : Option Elem × World × Ctx := okM (q5.2.1.mapSetS M k1 (.child Y 0) q5.2.2)
def q7 : World × Ctx := okW (q6.2.1.arrInsertS Y 0 (pl 2) q6.2.2)
/-- `mapPop M` -/
def qP : List (MKey × Elem) × World × Ctx := okK (q7.1.mapPopS M q7.2)

/-- the map a container is, or an empty one -/
def mapOf (w : World) (v : SlabID) : OMap 3 :=
  match w.cont? v with
  | some (.map m) => m
  | _ => (OMap.new 0 0 (fun _ => 0) cx0).1

/-- every step of the runs is a successful run of the MODEL operation -/
theorem runA_ok :
    a1.1 = R ∧ a2.1 = X ∧ a3.1 = Y ∧
    a3.2.1.arrInsert R 0 (.child X 0) a3.2.2 = .ok a4 ∧
    a4.1.arrInsert X 0 (pl 1) a4.2 = .ok a5 ∧ a5.1.arrInsert X 1 (.child Y 0) a5.2 = .ok a6 ∧
    a6.1.arrInsert Y 0 (pl 2) a6.2 = .ok a7 ∧ a7.1.arrInsert X 2 (pl 3) a7.2 = .ok a8 ∧
    a8.1.arrPop X a8.2 = .ok aP ∧
    a8.1.arrRemove R 0 a8.2 = .ok a9 ∧ a9.2.1.arrPop X a9.2.2 = .ok aD := by
  simp only [arrInsert_eq_S, arrRemove_eq_S, arrPop_eq_S]
  refine ⟨by decide, by decide, by decide, ?_, ?_, ?_, ?_, ?_, ?_, ?_, ?_⟩
  · apply eq_okW; decide
  · apply eq_okW; decide
  · apply eq_okW; decide
  · apply eq_okW; decide
  · apply eq_okW; decide
  · apply eq_okL; decide
  · apply eq_okE; decide
  · apply eq_okL; decide

theorem runB_ok :
    a4.1.arrInsert X 0 (.child Y 0) a4.2 = .ok b5 ∧ b5.1.arrInsert Y 0 (pl 2) b5.2 = .ok b6 ∧
    b6.1.arrInsert X 1 (big 1) b6.2 = .ok b7 ∧ b7.1.arrInsert X 2 (big 2) b7.2 = .ok b8 ∧
    b8.1.arrInsert X 3 (big 3) b8.2 = .ok b9 ∧ b9.1.arrInsert X 4 (big 4) b9.2 = .ok b10 ∧
    b10.1.arrPop X b10.2 = .ok bP := by
  simp only [arrInsert_eq_S, arrPop_eq_S]
  refine ⟨?_, ?_, ?_, ?_, ?_, ?_, ?_⟩
  · apply eq_okW; decide
  · apply eq_okW; decide
  · apply eq_okW; decide
  · apply eq_okW; decide
  · apply eq_okW; decide
  · apply eq_okW; decide
  · apply eq_okL; decide

theorem runM_ok :
    m2.1 = M ∧ m3.1 = Y ∧
    m3.2.1.arrInsert R 0 (.child M 0) m3.2.2 = .ok m4 ∧
    m4.1.mapSet M k1 (pl 1) m4.2 = .ok m5 ∧ m5.2.1.mapSet M k2 (.child Y 0) m5.2.2 = .ok m6 ∧
    m6.2.1.arrInsert Y 0 (pl 2) m6.2.2 = .ok m7 ∧
    m7.1.mapPop M m7.2 = .ok mP ∧
    m7.1.arrRemove R 0 m7.2 = .ok m8 ∧ m8.2.1.mapPop M m8.2.2 = .ok mD := by
  simp only [arrInsert_eq_S, arrRemove_eq_S, mapSet_eq_S, mapPop_eq_S]
  refine ⟨by decide, by decide, ?_, ?_, ?_, ?_, ?_, ?_, ?_⟩
  · apply eq_okW; decide
  · apply eq_okM; decide
  · apply eq_okM; decide
  · apply eq_okW; decide
  · apply eq_okK; decide
  · apply eq_okE; decide
  · apply eq_okK; decide

theorem runN_ok :
    n1.1 = M0 ∧ n2.1 = X ∧ n3.1 = Y ∧
    n3.2.1.mapSet M0 k1 (.child X 0) n3.2.2 = .ok n4 ∧
    n4.2.1.arrInsert X 0 (pl 1) n4.2.2 = .ok n5 ∧ n5.1.arrInsert X 1 (.child Y 0) n5.2 = .ok n6 ∧
    n6.1.arrInsert Y 0 (pl 2) n6.2 = .ok n7 ∧
    n7.1.arrPop X n7.2 = .ok nP := by
  simp only [arrInsert_eq_S, mapSet_eq_S, arrPop_eq_S]
  refine ⟨by decide, by decide, by decide, ?_, ?_, ?_, ?_, ?_⟩
  · apply eq_okM; decide
  · apply eq_okW; decide
  · apply eq_okW; decide
  · apply eq_okW; decide
  · apply eq_okL; decide

theorem runQ_ok :
    q2.1 = M ∧ q3.1 = Y ∧
    q3.2.1.mapSet M0 k1 (.child M 0) q3.2.2 = .ok q4 ∧
    q4.2.1.mapSet M k2 (pl 1) q4.2.2 = .ok q5 ∧ q5.2.1.mapSet M k1 (.child Y 0) q5.2.2 = .ok q6 ∧
    q6.2.1.arrInsert Y 0 (pl 2) q6.2.2 = .ok q7 ∧
    q7.1.mapPop M q7.2 = .ok qP := by
  simp only [arrInsert_eq_S, mapSet_eq_S, mapPop_eq_S]
  refine ⟨by decide, by decide, ?_, ?_, ?_, ?_, ?_⟩
  · apply eq_okM; decide
  · apply eq_okM; decide
  · apply eq_okM; decide
  · apply eq_okW; decide
  · apply eq_okK; decide

end Atree.PopScenario
