import AtreeProofs.World.HeapPop
import AtreeProofs.World.HeapMapPop
/-
  World-level heap accounting, part 6: `OrderedMap.PopIterate` through a handle (`mapPopKeep`, `mapPop`),
  standalone or inlined (an inlined map may own external collision-group slabs: they are removed).
-/
namespace Atree
open Gen

namespace World

variable {D : SlabID → DigestFn 4} {rank : SlabID → Nat}

/-- a container is emptied in place: `E0` removes exactly the slabs `K` below the root; a standalone
    root is then rewritten -/
theorem cacct_pop {pc pc' : Cont} {K : List SlabID} {E0 : List Eff} {ctr : Nat}
    (hinl : pc'.isInlined = pc.isInlined) (ht : pc.treeIds = pc.vid :: K) (ht' : pc'.treeIds = [pc.vid])
    (hE1 : ∀ e ∈ E0, ∃ id ∈ K, e = Eff.remove id) (hE2 : ∀ id ∈ K, Eff.remove id ∈ E0) (hnd : pc.treeIds.Nodup) :
    CAcct ctr ctr pc pc' (if pc.isInlined then E0 else E0 ++ [.store pc.vid]) [] := by
  have hrem : ∀ e ∈ E0, ∃ i, e = Eff.remove i := fun e he => by
    obtain ⟨id, _, rfl⟩ := hE1 e he; exact ⟨id, rfl⟩
  have hlr := fun id => lastAction_only_removes E0 hrem id
  have hridK : pc.vid ∉ K := by rw [ht] at hnd; exact (List.nodup_cons.1 hnd).1
  have hKt : ∀ id ∈ K, id ∈ pc.treeIds := fun id hid => by rw [ht]; exact List.mem_cons_of_mem _ hid
  have htouch : ∀ id, lastAction E0 id ≠ none → id ∈ K := by
    intro id h1
    cases hl : lastAction E0 id with
    | none => exact absurd hl h1
    | some b =>
      cases b with
      | true => exact absurd hl (hlr id).2
      | false =>
        obtain ⟨j, hj, he⟩ := hE1 _ ((hlr id).1.1 hl)
        cases he; exact hj
  cases hi : pc.isInlined
  · simp only [Bool.false_eq_true, if_false]
    have hla : ∀ id, lastAction (E0 ++ [.store pc.vid]) id = if pc.vid = id then some true else lastAction E0 id :=
      fun id => lastAction_concat_store E0 pc.vid id
    have hh : pc.heapIds = pc.vid :: K := by rw [Cont.heapIds_of_standalone hi, ht]
    have hh' : pc'.heapIds = [pc.vid] := by rw [Cont.heapIds_of_standalone (hinl.trans hi), ht']
    refine ⟨Nat.le_refl _, ?_, ?_, ?_, ?_, ?_, by simp, ?_⟩
    · intro p hp
      right
      have : p.1 ∈ pc'.heapIds := mem_keys_of_mem hp
      rw [hh', List.mem_singleton] at this
      rw [hla, if_pos this.symm]
    · intro id h1 h2
      rw [hh] at h1; rw [hh', List.mem_singleton] at h2
      rcases List.mem_cons.1 h1 with e | e
      · exact absurd e h2
      · rw [hla, if_neg (fun e1 => h2 e1.symm)]
        exact (hlr id).1.2 (hE2 id e)
    · intro id h1
      rw [hla] at h1
      split at h1
      · rename_i e; left; rw [hh']; exact List.mem_singleton.2 e.symm
      · exact absurd h1 (hlr id).2
    · intro id h1
      rw [hla] at h1
      split at h1
      · cases h1
      · rename_i e; rw [hh', List.mem_singleton]; exact fun e1 => e e1.symm
    · intro id h1
      left
      rw [hla] at h1
      split at h1
      · rename_i e; rw [← e]; exact Cont.vid_mem_treeIds pc
      · exact hKt id (htouch id h1)
    · intro id h1
      rw [ht', List.mem_singleton] at h1
      left; rw [h1]; exact Cont.vid_mem_treeIds pc
  · simp only [if_true]
    have hh : pc.heapIds = K := by rw [Cont.heapIds_of_inlined hi, ht]; rfl
    have hh' : pc'.heapIds = [] := by rw [Cont.heapIds_of_inlined (hinl.trans hi), ht']; rfl
    refine ⟨Nat.le_refl _, ?_, ?_, ?_, ?_, ?_, by simp, ?_⟩
    · intro p hp
      have : p.1 ∈ pc'.heapIds := mem_keys_of_mem hp
      rw [hh'] at this; cases this
    · intro id h1 _
      rw [hh] at h1
      exact (hlr id).1.2 (hE2 id h1)
    · intro id h1; exact absurd h1 (hlr id).2
    · intro id _; rw [hh']; simp
    · intro id h1; exact Or.inl (hKt id (htouch id h1))
    · intro id h1
      rw [ht', List.mem_singleton] at h1
      left; rw [h1]; exact Cont.vid_mem_treeIds pc

theorem cstep_map_pop {T : Nat} {Dm : DigestFn 4} {m : OMap 3} {c : Ctx}
    (h : ContOk T Dm c.ctr (.map m)) (hnd : (Cont.map m).treeIds.Nodup) :
    ∃ E, Log c (m.popIterate c).2.2 E [] ∧
      CAcct c.ctr (m.popIterate c).2.2.ctr (.map m) (.map (m.popIterate c).2.1) E [] ∧
      (Cont.map (m.popIterate c).2.1).treeIds = [m.rootID] := by
  obtain ⟨hctr, hcr⟩ := E2EM.omap_popKeep m c
  have hinl' : (Cont.map (m.popIterate c).2.1).isInlined = (Cont.map m).isInlined := rfl
  have hti' : (Cont.map (m.popIterate c).2.1).treeIds = [m.rootID] := by
    rw [Cont.treeIds_map]; rfl
  have ht : (Cont.map m).treeIds = m.rootID :: AList.keys (msub m.d m.root) := by
    rw [Cont.treeIds_map, mslabs_eq]; rfl
  -- the removes of the tree walk
  obtain ⟨E0, hE0, hE1, hE2⟩ : ∃ E0, (MTree.popIterate m.d m.root c).2.2.eff = c.eff ++ E0 ∧
      (∀ x ∈ E0, ∃ i ∈ AList.keys (msub m.d m.root), x = Eff.remove i) ∧
      ∀ id ∈ AList.keys (msub m.d m.root), Eff.remove id ∈ E0 := by
    cases hi : m.isInlined
    · exact mtree_pop_log' (T := T) (D := Dm) m.d true m.root c ((h : MapOk T Dm m c.ctr).1 hi).1.tree
    · obtain ⟨s, ty, cnt, seed, rfl, _, _, _, h4, _⟩ := (h : MapOk T Dm m c.ctr).2 hi
      exact mdata_pop_log' s c (firstOk_of_inv h4)
  have hca := cacct_pop (pc := .map m) (pc' := .map (m.popIterate c).2.1) (ctr := c.ctr) hinl' ht hti' hE1 hE2 hnd
  refine ⟨if (Cont.map m).isInlined then E0 else E0 ++ [.store (Cont.map m).vid], ?_, by rw [hctr]; exact hca, hti'⟩
  refine ⟨?_, by rw [hcr]; simp, by rw [hctr]; exact Nat.le_refl _, ?_⟩
  · have hpi : (m.popIterate c).2.2 = if m.isInlined = true then (MTree.popIterate m.d m.root c).2.2
        else (MTree.popIterate m.d m.root c).2.2.emit (.store m.rootID) := rfl
    rw [hpi]
    cases hi : m.isInlined
    · have : (Cont.map m).isInlined = false := hi
      rw [this]
      simp only [Bool.false_eq_true, if_false, Ctx.emit, hE0, List.append_assoc]
      rfl
    · have : (Cont.map m).isInlined = true := hi
      rw [this]
      simp only [if_true, hE0]
  · intro addr id hm
    have : Eff.alloc addr id ∈ E0 := by
      split at hm
      · exact hm
      · rcases List.mem_append.1 hm with h1 | h1
        · exact h1
        · simp at h1
    obtain ⟨j, _, hj⟩ := hE1 _ this
    cases hj

theorem mapPopKeep_unfold' {w : World} {h : SlabID} {keep : List SlabID} {cx : Ctx} {m : OMap 3}
    {kvs : List (MKey × Elem)} {w' : World} {cx' : Ctx}
    (hc : w.cont? h = some (.map m)) (hp : w.mapPopKeep h keep cx = .ok (kvs, w', cx')) :
    kvs = (m.popIterate cx).1 ∧
    ∃ fuel, notifyParent fuel
      ((w.setCont h (.map (m.popIterate cx).2.1)).forgetElems (disposed keep ((m.popIterate cx).1.map (·.2))))
      h (m.popIterate cx).2.2 = .ok (w', cx') := by
  unfold mapPopKeep at hp
  rw [hc] at hp
  simp only at hp
  split at hp
  · cases hp
  · rename_i w1 cx1 hn
    cases hp
    exact ⟨rfl, _, hn⟩

/-- `OrderedMap.PopIterate` through the handle `h` -/
theorem mapPopKeep_heap {w w' : World} {h : SlabID} {keep : List SlabID} {cx cx' : Ctx} {kvs : List (MKey × Elem)}
    (H : HInv D rank w cx.ctr) (Hh : HeapOk w cx.ctr)
    (hp : w.mapPopKeep h keep cx = .ok (kvs, w', cx')) :
    ∃ (m : OMap 3) (E1 E2 : List Eff) (C : List (SlabID × Elem)),
      w.cont? h = some (.map m) ∧ Log cx cx' (E1 ++ E2) C ∧
      WAcct cx.ctr cx'.ctr w w'
        (E1 ++ dropLog (w.setCont h (.map (m.popIterate cx).2.1))
          ((w.setCont h (.map (m.popIterate cx).2.1)).forgetElems (disposed keep (kvs.map (·.2)))) ++ E2)
        (C.map (·.1)) ∧
      HeapOk w' cx'.ctr ∧
      (∀ id, Eff.remove id ∈ dropLog (w.setCont h (.map (m.popIterate cx).2.1))
          ((w.setCont h (.map (m.popIterate cx).2.1)).forgetElems (disposed keep (kvs.map (·.2)))) →
        ¬ w'.InHeap id) ∧
      (∀ x c, (w.setCont h (.map (m.popIterate cx).2.1)).cont? x = some c →
        ((w.setCont h (.map (m.popIterate cx).2.1)).forgetElems (disposed keep (kvs.map (·.2)))).cont? x = none →
        ∀ id ∈ c.heapIds, Eff.remove id ∈ dropLog (w.setCont h (.map (m.popIterate cx).2.1))
          ((w.setCont h (.map (m.popIterate cx).2.1)).forgetElems (disposed keep (kvs.map (·.2))))) := by
  obtain ⟨m, hc⟩ : ∃ m, w.cont? h = some (.map m) := by
    unfold mapPopKeep at hp
    split at hp
    · exact ⟨_, by assumption⟩
    · cases hp
  obtain ⟨hes, fuel, hn⟩ := mapPopKeep_unfold' hc hp
  have hlegal := H.legal
  have hok := H.conts h _ hc
  obtain ⟨E1, hlog1, hca, hti'⟩ := cstep_map_pop (c := cx) hok (Hh.nodup h _ hc)
  obtain ⟨hok', hctr, hinl', hvid', hse, hrs⟩ := contOk_map_pop hlegal m cx hok
  have hvid : m.rootID = h := H.ids h _ hc
  have hpaddr : h.addr = w.addr := H.addr h _ hc
  have htree : TreeOk w.addr (m.popIterate cx).2.2.ctr (.map (m.popIterate cx).2.1) := by
    rw [TreeOk, hti']
    refine ⟨by simp, ?_⟩
    intro id hid
    rw [List.mem_singleton] at hid
    subst hid
    have := Hh.treeOk hc
    have hm : m.rootID ∈ (Cont.map m).treeIds := Cont.vid_mem_treeIds (.map m)
    exact ⟨by rw [hctr]; exact (this.2 _ hm).1, (this.2 _ hm).2⟩
  obtain ⟨hacct1, hheap1⟩ := hca.lift Hh hc htree.1 htree.2
  have P1 : WPre D rank w cx.ctr (w.setCont h (.map (m.popIterate cx).2.1)) (m.popIterate cx).2.2.ctr := by
    refine ⟨H, by rw [hctr]; exact Nat.le_refl _, rfl, rfl, ?_, ?_, hheap1, ?_⟩
    · intro x c hx
      rw [cont?_setCont] at hx
      split at hx
      · rename_i e1
        cases hx
        subst e1
        refine ⟨hok', hvid, hpaddr, ?_⟩
        intro hi
        have h1 := hrs hi
        have h2 := legal_ge' hlegal
        rw [h1]
        simp only [inlinedMapDataSlabPrefixSize, hkeyElementsPrefixSize]
        show _ ≤ w.T
        omega
      · rw [hctr]
        exact ⟨H.conts x c hx, H.ids x c hx, H.addr x c hx, H.band hx⟩
    · intro q x ⟨qc, hqc, hm⟩ hx
      have hx1 : (w.cont? x).isSome := by
        rw [cont?_setCont] at hx
        split at hx
        · rename_i e1; subst e1; rw [hc]; rfl
        · exact hx
      rw [cont?_setCont] at hqc
      split at hqc
      · cases hqc
        simp only [Cont.pays, hse, List.map_nil, List.not_mem_nil] at hm
      · exact H.rank q x ⟨qc, hqc, hm⟩ hx1
    · refine closureOk_of_kind (w := w) rfl rfl ?_ H.closure
      intro z
      rw [cont?_setCont]
      split
      · rename_i e1; subst e1; rw [hc]; rfl
      · rfl
  obtain ⟨S, _, _, hgone⟩ := forgetElems_spec (disposed keep ((m.popIterate cx).1.map (·.2)))
    (w.setCont h (.map (m.popIterate cx).2.1))
  have P2 := P1.shrink S
  obtain ⟨hacct2, hheap2⟩ := shrink_heap S P1.heap
  have hfst : (m.popIterate cx).1 = m.toList.reverse := MTree.popIterate_fst m.d m.root cx
  have hsame : ∀ z, rank z < rank h →
      ((w.setCont h (.map (m.popIterate cx).2.1)).forgetElems (disposed keep ((m.popIterate cx).1.map (·.2)))).cont? z
        = w.cont? z := by
    intro z hz
    have hzh : z ≠ h := by intro e; subst e; omega
    rcases S.keep z with ⟨h1, _, _⟩ | ⟨h1, h2, _, _⟩
    · rw [h1, cont?_setCont_ne _ _ _ _ hzh]
    · exfalso
      obtain ⟨e, he, v, hpv, hr⟩ := hgone z h1 h2
      have hemem : e ∈ (Cont.map m).storedElems := by
        have := (List.mem_filter.1 he).1
        rw [hfst, List.map_reverse] at this
        exact List.mem_reverse.1 this
      have hrr : RefRankOk rank (w.setCont h (.map (m.popIterate cx).2.1)) := by
        intro u c hu e' he' v' hpv' hv'
        exact P1.rank u v' ⟨c, hu, by simp only [Cont.pays, List.mem_map]; exact ⟨e', he', hpv'⟩⟩ hv'
      have h1 := hr.rank_le hrr
      have hvlive : (w.cont? v).isSome := by
        have := hr.src_isSome
        rw [cont?_setCont] at this
        split at this
        · rename_i e1; subst e1; rw [hc]; rfl
        · exact this
      have h2 := H.rank h v ⟨_, hc, by
        simp only [Cont.pays, List.mem_map]; exact ⟨e, hemem, hpv⟩⟩ hvlive
      omega
  have hpost3 := notifyHeap D rank fuel w cx.ctr _ h _ w' cx' P2 hsame hn
  obtain ⟨E2, C, hlog3, hacct3, hheap3, _⟩ := hpost3
  have hown1 : ∀ id, (w.setCont h (.map (m.popIterate cx).2.1)).InHeap id →
      ((w.setCont h (.map (m.popIterate cx).2.1)).forgetElems (disposed keep ((m.popIterate cx).1.map (·.2)))).InTree id →
      ((w.setCont h (.map (m.popIterate cx).2.1)).forgetElems (disposed keep ((m.popIterate cx).1.map (·.2)))).InHeap id := by
    rintro id ⟨x, cx0, hx, hm⟩ ⟨z, cz, hz, hmz⟩
    have hz1 := S.some_of_some hz
    have := P1.heap.own x cx0 z cz id hx hz1 (cx0.heapIds_sub_treeIds id hm) hmz
    subst this
    rw [hx] at hz1; cases hz1
    exact ⟨x, cx0, hz, hm⟩
  refine ⟨m, E1, E2, C, hc, ?_, ?_, hheap3, ?_, ?_⟩
  · have := hlog1.trans hlog3
    simpa using this
  rotate_left
  · intro id hid hin
    rw [hes] at hid
    obtain ⟨h1, h2⟩ := (mem_dropLog _ _ id).1 hid
    obtain ⟨s, hs⟩ := (inHeap_iff w' id).1 hin
    rcases hacct3.kept id s hs with h3 | h3
    · exact h2 h3.inHeap
    · rcases hacct3.foot id (by rw [h3]; simp) with h4 | h4
      · exact h2 (hown1 id h1 h4)
      · have := P1.heap.inTree_le h1.inTree
        omega
  · intro x c hx hx2 id hid
    rw [hes] at hx2 ⊢
    refine (mem_dropLog _ _ id).2 ⟨⟨x, c, hx, hid⟩, ?_⟩
    rintro ⟨z, cz, hz, hmz⟩
    have hz1 := S.some_of_some hz
    have := P1.heap.own x c z cz id hx hz1 (c.heapIds_sub_treeIds id hid) (cz.heapIds_sub_treeIds id hmz)
    subst this
    rw [hx2] at hz; cases hz
  · have h13 := hacct1.trans hacct2 (fun id hid => Hh.inTree_le hid)
    have h14 := h13.trans hacct3 (fun id hid => Hh.inTree_le hid)
    rw [hes]
    simpa using h14

end World
end Atree
