import AtreeProofs.World.DeepPrep
import AtreeProofs.World.Notify
/-
  DEEP ACCOUNT, part 5: the tracked induction (statement `NotifyDeep`) and its step through an ARRAY
  parent.
-/
namespace Atree.Deep
open Gen World Codec
open MapHolder (StoredSince Ext)

variable {D : SlabID → DigestFn 4} {rank : SlabID → Nat}

/-- what the tracked induction delivers for a notification from `y` -/
structure NDPost (rank : SlabID → Nat) (y : SlabID) (w : World) (cx : Ctx) (w' : World) (cx' : Ctx) : Prop where
  track : UniqueRef w' → Track y w cx w' cx'
  sig : ContsSig w w'
  above : ∀ z, z ≠ y → rank y ≤ rank z → w'.cont? z = w.cont? z
  self : ∀ c, w.cont? y = some c → ∃ c', w'.cont? y = some c' ∧ FormRel c c'

/-- the statement proved by induction on the fuel: `WPre` / `hsame` as in `NotifyHeap`; the handle of
    `y` is current.  (`NDPost.track` is conditional on `UniqueRef` of the FINAL world: the chain keeps
    every signature, so this is `UniqueRef` of every world of the chain.) -/
def NotifyDeep (D : SlabID → DigestFn 4) (rank : SlabID → Nat) (fuel : Nat) : Prop :=
  ∀ w0 ctr0 w y cx w' cx', WPre D rank w0 ctr0 w cx.ctr → (∀ z, rank z < rank y → w.cont? z = w0.cont? z) →
    HandleOk w y →
    notifyParent fuel w y cx = .ok (w', cx') → NDPost rank y w cx w' cx'

/-- a notification that changes no container: nothing to account for unless `y` is inlined and held -/
theorem ndpost_same {y : SlabID} {w w' : World} {cx : Ctx} (hc : ∀ z, w'.cont? z = w.cont? z) (hT : w'.T = w.T)
    (hno : Inl w y → (∃ q, World.Holds w q y) → False) : NDPost rank y w cx w' cx := by
  refine ⟨?_, ⟨hT, fun q => by rw [hc]⟩, fun z _ _ => hc z, fun c h => ⟨c, by rw [hc]; exact h, FormRel.refl c⟩⟩
  intro _ id s hs' _ ⟨x, hx, hcase⟩
  exfalso
  rcases hcase with h | ⟨rfl, h⟩
  · exact h (Or.inl (hc x))
  · obtain ⟨q, hq⟩ := held_of_dref hs' hx
    have hq' : World.Holds w q x := by
      obtain ⟨qc, h1, h2⟩ := hq
      exact ⟨qc, by rw [← hc]; exact h1, h2⟩
    have hi : Inl w x := by
      rcases h with h | ⟨c, h1, h2⟩
      · exact h
      · exact ⟨c, by rw [← hc]; exact h1, h2⟩
    exact hno hi ⟨q, hq'⟩

theorem sig_arr_set {a a' : Arr} {idx : Nat} {e el : Elem} (hl : a'.toList = a.toList.set idx e)
    (hge : a.toList[idx]? = some el) (hp : e.pay = el.pay) : (Cont.arr a').sig = (Cont.arr a).sig := by
  simp only [Cont.sig, hl, List.map_set, Prod.mk.injEq, true_and]
  apply list_set_self
  rw [List.getElem?_map, hge, hp]; rfl

/-- the position of `.ref y` in the container `q` is unique -/
theorem uniq_pos {w : World} (hu : UniqueRef w) {q y : SlabID} {a : Arr} (hq : w.cont? q = some (.arr a))
    (hy : (w.cont? y).isSome) :
    ∀ (i j : Nat) (e1 e2 : Elem), a.toList[i]? = some e1 → a.toList[j]? = some e2 → e1.pay = .ref y → e2.pay = .ref y → i = j := by
  intro i j e1 e2 h1 h2 p1 p2
  refine (hu q q _ _ i j y hq hq ?_ ?_ hy).2
  · simp only [Cont.pays, Cont.storedElems, List.getElem?_map, h1, Option.map_some, p1]
  · simp only [Cont.pays, Cont.storedElems, List.getElem?_map, h2, Option.map_some, p2]

/-! ### the step through an ARRAY parent -/

theorem deep_arr_core {fuel : Nat} (IH : NotifyDeep D rank fuel) {w0 w : World} {ctr0 : Nat} {y : SlabID} {cx : Ctx}
    {hi : HInfo} {c : Cont} {pa : Arr} {idx : Nat} {el : Elem}
    (P : WPre D rank w0 ctr0 w cx.ctr) (hsame : ∀ z, rank z < rank y → w.cont? z = w0.cont? z)
    (hh : AList.find? w.hinfo y = some hi) (hc : w.cont? y = some c)
    (hpa : w.cont? hi.parent = some (.arr pa))
    (hge : pa.toList[idx]? = some el) (hel : el.pay = .ref y) (hpar : HandleOk w hi.parent)
    {old : Elem} {w4 : World} {cx4 : Ctx}
    (hsr : arrSetRaw fuel w hi.parent idx (.child y hi.wrap) cx = .ok (old, w4, cx4)) :
    NDPost rank y w cx w4 cx4 := by
  have hlegal := P.legal
  have hylive : (w.cont? y).isSome := by rw [hc]; rfl
  have hpy : World.Holds w hi.parent y :=
    ⟨_, hpa, by
      simp only [Cont.pays, Cont.storedElems, List.mem_map]
      exact ⟨el, List.mem_of_getElem? hge, hel⟩⟩
  have hrk : rank hi.parent < rank y := P.rank _ _ hpy hylive
  have hne : y ≠ hi.parent := by intro h; rw [← h] at hrk; omega
  obtain ⟨_, hwb⟩ := (P.closure y hi hh).1 pa hpa
  have hv : WValH rank w hi.parent (maxInlineArr w.T) (.child y hi.wrap) := ⟨hne, hrk, hwb, hylive⟩
  have hsameq : ∀ z, rank z ≤ rank hi.parent → w.cont? z = w0.cont? z := fun z hz => hsame z (by omega)
  rw [arrSetRaw] at hsr
  simp only [hpa] at hsr
  split at hsr
  · cases hsr
  · split at hsr
    · cases hsr
    · rename_i e w1 cx1 hst
      split at hsr
      · cases hsr
      · rename_i old1 a' cx2 hs
        try dsimp only at hsr
        split at hsr
        · cases hsr
        · rename_i w3 cx3 hnp
          cases hsr
          -- the transition of the child
          obtain ⟨P1, post1, hctr1, hm1, hh1, hco1, he1, he2, hepay⟩ := storableOf_pre P hv (Nat.le_refl _) hst
          have hst' : w.childStorable y hi.wrap (maxInlineArr w.T) cx = .ok (e, w1, cx1) := hst
          obtain ⟨_, _, _, _, hcoy, _, hpe⟩ := childStorable_frame hst'
          obtain ⟨c1, hc1, hfc⟩ := childStorable_form hc hst'
          have hT1 : w1.T = w.T := P1.T.trans P.T.symm
          have hp1 : w1.cont? hi.parent = some (.arr pa) := by rw [hco1 _ (Nat.le_refl _)]; exact hpa
          have hpok : ArrOk w1.T pa cx1.ctr := (P1.conts _ _ hp1).1
          have hvid : pa.rootID = hi.parent := (P1.conts _ _ hp1).2.1
          have hpaddr : hi.parent.addr = w1.addr := (P1.conts _ _ hp1).2.2.1
          have hlegal1 := P1.legal
          have hroom := P1.arr_room hp1 ((hco1 _ (Nat.le_refl _)).trans (hsameq _ (Nat.le_refl _)))
          have hve : ElemOk w1.T e := ⟨he1, by rw [hT1]; exact he2⟩
          -- the core `set`
          obtain ⟨hold, hl, hok', hinl', hrid, hty, hle, hsz⟩ := hpok.set_ok hlegal1 (StorOk.of_elemOk hve) hroom hs
          rw [toStorable_fit w1.T pa.addr e cx1 hve.2] at hl hsz
          simp only at hl hsz
          obtain ⟨E, C, hlog, hca, _, _⟩ := cstep_arr_set hlegal1 hpok hve hroom hs
          have htree : TreeOk w1.addr cx2.ctr (.arr a') := by
            have := treeOk_arr hok'
            have ha : a'.addr = w1.addr := by
              show a'.rootID.addr = w1.addr
              rw [hrid, hvid, hpaddr]
            rw [ha] at this; exact this
          have hb2 := two_inline_le w1.T hlegal1
          obtain ⟨P2, hsame2, post12⟩ := mutate_pre (w2 := w1.setCont hi.parent (.arr a')) P1
            (fun z hz => (hco1 z (Nat.le_of_lt hz)).trans (hsameq z (Nat.le_of_lt hz)))
            hp1 hlog hca hok' htree (hrid.trans hvid)
            (by
              intro hi0'
              have hi0 : pa.isInlined = true := by rw [← hinl']; exact hi0'
              have h1 := hsz hi0
              have h2 := hroom hi0
              have h3 := hve.2
              show a'.rootHdr.size ≤ w1.T
              have : pa.rootHdr.size ≤ maxInlineArr w1.T := by
                have := P1.inv0.room hi.parent (.arr pa) (by
                  rw [← hsameq _ (Nat.le_refl _), ← hco1 _ (Nat.le_refl _)]; exact hp1) hi0
                rw [← P1.T] at this
                exact this
              omega)
            rfl
            (by
              intro x hx
              simp only [Cont.pays, Cont.storedElems, hl, List.mem_map] at hx ⊢
              obtain ⟨e', he', hpe'⟩ := hx
              rcases List.mem_or_eq_of_mem_set he' with h1 | h1
              · exact Or.inl ⟨e', h1, hpe'⟩
              · subst h1; exact Or.inr (hepay x hpe'))
            (SameTab.refl _)
          -- signatures, uniqueness, handles in the world at the recursive notification
          have hS12 : ContsSig w (w1.setCont hi.parent (.arr a')) := by
            refine ⟨hT1, fun q => ?_⟩
            by_cases hq : hi.parent = q
            · subst hq
              rw [cont?_setCont_self, hpa]
              simp only [Option.map_some, Option.some.injEq]
              exact sig_arr_set hl hge (by rw [hpe, hel])
            · rw [cont?_setCont, if_neg hq]
              by_cases hqy : q = y
              · subst hqy
                rw [hc1, hc]
                simp only [Option.map_some, Option.some.injEq]
                rcases hfc with rfl | ⟨_, _, _⟩
                · rfl
                · obtain ⟨_, _, _, _, _, ⟨c0, c0', g1, g2, g3⟩, _⟩ := childStorable_frame hst'
                  rw [hc] at g1; rw [hc1] at g2; cases g1; cases g2
                  exact g3.sig_eq
              · rw [hcoy q hqy]
          have hidx12 : ∀ q z, AList.find? ((w1.setCont hi.parent (.arr a')).idxOf q) z = AList.find? (w.idxOf q) z := by
            intro q z; simp [World.idxOf, hm1]
          have hcur12 : CurKept w (w1.setCont hi.parent (.arr a')) :=
            CurKept.of_sig hS12 hidx12 (fun x hix hx _ => by simp only [hinfo_setCont, hh1]; exact hx)
          have hpar2 : HandleOk (w1.setCont hi.parent (.arr a')) hi.parent :=
            hpar.transfer (fun p x => (hS12.holds_iff p x).mp) hcur12
          -- the induction hypothesis and the account of the recursive notification
          obtain ⟨tr3, sig3, above3, self3⟩ := IH w0 ctr0 _ hi.parent cx2 w3 cx4 P2 hsame2 hpar2 hnp
          have post23 : Post (w1.setCont hi.parent (.arr a')) cx2 w3 cx4 :=
            notifyHeap D rank fuel w0 ctr0 _ hi.parent cx2 w3 cx4 P2 hsame2 hnp
          obtain ⟨qc3, hq3, hf3⟩ := self3 (.arr a') (cont?_setCont_self _ _ _)
          have h3y : w3.cont? y = some c1 := by
            rw [above3 y hne (Nat.le_of_lt hrk), cont?_setCont_ne _ _ _ _ hne]; exact hc1
          have hS13 : ContsSig w w3 := hS12.trans sig3
          have hqy3 : World.Holds w3 hi.parent y := hS13.holds hpy
          have hy2 : ((w1.setCont hi.parent (.arr a')).cont? y).isSome := by
            rw [cont?_setCont_ne _ _ _ _ hne, hc1]; rfl
          have hcw4 : ∀ z, (w3.setCallbackArr hi.parent idx (.child y hi.wrap)).cont? z = w3.cont? z :=
            fun z => cont?_setCallbackArr _ _ _ _ _
          refine ⟨?_, ?_, ?_, ?_⟩
          · intro U4
            have U3 : UniqueRef w3 := by
              refine ContsSig.uniqueRef ⟨(T_setCallbackArr _ _ _ _).symm, fun q => by rw [hcw4]⟩ U4
            have U2 : UniqueRef (w1.setCont hi.parent (.arr a')) := sig3.symm.uniqueRef U3
            -- the holder of the reference to `y`
            have hholdq : ∀ id s, (id, s) ∈ (Cont.arr a').treeSlabs → ((Cont.arr pa).isInlined = true → id ≠ hi.parent) →
                (∃ e1 ∈ C10Persist.slabElems s, e1.pay = .ref y) → StoredSince cx1 cx2 id := by
              intro id s h1 h2 h3
              refine arr_hold hlegal1 hpok hve hpe hs hinl' (uniq_pos U2 (cont?_setCont_self _ _ _) hy2) id s h1 ?_ h3
              intro hi0
              rw [hrid, hvid]
              exact h2 hi0
            exact track_step (w := w) (w1 := w1) (w2 := w1.setCont hi.parent (.arr a')) (w3 := w3) (qc := .arr pa)
              (qc' := .arr a') (c1 := c1) hne P.heap hvid hpa hcoy (cont?_setCont_self _ _ _)
              (fun z hz => cont?_setCont_ne _ _ _ _ hz) hinl' htree.1 (hrid.trans hvid)
              (ext_of_post post1) (ext_of_log hlog) (ext_of_post post23) hholdq (tr3 U3) (kept_of_post post23)
              h3y hq3 hf3 U3 hqy3 hcw4
          · exact hS13.trans ⟨T_setCallbackArr _ _ _ _, fun q => by rw [hcw4]⟩
          · intro z hzy hrz
            have hzp : z ≠ hi.parent := by intro h; rw [h] at hrz; omega
            rw [hcw4, above3 z hzp (by omega), cont?_setCont_ne _ _ _ _ hzp]
            exact hcoy z hzy
          · intro c0 hc0
            rw [hc] at hc0; cases hc0
            exact ⟨c1, by rw [hcw4]; exact h3y, hfc⟩

end Atree.Deep
