import AtreeProofs.World.PopOps
import AtreeProofs.World.MutIdx
import AtreeProofs.Props.C10
/-
  The statements of C10Pop, generically for `arrPop` and `mapPop`: `E : Emptied w h c0 w0` is the
  emptying of `h` in place, `w0.forgetElems es` the state at the call of `notifyParent`.
-/
namespace Atree
open Gen
namespace World

variable {w w0 : World} {h : SlabID} {c0 : Cont} {es : List Elem} {cxm : Ctx} {w' : World} {cx' : Ctx}

/-- (A) the emptied container keeps its identity, stays empty; without a callback nothing else happens -/
theorem pop_result_g (E : Emptied w h c0 w0) {rank : SlabID → Nat} (hr : RankOk rank w)
    (hfree : NotBelow w es h)
    (hn : notifyParent ((w0.forgetElems es).conts.length + 1 + 1) (w0.forgetElems es) h cxm = .ok (w', cx')) :
    (∃ c', w'.cont? h = some c' ∧ Cont.SameData c0 c') ∧
    w'.idxOf h = (AList.find? w0.mutIdx h).getD [] ∧
    (AList.find? w.hinfo h = none → w' = w0.forgetElems es ∧ cx' = cxm) ∧
    (IdsOk w → c0.vid = h → IdsOk w') := by
  obtain ⟨m1, m2, m3⟩ := E.mid_h hfree
  obtain ⟨n1, n2, _, n4⟩ := notify_self (E.mid_rankOk es hr) m1 hn
  refine ⟨n1, ?_, ?_, fun hids hid => n4 (E.mid_idsOk es hids hid)⟩
  · rw [n2]; simp only [idxOf, m3]
  · intro hnone
    rw [← m2] at hnone
    rw [notifyParent] at hn
    simp only [hnone] at hn
    cases hn
    exact ⟨rfl, rfl⟩

/-- (C) the parent's slot is in sync with the emptied child after the pop -/
theorem pop_updates_array_parent_g (E : Emptied w h c0 w0) {p : SlabID} {hi : HInfo} {pa : Arr} {idx : Nat} {el : Elem}
    (hh : AList.find? w.hinfo h = some hi) (hp : hi.parent = p) (hid : c0.vid = h)
    (hpa : w.cont? p = some (.arr pa)) (hidx : AList.find? (w.idxOf p) h = some idx)
    (hget : pa.get idx = .ok el) (hel : el.pay = .ref h)
    (hsync : c0.isInlined = false → el.size = World.slotSize c0 hi.wrap)
    (hmax : hi.maxInline = maxInlineArr w.T - 2 * hi.wrap)
    (rank : SlabID → Nat) (hacyc : RankOk rank w)
    (hset : ∀ (e : Elem) (c1 : Ctx) (old : Elem) (a' : Arr) (c2 : Ctx), e.pay = .ref h →
        pa.set w.T idx e c1 = .ok (old, a', c2) → a'.get idx = .ok e)
    (hfree : NotBelow w es h) (hpfree : NotBelow w es p)
    (hn : notifyParent ((w0.forgetElems es).conts.length + 1 + 1) (w0.forgetElems es) h cxm = .ok (w', cx')) :
    ∃ c' pa' el', w'.cont? h = some c' ∧ c'.vid = h ∧ c'.storedElems = [] ∧
      w'.cont? p = some (.arr pa') ∧ pa'.get idx = .ok el' ∧ el'.pay = .ref h ∧
      el'.size = World.slotSize c' hi.wrap ∧
      (c0.isInlined = false ∧ c0.inlinable hi.maxInline = false → w' = w0.forgetElems es ∧ cx' = cxm) ∧
      (¬ (c0.isInlined = false ∧ c0.inlinable hi.maxInline = false) →
        c'.isInlined = c0.inlinable hi.maxInline) := by
  have hph : p ≠ h := by
    intro hph; have := hacyc h hi hh; rw [hp, hph] at this; omega
  obtain ⟨m1, m2, _⟩ := E.mid_h hfree
  obtain ⟨o1, _, _, o4⟩ := E.mid_other hpfree hph
  have hT := E.mid_T es
  obtain ⟨c', pa', hc', hpa', hvid, hse, hstay, hgo⟩ := C10.notify_updates_array_parent
    ((w0.forgetElems es).conts.length + 1) (w0.forgetElems es) h p hi cxm c0 pa idx el
    (by rw [m2]; exact hh) hp m1 hid (by rw [o1]; exact hpa) (by rw [o4]; exact hidx) hget hel
    (by rw [hT]; exact hmax) rank (E.mid_rankOk es hacyc) (by rw [hT]; exact hset) w' cx' hn
  rw [E.empty] at hse
  by_cases hst : c0.isInlined = false ∧ c0.inlinable hi.maxInline = false
  · obtain ⟨e1, e2⟩ := hstay hst
    subst e1; subst e2
    rw [m1] at hc'; cases hc'
    rw [o1, hpa] at hpa'; cases hpa'
    exact ⟨c0, pa, el, m1, hvid, hse, by rw [o1]; exact hpa, hget, hel, hsync hst.1,
      fun _ => ⟨rfl, rfl⟩, fun hn => absurd hst hn⟩
  · obtain ⟨hinl, el', g1, g2, g3⟩ := hgo hst
    exact ⟨c', pa', el', hc', hvid, hse, hpa', g1, g2, g3, fun hs => absurd hs hst, fun _ => hinl⟩

/-- (D) exactly the popped subtree is forgotten -/
theorem pop_forgets_g (E : Emptied w h c0 w0) (hfree : NotBelow w es h)
    (hn : notifyParent ((w0.forgetElems es).conts.length + 1 + 1) (w0.forgetElems es) h cxm = .ok (w', cx')) :
    (∀ e ∈ es, ∀ v x, e.pay = .ref v → Reach w v x → w'.cont? x = none) ∧
    (∀ x, NotBelow w es x → (w'.cont? x).isSome = (w.cont? x).isSome) := by
  have d := notifyParent_domRel hn
  refine ⟨fun e he v x hp hr => ?_, fun x hx => ?_⟩
  · have := d.2.2.1 x
    rw [E.mid_gone hfree he hp hr] at this
    cases hx : w'.cont? x with
    | none => rfl
    | some c => rw [hx] at this; cases this
  · rw [d.2.2.1 x, E.mid_isSome hx]

/-- (E) a detached container notifies nobody: everything outside the popped subtree is as before -/
theorem pop_detached_g (E : Emptied w h c0 w0) {hi : HInfo}
    (hh : AList.find? w.hinfo h = some hi) (hd : Detached w h hi) (hne : hi.parent ≠ h)
    (hfree : NotBelow w es h) (hpfree : NotBelow w es hi.parent)
    (hn : notifyParent ((w0.forgetElems es).conts.length + 1 + 1) (w0.forgetElems es) h cxm = .ok (w', cx')) :
    cx' = cxm ∧ w'.cont? h = some c0 ∧
    w'.cont? hi.parent = w.cont? hi.parent ∧ w'.idxOf hi.parent = w.idxOf hi.parent ∧
    (∀ x, x ≠ h → NotBelow w es x → w'.cont? x = w.cont? x ∧ w'.idxOf x = w.idxOf x) := by
  obtain ⟨m1, m2, _⟩ := E.mid_h hfree
  obtain ⟨o1, _, _, o4⟩ := E.mid_other hpfree hne
  have hd' : Detached (w0.forgetElems es) h hi := by
    unfold Detached
    rw [o1, o4, E.mid_mcfg es]
    exact hd
  have key : cx' = cxm ∧ (∀ y, w'.cont? y = (w0.forgetElems es).cont? y) ∧
      (∀ y, w'.idxOf y = (w0.forgetElems es).idxOf y) := by
    rcases notify_detached (fuel := (w0.forgetElems es).conts.length + 1) (cx := cxm)
      (by rw [m2]; exact hh) m1 hd' with r | r
    · rw [r] at hn; cases hn; exact ⟨rfl, fun _ => rfl, fun _ => rfl⟩
    · rw [r] at hn; cases hn; exact ⟨rfl, fun _ => rfl, fun _ => rfl⟩
  obtain ⟨k1, k2, k3⟩ := key
  refine ⟨k1, by rw [k2]; exact m1, by rw [k2]; exact o1, by rw [k3]; exact o4, fun x hx hnb => ?_⟩
  obtain ⟨p1, _, _, p4⟩ := E.mid_other hnb hx
  exact ⟨by rw [k2]; exact p1, by rw [k3]; exact p4⟩

/-- (B) `MutIdxOk` (with the array invariant `I`) holds at the call of `notifyParent` … -/
theorem mid_mInv (E : Emptied w h c0 w0) {I : Arr → Prop} (hinv : MInv I w)
    (hI0 : ∀ a0, c0 = .arr a0 → I a0 ∧ w0.idxOf h = []) (es : List Elem) :
    MInv I (w0.forgetElems es) := by
  have s := E.mid_shrink es
  refine ⟨fun q a hq => ?_, fun q a hq x i hx => ?_⟩
  · have hq0 := s.some_of_some hq
    by_cases hqh : q = h
    · subst hqh; rw [E.cont_h] at hq0; cases hq0; exact (hI0 a rfl).1
    · rw [E.cont_ne q hqh] at hq0; exact hinv.1 q a hq0
  · have hq0 := s.some_of_some hq
    rw [s.idxOf_kept (by rw [hq]; rfl)] at hx
    by_cases hqh : q = h
    · subst hqh; rw [E.cont_h] at hq0; cases hq0
      rw [(hI0 a rfl).2] at hx; cases hx
    · rw [E.cont_ne q hqh] at hq0
      have : w0.idxOf q = w.idxOf q := by simp only [idxOf, E.idx_ne q hqh]
      rw [this] at hx
      exact hinv.2 q a hq0 x i hx

/-- … and after it -/
theorem pop_mInv_g (E : Emptied w h c0 w0) {I : Arr → Prop} (F : ArrFacts w.T I) (hinv : MInv I w)
    (hI0 : ∀ a0, c0 = .arr a0 → I a0 ∧ w0.idxOf h = [])
    (hn : notifyParent ((w0.forgetElems es).conts.length + 1 + 1) (w0.forgetElems es) h cxm = .ok (w', cx')) :
    MInv I w' :=
  ((mutual_mutIdx w.T I F _).1 _ _ _ _ _ (E.mid_T es) (mid_mInv E hinv hI0 es) hn).1

end World
end Atree
