import AtreeProofs.World.WPopMid
/-
  Disposal of a detached root container (`World.forget`): the weakened invariant is kept, and
  exactly the containers reachable from the disposed one vanish from the tables — also when the
  caller has mutated the detached container in between (`forget_after_mutation`).
-/
namespace Atree
open Gen

namespace World

variable {D : SlabID → DigestFn 4} {rank : SlabID → Nat}

/-- `w'` is `w` with some known containers dropped from all three tables (`Shrink` without the
    bookkeeping of lengths) -/
structure Sub (w w' : World) : Prop where
  T : w'.T = w.T
  addr : w'.addr = w.addr
  keep : ∀ y, (w'.cont? y = w.cont? y ∧ AList.find? w'.hinfo y = AList.find? w.hinfo y ∧
                AList.find? w'.mutIdx y = AList.find? w.mutIdx y) ∨
              ((w.cont? y).isSome ∧ w'.cont? y = none ∧ AList.find? w'.hinfo y = none ∧
                AList.find? w'.mutIdx y = none)

/-- `Shrink` without the length -/
theorem Shrink.sub {w w' : World} (s : Shrink w w') : Sub w w' := ⟨s.T, s.addr, s.keep⟩

/-- an entry that is still there was there, unchanged -/
theorem Sub.some_of_some {w w' : World} (h : Sub w w') {y : SlabID} {c : Cont}
    (hy : w'.cont? y = some c) : w.cont? y = some c := by
  rcases h.keep y with ⟨a, _, _⟩ | ⟨_, b, _, _⟩
  · rw [← a]; exact hy
  · rw [b] at hy; cases hy

/-- the index table of a container that is still there is unchanged -/
theorem Sub.idxOf_kept {w w' : World} (h : Sub w w') {y : SlabID} (hy : (w'.cont? y).isSome) :
    w'.idxOf y = w.idxOf y := by
  rcases h.keep y with ⟨_, _, c⟩ | ⟨_, b, _, _⟩
  · simp only [idxOf, c]
  · rw [b] at hy; cases hy

/-- Dropping a set of containers that is closed under element references and that nothing left
    refers to keeps the (relaxed) invariant. -/
theorem WorldOkPK.shrink {w w' : World} {ctr : Nat} {K K' : SlabID → Prop} (H : WorldOkPK D rank K w ctr)
    (s : Sub w w') (cl : Closed w w')
    (hdang : ∀ q qc, w'.cont? q = some qc → ∀ y, Pay.ref y ∈ qc.pays → (w.cont? y).isSome → (w'.cont? y).isSome)
    (hK' : ∀ x, K x → (w'.cont? x).isSome → K' x) : WorldOkPK D rank K' w' ctr := by
  have hkept : ∀ z c, w'.cont? z = some c → w.cont? z = some c := fun z c hc => s.some_of_some hc
  have hidx : ∀ z, (w'.cont? z).isSome → w'.idxOf z = w.idxOf z := fun z hz => s.idxOf_kept hz
  have hhi : ∀ x hi, AList.find? w'.hinfo x = some hi → AList.find? w.hinfo x = some hi := by
    intro x hi hx
    rcases s.keep x with ⟨_, b, _⟩ | ⟨_, _, b, _⟩
    · rw [← b]; exact hx
    · rw [b] at hx; cases hx
  have hlive : ∀ z, (w'.cont? z).isSome → (w.cont? z).isSome := by
    intro z hz
    obtain ⟨c, hc⟩ := Option.isSome_iff_exists.mp hz
    rw [hkept z c hc]; rfl
  have hholds_back : ∀ q x, Holds w' q x → Holds w q x := fun q x ⟨qc, hqc, hm⟩ => ⟨qc, hkept q qc hqc, hm⟩
  have hholder : ∀ q x, Holds w q x → (w'.cont? x).isSome → Holds w' q x := by
    intro q x ⟨qc, hqc, hm⟩ hx
    cases hq' : w'.cont? q with
    | some c => rw [hkept q c hq'] at hqc; cases hqc; exact ⟨qc, hq', hm⟩
    | none =>
      obtain ⟨e, he, hpe⟩ := mem_pays_iff.mp hm
      have := cl q qc hqc hq' e he x hpe
      rw [this] at hx; cases hx
  have hCA : ∀ x hi lim e, ClosureAt w' x hi lim e → ClosureAt w x hi lim e := by
    intro x hi lim e hca
    rcases hca with ⟨pa, i, hpa, hi2, hge, hpay, hlim⟩ | ⟨pm, k, hpm, hk, hmem, hpay, hlim⟩
    · rw [hidx _ (by rw [hpa]; rfl)] at hi2
      exact Or.inl ⟨pa, i, hkept _ _ hpa, hi2, hge, hpay, by rw [hlim, s.T]⟩
    · exact Or.inr ⟨pm, k, hkept _ _ hpm, hk, hmem, hpay, by rw [hlim, s.T]⟩
  refine ⟨by rw [s.T]; exact H.legal, ?_, ?_, ?_, ?_, ?_, ?_, ?_, ?_, ?_, ?_, ?_, ?_, ?_⟩
  · intro z cz hz; exact H.ids z cz (hkept z cz hz)
  · intro z cz hz; rw [s.addr]; exact H.addr z cz (hkept z cz hz)
  · intro z cz hz; rw [s.T]; exact H.conts z cz (hkept z cz hz)
  · intro q qc hq le hle x cx hx hcx
    rw [s.T] at hle
    obtain ⟨wr, h1, h2, h3, h4⟩ := H.slots q qc (hkept q qc hq) le hle x cx hx (hkept x cx hcx)
    exact ⟨wr, h1, h2, h3, fun hi hO hhx hca => h4 hi hO (hhi x hi hhx) (hCA x hi _ _ hca)⟩
  · intro z cz hz hi; rw [s.T]; exact H.band z cz (hkept z cz hz) hi
  · intro q q' qc qc' i j x hq hq' hi hj hx
    exact H.unique q q' qc qc' i j x (hkept q qc hq) (hkept q' qc' hq') hi hj (hlive x hx)
  · intro z cz hz hi hKz
    obtain ⟨q, hq⟩ := H.inlRef z cz (hkept z cz hz) hi (fun hk => hKz (hK' z hk (by rw [hz]; rfl)))
    exact ⟨q, hholder q z hq (by rw [hz]; rfl)⟩
  · intro p a hpa x i hi hO
    rw [hidx p (by rw [hpa]; rfl)] at hi
    exact H.mutIdx p a (hkept p _ hpa) x i hi hO
  · intro x hi hx
    obtain ⟨c1, c2⟩ := H.closure x hi (hhi x hi hx)
    refine ⟨fun pa hpa => ?_, fun pm k hpm hk => ?_⟩
    · rw [s.T]; exact c1 pa (hkept _ _ hpa)
    · rw [s.T]; exact c2 pm k (hkept _ _ hpm) hk
  · intro q x hq hx
    exact H.rank q x (hholds_back q x hq) (hlive x hx)
  · intro q qc hq r hr; exact H.below q qc (hkept q qc hq) r hr
  · intro q x i hi
    rcases s.keep q with ⟨a, _, b⟩ | ⟨_, _, _, b⟩
    · have hi0 : AList.find? (w.idxOf q) x = some i := by
        simp only [idxOf, b] at hi; exact hi
      obtain ⟨hxl, aq, haq⟩ := H.idxLive q x i hi0
      have hpay := H.mutIdx q aq haq x i hi0 id
      have hq' : w'.cont? q = some (.arr aq) := by rw [a]; exact haq
      exact ⟨hdang q _ hq' x (List.mem_of_getElem? hpay) hxl, aq, hq'⟩
    · simp only [idxOf, b] at hi; cases hi
  · intro x hi hx; exact H.hinfoBelow x hi (hhi x hi hx)

/-- what `forget` does, for any world and any container: exactly the containers reachable from `k`
    vanish from the three tables -/
theorem forget_frame (w : World) (k : SlabID) : ForgetFrame w (forget w.fuelOf w k) k := by
  have s := forget_shrink w.fuelOf w k
  obtain ⟨cl, hn⟩ := forget_closed w.fuelOf w k (by unfold fuelOf; omega)
  have hsound := forget_sound w.fuelOf w k
  have hgone : ∀ x, Reach w k x → (forget w.fuelOf w k).cont? x = none := fun x hr => cl.reach_none hr hn
  refine ⟨?_, ?_, s.T, s.addr⟩
  · intro x hr
    rcases s.keep x with ⟨a, _, _⟩ | ⟨_, b, c, d⟩
    · have := hr.dst_isSome
      rw [← a, hgone x hr] at this; cases this
    · exact ⟨b, c, d⟩
  · intro x hr
    rcases s.keep x with a | ⟨a, b, _, _⟩
    · exact a
    · exact absurd (hsound x a b) hr

/-- the first edge of a path of element references -/
theorem Reach.first {w : World} {v x : SlabID} (h : Reach w v x) :
    x = v ∨ ∃ c e u, w.cont? v = some c ∧ e ∈ c.storedElems ∧ e.pay = .ref u ∧ Reach w u x := by
  cases h with
  | refl _ => exact Or.inl rfl
  | step hc he hp hr => exact Or.inr ⟨_, _, _, hc, he, hp, hr⟩

/-- Disposing of a detached root `k` after the caller has changed ITS OWN entries (content, closure,
    index table) without changing which live containers it refers to: the invariant of the world
    BEFORE the change carries over to the world after the disposal. -/
theorem forget_after_mutation {w w2 : World} {ctr : Nat} {K : SlabID → Prop} {k : SlabID} {c c2 : Cont}
    (H : WorldOkPK D rank K w ctr) (hk : DetachedRoot w k)
    (hT : w2.T = w.T) (ha : w2.addr = w.addr)
    (hoth : ∀ z, z ≠ k → w2.cont? z = w.cont? z ∧ AList.find? w2.hinfo z = AList.find? w.hinfo z ∧
      AList.find? w2.mutIdx z = AList.find? w.mutIdx z)
    (hc : w.cont? k = some c) (hc2 : w2.cont? k = some c2)
    (hrefs : ∀ y, (w.cont? y).isSome → (Pay.ref y ∈ c2.pays ↔ Pay.ref y ∈ c.pays)) :
    WorldOkPK D rank (fun x => K x ∧ x ≠ k) (forget w2.fuelOf w2 k) ctr := by
  obtain ⟨f1, f2, f3, f4⟩ := forget_frame w2 k
  have hkk : Reach w2 k k := Reach.refl (by rw [hc2]; rfl)
  -- the containers below `k` in `w2` other than `k` have their entries of `w`
  have hne : ∀ x, ¬ Reach w2 k x → x ≠ k := fun x hx he => hx (he ▸ hkk)
  -- an edge of `w2` that ends in a live container of `w` is an edge of `w`
  have hedge : ∀ u cu y, w2.cont? u = some cu → Pay.ref y ∈ cu.pays → (w.cont? y).isSome → Holds w u y := by
    intro u cu y hu hy hyl
    by_cases huk : u = k
    · subst huk
      rw [hc2] at hu; cases hu
      exact ⟨c, hc, (hrefs y hyl).mp hy⟩
    · exact ⟨cu, by rw [← (hoth u huk).1]; exact hu, hy⟩
  have hlive2 : ∀ y, (w2.cont? y).isSome → (w.cont? y).isSome := by
    intro y hy
    by_cases hyk : y = k
    · subst hyk; exact hk.1
    · rw [← (hoth y hyk).1]; exact hy
  have s : Sub w (forget w2.fuelOf w2 k) := by
    refine ⟨f3.trans hT, f4.trans ha, fun y => ?_⟩
    by_cases hr : Reach w2 k y
    · obtain ⟨a, b, c'⟩ := f1 y hr
      exact Or.inr ⟨hlive2 y hr.dst_isSome, a, b, c'⟩
    · obtain ⟨a, b, c'⟩ := f2 y hr
      obtain ⟨o1, o2, o3⟩ := hoth y (hne y hr)
      exact Or.inl ⟨a.trans o1, b.trans o2, c'.trans o3⟩
  have hdropped : ∀ y, (w.cont? y).isSome → (forget w2.fuelOf w2 k).cont? y = none → Reach w2 k y := by
    intro y hyl hyn
    by_cases hr : Reach w2 k y
    · exact hr
    · have := (f2 y hr).1
      rw [hyn, (hoth y (hne y hr)).1] at this
      rw [← this] at hyl; cases hyl
  refine H.shrink s ?_ ?_ ?_
  · -- closed
    intro u cu hu hun e he y hpe
    cases hyl : w.cont? y with
    | none =>
      rcases s.keep y with ⟨a, _, _⟩ | ⟨_, b, _, _⟩
      · rw [a]; exact hyl
      · exact b
    | some cy =>
      have hyl' : (w.cont? y).isSome := by rw [hyl]; rfl
      have hru := hdropped u (by rw [hu]; rfl) hun
      refine (f1 y ?_).1
      have hy : Pay.ref y ∈ cu.pays := mem_pays_iff.mpr ⟨e, he, hpe⟩
      by_cases huk : u = k
      · subst huk
        rw [hc] at hu; cases hu
        obtain ⟨e2, he2, hp2⟩ := mem_pays_iff.mp ((hrefs y hyl').mpr hy)
        exact Reach.step hc2 he2 hp2 (Reach.refl (by
          by_cases hyk : y = u
          · subst hyk; rw [hc2]; rfl
          · rw [(hoth y hyk).1]; exact hyl'))
      · have hu2 : w2.cont? u = some cu := by rw [(hoth u huk).1]; exact hu
        exact hru.trans (Reach.step hu2 he hpe (Reach.refl (by
          by_cases hyk : y = k
          · subst hyk; rw [hc2]; rfl
          · rw [(hoth y hyk).1]; exact hyl')))
  · -- nothing left refers to a dropped container
    intro q qc hq y hy hyl
    cases hyn : (forget w2.fuelOf w2 k).cont? y with
    | some c' => rfl
    | none =>
      exfalso
      have hqw := s.some_of_some hq
      obtain ⟨i, hi⟩ := List.mem_iff_getElem?.mp hy
      rcases (hdropped y hyl hyn).last with rfl | ⟨u, cu, eu, hru, hcu, heu, hpu⟩
      · exact hk.2 q ⟨qc, hqw, hy⟩
      · obtain ⟨cu0, hcu0, hm0⟩ := hedge u cu y hcu (mem_pays_iff.mpr ⟨eu, heu, hpu⟩) hyl
        obtain ⟨j, hj⟩ := List.mem_iff_getElem?.mp hm0
        have hqu : q = u := (H.unique q u qc cu0 i j y hqw hcu0 hi hj hyl).1
        subst hqu
        rw [(f1 q hru).1] at hq; cases hq
  · intro x hKx hx
    refine ⟨hKx, fun he => ?_⟩
    subst he
    rw [(f1 x hkk).1] at hx; cases hx

/-- Disposing of a detached root `k` (a live container that no element refers to): the invariant
    is kept (`k` is no longer among the relaxed containers), and exactly the containers reachable
    from `k` vanish. -/
theorem forget_ok {w : World} {ctr : Nat} {K : SlabID → Prop} {k : SlabID} (H : WorldOkPK D rank K w ctr)
    (hk : DetachedRoot w k) :
    WorldOkPK D rank (fun x => K x ∧ x ≠ k) (forget w.fuelOf w k) ctr ∧ ForgetFrame w (forget w.fuelOf w k) k := by
  obtain ⟨c, hc⟩ := Option.isSome_iff_exists.mp hk.1
  exact ⟨forget_after_mutation H hk rfl rfl (fun _ _ => ⟨rfl, rfl, rfl⟩) hc hc (fun _ _ => Iff.rfl), forget_frame w k⟩

end World
end Atree
