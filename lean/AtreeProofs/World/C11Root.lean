import AtreeProofs.World.C11Aux
/-
  Operations through the handle of a DETACHED ROOT `x` (a live container nobody refers to: handed
  back by `Remove` / `Set`, or a kept popped child): the notification issued in the middle of the
  operation finds nothing, so the operation writes `x` (and un-inlines the child of `x` it hands
  back, if any) and NOTHING ELSE — no other container, closure or index table, and no storage
  effect beyond those of the array-level operation on `x` itself.  Companion of
  `root_arrInsert_plain` (World/WPopKeep.lean) for `Array.Remove`, `Array.Set` and `SetType`.
-/
namespace Atree
open Gen

namespace World

variable {D : SlabID → DigestFn 4} {rank : SlabID → Nat}

/-- `w1` differs from `w` only at the container `x` and at the index table of `x` (the state at the
    call of `notifyParent` inside an operation through the handle of `x`) -/
structure LocalAt (w w1 : World) (x : SlabID) : Prop where
  T : w1.T = w.T
  addr : w1.addr = w.addr
  hinfo : w1.hinfo = w.hinfo
  conts : ∀ z, z ≠ x → w1.cont? z = w.cont? z
  idx : ∀ q, q ≠ x → AList.find? w1.mutIdx q = AList.find? w.mutIdx q
  selfIdx : (AList.find? (w1.idxOf x) x).isSome → (AList.find? (w.idxOf x) x).isSome
  kind : ∀ a1, w1.cont? x = some (.arr a1) → ∃ a, w.cont? x = some (.arr a)

theorem LocalAt.idxOf {w w1 : World} {x : SlabID} (L : LocalAt w w1 x) {q : SlabID} (hq : q ≠ x) :
    w1.idxOf q = w.idxOf q := by
  unfold World.idxOf; rw [L.idx q hq]

theorem LocalAt.mcfg {w w1 : World} {x : SlabID} (L : LocalAt w w1 x) : w1.mcfg = w.mcfg := by
  simp [World.mcfg, L.T, L.addr]

/-- In a valid world, the notification of a detached root `x` issued from a state that differs from
    the world only at `x` finds nothing.  `hmap`: not (the closure of `x` names `x` itself and `x`
    is a map) — automatic when `x` is an array. -/
theorem notify_noop_local {w w1 : World} {ctr : Nat} {K : SlabID → Prop} {x : SlabID} {fuel : Nat} {cx : Ctx}
    {w2 : World} {cx2 : Ctx}
    (H : WorldOkPK D rank K w ctr) (hx : DetachedRoot w x) (L : LocalAt w w1 x)
    (hmap : ∀ hi pm, AList.find? w.hinfo x = some hi → hi.parent = x → w1.cont? x = some (.map pm) → False)
    (h : notifyParent fuel w1 x cx = .ok (w2, cx2)) :
    cx2 = cx ∧ (w2 = w1 ∨ w2 = { w1 with hinfo := AList.erase w1.hinfo x }) := by
  obtain ⟨r1, r2⟩ := H.root_closure_finds_nothing hx.2
  refine notify_finds_nothing (k := x) (w := w1) ?_ ?_ h
  · intro hi pa idx hh hpa hidx
    rw [L.hinfo] at hh
    by_cases hpk : hi.parent = x
    · rw [hpk] at hpa hidx
      obtain ⟨a, ha⟩ := L.kind pa hpa
      have hs : (AList.find? (w.idxOf x) x).isSome := L.selfIdx (by rw [hidx]; rfl)
      obtain ⟨j, hj⟩ := Option.isSome_iff_exists.mp hs
      exact hx.2 x ⟨_, ha, List.mem_of_getElem? (H.mutIdx x a ha x j hj id)⟩
    · rw [L.conts _ hpk] at hpa
      rw [L.idxOf hpk] at hidx
      exact r1 hi pa idx hh hpa hidx
  · intro hi pm key k' el hh hpm hkey hget hpay
    rw [L.hinfo] at hh
    by_cases hpk : hi.parent = x
    · rw [hpk] at hpm
      exact hmap hi pm hh hpk hpm
    · rw [L.conts _ hpk] at hpm
      rw [L.mcfg] at hget
      exact r2 hi pm key k' el hh hpm hkey hget hpay

/-- every entry of every table other than those of `x` (and of `y`, if given) is the same -/
def SameBut (w w' : World) (x : SlabID) (y : Option SlabID) : Prop :=
  ∀ z, z ≠ x → some z ≠ y → w'.cont? z = w.cont? z ∧ AList.find? w'.hinfo z = AList.find? w.hinfo z ∧
    AList.find? w'.mutIdx z = AList.find? w.mutIdx z

/-- after the no-op notification and the un-inlining of the element handed back -/
theorem sameBut_after {w w1 w2 w3 : World} {x : SlabID} {old1 old : Elem} {ov : Option SlabID} {cx2 cx3 : Ctx}
    (L : LocalAt w w1 x) (h2 : w2 = w1 ∨ w2 = { w1 with hinfo := AList.erase w1.hinfo x })
    (hun : w2.uninlineIfNeeded old1 cx2 = .ok (old, ov, w3, cx3)) (m : AList SlabID Nat) :
    (∀ y, ov = some y → old1.pay = .ref y) ∧
    (cx3 = cx2 ∨ ∃ y, ov = some y ∧ cx3 = cx2.emit (.store y)) ∧
    SameBut w w3 x ov ∧ SameBut w (w3.setIdx x m) x ov := by
  obtain ⟨hpay, hh3, hm3, _, _, hcase⟩ := uninlineIfNeeded_ok hun
  have hc2 : ∀ z, w2.cont? z = w1.cont? z := by rcases h2 with rfl | rfl <;> intro z <;> rfl
  have hm2 : w2.mutIdx = w1.mutIdx := by rcases h2 with rfl | rfl <;> rfl
  have hh2 : ∀ z, z ≠ x → AList.find? w2.hinfo z = AList.find? w1.hinfo z := by
    intro z hz
    rcases h2 with rfl | rfl
    · rfl
    · show AList.find? (AList.erase _ x) z = _
      rw [AList.find?_erase, if_neg (Ne.symm hz)]
  have hc3 : ∀ z, some z ≠ ov → w3.cont? z = w2.cont? z := by
    intro z hz
    rcases hcase with ⟨_, _, rfl, _, _⟩ | ⟨y, c, hov, _, _, ⟨_, _, rfl, _⟩ | ⟨_, c', _, _, rfl, _, _⟩⟩
    · rfl
    · rfl
    · rw [hov] at hz
      exact cont?_setCont_ne _ _ _ _ (fun he => hz (by rw [he]))
  have hS : SameBut w w3 x ov := by
    intro z hzx hzy
    refine ⟨by rw [hc3 z hzy, hc2, L.conts z hzx], by rw [hh3, hh2 z hzx, L.hinfo], by rw [hm3, hm2, L.idx z hzx]⟩
  refine ⟨?_, ?_, hS, ?_⟩
  · intro y hy
    rcases hcase with ⟨h0, _⟩ | ⟨y', c, hov, hp, _⟩
    · rw [h0] at hy; cases hy
    · rw [hov] at hy; cases hy; exact hp
  · rcases hcase with ⟨_, _, _, h4, _⟩ | ⟨y, c, hov, _, _, ⟨_, _, _, h4⟩ | ⟨_, c', _, _, _, h4, _⟩⟩
    · exact Or.inl h4
    · exact Or.inl h4
    · exact Or.inr ⟨y, hov, h4⟩
  · intro z hzx hzy
    obtain ⟨a, b, c⟩ := hS z hzx hzy
    refine ⟨a, b, ?_⟩
    show AList.find? (AList.insert w3.mutIdx x m) z = _
    rw [AList.find?_insert, if_neg (Ne.symm hzx)]
    exact c

/-- `Array.Remove` through the handle of a detached root `x`: the list-level result in `x`; every
    other container, closure and index table — except the child of `x` handed back, which is
    un-inlined — is untouched; the storage effects are those of the array-level removal on `x`,
    plus the storing of the child handed back if it was inlined. -/
theorem root_arrRemove {w : World} {K : SlabID → Prop} {x : SlabID} {i : Nat} {cx : Ctx} {old : Elem}
    {w' : World} {cx' : Ctx}
    (H : WorldOkPK D rank K w cx.ctr) (hx : DetachedRoot w x)
    (h : w.arrRemove x i cx = .ok (old, w', cx')) :
    ∃ a a' old1 cx1 ov, w.cont? x = some (.arr a) ∧ a.remove w.T i cx = .ok (old1, a', cx1) ∧
      a.toList[i]? = some old1 ∧ a'.toList = a.toList.eraseIdx i ∧ old.pay = old1.pay ∧
      (∀ y, ov = some y → old1.pay = .ref y) ∧
      (cx' = cx1 ∨ ∃ y, ov = some y ∧ cx' = cx1.emit (.store y)) ∧
      SameBut w w' x ov := by
  unfold arrRemove at h
  split at h
  · rename_i a hpa
    split at h
    · cases h
    · rename_i old1 a' cx1 hrem
      simp only [bind, Except.bind] at h
      split at h
      · cases h
      · rename_i r hnp
        obtain ⟨w2, cx2⟩ := r
        simp only at h
        split at h
        · cases h
        · rename_i r2 hun
          obtain ⟨old2, ov, w3, cx3⟩ := r2
          simp only [pure, Except.pure] at h
          cases h
          have hpok : ArrOk w.T a cx.ctr := H.conts x _ hpa
          obtain ⟨hold1, hl, _⟩ := hpok.remove_ok H.legal hrem
          have L : LocalAt w ((w.setCont x (.arr a')).shiftIdx x (fun j => if j > i then j - 1 else j)) x := by
            refine ⟨rfl, rfl, rfl, fun z hz => ?_, fun q hq => ?_, fun hs => ?_, fun _ _ => ⟨a, hpa⟩⟩
            · rw [cont?_shiftIdx, cont?_setCont_ne _ _ _ _ hz]
            · simp only [World.shiftIdx, World.setIdx, mutIdx_setCont, AList.find?_insert, if_neg (Ne.symm hq)]
            · rw [find?_idxOf_shiftIdx, if_pos rfl] at hs
              cases h0 : AList.find? ((w.setCont x (.arr a')).idxOf x) x with
              | none => rw [h0] at hs; cases hs
              | some j => exact (by rw [idxOf_setCont] at h0; rw [h0]; rfl)
          obtain ⟨hcx2, hw2⟩ := notify_noop_local H hx L
            (fun hi pm _ _ hpm => by rw [cont?_shiftIdx, cont?_setCont_self] at hpm; cases hpm) hnp
          obtain ⟨hov, hcx3, _, hS⟩ := sameBut_after L hw2 hun (AList.erase (w3.idxOf x) (ov.getD x))
          obtain ⟨hpay, _⟩ := uninlineIfNeeded_ok hun
          refine ⟨a, a', old1, cx1, ov, hpa, hrem, hold1, hl, hpay, hov, by rw [← hcx2]; exact hcx3, ?_⟩
          cases ov with
          | none => exact (sameBut_after L hw2 hun []).2.2.1
          | some y => exact hS
  · cases h

/-- `Array.Set` of a plain value through the handle of a detached root `x`: as `root_arrRemove`. -/
theorem root_arrSet_plain {w : World} {K : SlabID → Prop} {x : SlabID} {i : Nat} {e : Elem} {cx : Ctx} {old : Elem}
    {w' : World} {cx' : Ctx}
    (H : WorldOkPK D rank K w cx.ctr) (hx : DetachedRoot w x) (he : ElemOk w.T e)
    (h : w.arrSet x i (.plain e) cx = .ok (old, w', cx')) :
    ∃ a a' old1 cx1 ov, w.cont? x = some (.arr a) ∧ a.set w.T i e cx = .ok (old1, a', cx1) ∧
      a.toList[i]? = some old1 ∧ a'.toList = a.toList.set i e ∧ old.pay = old1.pay ∧
      (∀ y, ov = some y → old1.pay = .ref y) ∧
      (cx' = cx1 ∨ ∃ y, ov = some y ∧ cx' = cx1.emit (.store y)) ∧
      SameBut w w' x ov := by
  obtain ⟨old1, w1, cxr, ov, w2, hraw, hun, hnone, hsome, _⟩ := arrSet_unfold h
  rw [arrSetRaw] at hraw
  split at hraw
  · rename_i a hpa
    split at hraw
    · cases hraw
    · split at hraw
      · cases hraw
      · rename_i e1 ws cxs hst
        simp only [World.storableOf] at hst
        cases hst
        split at hraw
        · cases hraw
        · rename_i old0 a' cx1 hset
          simp only at hraw
          split at hraw
          · cases hraw
          · rename_i w3 cx3 hnp
            cases hraw
            have hpok : ArrOk w.T a cx.ctr := H.conts x _ hpa
            have F := thrFacts H.legal
            have hroom : a.isInlined = true → a.rootHdr.size + maxInlineArr w.T ≤ maxThr w.T := by
              intro hi
              have h0 : a.rootHdr.size ≤ w.T := H.band x _ hpa hi
              rw [F.inlE, F.maxE]
              omega
            obtain ⟨hold1, hl, _⟩ := hpok.set_ok H.legal (StorOk.of_elemOk he) hroom hset
            rw [toStorable_fit _ _ e cx he.2] at hl
            simp only at hl
            have L : LocalAt w (w.setCont x (.arr a')) x :=
              ⟨rfl, rfl, rfl, fun z hz => cont?_setCont_ne _ _ _ _ hz, fun _ _ => rfl, fun hs => hs,
                fun _ _ => ⟨a, hpa⟩⟩
            obtain ⟨hcx3, hw3⟩ := notify_noop_local H hx L
              (fun hi pm _ _ hpm => by rw [cont?_setCont_self] at hpm; cases hpm) hnp
            have hun' : w3.uninlineIfNeeded old1 cxr = .ok (old, ov, w2, cx') := hun
            obtain ⟨hov, hcx', hS0, hS⟩ := sameBut_after L hw3 hun' (AList.erase (w2.idxOf x) (ov.getD x))
            obtain ⟨hpay, _⟩ := uninlineIfNeeded_ok hun'
            refine ⟨a, a', old1, cx1, ov, hpa, hset, hold1, hl, hpay, hov, by rw [← hcx3]; exact hcx', ?_⟩
            cases ov with
            | none => rw [hnone rfl]; exact hS0
            | some y => rw [hsome y rfl (fun wr hne => by cases hne)]; exact hS
  · cases hraw

/-- after the no-op notification alone -/
theorem sameBut_noop {w w1 w2 : World} {x : SlabID}
    (L : LocalAt w w1 x) (h2 : w2 = w1 ∨ w2 = { w1 with hinfo := AList.erase w1.hinfo x }) :
    SameBut w w2 x none := by
  intro z hzx _
  rcases h2 with rfl | rfl
  · exact ⟨L.conts z hzx, by rw [L.hinfo], L.idx z hzx⟩
  · refine ⟨L.conts z hzx, ?_, L.idx z hzx⟩
    show AList.find? (AList.erase _ x) z = _
    rw [AList.find?_erase, if_neg (Ne.symm hzx), L.hinfo]

/-- `OrderedMap.Remove` through the handle of a detached root `x` (a map): every other container,
    closure and index table — except the child of `x` handed back, which is un-inlined — is
    untouched; the storage effects are those of the map-level removal on `x`, plus the storing of
    the child handed back if it was inlined.  `hself`: the closure of `x` does not name `x` itself
    (closures are installed by the holder of the child; not a clause of the invariant). -/
theorem root_mapRemove {w : World} {K : SlabID → Prop} {x : SlabID} {k : MKey} {cx : Ctx} {rk : MKey} {rv : Elem}
    {w' : World} {cx' : Ctx} {ctr : Nat}
    (H : WorldOkPK D rank K w ctr) (hx : DetachedRoot w x)
    (hself : ∀ hi, AList.find? w.hinfo x = some hi → hi.parent ≠ x)
    (h : w.mapRemove x k cx = .ok (rk, rv, w', cx')) :
    ∃ m m' rv1 cx1 ov, w.cont? x = some (.map m) ∧ m.remove w.mcfg k cx = .ok (rk, rv1, m', cx1) ∧
      rv.pay = rv1.pay ∧ (∀ y, ov = some y → rv1.pay = .ref y) ∧
      (cx' = cx1 ∨ ∃ y, ov = some y ∧ cx' = cx1.emit (.store y)) ∧
      SameBut w w' x ov := by
  unfold mapRemove at h
  split at h
  · rename_i m hpm
    split at h
    · cases h
    · rename_i rk1 rv1 m' cx1 hrem
      simp only [bind, Except.bind] at h
      split at h
      · cases h
      · rename_i r hnp
        obtain ⟨w2, cx2⟩ := r
        simp only at h
        split at h
        · cases h
        · rename_i r2 hun
          obtain ⟨rv2, ov, w3, cx3⟩ := r2
          simp only [pure, Except.pure] at h
          cases h
          have L : LocalAt w (w.setCont x (.map m')) x :=
            ⟨rfl, rfl, rfl, fun z hz => cont?_setCont_ne _ _ _ _ hz, fun _ _ => rfl, fun hs => hs,
              fun a1 h1 => by rw [cont?_setCont_self] at h1; cases h1⟩
          obtain ⟨hcx2, hw2⟩ := notify_noop_local H hx L (fun hi pm hh hpk _ => hself hi hh hpk) hnp
          obtain ⟨hov, hcx3, hS, _⟩ := sameBut_after L hw2 hun []
          obtain ⟨hpay, _⟩ := uninlineIfNeeded_ok hun
          exact ⟨m, m', rv1, cx1, ov, hpm, hrem, hpay, hov, by rw [← hcx2]; exact hcx3, hS⟩
  · cases h

/-- `OrderedMap.Set` of a plain value through the handle of a detached root `x` (a map): as
    `root_mapRemove`. -/
theorem root_mapSet_plain {w : World} {K : SlabID → Prop} {x : SlabID} {k : MKey} {e : Elem} {cx : Ctx}
    {old : Option Elem} {w' : World} {cx' : Ctx} {ctr : Nat}
    (H : WorldOkPK D rank K w ctr) (hx : DetachedRoot w x)
    (hself : ∀ hi, AList.find? w.hinfo x = some hi → hi.parent ≠ x)
    (h : w.mapSet x k (.plain e) cx = .ok (old, w', cx')) :
    ∃ m m' old1 cx1 ov, w.cont? x = some (.map m) ∧ m.set w.mcfg k e cx = .ok (old1, m', cx1) ∧
      old.map (·.pay) = old1.map (·.pay) ∧ (∀ y, ov = some y → ∃ o, old1 = some o ∧ o.pay = .ref y) ∧
      (cx' = cx1 ∨ ∃ y, ov = some y ∧ cx' = cx1.emit (.store y)) ∧
      SameBut w w' x ov := by
  unfold mapSet at h
  simp only [bind, Except.bind] at h
  split at h
  · cases h
  · rename_i r hraw
    obtain ⟨old1, w3, cx3⟩ := r
    rw [mapSetRaw] at hraw
    split at hraw
    · rename_i m hpm
      split at hraw
      · cases hraw
      · rename_i e1 ws cxs hst
        simp only [World.storableOf] at hst
        cases hst
        split at hraw
        · cases hraw
        · rename_i old0 m' cx1 hset
          simp only at hraw
          split at hraw
          · cases hraw
          · rename_i w4 cx4 hnp
            cases hraw
            have L : LocalAt w (w.setCont x (.map m')) x :=
              ⟨rfl, rfl, rfl, fun z hz => cont?_setCont_ne _ _ _ _ hz, fun _ _ => rfl, fun hs => hs,
                fun a1 h1 => by rw [cont?_setCont_self] at h1; cases h1⟩
            obtain ⟨hcx4, hw4⟩ := notify_noop_local H hx L (fun hi pm hh hpk _ => hself hi hh hpk) hnp
            simp only at h
            cases old1 with
            | none =>
              simp only [pure, Except.pure] at h
              cases h
              exact ⟨m, m', none, cx1, none, hpm, hset, rfl, (fun y hy => by cases hy), Or.inl hcx4,
                sameBut_noop L hw4⟩
            | some o =>
              simp only at h
              split at h
              · cases h
              · rename_i r2 hun
                obtain ⟨o', ov, w5, cx5⟩ := r2
                simp only [pure, Except.pure] at h
                cases h
                have hun' : w4.uninlineIfNeeded o cx3 = .ok (o', ov, w', cx') := hun
                obtain ⟨hov, hcx5, hS, _⟩ := sameBut_after L hw4 hun' []
                obtain ⟨hpay, _⟩ := uninlineIfNeeded_ok hun'
                exact ⟨m, m', some o, cx1, ov, hpm, hset, by simp [hpay], fun y hy => ⟨o, rfl, hov y hy⟩,
                  by rw [← hcx4]; exact hcx5, hS⟩
    · cases hraw

/-- `SetType` through the handle of a STANDALONE detached root `x` (in a world that satisfies
    `WorldOk'` every detached root is standalone): only the type field of `x` changes; the only
    storage effect is the storing of the root slab of `x`. -/
theorem root_setType {w : World} {x : SlabID} {ty : Nat} {cx : Ctx} {w' : World} {cx' : Ctx} {c : Cont}
    (hc : w.cont? x = some c) (hst : c.isInlined = false) (h : w.setType x ty cx = .ok (w', cx')) :
    (∃ c', w' = w.setCont x c' ∧ c'.storedElems = c.storedElems ∧ c'.vid = c.vid ∧ c'.isInlined = false) ∧
    cx' = cx.emit (.store c.vid) ∧
    (∀ z, z ≠ x → w'.cont? z = w.cont? z) ∧ w'.hinfo = w.hinfo ∧ w'.mutIdx = w.mutIdx := by
  unfold setType at h
  split at h
  · rename_i a hpa
    rw [hpa] at hc; cases hc
    have hst' : a.isInlined = false := hst
    simp only [hst', Arr.setType] at h
    cases h
    obtain ⟨d, t, ty0⟩ := a
    refine ⟨⟨_, rfl, ?_, ?_, ?_⟩, rfl, fun z hz => cont?_setCont_ne _ _ _ _ hz, rfl, rfl⟩
    · cases d <;> rfl
    · cases d <;> rfl
    · cases d <;> exact hst'
  · rename_i m hpm
    rw [hpm] at hc; cases hc
    have hst' : m.isInlined = false := hst
    simp only [hst', OMap.setType] at h
    cases h
    obtain ⟨d, t, ty0, cnt, seed⟩ := m
    refine ⟨⟨_, rfl, ?_, ?_, ?_⟩, rfl, fun z hz => cont?_setCont_ne _ _ _ _ hz, rfl, rfl⟩
    · cases d <;> rfl
    · cases d <;> rfl
    · cases d <;> exact hst'
  · rename_i hn; rw [hc] at hn; cases hn

end World
end Atree
