import AtreeProofs.World.PopFrame
import AtreeProofs.World.RootStable
import AtreeProofs.Map.EffectsTop
/-
  `Arr.set` and `OMap.set` only APPEND to the effect log — for EVERY tree, no invariant needed
  (every storage call is an `emit` / `alloc`, which append).  Hence `SetAppends T cfg` holds for all
  `T`, `cfg`, and the hypothesis `hlog` of `C10Pop.…_releases_own_slabs` always holds.
-/
namespace Atree
open Gen World

namespace World.LogExt

theorem alloc (c : Ctx) (addr : Nat) : LogExt c (c.alloc addr).2 := ⟨[.alloc addr ⟨addr, c.ctr + 1⟩], rfl⟩

theorem emit2 (c : Ctx) (e1 e2 : Eff) : LogExt c ((c.emit e1).emit e2) :=
  (LogExt.emit c e1).trans (LogExt.emit _ e2)

theorem emit3 (c : Ctx) (e1 e2 e3 : Eff) : LogExt c (((c.emit e1).emit e2).emit e3) :=
  (emit2 c e1 e2).trans (LogExt.emit _ e3)

/-- same log -/
theorem of_eff {c c' : Ctx} (h : c'.eff = c.eff) : LogExt c c' := ⟨[], by simp [h]⟩

end World.LogExt

/-! ### arrays -/

theorem toStorable_logExt (T addr : Nat) (v : Elem) (c : Ctx) : LogExt c (toStorable T addr v c).2 := by
  unfold toStorable
  split
  · exact LogExt.refl c
  · split
    · exact (LogExt.alloc c addr).trans ((LogExt.emit _ _).trans (LogExt.of_eff rfl))
    · exact LogExt.refl c

namespace DataSlab

theorem storeIfNotInlined_logExt (s : DataSlab) (c : Ctx) : LogExt c (s.storeIfNotInlined c) := by
  unfold storeIfNotInlined
  split
  · exact LogExt.refl c
  · exact LogExt.emit _ _

theorem set_logExt {T : Nat} {s s' : DataSlab} {i : Nat} {e old : Elem} {c c' : Ctx}
    (h : s.set T i e c = .ok (old, s', c')) : LogExt c c' := by
  unfold DataSlab.set at h
  split at h
  · cases h
  · cases h
    exact (toStorable_logExt T _ e c).trans (storeIfNotInlined_logExt _ _)

theorem split_logExt {s l r : DataSlab} {c c' : Ctx} (h : s.split c = .ok (l, r, c')) : LogExt c c' := by
  unfold DataSlab.split at h
  split at h
  · cases h
  · cases h
    exact LogExt.alloc c _

end DataSlab

namespace MetaSlab
variable {α : Type}

theorem split_logExt {m l r : MetaSlab α} {c c' : Ctx} (h : m.split c = .ok (l, r, c')) : LogExt c c' := by
  unfold MetaSlab.split at h
  split at h
  · cases h
  · cases h
    exact LogExt.alloc c _

end MetaSlab

namespace ATree

theorem split_logExt : ∀ {d : Nat} {t l r : ATree d} {c c' : Ctx}, split d t c = .ok (l, r, c') → LogExt c c'
  | 0, _, _, _, _, _, h => DataSlab.split_logExt h
  | _ + 1, _, _, _, _, _, h => MetaSlab.split_logExt h

end ATree

namespace MetaSlab
open ATree
variable {d : Nat}

theorem splitChildSlab_logExt {m m' : MetaSlab (ATree d)} {child : ATree d} {k : Nat} {c c' : Ctx}
    (h : m.splitChildSlab child k c = .ok (m', c')) : LogExt c c' := by
  unfold splitChildSlab at h
  obtain ⟨⟨l, r, c1⟩, hs, h⟩ := bind_ok h
  simp only [pure, Except.pure] at h
  cases h
  exact (ATree.split_logExt hs).trans (LogExt.emit3 _ _ _ _)

theorem rebalanceChildren_logExt (T : Nat) (m : MetaSlab (ATree d)) (l r : ATree d) (li ri : Nat) (b : Bool) (c : Ctx) :
    LogExt c (m.rebalanceChildren T l r li ri b c).2 := LogExt.emit3 _ _ _ _

theorem mergeChildren_logExt (m : MetaSlab (ATree d)) (l r : ATree d) (li ri : Nat) (c : Ctx) :
    LogExt c (m.mergeChildren l r li ri c).2 := LogExt.emit3 _ _ _ _

theorem mergeOrRebalanceChildSlab_logExt {T : Nat} {m m' : MetaSlab (ATree d)} {child : ATree d} {k u : Nat} {c c' : Ctx}
    (h : m.mergeOrRebalanceChildSlab T child k u c = .ok (m', c')) : LogExt c c' := by
  unfold mergeOrRebalanceChildSlab at h
  simp only at h
  repeat' split at h
  all_goals first
    | (cases h; done)
    | (cases h; exact LogExt.emit3 _ _ _ _)

end MetaSlab

namespace ATree
open MetaSlab

theorem afterSet_logExt {T d : Nat} {m m' : MetaSlab (ATree d)} {child : ATree d} {k : Nat} {c c' : Ctx}
    (h : afterSet T m child k c = .ok (m', c')) : LogExt c c' := by
  unfold afterSet at h
  split at h
  · exact splitChildSlab_logExt h
  · split at h
    · exact mergeOrRebalanceChildSlab_logExt h
    · cases h; exact LogExt.emit _ _

theorem set_logExt {T : Nat} : ∀ {d : Nat} {t t' : ATree d} {i : Nat} {e old : Elem} {c c' : Ctx},
    set T d t i e c = .ok (old, t', c') → LogExt c c'
  | 0, t, t', i, e, old, c, c', h => DataSlab.set_logExt h
  | d + 1, t, t', i, e, old, c, c', h => by
    unfold ATree.set at h
    obtain ⟨⟨k, adj⟩, _, h⟩ := bind_ok h
    simp only at h
    split at h
    · cases h
    · obtain ⟨⟨old1, child', c1⟩, hs, h⟩ := bind_ok h
      simp only at h
      obtain ⟨⟨m2, c2⟩, haf, h⟩ := bind_ok h
      simp only [pure, Except.pure] at h
      cases h
      exact (set_logExt hs).trans (afterSet_logExt haf)

end ATree

namespace Arr
open ATree

theorem splitRoot_logExt {a a' : Arr} {c c' : Ctx} (h : a.splitRoot c = .ok (a', c')) : LogExt c c' := by
  unfold splitRoot at h
  simp only [bind, Except.bind, pure, Except.pure] at h
  split at h
  · cases h
  · rename_i hs
    cases h
    exact (LogExt.alloc c _).trans ((ATree.split_logExt hs).trans (LogExt.emit3 _ _ _ _))

theorem promoteIfSingleChild_logExt (a : Arr) (c : Ctx) : LogExt c (a.promoteIfSingleChild c).2 := by
  obtain ⟨d, root, ty⟩ := a
  cases d with
  | zero => exact LogExt.refl c
  | succ d =>
    unfold promoteIfSingleChild
    simp only
    split
    · exact LogExt.emit2 _ _ _
    · exact LogExt.refl c

theorem set_logExt {T : Nat} {a a' : Arr} {i : Nat} {e old : Elem} {c c' : Ctx}
    (h : a.set T i e c = .ok (old, a', c')) : LogExt c c' := by
  unfold Arr.set at h
  obtain ⟨⟨old1, root', c1⟩, hs, h⟩ := bind_ok h
  have l1 := ATree.set_logExt hs
  simp only at h
  split at h
  · obtain ⟨⟨a2, c2⟩, h2, h⟩ := bind_ok h
    simp only [pure, Except.pure] at h
    cases h
    exact l1.trans ((splitRoot_logExt h2).trans (promoteIfSingleChild_logExt _ _))
  · obtain ⟨⟨a2, c2⟩, h2, h⟩ := bind_ok h
    simp only [pure, Except.pure] at h h2
    cases h; cases h2
    exact l1.trans (promoteIfSingleChild_logExt _ _)

end Arr

/-! ### maps (using the invariant-free inversion lemmas of `AtreeProofs/Map/Effects*.lean`) -/

theorem ValStep.logExt {a : Nat} {c c' : Ctx} (h : ValStep a c c') : LogExt c c' := by
  rcases h with rfl | ⟨v, rfl⟩
  · exact LogExt.refl _
  · exact ⟨_, rfl⟩

/-- `set` of an `elements` implementation only appends to the log -/
def OpsLog {α : Type} (cfg : MCfg) (o : ElemsOps α) : Prop :=
  ∀ g level k v c ks old g' c', o.set cfg g level k v c = .ok (ks, old, g', c') → LogExt c c'

theorem SingleElems.opsLog (cfg : MCfg) : OpsLog cfg SingleElems.ops := by
  intro e ℓ k v c ks old e' c' h
  have h : SingleElems.set cfg e ℓ k v c = .ok (ks, old, e', c') := h
  unfold SingleElems.set at h
  split at h
  · cases h
  · split at h
    · split at h
      · cases h
      · cases h; exact (toStorableLim_valStep _ _ _ _).logExt
    · cases h; exact (newSingleElement_valStep _ _ _ _ _).logExt

section elems
variable {α : Type} {o : ElemsOps α} {cfg : MCfg}

theorem inlSet_logExt (ho : OpsLog cfg o) {g : α} {ℓ : Nat} {k : MKey} {v : Elem} {c : Ctx} {el' : MElemF α}
    {ks : MKey} {old : Option Elem} {c' : Ctx}
    (h : MElemF.inlSet o cfg g ℓ k v c = .ok (el', ks, old, c')) : LogExt c c' := by
  obtain ⟨g', c1, hset, hcase⟩ := inlSet_inv h
  have l1 := ho _ _ _ _ _ _ _ _ _ hset
  rcases hcase with ⟨_, rfl⟩ | ⟨_, sz, slab, _, rfl⟩
  · exact l1
  · exact l1.trans ((LogExt.alloc _ _).trans (LogExt.emit _ _))

theorem elemSet_logExt (ho : OpsLog cfg o) {el : MElemF α} {ℓ : Nat} {k : MKey} {v : Elem} {c : Ctx}
    {el' : MElemF α} {ks : MKey} {old : Option Elem} {c' : Ctx}
    (h : el.set o cfg ℓ k v c = .ok (el', ks, old, c')) : LogExt c c' := by
  rcases elem_set_inv h with ⟨x, x', _, _, hv⟩ | ⟨g, _, hin⟩ | ⟨id, sz, s, elems', c1, _, hset, _, rfl⟩
  · exact hv.logExt
  · exact inlSet_logExt ho hin
  · exact (ho _ _ _ _ _ _ _ _ _ hset).trans (LogExt.emit _ _)

theorem hkeySet_logExt (ho : OpsLog cfg o) {e : HkeyElems α} {ℓ : Nat} {k : MKey} {v : Elem} {c : Ctx}
    {res : MKey × Option Elem × HkeyElems α × Ctx}
    (h : HkeyElems.set o cfg e ℓ k v c = .ok res) : LogExt c res.2.2.2 := by
  rcases hkey_set_inv h with ⟨idx, hk, hres⟩ | ⟨i, el, el', ks, old, c', hel, hs, _, hc⟩
  · rw [hres]; exact (insertNew_valStep cfg e idx hk k v c).logExt
  · rw [hc]; exact elemSet_logExt ho hs

theorem HkeyElems.opsLog (ho : OpsLog cfg o) : OpsLog cfg (HkeyElems.ops o) := by
  intro e ℓ k v c ks old e' c' h
  have h : HkeyElems.set o cfg e ℓ k v c = .ok (ks, old, e', c') := h
  exact hkeySet_logExt ho h

end elems

theorem MElems.opsLog (cfg : MCfg) : ∀ r, OpsLog cfg (MElems.ops r)
  | 0 => SingleElems.opsLog cfg
  | r + 1 => HkeyElems.opsLog (MElems.opsLog cfg r)

section mtree
variable {r : Nat}

theorem MDataSlab.storeIfNotInlined_logExt (s : MDataSlab r) (c : Ctx) : LogExt c (s.storeIfNotInlined c) := by
  unfold MDataSlab.storeIfNotInlined
  split
  · exact LogExt.refl c
  · exact LogExt.emit _ _

theorem MDataSlab.set_logExt {cfg : MCfg} {s s' : MDataSlab r} {k ks : MKey} {v : Elem} {old : Option Elem}
    {c c' : Ctx} (h : s.set cfg k v c = .ok (ks, old, s', c')) : LogExt c c' := by
  unfold MDataSlab.set at h
  obtain ⟨⟨ks', old', elems, c1⟩, hset, h⟩ := mbind_eq_ok h
  simp only [pure, Except.pure, Except.ok.injEq, Prod.mk.injEq] at h
  obtain ⟨_, _, _, rfl⟩ := h
  exact (hkeySet_logExt (MElems.opsLog cfg r) hset).trans (MDataSlab.storeIfNotInlined_logExt _ _)

theorem MTree.split_logExt {d : Nat} {t l rr : MTree r d} {c c' : Ctx}
    (h : MTree.split d t c = .ok (l, rr, c')) : LogExt c c' := by
  obtain ⟨_, _, _, rfl⟩ := msplit_struct d t c l rr c' h
  exact LogExt.alloc _ _

variable {d : Nat}

theorem MMetaSlab.splitChildSlab_logExt {m m' : MMetaSlab (MTree r d)} {child : MTree r d} {k : Nat} {c c' : Ctx}
    (h : m.splitChildSlab child k c = .ok (m', c')) : LogExt c c' := by
  unfold MMetaSlab.splitChildSlab at h
  obtain ⟨⟨l, rr, c1⟩, hs, h⟩ := mbind_eq_ok h
  simp only [pure, Except.pure, Except.ok.injEq, Prod.mk.injEq] at h
  obtain ⟨_, rfl⟩ := h
  exact (MTree.split_logExt hs).trans (LogExt.emit3 _ _ _ _)

theorem MMetaSlab.mergeOrRebalanceChildSlab_logExt {T : Nat} {m m' : MMetaSlab (MTree r d)} {child : MTree r d}
    {k u : Nat} {c c' : Ctx} (h : m.mergeOrRebalanceChildSlab T child k u c = .ok (m', c')) : LogExt c c' := by
  obtain ⟨l, rr, li, _, hcase⟩ := mmor_cases m child k u c m' c' h
  rcases hcase with ⟨flag, hreb⟩ | hmer
  · obtain ⟨l', r', _, _, _, rfl⟩ := mrebal_inv hreb
    exact LogExt.emit3 _ _ _ _
  · have : c' = (m.mergeChildren l rr li (li + 1) c).2 := by rw [← hmer]
    rw [this, mmerge_ctx]
    exact LogExt.emit3 _ _ _ _

theorem MMetaSlab.afterChild_logExt {T : Nat} {m m' : MMetaSlab (MTree r d)} {child : MTree r d} {k : Nat} {c c' : Ctx}
    (h : m.afterChild T child k c = .ok (m', c')) : LogExt c c' := by
  rcases afterChild_inv h with h1 | ⟨u, h2⟩ | ⟨_, rfl⟩
  · exact MMetaSlab.splitChildSlab_logExt h1
  · exact MMetaSlab.mergeOrRebalanceChildSlab_logExt h2
  · exact LogExt.emit _ _

theorem MTree.set_logExt {cfg : MCfg} : ∀ (d : Nat) {t t' : MTree r d} {k ks : MKey} {v : Elem} {old : Option Elem}
    {c c' : Ctx}, MTree.set cfg d t k v c = .ok (ks, old, t', c') → LogExt c c'
  | 0, _, _, _, _, _, _, _, _, h => MDataSlab.set_logExt h
  | d + 1, t, _, _, _, _, _, _, _, h => by
    obtain ⟨i, child, child', c1, _, hs, ha⟩ := mset_succ_inv t h
    exact (MTree.set_logExt d hs).trans (MMetaSlab.afterChild_logExt ha)

end mtree

namespace OMap
variable {r : Nat}

theorem promoteIfSingleChild_logExt (m : OMap r) (c : Ctx) : LogExt c (m.promoteIfSingleChild c).2 := by
  obtain ⟨d, root, ty, cnt, seed⟩ := m
  cases d with
  | zero => exact LogExt.refl c
  | succ d =>
    unfold promoteIfSingleChild
    simp only
    split
    · exact LogExt.emit2 _ _ _
    · exact LogExt.refl c

theorem splitRootIfFull_logExt {T : Nat} {m m' : OMap r} {c c' : Ctx}
    (h : m.splitRootIfFull T c = .ok (m', c')) : LogExt c c' := by
  unfold splitRootIfFull at h
  split at h
  · obtain ⟨d, root, ty, cnt, seed⟩ := m
    obtain ⟨l, rr, c2, hsp, _, rfl⟩ := splitRoot_inv d root ty cnt seed c h
    exact (LogExt.alloc c _).trans ((MTree.split_logExt hsp).trans (LogExt.emit3 _ _ _ _))
  · cases h; exact LogExt.refl c

theorem set_logExt {cfg : MCfg} {m m' : OMap r} {k : MKey} {v : Elem} {old : Option Elem} {c c' : Ctx}
    (h : m.set cfg k v c = .ok (old, m', c')) : LogExt c c' := by
  unfold OMap.set at h
  obtain ⟨⟨ks, old1, root', c1⟩, hs, h⟩ := mbind_eq_ok h
  have l1 := MTree.set_logExt m.d hs
  simp only at h
  obtain ⟨⟨m3, c3⟩, h3, h⟩ := mbind_eq_ok h
  simp only [pure, Except.pure, Except.ok.injEq, Prod.mk.injEq] at h
  obtain ⟨_, _, rfl⟩ := h
  exact l1.trans ((promoteIfSingleChild_logExt _ _).trans (splitRootIfFull_logExt h3))

end OMap

/-- Array / map `set` only append to the effect log: unconditionally. -/
theorem setAppends (T : Nat) (cfg : MCfg) : SetAppends T cfg :=
  ⟨fun _ _ _ _ _ _ _ h => Arr.set_logExt h, fun _ _ _ _ _ _ _ h => OMap.set_logExt h⟩

end Atree
