import AtreeProofs.World.DeepNotifyMap
/-
  DEEP ACCOUNT, part 8: THE TRACKED CALLBACK CHAIN (`notifyDeep`).  A notification from `y` through a
  current handle, in a world whose containers above `y` are those of a world satisfying the
  invariant (if every live container of the final world is referenced at most once): every heap slab that
  deeply embeds (through inlined containers) a container whose entry the chain changed — or `y`
  itself, inlined before or after — was stored by the chain.
-/
namespace Atree.Deep
open Gen World Codec
open MapHolder (StoredSince Ext)

variable {D : SlabID → DigestFn 4} {rank : SlabID → Nat}

/-- dropping a closure changes no container -/
theorem ndpost_notFound {y : SlabID} {w : World} {cx : Ctx} (h : AList SlabID HInfo)
    (hno : Inl w y → (∃ q, World.Holds w q y) → False) : NDPost rank y w cx { w with hinfo := h } cx :=
  ndpost_same (fun _ => rfl) rfl hno

theorem notifyDeep_step {fuel : Nat} (IH : NotifyDeep D rank fuel) : NotifyDeep D rank (fuel + 1) := by
  intro w0 ctr0 w y cx w' cx' P hsame hhand h
  rw [notifyParent] at h
  split at h
  · -- no closure
    rename_i hnone
    cases h
    refine ndpost_same (fun _ => rfl) rfl ?_
    rintro _ ⟨q, hq⟩
    obtain ⟨hi', hhi', _, _⟩ := hhand.of_held hq
    rw [hnone] at hhi'; cases hhi'
  · cases h
  · rename_i hi c hh hc
    -- a held container with a current handle: its closure is the one found, and it is current
    have hcur : (∃ q, World.Holds w q y) → ClosureCurrent w y hi ∧ HandleOk w hi.parent := by
      rintro ⟨q, hq⟩
      obtain ⟨hi', hhi', h1, h2⟩ := hhand.of_held hq
      rw [hh] at hhi'; cases hhi'
      exact ⟨h1, h2⟩
    split at h
    · -- the child stays a separate slab
      rename_i hstay
      cases h
      refine ndpost_same (fun _ => rfl) rfl ?_
      rintro ⟨c0, hc0, hi0⟩ _
      rw [hc] at hc0; cases hc0
      simp [hi0] at hstay
    · dsimp only at h
      have hlegal := P.legal
      have hylive : (w.cont? y).isSome := by rw [hc]; rfl
      split at h
      · -- the recorded parent is gone
        rename_i hpnone
        cases h
        refine ndpost_notFound _ ?_
        intro _ hheld
        obtain ⟨⟨lim, e, hca⟩, _⟩ := hcur hheld
        rcases hca with ⟨pa2, _, hpa2, _⟩ | ⟨pm2, _, hpm2, _⟩
        · rw [hpnone] at hpa2; cases hpa2
        · rw [hpnone] at hpm2; cases hpm2
      · rename_i pa hpa
        have hpok : ArrOk w.T pa cx.ctr := (P.conts _ _ hpa).1
        split at h
        · rename_i hidxn
          cases h
          refine ndpost_notFound _ ?_
          intro _ hheld
          obtain ⟨⟨lim, e, hca⟩, _⟩ := hcur hheld
          rcases hca with ⟨pa2, i, hpa2, hidx2, _⟩ | ⟨pm2, _, hpm2, _⟩
          · rw [hidxn] at hidx2; cases hidx2
          · rw [hpa] at hpm2; cases hpm2
        · rename_i idx hidx
          split at h
          · cases h
          · rename_i el hget
            have hge : pa.toList[idx]? = some el := hpok.get_ok hlegal hget
            split at h
            · rename_i hne
              cases h
              refine ndpost_notFound _ ?_
              intro _ hheld
              obtain ⟨⟨lim, e, hca⟩, _⟩ := hcur hheld
              rcases hca with ⟨pa2, i, hpa2, hidx2, hge2, hpay2, _⟩ | ⟨pm2, _, hpm2, _⟩
              · rw [hpa] at hpa2; cases hpa2
                rw [hidx] at hidx2; cases hidx2
                rw [hge] at hge2; cases hge2
                exact hne hpay2
              · rw [hpa] at hpm2; cases hpm2
            · rename_i hel
              have hel : el.pay = .ref y := by
                by_cases hq : el.pay = .ref y
                · exact hq
                · exact absurd hq hel
              have hpy : World.Holds w hi.parent y :=
                ⟨_, hpa, by
                  simp only [Cont.pays, Cont.storedElems, List.mem_map]
                  exact ⟨el, List.mem_of_getElem? hge, hel⟩⟩
              obtain ⟨_, hpar⟩ := hcur ⟨_, hpy⟩
              split at h
              · cases h
              · rename_i old w4 cx4 hsr
                split at h
                · cases h
                · cases h
                  exact deep_arr_core IH P hsame hh hc hpa hge hel hpar hsr
      · rename_i pm hpm
        split at h
        · cases h
        · rename_i k hkey
          have hcl := (P.closure y hi hh).2 pm k hpm hkey
          have hpok : MapOk w.T (D hi.parent) pm cx.ctr := (P.conts _ _ hpm).1
          have hcfg := P.cfgOk hpm
          -- a current closure finds its element
          have hfind : ClosureCurrent w y hi → ∃ e, e.pay = .ref y ∧ (k, e) ∈ pm.toList ∧
              pm.get w.mcfg k = .ok (k, e) := by
            rintro ⟨lim, e, hca⟩
            rcases hca with ⟨pa2, _, hpa2, _⟩ | ⟨pm2, k2, hpm2, hk2, hmem, hpay2, _⟩
            · rw [hpm] at hpa2; cases hpa2
            · rw [hpm] at hpm2; cases hpm2
              rw [hkey] at hk2; cases hk2
              exact ⟨e, hpay2, hmem, (hpok.get_spec hlegal hcfg hcl.1).1 e hmem⟩
          split at h
          · rename_i hgetn
            cases h
            refine ndpost_notFound _ ?_
            intro _ hheld
            obtain ⟨e, _, _, hg⟩ := hfind (hcur hheld).1
            rw [hg] at hgetn; cases hgetn
          · cases h
          · rename_i k' el hget
            split at h
            · rename_i hne
              cases h
              refine ndpost_notFound _ ?_
              intro _ hheld
              obtain ⟨e, hp, _, hg⟩ := hfind (hcur hheld).1
              rw [hg] at hget; cases hget
              exact hne hp
            · rename_i hel
              have hel : el.pay = .ref y := by
                by_cases hq : el.pay = .ref y
                · exact hq
                · exact absurd hq hel
              have hmem : (k, el) ∈ pm.toList := (hpok.get_ok hlegal hcfg hcl.1 hget).2
              have hpy : World.Holds w hi.parent y :=
                ⟨_, hpm, by
                  simp only [Cont.pays, Cont.storedElems, List.mem_map]
                  exact ⟨el, ⟨(k, el), hmem, rfl⟩, hel⟩⟩
              obtain ⟨_, hpar⟩ := hcur ⟨_, hpy⟩
              split at h
              · cases h
              · rename_i old w4 cx4 hsr
                have hres := deep_map_core IH P hsame hh hc hpm hkey hmem hel hpar hsr
                split at h
                · split at h
                  · cases h
                  · cases h; exact hres
                · cases h

/-- THE TRACKED CALLBACK CHAIN, for every fuel -/
theorem notifyDeep (D : SlabID → DigestFn 4) (rank : SlabID → Nat) : ∀ fuel, NotifyDeep D rank fuel
  | 0 => by
    intro w0 ctr0 w y cx w' cx' _ _ _ h
    rw [notifyParent] at h
    cases h
  | fuel + 1 => notifyDeep_step (notifyDeep D rank fuel)

end Atree.Deep
