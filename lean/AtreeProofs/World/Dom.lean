import AtreeProofs.World.Basic
/-
  The mutual block `notifyParent` / `arrSetRaw` / `mapSetRaw` keeps the set of known containers,
  the configuration, and (if array / map `set` keep the root ID) the value ID of every container.
-/
namespace Atree
open Gen

/-- "array / map `set` keep the root slab ID" (a consequence of the array and map invariants) -/
def RootStable (T : Nat) (cfg : MCfg) : Prop :=
  (∀ (a a' : Arr) (c c' : Ctx) (j : Nat) (e old : Elem), a.set T j e c = .ok (old, a', c') → a'.rootID = a.rootID) ∧
  (∀ (m m' : OMap 3) (c c' : Ctx) (k : MKey) (e : Elem) (old : Option Elem), m.set cfg k e c = .ok (old, m', c') → m'.rootID = m.rootID)

namespace World

/-- `w'` knows the same containers as `w`, under the same configuration; and, provided `H`,
    every container has kept its value ID. -/
def DomRel (H : Prop) (w w' : World) : Prop :=
  w'.T = w.T ∧ w'.addr = w.addr ∧
  (∀ v, (w'.cont? v).isSome = (w.cont? v).isSome) ∧
  (H → ∀ v c c', w.cont? v = some c → w'.cont? v = some c' → c'.vid = c.vid)

theorem DomRel.refl (H : Prop) (w : World) : DomRel H w w :=
  ⟨rfl, rfl, fun _ => rfl, fun _ v c c' h1 h2 => by rw [h1] at h2; cases h2; rfl⟩

theorem DomRel.trans {H : Prop} {w1 w2 w3 : World} (h12 : DomRel H w1 w2) (h23 : DomRel H w2 w3) :
    DomRel H w1 w3 := by
  refine ⟨h23.1.trans h12.1, h23.2.1.trans h12.2.1, fun v => (h23.2.2.1 v).trans (h12.2.2.1 v), ?_⟩
  intro hH v c c' h1 h3
  have hs := h12.2.2.1 v
  rw [h1] at hs
  cases h2 : w2.cont? v with
  | none => rw [h2] at hs; cases hs
  | some c2 => exact (h23.2.2.2 hH v c2 c' h2 h3).trans (h12.2.2.2 hH v c c2 h1 h2)

theorem DomRel.mcfg_eq {H : Prop} {w w' : World} (h : DomRel H w w') : w'.mcfg = w.mcfg := by
  simp [World.mcfg, h.1, h.2.1]

theorem DomRel.keeps_isSome {H : Prop} {w w' : World} (h : DomRel H w w') {v : SlabID}
    (hv : (w.cont? v).isSome) : (w'.cont? v).isSome := by
  rw [h.2.2.1 v]; exact hv

theorem DomRel.get_some {H : Prop} {w w' : World} (h : DomRel H w w') {v : SlabID} {c : Cont}
    (hv : w.cont? v = some c) : ∃ c', w'.cont? v = some c' ∧ (H → c'.vid = c.vid) := by
  have hs := h.2.2.1 v
  rw [hv] at hs
  cases h2 : w'.cont? v with
  | none => rw [h2] at hs; cases hs
  | some c' => exact ⟨c', rfl, fun hH => h.2.2.2 hH v c c' hv h2⟩

theorem DomRel.idsOk {H : Prop} {w w' : World} (h : DomRel H w w') (hH : H) (hids : IdsOk w) : IdsOk w' := by
  intro v c' hv
  have hs := h.2.2.1 v
  rw [hv] at hs
  cases h1 : w.cont? v with
  | none => rw [h1] at hs; cases hs
  | some c => rw [h.2.2.2 hH v c c' h1 hv]; exact hids v c h1

/-- replacing a known container by one with the same value ID -/
theorem DomRel.setCont {H : Prop} {w : World} {p : SlabID} {c c' : Cont} (hp : w.cont? p = some c)
    (hvid : H → c'.vid = c.vid) : DomRel H w (w.setCont p c') := by
  refine ⟨rfl, rfl, ?_, ?_⟩
  · intro v
    rw [cont?_setCont]
    split
    · rename_i hpv; subst hpv; simp [hp]
    · rfl
  · intro hH v c1 c2 h1 h2
    rw [cont?_setCont] at h2
    split at h2
    · rename_i hpv; subst hpv
      rw [hp] at h1; cases h1; cases h2; exact hvid hH
    · rw [h1] at h2; cases h2; rfl

/-- worlds with the same container table and configuration -/
theorem DomRel.of_conts {H : Prop} {w w' : World} (hT : w'.T = w.T) (ha : w'.addr = w.addr)
    (hc : w'.conts = w.conts) : DomRel H w w' := by
  have : ∀ v, w'.cont? v = w.cont? v := fun v => by simp [cont?, hc]
  refine ⟨hT, ha, fun v => by rw [this], fun _ v c c' h1 h2 => ?_⟩
  rw [this, h1] at h2; cases h2; rfl

theorem DomRel.setCallbackArr {H : Prop} (w : World) (p : SlabID) (i : Nat) (v : WVal) :
    DomRel H w (w.setCallbackArr p i v) := by
  cases v <;> exact DomRel.of_conts rfl rfl rfl

theorem DomRel.setCallbackMap {H : Prop} (w : World) (p : SlabID) (k : MKey) (v : WVal) :
    DomRel H w (w.setCallbackMap p k v) := by
  cases v <;> exact DomRel.of_conts rfl rfl rfl

theorem DomRel.childStorable {H : Prop} {w : World} {x : SlabID} {wrap lim : Nat} {cx : Ctx}
    {e : Elem} {w' : World} {cx' : Ctx} (h : w.childStorable x wrap lim cx = .ok (e, w', cx')) :
    DomRel H w w' := by
  obtain ⟨c, hc⟩ := childStorable_some h
  obtain ⟨c', hs, _, _, hcase⟩ := childStorable_ok hc h
  rcases hcase with ⟨_, _, h3, _⟩ | ⟨_, h3, _⟩
  · subst h3; exact DomRel.refl _ _
  · subst h3; exact DomRel.setCont hc (fun _ => hs.vid)

theorem DomRel.storableOf {H : Prop} {w : World} {v : WVal} {lim : Nat} {cx : Ctx}
    {e : Elem} {w' : World} {cx' : Ctx} (h : w.storableOf v lim cx = .ok (e, w', cx')) :
    DomRel H w w' := by
  cases v with
  | plain e0 => simp only [World.storableOf] at h; cases h; exact DomRel.refl _ _
  | child x wrap => exact DomRel.childStorable h

theorem DomRel.uninlineIfNeeded {H : Prop} {w : World} {e : Elem} {cx : Ctx}
    {e' : Elem} {ov : Option SlabID} {w' : World} {cx' : Ctx}
    (h : w.uninlineIfNeeded e cx = .ok (e', ov, w', cx')) : DomRel H w w' := by
  obtain ⟨_, _, _, _, _, hcase⟩ := uninlineIfNeeded_ok h
  rcases hcase with ⟨_, _, h3, _⟩ | ⟨x, c, _, _, hc, ⟨_, _, h3, _⟩ | ⟨_, c', hs, _, h3, _⟩⟩
  · subst h3; exact DomRel.refl _ _
  · subst h3; exact DomRel.refl _ _
  · subst h3; exact DomRel.setCont hc (fun _ => hs.vid)

/-- The three statements proved simultaneously by induction on the fuel. -/
theorem mutual_domRel (T : Nat) (cfg : MCfg) (fuel : Nat) :
    (∀ w x cx w' cx', w.T = T → w.mcfg = cfg → notifyParent fuel w x cx = .ok (w', cx') →
        DomRel (RootStable T cfg) w w') ∧
    (∀ w p i v cx old w' cx', w.T = T → w.mcfg = cfg → arrSetRaw fuel w p i v cx = .ok (old, w', cx') →
        DomRel (RootStable T cfg) w w') ∧
    (∀ w p k v cx old w' cx', w.T = T → w.mcfg = cfg → mapSetRaw fuel w p k v cx = .ok (old, w', cx') →
        DomRel (RootStable T cfg) w w') := by
  -- the `set` functions, given the statement for `notifyParent` at the same fuel
  have harr : ∀ fuel, (∀ w x cx w' cx', w.T = T → w.mcfg = cfg → notifyParent fuel w x cx = .ok (w', cx') →
        DomRel (RootStable T cfg) w w') →
      (∀ w p i v cx old w' cx', w.T = T → w.mcfg = cfg → arrSetRaw fuel w p i v cx = .ok (old, w', cx') →
        DomRel (RootStable T cfg) w w') := by
    intro fuel ihn w p i v cx old w' cx' hT hcfg h
    rw [arrSetRaw] at h
    split at h
    · rename_i a hpa
      split at h
      · cases h
      · split at h
        · cases h
        · rename_i e w1 cx1 hst
          have d1 : DomRel (RootStable T cfg) w w1 := DomRel.storableOf hst
          split at h
          · cases h
          · rename_i old1 a' cx2 hset
            simp only at h
            split at h
            · cases h
            · rename_i w3 cx3 hnp
              cases h
              obtain ⟨c1, hc1, hv1⟩ := d1.get_some hpa
              have d2 : DomRel (RootStable T cfg) w1 (w1.setCont p (.arr a')) :=
                DomRel.setCont hc1 (fun hH => by
                  rw [hv1 hH]
                  rw [d1.1, hT] at hset
                  exact hH.1 a a' cx1 cx2 i e old hset)
              have d3 := ihn _ _ _ _ _ (by simp [d1.1, hT]) (by simp [d1.mcfg_eq, hcfg]) hnp
              exact (d1.trans (d2.trans d3)).trans (DomRel.setCallbackArr _ _ _ _)
    · cases h
  have hmap : ∀ fuel, (∀ w x cx w' cx', w.T = T → w.mcfg = cfg → notifyParent fuel w x cx = .ok (w', cx') →
        DomRel (RootStable T cfg) w w') →
      (∀ w p k v cx old w' cx', w.T = T → w.mcfg = cfg → mapSetRaw fuel w p k v cx = .ok (old, w', cx') →
        DomRel (RootStable T cfg) w w') := by
    intro fuel ihn w p k v cx old w' cx' hT hcfg h
    rw [mapSetRaw] at h
    split at h
    · rename_i m hpm
      split at h
      · cases h
      · rename_i e w1 cx1 hst
        have d1 : DomRel (RootStable T cfg) w w1 := DomRel.storableOf hst
        split at h
        · cases h
        · rename_i old1 m' cx2 hset
          simp only at h
          split at h
          · cases h
          · rename_i w3 cx3 hnp
            cases h
            obtain ⟨c1, hc1, hv1⟩ := d1.get_some hpm
            have d2 : DomRel (RootStable T cfg) w1 (w1.setCont p (.map m')) :=
              DomRel.setCont hc1 (fun hH => by
                rw [hv1 hH]
                rw [d1.mcfg_eq, hcfg] at hset
                exact hH.2 m m' cx1 cx2 k e old hset)
            have d3 := ihn _ _ _ _ _ (by simp [d1.1, hT]) (by simp [d1.mcfg_eq, hcfg]) hnp
            exact (d1.trans (d2.trans d3)).trans (DomRel.setCallbackMap _ _ _ _)
    · cases h
  have hnot : ∀ fuel, (∀ w x cx w' cx', w.T = T → w.mcfg = cfg → notifyParent fuel w x cx = .ok (w', cx') →
        DomRel (RootStable T cfg) w w') := by
    intro fuel
    induction fuel with
    | zero => intro w x cx w' cx' _ _ h; rw [notifyParent] at h; cases h
    | succ fuel ih =>
      intro w x cx w' cx' hT hcfg h
      rw [notifyParent] at h
      split at h
      · cases h; exact DomRel.refl _ _
      · cases h
      · rename_i hi c hh hc
        split at h
        · cases h; exact DomRel.refl _ _
        · simp only at h
          split at h
          · cases h; exact DomRel.of_conts rfl rfl rfl
          · rename_i pa hpa
            split at h
            · cases h; exact DomRel.of_conts rfl rfl rfl
            · rename_i idx hidx
              split at h
              · cases h
              · rename_i el hget
                split at h
                · cases h; exact DomRel.of_conts rfl rfl rfl
                · split at h
                  · cases h
                  · rename_i old w2 cx2 hset
                    split at h
                    · cases h
                    · cases h
                      exact harr fuel ih _ _ _ _ _ _ _ _ hT hcfg hset
          · rename_i pm hpm
            split at h
            · cases h
            · rename_i k hk
              split at h
              · cases h; exact DomRel.of_conts rfl rfl rfl
              · cases h
              · rename_i el hget
                split at h
                · cases h; exact DomRel.of_conts rfl rfl rfl
                · split at h
                  · cases h
                  · rename_i old w2 cx2 hset
                    split at h
                    · split at h
                      · cases h
                      · cases h
                        exact hmap fuel ih _ _ _ _ _ _ _ _ hT hcfg hset
                    · cases h
  exact ⟨hnot fuel, harr fuel (hnot fuel), hmap fuel (hnot fuel)⟩

theorem notifyParent_domRel {fuel : Nat} {w : World} {x : SlabID} {cx : Ctx} {w' : World} {cx' : Ctx}
    (h : notifyParent fuel w x cx = .ok (w', cx')) : DomRel (RootStable w.T w.mcfg) w w' :=
  (mutual_domRel w.T w.mcfg fuel).1 _ _ _ _ _ rfl rfl h

theorem arrSetRaw_domRel {fuel : Nat} {w : World} {p : SlabID} {i : Nat} {v : WVal} {cx : Ctx}
    {old : Elem} {w' : World} {cx' : Ctx}
    (h : arrSetRaw fuel w p i v cx = .ok (old, w', cx')) : DomRel (RootStable w.T w.mcfg) w w' :=
  (mutual_domRel w.T w.mcfg fuel).2.1 _ _ _ _ _ _ _ _ rfl rfl h

theorem mapSetRaw_domRel {fuel : Nat} {w : World} {p : SlabID} {k : MKey} {v : WVal} {cx : Ctx}
    {old : Option Elem} {w' : World} {cx' : Ctx}
    (h : mapSetRaw fuel w p k v cx = .ok (old, w', cx')) : DomRel (RootStable w.T w.mcfg) w w' :=
  (mutual_domRel w.T w.mcfg fuel).2.2 _ _ _ _ _ _ _ _ rfl rfl h

end World
end Atree
