import AtreeModel.StorageOps
import AtreeProofs.AListLemmas
import AtreeProofs.OrderLemmas
/-
  Helper definitions and lemmas for the storage state machine (C15, C14, C03, C08).
-/
namespace Atree
open St

variable {σ β : Type}

/-- `DecodeSlab (EncodeSlab v) = v` — discharged for the real codec by C07. -/
def RoundTrip (c : Codec σ β) : Prop := ∀ id v b, c.enc v = some b → c.dec id b = some v

/-- No pending owned slab fails to encode. -/
def NoEncodeFailure (c : Codec σ β) (s : St σ β) : Prop :=
  ∀ id v, AList.find? s.deltas id = some (some v) → (c.enc v).isSome

/-- The storage invariant. -/
structure Inv (c : Codec σ β) (s : St σ β) : Prop where
  /-- the read cache agrees with the ledger (a cached `nil` means "not in the ledger") -/
  coherent : ∀ id v, AList.find? s.cache id = some v → v = s.committed c id
  /-- association lists have unique keys (they model Go maps) -/
  deltasNodup : (AList.keys s.deltas).Nodup
  cacheNodup : (AList.keys s.cache).Nodup
  baseNodup : (AList.keys s.base).Nodup
  /-- nothing owned by the temporary address is in the ledger or in the cache -/
  noTempBase : ∀ id, id.isTemp = true → AList.find? s.base id = none
  /-- every register decodes -/
  baseDecodes : ∀ id b, AList.find? s.base id = some b → (c.dec id b).isSome

/-! ### Views -/

theorem view_of_deltas (c : Codec σ β) (s : St σ β) (id : SlabID) (v : Option σ)
    (h : AList.find? s.deltas id = some v) : s.view c id = v := by
  simp [St.view, h]

theorem view_of_not_pending (c : Codec σ β) (s : St σ β) (hI : Inv c s) (id : SlabID)
    (h : AList.find? s.deltas id = none) : s.view c id = s.committed c id := by
  simp only [St.view, h]
  cases hc : AList.find? s.cache id with
  | none => rfl
  | some v => exact hI.coherent id v hc

/-- Under the invariant the overlay view of the abstraction is the concrete view. -/
theorem abs_view (c : Codec σ β) (s : St σ β) (hI : Inv c s) (id : SlabID) :
    (s.abs c).view id = s.view c id := by
  cases hd : AList.find? s.deltas id with
  | none =>
    rw [view_of_not_pending c s hI id hd]
    simp [Overlay.view, St.abs, hd]
  | some v =>
    rw [view_of_deltas c s id v hd]
    simp [Overlay.view, St.abs, hd]

/-! ### The invariant and the simple operations -/

theorem inv_init (c : Codec σ β) : Inv c (St.init : St σ β) := by
  constructor <;> simp [St.init, St.fresh, AList.keys]

theorem inv_fresh (c : Codec σ β) (s : St σ β) (hI : Inv c s) :
    Inv c (St.fresh s.base s.alloc : St σ β) := by
  constructor
  · intro id v h; simp [St.fresh] at h
  · simp [St.fresh, AList.keys]
  · simp [St.fresh, AList.keys]
  · exact hI.baseNodup
  · exact hI.noTempBase
  · exact hI.baseDecodes

theorem inv_setDeltas (c : Codec σ β) (s : St σ β) (hI : Inv c s) (d : AList SlabID (Option σ))
    (hd : (AList.keys d).Nodup) : Inv c { s with deltas := d } :=
  ⟨hI.coherent, hd, hI.cacheNodup, hI.baseNodup, hI.noTempBase, hI.baseDecodes⟩

theorem inv_dropCache (c : Codec σ β) (s : St σ β) (hI : Inv c s) : Inv c s.dropCache := by
  refine ⟨?_, hI.deltasNodup, ?_, hI.baseNodup, hI.noTempBase, hI.baseDecodes⟩
  · intro id v h; simp [St.dropCache] at h
  · simp [St.dropCache, AList.keys]

theorem inv_setAux (c : Codec σ β) (s : St σ β) (hI : Inv c s) (t : Nat) (a : AList Nat Nat) :
    Inv c { s with tempIx := t, alloc := a } :=
  ⟨hI.coherent, hI.deltasNodup, hI.cacheNodup, hI.baseNodup, hI.noTempBase, hI.baseDecodes⟩

/-- Caching `decode(base[id])`. -/
theorem inv_cacheInsert (c : Codec σ β) (s : St σ β) (hI : Inv c s) (id : SlabID) (b : β) (v : σ)
    (hb : AList.find? s.base id = some b) (hv : c.dec id b = some v) :
    Inv c { s with cache := AList.insert s.cache id (some v) } := by
  refine ⟨?_, hI.deltasNodup, AList.nodup_keys_insert _ _ _ hI.cacheNodup, hI.baseNodup,
    hI.noTempBase, hI.baseDecodes⟩
  intro j w h
  simp only [AList.find?_insert] at h
  by_cases hj : id = j
  · subst hj
    simp only [if_true, Option.some.injEq] at h
    subst h
    simp [St.committed, hb, hv]
  · simp only [hj, if_false] at h
    exact hI.coherent j w h

theorem view_cacheInsert (c : Codec σ β) (s : St σ β) (hI : Inv c s) (id : SlabID) (b : β) (v : σ)
    (hb : AList.find? s.base id = some b) (hv : c.dec id b = some v) (j : SlabID) :
    St.view c { s with cache := AList.insert s.cache id (some v) } j = s.view c j := by
  simp only [St.view, AList.find?_insert]
  by_cases hj : id = j
  · subst hj
    cases hd : AList.find? s.deltas id with
    | some w => rfl
    | none =>
      simp only [if_true]
      cases hc : AList.find? s.cache id with
      | some w =>
        have := hI.coherent id w hc
        simp [this, St.committed, hb, hv]
      | none => simp [hb, hv]
  · simp [hj]

/-! ### `retrieveIgnoringDeltas` / `retrieve` -/

/-- Full description of `retrieveIgnoringDeltas` under the invariant. -/
theorem retrieveIgnoringDeltas_spec (c : Codec σ β) (s : St σ β) (hI : Inv c s) (id : SlabID)
    (ch : Bool) :
    ∃ s', s.retrieveIgnoringDeltas c id ch =
        .ok ((match AList.find? s.cache id with | some v => v | none => s.committed c id), s') ∧
      Inv c s' ∧ s'.view c = s.view c ∧ s'.deltas = s.deltas ∧ s'.base = s.base := by
  unfold St.retrieveIgnoringDeltas
  cases hc : AList.find? s.cache id with
  | some v => exact ⟨s, rfl, hI, rfl, rfl, rfl⟩
  | none =>
    cases hb : AList.find? s.base id with
    | none => exact ⟨s, by simp [St.committed, hb], hI, rfl, rfl, rfl⟩
    | some b =>
      have hdec := hI.baseDecodes id b hb
      cases hv : c.dec id b with
      | none => simp [hv] at hdec
      | some v =>
        cases ch with
        | false => exact ⟨s, by simp [St.committed, hb, hv], hI, rfl, rfl, rfl⟩
        | true =>
          refine ⟨{ s with cache := AList.insert s.cache id (some v) }, by simp [St.committed, hb, hv],
            inv_cacheInsert c s hI id b v hb hv, ?_, rfl, rfl⟩
          funext j
          exact view_cacheInsert c s hI id b v hb hv j

theorem retrieve_spec (c : Codec σ β) (s : St σ β) (hI : Inv c s) (id : SlabID) :
    ∃ s', s.retrieve c id = .ok (s.view c id, s') ∧ Inv c s' ∧ s'.view c = s.view c ∧
      s'.deltas = s.deltas ∧ s'.base = s.base := by
  unfold St.retrieve
  cases hd : AList.find? s.deltas id with
  | some v => exact ⟨s, by simp [St.view, hd], hI, rfl, rfl, rfl⟩
  | none =>
    obtain ⟨s', h1, h2, h3, h4, h5⟩ := retrieveIgnoringDeltas_spec c s hI id true
    refine ⟨s', ?_, h2, h3, h4, h5⟩
    rw [h1]
    simp only [St.view, hd]
    rfl

/-! ### `batchPreload` -/

theorem preloadOne_spec (c : Codec σ β) (r : St σ β × Option StErr) (id : SlabID)
    (hI : Inv c r.1) :
    Inv c (preloadOne c r id).1 ∧ (preloadOne c r id).1.view c = r.1.view c ∧
      (preloadOne c r id).1.deltas = r.1.deltas ∧ (preloadOne c r id).1.base = r.1.base := by
  unfold preloadOne
  split
  · exact ⟨hI, rfl, rfl, rfl⟩
  · dsimp only
    split
    · exact ⟨hI, rfl, rfl, rfl⟩
    · rename_i b hb
      split
      · exact ⟨hI, rfl, rfl, rfl⟩
      · rename_i v hv
        refine ⟨inv_cacheInsert c r.1 hI id b v hb hv, ?_, rfl, rfl⟩
        funext j
        exact view_cacheInsert c r.1 hI id b v hb hv j

theorem preload_fold_spec (c : Codec σ β) (ids : List SlabID) (r : St σ β × Option StErr)
    (hI : Inv c r.1) :
    Inv c (ids.foldl (preloadOne c) r).1 ∧ (ids.foldl (preloadOne c) r).1.view c = r.1.view c ∧
      (ids.foldl (preloadOne c) r).1.deltas = r.1.deltas ∧
      (ids.foldl (preloadOne c) r).1.base = r.1.base := by
  induction ids generalizing r with
  | nil => exact ⟨hI, rfl, rfl, rfl⟩
  | cons id ids ih =>
    obtain ⟨h1, h2, h3, h4⟩ := preloadOne_spec c r id hI
    obtain ⟨g1, g2, g3, g4⟩ := ih (preloadOne c r id) h1
    exact ⟨g1, g2.trans h2, g3.trans h3, g4.trans h4⟩

theorem batchPreload_spec (c : Codec σ β) (s : St σ β) (hI : Inv c s) (ids : List SlabID) :
    Inv c (s.batchPreload c ids).1 ∧ (s.batchPreload c ids).1.view c = s.view c ∧
      (s.batchPreload c ids).1.deltas = s.deltas ∧ (s.batchPreload c ids).1.base = s.base :=
  preload_fold_spec c ids (s, none) hI

end Atree
