import AtreeProofs.Array.ListLemmas
/-
  Slab layer, data slabs: `DataSlab.{get,set,insert,remove,split,merge,lendToRight,borrowFromRight}`
  preserve the per-slab facts and have the expected effect on `elems`.
-/
namespace Atree
open Gen

/-! ### Context bookkeeping -/

@[simp] theorem Ctx.emit_ctr (c : Ctx) (e : Eff) : (c.emit e).ctr = c.ctr := rfl
@[simp] theorem Ctx.alloc_ctr (c : Ctx) (a : Nat) : (c.alloc a).2.ctr = c.ctr + 1 := rfl
@[simp] theorem Ctx.alloc_id (c : Ctx) (a : Nat) : (c.alloc a).1 = ⟨a, c.ctr + 1⟩ := rfl
@[simp] theorem DataSlab.storeIfNotInlined_ctr (s : DataSlab) (c : Ctx) :
    (s.storeIfNotInlined c).ctr = c.ctr := by
  unfold DataSlab.storeIfNotInlined; split <;> rfl

theorem toStorable_ctr_le (T addr : Nat) (v : Elem) (c : Ctx) :
    c.ctr ≤ (toStorable T addr v c).2.ctr := by
  unfold toStorable
  split
  · exact Nat.le_refl _
  · split
    · simp [Ctx.alloc, Ctx.emit]
    · exact Nat.le_refl _

theorem toStorable_ok (T addr : Nat) (hT : legalThreshold T = true) (v : Elem) (c : Ctx)
    (hv : ValueOk v) : ElemOk T (toStorable T addr v c).1 := by
  obtain ⟨h1, n, hn⟩ := hv
  unfold toStorable
  rw [hn]
  simp only
  split
  · have := slabIDStorable_le T hT
    refine ⟨?_, this⟩
    simp [slabIDStorableSize, Gen.SlabIDLength]
  · rename_i hgt
    exact ⟨h1, by simp only; omega⟩

/-! ### Per-slab facts without the size band -/

/-- Facts about a non-inlined data slab, without the size band. -/
structure DShape (T : Nat) (top : Bool) (s : DataSlab) : Prop where
  count_eq : s.hdr.count = s.elems.length
  size_eq  : s.hdr.size = s.prefixSize + sumSizes s.elems
  elems_ok : ∀ e ∈ s.elems, ElemOk T e
  root_eq  : s.root = top
  not_inl  : s.inlined = false

theorem DShape.prefix_false {T : Nat} {s : DataSlab} (h : DShape T false s) :
    s.prefixSize = arrayDataSlabPrefixSize := by
  simp [DataSlab.prefixSize, h.root_eq, h.not_inl]

theorem DShape.prefix_true {T : Nat} {s : DataSlab} (h : DShape T true s) :
    s.prefixSize = arrayRootDataSlabPrefixSize := by
  simp [DataSlab.prefixSize, h.root_eq, h.not_inl]

theorem DShape.prefix_le {T : Nat} {top : Bool} {s : DataSlab} (h : DShape T top s) :
    arrayRootDataSlabPrefixSize ≤ s.prefixSize ∧ s.prefixSize ≤ arrayDataSlabPrefixSize := by
  cases top
  · rw [h.prefix_false]; simp [arrayRootDataSlabPrefixSize, arrayDataSlabPrefixSize]
  · rw [h.prefix_true]; simp [arrayRootDataSlabPrefixSize, arrayDataSlabPrefixSize]

theorem dataInv_iff (T : Nat) (top : Bool) (s : DataSlab) :
    (DataInv T top s ∧ s.inlined = false) ↔
      (DShape T top s ∧ s.hdr.size ≤ maxThr T ∧ (top = false → minThr T ≤ s.hdr.size)) := by
  constructor
  · rintro ⟨h, hi⟩
    exact ⟨⟨h.count_eq, h.size_eq, h.elems_ok, h.root_eq, hi⟩, h.le_max, h.ge_min⟩
  · rintro ⟨h, h1, h2⟩
    exact ⟨⟨h.count_eq, h.size_eq, h.elems_ok, h.root_eq, by simp [h.not_inl], h1, h2⟩, h.not_inl⟩

theorem DataInv.not_inl_of_false {T : Nat} {s : DataSlab} (h : DataInv T false s) :
    s.inlined = false := by
  cases hi : s.inlined
  · rfl
  · exact absurd (h.inl_root hi) (by simp)

theorem dataInv_false_iff (T : Nat) (s : DataSlab) :
    DataInv T false s ↔ (DShape T false s ∧ minThr T ≤ s.hdr.size ∧ s.hdr.size ≤ maxThr T) := by
  constructor
  · intro h
    have := (dataInv_iff T false s).1 ⟨h, h.not_inl_of_false⟩
    exact ⟨this.1, this.2.2 rfl, this.2.1⟩
  · rintro ⟨h, h1, h2⟩
    exact ((dataInv_iff T false s).2 ⟨h, h2, fun _ => h1⟩).1

theorem sumSizes_set (es : List Elem) (i : Nat) (e old : Elem) (h : es[i]? = some old) :
    sumSizes (es.set i e) + old.size = sumSizes es + e.size := by
  obtain ⟨A, B, rfl, hk⟩ := split_at_getElem? h
  rw [set_mid hk]
  simp only [sumSizes_append, sumSizes_cons]; omega

theorem sumSizes_insertIdx (es : List Elem) (i : Nat) (e : Elem) (h : i ≤ es.length) :
    sumSizes (es.insertIdx i e) = sumSizes es + e.size := by
  have : es = es.take i ++ es.drop i := (List.take_append_drop i es).symm
  rw [this, insertIdx_at (by simp [h])]
  simp only [sumSizes_append, sumSizes_cons]; omega

theorem sumSizes_eraseIdx (es : List Elem) (i : Nat) (old : Elem) (h : es[i]? = some old) :
    sumSizes (es.eraseIdx i) + old.size = sumSizes es := by
  obtain ⟨A, B, rfl, hk⟩ := split_at_getElem? h
  rw [eraseIdx_mid hk]
  simp only [sumSizes_append, sumSizes_cons]; omega

namespace DataSlab

/-! ### get -/
theorem get_spec (s : DataSlab) (i : Nat) :
    (i < s.elems.length → s.get i = .ok (s.elems.getD i default)) ∧
    (s.elems.length ≤ i → s.get i = .error .indexOutOfBounds) := by
  unfold get
  constructor
  · intro h
    rw [List.getD_eq_getElem?_getD, List.getElem?_eq_getElem h]; rfl
  · intro h
    rw [List.getElem?_eq_none h]

/-! ### set -/
theorem set_err (T : Nat) (s : DataSlab) (i : Nat) (v : Elem) (c : Ctx) (h : s.elems.length ≤ i) :
    s.set T i v c = .error .indexOutOfBounds := by
  unfold set
  rw [List.getElem?_eq_none h]

theorem set_spec (T : Nat) (hT : legalThreshold T = true) (top : Bool) (s : DataSlab) (i : Nat)
    (v : Elem) (c : Ctx) (hs : DShape T top s) (hv : ValueOk v) (hi : i < s.elems.length) :
    ∃ s' c', s.set T i v c = .ok (s.elems.getD i default, s', c') ∧
      DShape T top s' ∧
      s'.elems = s.elems.set i (toStorable T s.hdr.id.addr v c).1 ∧
      s'.hdr.id = s.hdr.id ∧ s'.next = s.next ∧ s'.hdr.count = s.hdr.count ∧
      s'.hdr.size + (s.elems.getD i default).size
        = s.hdr.size + (toStorable T s.hdr.id.addr v c).1.size ∧
      (s.elems.getD i default).size ≤ maxInlineArr T ∧
      (toStorable T s.hdr.id.addr v c).1.size ≤ maxInlineArr T ∧
      c.ctr ≤ c'.ctr := by
  have hget : s.elems[i]? = some (s.elems.getD i default) := by
    rw [List.getD_eq_getElem?_getD, List.getElem?_eq_getElem hi]; rfl
  have hold : ElemOk T (s.elems.getD i default) := by
    apply hs.elems_ok
    rw [List.getD_eq_getElem?_getD, List.getElem?_eq_getElem hi]
    simp
  have hnew := toStorable_ok T s.hdr.id.addr hT v c hv
  unfold set
  rw [hget]
  simp only
  refine ⟨_, _, rfl, ?_, rfl, rfl, rfl, rfl, ?_, hold.2, hnew.2, ?_⟩
  · constructor
    · simp [hs.count_eq]
    · simp [prefixSize]
    · intro e he
      rcases List.mem_or_eq_of_mem_set he with h | h
      · exact hs.elems_ok e h
      · rw [h]; exact hnew
    · exact hs.root_eq
    · exact hs.not_inl
  · have := sumSizes_set s.elems i (toStorable T s.hdr.id.addr v c).1 _ hget
    have h2 := hs.size_eq
    simp only [prefixSize] at h2 ⊢
    omega
  · simp only [storeIfNotInlined_ctr]
    exact toStorable_ctr_le _ _ _ _

/-! ### insert -/
theorem insert_err (T : Nat) (s : DataSlab) (i : Nat) (v : Elem) (c : Ctx) (h : s.elems.length < i) :
    s.insert T i v c = .error .indexOutOfBounds := by
  unfold insert
  simp [h]

theorem insert_spec (T : Nat) (hT : legalThreshold T = true) (top : Bool) (s : DataSlab) (i : Nat)
    (v : Elem) (c : Ctx) (hs : DShape T top s) (hv : ValueOk v) (hi : i ≤ s.elems.length) :
    ∃ s' c', s.insert T i v c = .ok (s', c') ∧
      DShape T top s' ∧
      s'.elems = s.elems.insertIdx i (toStorable T s.hdr.id.addr v c).1 ∧
      s'.hdr.id = s.hdr.id ∧ s'.next = s.next ∧ s'.hdr.count = s.hdr.count + 1 ∧
      s'.hdr.size = s.hdr.size + (toStorable T s.hdr.id.addr v c).1.size ∧
      (toStorable T s.hdr.id.addr v c).1.size ≤ maxInlineArr T ∧
      c.ctr ≤ c'.ctr := by
  have hnew := toStorable_ok T s.hdr.id.addr hT v c hv
  unfold insert
  have : ¬ i > s.elems.length := by omega
  simp only [this, if_false]
  refine ⟨_, _, rfl, ?_, rfl, rfl, rfl, rfl, rfl, hnew.2, ?_⟩
  · constructor
    · simp [hs.count_eq, List.length_insertIdx, hi]
    · have := sumSizes_insertIdx s.elems i (toStorable T s.hdr.id.addr v c).1 hi
      have h2 := hs.size_eq
      simp only [prefixSize] at h2 ⊢
      omega
    · intro e he
      rcases (List.mem_insertIdx hi).1 he with h | h
      · rw [h]; exact hnew
      · exact hs.elems_ok e h
    · exact hs.root_eq
    · exact hs.not_inl
  · simp only [storeIfNotInlined_ctr]
    exact toStorable_ctr_le _ _ _ _

/-! ### remove -/
theorem remove_err (s : DataSlab) (i : Nat) (c : Ctx) (h : s.elems.length ≤ i) :
    s.remove i c = .error .indexOutOfBounds := by
  unfold remove
  rw [List.getElem?_eq_none h]

theorem remove_spec (T : Nat) (top : Bool) (s : DataSlab) (i : Nat)
    (c : Ctx) (hs : DShape T top s) (hi : i < s.elems.length) :
    ∃ s' c', s.remove i c = .ok (s.elems.getD i default, s', c') ∧
      DShape T top s' ∧
      s'.elems = s.elems.eraseIdx i ∧
      s'.hdr.id = s.hdr.id ∧ s'.next = s.next ∧ s'.hdr.count + 1 = s.hdr.count ∧
      s'.hdr.size + (s.elems.getD i default).size = s.hdr.size ∧
      (s.elems.getD i default).size ≤ maxInlineArr T ∧
      c'.ctr = c.ctr := by
  have hget : s.elems[i]? = some (s.elems.getD i default) := by
    rw [List.getD_eq_getElem?_getD, List.getElem?_eq_getElem hi]; rfl
  have hold : ElemOk T (s.elems.getD i default) := by
    apply hs.elems_ok
    rw [List.getD_eq_getElem?_getD, List.getElem?_eq_getElem hi]
    simp
  have hsum := sumSizes_eraseIdx s.elems i _ hget
  unfold remove
  rw [hget]
  simp only
  refine ⟨_, _, rfl, ?_, rfl, rfl, rfl, ?_, ?_, hold.2, ?_⟩
  · constructor
    · simp [hs.count_eq, List.length_eraseIdx, hi]
    · have h2 := hs.size_eq
      simp only [prefixSize] at h2 ⊢
      omega
    · intro e he
      exact hs.elems_ok e (List.mem_of_mem_eraseIdx he)
    · exact hs.root_eq
    · exact hs.not_inl
  · simp only [hs.count_eq]; omega
  · have h2 := hs.size_eq
    simp only
    omega
  · simp

/-! ### split -/

theorem two_le_of_full (T : Nat) (hT : legalThreshold T = true) (s : DataSlab)
    (hs : s.hdr.size ≤ arrayDataSlabPrefixSize + sumSizes s.elems) (he : ∀ e ∈ s.elems, ElemOk T e)
    (hfull : T ≤ s.hdr.size) : 2 ≤ s.elems.length := by
  have F := thrFacts hT
  obtain ⟨f1, f2, f3, f4, f5, f6, f7, f8, f9⟩ := F
  match hel : s.elems with
  | [] => rw [hel] at hs; simp only [sumSizes_nil] at hs; omega
  | [e] =>
    rw [hel] at hs he
    have := (he e (by simp)).2
    simp only [sumSizes_cons, sumSizes_nil] at hs; omega
  | _ :: _ :: _ => simp

theorem split_spec (T : Nat) (hT : legalThreshold T = true) (s : DataSlab) (c : Ctx)
    (hs : DShape T false s)
    (hlo : maxThr T < s.hdr.size) (hhi : s.hdr.size ≤ maxThr T + maxInlineArr T + 16) :
    ∃ l r, s.split c = .ok (l, r, (c.alloc s.hdr.id.addr).2) ∧
      DataInv T false l ∧ DataInv T false r ∧ l.elems ++ r.elems = s.elems ∧
      l.hdr.id = s.hdr.id ∧ r.hdr.id = ⟨s.hdr.id.addr, c.ctr + 1⟩ ∧
      l.next = r.hdr.id ∧ r.next = s.next ∧
      l.hdr.count + r.hdr.count = s.hdr.count := by
  have F := thrFacts hT
  obtain ⟨f1, f2, f3, f4, f5, f6, f7, f8, f9⟩ := F
  have hsz := hs.size_eq
  rw [hs.prefix_false] at hsz
  have hlen : 2 ≤ s.elems.length :=
    two_le_of_full T hT s (by omega) hs.elems_ok (by omega)
  obtain ⟨k, hk, hloop, hb1, hb2, hk1, hklast⟩ :=
    splitLoop_spec ((s.hdr.size - arrayDataSlabPrefixSize + 1) / 2)
      (s.hdr.size - arrayDataSlabPrefixSize) (maxInlineArr T) rfl s.elems 0 0
      (fun e he => hs.elems_ok e he) (by omega) (by omega)
  have hk1 := hk1 rfl
  have hklt : k < s.elems.length := by
    rcases Nat.lt_or_ge k s.elems.length with h | h
    · exact h
    · have := hklast (by omega); omega
  have hsum := sumSizes_take_add_drop k s.elems
  unfold split
  have : ¬ s.elems.length < 2 := by omega
  simp only [this, if_false, hloop, Nat.zero_add]
  refine ⟨_, _, rfl, ?_, ?_, ?_, rfl, rfl, rfl, rfl, ?_⟩
  · rw [dataInv_false_iff]
    refine ⟨⟨?_, ?_, ?_, hs.root_eq, hs.not_inl⟩, ?_, ?_⟩
    · simp; omega
    · simp [prefixSize, hs.root_eq, hs.not_inl]
    · intro e he; exact hs.elems_ok e (List.mem_of_mem_take he)
    · simp only; omega
    · simp only; omega
  · rw [dataInv_false_iff]
    refine ⟨⟨?_, ?_, ?_, rfl, rfl⟩, ?_, ?_⟩
    · simp
    · simp only [prefixSize, Bool.false_eq_true, if_false]; omega
    · intro e he; exact hs.elems_ok e (List.mem_of_mem_drop he)
    · simp only; omega
    · simp only; omega
  · simp
  · simp [hs.count_eq]; omega

/-! ### merge -/

theorem merge_spec (T : Nat) (l r : DataSlab) (hl : DShape T false l) (hr : DShape T false r) :
    DShape T false (merge l r) ∧ (merge l r).elems = l.elems ++ r.elems ∧
      (merge l r).hdr.id = l.hdr.id ∧ (merge l r).next = r.next ∧
      (merge l r).hdr.count = l.hdr.count + r.hdr.count ∧
      (merge l r).hdr.size + arrayDataSlabPrefixSize = l.hdr.size + r.hdr.size := by
  have h1 := hl.size_eq
  have h2 := hr.size_eq
  rw [hl.prefix_false] at h1
  rw [hr.prefix_false] at h2
  refine ⟨⟨?_, ?_, ?_, hl.root_eq, hl.not_inl⟩, rfl, rfl, rfl, rfl, ?_⟩
  · simp [merge, hl.count_eq, hr.count_eq]
  · simp only [merge, prefixSize, hl.root_eq, hl.not_inl, Bool.false_eq_true, if_false,
      sumSizes_append]
    omega
  · intro e he
    simp only [merge, List.mem_append] at he
    rcases he with he | he
    · exact hl.elems_ok e he
    · exact hr.elems_ok e he
  · simp only [merge]; omega

/-- If the sibling cannot lend, merging the underflowing slab with it stays within the band. -/
theorem cannot_lend_bound (T : Nat) (hT : legalThreshold T = true) (s : DataSlab) (want : Nat)
    (hs : DShape T false s) (hw : 1 ≤ want) (rev : Bool)
    (hc : (if rev then s.canLendToRight T want else s.canLendToLeft T want) = false) :
    s.hdr.size < minThr T + want + maxInlineArr T + arrayDataSlabPrefixSize := by
  have F := thrFacts hT
  obtain ⟨f1, f2, f3, f4, f5, f6, f7, f8, f9⟩ := F
  have hsz := hs.size_eq
  rw [hs.prefix_false] at hsz
  by_cases h1 : s.elems.length < 2
  · have : sumSizes s.elems ≤ maxInlineArr T := by
      match hel : s.elems with
      | [] => simp [sumSizes_nil]
      | [e] =>
        have := (hs.elems_ok e (by simp [hel])).2
        simp only [sumSizes_cons, sumSizes_nil]; omega
      | _ :: _ :: _ => rw [hel] at h1; simp at h1; omega
    omega
  · by_cases h2 : s.hdr.size - want < minThr T
    · omega
    · have hloop : ∃ es, sumSizes es = sumSizes s.elems ∧ (∀ e ∈ es, e.size ≤ maxInlineArr T) ∧
          canLendLoop T s.hdr.size want es 0 = false := by
        cases rev
        · refine ⟨s.elems, rfl, fun e he => (hs.elems_ok e he).2, ?_⟩
          simpa [canLendToLeft, h1, h2] using hc
        · refine ⟨s.elems.reverse, sumSizes_reverse _, fun e he => (hs.elems_ok e (by simpa using he)).2, ?_⟩
          simpa [canLendToRight, h1, h2] using hc
      obtain ⟨es, hes, hall, hcl⟩ := hloop
      have := canLendLoop_false_bound T s.hdr.size want (maxInlineArr T) es 0 hall (by omega)
        (by omega) hcl
      omega

/-! ### lendToRight / borrowFromRight -/

theorem lendToRight_spec (T : Nat) (hT : legalThreshold T = true) (l r : DataSlab)
    (hl : DataInv T false l) (hr : DShape T false r) (hu : r.hdr.size < minThr T)
    (hcan : l.canLendToRight T (minThr T - r.hdr.size) = true) :
    DataInv T false (lendToRight T l r).1 ∧ DataInv T false (lendToRight T l r).2 ∧
    (lendToRight T l r).1.elems ++ (lendToRight T l r).2.elems = l.elems ++ r.elems ∧
    (lendToRight T l r).1.hdr.id = l.hdr.id ∧ (lendToRight T l r).2.hdr.id = r.hdr.id ∧
    (lendToRight T l r).1.next = l.next ∧ (lendToRight T l r).2.next = r.next ∧
    (lendToRight T l r).1.hdr.count + (lendToRight T l r).2.hdr.count
      = l.hdr.count + r.hdr.count := by
  have F := thrFacts hT
  obtain ⟨f1, f2, f3, f4, f5, f6, f7, f8, f9⟩ := F
  rw [dataInv_false_iff] at hl
  obtain ⟨hl, hl1, hl2⟩ := hl
  have hsl := hl.size_eq
  rw [hl.prefix_false] at hsl
  have hsr := hr.size_eq
  rw [hr.prefix_false] at hsr
  have hloop : canLendLoop T l.hdr.size (minThr T - r.hdr.size) l.elems.reverse 0 = true := by
    unfold canLendToRight at hcan
    by_cases h1 : l.elems.length < 2
    · simp [h1] at hcan
    · by_cases h2 : l.hdr.size - (minThr T - r.hdr.size) < minThr T
      · simp [h1, h2] at hcan
      · simpa [h1, h2] using hcan
  obtain ⟨k, ls', hk, hsum, heq, hb1, hb2, hb3⟩ :=
    lendLoop_spec T (l.hdr.size + r.hdr.size) ((l.hdr.size + r.hdr.size + 1) / 2) l.hdr.size
      (minThr T - r.hdr.size) hT rfl (by omega) (by omega) hl2 l.elems.reverse l.hdr.count
      l.hdr.size 0 (fun e he => (hl.elems_ok e (by simpa using he)).2)
      (by rw [sumSizes_reverse]; exact hsl) (by omega) (Or.inl ⟨by omega, hloop⟩)
  simp only [List.length_reverse] at hk
  have hmoved : sumSizes (l.elems.reverse.take k) = sumSizes (l.elems.drop (l.elems.length - k)) := by
    rw [List.take_reverse, sumSizes_reverse]
  have hsplit := sumSizes_take_add_drop (l.elems.length - k) l.elems
  have hcount := hl.count_eq
  have hkeep : l.elems.length - (l.hdr.count - (l.hdr.count - k)) = l.elems.length - k := by omega
  unfold lendToRight
  simp only [heq, hkeep]
  refine ⟨?_, ?_, by rw [← List.append_assoc, List.take_append_drop], trivial, trivial, trivial, trivial, ?_⟩
  · rw [dataInv_false_iff]
    refine ⟨⟨?_, ?_, ?_, hl.root_eq, hl.not_inl⟩, ?_, ?_⟩
    · simp; omega
    · simp only [prefixSize, hl.root_eq, hl.not_inl, Bool.false_eq_true, if_false]; omega
    · intro e he; exact hl.elems_ok e (List.mem_of_mem_take he)
    · simp only; omega
    · simp only; omega
  · rw [dataInv_false_iff]
    refine ⟨⟨?_, ?_, ?_, hr.root_eq, hr.not_inl⟩, ?_, ?_⟩
    · simp [hr.count_eq]; omega
    · simp only [prefixSize, hr.root_eq, hr.not_inl, Bool.false_eq_true, if_false,
        sumSizes_append]; omega
    · intro e he
      simp only [List.mem_append] at he
      rcases he with he | he
      · exact hl.elems_ok e (List.mem_of_mem_drop he)
      · exact hr.elems_ok e he
    · simp only; omega
    · simp only; omega
  · omega

theorem borrowFromRight_spec (T : Nat) (hT : legalThreshold T = true) (l r : DataSlab)
    (hl : DShape T false l) (hr : DataInv T false r) (hu : l.hdr.size < minThr T)
    (hcan : r.canLendToLeft T (minThr T - l.hdr.size) = true) :
    DataInv T false (borrowFromRight T l r).1 ∧ DataInv T false (borrowFromRight T l r).2 ∧
    (borrowFromRight T l r).1.elems ++ (borrowFromRight T l r).2.elems = l.elems ++ r.elems ∧
    (borrowFromRight T l r).1.hdr.id = l.hdr.id ∧ (borrowFromRight T l r).2.hdr.id = r.hdr.id ∧
    (borrowFromRight T l r).1.next = l.next ∧ (borrowFromRight T l r).2.next = r.next ∧
    (borrowFromRight T l r).1.hdr.count + (borrowFromRight T l r).2.hdr.count
      = l.hdr.count + r.hdr.count := by
  have F := thrFacts hT
  obtain ⟨f1, f2, f3, f4, f5, f6, f7, f8, f9⟩ := F
  rw [dataInv_false_iff] at hr
  obtain ⟨hr, hr1, hr2⟩ := hr
  have hsl := hl.size_eq
  rw [hl.prefix_false] at hsl
  have hsr := hr.size_eq
  rw [hr.prefix_false] at hsr
  have hloop : canLendLoop T r.hdr.size (minThr T - l.hdr.size) r.elems 0 = true := by
    unfold canLendToLeft at hcan
    by_cases h1 : r.elems.length < 2
    · simp [h1] at hcan
    · by_cases h2 : r.hdr.size - (minThr T - l.hdr.size) < minThr T
      · simp [h1, h2] at hcan
      · simpa [h1, h2] using hcan
  obtain ⟨k, hk, heq, hb1, hb2, hb3, hb4⟩ :=
    borrowLoop_spec T (l.hdr.size + r.hdr.size) ((l.hdr.size + r.hdr.size + 1) / 2) r.hdr.size
      (minThr T - l.hdr.size) hT rfl (by omega) (by omega) hr2 r.elems l.hdr.count
      l.hdr.size 0 (fun e he => (hr.elems_ok e he).2)
      (by omega) (by omega) (Or.inl ⟨by omega, hloop⟩)
  have hsplit := sumSizes_take_add_drop k r.elems
  have hmove : l.hdr.count + k - l.hdr.count = k := by omega
  unfold borrowFromRight
  simp only [heq, hmove]
  refine ⟨?_, ?_, by simp, trivial, trivial, trivial, trivial, ?_⟩
  · rw [dataInv_false_iff]
    refine ⟨⟨?_, ?_, ?_, hl.root_eq, hl.not_inl⟩, ?_, ?_⟩
    · simp [hl.count_eq]; omega
    · simp only [prefixSize, hl.root_eq, hl.not_inl, Bool.false_eq_true, if_false,
        sumSizes_append]; omega
    · intro e he
      simp only [List.mem_append] at he
      rcases he with he | he
      · exact hl.elems_ok e he
      · exact hr.elems_ok e (List.mem_of_mem_take he)
    · simp only; omega
    · simp only; omega
  · rw [dataInv_false_iff]
    refine ⟨⟨?_, ?_, ?_, hr.root_eq, hr.not_inl⟩, ?_, ?_⟩
    · simp [hr.count_eq]; omega
    · simp only [prefixSize, hr.root_eq, hr.not_inl, Bool.false_eq_true, if_false]; omega
    · intro e he; exact hr.elems_ok e (List.mem_of_mem_drop he)
    · simp only; omega
    · simp only; omega
  · have := hr.count_eq
    omega

end DataSlab
end Atree
