import AtreeProofs.Array.SlabLemmas
/-
  Tree layer, definitions: per-level facts without the size band (`Shape`), unfolding lemmas for
  `TreeInv`, and basic consequences (counts, children, leaves).

  `ATree 0` and `DataSlab` (resp. `ATree (d+1)` and `MetaSlab (ATree d)`) are definitionally equal
  but not syntactically; `ofData` / `ofMeta` make the change of type explicit so that rewriting
  works on type-correct terms.
-/
namespace Atree
open Gen ATree MetaSlab

/-- a data slab seen as a tree of depth 0 -/
def ofData (s : DataSlab) : ATree 0 := s
/-- an index slab seen as a tree of depth `d+1` -/
def ofMeta {d : Nat} (m : MetaSlab (ATree d)) : ATree (d + 1) := m

@[elab_as_elim]
theorem forall_ofData {P : ATree 0 → Prop} (h : ∀ s, P (ofData s)) (t : ATree 0) : P t := h t
@[elab_as_elim]
theorem forall_ofMeta {d : Nat} {P : ATree (d + 1) → Prop} (h : ∀ m, P (ofMeta m))
    (t : ATree (d + 1)) : P t := h t

/-- Facts about an index slab whose children all satisfy the full invariant, without the band. -/
structure MShape (T d : Nat) (top : Bool) (m : MetaSlab (ATree d)) : Prop where
  root_eq : m.root = top
  hdrs_eq : m.childHdrs = m.children.map (hdr d)
  sums_eq : m.countSum = prefixSums m.childHdrs 0
  count_eq : m.hdr.count = sumCounts m.childHdrs
  size_eq : m.hdr.size = arrayMetaDataSlabPrefixSize + arraySlabHeaderSize * m.children.length
  kids_inv : ∀ c ∈ m.children, TreeInv T d false c
  kids_addr : ∀ c ∈ m.children, (hdr d c).id.addr = m.hdr.id.addr

/-- `TreeInv` without the size band / minimum number of children of the slab itself. -/
def Shape (T : Nat) : (d : Nat) → Bool → ATree d → Prop
  | 0, top, (s : DataSlab) => DShape T top s
  | d + 1, top, (m : MetaSlab (ATree d)) => MShape T d top m

theorem treeInv_zero (T : Nat) (top : Bool) (s : DataSlab) :
    TreeInv T 0 top (ofData s) ↔ DataInv T top s := by
  unfold ofData; simp only [TreeInv]

theorem treeInv_succ (T d : Nat) (top : Bool) (m : MetaSlab (ATree d)) :
    TreeInv T (d + 1) top (ofMeta m) ↔
      MShape T d top m ∧ m.hdr.size ≤ maxThr T ∧ (top = false → minThr T ≤ m.hdr.size) ∧
      (top = true → 2 ≤ m.children.length) := by
  unfold ofMeta
  simp only [TreeInv]
  constructor
  · rintro ⟨h1, h2, h3, h4, h5, h6, h7, h8, h9, h10⟩
    exact ⟨⟨h1, h2, h3, h4, h5, h6, h7⟩, h8, h9, h10⟩
  · rintro ⟨⟨h1, h2, h3, h4, h5, h6, h7⟩, h8, h9, h10⟩
    exact ⟨h1, h2, h3, h4, h5, h6, h7, h8, h9, h10⟩

theorem shape_zero (T : Nat) (top : Bool) (s : DataSlab) :
    Shape T 0 top (ofData s) ↔ DShape T top s := by
  unfold ofData; simp only [Shape]
theorem shape_succ (T d : Nat) (top : Bool) (m : MetaSlab (ATree d)) :
    Shape T (d + 1) top (ofMeta m) ↔ MShape T d top m := by
  unfold ofMeta; simp only [Shape]

@[simp] theorem hdr_zero (s : DataSlab) : hdr 0 (ofData s) = s.hdr := rfl
@[simp] theorem hdr_succ (d : Nat) (m : MetaSlab (ATree d)) : hdr (d + 1) (ofMeta m) = m.hdr := rfl
@[simp] theorem flatten_zero (s : DataSlab) : flatten 0 (ofData s) = s.elems := rfl
@[simp] theorem flatten_succ (d : Nat) (m : MetaSlab (ATree d)) :
    flatten (d + 1) (ofMeta m) = m.children.flatMap (flatten d) := rfl
@[simp] theorem slabIds_zero (s : DataSlab) : slabIds 0 (ofData s) = [s.hdr.id] := rfl
@[simp] theorem slabIds_succ (d : Nat) (m : MetaSlab (ATree d)) :
    slabIds (d + 1) (ofMeta m) = m.hdr.id :: m.children.flatMap (slabIds d) := rfl
@[simp] theorem leaves_zero (s : DataSlab) : Arr.leaves 0 (ofData s) = [s] := rfl
@[simp] theorem leaves_succ (d : Nat) (m : MetaSlab (ATree d)) :
    Arr.leaves (d + 1) (ofMeta m) = m.children.flatMap (Arr.leaves d) := rfl

/-- the data slab at depth 0 is not an inlined one -/
def NotInl : (d : Nat) → ATree d → Prop
  | 0, (s : DataSlab) => s.inlined = false
  | _ + 1, _ => True

/-- the minimum number of children of a top index slab -/
def TopKids : (d : Nat) → ATree d → Prop
  | 0, _ => True
  | _ + 1, (m : MetaSlab (ATree _)) => 2 ≤ m.children.length

@[simp] theorem notInl_zero (s : DataSlab) : NotInl 0 (ofData s) ↔ s.inlined = false := Iff.rfl
@[simp] theorem notInl_succ (d : Nat) (t : ATree (d + 1)) : NotInl (d + 1) t ↔ True := Iff.rfl
@[simp] theorem topKids_zero (t : ATree 0) : TopKids 0 t ↔ True := Iff.rfl
@[simp] theorem topKids_succ (d : Nat) (m : MetaSlab (ATree d)) :
    TopKids (d + 1) (ofMeta m) ↔ 2 ≤ m.children.length := Iff.rfl

/-- serialized prefix of a non-root slab at depth `d` -/
def pfx : Nat → Nat
  | 0 => arrayDataSlabPrefixSize
  | _ + 1 => arrayMetaDataSlabPrefixSize

theorem treeInv_iff (T : Nat) : ∀ (d : Nat) (top : Bool) (t : ATree d),
    (TreeInv T d top t ∧ NotInl d t) ↔
      (Shape T d top t ∧ (hdr d t).size ≤ maxThr T ∧ (top = false → minThr T ≤ (hdr d t).size) ∧
        (top = true → TopKids d t))
  | 0, top, t => by
    refine forall_ofData ?_ t; intro s
    simp only [treeInv_zero, shape_zero, notInl_zero, topKids_zero, hdr_zero, implies_true, and_true]
    exact dataInv_iff T top s
  | d + 1, top, t => by
    refine forall_ofMeta ?_ t; intro m
    simp only [treeInv_succ, shape_succ, notInl_succ, topKids_succ, hdr_succ, and_true]

theorem treeInv_false_iff (T : Nat) : ∀ (d : Nat) (t : ATree d),
    TreeInv T d false t ↔
      (Shape T d false t ∧ minThr T ≤ (hdr d t).size ∧ (hdr d t).size ≤ maxThr T)
  | 0, t => by
    refine forall_ofData ?_ t; intro s
    simp only [treeInv_zero, shape_zero, hdr_zero]
    exact dataInv_false_iff T s
  | d + 1, t => by
    refine forall_ofMeta ?_ t; intro m
    simp only [treeInv_succ, shape_succ, hdr_succ]
    constructor
    · rintro ⟨h1, h2, h3, _⟩; exact ⟨h1, h3 trivial, h2⟩
    · rintro ⟨h1, h2, h3⟩; exact ⟨h1, h3, fun _ => h2, by simp⟩

theorem TreeInv.notInl_of_false {T : Nat} : ∀ {d : Nat} {t : ATree d}, TreeInv T d false t → NotInl d t
  | 0, t, h => by
    revert h; refine forall_ofData ?_ t; intro s h
    simp only [notInl_zero]; exact DataInv.not_inl_of_false ((treeInv_zero T false s).1 h)
  | _ + 1, _, _ => trivial

/-- `TreeInv` of any slab whose data-slab case is not inlined gives its `Shape`. -/
theorem TreeInv.shape {T d : Nat} {top : Bool} {t : ATree d} (h : TreeInv T d top t)
    (hi : NotInl d t) : Shape T d top t :=
  ((treeInv_iff T d top t).1 ⟨h, hi⟩).1

theorem TreeInv.shape_false {T d : Nat} {t : ATree d} (h : TreeInv T d false t) :
    Shape T d false t := ((treeInv_false_iff T d t).1 h).1
theorem TreeInv.ge_min {T d : Nat} {t : ATree d} (h : TreeInv T d false t) :
    minThr T ≤ (hdr d t).size := ((treeInv_false_iff T d t).1 h).2.1
theorem TreeInv.le_max {T : Nat} : ∀ {d : Nat} {top : Bool} {t : ATree d}, TreeInv T d top t →
    (hdr d t).size ≤ maxThr T
  | 0, top, t, h => by
    revert h; refine forall_ofData ?_ t; intro s h
    exact ((treeInv_zero T top s).1 h).le_max
  | d + 1, top, t, h => by
    revert h; refine forall_ofMeta ?_ t; intro m h
    exact ((treeInv_succ T d top m).1 h).2.1

/-- size of a slab is at least its prefix -/
theorem Shape.pfx_le {T : Nat} : ∀ {d : Nat} {t : ATree d}, Shape T d false t → pfx d ≤ (hdr d t).size
  | 0, t, h => by
    revert h; refine forall_ofData ?_ t; intro s h
    have h := (shape_zero T false s).1 h
    have := h.size_eq
    rw [h.prefix_false] at this
    simp only [pfx, hdr_zero]; omega
  | d + 1, t, h => by
    revert h; refine forall_ofMeta ?_ t; intro m h
    have h := (shape_succ T d false m).1 h
    have := h.size_eq
    simp only [pfx, hdr_succ]; omega

theorem sumCounts_eq_length_flatMap {d : Nat} (X : List (ATree d))
    (h : ∀ c ∈ X, (hdr d c).count = (flatten d c).length) :
    sumCounts (X.map (hdr d)) = (X.flatMap (flatten d)).length := by
  induction X with
  | nil => simp [sumCounts_nil]
  | cons x X ih =>
    simp only [List.map_cons, sumCounts_cons, List.flatMap_cons, List.length_append]
    rw [h x (by simp), ih (fun c hc => h c (by simp [hc]))]

/-- C01 `count_refines` at every level: the header count is the number of elements below. -/
theorem Shape.count_eq_length {T : Nat} : ∀ {d : Nat} {top : Bool} {t : ATree d},
    Shape T d top t → (hdr d t).count = (flatten d t).length
  | 0, top, t, h => by
    revert h; refine forall_ofData ?_ t; intro s h
    exact ((shape_zero T top s).1 h).count_eq
  | d + 1, top, t, h => by
    revert h; refine forall_ofMeta ?_ t; intro m h
    have h := (shape_succ T d top m).1 h
    simp only [hdr_succ, flatten_succ, h.count_eq, h.hdrs_eq]
    exact sumCounts_eq_length_flatMap _ (fun c hc => (h.kids_inv c hc).shape_false.count_eq_length)

theorem TreeInv.count_eq_length {T d : Nat} {t : ATree d} (h : TreeInv T d false t) :
    (hdr d t).count = (flatten d t).length := h.shape_false.count_eq_length

/-- number of children of an index slab from its size -/
theorem MShape.kids_of_size {T d : Nat} {top : Bool} {m : MetaSlab (ATree d)} (h : MShape T d top m) :
    m.hdr.size = 12 + 14 * m.children.length := by
  have := h.size_eq
  simpa [arrayMetaDataSlabPrefixSize, arraySlabHeaderSize] using this

theorem MShape.hdrs_length {T d : Nat} {top : Bool} {m : MetaSlab (ATree d)} (h : MShape T d top m) :
    m.childHdrs.length = m.children.length := by
  rw [h.hdrs_eq]; simp

/-- Every non-top slab within band holds at least one element. -/
theorem TreeInv.count_pos {T : Nat} (hT : legalThreshold T = true) : ∀ {d : Nat} {t : ATree d},
    TreeInv T d false t → 1 ≤ (hdr d t).count
  | 0, t, h => by
    revert h; refine forall_ofData ?_ t; intro s h
    have F := thrFacts hT
    obtain ⟨hs, h1, _⟩ := (dataInv_false_iff T s).1 ((treeInv_zero T false s).1 h)
    have hsz := hs.size_eq
    rw [hs.prefix_false] at hsz
    simp only [hdr_zero, hs.count_eq]
    match hel : s.elems with
    | [] => rw [hel] at hsz; simp only [sumSizes_nil] at hsz; have := F.lo; have := F.minE; have := F.pfx; omega
    | _ :: _ => simp
  | d + 1, t, h => by
    revert h; refine forall_ofMeta ?_ t; intro m h
    have F := thrFacts hT
    obtain ⟨hs, _, h1, _⟩ := (treeInv_succ T d false m).1 h
    have h1 := h1 rfl
    have hk := hs.kids_of_size
    simp only [hdr_succ, hs.count_eq, hs.hdrs_eq]
    match hel : m.children with
    | [] => rw [hel] at hk; simp at hk; have := F.lo; have := F.minE; omega
    | c :: cs =>
      have := TreeInv.count_pos hT (hs.kids_inv c (by simp [hel]))
      simp only [List.map_cons, sumCounts_cons]; omega

theorem hdr_id_mem_slabIds : ∀ (d : Nat) (t : ATree d), (hdr d t).id ∈ slabIds d t
  | 0, t => by refine forall_ofData ?_ t; intro s; simp
  | d + 1, t => by refine forall_ofMeta ?_ t; intro m; simp

end Atree
