import AtreeProofs.Array.EffectsTree
/-
  Effect-log accounting (C09), top layer: `Arr.splitRoot`, `Arr.promoteIfSingleChild`, the array
  operations `Arr.insert / set / remove`, `PopIterate`, and the passage from an account of the slab
  lists (`Acct`) to `EffectsComplete`.
-/
namespace Atree
open Gen ATree MetaSlab
variable {T : Nat}

/-! ### splitRoot -/

theorem sub_oldRoot : ∀ (d : Nat) (t : ATree d) (sid : SlabID) (b : Bool),
    sub d (setId d (setRoot d (adjSplit d t) b) sid) = sub d t ∧
    (hdr d (setId d (setRoot d (adjSplit d t) b) sid)).id = sid
  | 0, _, _, _ => ⟨rfl, rfl⟩
  | _ + 1, _, _, _ => ⟨rfl, rfl⟩

theorem sub_newRoot : ∀ (d : Nat) (t : ATree d) (rid : SlabID) (b : Bool),
    sub d (setRoot d (setId d (adjProm d t) rid) b) = sub d t ∧
    (hdr d (setRoot d (setId d (adjProm d t) rid) b)).id = rid
  | 0, _, _, _ => ⟨rfl, rfl⟩
  | _ + 1, _, _, _ => ⟨rfl, rfl⟩

theorem splitRoot_acct (d : Nat) (t : ATree d) (ty : Nat) (c : Ctx) (addr : Nat) (a2 : Arr) (c2 : Ctx)
    (hids : IdsOk addr c.ctr (slabIds d t))
    (h : Arr.splitRoot ⟨d, t, ty⟩ c = .ok (a2, c2)) :
    (∃ m2 : MetaSlab (ATree d), a2 = ⟨d + 1, ofMeta m2, ty⟩ ∧ m2.children.length = 2) ∧
    ∃ E, Log c c2 E [] ∧ Acct c.ctr (ATree.slabs d t) (ATree.slabs a2.d a2.root) E [] := by
  rw [splitRoot_eq] at h
  obtain ⟨⟨l, r, cs⟩, hsp, h⟩ := bind_eq_ok h
  cases h
  obtain ⟨hs1, hs2, hs3, rfl⟩ := split_struct d _ _ l r cs hsp
  obtain ⟨ho1, ho2⟩ := sub_oldRoot d t ⟨(hdr d t).id.addr, c.ctr + 1⟩ false
  rw [ho1] at hs1
  rw [ho2] at hs2 hs3
  simp only [Ctx.alloc_ctr] at hs3
  refine ⟨⟨mkRoot (hdr d t).id l r, rfl, rfl⟩, [.alloc (hdr d t).id.addr ⟨(hdr d t).id.addr, c.ctr + 1⟩,
    .alloc (hdr d t).id.addr ⟨(hdr d t).id.addr, c.ctr + 1 + 1⟩,
    .store (hdr d l).id, .store (hdr d r).id, .store (hdr d t).id], ⟨?_, ?_, ?_, ?_⟩, ?_⟩
  · simp [Ctx.emit, Ctx.alloc, ho2]
  · simp [Ctx.emit, Ctx.alloc]
  · simp [Ctx.emit, Ctx.alloc]; omega
  · intro a id hm
    simp only [List.mem_cons, Eff.alloc.injEq, reduceCtorEq, List.not_mem_nil, or_false] at hm
    rcases hm with ⟨_, rfl⟩ | ⟨_, rfl⟩ <;> simp [Ctx.emit, Ctx.alloc] <;> omega
  · show Acct c.ctr (ATree.slabs d t) (ATree.slabs (d + 1) (ofMeta (mkRoot (hdr d t).id l r))) _ []
    have hN : Acct c.ctr [((hdr d t).id, ent d t)]
        [((hdr d t).id, ent (d + 1) (ofMeta (mkRoot (hdr d t).id l r))), ((hdr d l).id, ent d l),
          ((hdr d r).id, ent d r)]
        [.alloc (hdr d t).id.addr ⟨(hdr d t).id.addr, c.ctr + 1⟩,
          .alloc (hdr d t).id.addr ⟨(hdr d t).id.addr, c.ctr + 1 + 1⟩,
          .store (hdr d l).id, .store (hdr d r).id, .store (hdr d t).id] [] := by
      refine Acct.of_stores (by simp) ?_ ?_ ?_
      · intro id
        simp only [AList.keys, List.map_cons, List.map_nil, List.mem_cons, Eff.store.injEq,
          reduceCtorEq, List.not_mem_nil, or_false, false_or]
        constructor
        · rintro (h | h | h)
          · exact Or.inr (Or.inl h)
          · exact Or.inr (Or.inr h)
          · exact Or.inl h
        · rintro (h | h | h)
          · exact Or.inr (Or.inr h)
          · exact Or.inl h
          · exact Or.inr (Or.inl h)
      · intro id
        simp only [AList.keys, List.map_cons, List.map_nil, List.mem_cons, List.not_mem_nil, or_false]
        exact Or.inl
      · intro id
        simp only [AList.keys, List.map_cons, List.map_nil, List.mem_cons, List.not_mem_nil, or_false,
          hs2, hs3]
        rintro (h | h | h)
        · exact Or.inl h
        · right; rw [h]; simp
        · right; rw [h]; simp; omega
    refine hN.frame (F := sub d t) ?_ ?_ ?_
    · intro id hid
      rw [keys_sub] at hid
      have hnd := hids.1
      rw [slabIds_eq] at hnd
      refine ⟨?_, (hids.2 id (by rw [slabIds_eq]; exact List.mem_cons_of_mem _ hid)).2.2⟩
      simp only [AList.keys, List.map_cons, List.map_nil, List.mem_singleton]
      intro heq
      exact (List.nodup_cons.1 hnd).1 (heq ▸ hid)
    · intro p
      rw [slabs_eq]; simp
    · intro p
      rw [slabs_eq (d + 1), hdr_succ, sub_succ]
      simp only [mkRoot, List.flatMap_cons, List.flatMap_nil, List.append_nil, slabs_eq d l, slabs_eq d r,
        List.mem_cons, List.mem_append, ← hs1, List.not_mem_nil, or_false]
      constructor
      · rintro (h | (h | h) | (h | h))
        · exact Or.inl (Or.inl h)
        · exact Or.inl (Or.inr (Or.inl h))
        · exact Or.inr (Or.inl h)
        · exact Or.inl (Or.inr (Or.inr h))
        · exact Or.inr (Or.inr h)
      · rintro ((h | h | h) | (h | h))
        · exact Or.inl h
        · exact Or.inr (Or.inl (Or.inl h))
        · exact Or.inr (Or.inr (Or.inl h))
        · exact Or.inr (Or.inl (Or.inr h))
        · exact Or.inr (Or.inr (Or.inr h))

/-! ### promoteIfSingleChild -/

theorem promote_not_single (d : Nat) (m : MetaSlab (ATree d)) (ty : Nat) (c : Ctx)
    (hc : m.children.length ≠ 1) :
    Arr.promoteIfSingleChild ⟨d + 1, ofMeta m, ty⟩ c = (⟨d + 1, ofMeta m, ty⟩, c) := by
  unfold Arr.promoteIfSingleChild ofMeta
  simp only
  split
  · rename_i h1 h2; rw [h2] at hc; simp at hc
  · rfl

theorem promote_acct : ∀ (d : Nat) (t : ATree d) (ty : Nat) (c : Ctx) (addr : Nat),
    Shape T d true t → IdsOk addr c.ctr (slabIds d t) →
    ∃ E, Log c (Arr.promoteIfSingleChild ⟨d, t, ty⟩ c).2 E [] ∧
      Acct c.ctr (ATree.slabs d t)
        (ATree.slabs (Arr.promoteIfSingleChild ⟨d, t, ty⟩ c).1.d (Arr.promoteIfSingleChild ⟨d, t, ty⟩ c).1.root)
        E []
  | 0, t, ty, c, addr => by
    intro _ _
    rw [promote_zero]
    exact ⟨[], Log.refl c, Acct.refl _ _⟩
  | d + 1, t, ty, c, addr => by
    refine forall_ofMeta ?_ t; intro m hs hids
    have hms := (shape_succ T d true m).1 hs
    by_cases hlen : m.children.length = 1
    · obtain ⟨child, hc⟩ : ∃ child, m.children = [child] := by
        match hm : m.children with
        | [] => rw [hm] at hlen; simp at hlen
        | [x] => exact ⟨x, rfl⟩
        | _ :: _ :: _ => rw [hm] at hlen; simp at hlen
      have hh : m.childHdrs = [hdr d child] := by rw [hms.hdrs_eq, hc]; rfl
      rw [promote_single d m ty c _ child hh hc]
      obtain ⟨hn1, hn2⟩ := sub_newRoot d child m.hdr.id true
      have hnd := hids.1
      rw [slabIds_succ, hc] at hnd
      simp only [List.flatMap_cons, List.flatMap_nil, List.append_nil] at hnd
      rw [slabIds_eq d child] at hnd
      have hne : (hdr d child).id ≠ m.hdr.id := by
        intro heq
        exact (List.nodup_cons.1 hnd).1 (by rw [heq]; simp)
      refine ⟨[.store m.hdr.id] ++ [.remove (hdr d child).id], ⟨?_, ?_, ?_, ?_⟩, ?_⟩
      · simp [Ctx.emit]
      · simp [Ctx.emit]
      · simp [Ctx.emit]
      · simp
      · show Acct c.ctr _ (ATree.slabs d (setRoot d (setId d (adjProm d child) m.hdr.id) true)) _ []
        have hN : Acct c.ctr [(m.hdr.id, ent (d + 1) (ofMeta m)), ((hdr d child).id, ent d child)]
            [(m.hdr.id, ent d (setRoot d (setId d (adjProm d child) m.hdr.id) true))]
            ([.store m.hdr.id] ++ [.remove (hdr d child).id]) [] := by
          refine Acct.of_stores_remove (by simp) ?_ ?_ ?_
          · intro id; simp [AList.keys]
          · simp only [AList.keys, List.map_cons, List.map_nil, List.mem_singleton]; exact hne
          · intro id
            simp only [AList.keys, List.map_cons, List.map_nil, List.mem_cons, List.not_mem_nil, or_false]
            exact Or.comm
        refine hN.frame (F := sub d child) ?_ ?_ ?_
        · intro id hid
          rw [keys_sub] at hid
          refine ⟨?_, ?_⟩
          · simp only [AList.keys, List.map_cons, List.map_nil, List.mem_cons, List.not_mem_nil, or_false]
            rintro (heq | heq)
            · exact (List.nodup_cons.1 hnd).1 (heq ▸ List.mem_cons_of_mem _ hid)
            · exact (List.nodup_cons.1 (List.nodup_cons.1 hnd).2).1 (heq ▸ hid)
          · refine (hids.2 id ?_).2.2
            rw [slabIds_succ, hc]
            simp only [List.flatMap_cons, List.flatMap_nil, List.append_nil, slabIds_eq d child]
            exact List.mem_cons_of_mem _ (List.mem_cons_of_mem _ hid)
        · intro p
          rw [slabs_eq (d + 1), hdr_succ, sub_succ, hc]
          simp only [List.flatMap_cons, List.flatMap_nil, List.append_nil, slabs_eq d child,
            List.mem_cons, List.not_mem_nil, or_false, or_assoc]
        · intro p
          rw [slabs_eq d, hn1, hn2]
          simp only [List.mem_cons, List.not_mem_nil, or_false]
    · rw [promote_not_single d m ty c hlen]
      exact ⟨[], Log.refl c, Acct.refl _ _⟩

/-! ### from accounts to `EffectsComplete` -/

theorem find?_slabs_of_mem {L : List (SlabID × ASlab)} (hnd : (AList.keys L).Nodup) {id : SlabID}
    {s : ASlab} (h : (id, s) ∈ L) : AList.find? L id = some s :=
  (AList.mem_iff_find? L hnd id s).1 h

theorem mem_of_find?_slabs {L : List (SlabID × ASlab)} {id : SlabID} {s : ASlab}
    (h : AList.find? L id = some s) : (id, s) ∈ L := by
  induction L with
  | nil => simp at h
  | cons p L ih =>
    obtain ⟨k, v⟩ := p
    rw [AList.find?_cons] at h
    split at h
    · rename_i hk; subst hk; cases h; simp
    · exact List.mem_cons_of_mem _ (ih h)

theorem slabAt_isSome (a : Arr) (id : SlabID) :
    (a.slabAt id).isSome ↔ id ∈ slabIds a.d a.root := by
  unfold Arr.slabAt
  rw [Option.isSome_map, ← keys_slabs, ← AList.find?_ne_none_iff]
  cases AList.find? (ATree.slabs a.d a.root) id <;> simp

theorem slabAt_isNone (a : Arr) (id : SlabID) :
    (a.slabAt id).isNone ↔ id ∉ slabIds a.d a.root := by
  rw [← slabAt_isSome]
  cases a.slabAt id <;> simp

theorem effectsComplete_of_acct {a a' : Arr} {c : Nat} {E : List Eff} {cr : List SlabID}
    (h : Acct c (ATree.slabs a.d a.root) (ATree.slabs a'.d a'.root) E cr)
    (hnd : (slabIds a.d a.root).Nodup) (hid : a'.rootID = a.rootID) (hty : a'.ty = a.ty) :
    EffectsComplete a a' E cr := by
  refine ⟨?_, ?_, ?_, ?_⟩
  · intro id hsome hne
    cases hf' : AList.find? (ATree.slabs a'.d a'.root) id with
    | none =>
      unfold Arr.slabAt at hsome
      rw [hf'] at hsome
      simp at hsome
    | some s' =>
      rcases h.kept (id, s') (mem_of_find?_slabs hf') with h1 | h1
      · exfalso
        apply hne
        have hf : AList.find? (ATree.slabs a.d a.root) id = some s' :=
          find?_slabs_of_mem (by rw [keys_slabs]; exact hnd) h1
        unfold Arr.slabAt
        rw [hf, hf', hid, hty]
      · exact h1
  · intro id h1 h2
    rw [slabAt_isSome, ← keys_slabs] at h1
    rw [slabAt_isNone, ← keys_slabs] at h2
    exact h.gone id h1 h2
  · intro id h1
    rcases h.stored id h1 with h2 | h2
    · left; rw [slabAt_isSome, ← keys_slabs]; exact h2
    · exact Or.inr h2
  · intro id h1
    rw [slabAt_isNone, ← keys_slabs]
    exact h.removed id h1

/-! ### the array operations -/

theorem keys_le_of_ids {d : Nat} {t : ATree d} {addr c : Nat} (h : IdsOk addr c (slabIds d t)) :
    ∀ id ∈ AList.keys (ATree.slabs d t), id.idx ≤ c := by
  intro id hid
  rw [keys_slabs] at hid
  exact (h.2 id hid).2.2

theorem arr_insert_acct (hT : legalThreshold T = true) (a : Arr) (c : Ctx) (i : Nat) (v : Elem)
    (hv : ValueOk v) (h : ArrInv T a c.ctr) (a' : Arr) (c' : Ctx)
    (hr : a.insert T i v c = .ok (a', c')) :
    ∃ E C, Log c c' E C ∧
      Acct c.ctr (ATree.slabs a.d a.root) (ATree.slabs a'.d a'.root) E (C.map (·.1)) := by
  obtain ⟨d, t, ty⟩ := a
  unfold Arr.insert at hr
  split at hr
  · cases hr
  · obtain ⟨⟨t', c1⟩, hins, hr⟩ := bind_eq_ok hr
    simp only at hins hr
    have hi : i ≤ (flatten d t).length := by
      rcases Nat.lt_or_ge (flatten d t).length i with h1 | h1
      · rw [insert_err_gen d t true i v c h.shape h1] at hins; cases hins
      · exact h1
    obtain ⟨t'', c1', hins', hstep, _⟩ := insert_gen hT d t true i v c h.tree h.notInl hv hi
    rw [hins] at hins'
    simp only [Except.ok.injEq, Prod.mk.injEq] at hins'
    obtain ⟨rfl, rfl⟩ := hins'
    obtain ⟨E1, C1, hlog1, hacct1⟩ :=
      insert_acct hT d t true i v c _ t' c1 h.tree h.notInl hv h.ids hins
    by_cases hfull : ATree.isFull T d t' = true
    · simp only [hfull, if_true] at hr
      have hids' := repl_single_ids hstep.repl _ h.ids
      obtain ⟨_, E2, hlog2, hacct2⟩ := splitRoot_acct d t' ty c1 _ a' c' hids' hr
      refine ⟨E1 ++ E2, C1, by simpa using hlog1.trans hlog2, ?_⟩
      simpa using hacct1.trans hacct2 hlog1.ctr_le (keys_le_of_ids h.ids)
    · simp only [hfull] at hr
      cases hr
      exact ⟨E1, C1, hlog1, hacct1⟩

theorem arr_set_acct (hT : legalThreshold T = true) (a : Arr) (c : Ctx) (i : Nat) (v : Elem)
    (hv : ValueOk v) (h : ArrInv T a c.ctr) (old : Elem) (a' : Arr) (c' : Ctx)
    (hr : a.set T i v c = .ok (old, a', c')) :
    ∃ E C, Log c c' E C ∧
      Acct c.ctr (ATree.slabs a.d a.root) (ATree.slabs a'.d a'.root) E (C.map (·.1)) := by
  obtain ⟨d, t, ty⟩ := a
  unfold Arr.set at hr
  obtain ⟨⟨old', t', c1⟩, hset, hr⟩ := bind_eq_ok hr
  simp only at hset hr
  have hi : i < (flatten d t).length := by
    rcases Nat.lt_or_ge i (flatten d t).length with h1 | h1
    · exact h1
    · rw [set_err_gen d t true i v c h.shape h1] at hset; cases hset
  obtain ⟨t'', c1', hset', hstep, _⟩ := set_gen hT d t true i v c h.tree h.notInl hv hi
  rw [hset] at hset'
  simp only [Except.ok.injEq, Prod.mk.injEq] at hset'
  obtain ⟨_, rfl, rfl⟩ := hset'
  obtain ⟨E1, C1, hlog1, hacct1⟩ :=
    set_acct hT d t true i v c _ old' t' c1 h.tree h.notInl hv h.ids hset
  have hids' := repl_single_ids hstep.repl _ h.ids
  by_cases hfull : ATree.isFull T d t' = true
  · simp only [hfull, if_true] at hr
    obtain ⟨⟨a2, c2⟩, hsr, hr⟩ := bind_eq_ok hr
    simp only [pure, Except.pure, Except.ok.injEq, Prod.mk.injEq] at hr
    obtain ⟨_, rfl, rfl⟩ := hr
    obtain ⟨⟨m2, rfl, hlen⟩, E2, hlog2, hacct2⟩ := splitRoot_acct d t' ty c1 _ a2 c2 hids' hsr
    rw [promote_not_single d m2 ty c2 (by omega)]
    refine ⟨E1 ++ E2, C1, by simpa using hlog1.trans hlog2, ?_⟩
    simpa using hacct1.trans hacct2 hlog1.ctr_le (keys_le_of_ids h.ids)
  · simp only [hfull] at hr
    obtain ⟨⟨a2, c2⟩, hsr, hr⟩ := bind_eq_ok hr
    simp only [pure, Except.pure, Except.ok.injEq, Prod.mk.injEq] at hr hsr
    obtain ⟨_, rfl, rfl⟩ := hr
    obtain ⟨rfl, rfl⟩ := hsr
    obtain ⟨E2, hlog2, hacct2⟩ := promote_acct d t' ty c1 _ hstep.shape hids'
    refine ⟨E1 ++ E2, C1, by simpa using hlog1.trans hlog2, ?_⟩
    simpa using hacct1.trans hacct2 hlog1.ctr_le (keys_le_of_ids h.ids)

theorem arr_remove_acct (hT : legalThreshold T = true) (a : Arr) (c : Ctx) (i : Nat)
    (h : ArrInv T a c.ctr) (old : Elem) (a' : Arr) (c' : Ctx)
    (hr : a.remove T i c = .ok (old, a', c')) :
    ∃ E C, Log c c' E C ∧
      Acct c.ctr (ATree.slabs a.d a.root) (ATree.slabs a'.d a'.root) E (C.map (·.1)) := by
  obtain ⟨d, t, ty⟩ := a
  unfold Arr.remove at hr
  obtain ⟨⟨old', t', c1⟩, hrem, hr⟩ := bind_eq_ok hr
  simp only at hrem hr
  have hi : i < (flatten d t).length := by
    rcases Nat.lt_or_ge i (flatten d t).length with h1 | h1
    · exact h1
    · rw [remove_err_gen d t true i c h.shape h1] at hrem; cases hrem
  obtain ⟨t'', c1', hrem', hstep, _⟩ := remove_gen hT d t true i c h.tree h.notInl hi
  rw [hrem] at hrem'
  simp only [Except.ok.injEq, Prod.mk.injEq] at hrem'
  obtain ⟨_, rfl, rfl⟩ := hrem'
  obtain ⟨E1, C1, hlog1, hacct1⟩ :=
    remove_acct hT d t true i c _ old' t' c1 h.tree h.notInl h.ids hrem
  have hids' := repl_single_ids hstep.repl _ h.ids
  simp only [pure, Except.pure, Except.ok.injEq, Prod.mk.injEq] at hr
  obtain ⟨_, rfl, rfl⟩ := hr
  obtain ⟨E2, hlog2, hacct2⟩ := promote_acct d t' ty c1 _ hstep.shape hids'
  refine ⟨E1 ++ E2, C1, by simpa using hlog1.trans hlog2, ?_⟩
  simpa using hacct1.trans hacct2 hlog1.ctr_le (keys_le_of_ids h.ids)

/-! ### popIterate -/

theorem lastAction_only_removes (E : List Eff) (h : ∀ e ∈ E, ∃ i, e = Eff.remove i) (id : SlabID) :
    (lastAction E id = some false ↔ Eff.remove id ∈ E) ∧ lastAction E id ≠ some true := by
  induction E with
  | nil => simp
  | cons e E ih =>
    have ih := ih (fun e he => h e (by simp [he]))
    rw [lastAction_cons]
    cases hl : lastAction E id with
    | some b =>
      cases b with
      | false => simp [ih.1.1 hl]
      | true => exact absurd hl ih.2
    | none =>
      have hn : Eff.remove id ∉ E := fun hm => by rw [ih.1.2 hm] at hl; cases hl
      obtain ⟨i, rfl⟩ := h e (by simp)
      by_cases hi : i = id
      · subst hi; simp [actStep]
      · have : ¬ id = i := fun h => hi h.symm
        simp [actStep, hi, hn, this]

theorem popIterate_log : ∀ (d : Nat) (t : ATree d) (c : Ctx),
    ∃ E, (ATree.popIterate d t c).2.2.eff = c.eff ++ E ∧
      (∀ e ∈ E, ∃ id ∈ subIds d t, e = Eff.remove id) ∧ (∀ id ∈ subIds d t, Eff.remove id ∈ E)
  | 0, t, c => by
    refine forall_ofData ?_ t; intro s
    exact ⟨[], by simp [ATree.popIterate, DataSlab.popIterate, ofData], by simp, by simp⟩
  | d + 1, t, c => by
    refine forall_ofMeta ?_ t; intro m
    have key : ∀ (L : List (ATree d)) (acc : List Elem × Ctx),
        ∃ E, (L.foldl (fun (acc : List Elem × Ctx) child =>
          (acc.1 ++ (ATree.popIterate d child acc.2).1,
           (ATree.popIterate d child acc.2).2.2.emit (.remove (hdr d child).id))) acc).2.eff
          = acc.2.eff ++ E ∧
          (∀ e ∈ E, ∃ id ∈ L.flatMap (slabIds d), e = Eff.remove id) ∧
          (∀ id ∈ L.flatMap (slabIds d), Eff.remove id ∈ E) := by
      intro L
      induction L with
      | nil => intro acc; exact ⟨[], by simp, by simp, by simp⟩
      | cons x L ih =>
        intro acc
        simp only [List.foldl_cons, List.flatMap_cons]
        obtain ⟨E2, h1, h2, h3⟩ := ih (acc.1 ++ (ATree.popIterate d x acc.2).1,
           (ATree.popIterate d x acc.2).2.2.emit (.remove (hdr d x).id))
        obtain ⟨E1, p1, p2, p3⟩ := popIterate_log d x acc.2
        refine ⟨E1 ++ [.remove (hdr d x).id] ++ E2, ?_, ?_, ?_⟩
        · rw [h1]; simp [Ctx.emit, p1]
        · intro e he
          simp only [List.mem_append, List.mem_singleton] at he
          rcases he with (he | he) | he
          · obtain ⟨id, hid, rfl⟩ := p2 e he
            exact ⟨id, List.mem_append.2 (Or.inl (by rw [slabIds_eq]; exact List.mem_cons_of_mem _ hid)), rfl⟩
          · exact ⟨_, List.mem_append.2 (Or.inl (hdr_id_mem_slabIds d x)), he⟩
          · obtain ⟨id, hid, rfl⟩ := h2 e he
            exact ⟨id, List.mem_append.2 (Or.inr hid), rfl⟩
        · intro id hid
          simp only [List.mem_append, List.mem_singleton]
          rcases List.mem_append.1 hid with hid | hid
          · rw [slabIds_eq] at hid
            rcases List.mem_cons.1 hid with rfl | hid
            · exact Or.inl (Or.inr rfl)
            · exact Or.inl (Or.inl (p3 id hid))
          · exact Or.inr (h3 id hid)
    obtain ⟨E, k1, k2, k3⟩ := key m.children.reverse ([], c)
    refine ⟨E, ?_, ?_, ?_⟩
    · show (m.children.reverse.foldl _ ([], c)).2.eff = _
      exact k1
    · intro e he
      obtain ⟨id, hid, rfl⟩ := k2 e he
      refine ⟨id, ?_, rfl⟩
      simp only [subIds_succ, List.mem_flatMap, List.mem_reverse] at hid ⊢
      exact hid
    · intro id hid
      apply k3
      simp only [subIds_succ, List.mem_flatMap, List.mem_reverse] at hid ⊢
      exact hid

theorem arr_popIterate_eff (a : Arr) (c : Ctx) (hst : a.isInlined = false) :
    ∃ E, (a.popIterate c).2.2.eff = c.eff ++ (E ++ [.store a.rootID]) ∧
      (∀ e ∈ E, ∃ id ∈ subIds a.d a.root, e = Eff.remove id) ∧
      (∀ id ∈ subIds a.d a.root, Eff.remove id ∈ E) := by
  obtain ⟨E, h1, h2, h3⟩ := popIterate_log a.d a.root c
  refine ⟨E, ?_, h2, h3⟩
  show (if a.isInlined = true then (ATree.popIterate a.d a.root c).2.2
        else (ATree.popIterate a.d a.root c).2.2.emit _).eff = _
  rw [hst]
  simp [Ctx.emit, h1]

end Atree
