import AtreeProofs.Array.MergeRebal
import AtreeProofs.Array.Route
/-
  Tree layer: generalized specifications of `ATree.get/set/insert/remove` on an arbitrary
  subtree (top or not), by induction on the depth.
-/
namespace Atree
open Gen ATree MetaSlab

variable {T d : Nat}

/-! ### list operations in the middle of an append -/
section ListMid
variable {α : Type}

theorem insertIdx_append_left' (X B : List α) (j : Nat) (e : α) (hj : j ≤ X.length) :
    (X ++ B).insertIdx j e = X.insertIdx j e ++ B := by
  induction X generalizing j with
  | nil => simp at hj; subst hj; simp
  | cons x X ih =>
    cases j with
    | zero => simp
    | succ j => simp [ih j (by simpa using hj)]

theorem insertIdx_append_mid (A X B : List α) (j : Nat) (e : α) (hj : j ≤ X.length) :
    (A ++ X ++ B).insertIdx (A.length + j) e = A ++ X.insertIdx j e ++ B := by
  induction A with
  | nil =>
    simp only [List.nil_append, List.length_nil, Nat.zero_add]
    exact insertIdx_append_left' X B j e hj
  | cons a A ih =>
    simp only [List.cons_append, List.length_cons]
    rw [show A.length + 1 + j = (A.length + j) + 1 by omega, List.insertIdx_succ_cons]
    rw [ih]

theorem set_append_mid (A X B : List α) (j : Nat) (e : α) (hj : j < X.length) :
    (A ++ X ++ B).set (A.length + j) e = A ++ X.set j e ++ B := by
  induction A with
  | nil =>
    simp only [List.nil_append, List.length_nil, Nat.zero_add]
    rw [List.set_append_left _ _ hj]
  | cons a A ih =>
    simp only [List.cons_append, List.length_cons]
    rw [show A.length + 1 + j = (A.length + j) + 1 by omega, List.set_cons_succ]
    rw [ih]

theorem eraseIdx_append_mid (A X B : List α) (j : Nat) (hj : j < X.length) :
    (A ++ X ++ B).eraseIdx (A.length + j) = A ++ X.eraseIdx j ++ B := by
  induction A with
  | nil =>
    simp only [List.nil_append, List.length_nil, Nat.zero_add]
    rw [List.eraseIdx_append_of_lt_length hj]
  | cons a A ih =>
    simp only [List.cons_append, List.length_cons]
    rw [show A.length + 1 + j = (A.length + j) + 1 by omega, List.eraseIdx_cons_succ]
    rw [ih]

theorem getD_append_mid (A X B : List α) (j : Nat) (dflt : α) (hj : j < X.length) :
    (A ++ X ++ B).getD (A.length + j) dflt = X.getD j dflt := by
  simp only [List.getD_eq_getElem?_getD]
  rw [List.append_assoc, List.getElem?_append_right (by omega)]
  rw [show A.length + j - A.length = j by omega, List.getElem?_append_left hj]

end ListMid

/-! ### common result of an operation on a subtree -/

structure StepOk (T d : Nat) (top : Bool) (t t' : ATree d) (c c' : Nat) : Prop where
  shape : Shape T d top t'
  id_eq : (hdr d t').id = (hdr d t).id
  repl : Repl d [t] [t'] c c'

theorem stepOk_data (T : Nat) (top : Bool) (s s' : DataSlab) (c c' : Nat) (hs : DShape T top s')
    (hid : s'.hdr.id = s.hdr.id) (hn : s'.next = s.next) (hc : c ≤ c') :
    StepOk T 0 top (ofData s) (ofData s') c c' := by
  refine ⟨(shape_zero T top s').2 hs, by simpa using hid, ?_⟩
  have h := Repl.of_subset (d := 0) (X := [ofData s]) (X' := [ofData s']) c ?_ ?_ ?_ ?_
  · exact h.trans ⟨ChainPres.refl _, fun _ hx => ⟨hx.mono hc, fun _ hid => Or.inl hid⟩, fun _ h => h, hc⟩
  · intro f n
    simp only [List.flatMap_cons, List.flatMap_nil, leaves_zero, List.append_nil, chain_single, hid, hn]
    exact id
  · simp [hid]
  · simp [hid]
  · intro a ha x hx
    simp only [List.mem_singleton] at hx
    rw [hx, hdr_zero, hid]; exact ha (ofData s) (by simp)

theorem two_kids (hT : legalThreshold T = true) {top : Bool} {m : MetaSlab (ATree d)}
    (h : TreeInv T (d + 1) top (ofMeta m)) : 2 ≤ m.children.length := by
  obtain ⟨hs, _, h1, h2⟩ := (treeInv_succ T d top m).1 h
  cases top
  · have := h1 rfl
    have F := thrFacts hT
    have := hs.kids_of_size
    have := F.lo; have := F.minE
    omega
  · exact h2 rfl

/-- the parent after its child `k` was replaced and the repair step ran -/
theorem assemble {top : Bool} {m m1 m2 : MetaSlab (ATree d)} {A B : List (ATree d)}
    {child child' : ATree d} {c c1 c2 : Nat}
    (hm : MShape T d top m) (hch : m.children = A ++ child :: B)
    (hch1 : m1.children = A ++ child' :: B) (hid1 : m1.hdr.id = m.hdr.id)
    (hroot1 : m1.root = m.root) (hsize1 : m1.hdr.size = m.hdr.size)
    (hcount1 : m1.hdr.count = sumCounts (m1.children.map (hdr d)))
    (hrepl : Repl d [child] [child'] c c1)
    (htail : Tail T d m1 m2 c1 c2) :
    MShape T d top m2 ∧ Repl (d + 1) [ofMeta m] [ofMeta m2] c c2 ∧ m2.hdr.id = m.hdr.id ∧
      flatten (d + 1) (ofMeta m2)
        = A.flatMap (flatten d) ++ flatten d child' ++ B.flatMap (flatten d) ∧
      m2.hdr.count = m1.hdr.count ∧
      m2.hdr.size + 14 * m.children.length = m.hdr.size + 14 * m2.children.length := by
  have hlen : m1.children.length = m.children.length := by rw [hch, hch1]; simp
  have hrepl1 : Repl d m.children m1.children c c1 := by
    have := hrepl.ctx A B
    simpa [hch, hch1] using this
  have hrepl2 : Repl d m.children m2.children c c2 := hrepl1.trans htail.repl
  have hid2 : m2.hdr.id = m.hdr.id := by rw [htail.id_eq, hid1]
  refine ⟨⟨?_, htail.book.hdrs_eq, htail.book.sums_eq, ?_, ?_, htail.kids, ?_⟩,
    hrepl2.lift hid2, hid2, ?_, htail.count_eq, ?_⟩
  · rw [htail.root_eq, hroot1, hm.root_eq]
  · rw [htail.count_eq, hcount1, htail.book.hdrs_eq, htail.counts]
  · have := htail.size_eq
    have := hm.kids_of_size
    have := htail.len_le
    simp only [arrayMetaDataSlabPrefixSize, arraySlabHeaderSize]
    omega
  · rw [hid2]
    exact hrepl2.addr _ hm.kids_addr
  · rw [flatten_succ, htail.flat, hch1]
    simp [List.flatMap_append]
  · have := htail.size_eq
    omega

/-- `Book` of the parent right after child `k` was overwritten (count changed by `f`). -/
theorem book_after {m : MetaSlab (ATree d)} {top : Bool} {A B : List (ATree d)} {child child' : ATree d}
    {k : Nat} (hm : MShape T d top m) (hch : m.children = A ++ child :: B) (hk : A.length = k)
    (f : Nat → Nat) (hcnt : (hdr d child').count = f (hdr d child).count)
    (hf : (prefixSums (B.map (hdr d)) (sumCounts (A.map (hdr d)) + (hdr d child).count)).map f
      = prefixSums (B.map (hdr d)) (f (sumCounts (A.map (hdr d)) + (hdr d child).count)))
    (hf2 : f (sumCounts (A.map (hdr d)) + (hdr d child).count)
      = sumCounts (A.map (hdr d)) + f (hdr d child).count) :
    (m.childHdrs.set k (hdr d child') = (A ++ child' :: B).map (hdr d)) ∧
    (m.children.set k child' = A ++ child' :: B) ∧
    (bumpFrom k f m.countSum = prefixSums ((A ++ child' :: B).map (hdr d)) 0) := by
  have hh : m.childHdrs = A.map (hdr d) ++ hdr d child :: B.map (hdr d) := by
    rw [hm.hdrs_eq, hch]; simp
  have hkh : (A.map (hdr d)).length = k := by simp [hk]
  have hkc : (prefixSums (A.map (hdr d)) 0).length = k := by simp [prefixSums_length, hk]
  refine ⟨?_, ?_, ?_⟩
  · rw [hh, set_mid hkh]; simp
  · rw [hch, set_mid hk]
  · rw [hm.sums_eq, hh, prefixSums_mid, bumpFrom_mid _ _ _ _ _ hkc]
    simp only [List.map_append, List.map_cons, prefixSums_mid, hf, hf2, hcnt]

end Atree

namespace Atree
open Gen ATree MetaSlab

variable {T d : Nat}

/-! ### unfolding the recursive operations along one execution path -/

/-- the parent right after `Set` wrote the updated child back -/
def setM1 (m : MetaSlab (ATree d)) (k : Nat) (child' : ATree d) : MetaSlab (ATree d) :=
  { m with childHdrs := m.childHdrs.set k (hdr d child'), children := m.children.set k child' }
/-- the parent right after `Insert` wrote the updated child back -/
def insM1 (m : MetaSlab (ATree d)) (k : Nat) (child' : ATree d) : MetaSlab (ATree d) :=
  { m with hdr := { m.hdr with count := m.hdr.count + 1 },
           countSum := bumpFrom k (· + 1) m.countSum,
           childHdrs := m.childHdrs.set k (hdr d child'),
           children := m.children.set k child' }
/-- the parent right after `Remove` wrote the updated child back -/
def remM1 (m : MetaSlab (ATree d)) (k : Nat) (child' : ATree d) : MetaSlab (ATree d) :=
  { m with hdr := { m.hdr with count := m.hdr.count - 1 },
           countSum := bumpFrom k (· - 1) m.countSum,
           childHdrs := m.childHdrs.set k (hdr d child'),
           children := m.children.set k child' }

theorem get_zero (s : DataSlab) (i : Nat) : ATree.get 0 (ofData s) i = s.get i := rfl

theorem get_succ_err (m : MetaSlab (ATree d)) (i : Nat) (err : AErr)
    (h1 : m.childSlabIndexInfo i = .error err) : ATree.get (d + 1) (ofMeta m) i = .error err := by
  unfold ofMeta; rw [ATree.get]; simp only [h1, bind, Except.bind]

theorem get_succ_ok (m : MetaSlab (ATree d)) (i k adj : Nat) (child : ATree d)
    (h1 : m.childSlabIndexInfo i = .ok (k, adj)) (h2 : m.children[k]? = some child) :
    ATree.get (d + 1) (ofMeta m) i = ATree.get d child adj := by
  unfold ofMeta; rw [ATree.get]; simp only [h1, h2, bind, Except.bind]

theorem set_zero_ok (s s' : DataSlab) (i : Nat) (e old : Elem) (c c' : Ctx)
    (h : s.set T i e c = .ok (old, s', c')) :
    ATree.set T 0 (ofData s) i e c = .ok (old, ofData s', c') := h
theorem set_zero_err (s : DataSlab) (i : Nat) (e : Elem) (c : Ctx) (err : AErr)
    (h : s.set T i e c = .error err) : ATree.set T 0 (ofData s) i e c = .error err := h

theorem set_succ_err (m : MetaSlab (ATree d)) (i : Nat) (e : Elem) (c : Ctx) (err : AErr)
    (h1 : m.childSlabIndexInfo i = .error err) :
    ATree.set T (d + 1) (ofMeta m) i e c = .error err := by
  unfold ofMeta; rw [ATree.set]; simp only [h1, bind, Except.bind]

theorem set_succ_ok (m m2 : MetaSlab (ATree d)) (i k adj : Nat) (e old : Elem) (c c1 c2 : Ctx)
    (child child' : ATree d)
    (h1 : m.childSlabIndexInfo i = .ok (k, adj)) (h2 : m.children[k]? = some child)
    (h3 : ATree.set T d child adj e c = .ok (old, child', c1))
    (h4 : afterSet T (setM1 m k child') child' k c1 = .ok (m2, c2)) :
    ATree.set T (d + 1) (ofMeta m) i e c = .ok (old, ofMeta m2, c2) := by
  unfold setM1 at h4
  unfold ofMeta; rw [ATree.set]; simp only [h1, h2, h3, h4, bind, Except.bind, pure, Except.pure]

theorem insert_zero_ok (s s' : DataSlab) (i : Nat) (e : Elem) (c c' : Ctx)
    (h : s.insert T i e c = .ok (s', c')) :
    ATree.insert T 0 (ofData s) i e c = .ok (ofData s', c') := h
theorem insert_zero_err (s : DataSlab) (i : Nat) (e : Elem) (c : Ctx) (err : AErr)
    (h : s.insert T i e c = .error err) : ATree.insert T 0 (ofData s) i e c = .error err := h

theorem insert_succ_err (m : MetaSlab (ATree d)) (i : Nat) (e : Elem) (c : Ctx)
    (h1 : i > m.hdr.count) :
    ATree.insert T (d + 1) (ofMeta m) i e c = .error .indexOutOfBounds := by
  unfold ofMeta; rw [ATree.insert]; simp only [h1, if_true]

theorem insert_succ_ok (m m2 : MetaSlab (ATree d)) (i k adj : Nat) (e : Elem) (c c1 c2 : Ctx)
    (child child' : ATree d) (hi : ¬ i > m.hdr.count)
    (h1 : (i = m.hdr.count ∧ ∃ h, m.childHdrs.getLast? = some h ∧ k = m.childHdrs.length - 1 ∧
            adj = h.count) ∨ (i ≠ m.hdr.count ∧ m.childSlabIndexInfo i = .ok (k, adj)))
    (h2 : m.children[k]? = some child)
    (h3 : ATree.insert T d child adj e c = .ok (child', c1))
    (h4 : (if ATree.isFull T d child' = true then
            MetaSlab.splitChildSlab (insM1 m k child') child' k c1
          else .ok (insM1 m k child', c1.emit (.store m.hdr.id))) = .ok (m2, c2)) :
    ATree.insert T (d + 1) (ofMeta m) i e c = .ok (ofMeta m2, c2) := by
  unfold insM1 at h4
  unfold ofMeta; rw [ATree.insert]
  rcases h1 with ⟨h0, h, hl, rfl, rfl⟩ | ⟨h0, h1⟩
  · subst h0
    simp only [hi, if_false, if_true, hl, h2, h3, bind, Except.bind, pure, Except.pure]
    exact h4
  · simp only [hi, if_false, h0, h1, h2, h3, bind, Except.bind, pure, Except.pure]
    exact h4

theorem remove_zero_ok (s s' : DataSlab) (i : Nat) (old : Elem) (c c' : Ctx)
    (h : s.remove i c = .ok (old, s', c')) :
    ATree.remove T 0 (ofData s) i c = .ok (old, ofData s', c') := h
theorem remove_zero_err (s : DataSlab) (i : Nat) (c : Ctx) (err : AErr)
    (h : s.remove i c = .error err) : ATree.remove T 0 (ofData s) i c = .error err := h

theorem remove_succ_err (m : MetaSlab (ATree d)) (i : Nat) (c : Ctx) (h1 : i ≥ m.hdr.count) :
    ATree.remove T (d + 1) (ofMeta m) i c = .error .indexOutOfBounds := by
  unfold ofMeta; rw [ATree.remove]; simp only [h1, if_true]

theorem remove_succ_ok (m m2 : MetaSlab (ATree d)) (i k adj : Nat) (old : Elem) (c c1 c2 : Ctx)
    (child child' : ATree d) (hi : ¬ i ≥ m.hdr.count)
    (h1 : m.childSlabIndexInfo i = .ok (k, adj)) (h2 : m.children[k]? = some child)
    (h3 : ATree.remove T d child adj c = .ok (old, child', c1))
    (h4 : (match ATree.isUnderflow T d child' with
          | some u => MetaSlab.mergeOrRebalanceChildSlab T (remM1 m k child') child' k u c1
          | none => .ok (remM1 m k child', c1)) = .ok (m2, c2)) :
    ATree.remove T (d + 1) (ofMeta m) i c = .ok (old, ofMeta m2, c2.emit (.store m2.hdr.id)) := by
  unfold remM1 at h4
  unfold ofMeta; rw [ATree.remove]
  simp only [hi, if_false, h1, h2, h3, bind, Except.bind, pure, Except.pure]
  split at h4
  · rename_i u hu
    simp only [hu, h4]
  · rename_i hu
    simp only [hu]
    simp only [Except.ok.injEq, Prod.mk.injEq] at h4
    obtain ⟨rfl, rfl⟩ := h4
    rfl

end Atree

namespace Atree
open Gen ATree MetaSlab

variable {T d : Nat}

theorem MShape.book {top : Bool} {m : MetaSlab (ATree d)} (h : MShape T d top m) : Book m :=
  ⟨h.hdrs_eq, h.sums_eq⟩

theorem MShape.flat_length {top : Bool} {m : MetaSlab (ATree d)} (h : MShape T d top m) :
    m.hdr.count = (m.children.flatMap (flatten d)).length := by
  have := Shape.count_eq_length ((shape_succ T d top m).2 h)
  simpa using this

theorem sumCounts_flat {A : List (ATree d)} (hA : ∀ t ∈ A, TreeInv T d false t) :
    sumCounts (A.map (hdr d)) = (A.flatMap (flatten d)).length :=
  sumCounts_eq_length_flatMap A (fun t ht => (hA t ht).count_eq_length)

/-- routing an in-range position, in terms of the flattened sequence -/
theorem route_flat (hT : legalThreshold T = true) {top : Bool} {m : MetaSlab (ATree d)}
    (hs : MShape T d top m) (i : Nat) (hi : i < m.hdr.count) :
    ∃ A child B adj, m.children = A ++ child :: B ∧
      m.childSlabIndexInfo i = .ok (A.length, adj) ∧
      i = (A.flatMap (flatten d)).length + adj ∧ adj < (flatten d child).length ∧
      m.children[A.length]? = some child := by
  obtain ⟨A, child, B, hch, h1, h2, h3⟩ := route_spec m hs.book hs.count_eq
    (fun t ht => (hs.kids_inv t ht).count_pos hT) i hi
  have hA : ∀ t ∈ A, TreeInv T d false t := fun t ht => hs.kids_inv t (by rw [hch]; simp [ht])
  have hc : TreeInv T d false child := hs.kids_inv child (by rw [hch]; simp)
  rw [sumCounts_flat hA] at h1 h2 h3
  rw [hc.count_eq_length] at h2
  refine ⟨A, child, B, _, hch, h3, by omega, by omega, ?_⟩
  rw [hch]; exact getElem?_mid rfl

/-! ### get -/

theorem get_gen (hT : legalThreshold T = true) : ∀ (d : Nat) (t : ATree d) (top : Bool) (i : Nat),
    Shape T d top t →
    (i < (flatten d t).length → ATree.get d t i = .ok ((flatten d t).getD i default)) ∧
    ((flatten d t).length ≤ i → ATree.get d t i = .error .indexOutOfBounds)
  | 0, t, top, i => by
    refine forall_ofData ?_ t; intro s _
    simp only [flatten_zero, get_zero]
    exact DataSlab.get_spec s i
  | d + 1, t, top, i => by
    refine forall_ofMeta ?_ t; intro m hs
    have hs := (shape_succ T d top m).1 hs
    have hlen := hs.flat_length
    simp only [flatten_succ]
    constructor
    · intro hi
      obtain ⟨A, child, B, adj, hch, h1, h2, h3, h4⟩ := route_flat hT hs i (by omega)
      have hc : TreeInv T d false child := hs.kids_inv child (by rw [hch]; simp)
      rw [get_succ_ok m i _ adj child h1 h4, (get_gen hT d child false adj hc.shape_false).1 h3]
      congr 1
      rw [hch, h2]
      have : (A ++ child :: B).flatMap (flatten d)
          = A.flatMap (flatten d) ++ flatten d child ++ B.flatMap (flatten d) := by
        simp [List.flatMap_append]
      rw [this, getD_append_mid _ _ _ _ _ h3]
    · intro hi
      exact get_succ_err m i _ (route_err m i (by omega))

end Atree

namespace Atree
open Gen ATree MetaSlab

variable {T d : Nat}

/-! ### insert -/

/-- routing of `Insert` (append to the last child when `i = count`) -/
theorem route_insert (hT : legalThreshold T = true) {top : Bool} {m : MetaSlab (ATree d)}
    (hs : MShape T d top m) (h2 : 2 ≤ m.children.length) (i : Nat) (hi : i ≤ m.hdr.count) :
    ∃ A child B adj, m.children = A ++ child :: B ∧
      ((i = m.hdr.count ∧ ∃ h, m.childHdrs.getLast? = some h ∧ A.length = m.childHdrs.length - 1 ∧
            adj = h.count) ∨ (i ≠ m.hdr.count ∧ m.childSlabIndexInfo i = .ok (A.length, adj))) ∧
      i = (A.flatMap (flatten d)).length + adj ∧ adj ≤ (flatten d child).length ∧
      m.children[A.length]? = some child := by
  by_cases hic : i = m.hdr.count
  · rcases List.eq_nil_or_concat m.children with hn | ⟨A, child, hch⟩
    · rw [hn] at h2; simp at h2
    · rw [List.concat_eq_append] at hch
      have hc : TreeInv T d false child := hs.kids_inv child (by rw [hch]; simp)
      refine ⟨A, child, [], (hdr d child).count, hch, Or.inl ⟨hic, hdr d child, ?_, ?_, rfl⟩, ?_, ?_, ?_⟩
      · rw [hs.hdrs_eq, hch]; simp
      · rw [hs.hdrs_eq, hch]; simp
      · rw [hic, hs.flat_length, hch, hc.count_eq_length]; simp
      · rw [hc.count_eq_length]; exact Nat.le_refl _
      · rw [hch]; exact getElem?_mid rfl
  · obtain ⟨A, child, B, adj, hch, h1, h3, h4, h5⟩ := route_flat hT hs i (by omega)
    exact ⟨A, child, B, adj, hch, Or.inr ⟨hic, h1⟩, h3, by omega, h5⟩

theorem insert_gen (hT : legalThreshold T = true) :
    ∀ (d : Nat) (t : ATree d) (top : Bool) (i : Nat) (v : Elem) (c : Ctx),
    TreeInv T d top t → NotInl d t → ValueOk v → i ≤ (flatten d t).length →
    ∃ t' c', ATree.insert T d t i v c = .ok (t', c') ∧ StepOk T d top t t' c.ctr c'.ctr ∧
      flatten d t' = (flatten d t).insertIdx i (toStorable T (hdr d t).id.addr v c).1 ∧
      (hdr d t').count = (hdr d t).count + 1 ∧
      (hdr d t).size ≤ (hdr d t').size ∧ (hdr d t').size ≤ (hdr d t).size + maxInlineArr T
  | 0, t, top, i, v, c => by
    refine forall_ofData ?_ t; intro s hinv hni hv hi
    have hs : DShape T top s := (shape_zero T top s).1 (hinv.shape hni)
    simp only [flatten_zero] at hi
    obtain ⟨s', c', heq, hs', hel, hid, hn, hcnt, hsz, hle, hc⟩ :=
      DataSlab.insert_spec T hT top s i v c hs hv hi
    refine ⟨ofData s', c', insert_zero_ok s s' i v c c' heq, stepOk_data T top s s' _ _ hs' hid hn hc,
      by simpa using hel, by simpa using hcnt, ?_, ?_⟩
    · simp only [hdr_zero, hsz]; omega
    · simp only [hdr_zero, hsz]; omega
  | d + 1, t, top, i, v, c => by
    refine forall_ofMeta ?_ t; intro m hinv _ hv hi
    have F := thrFacts hT
    obtain ⟨hs, hmax, _, _⟩ := (treeInv_succ T d top m).1 hinv
    have hkids2 := two_kids hT hinv
    simp only [flatten_succ, ← hs.flat_length] at hi
    obtain ⟨A, child, B, adj, hch, hroute, hi2, hadj, hget⟩ := route_insert hT hs hkids2 i hi
    have hA : ∀ t ∈ A, TreeInv T d false t := fun t ht => hs.kids_inv t (by rw [hch]; simp [ht])
    have hB : ∀ t ∈ B, TreeInv T d false t := fun t ht => hs.kids_inv t (by rw [hch]; simp [ht])
    have hc : TreeInv T d false child := hs.kids_inv child (by rw [hch]; simp)
    have hcaddr : (hdr d child).id.addr = m.hdr.id.addr := hs.kids_addr child (by rw [hch]; simp)
    obtain ⟨child', c1, hins, hstep, hflat, hcnt, hsz1, hsz2⟩ :=
      insert_gen hT d child false adj v c hc hc.notInl_of_false hv hadj
    rw [hcaddr] at hflat
    -- the parent with the new child written back
    obtain ⟨b1, b2, b3⟩ := book_after (child' := child') hs hch rfl (· + 1) hcnt
      (prefixSums_map_succ _ _) (by omega)
    have hbook1 : Book (insM1 m A.length child') :=
      ⟨by simp only [insM1, b1, b2], by simp only [insM1, b1, b3]⟩
    have hcount1 : m.hdr.count + 1 = sumCounts ((A ++ child' :: B).map (hdr d)) := by
      rw [hs.count_eq, hs.hdrs_eq, hch]
      simp only [List.map_append, List.map_cons, sumCounts_append, sumCounts_cons, hcnt]; omega
    have hi' : ¬ i > m.hdr.count := by omega
    have hroute' : (i = m.hdr.count ∧ ∃ h, m.childHdrs.getLast? = some h ∧
        A.length = m.childHdrs.length - 1 ∧ adj = h.count) ∨
        (i ≠ m.hdr.count ∧ m.childSlabIndexInfo i = .ok (A.length, adj)) := hroute
    have hfin : ∀ (m2 : MetaSlab (ATree d)) (c2 : Ctx),
        Tail T d (insM1 m A.length child') m2
          c1.ctr c2.ctr →
        m.children.length ≤ m2.children.length →
        ATree.insert T (d + 1) (ofMeta m) i v c = .ok (ofMeta m2, c2) →
        ∃ t' c', ATree.insert T (d + 1) (ofMeta m) i v c = .ok (t', c') ∧
          StepOk T (d + 1) top (ofMeta m) t' c.ctr c'.ctr ∧
          flatten (d + 1) t' = (flatten (d + 1) (ofMeta m)).insertIdx i
            (toStorable T (hdr (d + 1) (ofMeta m)).id.addr v c).1 ∧
          (hdr (d + 1) t').count = (hdr (d + 1) (ofMeta m)).count + 1 ∧
          (hdr (d + 1) (ofMeta m)).size ≤ (hdr (d + 1) t').size ∧
          (hdr (d + 1) t').size ≤ (hdr (d + 1) (ofMeta m)).size + maxInlineArr T := by
      intro m2 c2 htail hlen heq
      have hch1 : (insM1 m A.length child').children = A ++ child' :: B := b2
      obtain ⟨a1, a2, a3, a4, a5, a6⟩ := assemble (m := m) (m1 := insM1 m A.length child') (A := A)
        (B := B) (child := child) (child' := child') hs hch hch1 rfl rfl rfl
        (by rw [hch1]; exact hcount1) hstep.repl htail
      have hl2 := htail.len_ge
      rw [hch1] at hl2
      have hl1 : m.children.length = (A ++ child' :: B).length := by rw [hch]; simp
      refine ⟨ofMeta m2, c2, heq, ⟨(shape_succ T d top m2).2 a1, by simpa using a3, a2⟩, ?_,
        a5, ?_, ?_⟩
      · rw [a4, flatten_succ, hflat, hch, hi2, hdr_succ]
        have : (A ++ child :: B).flatMap (flatten d)
            = A.flatMap (flatten d) ++ flatten d child ++ B.flatMap (flatten d) := by
          simp [List.flatMap_append]
        rw [this, insertIdx_append_mid _ _ _ _ _ hadj]
      · simp only [hdr_succ]; omega
      · simp only [hdr_succ]; have := F.lo; have := F.inlE; omega
    by_cases hfull : ATree.isFull T d child' = true
    · have hlo := (isFull_iff T d child').1 hfull
      have hcmax := hc.le_max
      obtain ⟨m2, c2, hsp, hc2, htail, hlen2⟩ := tail_split hT _ A B child' A.length c1 hbook1 b2 rfl
        hA hB hstep.shape hlo (by omega)
      have hch1 : (insM1 m A.length child').children = A ++ child' :: B := b2
      refine hfin m2 c2 htail (by rw [hlen2, hch1, hch]; simp) ?_
      · exact insert_succ_ok m m2 i A.length adj v c c1 c2 child child' hi' hroute' hget hins
          (by rw [if_pos hfull]; exact hsp)
    · have hnf : ¬ maxThr T < (hdr d child').size := fun h => hfull ((isFull_iff T d child').2 h)
      have hc' : TreeInv T d false child' :=
        (treeInv_false_iff T d child').2 ⟨hstep.shape, by have := hc.ge_min; omega, by omega⟩
      have hch1 : (insM1 m A.length child').children = A ++ child' :: B := b2
      refine hfin _ (c1.emit (.store m.hdr.id)) ?_ (by rw [hch1, hch]; simp) ?_
      · refine Tail.refl c1.ctr ?_ hbook1
        rw [hch1]
        intro t ht
        simp only [List.mem_append, List.mem_cons] at ht
        rcases ht with ht | rfl | ht
        · exact hA t ht
        · exact hc'
        · exact hB t ht
      · exact insert_succ_ok m _ i A.length adj v c c1 _ child child' hi' hroute' hget hins
          (by rw [if_neg hfull])

end Atree

namespace Atree
open Gen ATree MetaSlab

variable {T d : Nat}

@[simp] theorem setM1_children (m : MetaSlab (ATree d)) (k : Nat) (c' : ATree d) :
    (setM1 m k c').children = m.children.set k c' := rfl
@[simp] theorem setM1_hdr (m : MetaSlab (ATree d)) (k : Nat) (c' : ATree d) :
    (setM1 m k c').hdr = m.hdr := rfl
@[simp] theorem setM1_root (m : MetaSlab (ATree d)) (k : Nat) (c' : ATree d) :
    (setM1 m k c').root = m.root := rfl
@[simp] theorem remM1_children (m : MetaSlab (ATree d)) (k : Nat) (c' : ATree d) :
    (remM1 m k c').children = m.children.set k c' := rfl
@[simp] theorem remM1_root (m : MetaSlab (ATree d)) (k : Nat) (c' : ATree d) :
    (remM1 m k c').root = m.root := rfl

theorem afterSet_full (m1 : MetaSlab (ATree d)) (child' : ATree d) (k : Nat) (c : Ctx)
    (h : ATree.isFull T d child' = true) :
    afterSet T m1 child' k c = m1.splitChildSlab child' k c := by
  unfold afterSet; rw [if_pos h]
theorem afterSet_under (m1 : MetaSlab (ATree d)) (child' : ATree d) (k : Nat) (c : Ctx)
    (h : ¬ ATree.isFull T d child' = true) (hu : (hdr d child').size < minThr T) :
    afterSet T m1 child' k c
      = m1.mergeOrRebalanceChildSlab T child' k (minThr T - (hdr d child').size) c := by
  unfold afterSet; rw [if_neg h, isUnderflow_some T d child' hu]
theorem afterSet_none (m1 : MetaSlab (ATree d)) (child' : ATree d) (k : Nat) (c : Ctx)
    (h : ¬ ATree.isFull T d child' = true) (hu : minThr T ≤ (hdr d child').size) :
    afterSet T m1 child' k c = .ok (m1, c.emit (.store m1.hdr.id)) := by
  unfold afterSet; rw [if_neg h, isUnderflow_none T d child' hu]

/-! ### set -/

theorem set_gen (hT : legalThreshold T = true) :
    ∀ (d : Nat) (t : ATree d) (top : Bool) (i : Nat) (v : Elem) (c : Ctx),
    TreeInv T d top t → NotInl d t → ValueOk v → i < (flatten d t).length →
    ∃ t' c', ATree.set T d t i v c = .ok ((flatten d t).getD i default, t', c') ∧
      StepOk T d top t t' c.ctr c'.ctr ∧
      flatten d t' = (flatten d t).set i (toStorable T (hdr d t).id.addr v c).1 ∧
      (hdr d t').count = (hdr d t).count ∧
      (hdr d t').size ≤ (hdr d t).size + maxInlineArr T ∧
      (hdr d t).size ≤ (hdr d t').size + maxInlineArr T ∧
      (d ≠ 0 → (hdr d t).size ≤ (hdr d t').size + 14)
  | 0, t, top, i, v, c => by
    refine forall_ofData ?_ t; intro s hinv hni hv hi
    have hs : DShape T top s := (shape_zero T top s).1 (hinv.shape hni)
    simp only [flatten_zero] at hi
    obtain ⟨s', c', heq, hs', hel, hid, hn, hcnt, hsz, hle1, hle2, hc⟩ :=
      DataSlab.set_spec T hT top s i v c hs hv hi
    refine ⟨ofData s', c', set_zero_ok s s' i v _ c c' heq, stepOk_data T top s s' _ _ hs' hid hn hc,
      by simpa using hel, by simpa using hcnt, ?_, ?_, fun h => absurd rfl h⟩
    · simp only [hdr_zero]; omega
    · simp only [hdr_zero]; omega
  | d + 1, t, top, i, v, c => by
    refine forall_ofMeta ?_ t; intro m hinv _ hv hi
    have F := thrFacts hT
    obtain ⟨hs, hmax, _, _⟩ := (treeInv_succ T d top m).1 hinv
    have hkids2 := two_kids hT hinv
    have hksz := hs.kids_of_size
    simp only [flatten_succ, ← hs.flat_length] at hi
    obtain ⟨A, child, B, adj, hch, hroute, hi2, hadj, hget⟩ := route_flat hT hs i hi
    have hA : ∀ t ∈ A, TreeInv T d false t := fun t ht => hs.kids_inv t (by rw [hch]; simp [ht])
    have hB : ∀ t ∈ B, TreeInv T d false t := fun t ht => hs.kids_inv t (by rw [hch]; simp [ht])
    have hc : TreeInv T d false child := hs.kids_inv child (by rw [hch]; simp)
    have hcaddr : (hdr d child).id.addr = m.hdr.id.addr := hs.kids_addr child (by rw [hch]; simp)
    obtain ⟨child', c1, hset, hstep, hflat, hcnt, hsz1, hsz2, _⟩ :=
      set_gen hT d child false adj v c hc hc.notInl_of_false hv hadj
    rw [hcaddr] at hflat
    have hlenAB : m.children.length = A.length + 1 + B.length := by rw [hch]; simp; omega
    have hflatm : (A ++ child :: B).flatMap (flatten d)
        = A.flatMap (flatten d) ++ flatten d child ++ B.flatMap (flatten d) := by
      simp [List.flatMap_append]
    have hold : (flatten d child).getD adj default
        = (flatten (d + 1) (ofMeta m)).getD i default := by
      rw [flatten_succ, hch, hflatm, hi2, getD_append_mid _ _ _ _ _ hadj]
    rw [hold] at hset
    -- the parent with the new child written back
    have hh : m.childHdrs = A.map (hdr d) ++ hdr d child :: B.map (hdr d) := by
      rw [hs.hdrs_eq, hch]; simp
    have hch1 : (setM1 m A.length child').children = A ++ child' :: B := by
      rw [setM1_children, hch, set_mid rfl]
    have hbook1 : Book (setM1 m A.length child') := by
      refine ⟨?_, ?_⟩
      · rw [hch1]; show m.childHdrs.set A.length (hdr d child') = _
        rw [hh, set_mid (by simp)]; simp
      · show m.countSum = prefixSums (m.childHdrs.set A.length (hdr d child')) 0
        rw [hs.sums_eq, hh, set_mid (by simp), prefixSums_mid, prefixSums_mid, hcnt]
    have hcount1 : (setM1 m A.length child').hdr.count
        = sumCounts ((setM1 m A.length child').children.map (hdr d)) := by
      rw [hch1, setM1_hdr, hs.count_eq, hs.hdrs_eq, hch]
      simp only [List.map_append, List.map_cons, sumCounts_append, sumCounts_cons, hcnt]
    have haddr1 : ∀ t ∈ (setM1 m A.length child').children, (hdr d t).id.addr = m.hdr.id.addr := by
      rw [hch1]
      intro t ht
      simp only [List.mem_append, List.mem_cons] at ht
      rcases ht with ht | rfl | ht
      · exact hs.kids_addr t (by rw [hch]; simp [ht])
      · rw [hstep.id_eq]; exact hcaddr
      · exact hs.kids_addr t (by rw [hch]; simp [ht])
    have hfin : ∀ (m2 : MetaSlab (ATree d)) (c2 : Ctx),
        Tail T d (setM1 m A.length child') m2 c1.ctr c2.ctr →
        afterSet T (setM1 m A.length child') child' A.length c1 = .ok (m2, c2) →
        ∃ t' c', ATree.set T (d + 1) (ofMeta m) i v c
            = .ok ((flatten (d + 1) (ofMeta m)).getD i default, t', c') ∧
          StepOk T (d + 1) top (ofMeta m) t' c.ctr c'.ctr ∧
          flatten (d + 1) t' = (flatten (d + 1) (ofMeta m)).set i
            (toStorable T (hdr (d + 1) (ofMeta m)).id.addr v c).1 ∧
          (hdr (d + 1) t').count = (hdr (d + 1) (ofMeta m)).count ∧
          (hdr (d + 1) t').size ≤ (hdr (d + 1) (ofMeta m)).size + maxInlineArr T ∧
          (hdr (d + 1) (ofMeta m)).size ≤ (hdr (d + 1) t').size + maxInlineArr T ∧
          (d + 1 ≠ 0 → (hdr (d + 1) (ofMeta m)).size ≤ (hdr (d + 1) t').size + 14) := by
      intro m2 c2 htail heq
      obtain ⟨a1, a2, a3, a4, a5, a6⟩ := assemble (m := m) (m1 := setM1 m A.length child') (A := A)
        (B := B) (child := child) (child' := child') hs hch hch1 rfl rfl rfl hcount1 hstep.repl htail
      have hl1 := htail.len_le
      have hl2 := htail.len_ge
      rw [hch1] at hl1 hl2
      simp only [List.length_append, List.length_cons] at hl1 hl2
      refine ⟨ofMeta m2, c2, set_succ_ok m m2 i A.length adj v _ c c1 c2 child child' hroute hget hset heq,
        ⟨(shape_succ T d top m2).2 a1, by simpa using a3, a2⟩, ?_, a5, ?_, ?_, ?_⟩
      · rw [a4, flatten_succ, hflat, hch, hi2, hdr_succ, hflatm, set_append_mid _ _ _ _ _ hadj]
      · simp only [hdr_succ]; have := F.lo; have := F.inlE; omega
      · simp only [hdr_succ]; have := F.lo; have := F.inlE; omega
      · intro _; simp only [hdr_succ]; omega
    have hcmax := hc.le_max
    have hcmin := hc.ge_min
    by_cases hfull : ATree.isFull T d child' = true
    · have hlo := (isFull_iff T d child').1 hfull
      obtain ⟨m2, c2, hsp, hc2, htail, _⟩ := tail_split hT _ A B child' A.length c1 hbook1 hch1 rfl
        hA hB hstep.shape hlo (by omega)
      exact hfin m2 c2 htail (by rw [afterSet_full _ _ _ _ hfull]; exact hsp)
    · have hnf : ¬ maxThr T < (hdr d child').size := fun h => hfull ((isFull_iff T d child').2 h)
      by_cases hu : (hdr d child').size < minThr T
      · obtain ⟨m2, c2, hmr, hc2, htail, _⟩ := mergeOrRebalance_spec hT _ A B child' A.length c1
          m.hdr.id.addr hbook1 hch1 rfl hA hB hstep.shape hu (by omega) haddr1
          (by rw [setM1_hdr, hksz, F.hsz]; omega)
        refine hfin m2 c2 (by rw [hc2]; exact htail) ?_
        rw [afterSet_under _ _ _ _ hfull hu]; exact hmr
      · have hc' : TreeInv T d false child' :=
          (treeInv_false_iff T d child').2 ⟨hstep.shape, by omega, by omega⟩
        refine hfin _ (c1.emit (.store (setM1 m A.length child').hdr.id)) ?_
          (afterSet_none _ _ _ _ hfull (by omega))
        refine Tail.refl c1.ctr ?_ hbook1
        rw [hch1]
        intro t ht
        simp only [List.mem_append, List.mem_cons] at ht
        rcases ht with ht | rfl | ht
        · exact hA t ht
        · exact hc'
        · exact hB t ht

end Atree

namespace Atree
open Gen ATree MetaSlab

variable {T d : Nat}

/-! ### remove -/

theorem remove_gen (hT : legalThreshold T = true) :
    ∀ (d : Nat) (t : ATree d) (top : Bool) (i : Nat) (c : Ctx),
    TreeInv T d top t → NotInl d t → i < (flatten d t).length →
    ∃ t' c', ATree.remove T d t i c = .ok ((flatten d t).getD i default, t', c') ∧
      StepOk T d top t t' c.ctr c'.ctr ∧
      flatten d t' = (flatten d t).eraseIdx i ∧
      (hdr d t').count + 1 = (hdr d t).count ∧
      (hdr d t').size ≤ (hdr d t).size ∧
      (hdr d t).size ≤ (hdr d t').size + maxInlineArr T ∧
      (d ≠ 0 → (hdr d t).size ≤ (hdr d t').size + 14)
  | 0, t, top, i, c => by
    refine forall_ofData ?_ t; intro s hinv hni hi
    have hs : DShape T top s := (shape_zero T top s).1 (hinv.shape hni)
    simp only [flatten_zero] at hi
    obtain ⟨s', c', heq, hs', hel, hid, hn, hcnt, hsz, hle1, hc⟩ :=
      DataSlab.remove_spec T top s i c hs hi
    refine ⟨ofData s', c', remove_zero_ok s s' i _ c c' heq,
      stepOk_data T top s s' _ _ hs' hid hn (by omega),
      by simpa using hel, by simpa using hcnt, ?_, ?_, fun h => absurd rfl h⟩
    · simp only [hdr_zero]; omega
    · simp only [hdr_zero]; omega
  | d + 1, t, top, i, c => by
    refine forall_ofMeta ?_ t; intro m hinv _ hi
    have F := thrFacts hT
    obtain ⟨hs, hmax, _, _⟩ := (treeInv_succ T d top m).1 hinv
    have hkids2 := two_kids hT hinv
    have hksz := hs.kids_of_size
    simp only [flatten_succ, ← hs.flat_length] at hi
    obtain ⟨A, child, B, adj, hch, hroute, hi2, hadj, hget⟩ := route_flat hT hs i hi
    have hA : ∀ t ∈ A, TreeInv T d false t := fun t ht => hs.kids_inv t (by rw [hch]; simp [ht])
    have hB : ∀ t ∈ B, TreeInv T d false t := fun t ht => hs.kids_inv t (by rw [hch]; simp [ht])
    have hc : TreeInv T d false child := hs.kids_inv child (by rw [hch]; simp)
    have hcaddr : (hdr d child).id.addr = m.hdr.id.addr := hs.kids_addr child (by rw [hch]; simp)
    have hcpos := hc.count_pos hT
    obtain ⟨child', c1, hrem, hstep, hflat, hcnt, hsz1, hsz2, _⟩ :=
      remove_gen hT d child false adj c hc hc.notInl_of_false hadj
    have hlenAB : m.children.length = A.length + 1 + B.length := by rw [hch]; simp; omega
    have hflatm : (A ++ child :: B).flatMap (flatten d)
        = A.flatMap (flatten d) ++ flatten d child ++ B.flatMap (flatten d) := by
      simp [List.flatMap_append]
    have hold : (flatten d child).getD adj default
        = (flatten (d + 1) (ofMeta m)).getD i default := by
      rw [flatten_succ, hch, hflatm, hi2, getD_append_mid _ _ _ _ _ hadj]
    rw [hold] at hrem
    -- the parent with the new child written back
    obtain ⟨b1, b2, b3⟩ := book_after (child' := child') hs hch rfl (· - 1) (by omega)
      (prefixSums_map_pred _ _ (by omega)) (by omega)
    have hch1 : (remM1 m A.length child').children = A ++ child' :: B := b2
    have hbook1 : Book (remM1 m A.length child') :=
      ⟨by simp only [remM1, b1, b2], by simp only [remM1, b1, b3]⟩
    have hcount1 : (remM1 m A.length child').hdr.count
        = sumCounts ((remM1 m A.length child').children.map (hdr d)) := by
      rw [hch1]
      show m.hdr.count - 1 = _
      rw [hs.count_eq, hs.hdrs_eq, hch]
      simp only [List.map_append, List.map_cons, sumCounts_append, sumCounts_cons]; omega
    have haddr1 : ∀ t ∈ (remM1 m A.length child').children, (hdr d t).id.addr = m.hdr.id.addr := by
      rw [hch1]
      intro t ht
      simp only [List.mem_append, List.mem_cons] at ht
      rcases ht with ht | rfl | ht
      · exact hs.kids_addr t (by rw [hch]; simp [ht])
      · rw [hstep.id_eq]; exact hcaddr
      · exact hs.kids_addr t (by rw [hch]; simp [ht])
    have hi' : ¬ i ≥ m.hdr.count := by omega
    have hfin : ∀ (m2 : MetaSlab (ATree d)) (c2 : Ctx),
        Tail T d (remM1 m A.length child') m2 c1.ctr c2.ctr →
        m2.children.length ≤ m.children.length →
        (match ATree.isUnderflow T d child' with
          | some u => MetaSlab.mergeOrRebalanceChildSlab T (remM1 m A.length child') child' A.length u c1
          | none => .ok (remM1 m A.length child', c1)) = .ok (m2, c2) →
        ∃ t' c', ATree.remove T (d + 1) (ofMeta m) i c
            = .ok ((flatten (d + 1) (ofMeta m)).getD i default, t', c') ∧
          StepOk T (d + 1) top (ofMeta m) t' c.ctr c'.ctr ∧
          flatten (d + 1) t' = (flatten (d + 1) (ofMeta m)).eraseIdx i ∧
          (hdr (d + 1) t').count + 1 = (hdr (d + 1) (ofMeta m)).count ∧
          (hdr (d + 1) t').size ≤ (hdr (d + 1) (ofMeta m)).size ∧
          (hdr (d + 1) (ofMeta m)).size ≤ (hdr (d + 1) t').size + maxInlineArr T ∧
          (d + 1 ≠ 0 → (hdr (d + 1) (ofMeta m)).size ≤ (hdr (d + 1) t').size + 14) := by
      intro m2 c2 htail hlen heq
      obtain ⟨a1, a2, a3, a4, a5, a6⟩ := assemble (m := m) (m1 := remM1 m A.length child') (A := A)
        (B := B) (child := child) (child' := child') hs hch hch1 rfl rfl rfl hcount1 hstep.repl htail
      have hl1 := htail.len_le
      rw [hch1] at hl1
      simp only [List.length_append, List.length_cons] at hl1
      have hcm : m.hdr.count ≥ 1 := by omega
      refine ⟨ofMeta m2, c2.emit (.store m2.hdr.id),
        remove_succ_ok m m2 i A.length adj _ c c1 c2 child child' hi' hroute hget hrem heq,
        ⟨(shape_succ T d top m2).2 a1, by simpa using a3, a2⟩, ?_, ?_, ?_, ?_, ?_⟩
      · rw [a4, flatten_succ, hflat, hch, hi2, hflatm, eraseIdx_append_mid _ _ _ _ hadj]
      · simp only [hdr_succ, a5]; show m.hdr.count - 1 + 1 = _; omega
      · simp only [hdr_succ]; omega
      · simp only [hdr_succ]; have := F.lo; have := F.inlE; omega
      · intro _; simp only [hdr_succ]; omega
    have hcmax := hc.le_max
    have hcmin := hc.ge_min
    by_cases hu : (hdr d child').size < minThr T
    · obtain ⟨m2, c2, hmr, hc2, htail, hle⟩ := mergeOrRebalance_spec hT _ A B child' A.length c1
        m.hdr.id.addr hbook1 hch1 rfl hA hB hstep.shape hu (by omega) haddr1
        (by show arraySlabHeaderSize ≤ m.hdr.size; rw [hksz, F.hsz]; omega)
      refine hfin m2 c2 (by rw [hc2]; exact htail) ?_ ?_
      · rw [hch1] at hle; rw [hch]; simpa using hle
      · rw [isUnderflow_some T d child' hu]; exact hmr
    · have hc' : TreeInv T d false child' :=
        (treeInv_false_iff T d child').2 ⟨hstep.shape, by omega, by omega⟩
      refine hfin _ c1 ?_ (by rw [hch1, hch]; simp) ?_
      · refine Tail.refl c1.ctr ?_ hbook1
        rw [hch1]
        intro t ht
        simp only [List.mem_append, List.mem_cons] at ht
        rcases ht with ht | rfl | ht
        · exact hA t ht
        · exact hc'
        · exact hB t ht
      · rw [isUnderflow_none T d child' (by omega)]

end Atree
