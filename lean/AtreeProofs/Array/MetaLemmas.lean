import AtreeProofs.Array.TreeDefs
/-
  Slab layer, index slabs: `MetaSlab.{split,merge,lendToRight,borrowFromRight}` preserve the
  per-slab facts and have the expected effect on `children`.
-/
namespace Atree
open Gen ATree

namespace MetaSlab

theorem canLend_true {α : Type} {T : Nat} {m : MetaSlab α} {want : Nat} (h : m.canLend T want = true) :
    arraySlabHeaderSize * ((want + arraySlabHeaderSize - 1) / arraySlabHeaderSize) ≤ m.hdr.size ∧
    minThr T < m.hdr.size - arraySlabHeaderSize * ((want + arraySlabHeaderSize - 1) / arraySlabHeaderSize) := by
  unfold canLend at h
  simp only at h
  split at h
  · rename_i h1; exact ⟨h1, by simpa using h⟩
  · simp at h

theorem canLend_false {α : Type} {T : Nat} {m : MetaSlab α} {want : Nat} (h : m.canLend T want = false) :
    m.hdr.size ≤ minThr T + arraySlabHeaderSize * ((want + arraySlabHeaderSize - 1) / arraySlabHeaderSize) := by
  unfold canLend at h
  simp only at h
  split at h
  · have : ¬ (m.hdr.size - arraySlabHeaderSize * ((want + arraySlabHeaderSize - 1) / arraySlabHeaderSize) > minThr T) := by
      simpa using h
    omega
  · omega

variable {T d : Nat}

theorem split_spec (hT : legalThreshold T = true) (m : MetaSlab (ATree d)) (c : Ctx)
    (hm : MShape T d false m)
    (hlo : maxThr T < m.hdr.size) (hhi : m.hdr.size ≤ maxThr T + maxInlineArr T + 16) :
    ∃ l r, m.split c = .ok (l, r, (c.alloc m.hdr.id.addr).2) ∧
      TreeInv T (d + 1) false (ofMeta l) ∧ TreeInv T (d + 1) false (ofMeta r) ∧
      l.children ++ r.children = m.children ∧
      l.hdr.id = m.hdr.id ∧ r.hdr.id = ⟨m.hdr.id.addr, c.ctr + 1⟩ ∧
      l.hdr.count + r.hdr.count = m.hdr.count := by
  have F := thrFacts hT
  obtain ⟨f1, f2, f3, f4, f5, f6, f7, f8, f9⟩ := F
  have hk := hm.kids_of_size
  have hlen := hm.hdrs_length
  have hsc := sumCounts_take_add_drop ((m.childHdrs.length + 1) / 2) m.childHdrs
  have hcnt := hm.count_eq
  unfold split
  have : ¬ m.childHdrs.length < 2 := by omega
  simp only [this, if_false]
  refine ⟨_, _, rfl, ?_, ?_, by simp [hlen], rfl, rfl, ?_⟩
  · rw [treeInv_succ]
    refine ⟨⟨hm.root_eq, ?_, ?_, rfl, ?_, ?_, ?_⟩, ?_, ?_, by simp⟩
    · simp only [hm.hdrs_eq, List.map_take, List.length_map]
    · simp only [hm.sums_eq, prefixSums_take]
    · simp only [List.length_take, f3, f4, hlen]; omega
    · intro x hx; exact hm.kids_inv x (List.mem_of_mem_take hx)
    · intro x hx; exact hm.kids_addr x (List.mem_of_mem_take hx)
    · simp only [f3, f4]; omega
    · intro _; simp only [f3, f4]; omega
  · rw [treeInv_succ]
    refine ⟨⟨rfl, ?_, rfl, ?_, ?_, ?_, ?_⟩, ?_, ?_, by simp⟩
    · simp only [hm.hdrs_eq, List.map_drop, List.length_map]
    · simp only; omega
    · simp only [List.length_drop, f3, f4, hlen]; omega
    · intro x hx; exact hm.kids_inv x (List.mem_of_mem_drop hx)
    · intro x hx; exact hm.kids_addr x (List.mem_of_mem_drop hx)
    · simp only [f4]; omega
    · intro _; simp only [f4]; omega
  · simp only; omega

theorem merge_spec (l r : MetaSlab (ATree d)) (hl : MShape T d false l) (hr : MShape T d false r)
    (haddr : r.hdr.id.addr = l.hdr.id.addr) :
    MShape T d false (merge l r) ∧ (merge l r).children = l.children ++ r.children ∧
      (merge l r).hdr.id = l.hdr.id ∧
      (merge l r).hdr.count = l.hdr.count + r.hdr.count ∧
      (merge l r).hdr.size + arrayMetaDataSlabPrefixSize = l.hdr.size + r.hdr.size := by
  have h1 := hl.kids_of_size
  have h2 := hr.kids_of_size
  refine ⟨⟨hl.root_eq, ?_, ?_, ?_, ?_, ?_, ?_⟩, rfl, rfl, rfl, ?_⟩
  · simp [merge, hl.hdrs_eq, hr.hdrs_eq]
  · simp only [merge, prefixSums_append, hl.sums_eq, prefixSums_getLastD, Nat.zero_add]
  · simp only [merge, sumCounts_append, hl.count_eq, hr.count_eq]
  · simp only [merge, List.length_append, arrayMetaDataSlabPrefixSize, arraySlabHeaderSize]; omega
  · intro x hx
    simp only [merge, List.mem_append] at hx
    rcases hx with hx | hx
    · exact hl.kids_inv x hx
    · exact hr.kids_inv x hx
  · intro x hx
    simp only [merge, List.mem_append] at hx
    rcases hx with hx | hx
    · exact hl.kids_addr x hx
    · rw [hr.kids_addr x hx]; exact haddr
  · simp only [merge, arrayMetaDataSlabPrefixSize]; omega

theorem lendToRight_spec (hT : legalThreshold T = true) (l r : MetaSlab (ATree d))
    (hl : TreeInv T (d + 1) false (ofMeta l)) (hr : MShape T d false r) (hu : r.hdr.size < minThr T)
    (haddr : r.hdr.id.addr = l.hdr.id.addr)
    (hcan : l.canLend T (minThr T - r.hdr.size) = true) :
    TreeInv T (d + 1) false (ofMeta (lendToRight l r).1) ∧ TreeInv T (d + 1) false (ofMeta (lendToRight l r).2) ∧
    (lendToRight l r).1.children ++ (lendToRight l r).2.children = l.children ++ r.children ∧
    (lendToRight l r).1.hdr.id = l.hdr.id ∧ (lendToRight l r).2.hdr.id = r.hdr.id ∧
    (lendToRight l r).1.hdr.count + (lendToRight l r).2.hdr.count = l.hdr.count + r.hdr.count := by
  have F := thrFacts hT
  obtain ⟨f1, f2, f3, f4, f5, f6, f7, f8, f9⟩ := F
  obtain ⟨hl, hl2, hl1, _⟩ := (treeInv_succ T d false l).1 hl
  have hl1 := hl1 rfl
  have h1 := hl.kids_of_size
  have h2 := hr.kids_of_size
  have hlen1 := hl.hdrs_length
  have hlen2 := hr.hdrs_length
  obtain ⟨hc1, hc2⟩ := canLend_true hcan
  simp only [f4] at hc1 hc2
  have hsc := sumCounts_take_add_drop ((l.childHdrs.length + r.childHdrs.length) / 2) l.childHdrs
  have hN : (l.childHdrs.length + r.childHdrs.length) / 2 ≤ l.children.length := by omega
  unfold lendToRight
  simp only
  refine ⟨?_, ?_, by rw [← List.append_assoc, List.take_append_drop], trivial, trivial, ?_⟩
  · rw [treeInv_succ]
    refine ⟨⟨hl.root_eq, ?_, ?_, rfl, ?_, ?_, ?_⟩, ?_, ?_, by simp⟩
    · simp only [hl.hdrs_eq, List.map_take, List.length_map]
    · simp only [hl.sums_eq, prefixSums_take]
    · simp only [List.length_take, f3, f4, hlen1, hlen2]; omega
    · intro x hx; exact hl.kids_inv x (List.mem_of_mem_take hx)
    · intro x hx; exact hl.kids_addr x (List.mem_of_mem_take hx)
    · simp only [f3, f4]; omega
    · intro _; simp only [f3, f4]; omega
  · rw [treeInv_succ]
    refine ⟨⟨hr.root_eq, ?_, rfl, rfl, ?_, ?_, ?_⟩, ?_, ?_, by simp⟩
    · simp only [hl.hdrs_eq, hr.hdrs_eq, List.map_drop, List.map_append, List.length_map]
    · simp only [List.length_append, List.length_drop, f3, f4, hlen1, hlen2]; omega
    · intro x hx
      simp only [List.mem_append] at hx
      rcases hx with hx | hx
      · exact hl.kids_inv x (List.mem_of_mem_drop hx)
      · exact hr.kids_inv x hx
    · intro x hx
      simp only [List.mem_append] at hx
      rcases hx with hx | hx
      · rw [hl.kids_addr x (List.mem_of_mem_drop hx)]; exact haddr.symm
      · exact hr.kids_addr x hx
    · simp only [List.length_append, List.length_drop, f3, f4]; omega
    · intro _; simp only [List.length_append, List.length_drop, f3, f4]; omega
  · simp only [sumCounts_append, hl.count_eq, hr.count_eq]; omega

theorem borrowFromRight_spec (hT : legalThreshold T = true) (l r : MetaSlab (ATree d))
    (hl : MShape T d false l) (hr : TreeInv T (d + 1) false (ofMeta r)) (hu : l.hdr.size < minThr T)
    (haddr : r.hdr.id.addr = l.hdr.id.addr)
    (hcan : r.canLend T (minThr T - l.hdr.size) = true) :
    TreeInv T (d + 1) false (ofMeta (borrowFromRight l r).1) ∧ TreeInv T (d + 1) false (ofMeta (borrowFromRight l r).2) ∧
    (borrowFromRight l r).1.children ++ (borrowFromRight l r).2.children = l.children ++ r.children ∧
    (borrowFromRight l r).1.hdr.id = l.hdr.id ∧ (borrowFromRight l r).2.hdr.id = r.hdr.id ∧
    (borrowFromRight l r).1.hdr.count + (borrowFromRight l r).2.hdr.count
      = l.hdr.count + r.hdr.count := by
  have F := thrFacts hT
  obtain ⟨f1, f2, f3, f4, f5, f6, f7, f8, f9⟩ := F
  obtain ⟨hr, hr2, hr1, _⟩ := (treeInv_succ T d false r).1 hr
  have hr1 := hr1 rfl
  have h1 := hl.kids_of_size
  have h2 := hr.kids_of_size
  have hlen1 := hl.hdrs_length
  have hlen2 := hr.hdrs_length
  obtain ⟨hc1, hc2⟩ := canLend_true hcan
  simp only [f4] at hc1 hc2
  have hsc := sumCounts_take_add_drop
    ((l.childHdrs.length + r.childHdrs.length) / 2 - l.childHdrs.length) r.childHdrs
  unfold borrowFromRight
  simp only
  refine ⟨?_, ?_, by rw [List.append_assoc, List.take_append_drop], trivial, trivial, ?_⟩
  · rw [treeInv_succ]
    refine ⟨⟨hl.root_eq, ?_, ?_, ?_, ?_, ?_, ?_⟩, ?_, ?_, by simp⟩
    · simp only [hl.hdrs_eq, hr.hdrs_eq, List.map_take, List.map_append, List.length_map]
    · simp only [prefixSums_append, hl.sums_eq, hl.count_eq, Nat.zero_add]
    · simp only [sumCounts_append, hl.count_eq]
    · simp only [List.length_append, List.length_take, f3, f4, hlen1, hlen2]; omega
    · intro x hx
      simp only [List.mem_append] at hx
      rcases hx with hx | hx
      · exact hl.kids_inv x hx
      · exact hr.kids_inv x (List.mem_of_mem_take hx)
    · intro x hx
      simp only [List.mem_append] at hx
      rcases hx with hx | hx
      · exact hl.kids_addr x hx
      · rw [hr.kids_addr x (List.mem_of_mem_take hx)]; exact haddr
    · simp only [f3, f4]; omega
    · intro _; simp only [f3, f4]; omega
  · rw [treeInv_succ]
    refine ⟨⟨hr.root_eq, ?_, rfl, rfl, ?_, ?_, ?_⟩, ?_, ?_, by simp⟩
    · simp only [hr.hdrs_eq, List.map_drop, List.length_map]
    · simp only [List.length_drop, f3, f4, hlen1, hlen2]; omega
    · intro x hx; exact hr.kids_inv x (List.mem_of_mem_drop hx)
    · intro x hx; exact hr.kids_addr x (List.mem_of_mem_drop hx)
    · simp only [List.length_drop, f3, f4]; omega
    · intro _; simp only [List.length_drop, f3, f4]; omega
  · simp only [hr.count_eq]; omega

end MetaSlab
end Atree
