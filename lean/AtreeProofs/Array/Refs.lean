import AtreeProofs.ArrayRefs
import AtreeProofs.Array.RefsIds
/-
  Audit a1 F2, helper layer 2: the references of an array (`ARefsOk`) across one operation.
  * list lemmas about `refIdsOf` under `insertIdx / set / eraseIdx`,
  * the two possible outcomes of `toStorable` on a caller's value,
  * top level `Arr.insert / set`: the tree's new IDs are above the ID taken by `toStorable`,
  * the generic step `refs_step`.
-/
namespace Atree
open Gen ATree MetaSlab
variable {T : Nat}

/-! ### lists -/

theorem refIdsOf_append (l1 l2 : List Elem) : refIdsOf (l1 ++ l2) = refIdsOf l1 ++ refIdsOf l2 := by
  simp [refIdsOf, List.filterMap_append]

theorem refIdsOf_cons (e : Elem) (l : List Elem) : refIdsOf (e :: l) = refIdsOf [e] ++ refIdsOf l :=
  refIdsOf_append [e] l

theorem refIdsOf_perm {l1 l2 : List Elem} (h : l1.Perm l2) : (refIdsOf l1).Perm (refIdsOf l2) :=
  h.filterMap _

theorem refIdsOf_reverse (l : List Elem) : refIdsOf l.reverse = (refIdsOf l).reverse := by
  simp [refIdsOf, List.filterMap_reverse]

theorem mem_refIdsOf {l : List Elem} {id : SlabID} : id ∈ refIdsOf l ↔ ∃ e ∈ l, e.pay = .ref id := by
  simp only [refIdsOf, List.mem_filterMap, Elem.refId?]
  constructor
  · rintro ⟨e, he, h⟩
    refine ⟨e, he, ?_⟩
    cases hp : e.pay with
    | val n => rw [hp] at h; cases h
    | ref j => rw [hp] at h; cases h; rfl
  · rintro ⟨e, he, h⟩
    exact ⟨e, he, by rw [h]⟩

theorem refIdsOf_single_ref (sz : Nat) (id : SlabID) : refIdsOf [⟨sz, .ref id⟩] = [id] := rfl

theorem refIdsOf_single (e : Elem) : refIdsOf [e] = e.refId?.toList := by
  cases h : e.refId? <;> simp [refIdsOf, h]

theorem perm_old_eraseIdx (l : List Elem) (i : Nat) (hi : i < l.length) :
    l.Perm (l.getD i default :: l.eraseIdx i) := by
  induction l generalizing i with
  | nil => simp at hi
  | cons x xs ih =>
    cases i with
    | zero => simp
    | succ j =>
      have hj : j < xs.length := by simpa using hi
      have := ih j hj
      simp only [List.getD_cons_succ, List.eraseIdx_cons_succ]
      exact (List.Perm.cons x this).trans (List.Perm.swap _ _ _)

theorem perm_set_eraseIdx (l : List Elem) (i : Nat) (e : Elem) (hi : i < l.length) :
    (l.set i e).Perm (e :: l.eraseIdx i) := by
  induction l generalizing i with
  | nil => simp at hi
  | cons x xs ih =>
    cases i with
    | zero => simp
    | succ j =>
      have hj : j < xs.length := by simpa using hi
      have := ih j hj
      simp only [List.set_cons_succ, List.eraseIdx_cons_succ]
      exact (List.Perm.cons x this).trans (List.Perm.swap _ _ _)

/-! ### `toStorable` on a caller's value -/

theorem toStorable_cases (T addr : Nat) (v : Elem) (c : Ctx) (hv : ValueOk v) :
    ((toStorable T addr v c).1 = v ∧ refIdsOf [(toStorable T addr v c).1] = [] ∧
        (toStorable T addr v c).2.ctr = c.ctr ∧ (toStorable T addr v c).2.created = c.created) ∨
    ((toStorable T addr v c).1 = ⟨slabIDStorableSize, .ref ⟨addr, c.ctr + 1⟩⟩ ∧
        refIdsOf [(toStorable T addr v c).1] = [⟨addr, c.ctr + 1⟩] ∧
        (toStorable T addr v c).2.ctr = c.ctr + 1 ∧
        (toStorable T addr v c).2.created = c.created ++ [(⟨addr, c.ctr + 1⟩, v)]) := by
  obtain ⟨_, n, hn⟩ := hv
  unfold toStorable
  rw [hn]
  simp only
  split
  · right
    exact ⟨rfl, rfl, by simp [Ctx.emit, Ctx.alloc], by simp [Ctx.alloc]⟩
  · left
    exact ⟨rfl, by simp [refIdsOf, Elem.refId?, hn], rfl, rfl⟩

/-! ### top level: new tree IDs are above the ID taken by `toStorable` -/

theorem arr_insert_ids_above (hT : legalThreshold T = true) (a : Arr) (c : Ctx) (i : Nat) (v : Elem)
    (hv : ValueOk v) (h : ArrInv T a c.ctr) (a' : Arr) (c' : Ctx)
    (hr : a.insert T i v c = .ok (a', c')) :
    (toStorable T a.addr v c).2.ctr ≤ c'.ctr ∧
      ∀ id ∈ slabIds a'.d a'.root,
        id ∈ slabIds a.d a.root ∨ (toStorable T a.addr v c).2.ctr < id.idx := by
  obtain ⟨d, t, ty⟩ := a
  unfold Arr.insert at hr
  split at hr
  · cases hr
  · obtain ⟨⟨t', c1⟩, hins, hr⟩ := bind_eq_ok hr
    simp only at hins hr
    have hi : i ≤ (flatten d t).length := by
      rcases Nat.lt_or_ge (flatten d t).length i with h1 | h1
      · rw [insert_err_gen d t true i v c h.shape h1] at hins; cases hins
      · exact h1
    obtain ⟨t'', c1', hins', hstep, _⟩ := insert_gen hT d t true i v c h.tree h.notInl hv hi
    rw [hins] at hins'
    simp only [Except.ok.injEq, Prod.mk.injEq] at hins'
    obtain ⟨rfl, rfl⟩ := hins'
    obtain ⟨hk1, hids1⟩ := insert_ids_above hT d t true i v c _ t' c1 h.tree h.notInl hv h.ids hins
    by_cases hfull : ATree.isFull T d t' = true
    · simp only [hfull, if_true] at hr
      have hids' := repl_single_ids hstep.repl _ h.ids
      obtain ⟨_, E2, hlog2, hacct2⟩ := splitRoot_acct d t' ty c1 _ a' c' hids' hr
      refine ⟨Nat.le_trans hk1 hlog2.ctr_le, ?_⟩
      intro id hid
      have := hacct2.keys_new id (by rw [keys_slabs]; exact hid)
      rw [keys_slabs] at this
      rcases this with h1 | h1
      · exact hids1 id h1
      · exact Or.inr (by omega)
    · simp only [hfull] at hr
      cases hr
      exact ⟨hk1, hids1⟩

theorem arr_set_ids_above (hT : legalThreshold T = true) (a : Arr) (c : Ctx) (i : Nat) (v : Elem)
    (hv : ValueOk v) (h : ArrInv T a c.ctr) (old : Elem) (a' : Arr) (c' : Ctx)
    (hr : a.set T i v c = .ok (old, a', c')) :
    (toStorable T a.addr v c).2.ctr ≤ c'.ctr ∧
      ∀ id ∈ slabIds a'.d a'.root,
        id ∈ slabIds a.d a.root ∨ (toStorable T a.addr v c).2.ctr < id.idx := by
  obtain ⟨d, t, ty⟩ := a
  unfold Arr.set at hr
  obtain ⟨⟨old', t', c1⟩, hset, hr⟩ := bind_eq_ok hr
  simp only at hset hr
  have hi : i < (flatten d t).length := by
    rcases Nat.lt_or_ge i (flatten d t).length with h1 | h1
    · exact h1
    · rw [set_err_gen d t true i v c h.shape h1] at hset; cases hset
  obtain ⟨t'', c1', hset', hstep, _⟩ := set_gen hT d t true i v c h.tree h.notInl hv hi
  rw [hset] at hset'
  simp only [Except.ok.injEq, Prod.mk.injEq] at hset'
  obtain ⟨_, rfl, rfl⟩ := hset'
  obtain ⟨hk1, hids1⟩ := set_ids_above hT d t true i v c _ old' t' c1 h.tree h.notInl hv h.ids hset
  have hids' := repl_single_ids hstep.repl _ h.ids
  have fin : ∀ {a2 : Arr} {c2 : Ctx} {E : List Eff}, Log c1 c2 E [] →
      Acct c1.ctr (ATree.slabs d t') (ATree.slabs a2.d a2.root) E [] →
      (toStorable T (Arr.addr ⟨d, t, ty⟩) v c).2.ctr ≤ c2.ctr ∧
      ∀ id ∈ slabIds a2.d a2.root,
        id ∈ slabIds d t ∨ (toStorable T (Arr.addr ⟨d, t, ty⟩) v c).2.ctr < id.idx := by
    intro a2 c2 E hlog2 hacct2
    refine ⟨Nat.le_trans hk1 hlog2.ctr_le, ?_⟩
    intro id hid
    have := hacct2.keys_new id (by rw [keys_slabs]; exact hid)
    rw [keys_slabs] at this
    rcases this with h1 | h1
    · exact hids1 id h1
    · exact Or.inr (by omega)
  by_cases hfull : ATree.isFull T d t' = true
  · simp only [hfull, if_true] at hr
    obtain ⟨⟨a2, c2⟩, hsr, hr⟩ := bind_eq_ok hr
    simp only [pure, Except.pure, Except.ok.injEq, Prod.mk.injEq] at hr
    obtain ⟨_, rfl, rfl⟩ := hr
    obtain ⟨⟨m2, rfl, hlen⟩, E2, hlog2, hacct2⟩ := splitRoot_acct d t' ty c1 _ a2 c2 hids' hsr
    rw [promote_not_single d m2 ty c2 (by omega)]
    exact fin hlog2 hacct2
  · simp only [hfull] at hr
    obtain ⟨⟨a2, c2⟩, hsr, hr⟩ := bind_eq_ok hr
    simp only [pure, Except.pure, Except.ok.injEq, Prod.mk.injEq] at hr hsr
    obtain ⟨_, rfl, rfl⟩ := hr
    obtain ⟨rfl, rfl⟩ := hsr
    obtain ⟨E2, hlog2, hacct2⟩ := promote_acct d t' ty c1 _ hstep.shape hids'
    exact fin hlog2 hacct2

/-! ### the generic step -/

/-- One operation: the elements `rest` stay, the references `olds` are handed back to the caller,
    the references `news` (at most the one `toStorable` created, index `k`) are added; the tree's
    new IDs are old ones or above `k`. -/
theorem refs_step {a a' : Arr} {ctr ctr' k : Nat} {rest : List Elem} {olds news : List SlabID}
    (hR : ARefsOk a ctr)
    (hids : ∀ id ∈ slabIds a.d a.root, id.idx ≤ ctr)
    (hperm : a.refIds.Perm (olds ++ refIdsOf rest))
    (hperm' : a'.refIds.Perm (news ++ refIdsOf rest))
    (hnews : news = [] ∨ (news = [⟨a.addr, k⟩] ∧ ctr < k))
    (hk : ctr ≤ k) (hk' : k ≤ ctr') (haddr : a'.addr = a.addr)
    (hnew : ∀ id ∈ slabIds a'.d a'.root, id ∈ slabIds a.d a.root ∨ k < id.idx) :
    ARefsOk a' ctr' ∧ ∀ id ∈ olds, id ∈ a.refIds ∧ id ∉ a'.refIds ∧ id ∉ slabIds a'.d a'.root := by
  have hnd : (olds ++ refIdsOf rest).Nodup := hperm.nodup_iff.1 hR.nodup
  obtain ⟨hnd1, hnd2, hdisj⟩ := List.nodup_append.1 hnd
  have hrest : ∀ id ∈ refIdsOf rest, id ∈ a.refIds := fun id h =>
    hperm.mem_iff.2 (List.mem_append.2 (Or.inr h))
  have holds : ∀ id ∈ olds, id ∈ a.refIds := fun id h =>
    hperm.mem_iff.2 (List.mem_append.2 (Or.inl h))
  have hnewsid : ∀ id ∈ news, id = ⟨a.addr, k⟩ ∧ ctr < k := by
    intro id hid
    rcases hnews with h | ⟨h, h2⟩
    · rw [h] at hid; cases hid
    · rw [h] at hid; simp only [List.mem_singleton] at hid; exact ⟨hid, h2⟩
  -- an old reference is not a slab of the new tree
  have hold_tree : ∀ id ∈ a.refIds, id ∉ slabIds a'.d a'.root := by
    intro id hid hin
    rcases hnew id hin with h1 | h1
    · exact hR.not_tree id hid h1
    · have := (hR.alloc id hid).2.2; omega
  refine ⟨⟨?_, ?_, ?_⟩, ?_⟩
  · refine hperm'.nodup_iff.2 (List.nodup_append.2 ⟨?_, hnd2, ?_⟩)
    · rcases hnews with h | ⟨h, _⟩ <;> rw [h] <;> simp
    · intro x hx y hy hxy
      subst hxy
      obtain ⟨rfl, hlt⟩ := hnewsid x hx
      have := (hR.alloc _ (hrest _ hy)).2.2
      simp only at this; omega
  · intro id hid
    rcases List.mem_append.1 (hperm'.mem_iff.1 hid) with h | h
    · obtain ⟨rfl, hlt⟩ := hnewsid id h
      intro hin
      rcases hnew _ hin with h1 | h1
      · have := hids _ h1; simp only at this; omega
      · simp only at h1; omega
    · exact hold_tree id (hrest id h)
  · intro id hid
    rw [haddr]
    rcases List.mem_append.1 (hperm'.mem_iff.1 hid) with h | h
    · obtain ⟨rfl, hlt⟩ := hnewsid id h
      exact ⟨rfl, by simp only; omega, hk'⟩
    · obtain ⟨h1, h2, h3⟩ := hR.alloc id (hrest id h)
      exact ⟨h1, h2, by omega⟩
  · intro id hid
    refine ⟨holds id hid, ?_, hold_tree id (holds id hid)⟩
    intro hin
    rcases List.mem_append.1 (hperm'.mem_iff.1 hin) with h | h
    · obtain ⟨rfl, hlt⟩ := hnewsid id h
      have := (hR.alloc _ (holds _ hid)).2.2
      simp only at this; omega
    · exact hdisj id hid id h rfl

end Atree
