import AtreeProofs.Array.Restructure
/-
  `mergeOrRebalanceChildSlab`: under the invariant it never hits the `goPanic` branches and
  restores the size band of the underflowing child.
-/
namespace Atree
open Gen ATree MetaSlab

variable {T d : Nat}

theorem pfx_bounds (d : Nat) : 12 ≤ pfx d ∧ pfx d ≤ 21 := by
  cases d <;> simp [pfx, arrayDataSlabPrefixSize, arrayMetaDataSlabPrefixSize]

/-- the arithmetic of "sibling cannot lend ⇒ the merged slab fits" -/
theorem merge_band (hT : legalThreshold T = true) (d : Nat) (sib child : ATree d) (want : Nat)
    (hsib : TreeInv T d false sib) (hchild : Shape T d false child)
    (hw : want = minThr T - (hdr d child).size) (hu : (hdr d child).size < minThr T)
    (hc : ATree.canLendToLeft T d sib want = false ∨ ATree.canLendToRight T d sib want = false) :
    minThr T + pfx d ≤ (hdr d sib).size + (hdr d child).size ∧
    (hdr d sib).size + (hdr d child).size ≤ maxThr T + pfx d := by
  have F := thrFacts hT
  obtain ⟨f1, f2, f3, f4, f5, f6, f7, f8, f9⟩ := F
  have h1 := cannot_lend hT want (by omega) d sib hsib.shape_false hc
  have h2 := hsib.ge_min
  have h3 := hchild.pfx_le
  have h4 := pfx_bounds d
  constructor <;> omega

theorem mergeOrRebalance_spec (hT : legalThreshold T = true) (m1 : MetaSlab (ATree d))
    (A B : List (ATree d)) (child' : ATree d) (k : Nat) (c : Ctx) (a : Nat)
    (hb : Book m1) (hch : m1.children = A ++ child' :: B) (hk : A.length = k)
    (hA : ∀ t ∈ A, TreeInv T d false t) (hB : ∀ t ∈ B, TreeInv T d false t)
    (hs : Shape T d false child') (hu : (hdr d child').size < minThr T)
    (hsib : 1 ≤ A.length + B.length)
    (haddr : ∀ t ∈ m1.children, (hdr d t).id.addr = a)
    (hsz : arraySlabHeaderSize ≤ m1.hdr.size) :
    ∃ m2 c2, mergeOrRebalanceChildSlab T m1 child' k (minThr T - (hdr d child').size) c
        = .ok (m2, c2) ∧ c2.ctr = c.ctr ∧ Tail T d m1 m2 c.ctr c.ctr ∧
        m2.children.length ≤ m1.children.length := by
  have hlen : m1.childHdrs.length = A.length + 1 + B.length := by
    rw [hb.hdrs_eq, hch]; simp; omega
  have haddr' : ∀ t ∈ A ++ child' :: B, (hdr d t).id.addr = a := by rw [← hch]; exact haddr
  rcases List.eq_nil_or_concat A with hAn | ⟨A', ls, hAc⟩
  · -- no left sibling
    subst hAn
    simp only [List.length_nil] at hk hsib hlen
    subst hk
    cases B with
    | nil => simp at hsib
    | cons rs B' =>
      have hrs : TreeInv T d false rs := hB rs (by simp)
      have hB' : ∀ t ∈ B', TreeInv T d false t := fun t ht => hB t (by simp [ht])
      have hadr : (hdr d rs).id.addr = (hdr d child').id.addr := by
        rw [haddr' rs (by simp), haddr' child' (by simp)]
      have hR : (if 0 + 1 < m1.childHdrs.length then m1.children[0 + 1]? else none) = some rs := by
        rw [if_pos (by rw [hlen]; simp), hch]; simp
      unfold mergeOrRebalanceChildSlab
      simp only [hR, Nat.lt_irrefl, gt_iff_lt, if_false, Bool.false_or]
      cases hcl : ATree.canLendToLeft T d rs (minThr T - (hdr d child').size)
      · -- merge with the right sibling
        simp only [Bool.false_eq_true, if_false]
        obtain ⟨b1, b2⟩ := merge_band hT d rs child' _ hrs hs rfl hu (Or.inl hcl)
        obtain ⟨e1, e2, e3⟩ := tail_merge m1 [] B' child' rs 0 (0 + 1) c hb (by simp [hch]) rfl rfl
          (by simp) hB' hs hrs.shape_false hadr (by omega) (by omega) hsz
        exact ⟨_, _, rfl, e1, e2, e3⟩
      · simp only [if_true]
        have hok := borrow_ok hT c.ctr d child' rs hs hrs hu hadr hcl
        obtain ⟨e1, e2, e3⟩ := tail_rebal m1 [] B' child' rs 0 (0 + 1) true c hb (by simp [hch]) rfl rfl
          (by simp) hB' (by simpa using hok)
        exact ⟨_, _, rfl, e1, e2, e3⟩
  · -- there is a left sibling
    rw [List.concat_eq_append] at hAc
    subst hAc
    simp only [List.length_append, List.length_singleton] at hk hsib hlen
    have hls : TreeInv T d false ls := hA ls (by simp)
    have hA' : ∀ t ∈ A', TreeInv T d false t := fun t ht => hA t (by simp [ht])
    have hadl : (hdr d child').id.addr = (hdr d ls).id.addr := by
      rw [haddr' ls (by simp), haddr' child' (by simp)]
    have hk0 : k > 0 := by omega
    have hL : (if k > 0 then m1.children[k - 1]? else none) = some ls := by
      rw [if_pos hk0, hch]
      have : A' ++ [ls] ++ child' :: B = A' ++ ls :: child' :: B := by simp
      rw [this]
      exact getElem?_mid (by omega)
    have hchL : m1.children = A' ++ ls :: child' :: B := by rw [hch]; simp
    cases B with
    | nil =>
      have hR : (if k + 1 < m1.childHdrs.length then m1.children[k + 1]? else none) = none := by
        rw [if_neg (by rw [hlen]; simp; omega)]
      unfold mergeOrRebalanceChildSlab
      simp only [hL, hR, Bool.or_false]
      cases hcl : ATree.canLendToRight T d ls (minThr T - (hdr d child').size)
      · simp only [Bool.false_eq_true, if_false]
        obtain ⟨b1, b2⟩ := merge_band hT d ls child' _ hls hs rfl hu (Or.inr hcl)
        obtain ⟨e1, e2, e3⟩ := tail_merge m1 A' [] ls child' (k - 1) k c hb hchL (by omega) (by omega)
          hA' (by simp) hls.shape_false hs hadl (by omega) (by omega) hsz
        exact ⟨_, _, rfl, e1, e2, e3⟩
      · simp only [if_true]
        have hok := lend_ok hT c.ctr d ls child' hls hs hu hadl hcl
        obtain ⟨e1, e2, e3⟩ := tail_rebal m1 A' [] ls child' (k - 1) k false c hb hchL (by omega) (by omega)
          hA' (by simp) (by simpa using hok)
        exact ⟨_, _, rfl, e1, e2, e3⟩
    | cons rs B' =>
      have hrs : TreeInv T d false rs := hB rs (by simp)
      have hB' : ∀ t ∈ B', TreeInv T d false t := fun t ht => hB t (by simp [ht])
      have hBc : ∀ t ∈ rs :: B', TreeInv T d false t := hB
      have hadr : (hdr d rs).id.addr = (hdr d child').id.addr := by
        rw [haddr' rs (by simp), haddr' child' (by simp)]
      have hR : (if k + 1 < m1.childHdrs.length then m1.children[k + 1]? else none) = some rs := by
        rw [if_pos (by rw [hlen]; simp; omega), hch, getElem?_mid_succ (by simp; omega)]
        simp
      have hchR : m1.children = (A' ++ [ls]) ++ child' :: rs :: B' := hch
      have hkR : (A' ++ [ls]).length = k := by simp; omega
      -- the four repair actions
      have mergeL := fun (hcl : ATree.canLendToRight T d ls (minThr T - (hdr d child').size) = false) => by
        obtain ⟨b1, b2⟩ := merge_band hT d ls child' _ hls hs rfl hu (Or.inr hcl)
        exact tail_merge m1 A' (rs :: B') ls child' (k - 1) k c hb hchL (by omega) (by omega)
          hA' hBc hls.shape_false hs hadl (by omega) (by omega) hsz
      have mergeR := fun (hcl : ATree.canLendToLeft T d rs (minThr T - (hdr d child').size) = false) => by
        obtain ⟨b1, b2⟩ := merge_band hT d rs child' _ hrs hs rfl hu (Or.inl hcl)
        exact tail_merge m1 (A' ++ [ls]) B' child' rs k (k + 1) c hb hchR hkR rfl
          hA hB' hs hrs.shape_false hadr (by omega) (by omega) hsz
      have rebalL := fun (hcl : ATree.canLendToRight T d ls (minThr T - (hdr d child').size) = true) => by
        have hok := lend_ok hT c.ctr d ls child' hls hs hu hadl hcl
        exact tail_rebal m1 A' (rs :: B') ls child' (k - 1) k false c hb hchL (by omega) (by omega)
          hA' hBc (by simpa using hok)
      have rebalR := fun (hcl : ATree.canLendToLeft T d rs (minThr T - (hdr d child').size) = true) => by
        have hok := borrow_ok hT c.ctr d child' rs hs hrs hu hadr hcl
        exact tail_rebal m1 (A' ++ [ls]) B' child' rs k (k + 1) true c hb hchR hkR rfl
          hA hB' (by simpa using hok)
      unfold mergeOrRebalanceChildSlab
      simp only [hL, hR]
      cases hcl : ATree.canLendToRight T d ls (minThr T - (hdr d child').size) <;>
      cases hcr : ATree.canLendToLeft T d rs (minThr T - (hdr d child').size)
      · simp only [Bool.or_false, Bool.false_eq_true, if_false]
        split
        · obtain ⟨e1, e2, e3⟩ := mergeL hcl; exact ⟨_, _, rfl, e1, e2, e3⟩
        · obtain ⟨e1, e2, e3⟩ := mergeR hcr; exact ⟨_, _, rfl, e1, e2, e3⟩
      · simp only [Bool.or_true, if_true, Bool.not_false]
        obtain ⟨e1, e2, e3⟩ := rebalR hcr; exact ⟨_, _, rfl, e1, e2, e3⟩
      · simp only [Bool.or_false, if_true, Bool.not_true, Bool.false_eq_true, if_false, Bool.not_false]
        obtain ⟨e1, e2, e3⟩ := rebalL hcl; exact ⟨_, _, rfl, e1, e2, e3⟩
      · simp only [Bool.or_true, if_true, Bool.not_true, Bool.false_eq_true, if_false]
        split
        · obtain ⟨e1, e2, e3⟩ := rebalL hcl; exact ⟨_, _, rfl, e1, e2, e3⟩
        · obtain ⟨e1, e2, e3⟩ := rebalR hcr; exact ⟨_, _, rfl, e1, e2, e3⟩

end Atree
