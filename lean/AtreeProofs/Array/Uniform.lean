import AtreeProofs.Array.Group
/-
  Depth-uniform specifications of `ATree.{split,merge,lendToRight,borrowFromRight,canLend…}`.
-/
namespace Atree
open Gen ATree MetaSlab

variable {T : Nat}

theorem chain_single (f n : SlabID) (s : DataSlab) : Chain f n [s] ↔ s.hdr.id = f ∧ s.next = n := by
  simp [Chain]
theorem chain_pair (f n : SlabID) (l r : DataSlab) :
    Chain f n [l, r] ↔ l.hdr.id = f ∧ r.hdr.id = l.next ∧ r.next = n := by
  simp [Chain]

/-! ### split -/

theorem split_ok (hT : legalThreshold T = true) : ∀ (d : Nat) (t : ATree d) (c : Ctx),
    Shape T d false t → maxThr T < (hdr d t).size →
    (hdr d t).size ≤ maxThr T + maxInlineArr T + 16 →
    ∃ l r c', ATree.split d t c = .ok (l, r, c') ∧ c'.ctr = c.ctr + 1 ∧
      TreeInv T d false l ∧ TreeInv T d false r ∧
      flatten d l ++ flatten d r = flatten d t ∧
      (hdr d l).id = (hdr d t).id ∧
      (hdr d l).count + (hdr d r).count = (hdr d t).count ∧
      Repl d [t] [l, r] c.ctr c'.ctr
  | 0, t, c => by
    refine forall_ofData ?_ t; intro s hs hlo hhi
    simp only [hdr_zero] at hlo hhi
    obtain ⟨l, r, heq, hl, hr, hel, hid, hrid, hln, hrn, hcnt⟩ :=
      DataSlab.split_spec T hT s c ((shape_zero T false s).1 hs) hlo hhi
    refine ⟨ofData l, ofData r, _, heq, rfl, (treeInv_zero T false l).2 hl,
      (treeInv_zero T false r).2 hr, by simpa using hel, by simpa using hid, by simpa using hcnt, ?_⟩
    refine Repl.of_fresh c.ctr s.hdr.id.addr ?_ ?_ ⟨s.hdr.id, by simp, rfl⟩ ?_
    · intro f n
      simp only [List.flatMap_cons, List.flatMap_nil, leaves_zero, List.append_nil,
        List.singleton_append, chain_single, chain_pair]
      rintro ⟨h1, h2⟩
      exact ⟨by rw [hid, h1], hln.symm, by rw [hrn, h2]⟩
    · simp only [List.flatMap_cons, List.flatMap_nil, slabIds_zero, List.append_nil,
        List.singleton_append, hid, hrid]
      exact List.Perm.swap _ _ _
    · intro a ha x hx
      have ha := ha (ofData s) (by simp)
      simp only [hdr_zero] at ha
      simp only [List.mem_cons, List.not_mem_nil, or_false] at hx
      rcases hx with hx | hx
      · rw [hx, hdr_zero, hid, ha]
      · rw [hx, hdr_zero, hrid]; exact ha
  | d + 1, t, c => by
    refine forall_ofMeta ?_ t; intro m hs hlo hhi
    simp only [hdr_succ] at hlo hhi
    obtain ⟨l, r, heq, hl, hr, hch, hid, hrid, hcnt⟩ :=
      MetaSlab.split_spec hT m c ((shape_succ T d false m).1 hs) hlo hhi
    refine ⟨ofMeta l, ofMeta r, _, heq, rfl, hl, hr, ?_, by simpa using hid, by simpa using hcnt, ?_⟩
    · simp only [flatten_succ, ← List.flatMap_append, hch]
    refine Repl.of_fresh c.ctr m.hdr.id.addr ?_ ?_ ⟨m.hdr.id, by simp, rfl⟩ ?_
    · apply ChainPres.of_eq
      simp only [List.flatMap_cons, List.flatMap_nil, leaves_succ, List.append_nil,
        ← List.flatMap_append, hch]
    · simp only [List.flatMap_cons, List.flatMap_nil, slabIds_succ, List.append_nil, hid, hrid,
        ← hch, List.flatMap_append, List.cons_append]
      refine List.Perm.trans ?_ (List.Perm.swap _ _ _)
      exact List.Perm.cons _ List.perm_middle
    · intro a ha x hx
      have ha := ha (ofMeta m) (by simp)
      simp only [hdr_succ] at ha
      simp only [List.mem_cons, List.not_mem_nil, or_false] at hx
      rcases hx with hx | hx
      · rw [hx, hdr_succ, hid, ha]
      · rw [hx, hdr_succ, hrid]; exact ha

/-! ### merge -/

theorem merge_ok (c : Nat) : ∀ (d : Nat) (l r : ATree d), Shape T d false l → Shape T d false r →
    (hdr d r).id.addr = (hdr d l).id.addr →
    Shape T d false (ATree.merge d l r) ∧
      flatten d (ATree.merge d l r) = flatten d l ++ flatten d r ∧
      (hdr d (ATree.merge d l r)).id = (hdr d l).id ∧
      (hdr d (ATree.merge d l r)).count = (hdr d l).count + (hdr d r).count ∧
      (hdr d (ATree.merge d l r)).size + pfx d = (hdr d l).size + (hdr d r).size ∧
      Repl d [l, r] [ATree.merge d l r] c c
  | 0, l, r => by
    refine forall_ofData ?_ l; intro l
    refine forall_ofData ?_ r; intro r
    intro hl hr _
    obtain ⟨h1, h2, h3, h4, h5, h6⟩ :=
      DataSlab.merge_spec T l r ((shape_zero T false l).1 hl) ((shape_zero T false r).1 hr)
    show Shape T 0 false (ofData (DataSlab.merge l r)) ∧
      flatten 0 (ofData (DataSlab.merge l r)) = _ ∧ (hdr 0 (ofData (DataSlab.merge l r))).id = _ ∧
      (hdr 0 (ofData (DataSlab.merge l r))).count = _ ∧
      (hdr 0 (ofData (DataSlab.merge l r))).size + pfx 0 = _ ∧
      Repl 0 [ofData l, ofData r] [ofData (DataSlab.merge l r)] c c
    refine ⟨(shape_zero T false _).2 h1, by simpa using h2, by simpa using h3, by simpa using h5,
      by simpa [pfx] using h6, ?_⟩
    refine Repl.of_subset c ?_ ?_ ?_ ?_
    · intro f n
      simp only [List.flatMap_cons, List.flatMap_nil, leaves_zero, List.append_nil,
        List.singleton_append, chain_single, chain_pair]
      rintro ⟨a1, a2, a3⟩
      exact ⟨by rw [h3, a1], by rw [h4, a3]⟩
    · simp only [List.flatMap_cons, List.flatMap_nil, slabIds_zero, List.append_nil,
        List.singleton_append, h3]
      intro hnd
      exact (List.nodup_cons.1 hnd).2 |> fun _ => by simp
    · simp only [List.flatMap_cons, List.flatMap_nil, slabIds_zero, List.append_nil,
        List.singleton_append, h3]
      intro id hid
      simp only [List.mem_singleton] at hid
      simp [hid]
    · intro a ha x hx
      simp only [List.mem_singleton] at hx
      rw [hx, hdr_zero, h3]
      exact ha (ofData l) (by simp)
  | d + 1, l, r => by
    refine forall_ofMeta ?_ l; intro l
    refine forall_ofMeta ?_ r; intro r
    intro hl hr haddr
    simp only [hdr_succ] at haddr
    obtain ⟨h1, h2, h3, h4, h5⟩ :=
      MetaSlab.merge_spec l r ((shape_succ T d false l).1 hl) ((shape_succ T d false r).1 hr) haddr
    show Shape T (d + 1) false (ofMeta (MetaSlab.merge l r)) ∧
      flatten (d + 1) (ofMeta (MetaSlab.merge l r)) = _ ∧
      (hdr (d + 1) (ofMeta (MetaSlab.merge l r))).id = _ ∧
      (hdr (d + 1) (ofMeta (MetaSlab.merge l r))).count = _ ∧
      (hdr (d + 1) (ofMeta (MetaSlab.merge l r))).size + pfx (d + 1) = _ ∧
      Repl (d + 1) [ofMeta l, ofMeta r] [ofMeta (MetaSlab.merge l r)] c c
    refine ⟨(shape_succ T d false _).2 h1, by simp [h2], by simpa using h3, by simpa using h4,
      by simpa [pfx] using h5, ?_⟩
    refine Repl.of_subset c ?_ ?_ ?_ ?_
    · apply ChainPres.of_eq
      simp [h2]
    · simp only [List.flatMap_cons, List.flatMap_nil, slabIds_succ, List.append_nil, h3, h2,
        List.flatMap_append, List.cons_append]
      intro hnd
      have hsub : (l.hdr.id :: (List.flatMap (slabIds d) l.children ++ List.flatMap (slabIds d) r.children)).Sublist
          (l.hdr.id :: (List.flatMap (slabIds d) l.children ++ r.hdr.id :: List.flatMap (slabIds d) r.children)) := by
        apply List.Sublist.cons_cons
        apply List.Sublist.append_left
        exact List.sublist_cons_self _ _
      exact hnd.sublist hsub
    · simp only [List.flatMap_cons, List.flatMap_nil, slabIds_succ, List.append_nil, h3, h2,
        List.flatMap_append, List.cons_append]
      intro id hid
      simp only [List.mem_cons, List.mem_append] at hid ⊢
      rcases hid with hid | hid | hid
      · exact Or.inl hid
      · exact Or.inr (Or.inl hid)
      · exact Or.inr (Or.inr (Or.inr hid))
    · intro a ha x hx
      simp only [List.mem_singleton] at hx
      rw [hx, hdr_succ, h3]
      exact ha (ofMeta l) (by simp)

/-! ### rebalance -/

/-- what both directions of a rebalance deliver -/
structure RebalOk (T d : Nat) (l r l' r' : ATree d) (c : Nat) : Prop where
  invl : TreeInv T d false l'
  invr : TreeInv T d false r'
  flat : flatten d l' ++ flatten d r' = flatten d l ++ flatten d r
  idl : (hdr d l').id = (hdr d l).id
  idr : (hdr d r').id = (hdr d r).id
  counts : (hdr d l').count + (hdr d r').count = (hdr d l).count + (hdr d r).count
  repl : Repl d [l, r] [l', r'] c c

theorem rebal_data (c : Nat) (l r l' r' : DataSlab)
    (h1 : DataInv T false l') (h2 : DataInv T false r')
    (h3 : l'.elems ++ r'.elems = l.elems ++ r.elems)
    (h4 : l'.hdr.id = l.hdr.id) (h5 : r'.hdr.id = r.hdr.id) (h6 : l'.next = l.next)
    (h7 : r'.next = r.next)
    (h8 : l'.hdr.count + r'.hdr.count = l.hdr.count + r.hdr.count) :
    RebalOk T 0 (ofData l) (ofData r) (ofData l') (ofData r') c := by
  refine ⟨(treeInv_zero T false _).2 h1, (treeInv_zero T false _).2 h2, by simpa using h3,
    by simpa using h4, by simpa using h5, by simpa using h8, ?_⟩
  refine Repl.of_subset c ?_ ?_ ?_ ?_
  · intro f n
    simp only [List.flatMap_cons, List.flatMap_nil, leaves_zero, List.append_nil,
      List.singleton_append, chain_pair, h4, h5, h6, h7]
    exact id
  · simp only [List.flatMap_cons, List.flatMap_nil, slabIds_zero, List.append_nil,
      List.singleton_append, h4, h5]
    exact id
  · simp only [List.flatMap_cons, List.flatMap_nil, slabIds_zero, List.append_nil,
      List.singleton_append, h4, h5]
    exact fun _ h => h
  · intro a ha x hx
    simp only [List.mem_cons, List.not_mem_nil, or_false] at hx
    rcases hx with hx | hx
    · rw [hx, hdr_zero, h4]; exact ha (ofData l) (by simp)
    · rw [hx, hdr_zero, h5]; exact ha (ofData r) (by simp)

theorem rebal_meta {d : Nat} (c : Nat) (l r l' r' : MetaSlab (ATree d))
    (h1 : TreeInv T (d + 1) false (ofMeta l')) (h2 : TreeInv T (d + 1) false (ofMeta r'))
    (h3 : l'.children ++ r'.children = l.children ++ r.children)
    (h4 : l'.hdr.id = l.hdr.id) (h5 : r'.hdr.id = r.hdr.id)
    (h8 : l'.hdr.count + r'.hdr.count = l.hdr.count + r.hdr.count) :
    RebalOk T (d + 1) (ofMeta l) (ofMeta r) (ofMeta l') (ofMeta r') c := by
  have hperm : ([ofMeta l', ofMeta r'].flatMap (slabIds (d + 1))).Perm
      ([ofMeta l, ofMeta r].flatMap (slabIds (d + 1))) := by
    simp only [List.flatMap_cons, List.flatMap_nil, slabIds_succ, List.append_nil, h4, h5,
      List.cons_append]
    apply List.Perm.cons
    have e1 := @List.perm_middle _ r.hdr.id (l'.children.flatMap (slabIds d)) (r'.children.flatMap (slabIds d))
    have e2 := @List.perm_middle _ r.hdr.id (l.children.flatMap (slabIds d)) (r.children.flatMap (slabIds d))
    refine e1.trans (List.Perm.trans ?_ e2.symm)
    rw [← List.flatMap_append, ← List.flatMap_append, h3]
  refine ⟨h1, h2, ?_, by simpa using h4, by simpa using h5, by simpa using h8, ?_⟩
  · simp only [flatten_succ, ← List.flatMap_append, h3]
  refine Repl.of_subset c ?_ (fun hnd => hperm.nodup_iff.2 hnd) (fun id hid => hperm.mem_iff.1 hid) ?_
  · apply ChainPres.of_eq
    simp only [List.flatMap_cons, List.flatMap_nil, leaves_succ, List.append_nil,
      ← List.flatMap_append, h3]
  · intro a ha x hx
    simp only [List.mem_cons, List.not_mem_nil, or_false] at hx
    rcases hx with hx | hx
    · rw [hx, hdr_succ, h4]; exact ha (ofMeta l) (by simp)
    · rw [hx, hdr_succ, h5]; exact ha (ofMeta r) (by simp)

theorem lend_ok (hT : legalThreshold T = true) (c : Nat) : ∀ (d : Nat) (l r : ATree d),
    TreeInv T d false l → Shape T d false r → (hdr d r).size < minThr T →
    (hdr d r).id.addr = (hdr d l).id.addr →
    ATree.canLendToRight T d l (minThr T - (hdr d r).size) = true →
    RebalOk T d l r (ATree.lendToRight T d l r).1 (ATree.lendToRight T d l r).2 c
  | 0, l, r => by
    refine forall_ofData ?_ l; intro l
    refine forall_ofData ?_ r; intro r
    intro hl hr hu _ hcan
    obtain ⟨h1, h2, h3, h4, h5, h6, h7, h8⟩ :=
      DataSlab.lendToRight_spec T hT l r ((treeInv_zero T false l).1 hl)
        ((shape_zero T false r).1 hr) hu hcan
    exact rebal_data c l r _ _ h1 h2 h3 h4 h5 h6 h7 h8
  | d + 1, l, r => by
    refine forall_ofMeta ?_ l; intro l
    refine forall_ofMeta ?_ r; intro r
    intro hl hr hu haddr hcan
    obtain ⟨h1, h2, h3, h4, h5, h8⟩ :=
      MetaSlab.lendToRight_spec hT l r hl ((shape_succ T d false r).1 hr) hu haddr hcan
    exact rebal_meta c l r _ _ h1 h2 h3 h4 h5 h8

theorem borrow_ok (hT : legalThreshold T = true) (c : Nat) : ∀ (d : Nat) (l r : ATree d),
    Shape T d false l → TreeInv T d false r → (hdr d l).size < minThr T →
    (hdr d r).id.addr = (hdr d l).id.addr →
    ATree.canLendToLeft T d r (minThr T - (hdr d l).size) = true →
    RebalOk T d l r (ATree.borrowFromRight T d l r).1 (ATree.borrowFromRight T d l r).2 c
  | 0, l, r => by
    refine forall_ofData ?_ l; intro l
    refine forall_ofData ?_ r; intro r
    intro hl hr hu _ hcan
    obtain ⟨h1, h2, h3, h4, h5, h6, h7, h8⟩ :=
      DataSlab.borrowFromRight_spec T hT l r ((shape_zero T false l).1 hl)
        ((treeInv_zero T false r).1 hr) hu hcan
    exact rebal_data c l r _ _ h1 h2 h3 h4 h5 h6 h7 h8
  | d + 1, l, r => by
    refine forall_ofMeta ?_ l; intro l
    refine forall_ofMeta ?_ r; intro r
    intro hl hr hu haddr hcan
    obtain ⟨h1, h2, h3, h4, h5, h8⟩ :=
      MetaSlab.borrowFromRight_spec hT l r ((shape_succ T d false l).1 hl) hr hu haddr hcan
    exact rebal_meta c l r _ _ h1 h2 h3 h4 h5 h8

/-- A sibling that cannot lend `want` bytes is small. -/
theorem cannot_lend (hT : legalThreshold T = true) (want : Nat) (hw : 1 ≤ want) :
    ∀ (d : Nat) (s : ATree d), Shape T d false s →
    (ATree.canLendToLeft T d s want = false ∨ ATree.canLendToRight T d s want = false) →
    (hdr d s).size < minThr T + want + maxInlineArr T + arrayDataSlabPrefixSize
  | 0, s => by
    refine forall_ofData ?_ s; intro s hs hc
    have hs := (shape_zero T false s).1 hs
    rcases hc with hc | hc
    · exact DataSlab.cannot_lend_bound T hT s want hs hw false hc
    · exact DataSlab.cannot_lend_bound T hT s want hs hw true hc
  | d + 1, s => by
    refine forall_ofMeta ?_ s; intro m hs hc
    have hc : m.canLend T want = false := by rcases hc with hc | hc <;> exact hc
    have := MetaSlab.canLend_false hc
    have F := thrFacts hT
    simp only [hdr_succ, F.hsz, F.pfx, F.inlE] at this ⊢
    have := F.lo
    omega

end Atree
