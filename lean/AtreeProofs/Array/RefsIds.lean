import AtreeProofs.Array.EffectsTop
/-
  Audit a1 F2, helper layer 1: the slab IDs an insert / set hands to the TREE are allocated AFTER
  the ID that `toStorable` takes for a large value (`toStorable` runs first, at the leaf; every
  split happens on the way back up).  `Acct` / `Repl` bound new tree IDs by the counter BEFORE the
  operation only, which does not separate them from the ID of the new large-value slab; this is a
  new induction over the depth along the successful run (same skeleton as `insert_acct`).
-/
namespace Atree
open Gen ATree MetaSlab
variable {T d : Nat}

theorem data_insert_ids (s s' : DataSlab) (i : Nat) (v : Elem) (c c' : Ctx)
    (h : s.insert T i v c = .ok (s', c')) :
    s'.hdr.id = s.hdr.id ∧ c'.ctr = (toStorable T s.hdr.id.addr v c).2.ctr := by
  unfold DataSlab.insert at h
  split at h
  · cases h
  · simp only [Except.ok.injEq, Prod.mk.injEq] at h
    obtain ⟨hs', hc'⟩ := h
    refine ⟨by rw [← hs'], ?_⟩
    rw [← hc']
    unfold DataSlab.storeIfNotInlined
    split <;> simp [Ctx.emit]

theorem data_set_ids (s s' : DataSlab) (i : Nat) (v old : Elem) (c c' : Ctx)
    (h : s.set T i v c = .ok (old, s', c')) :
    s'.hdr.id = s.hdr.id ∧ c'.ctr = (toStorable T s.hdr.id.addr v c).2.ctr := by
  unfold DataSlab.set at h
  split at h
  · cases h
  · simp only [Except.ok.injEq, Prod.mk.injEq] at h
    obtain ⟨_, hs', hc'⟩ := h
    refine ⟨by rw [← hs'], ?_⟩
    rw [← hc']
    unfold DataSlab.storeIfNotInlined
    split <;> simp [Ctx.emit]

/-- child step (new IDs above `k`) followed by the parent's repair step (new IDs above `c1 ≥ k`) -/
theorem ids_above_parent {m m2 : MetaSlab (ATree d)} {A B : List (ATree d)} {child child' : ATree d}
    {k c1 : Nat} (hch : m.children = A ++ child :: B)
    (hchild : ∀ id ∈ slabIds d child', id ∈ slabIds d child ∨ k < id.idx) (hk : k ≤ c1)
    (htail : ∀ id ∈ slabIds (d + 1) (ofMeta m2),
      id ∈ m.hdr.id :: (A ++ child' :: B).flatMap (slabIds d) ∨ c1 < id.idx) :
    ∀ id ∈ slabIds (d + 1) (ofMeta m2), id ∈ slabIds (d + 1) (ofMeta m) ∨ k < id.idx := by
  intro id hid
  rcases htail id hid with h | h
  · rw [slabIds_succ, hch]
    simp only [List.flatMap_append, List.flatMap_cons, List.mem_cons, List.mem_append] at h ⊢
    rcases h with h | h | h | h
    · exact Or.inl (Or.inl h)
    · exact Or.inl (Or.inr (Or.inl h))
    · rcases hchild id h with h1 | h1
      · exact Or.inl (Or.inr (Or.inr (Or.inl h1)))
      · exact Or.inr h1
    · exact Or.inl (Or.inr (Or.inr (Or.inr h)))
  · exact Or.inr (by omega)

/-- what an account of the repair step says about the IDs -/
theorem tail_ids_of_acct {m1 m2 : MetaSlab (ATree d)} {c1 : Nat} {e : ASlab} {E : List Eff}
    (h : Acct c1 ((m1.hdr.id, e) :: m1.children.flatMap (ATree.slabs d))
      (ATree.slabs (d + 1) (ofMeta m2)) E []) :
    ∀ id ∈ slabIds (d + 1) (ofMeta m2),
      id ∈ m1.hdr.id :: m1.children.flatMap (slabIds d) ∨ c1 < id.idx := by
  intro id hid
  have := h.keys_new id (by rw [keys_slabs]; exact hid)
  rwa [keys_cons', keys_flatMap_slabs] at this

theorem insert_ids_above (hT : legalThreshold T = true) :
    ∀ (d : Nat) (t : ATree d) (top : Bool) (i : Nat) (v : Elem) (c : Ctx) (addr : Nat)
      (t' : ATree d) (c' : Ctx),
    TreeInv T d top t → NotInl d t → ValueOk v → IdsOk addr c.ctr (slabIds d t) →
    ATree.insert T d t i v c = .ok (t', c') →
    (toStorable T addr v c).2.ctr ≤ c'.ctr ∧
      ∀ id ∈ slabIds d t', id ∈ slabIds d t ∨ (toStorable T addr v c).2.ctr < id.idx
  | 0, t, top, i, v, c, addr, t', c' => by
    refine forall_ofData ?_ t; intro s _ _ _ hids hr
    have haddr : s.hdr.id.addr = addr := (hids.2 s.hdr.id (by simp)).1
    revert hr; refine forall_ofData ?_ t'; intro s' hr
    obtain ⟨h1, h2⟩ := data_insert_ids s s' i v c c' hr
    rw [haddr] at h2
    refine ⟨by omega, ?_⟩
    intro id hid
    left
    simp only [slabIds_zero, List.mem_singleton] at hid ⊢
    rw [hid, h1]
  | d + 1, t, top, i, v, c, addr, t', c' => by
    refine forall_ofMeta ?_ t; intro m hinv _ hv hids hr
    obtain ⟨hs, _, _, _⟩ := (treeInv_succ T d top m).1 hinv
    obtain ⟨k, adj, child, child', c1, hchild, hins, htl⟩ := insert_succ_inv m i v c t' c' hr
    obtain ⟨A, B, hch, hk⟩ := split_at_getElem? hchild
    have hc : TreeInv T d false child := hs.kids_inv child (by rw [hch]; simp)
    have hadj : adj ≤ (flatten d child).length := by
      rcases Nat.lt_or_ge (flatten d child).length adj with h | h
      · rw [insert_err_gen d child false adj v c hc.shape_false h] at hins; cases hins
      · exact h
    obtain ⟨child'', c1', hins', hstep, _⟩ :=
      insert_gen hT d child false adj v c hc hc.notInl_of_false hv hadj
    rw [hins] at hins'
    simp only [Except.ok.injEq, Prod.mk.injEq] at hins'
    obtain ⟨rfl, rfl⟩ := hins'
    obtain ⟨hk1, hids1⟩ := insert_ids_above hT d child false adj v c addr child' c1 hc
      hc.notInl_of_false hv (ids_child hch hids) hins
    have hch1 : (insM1 m k child').children = A ++ child' :: B := by
      show m.children.set k child' = _
      rw [hch, set_mid hk]
    have ids1 := ids_after_child (m1 := insM1 m k child') hch hch1 rfl hstep.repl hids
    rw [slabIds_succ] at ids1
    have hnd := ids1.1
    have hle : ∀ id ∈ (insM1 m k child').hdr.id :: (insM1 m k child').children.flatMap (slabIds d),
        id.idx ≤ c1.ctr := fun id h => (ids1.2 id h).2.2
    rcases htl with ⟨m2, hsp, rfl⟩ | ⟨rfl, rfl⟩
    · obtain ⟨E2, hlog2, hacct2⟩ := tail_split_acct (e := ent (d + 1) (ofMeta m)) hch1 hk hsp hnd hle
      have ht := tail_ids_of_acct hacct2
      rw [hch1] at ht
      exact ⟨Nat.le_trans hk1 hlog2.ctr_le, ids_above_parent hch hids1 hk1 ht⟩
    · refine ⟨hk1, ids_above_parent (m2 := insM1 m k child') hch hids1 hk1 ?_⟩
      intro id hid
      left
      rw [slabIds_succ, hch1] at hid
      exact hid

theorem set_ids_above (hT : legalThreshold T = true) :
    ∀ (d : Nat) (t : ATree d) (top : Bool) (i : Nat) (v : Elem) (c : Ctx) (addr : Nat) (old : Elem)
      (t' : ATree d) (c' : Ctx),
    TreeInv T d top t → NotInl d t → ValueOk v → IdsOk addr c.ctr (slabIds d t) →
    ATree.set T d t i v c = .ok (old, t', c') →
    (toStorable T addr v c).2.ctr ≤ c'.ctr ∧
      ∀ id ∈ slabIds d t', id ∈ slabIds d t ∨ (toStorable T addr v c).2.ctr < id.idx
  | 0, t, top, i, v, c, addr, old, t', c' => by
    refine forall_ofData ?_ t; intro s _ _ _ hids hr
    have haddr : s.hdr.id.addr = addr := (hids.2 s.hdr.id (by simp)).1
    revert hr; refine forall_ofData ?_ t'; intro s' hr
    obtain ⟨h1, h2⟩ := data_set_ids s s' i v old c c' hr
    rw [haddr] at h2
    refine ⟨by omega, ?_⟩
    intro id hid
    left
    simp only [slabIds_zero, List.mem_singleton] at hid ⊢
    rw [hid, h1]
  | d + 1, t, top, i, v, c, addr, old, t', c' => by
    refine forall_ofMeta ?_ t; intro m hinv _ hv hids hr
    obtain ⟨hs, _, _, _⟩ := (treeInv_succ T d top m).1 hinv
    obtain ⟨k, adj, child, child', c1, m2, hchild, hset, haft, rfl⟩ := set_succ_inv m i v c old t' c' hr
    obtain ⟨A, B, hch, hk⟩ := split_at_getElem? hchild
    have hc : TreeInv T d false child := hs.kids_inv child (by rw [hch]; simp)
    have hadj : adj < (flatten d child).length := by
      rcases Nat.lt_or_ge adj (flatten d child).length with h | h
      · exact h
      · rw [set_err_gen d child false adj v c hc.shape_false h] at hset; cases hset
    obtain ⟨child'', c1', hset', hstep, _⟩ :=
      set_gen hT d child false adj v c hc hc.notInl_of_false hv hadj
    rw [hset] at hset'
    simp only [Except.ok.injEq, Prod.mk.injEq] at hset'
    obtain ⟨_, rfl, rfl⟩ := hset'
    obtain ⟨hk1, hids1⟩ := set_ids_above hT d child false adj v c addr old child' c1 hc
      hc.notInl_of_false hv (ids_child hch hids) hset
    have hch1 : (setM1 m k child').children = A ++ child' :: B := by
      rw [setM1_children, hch, set_mid hk]
    have ids1 := ids_after_child (m1 := setM1 m k child') hch hch1 rfl hstep.repl hids
    rw [slabIds_succ] at ids1
    have hnd := ids1.1
    have hle : ∀ id ∈ (setM1 m k child').hdr.id :: (setM1 m k child').children.flatMap (slabIds d),
        id.idx ≤ c1.ctr := fun id h => (ids1.2 id h).2.2
    rcases afterSet_inv _ _ _ _ _ _ haft with hsp | ⟨u, hmr⟩ | ⟨rfl, rfl⟩
    · obtain ⟨E2, hlog2, hacct2⟩ := tail_split_acct (e := ent (d + 1) (ofMeta m)) hch1 hk hsp hnd hle
      have ht := tail_ids_of_acct hacct2
      rw [hch1] at ht
      exact ⟨Nat.le_trans hk1 hlog2.ctr_le, ids_above_parent hch hids1 hk1 ht⟩
    · obtain ⟨E2, hlog2, hacct2⟩ := tail_mor_acct (e := ent (d + 1) (ofMeta m)) hch1 hk hmr hnd hle
      have ht := tail_ids_of_acct hacct2
      rw [hch1] at ht
      exact ⟨Nat.le_trans hk1 hlog2.ctr_le, ids_above_parent hch hids1 hk1 ht⟩
    · refine ⟨hk1, ids_above_parent (m2 := setM1 m k child') hch hids1 hk1 ?_⟩
      intro id hid
      left
      rw [slabIds_succ, hch1] at hid
      exact hid

end Atree
