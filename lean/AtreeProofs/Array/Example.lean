import AtreeProofs.Array.Iter
/-
  A concrete multi-slab array (T = 256) obtained by running the model, and a direct proof that it
  satisfies `ArrInv`: the hypotheses of the property theorems are satisfiable by a tree with an
  index slab (non-vacuity).
-/
namespace Atree.Example
open Atree Gen ATree

def T0 : Nat := 256
def elem (n : Nat) : Elem := ⟨100, .val n⟩
def ctx0 : Ctx := ⟨0, [], []⟩

/-- NewArray, then four appends of 100-byte elements: the fourth makes the root data slab
    (5 + 400 > 384 bytes) split into two data slabs under a new root index slab. -/
def run4 : Except AErr (Arr × Nat) := do
  let (a, c) := Arr.new 1 0 ctx0
  let (a, c) ← a.insert T0 0 (elem 0) c
  let (a, c) ← a.insert T0 1 (elem 1) c
  let (a, c) ← a.insert T0 2 (elem 2) c
  let (a, c) ← a.insert T0 3 (elem 3) c
  return (a, c.ctr)

def left : DataSlab := ⟨⟨⟨1, 2⟩, 221, 2⟩, ⟨1, 3⟩, [elem 0, elem 1], false, false⟩
def right : DataSlab := ⟨⟨⟨1, 3⟩, 221, 2⟩, SlabID.undef, [elem 2, elem 3], false, false⟩
def rootSlab : MetaSlab (ATree 0) :=
  ⟨⟨⟨1, 1⟩, 40, 4⟩, [left.hdr, right.hdr], [2, 4], [ofData left, ofData right], true⟩
def arr4 : Arr := ⟨1, ofMeta rootSlab, 0⟩

/-- the model really produces this two-level tree -/
theorem run4_eq : run4 = .ok (arr4, 3) := by rfl

theorem legal : legalThreshold T0 = true := by decide

theorem elem_ok (n : Nat) : ElemOk T0 (elem n) := by
  show 1 ≤ 100 ∧ 100 ≤ maxInlineArr 256
  decide

theorem value_ok (n : Nat) : ValueOk (elem n) := ⟨by show 1 ≤ 100; decide, n, rfl⟩

theorem left_inv : DataInv T0 false left := by
  refine ⟨rfl, by decide, ?_, rfl, by decide, by decide, fun _ => by decide⟩
  intro e he
  simp only [left, List.mem_cons, List.not_mem_nil, or_false] at he
  rcases he with rfl | rfl <;> exact elem_ok _

theorem right_inv : DataInv T0 false right := by
  refine ⟨rfl, by decide, ?_, rfl, by decide, by decide, fun _ => by decide⟩
  intro e he
  simp only [right, List.mem_cons, List.not_mem_nil, or_false] at he
  rcases he with rfl | rfl <;> exact elem_ok _

/-- the invariant holds for the two-level tree, shown directly from the definitions -/
theorem arr4_inv : ArrInv T0 arr4 3 := by
  refine ⟨?_, ?_, ?_, rfl, by decide⟩
  · refine (treeInv_succ T0 0 true rootSlab).2 ⟨⟨rfl, rfl, by decide, by decide, by decide, ?_, ?_⟩,
      by decide, by simp, fun _ => by decide⟩
    · intro c hc
      simp only [rootSlab, List.mem_cons, List.not_mem_nil, or_false] at hc
      rcases hc with rfl | rfl
      · exact (treeInv_zero T0 false left).2 left_inv
      · exact (treeInv_zero T0 false right).2 right_inv
    · intro c hc
      simp only [rootSlab, List.mem_cons, List.not_mem_nil, or_false] at hc
      rcases hc with rfl | rfl <;> rfl
  · show LeafChain [left, right]
    exact ⟨rfl, rfl⟩
  · show IdsOk 1 3 [⟨1, 1⟩, ⟨1, 2⟩, ⟨1, 3⟩]
    exact ⟨by decide, by decide⟩

end Atree.Example
