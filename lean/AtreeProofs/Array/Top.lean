import AtreeProofs.Array.TreeOps
/-
  Top level: `Arr.splitRoot`, `Arr.promoteIfSingleChild` restore the root conditions;
  specifications of `Arr.insert / set / remove`.
-/
namespace Atree
open Gen ATree MetaSlab

variable {T : Nat}

/-! ### small facts -/

theorem isInlined_iff (d : Nat) (t : ATree d) (ty : Nat) :
    (⟨d, t, ty⟩ : Arr).isInlined = false ↔ NotInl d t := by
  cases d with
  | zero => exact Iff.rfl
  | succ d => exact ⟨fun _ => trivial, fun _ => rfl⟩

theorem Shape.notInl {top : Bool} : ∀ {d : Nat} {t : ATree d}, Shape T d top t → NotInl d t
  | 0, t, h => by
    revert h; refine forall_ofData ?_ t; intro s h
    exact ((shape_zero T top s).1 h).not_inl
  | _ + 1, _, _ => trivial

theorem arrInv_of_shape {d : Nat} {t : ATree d} {ty ctr : Nat} (hs : Shape T d true t)
    (hmax : (hdr d t).size ≤ maxThr T) (hk : TopKids d t)
    (hchain : LeafChain (Arr.leaves d t)) (hids : IdsOk (hdr d t).id.addr ctr (slabIds d t))
    (hcnt : (hdr d t).count < maxArrayElementCount + 1) : ArrInv T ⟨d, t, ty⟩ ctr :=
  ⟨((treeInv_iff T d true t).2 ⟨hs, hmax, by simp, fun _ => hk⟩).1, hchain, hids,
    (isInlined_iff d t ty).2 hs.notInl, hcnt⟩

theorem ArrInv.shape {d : Nat} {t : ATree d} {ty ctr : Nat} (h : ArrInv T ⟨d, t, ty⟩ ctr) :
    Shape T d true t := h.tree.shape ((isInlined_iff d t ty).1 h.standalone)

theorem ArrInv.notInl {d : Nat} {t : ATree d} {ty ctr : Nat} (h : ArrInv T ⟨d, t, ty⟩ ctr) :
    NotInl d t := (isInlined_iff d t ty).1 h.standalone

theorem repl_single_ids {d : Nat} {t t' : ATree d} {c c' : Nat} (h : Repl d [t] [t'] c c')
    (addr : Nat) (hids : IdsOk addr c (slabIds d t)) : IdsOk addr c' (slabIds d t') := by
  have := (h.ids addr (by simpa using hids)).1
  simpa using this

theorem repl_single_chain {d : Nat} {t t' : ATree d} {c c' : Nat} (h : Repl d [t] [t'] c c')
    (hc : LeafChain (Arr.leaves d t)) : LeafChain (Arr.leaves d t') := by
  have := h.chain
  simp only [List.flatMap_cons, List.flatMap_nil, List.append_nil] at this
  exact this.leafChain hc

/-! ### promoteIfSingleChild: unfolding -/

/-- the only child re-sized as a root slab (what `promoteChildAsNewRoot` does) -/
def adjProm : (d : Nat) → ATree d → ATree d
  | 0, (s : DataSlab) =>
    ofData { s with hdr := { s.hdr with size := s.hdr.size - arrayDataSlabPrefixSize + arrayRootDataSlabPrefixSize } }
  | _ + 1, m => m

theorem promote_zero (t : ATree 0) (ty : Nat) (c : Ctx) :
    Arr.promoteIfSingleChild ⟨0, t, ty⟩ c = (⟨0, t, ty⟩, c) := rfl

theorem promote_single (d : Nat) (m : MetaSlab (ATree d)) (ty : Nat) (c : Ctx) (h : Hdr) (child : ATree d)
    (hh : m.childHdrs = [h]) (hc : m.children = [child]) :
    Arr.promoteIfSingleChild ⟨d + 1, ofMeta m, ty⟩ c =
      (⟨d, setRoot d (setId d (adjProm d child) m.hdr.id) true, ty⟩,
        (c.emit (.store m.hdr.id)).emit (.remove h.id)) := by
  unfold Arr.promoteIfSingleChild ofMeta
  simp only [hh, hc]
  cases d with
  | zero => rfl
  | succ d => rfl

theorem promote_many (d : Nat) (m : MetaSlab (ATree d)) (ty : Nat) (c : Ctx)
    (hc : 2 ≤ m.children.length) :
    Arr.promoteIfSingleChild ⟨d + 1, ofMeta m, ty⟩ c = (⟨d + 1, ofMeta m, ty⟩, c) := by
  unfold Arr.promoteIfSingleChild ofMeta
  simp only
  split
  · rename_i h1 h2; rw [h2] at hc; simp at hc
  · rfl

/-! ### splitRoot -/

/-- the root slab re-sized as a non-root slab (what `splitRoot` does first) -/
def adjSplit : (d : Nat) → ATree d → ATree d
  | 0, (s : DataSlab) =>
    ofData { s with hdr := { s.hdr with size := s.hdr.size - arrayRootDataSlabPrefixSize + arrayDataSlabPrefixSize } }
  | _ + 1, m => m

/-- the new root index slab built by `splitRoot` -/
def mkRoot {d : Nat} (rootID : SlabID) (l r : ATree d) : MetaSlab (ATree d) :=
  { hdr := { id := rootID, count := (hdr d l).count + (hdr d r).count,
             size := arrayMetaDataSlabPrefixSize + arraySlabHeaderSize * 2 },
    childHdrs := [hdr d l, hdr d r], countSum := [(hdr d l).count, (hdr d l).count + (hdr d r).count],
    children := [l, r], root := true }

theorem splitRoot_eq (d : Nat) (t : ATree d) (ty : Nat) (c : Ctx) :
    Arr.splitRoot ⟨d, t, ty⟩ c =
      (ATree.split d (setId d (setRoot d (adjSplit d t) false) ⟨(hdr d t).id.addr, c.ctr + 1⟩)
          (c.alloc (hdr d t).id.addr).2) >>= fun (p : ATree d × ATree d × Ctx) =>
        pure (⟨d + 1, ofMeta (mkRoot (hdr d t).id p.1 p.2.1), ty⟩,
          ((p.2.2.emit (.store (hdr d p.1).id)).emit (.store (hdr d p.2.1).id)).emit (.store (hdr d t).id)) := by
  cases d with
  | zero => rfl
  | succ d => rfl

/-- facts about the old root slab right before it is split -/
structure OldRoot (T d : Nat) (t old : ATree d) (sid : SlabID) (c : Nat) : Prop where
  shape : Shape T d false old
  size_le : (hdr d old).size ≤ (hdr d t).size + 16
  size_ge : (hdr d t).size ≤ (hdr d old).size
  flat : flatten d old = flatten d t
  chain : LeafChain (Arr.leaves d t) → LeafChain (Arr.leaves d old)
  id_eq : (hdr d old).id = sid
  count_eq : (hdr d old).count = (hdr d t).count
  ids : slabIds d old = sid :: (slabIds d t).tail
  ids_t : slabIds d t = (hdr d t).id :: (slabIds d t).tail

theorem oldRoot_spec (hT : legalThreshold T = true) : ∀ (d : Nat) (t : ATree d) (sid : SlabID) (c : Nat),
    Shape T d true t → sid.addr = (hdr d t).id.addr →
    OldRoot T d t (setId d (setRoot d (adjSplit d t) false) sid) sid c
  | 0, t, sid, c => by
    refine forall_ofData ?_ t; intro s hs _
    have F := thrFacts hT
    have hs := (shape_zero T true s).1 hs
    have hsz := hs.size_eq
    rw [hs.prefix_true] at hsz
    show OldRoot T 0 (ofData s) (ofData { s with
      hdr := { s.hdr with size := s.hdr.size - arrayRootDataSlabPrefixSize + arrayDataSlabPrefixSize, id := sid },
      root := false }) sid c
    refine ⟨(shape_zero T false _).2 ⟨hs.count_eq, ?_, hs.elems_ok, rfl, hs.not_inl⟩, ?_, ?_, rfl, ?_, rfl,
      rfl, rfl, rfl⟩
    · simp only [DataSlab.prefixSize, hs.not_inl, Bool.false_eq_true, if_false]
      have := F.pfx; have := F.rpfx; omega
    · simp only [hdr_zero]; have := F.pfx; have := F.rpfx; omega
    · simp only [hdr_zero]; have := F.pfx; have := F.rpfx; omega
    · simp only [leaves_zero, LeafChain]; exact id
  | d + 1, t, sid, c => by
    refine forall_ofMeta ?_ t; intro m hs hsid
    have hs := (shape_succ T d true m).1 hs
    show OldRoot T (d + 1) (ofMeta m)
      (ofMeta { m with hdr := { m.hdr with id := sid }, root := false }) sid c
    refine ⟨(shape_succ T d false _).2 ⟨rfl, hs.hdrs_eq, hs.sums_eq, hs.count_eq, hs.size_eq, hs.kids_inv, ?_⟩,
      by simp, by simp, rfl, id, rfl, rfl, rfl, rfl⟩
    intro x hx
    rw [hs.kids_addr x hx]; simpa using hsid.symm

theorem splitRoot_spec (hT : legalThreshold T = true) (d : Nat) (t : ATree d) (ty : Nat) (c : Ctx)
    (hs : Shape T d true t) (hlo : maxThr T < (hdr d t).size)
    (hhi : (hdr d t).size ≤ maxThr T + maxInlineArr T)
    (hchain : LeafChain (Arr.leaves d t)) (hids : IdsOk (hdr d t).id.addr c.ctr (slabIds d t))
    (hcnt : (hdr d t).count < maxArrayElementCount + 1) :
    ∃ a2 c2, Arr.splitRoot ⟨d, t, ty⟩ c = .ok (a2, c2) ∧ ArrInv T a2 c2.ctr ∧
      a2.toList = flatten d t ∧ a2.rootID = (hdr d t).id ∧ a2.ty = ty ∧
      (∀ c', a2.promoteIfSingleChild c' = (a2, c')) := by
  have F := thrFacts hT
  have ho := oldRoot_spec hT d t ⟨(hdr d t).id.addr, c.ctr + 1⟩ c.ctr hs rfl
  obtain ⟨l, r, c2, hsp, hc2, hl, hr, hflat, hlid, hcounts, hrepl⟩ :=
    split_ok hT d _ (c.alloc (hdr d t).id.addr).2 ho.shape (by have := ho.size_ge; omega)
      (by have := ho.size_le; omega)
  simp only [Ctx.alloc_ctr] at hc2 hrepl
  have hroot_mem : (hdr d t).id ∈ slabIds d t := hdr_id_mem_slabIds d t
  have hroot := hids.2 _ hroot_mem
  -- IDs of the old root
  have hnd : (slabIds d t).Nodup := hids.1
  rw [ho.ids_t] at hnd
  have hidsold : IdsOk (hdr d t).id.addr (c.ctr + 1)
      ([setId d (setRoot d (adjSplit d t) false) ⟨(hdr d t).id.addr, c.ctr + 1⟩].flatMap (slabIds d)) := by
    simp only [List.flatMap_cons, List.flatMap_nil, List.append_nil, ho.ids]
    refine ⟨List.nodup_cons.2 ⟨?_, (List.nodup_cons.1 hnd).2⟩, ?_⟩
    · intro hmem
      have := (hids.2 _ (List.mem_of_mem_tail hmem)).2.2
      simp only at this; omega
    · intro id hid
      simp only [List.mem_cons] at hid
      rcases hid with rfl | hid
      · exact ⟨rfl, by simp, by simp⟩
      · have := hids.2 id (List.mem_of_mem_tail hid)
        exact ⟨this.1, this.2.1, by omega⟩
  obtain ⟨hidsnew, hmemnew⟩ := hrepl.ids _ hidsold
  have haddrs := hrepl.addr (hdr d t).id.addr (by
    intro x hx
    simp only [List.mem_singleton] at hx
    rw [hx, ho.id_eq])
  refine ⟨⟨d + 1, ofMeta (mkRoot (hdr d t).id l r), ty⟩,
    ((c2.emit (.store (hdr d l).id)).emit (.store (hdr d r).id)).emit (.store (hdr d t).id),
    ?_, ?_, ?_, rfl, rfl, ?_⟩
  · rw [splitRoot_eq, hsp]; rfl
  · refine ⟨?_, ?_, ?_, rfl, ?_⟩
    · rw [treeInv_succ]
      refine ⟨⟨rfl, rfl, ?_, ?_, ?_, ?_, ?_⟩, ?_, by simp, fun _ => by simp [mkRoot]⟩
      · simp [mkRoot, prefixSums]
      · simp [mkRoot, sumCounts]
      · simp [mkRoot]
      · intro x hx
        simp only [mkRoot, List.mem_cons, List.not_mem_nil, or_false] at hx
        rcases hx with rfl | rfl
        · exact hl
        · exact hr
      · intro x hx
        exact haddrs x hx
      · simp only [mkRoot, F.mpfx, F.hsz, F.maxE]; have := F.lo; omega
    · show LeafChain (Arr.leaves (d + 1) (ofMeta (mkRoot (hdr d t).id l r)))
      rw [leaves_succ]
      have := hrepl.chain
      simp only [List.flatMap_cons, List.flatMap_nil, List.append_nil] at this
      have h2 := this.leafChain (ho.chain hchain)
      simpa [mkRoot] using h2
    · show IdsOk (hdr d t).id.addr _ (slabIds (d + 1) (ofMeta (mkRoot (hdr d t).id l r)))
      rw [slabIds_succ]
      have hkids : (mkRoot (hdr d t).id l r).children = [l, r] := rfl
      have hid' : (mkRoot (hdr d t).id l r).hdr.id = (hdr d t).id := rfl
      rw [hkids, hid']
      simp only [Ctx.emit_ctr, hc2]
      refine ⟨List.nodup_cons.2 ⟨?_, hidsnew.1⟩, ?_⟩
      · intro hmem
        rcases hmemnew _ hmem with h1 | h1
        · simp only [List.flatMap_cons, List.flatMap_nil, List.append_nil, ho.ids, List.mem_cons] at h1
          rcases h1 with h1 | h1
          · have := hroot.2.2; rw [h1] at this; simp only at this; omega
          · exact (List.nodup_cons.1 hnd).1 h1
        · have := hroot.2.2; omega
      · intro id hid
        simp only [List.mem_cons] at hid
        rcases hid with rfl | hid
        · exact ⟨rfl, hroot.2.1, by have := hroot.2.2; omega⟩
        · have := hidsnew.2 id hid
          rw [hc2] at this; exact this
    · show (mkRoot (hdr d t).id l r).hdr.count < _
      simp only [mkRoot, hcounts, ho.count_eq]; exact hcnt
  · show flatten (d + 1) (ofMeta (mkRoot (hdr d t).id l r)) = _
    rw [flatten_succ]
    simp only [mkRoot, List.flatMap_cons, List.flatMap_nil, List.append_nil, hflat, ho.flat]
  · intro c'
    exact promote_many d _ ty c' (by simp [mkRoot])

end Atree

namespace Atree
open Gen ATree MetaSlab

variable {T : Nat}

/-! ### promoteIfSingleChild -/

/-- facts about the promoted child -/
structure NewRoot (T d : Nat) (child new : ATree d) (rid : SlabID) : Prop where
  shape : Shape T d true new
  size_le : (hdr d new).size ≤ maxThr T
  kids : TopKids d new
  flat : flatten d new = flatten d child
  chain : LeafChain (Arr.leaves d child) → LeafChain (Arr.leaves d new)
  id_eq : (hdr d new).id = rid
  count_eq : (hdr d new).count = (hdr d child).count
  ids : slabIds d new = rid :: (slabIds d child).tail
  ids_c : slabIds d child = (hdr d child).id :: (slabIds d child).tail

theorem newRoot_spec (hT : legalThreshold T = true) : ∀ (d : Nat) (child : ATree d) (rid : SlabID),
    TreeInv T d false child → (hdr d child).id.addr = rid.addr →
    NewRoot T d child (setRoot d (setId d (adjProm d child) rid) true) rid
  | 0, t, rid => by
    refine forall_ofData ?_ t; intro s hinv _
    have F := thrFacts hT
    obtain ⟨hs, h1, h2⟩ := (dataInv_false_iff T s).1 ((treeInv_zero T false s).1 hinv)
    have hsz := hs.size_eq
    rw [hs.prefix_false] at hsz
    show NewRoot T 0 (ofData s) (ofData { s with
      hdr := { s.hdr with size := s.hdr.size - arrayDataSlabPrefixSize + arrayRootDataSlabPrefixSize, id := rid },
      root := true }) rid
    refine ⟨(shape_zero T true _).2 ⟨hs.count_eq, ?_, hs.elems_ok, rfl, hs.not_inl⟩, ?_, trivial, rfl, ?_, rfl,
      rfl, rfl, rfl⟩
    · simp only [DataSlab.prefixSize, hs.not_inl, Bool.false_eq_true, if_false, if_true]
      have := F.pfx; have := F.rpfx; omega
    · simp only [hdr_zero]; have := F.pfx; have := F.rpfx; omega
    · simp only [leaves_zero, LeafChain]; exact id
  | d + 1, t, rid => by
    refine forall_ofMeta ?_ t; intro m hinv haddr
    have hk := two_kids hT hinv
    obtain ⟨hs, h1, h2, _⟩ := (treeInv_succ T d false m).1 hinv
    show NewRoot T (d + 1) (ofMeta m)
      (ofMeta { m with hdr := { m.hdr with id := rid }, root := true }) rid
    refine ⟨(shape_succ T d true _).2 ⟨rfl, hs.hdrs_eq, hs.sums_eq, hs.count_eq, hs.size_eq, hs.kids_inv, ?_⟩,
      h1, hk, rfl, id, rfl, rfl, rfl, rfl⟩
    intro x hx
    rw [hs.kids_addr x hx]; simpa using haddr

theorem promote_spec_single (hT : legalThreshold T = true) (d : Nat) (m : MetaSlab (ATree d))
    (ty : Nat) (c : Ctx) (hs : MShape T d true m) (child : ATree d) (hc : m.children = [child])
    (hchain : LeafChain (Arr.leaves (d + 1) (ofMeta m)))
    (hids : IdsOk m.hdr.id.addr c.ctr (slabIds (d + 1) (ofMeta m)))
    (hcnt : m.hdr.count < maxArrayElementCount + 1) :
    ArrInv T (Arr.promoteIfSingleChild ⟨d + 1, ofMeta m, ty⟩ c).1
        (Arr.promoteIfSingleChild ⟨d + 1, ofMeta m, ty⟩ c).2.ctr ∧
      (Arr.promoteIfSingleChild ⟨d + 1, ofMeta m, ty⟩ c).1.toList = flatten (d + 1) (ofMeta m) ∧
      (Arr.promoteIfSingleChild ⟨d + 1, ofMeta m, ty⟩ c).1.rootID = m.hdr.id ∧
      (Arr.promoteIfSingleChild ⟨d + 1, ofMeta m, ty⟩ c).1.ty = ty := by
  have hh : m.childHdrs = [hdr d child] := by rw [hs.hdrs_eq, hc]; rfl
  have hci : TreeInv T d false child := hs.kids_inv child (by rw [hc]; simp)
  have hn := newRoot_spec hT d child m.hdr.id hci (hs.kids_addr child (by rw [hc]; simp))
  rw [promote_single d m ty c _ child hh hc]
  simp only [Ctx.emit_ctr]
  refine ⟨?_, ?_, hn.id_eq, trivial⟩
  · refine arrInv_of_shape hn.shape hn.size_le hn.kids ?_ ?_ ?_
    · apply hn.chain
      simpa [hc] using hchain
    · rw [hn.id_eq, hn.ids]
      rw [slabIds_succ, hc] at hids
      simp only [List.flatMap_cons, List.flatMap_nil, List.append_nil] at hids
      rw [hn.ids_c] at hids
      obtain ⟨hnd, hall⟩ := hids
      refine ⟨?_, fun id hid => hall id ?_⟩
      · have := List.nodup_cons.1 hnd
        exact List.nodup_cons.2 ⟨fun h => this.1 (List.mem_cons_of_mem _ h), (List.nodup_cons.1 this.2).2⟩
      · simp only [List.mem_cons] at hid ⊢
        rcases hid with h | h
        · exact Or.inl h
        · exact Or.inr (Or.inr h)
    · rw [hn.count_eq]
      have := hs.count_eq
      rw [hh] at this
      simp only [sumCounts_cons, sumCounts_nil] at this
      omega
  · show flatten d _ = _
    rw [hn.flat, flatten_succ, hc]; simp

/-- after a tree-level operation that left the root within `maxThr`: promotion restores `ArrInv` -/
theorem promote_spec (hT : legalThreshold T = true) : ∀ (d : Nat) (t : ATree d) (ty : Nat) (c : Ctx),
    Shape T d true t → (hdr d t).size ≤ maxThr T → (d ≠ 0 → 26 ≤ (hdr d t).size) →
    LeafChain (Arr.leaves d t) → IdsOk (hdr d t).id.addr c.ctr (slabIds d t) →
    (hdr d t).count < maxArrayElementCount + 1 →
    ArrInv T (Arr.promoteIfSingleChild ⟨d, t, ty⟩ c).1 (Arr.promoteIfSingleChild ⟨d, t, ty⟩ c).2.ctr ∧
      (Arr.promoteIfSingleChild ⟨d, t, ty⟩ c).1.toList = flatten d t ∧
      (Arr.promoteIfSingleChild ⟨d, t, ty⟩ c).1.rootID = (hdr d t).id ∧
      (Arr.promoteIfSingleChild ⟨d, t, ty⟩ c).1.ty = ty
  | 0, t, ty, c => by
    intro hs hmax _ hchain hids hcnt
    rw [promote_zero]
    exact ⟨arrInv_of_shape hs hmax trivial hchain hids hcnt, rfl, rfl, rfl⟩
  | d + 1, t, ty, c => by
    refine forall_ofMeta ?_ t; intro m hs hmax hk hchain hids hcnt
    have hms := (shape_succ T d true m).1 hs
    have hsz := hms.kids_of_size
    have hk := hk (by omega)
    simp only [hdr_succ] at hk hmax hids hcnt
    match hc : m.children with
    | [] => rw [hc] at hsz; simp at hsz; omega
    | [child] => exact promote_spec_single hT d m ty c hms child hc hchain hids hcnt
    | _ :: _ :: _ =>
      have h2 : 2 ≤ m.children.length := by rw [hc]; simp
      rw [promote_many d m ty c h2]
      exact ⟨arrInv_of_shape hs hmax h2 hchain hids hcnt, rfl, rfl, rfl⟩

theorem promote_ctr (a : Arr) (c : Ctx) : (a.promoteIfSingleChild c).2.ctr = c.ctr := by
  obtain ⟨d, t, ty⟩ := a
  cases d with
  | zero => rfl
  | succ d =>
    unfold Arr.promoteIfSingleChild
    simp only
    split <;> rfl

end Atree

namespace Atree
open Gen ATree MetaSlab

variable {T : Nat}

/-! ### out-of-range requests at tree level -/

theorem insert_err_gen : ∀ (d : Nat) (t : ATree d) (top : Bool) (i : Nat) (v : Elem) (c : Ctx),
    Shape T d top t → (flatten d t).length < i →
    ATree.insert T d t i v c = .error .indexOutOfBounds
  | 0, t, top, i, v, c => by
    refine forall_ofData ?_ t; intro s _ hi
    exact insert_zero_err s i v c _ (DataSlab.insert_err T s i v c hi)
  | d + 1, t, top, i, v, c => by
    refine forall_ofMeta ?_ t; intro m hs hi
    have hs := (shape_succ T d top m).1 hs
    simp only [flatten_succ, ← hs.flat_length] at hi
    exact insert_succ_err m i v c hi

theorem set_err_gen : ∀ (d : Nat) (t : ATree d) (top : Bool) (i : Nat) (v : Elem) (c : Ctx),
    Shape T d top t → (flatten d t).length ≤ i →
    ATree.set T d t i v c = .error .indexOutOfBounds
  | 0, t, top, i, v, c => by
    refine forall_ofData ?_ t; intro s _ hi
    exact set_zero_err s i v c _ (DataSlab.set_err T s i v c hi)
  | d + 1, t, top, i, v, c => by
    refine forall_ofMeta ?_ t; intro m hs hi
    have hs := (shape_succ T d top m).1 hs
    simp only [flatten_succ, ← hs.flat_length] at hi
    exact set_succ_err m i v c _ (route_err m i hi)

theorem remove_err_gen : ∀ (d : Nat) (t : ATree d) (top : Bool) (i : Nat) (c : Ctx),
    Shape T d top t → (flatten d t).length ≤ i →
    ATree.remove T d t i c = .error .indexOutOfBounds
  | 0, t, top, i, c => by
    refine forall_ofData ?_ t; intro s _ hi
    exact remove_zero_err s i c _ (DataSlab.remove_err s i c hi)
  | d + 1, t, top, i, c => by
    refine forall_ofMeta ?_ t; intro m hs hi
    have hs := (shape_succ T d top m).1 hs
    simp only [flatten_succ, ← hs.flat_length] at hi
    exact remove_succ_err m i c hi

/-! ### Arr.insert -/

theorem arr_insert_ok (hT : legalThreshold T = true) (a : Arr) (c : Ctx) (i : Nat) (v : Elem)
    (hv : ValueOk v) (h : ArrInv T a c.ctr) (hcount : a.count < maxArrayElementCount)
    (hi : i ≤ a.toList.length) :
    ∃ a' c', a.insert T i v c = .ok (a', c') ∧ ArrInv T a' c'.ctr ∧
      a'.toList = a.toList.insertIdx i (toStorable T a.addr v c).1 ∧
      a'.rootID = a.rootID ∧ a'.ty = a.ty := by
  obtain ⟨d, t, ty⟩ := a
  have hcount : (hdr d t).count < maxArrayElementCount := hcount
  have hi : i ≤ (flatten d t).length := hi
  obtain ⟨t', c1, hins, hstep, hflat, hcnt, hsz1, hsz2⟩ :=
    insert_gen hT d t true i v c h.tree h.notInl hv hi
  have hne : ¬ (hdr d t).count = maxArrayElementCount := by omega
  have hchain := repl_single_chain hstep.repl h.chain
  have hids : IdsOk (hdr d t').id.addr c1.ctr (slabIds d t') := by
    rw [hstep.id_eq]; exact repl_single_ids hstep.repl _ h.ids
  have hcnt' : (hdr d t').count < maxArrayElementCount + 1 := by omega
  have hmax : (hdr d t).size ≤ maxThr T := h.tree.le_max
  have hunf : Arr.insert T ⟨d, t, ty⟩ i v c =
      if ATree.isFull T d t' = true then Arr.splitRoot ⟨d, t', ty⟩ c1 else .ok (⟨d, t', ty⟩, c1) := by
    unfold Arr.insert
    show (if (hdr d t).count = maxArrayElementCount then _ else _) = _
    rw [if_neg hne]
    show (ATree.insert T d t i v c >>= _) = _
    rw [hins]; rfl
  rw [hunf]
  by_cases hfull : ATree.isFull T d t' = true
  · rw [if_pos hfull]
    have hlo := (isFull_iff T d t').1 hfull
    obtain ⟨a2, c2, hsr, hinv2, hl2, hid2, hty2, _⟩ :=
      splitRoot_spec hT d t' ty c1 hstep.shape hlo (by omega) hchain hids hcnt'
    exact ⟨a2, c2, hsr, hinv2, by rw [hl2, hflat]; rfl, by rw [hid2, hstep.id_eq]; rfl, hty2⟩
  · rw [if_neg hfull]
    have hnf : ¬ maxThr T < (hdr d t').size := fun hh => hfull ((isFull_iff T d t').2 hh)
    refine ⟨⟨d, t', ty⟩, c1, rfl, ?_, by show flatten d t' = _; rw [hflat]; rfl,
      by show (hdr d t').id = _; rw [hstep.id_eq]; rfl, rfl⟩
    refine arrInv_of_shape hstep.shape (by omega) ?_ hchain hids hcnt'
    -- the number of children of a top index slab did not shrink
    have hk := ((treeInv_iff T d true t).1 ⟨h.tree, h.notInl⟩).2.2.2 rfl
    revert hk hsz1
    have hsh' := hstep.shape
    have hsh := h.shape
    revert hsh hsh'
    cases d with
    | zero => intros; trivial
    | succ d =>
      refine forall_ofMeta ?_ t; intro m
      refine forall_ofMeta ?_ t'; intro m'
      intro hsh' hsh hsz1 hk
      have e1 := ((shape_succ T d true m).1 hsh).kids_of_size
      have e2 := ((shape_succ T d true m').1 hsh').kids_of_size
      simp only [topKids_succ, hdr_succ] at hk hsz1 ⊢
      omega

theorem arr_insert_err (a : Arr) (c : Ctx) (i : Nat) (v : Elem)
    (h : ArrInv T a c.ctr) (hcount : a.count ≠ maxArrayElementCount) (hi : a.toList.length < i) :
    a.insert T i v c = .error .indexOutOfBounds := by
  obtain ⟨d, t, ty⟩ := a
  have herr := insert_err_gen d t true i v c h.shape hi
  have hcount : ¬ (hdr d t).count = maxArrayElementCount := hcount
  unfold Arr.insert
  show (if (hdr d t).count = maxArrayElementCount then _ else _) = _
  rw [if_neg hcount]
  show (ATree.insert T d t i v c >>= _) = _
  rw [herr]; rfl

end Atree

namespace Atree
open Gen ATree MetaSlab

variable {T : Nat}

/-- a top index slab has at least two children, i.e. at least 40 bytes -/
theorem top_size_ge {d : Nat} {t : ATree d} (h : TreeInv T d true t) (hd : d ≠ 0) :
    40 ≤ (hdr d t).size := by
  cases d with
  | zero => exact absurd rfl hd
  | succ d =>
    revert h; refine forall_ofMeta ?_ t; intro m h
    obtain ⟨hs, _, _, h2⟩ := (treeInv_succ T d true m).1 h
    have := hs.kids_of_size
    have := h2 rfl
    simp only [hdr_succ]; omega

/-! ### Arr.set -/

theorem arr_set_ok (hT : legalThreshold T = true) (a : Arr) (c : Ctx) (i : Nat) (v : Elem)
    (hv : ValueOk v) (h : ArrInv T a c.ctr) (hi : i < a.toList.length) :
    ∃ a' c', a.set T i v c = .ok (a.toList.getD i default, a', c') ∧ ArrInv T a' c'.ctr ∧
      a'.toList = a.toList.set i (toStorable T a.addr v c).1 ∧
      a'.rootID = a.rootID ∧ a'.ty = a.ty := by
  obtain ⟨d, t, ty⟩ := a
  have hi : i < (flatten d t).length := hi
  obtain ⟨t', c1, hset, hstep, hflat, hcnt, hsz1, hsz2, hsz3⟩ :=
    set_gen hT d t true i v c h.tree h.notInl hv hi
  have hchain := repl_single_chain hstep.repl h.chain
  have hids : IdsOk (hdr d t').id.addr c1.ctr (slabIds d t') := by
    rw [hstep.id_eq]; exact repl_single_ids hstep.repl _ h.ids
  have hcnt' : (hdr d t').count < maxArrayElementCount + 1 := by rw [hcnt]; exact h.count_lt
  have hmax : (hdr d t).size ≤ maxThr T := h.tree.le_max
  have h40 : d ≠ 0 → 40 ≤ (hdr d t).size := fun hd => top_size_ge h.tree hd
  show ∃ a' c', Arr.set T ⟨d, t, ty⟩ i v c = .ok ((flatten d t).getD i default, a', c') ∧ _
  by_cases hfull : ATree.isFull T d t' = true
  · have hunf : Arr.set T ⟨d, t, ty⟩ i v c =
        Arr.splitRoot ⟨d, t', ty⟩ c1 >>= fun p =>
          pure ((flatten d t).getD i default, (p.1.promoteIfSingleChild p.2).1,
            (p.1.promoteIfSingleChild p.2).2) := by
      unfold Arr.set
      show (ATree.set T d t i v c >>= _) = _
      rw [hset]
      show (if ATree.isFull T d t' = true then _ else _) = _
      rw [if_pos hfull]
    rw [hunf]
    have hlo := (isFull_iff T d t').1 hfull
    obtain ⟨a2, c2, hsr, hinv2, hl2, hid2, hty2, hprom⟩ :=
      splitRoot_spec hT d t' ty c1 hstep.shape hlo (by omega) hchain hids hcnt'
    refine ⟨a2, c2, ?_, hinv2, by rw [hl2, hflat]; rfl, by rw [hid2, hstep.id_eq]; rfl, hty2⟩
    rw [hsr]
    show Except.ok (_, (a2.promoteIfSingleChild c2).1, (a2.promoteIfSingleChild c2).2) = _
    rw [hprom c2]
  · have hunf : Arr.set T ⟨d, t, ty⟩ i v c =
        .ok ((flatten d t).getD i default, ((⟨d, t', ty⟩ : Arr).promoteIfSingleChild c1).1,
            ((⟨d, t', ty⟩ : Arr).promoteIfSingleChild c1).2) := by
      unfold Arr.set
      show (ATree.set T d t i v c >>= _) = _
      rw [hset]
      show (if ATree.isFull T d t' = true then _ else _) = _
      rw [if_neg hfull]; rfl
    rw [hunf]
    have hnf : ¬ maxThr T < (hdr d t').size := fun hh => hfull ((isFull_iff T d t').2 hh)
    obtain ⟨p1, p2, p3, p4⟩ := promote_spec hT d t' ty c1 hstep.shape (by omega)
      (fun hd => by have := h40 hd; have := hsz3 hd; omega) hchain hids hcnt'
    exact ⟨_, _, rfl, p1, by rw [p2, hflat]; rfl, by rw [p3, hstep.id_eq]; rfl, p4⟩

theorem arr_set_err (a : Arr) (c : Ctx) (i : Nat) (v : Elem)
    (h : ArrInv T a c.ctr) (hi : a.toList.length ≤ i) :
    a.set T i v c = .error .indexOutOfBounds := by
  obtain ⟨d, t, ty⟩ := a
  have herr := set_err_gen d t true i v c h.shape hi
  unfold Arr.set
  show (ATree.set T d t i v c >>= _) = _
  rw [herr]; rfl

/-! ### Arr.remove -/

theorem arr_remove_ok (hT : legalThreshold T = true) (a : Arr) (c : Ctx) (i : Nat)
    (h : ArrInv T a c.ctr) (hi : i < a.toList.length) :
    ∃ a' c', a.remove T i c = .ok (a.toList.getD i default, a', c') ∧ ArrInv T a' c'.ctr ∧
      a'.toList = a.toList.eraseIdx i ∧ a'.rootID = a.rootID ∧ a'.ty = a.ty := by
  obtain ⟨d, t, ty⟩ := a
  have hi : i < (flatten d t).length := hi
  obtain ⟨t', c1, hrem, hstep, hflat, hcnt, hsz1, hsz2, hsz3⟩ :=
    remove_gen hT d t true i c h.tree h.notInl hi
  have hchain := repl_single_chain hstep.repl h.chain
  have hids : IdsOk (hdr d t').id.addr c1.ctr (slabIds d t') := by
    rw [hstep.id_eq]; exact repl_single_ids hstep.repl _ h.ids
  have hcnt0 : (hdr d t).count < maxArrayElementCount + 1 := h.count_lt
  have hcnt' : (hdr d t').count < maxArrayElementCount + 1 := by omega
  have hmax : (hdr d t).size ≤ maxThr T := h.tree.le_max
  have hunf : Arr.remove T ⟨d, t, ty⟩ i c =
      .ok ((flatten d t).getD i default, ((⟨d, t', ty⟩ : Arr).promoteIfSingleChild c1).1,
          ((⟨d, t', ty⟩ : Arr).promoteIfSingleChild c1).2) := by
    unfold Arr.remove
    show (ATree.remove T d t i c >>= _) = _
    rw [hrem]; rfl
  have h40 : d ≠ 0 → 40 ≤ (hdr d t).size := fun hd => top_size_ge h.tree hd
  obtain ⟨p1, p2, p3, p4⟩ := promote_spec hT d t' ty c1 hstep.shape (by omega)
    (fun hd => by have := h40 hd; have := hsz3 hd; omega) hchain hids hcnt'
  exact ⟨_, _, hunf, p1, by rw [p2, hflat]; rfl, by rw [p3, hstep.id_eq]; rfl, p4⟩

theorem arr_remove_err (a : Arr) (c : Ctx) (i : Nat)
    (h : ArrInv T a c.ctr) (hi : a.toList.length ≤ i) :
    a.remove T i c = .error .indexOutOfBounds := by
  obtain ⟨d, t, ty⟩ := a
  have herr := remove_err_gen d t true i c h.shape hi
  unfold Arr.remove
  show (ATree.remove T d t i c >>= _) = _
  rw [herr]; rfl

end Atree
