import AtreeProofs.Array.Uniform
/-
  The parent's repair steps: `splitChildSlab`, `rebalanceChildren`, `mergeChildren`,
  `mergeOrRebalanceChildSlab` — header / cumulative-count bookkeeping and their effect on the
  list of children.
-/
namespace Atree
open Gen ATree MetaSlab

variable {T d : Nat}

/-- the copies of the children's headers kept by an index slab agree with the children -/
structure Book (m : MetaSlab (ATree d)) : Prop where
  hdrs_eq : m.childHdrs = m.children.map (hdr d)
  sums_eq : m.countSum = prefixSums m.childHdrs 0

theorem prefixSums_mid (HA HB : List Hdr) (h : Hdr) :
    prefixSums (HA ++ h :: HB) 0 =
      prefixSums HA 0 ++ (sumCounts HA + h.count) :: prefixSums HB (sumCounts HA + h.count) := by
  rw [prefixSums_append, prefixSums_cons, Nat.zero_add]

theorem prefixSums_mid2 (HA HB : List Hdr) (h1 h2 : Hdr) :
    prefixSums (HA ++ h1 :: h2 :: HB) 0 =
      prefixSums HA 0 ++ (sumCounts HA + h1.count) :: (sumCounts HA + h1.count + h2.count) ::
        prefixSums HB (sumCounts HA + h1.count + h2.count) := by
  rw [prefixSums_append, prefixSums_cons, prefixSums_cons, Nat.zero_add]

/-! ### splitChildSlab -/

theorem splitChildSlab_spec (m1 : MetaSlab (ATree d)) (A B : List (ATree d)) (child' l r : ATree d)
    (k : Nat) (c c2 : Ctx) (hb : Book m1) (hch : m1.children = A ++ child' :: B) (hk : A.length = k)
    (hsplit : ATree.split d child' c = .ok (l, r, c2))
    (hcnt : (hdr d l).count + (hdr d r).count = (hdr d child').count) :
    ∃ m' c', m1.splitChildSlab child' k c = .ok (m', c') ∧ c'.ctr = c2.ctr ∧ Book m' ∧
      m'.children = A ++ l :: r :: B ∧ m'.hdr.id = m1.hdr.id ∧ m'.hdr.count = m1.hdr.count ∧
      m'.hdr.size = m1.hdr.size + arraySlabHeaderSize ∧ m'.root = m1.root := by
  have hh : m1.childHdrs = A.map (hdr d) ++ hdr d child' :: B.map (hdr d) := by
    rw [hb.hdrs_eq, hch]; simp
  have hkh : (A.map (hdr d)).length = k := by simp [hk]
  have hcs : m1.countSum = prefixSums (A.map (hdr d)) 0 ++
      (sumCounts (A.map (hdr d)) + (hdr d child').count) ::
        prefixSums (B.map (hdr d)) (sumCounts (A.map (hdr d)) + (hdr d child').count) := by
    rw [hb.sums_eq, hh, prefixSums_mid]
  have hkc : (prefixSums (A.map (hdr d)) 0).length = k := by simp [prefixSums_length, hk]
  unfold splitChildSlab
  simp only [hsplit, bind, Except.bind, pure, Except.pure]
  refine ⟨_, _, rfl, rfl, ⟨?_, ?_⟩, ?_, rfl, rfl, rfl, rfl⟩
  · simp only [hh, hch, set_mid hkh, set_mid hk, insertIdx_mid hkh, insertIdx_mid hk]
    simp
  · simp only [hh, hcs, set_mid hkh, set_mid hkc, insertIdx_mid hkh, insertIdx_mid hkc, getD_mid hkc,
      prefixSums_mid2]
    have e1 : sumCounts (A.map (hdr d)) + (hdr d child').count - (hdr d child').count
        = sumCounts (A.map (hdr d)) := by omega
    rw [e1, Nat.add_assoc, hcnt]
  · simp only [hch, set_mid hk, insertIdx_mid hk]

/-! ### rebalanceChildren -/

theorem rebalanceChildren_spec (m1 : MetaSlab (ATree d)) (A B : List (ATree d)) (l r l' r' : ATree d)
    (li ri : Nat) (flag : Bool) (c : Ctx) (hb : Book m1) (hch : m1.children = A ++ l :: r :: B)
    (hli : A.length = li) (hri : ri = li + 1)
    (hp : (if flag = true then ATree.borrowFromRight T d l r else ATree.lendToRight T d l r) = (l', r'))
    (hcnt : (hdr d l').count + (hdr d r').count = (hdr d l).count + (hdr d r).count) :
    (rebalanceChildren T m1 l r li ri flag c).2.ctr = c.ctr ∧
      Book (rebalanceChildren T m1 l r li ri flag c).1 ∧
      (rebalanceChildren T m1 l r li ri flag c).1.children = A ++ l' :: r' :: B ∧
      (rebalanceChildren T m1 l r li ri flag c).1.hdr = m1.hdr ∧
      (rebalanceChildren T m1 l r li ri flag c).1.root = m1.root := by
  subst hri
  have hh : m1.childHdrs = A.map (hdr d) ++ hdr d l :: hdr d r :: B.map (hdr d) := by
    rw [hb.hdrs_eq, hch]; simp
  have hkh : (A.map (hdr d)).length = li := by simp [hli]
  have hcs : m1.countSum = prefixSums (A.map (hdr d)) 0 ++
      (sumCounts (A.map (hdr d)) + (hdr d l).count) ::
      (sumCounts (A.map (hdr d)) + (hdr d l).count + (hdr d r).count) ::
        prefixSums (B.map (hdr d)) (sumCounts (A.map (hdr d)) + (hdr d l).count + (hdr d r).count) := by
    rw [hb.sums_eq, hh, prefixSums_mid2]
  have hkc : (prefixSums (A.map (hdr d)) 0).length = li := by simp [prefixSums_length, hli]
  have hA1 : ∀ (x y : ATree d) (R : List (ATree d)), A ++ x :: y :: R = (A ++ [x]) ++ y :: R := by simp
  have hA1l : (A ++ [l']).length = li + 1 := by simp [hli]
  have hH1 : ∀ (x y : Hdr) (R : List Hdr), A.map (hdr d) ++ x :: y :: R = (A.map (hdr d) ++ [x]) ++ y :: R := by simp
  have hH1l : ∀ x : Hdr, (A.map (hdr d) ++ [x]).length = li + 1 := by simp [hli]
  unfold rebalanceChildren
  simp only [hp]
  refine ⟨(by first | rfl | trivial), ⟨?_, ?_⟩, ?_, (by first | rfl | trivial), (by first | rfl | trivial)⟩
  · simp only [hh, hch, set_mid hkh, set_mid hli]
    rw [hH1, set_mid (hH1l _), hA1, set_mid hA1l]
    simp
  · simp only [hh, hcs, set_mid hkh, set_mid hkc, getD_mid hkc]
    rw [hH1, set_mid (hH1l _)]
    simp only [List.append_assoc, List.singleton_append, prefixSums_mid2]
    have e1 : sumCounts (A.map (hdr d)) + (hdr d l).count - (hdr d l).count
        = sumCounts (A.map (hdr d)) := by omega
    rw [e1, Nat.add_assoc _ (hdr d l').count, hcnt, ← Nat.add_assoc]
  · simp only [hch, set_mid hli]
    rw [hA1, set_mid hA1l]
    simp

/-! ### mergeChildren -/

theorem mergeChildren_spec (m1 : MetaSlab (ATree d)) (A B : List (ATree d)) (l r : ATree d)
    (li ri : Nat) (c : Ctx) (hb : Book m1) (hch : m1.children = A ++ l :: r :: B)
    (hli : A.length = li) (hri : ri = li + 1)
    (hcnt : (hdr d (ATree.merge d l r)).count = (hdr d l).count + (hdr d r).count) :
    (mergeChildren m1 l r li ri c).2.ctr = c.ctr ∧
      Book (mergeChildren m1 l r li ri c).1 ∧
      (mergeChildren m1 l r li ri c).1.children = A ++ ATree.merge d l r :: B ∧
      (mergeChildren m1 l r li ri c).1.hdr.id = m1.hdr.id ∧
      (mergeChildren m1 l r li ri c).1.hdr.count = m1.hdr.count ∧
      (mergeChildren m1 l r li ri c).1.hdr.size = m1.hdr.size - arraySlabHeaderSize ∧
      (mergeChildren m1 l r li ri c).1.root = m1.root := by
  subst hri
  have hh : m1.childHdrs = A.map (hdr d) ++ hdr d l :: hdr d r :: B.map (hdr d) := by
    rw [hb.hdrs_eq, hch]; simp
  have hkh : (A.map (hdr d)).length = li := by simp [hli]
  have hcs : m1.countSum = prefixSums (A.map (hdr d)) 0 ++
      (sumCounts (A.map (hdr d)) + (hdr d l).count) ::
      (sumCounts (A.map (hdr d)) + (hdr d l).count + (hdr d r).count) ::
        prefixSums (B.map (hdr d)) (sumCounts (A.map (hdr d)) + (hdr d l).count + (hdr d r).count) := by
    rw [hb.sums_eq, hh, prefixSums_mid2]
  have hkc : (prefixSums (A.map (hdr d)) 0).length = li := by simp [prefixSums_length, hli]
  unfold mergeChildren
  simp only
  refine ⟨(by first | rfl | trivial), ⟨?_, ?_⟩, ?_, (by first | rfl | trivial), (by first | rfl | trivial), (by first | rfl | trivial), (by first | rfl | trivial)⟩
  · simp only [hh, hch, set_mid hkh, set_mid hli, eraseIdx_mid_succ hkh, eraseIdx_mid_succ hli]
    simp
  · simp only [hh, hcs, set_mid hkh, set_mid hkc, getD_mid_succ hkc, eraseIdx_mid_succ hkh,
      eraseIdx_mid_succ hkc, prefixSums_mid, hcnt, Nat.add_assoc]
  · simp only [hch, set_mid hli, eraseIdx_mid_succ hli]

end Atree

namespace Atree
open Gen ATree MetaSlab

variable {T d : Nat}

/-- Outcome of the parent's repair step, at the level of the whole list of children. -/
structure Tail (T d : Nat) (m1 m2 : MetaSlab (ATree d)) (c1 c2 : Nat) : Prop where
  kids : ∀ t ∈ m2.children, TreeInv T d false t
  flat : m2.children.flatMap (flatten d) = m1.children.flatMap (flatten d)
  counts : sumCounts (m2.children.map (hdr d)) = sumCounts (m1.children.map (hdr d))
  repl : Repl d m1.children m2.children c1 c2
  book : Book m2
  id_eq : m2.hdr.id = m1.hdr.id
  count_eq : m2.hdr.count = m1.hdr.count
  root_eq : m2.root = m1.root
  size_eq : m2.hdr.size + 14 * m1.children.length = m1.hdr.size + 14 * m2.children.length
  len_le : m1.children.length ≤ m2.children.length + 1
  len_ge : m2.children.length ≤ m1.children.length + 1

theorem Tail.of_local {m1 m2 : MetaSlab (ATree d)} {A X X' B : List (ATree d)} {c1 c2 : Nat}
    (h1 : m1.children = A ++ X ++ B) (h2 : m2.children = A ++ X' ++ B)
    (hA : ∀ t ∈ A, TreeInv T d false t) (hB : ∀ t ∈ B, TreeInv T d false t)
    (hX' : ∀ t ∈ X', TreeInv T d false t)
    (hflat : X'.flatMap (flatten d) = X.flatMap (flatten d))
    (hcounts : sumCounts (X'.map (hdr d)) = sumCounts (X.map (hdr d)))
    (hrepl : Repl d X X' c1 c2) (hbook : Book m2) (hid : m2.hdr.id = m1.hdr.id)
    (hcount : m2.hdr.count = m1.hdr.count) (hroot : m2.root = m1.root)
    (hsize : m2.hdr.size + 14 * X.length = m1.hdr.size + 14 * X'.length)
    (hl1 : X.length ≤ X'.length + 1) (hl2 : X'.length ≤ X.length + 1) : Tail T d m1 m2 c1 c2 := by
  refine ⟨?_, ?_, ?_, ?_, hbook, hid, hcount, hroot, ?_, ?_, ?_⟩
  · intro t ht
    rw [h2] at ht
    simp only [List.mem_append] at ht
    rcases ht with (ht | ht) | ht
    · exact hA t ht
    · exact hX' t ht
    · exact hB t ht
  · rw [h1, h2]; simp only [List.flatMap_append, hflat]
  · rw [h1, h2]; simp only [List.map_append, sumCounts_append, hcounts]
  · rw [h1, h2]; exact hrepl.ctx A B
  · rw [h1, h2]; simp only [List.length_append]; omega
  · rw [h1, h2]; simp only [List.length_append]; omega
  · rw [h1, h2]; simp only [List.length_append]; omega

/-- no repair needed -/
theorem Tail.refl {m1 : MetaSlab (ATree d)} (c : Nat) (hk : ∀ t ∈ m1.children, TreeInv T d false t)
    (hb : Book m1) : Tail T d m1 m1 c c :=
  ⟨hk, rfl, rfl, Repl.refl _ _, hb, rfl, rfl, rfl, rfl, Nat.le_succ _, Nat.le_succ _⟩

/-- repair by splitting the child -/
theorem tail_split (hT : legalThreshold T = true) (m1 : MetaSlab (ATree d)) (A B : List (ATree d))
    (child' : ATree d) (k : Nat) (c : Ctx) (hb : Book m1) (hch : m1.children = A ++ child' :: B)
    (hk : A.length = k) (hA : ∀ t ∈ A, TreeInv T d false t) (hB : ∀ t ∈ B, TreeInv T d false t)
    (hs : Shape T d false child') (hlo : maxThr T < (hdr d child').size)
    (hhi : (hdr d child').size ≤ maxThr T + maxInlineArr T + 16) :
    ∃ m2 c2, m1.splitChildSlab child' k c = .ok (m2, c2) ∧ c2.ctr = c.ctr + 1 ∧
      Tail T d m1 m2 c.ctr c2.ctr ∧ m2.children.length = m1.children.length + 1 := by
  obtain ⟨l, r, c', hsp, hc', hl, hr, hflat, hid, hcnt, hrepl⟩ := split_ok hT d child' c hs hlo hhi
  obtain ⟨m2, c2, heq, hc2, hbook, hch2, h1, h2, h3, h4⟩ :=
    splitChildSlab_spec m1 A B child' l r k c c' hb hch hk hsp hcnt
  refine ⟨m2, c2, heq, by omega, ?_, by rw [hch, hch2]; simp; omega⟩
  have hrepl' : Repl d [child'] [l, r] c.ctr c2.ctr := by rw [hc2]; exact hrepl
  refine Tail.of_local (X := [child']) (X' := [l, r]) (by simp [hch]) (by simp [hch2]) hA hB ?_ ?_ ?_
    hrepl' hbook h1 h2 h4 ?_ (by simp) (by simp)
  · intro t ht
    simp only [List.mem_cons, List.not_mem_nil, or_false] at ht
    rcases ht with rfl | rfl
    · exact hl
    · exact hr
  · simpa using hflat
  · simp only [List.map_cons, List.map_nil, sumCounts_cons, sumCounts_nil]; omega
  · simp only [h3, arraySlabHeaderSize, List.length_cons, List.length_nil]

/-- repair by rebalancing with a sibling that can lend -/
theorem tail_rebal (m1 : MetaSlab (ATree d)) (P Q : List (ATree d)) (l r : ATree d)
    (li ri : Nat) (flag : Bool) (c : Ctx) (hb : Book m1) (hch : m1.children = P ++ l :: r :: Q)
    (hli : P.length = li) (hri : ri = li + 1)
    (hP : ∀ t ∈ P, TreeInv T d false t) (hQ : ∀ t ∈ Q, TreeInv T d false t)
    (hok : RebalOk T d l r
      (if flag = true then ATree.borrowFromRight T d l r else ATree.lendToRight T d l r).1
      (if flag = true then ATree.borrowFromRight T d l r else ATree.lendToRight T d l r).2 c.ctr) :
    (rebalanceChildren T m1 l r li ri flag c).2.ctr = c.ctr ∧
      Tail T d m1 (rebalanceChildren T m1 l r li ri flag c).1 c.ctr c.ctr ∧
      (rebalanceChildren T m1 l r li ri flag c).1.children.length ≤ m1.children.length := by
  obtain ⟨h1, hbook, hch2, h3, h4⟩ :=
    rebalanceChildren_spec (T := T) m1 P Q l r
      (if flag = true then ATree.borrowFromRight T d l r else ATree.lendToRight T d l r).1
      (if flag = true then ATree.borrowFromRight T d l r else ATree.lendToRight T d l r).2
      li ri flag c hb hch hli hri rfl hok.counts
  refine ⟨h1, ?_, by rw [hch, hch2]; simp⟩
  refine Tail.of_local (X := [l, r]) (X' := [_, _]) (by simp [hch]) (by simp [hch2]) hP hQ ?_ ?_ ?_
    hok.repl hbook (by rw [h3]) (by rw [h3]) h4 (by simp [h3]) (by simp) (by simp)
  · intro t ht
    simp only [List.mem_cons, List.not_mem_nil, or_false] at ht
    rcases ht with rfl | rfl
    · exact hok.invl
    · exact hok.invr
  · simpa using hok.flat
  · simp only [List.map_cons, List.map_nil, sumCounts_cons, sumCounts_nil]
    have := hok.counts; omega

/-- repair by merging with a sibling -/
theorem tail_merge (m1 : MetaSlab (ATree d)) (P Q : List (ATree d))
    (l r : ATree d) (li ri : Nat) (c : Ctx) (hb : Book m1) (hch : m1.children = P ++ l :: r :: Q)
    (hli : P.length = li) (hri : ri = li + 1)
    (hP : ∀ t ∈ P, TreeInv T d false t) (hQ : ∀ t ∈ Q, TreeInv T d false t)
    (hl : Shape T d false l) (hr : Shape T d false r)
    (haddr : (hdr d r).id.addr = (hdr d l).id.addr)
    (hlo : minThr T + pfx d ≤ (hdr d l).size + (hdr d r).size)
    (hhi : (hdr d l).size + (hdr d r).size ≤ maxThr T + pfx d)
    (hsz : arraySlabHeaderSize ≤ m1.hdr.size) :
    (mergeChildren m1 l r li ri c).2.ctr = c.ctr ∧
      Tail T d m1 (mergeChildren m1 l r li ri c).1 c.ctr c.ctr ∧
      (mergeChildren m1 l r li ri c).1.children.length ≤ m1.children.length := by
  obtain ⟨a1, a2, a3, a4, a5, a6⟩ := merge_ok (T := T) c.ctr d l r hl hr haddr
  obtain ⟨h1, hbook, hch2, h3, h4, h5, h6⟩ :=
    mergeChildren_spec m1 P Q l r li ri c hb hch hli hri a4
  refine ⟨h1, ?_, by rw [hch, hch2]; simp⟩
  refine Tail.of_local (X := [l, r]) (X' := [ATree.merge d l r]) (by simp [hch]) (by simp [hch2])
    hP hQ ?_ ?_ ?_ a6 hbook h3 h4 h6 ?_ (by simp) (by simp)
  · intro t ht
    simp only [List.mem_singleton] at ht
    rw [ht, treeInv_false_iff]
    exact ⟨a1, by omega, by omega⟩
  · simpa using a2
  · simp only [List.map_cons, List.map_nil, sumCounts_cons, sumCounts_nil]; omega
  · simp only [h5, arraySlabHeaderSize, List.length_cons, List.length_nil] at hsz ⊢; omega

end Atree
