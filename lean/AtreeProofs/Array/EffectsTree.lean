import AtreeProofs.Array.EffectsSteps
/-
  Effect-log accounting (C09), tree layer: the log appended by `ATree.insert / set / remove` on an
  arbitrary subtree is a complete account of how the slabs of the subtree changed
  (`insert_acct`, `set_acct`, `remove_acct`), by induction on the depth.  The execution path is
  recovered from the successful run (`*_succ_inv`); the invariants along the path come from the
  existing `insert_gen / set_gen / remove_gen`.
-/
namespace Atree
open Gen ATree MetaSlab
variable {T d : Nat}

/-! ### reading the path off a successful run -/

theorem bind_eq_ok {α β : Type} {x : Except AErr α} {f : α → Except AErr β} {b : β}
    (h : (x >>= f) = .ok b) : ∃ a, x = .ok a ∧ f a = .ok b := by
  cases x with
  | error e => cases h
  | ok a => exact ⟨a, rfl, h⟩

theorem insert_succ_inv (m : MetaSlab (ATree d)) (i : Nat) (v : Elem) (c : Ctx) (t' : ATree (d + 1)) (c' : Ctx)
    (hr : ATree.insert T (d + 1) (ofMeta m) i v c = .ok (t', c')) :
    ∃ k adj child child' c1, m.children[k]? = some child ∧
      ATree.insert T d child adj v c = .ok (child', c1) ∧
      ((∃ m2, (insM1 m k child').splitChildSlab child' k c1 = .ok (m2, c') ∧ t' = ofMeta m2) ∨
       (t' = ofMeta (insM1 m k child') ∧ c' = c1.emit (.store m.hdr.id))) := by
  unfold ofMeta at hr
  rw [ATree.insert] at hr
  split at hr
  · cases hr
  · extract_lets src jp at hr
    have key : ∀ p : Nat × Nat, jp p = .ok (t', c') →
        ∃ k adj child child' c1, m.children[k]? = some child ∧
      ATree.insert T d child adj v c = .ok (child', c1) ∧
      ((∃ m2, (insM1 m k child').splitChildSlab child' k c1 = .ok (m2, c') ∧ t' = ofMeta m2) ∨
       (t' = ofMeta (insM1 m k child') ∧ c' = c1.emit (.store m.hdr.id))) := by
      rintro ⟨k, adj⟩ hr
      simp only [jp, src] at hr
      split at hr
      · cases hr
      · rename_i child hchild
        obtain ⟨⟨child', c1⟩, hins, hr⟩ := bind_eq_ok hr
        simp only at hr
        refine ⟨k, adj, child, child', c1, hchild, hins, ?_⟩
        by_cases hf : ATree.isFull T d child' = true
        · left
          simp only [hf] at hr
          exact ⟨_, hr, rfl⟩
        · right
          simp only [hf] at hr
          cases hr
          exact ⟨rfl, rfl⟩
    clear_value jp src
    split at hr
    · split at hr
      · obtain ⟨p, _, hr⟩ := bind_eq_ok hr
        exact key p hr
      · cases hr
    · obtain ⟨p, _, hr⟩ := bind_eq_ok hr
      exact key p hr
theorem afterSet_inv (m1 m2 : MetaSlab (ATree d)) (child' : ATree d) (k : Nat) (c c2 : Ctx)
    (h : afterSet T m1 child' k c = .ok (m2, c2)) :
    m1.splitChildSlab child' k c = .ok (m2, c2) ∨
    (∃ u, m1.mergeOrRebalanceChildSlab T child' k u c = .ok (m2, c2)) ∨
    (m2 = m1 ∧ c2 = c.emit (.store m1.hdr.id)) := by
  unfold afterSet at h
  split at h
  · exact Or.inl h
  · split at h
    · exact Or.inr (Or.inl ⟨_, h⟩)
    · cases h; exact Or.inr (Or.inr ⟨rfl, rfl⟩)

theorem set_succ_inv (m : MetaSlab (ATree d)) (i : Nat) (v : Elem) (c : Ctx) (old : Elem)
    (t' : ATree (d + 1)) (c' : Ctx)
    (hr : ATree.set T (d + 1) (ofMeta m) i v c = .ok (old, t', c')) :
    ∃ k adj child child' c1 m2, m.children[k]? = some child ∧
      ATree.set T d child adj v c = .ok (old, child', c1) ∧
      afterSet T (setM1 m k child') child' k c1 = .ok (m2, c') ∧ t' = ofMeta m2 := by
  unfold ofMeta at hr
  rw [ATree.set] at hr
  obtain ⟨⟨k, adj⟩, hroute, hr⟩ := bind_eq_ok hr
  simp only at hr
  split at hr
  · cases hr
  · rename_i child hchild
    obtain ⟨⟨old', child', c1⟩, hset, hr⟩ := bind_eq_ok hr
    simp only at hr
    obtain ⟨⟨m2, c2⟩, haft, hr⟩ := bind_eq_ok hr
    cases hr
    exact ⟨k, adj, child, child', c1, m2, hchild, hset, haft, rfl⟩

theorem remove_succ_inv (m : MetaSlab (ATree d)) (i : Nat) (c : Ctx) (old : Elem)
    (t' : ATree (d + 1)) (c' : Ctx)
    (hr : ATree.remove T (d + 1) (ofMeta m) i c = .ok (old, t', c')) :
    ∃ k adj child child' c1 m2 c2, m.children[k]? = some child ∧
      ATree.remove T d child adj c = .ok (old, child', c1) ∧
      ((∃ u, (remM1 m k child').mergeOrRebalanceChildSlab T child' k u c1 = .ok (m2, c2)) ∨
        (m2 = remM1 m k child' ∧ c2 = c1)) ∧
      t' = ofMeta m2 ∧ c' = c2.emit (.store m2.hdr.id) := by
  unfold ofMeta at hr
  rw [ATree.remove] at hr
  split at hr
  · cases hr
  · obtain ⟨⟨k, adj⟩, hroute, hr⟩ := bind_eq_ok hr
    simp only at hr
    split at hr
    · cases hr
    · rename_i child hchild
      obtain ⟨⟨old', child', c1⟩, hrem, hr⟩ := bind_eq_ok hr
      simp only at hr
      split at hr
      · obtain ⟨⟨m2, c2⟩, htail, hr⟩ := bind_eq_ok hr
        cases hr
        exact ⟨k, adj, child, child', c1, m2, c2, hchild, hrem, Or.inl ⟨_, htail⟩, rfl, rfl⟩
      · obtain ⟨⟨m2, c2⟩, htail, hr⟩ := bind_eq_ok hr
        cases hr
        cases htail
        exact ⟨k, adj, child, child', c1, _, _, hchild, hrem, Or.inr ⟨rfl, rfl⟩, rfl, rfl⟩
/-! ### data slabs -/

theorem toStorable_log (T addr : Nat) (v : Elem) (c : Ctx) :
    ∃ E C, Log c (toStorable T addr v c).2 E C ∧ (∀ e ∈ E, ∀ i, e ≠ Eff.remove i) ∧
      (∀ id, Eff.store id ∈ E ↔ id ∈ C.map (·.1)) ∧ ∀ id ∈ C.map (·.1), c.ctr < id.idx := by
  unfold toStorable
  split
  · exact ⟨[], [], Log.refl c, by simp, by simp, by simp⟩
  · split
    · refine ⟨[.alloc addr ⟨addr, c.ctr + 1⟩, .store ⟨addr, c.ctr + 1⟩], [(⟨addr, c.ctr + 1⟩, v)],
        ⟨?_, ?_, ?_, ?_⟩, by simp, ?_, by simp⟩
      · simp [Ctx.emit, Ctx.alloc]
      · simp [Ctx.alloc]
      · simp [Ctx.alloc]
      · intro a id h
        simp only [List.mem_cons, Eff.alloc.injEq, reduceCtorEq, List.not_mem_nil, or_false] at h
        obtain ⟨_, rfl⟩ := h
        simp [Ctx.emit, Ctx.alloc]
      · intro id; simp
    · exact ⟨[], [], Log.refl c, by simp, by simp, by simp⟩

/-- a data slab rewritten in place after `toStorable` -/
theorem leaf_acct {c c1 : Ctx} {E : List Eff} {C : List (SlabID × Elem)} (s s' : DataSlab)
    (hid : s'.hdr.id = s.hdr.id) (hlog : Log c c1 E C) (hno : ∀ e ∈ E, ∀ i, e ≠ Eff.remove i)
    (hst : ∀ id, Eff.store id ∈ E ↔ id ∈ C.map (·.1)) (hfr : ∀ id ∈ C.map (·.1), c.ctr < id.idx) :
    Log c (c1.emit (.store s.hdr.id)) (E ++ [.store s.hdr.id]) C ∧
      Acct c.ctr (ATree.slabs 0 (ofData s)) (ATree.slabs 0 (ofData s')) (E ++ [.store s.hdr.id])
        (C.map (·.1)) := by
  refine ⟨by simpa using hlog.trans (Log.store c1 s.hdr.id), ?_⟩
  have hno' : ∀ e ∈ E ++ [Eff.store s.hdr.id], ∀ i, e ≠ Eff.remove i := by
    intro e he i
    rcases List.mem_append.1 he with h | h
    · exact hno e h i
    · simp only [List.mem_singleton] at h; subst h; simp
  have hla := fun id => lastAction_no_remove _ hno' id
  have hk : ∀ id, id ∈ AList.keys (ATree.slabs 0 (ofData s')) ↔ id = s.hdr.id := by
    intro id; simp [ATree.slabs, ofData, AList.keys, hid]
  have hk0 : ∀ id, id ∈ AList.keys (ATree.slabs 0 (ofData s)) ↔ id = s.hdr.id := by
    intro id; simp [ATree.slabs, ofData, AList.keys]
  refine ⟨?_, ?_, ?_, ?_, ?_, hfr⟩
  · intro p hp
    right
    have := (hk p.1).1 (mem_keys_of_mem hp)
    rw [(hla p.1).1, this]; simp
  · intro id h1 h2
    exact absurd ((hk id).2 ((hk0 id).1 h1)) h2
  · intro id h
    have := (hla id).1.1 h
    rcases List.mem_append.1 this with h1 | h1
    · exact Or.inr ((hst id).1 h1)
    · simp only [List.mem_singleton, Eff.store.injEq] at h1
      exact Or.inl ((hk id).2 h1)
  · intro id h; exact absurd h (hla id).2
  · intro id h
    cases hl : lastAction (E ++ [Eff.store s.hdr.id]) id with
    | none => exact absurd hl h
    | some b =>
      cases b with
      | false => exact absurd hl (hla id).2
      | true =>
        have := (hla id).1.1 hl
        rcases List.mem_append.1 this with h1 | h1
        · exact Or.inr (hfr id ((hst id).1 h1))
        · simp only [List.mem_singleton, Eff.store.injEq] at h1
          exact Or.inl ((hk0 id).2 h1)

theorem data_insert_acct (s s' : DataSlab) (i : Nat) (v : Elem) (c c' : Ctx) (hni : s.inlined = false)
    (h : s.insert T i v c = .ok (s', c')) :
    ∃ E C, Log c c' E C ∧
      Acct c.ctr (ATree.slabs 0 (ofData s)) (ATree.slabs 0 (ofData s')) E (C.map (·.1)) := by
  unfold DataSlab.insert at h
  split at h
  · cases h
  · simp only [Except.ok.injEq, Prod.mk.injEq] at h
    obtain ⟨hs', hc'⟩ := h
    have hid : s'.hdr.id = s.hdr.id := by rw [← hs']
    have hc'' : c' = (toStorable T s.hdr.id.addr v c).2.emit (.store s.hdr.id) := by
      rw [← hc']; simp [DataSlab.storeIfNotInlined, hni]
    obtain ⟨E, C, hlog, hno, hst, hfr⟩ := toStorable_log T s.hdr.id.addr v c
    rw [hc'']
    exact ⟨E ++ [.store s.hdr.id], C, leaf_acct s s' hid hlog hno hst hfr⟩

theorem data_set_acct (s s' : DataSlab) (i : Nat) (v old : Elem) (c c' : Ctx) (hni : s.inlined = false)
    (h : s.set T i v c = .ok (old, s', c')) :
    ∃ E C, Log c c' E C ∧
      Acct c.ctr (ATree.slabs 0 (ofData s)) (ATree.slabs 0 (ofData s')) E (C.map (·.1)) := by
  unfold DataSlab.set at h
  split at h
  · cases h
  · simp only [Except.ok.injEq, Prod.mk.injEq] at h
    obtain ⟨_, hs', hc'⟩ := h
    have hid : s'.hdr.id = s.hdr.id := by rw [← hs']
    have hc'' : c' = (toStorable T s.hdr.id.addr v c).2.emit (.store s.hdr.id) := by
      rw [← hc']; simp [DataSlab.storeIfNotInlined, hni]
    obtain ⟨E, C, hlog, hno, hst, hfr⟩ := toStorable_log T s.hdr.id.addr v c
    rw [hc'']
    exact ⟨E ++ [.store s.hdr.id], C, leaf_acct s s' hid hlog hno hst hfr⟩

theorem data_remove_acct (s s' : DataSlab) (i : Nat) (old : Elem) (c c' : Ctx) (hni : s.inlined = false)
    (h : s.remove i c = .ok (old, s', c')) :
    ∃ E C, Log c c' E C ∧
      Acct c.ctr (ATree.slabs 0 (ofData s)) (ATree.slabs 0 (ofData s')) E (C.map (·.1)) := by
  unfold DataSlab.remove at h
  split at h
  · cases h
  · simp only [Except.ok.injEq, Prod.mk.injEq] at h
    obtain ⟨_, hs', hc'⟩ := h
    have hid : s'.hdr.id = s.hdr.id := by rw [← hs']
    have hc'' : c' = c.emit (.store s.hdr.id) := by
      rw [← hc']; simp [DataSlab.storeIfNotInlined, hni]
    rw [hc'']
    exact ⟨[] ++ [.store s.hdr.id], [],
      leaf_acct s s' hid (Log.refl c) (by simp) (by simp) (by simp)⟩

/-! ### one level up -/

/-- IDs of the parent right after the child at position `A.length` was replaced -/
theorem ids_after_child {m m1 : MetaSlab (ATree d)} {A B : List (ATree d)} {child child' : ATree d}
    {c c1 addr : Nat}
    (hch : m.children = A ++ child :: B) (hch1 : m1.children = A ++ child' :: B)
    (hid : m1.hdr.id = m.hdr.id) (hrepl : Repl d [child] [child'] c c1)
    (hids : IdsOk addr c (slabIds (d + 1) (ofMeta m))) :
    IdsOk addr c1 (slabIds (d + 1) (ofMeta m1)) := by
  have h1 : Repl d m.children m1.children c c1 := by
    have := hrepl.ctx A B
    simpa [hch, hch1] using this
  exact repl_single_ids (h1.lift hid) addr hids

/-- the IDs of a child are among the IDs of the parent -/
theorem ids_child {m : MetaSlab (ATree d)} {A B : List (ATree d)} {child : ATree d} {c addr : Nat}
    (hch : m.children = A ++ child :: B) (hids : IdsOk addr c (slabIds (d + 1) (ofMeta m))) :
    IdsOk addr c (slabIds d child) := by
  rw [slabIds_succ, hch] at hids
  have h1 : m.hdr.id :: (A ++ child :: B).flatMap (slabIds d)
      = ([m.hdr.id] ++ A.flatMap (slabIds d)) ++ slabIds d child ++ B.flatMap (slabIds d) := by
    simp [List.flatMap_append]
  rw [h1] at hids
  exact hids.sub_append_left.sub_append_right

/-- child step followed by the parent's repair step -/
theorem parent_acct {m m2 : MetaSlab (ATree d)} {A B : List (ATree d)} {child child' : ATree d}
    {c c1 c2 : Ctx} {E1 E2 : List Eff} {C1 : List (SlabID × Elem)} {addr : Nat}
    (hch : m.children = A ++ child :: B)
    (hids : IdsOk addr c.ctr (slabIds (d + 1) (ofMeta m)))
    (hlog1 : Log c c1 E1 C1)
    (hchild : Acct c.ctr (ATree.slabs d child) (ATree.slabs d child') E1 (C1.map (·.1)))
    (hlog2 : Log c1 c2 E2 [])
    (htail : Acct c1.ctr ((m.hdr.id, ent (d + 1) (ofMeta m)) :: (A ++ child' :: B).flatMap (ATree.slabs d))
      (ATree.slabs (d + 1) (ofMeta m2)) E2 []) :
    Log c c2 (E1 ++ E2) C1 ∧
      Acct c.ctr (ATree.slabs (d + 1) (ofMeta m)) (ATree.slabs (d + 1) (ofMeta m2)) (E1 ++ E2)
        (C1.map (·.1)) := by
  refine ⟨by simpa using hlog1.trans hlog2, ?_⟩
  have hkeys : AList.keys (ATree.slabs (d + 1) (ofMeta m)) = slabIds (d + 1) (ofMeta m) := keys_slabs _ _
  have hframe : Acct c.ctr (ATree.slabs (d + 1) (ofMeta m))
      ((m.hdr.id, ent (d + 1) (ofMeta m)) :: (A ++ child' :: B).flatMap (ATree.slabs d)) E1 (C1.map (·.1)) := by
    refine hchild.frame (F := (m.hdr.id, ent (d + 1) (ofMeta m)) ::
      (A.flatMap (ATree.slabs d) ++ B.flatMap (ATree.slabs d))) ?_ ?_ ?_
    · intro id hid
      rw [keys_cons', keys_append, keys_flatMap_slabs, keys_flatMap_slabs] at hid
      rw [keys_slabs]
      have hnd := hids.1
      rw [slabIds_succ, hch] at hnd
      have hperm : (m.hdr.id :: (A ++ child :: B).flatMap (slabIds d)).Perm
          (slabIds d child ++ (m.hdr.id :: (A.flatMap (slabIds d) ++ B.flatMap (slabIds d)))) := by
        simp only [List.flatMap_append, List.flatMap_cons]
        refine List.Perm.trans ?_ List.perm_middle.symm
        refine List.Perm.cons _ ?_
        rw [← List.append_assoc, ← List.append_assoc]
        exact List.Perm.append_right _ List.perm_append_comm
      have hnd' := hperm.nodup_iff.1 hnd
      refine ⟨fun hin => (List.nodup_append.1 hnd').2.2 id hin id hid rfl, ?_⟩
      refine (hids.2 id ?_).2.2
      rw [slabIds_succ, hch]
      exact hperm.mem_iff.2 (List.mem_append.2 (Or.inr hid))
    · intro p
      rw [slabs_eq (d + 1), hdr_succ, sub_succ, hch]
      simp only [List.flatMap_append, List.flatMap_cons, List.mem_cons, List.mem_append]
      constructor
      · rintro (h | h | h | h)
        · exact Or.inr (Or.inl h)
        · exact Or.inr (Or.inr (Or.inl h))
        · exact Or.inl h
        · exact Or.inr (Or.inr (Or.inr h))
      · rintro (h | h | h | h)
        · exact Or.inr (Or.inr (Or.inl h))
        · exact Or.inl h
        · exact Or.inr (Or.inl h)
        · exact Or.inr (Or.inr (Or.inr h))
    · intro p
      simp only [List.flatMap_append, List.flatMap_cons, List.mem_cons, List.mem_append]
      constructor
      · rintro (h | h | h | h)
        · exact Or.inr (Or.inl h)
        · exact Or.inr (Or.inr (Or.inl h))
        · exact Or.inl h
        · exact Or.inr (Or.inr (Or.inr h))
      · rintro (h | h | h | h)
        · exact Or.inr (Or.inr (Or.inl h))
        · exact Or.inl h
        · exact Or.inr (Or.inl h)
        · exact Or.inr (Or.inr (Or.inr h))
  have := hframe.trans htail hlog1.ctr_le (by
    intro id hid
    rw [hkeys] at hid
    exact (hids.2 id hid).2.2)
  simpa using this

/-! ### insert -/

theorem insert_acct (hT : legalThreshold T = true) :
    ∀ (d : Nat) (t : ATree d) (top : Bool) (i : Nat) (v : Elem) (c : Ctx) (addr : Nat)
      (t' : ATree d) (c' : Ctx),
    TreeInv T d top t → NotInl d t → ValueOk v → IdsOk addr c.ctr (slabIds d t) →
    ATree.insert T d t i v c = .ok (t', c') →
    ∃ E C, Log c c' E C ∧ Acct c.ctr (ATree.slabs d t) (ATree.slabs d t') E (C.map (·.1))
  | 0, t, top, i, v, c, addr, t', c' => by
    refine forall_ofData ?_ t; intro s _ hni _ _ hr
    exact data_insert_acct s t' i v c c' hni hr
  | d + 1, t, top, i, v, c, addr, t', c' => by
    refine forall_ofMeta ?_ t; intro m hinv _ hv hids hr
    obtain ⟨hs, _, _, _⟩ := (treeInv_succ T d top m).1 hinv
    obtain ⟨k, adj, child, child', c1, hchild, hins, htl⟩ := insert_succ_inv m i v c t' c' hr
    obtain ⟨A, B, hch, hk⟩ := split_at_getElem? hchild
    have hc : TreeInv T d false child := hs.kids_inv child (by rw [hch]; simp)
    have hadj : adj ≤ (flatten d child).length := by
      rcases Nat.lt_or_ge (flatten d child).length adj with h | h
      · rw [insert_err_gen d child false adj v c hc.shape_false h] at hins; cases hins
      · exact h
    obtain ⟨child'', c1', hins', hstep, _⟩ :=
      insert_gen hT d child false adj v c hc hc.notInl_of_false hv hadj
    rw [hins] at hins'
    simp only [Except.ok.injEq, Prod.mk.injEq] at hins'
    obtain ⟨rfl, rfl⟩ := hins'
    obtain ⟨E1, C1, hlog1, hacct1⟩ := insert_acct hT d child false adj v c addr child' c1 hc
      hc.notInl_of_false hv (ids_child hch hids) hins
    have hch1 : (insM1 m k child').children = A ++ child' :: B := by
      show m.children.set k child' = _
      rw [hch, set_mid hk]
    have ids1 := ids_after_child (m1 := insM1 m k child') hch hch1 rfl hstep.repl hids
    rw [slabIds_succ] at ids1
    have hnd := ids1.1
    have hle : ∀ id ∈ (insM1 m k child').hdr.id :: (insM1 m k child').children.flatMap (slabIds d),
        id.idx ≤ c1.ctr := fun id h => (ids1.2 id h).2.2
    rcases htl with ⟨m2, hsp, rfl⟩ | ⟨rfl, rfl⟩
    · obtain ⟨E2, hlog2, hacct2⟩ := tail_split_acct (e := ent (d + 1) (ofMeta m)) hch1 hk hsp hnd hle
      rw [hch1] at hacct2
      obtain ⟨h1, h2⟩ := parent_acct hch hids hlog1 hacct1 hlog2 hacct2
      exact ⟨_, _, h1, h2⟩
    · have hacct2 := tail_plain_acct (m1 := insM1 m k child') (m2 := insM1 m k child')
        (e := ent (d + 1) (ofMeta m)) rfl rfl hnd hle
      rw [hch1] at hacct2
      obtain ⟨h1, h2⟩ := parent_acct hch hids hlog1 hacct1 (Log.store c1 m.hdr.id) hacct2
      exact ⟨_, _, h1, h2⟩


/-- storing once more a slab that is in the tree -/
theorem Acct.then_store {c : Nat} {S S' : List (SlabID × ASlab)} {E : List Eff} {cr : List SlabID}
    (h : Acct c S S' E cr) (id : SlabID) (hid : id ∈ AList.keys S')
    (hS : ∀ id ∈ AList.keys S, id.idx ≤ c) : Acct c S S' (E ++ [.store id]) cr := by
  have h2 : Acct c S' S' [.store id] [] := by
    refine ⟨fun _ h => Or.inl h, fun _ h h' => absurd h h', ?_, ?_, ?_, by simp⟩
    · intro j hj
      rw [lastAction_single] at hj
      simp only [actStep] at hj
      split at hj
      · rename_i e; subst e; exact Or.inl hid
      · cases hj
    · intro j hj
      rw [lastAction_single] at hj
      simp only [actStep] at hj
      split at hj <;> cases hj
    · intro j hj
      rw [lastAction_single] at hj
      simp only [actStep] at hj
      split at hj
      · rename_i e; subst e; exact Or.inl hid
      · exact absurd rfl hj
  simpa using h.trans h2 (Nat.le_refl _) hS

/-! ### set -/

theorem set_acct (hT : legalThreshold T = true) :
    ∀ (d : Nat) (t : ATree d) (top : Bool) (i : Nat) (v : Elem) (c : Ctx) (addr : Nat) (old : Elem)
      (t' : ATree d) (c' : Ctx),
    TreeInv T d top t → NotInl d t → ValueOk v → IdsOk addr c.ctr (slabIds d t) →
    ATree.set T d t i v c = .ok (old, t', c') →
    ∃ E C, Log c c' E C ∧ Acct c.ctr (ATree.slabs d t) (ATree.slabs d t') E (C.map (·.1))
  | 0, t, top, i, v, c, addr, old, t', c' => by
    refine forall_ofData ?_ t; intro s _ hni _ _ hr
    exact data_set_acct s t' i v old c c' hni hr
  | d + 1, t, top, i, v, c, addr, old, t', c' => by
    refine forall_ofMeta ?_ t; intro m hinv _ hv hids hr
    obtain ⟨hs, _, _, _⟩ := (treeInv_succ T d top m).1 hinv
    obtain ⟨k, adj, child, child', c1, m2, hchild, hset, haft, rfl⟩ := set_succ_inv m i v c old t' c' hr
    obtain ⟨A, B, hch, hk⟩ := split_at_getElem? hchild
    have hc : TreeInv T d false child := hs.kids_inv child (by rw [hch]; simp)
    have hadj : adj < (flatten d child).length := by
      rcases Nat.lt_or_ge adj (flatten d child).length with h | h
      · exact h
      · rw [set_err_gen d child false adj v c hc.shape_false h] at hset; cases hset
    obtain ⟨child'', c1', hset', hstep, _⟩ :=
      set_gen hT d child false adj v c hc hc.notInl_of_false hv hadj
    rw [hset] at hset'
    simp only [Except.ok.injEq, Prod.mk.injEq] at hset'
    obtain ⟨_, rfl, rfl⟩ := hset'
    obtain ⟨E1, C1, hlog1, hacct1⟩ := set_acct hT d child false adj v c addr old child' c1 hc
      hc.notInl_of_false hv (ids_child hch hids) hset
    have hch1 : (setM1 m k child').children = A ++ child' :: B := by
      rw [setM1_children, hch, set_mid hk]
    have ids1 := ids_after_child (m1 := setM1 m k child') hch hch1 rfl hstep.repl hids
    rw [slabIds_succ] at ids1
    have hnd := ids1.1
    have hle : ∀ id ∈ (setM1 m k child').hdr.id :: (setM1 m k child').children.flatMap (slabIds d),
        id.idx ≤ c1.ctr := fun id h => (ids1.2 id h).2.2
    rcases afterSet_inv _ _ _ _ _ _ haft with hsp | ⟨u, hmr⟩ | ⟨rfl, rfl⟩
    · obtain ⟨E2, hlog2, hacct2⟩ := tail_split_acct (e := ent (d + 1) (ofMeta m)) hch1 hk hsp hnd hle
      rw [hch1] at hacct2
      obtain ⟨h1, h2⟩ := parent_acct hch hids hlog1 hacct1 hlog2 hacct2
      exact ⟨_, _, h1, h2⟩
    · obtain ⟨E2, hlog2, hacct2⟩ := tail_mor_acct (e := ent (d + 1) (ofMeta m)) hch1 hk hmr hnd hle
      rw [hch1] at hacct2
      obtain ⟨h1, h2⟩ := parent_acct hch hids hlog1 hacct1 hlog2 hacct2
      exact ⟨_, _, h1, h2⟩
    · have hacct2 := tail_plain_acct (m1 := setM1 m k child') (m2 := setM1 m k child')
        (e := ent (d + 1) (ofMeta m)) rfl rfl hnd hle
      rw [hch1] at hacct2
      obtain ⟨h1, h2⟩ := parent_acct hch hids hlog1 hacct1 (Log.store c1 m.hdr.id) hacct2
      exact ⟨_, _, h1, h2⟩

/-! ### remove -/

theorem remove_acct (hT : legalThreshold T = true) :
    ∀ (d : Nat) (t : ATree d) (top : Bool) (i : Nat) (c : Ctx) (addr : Nat) (old : Elem)
      (t' : ATree d) (c' : Ctx),
    TreeInv T d top t → NotInl d t → IdsOk addr c.ctr (slabIds d t) →
    ATree.remove T d t i c = .ok (old, t', c') →
    ∃ E C, Log c c' E C ∧ Acct c.ctr (ATree.slabs d t) (ATree.slabs d t') E (C.map (·.1))
  | 0, t, top, i, c, addr, old, t', c' => by
    refine forall_ofData ?_ t; intro s _ hni _ hr
    exact data_remove_acct s t' i old c c' hni hr
  | d + 1, t, top, i, c, addr, old, t', c' => by
    refine forall_ofMeta ?_ t; intro m hinv _ hids hr
    obtain ⟨hs, _, _, _⟩ := (treeInv_succ T d top m).1 hinv
    obtain ⟨k, adj, child, child', c1, m2, c2, hchild, hrem, htl, ht', hc'⟩ :=
      remove_succ_inv m i c old t' c' hr
    rw [ht', hc']
    clear ht' hc' hr
    obtain ⟨A, B, hch, hk⟩ := split_at_getElem? hchild
    have hc : TreeInv T d false child := hs.kids_inv child (by rw [hch]; simp)
    have hadj : adj < (flatten d child).length := by
      rcases Nat.lt_or_ge adj (flatten d child).length with h | h
      · exact h
      · rw [remove_err_gen d child false adj c hc.shape_false h] at hrem; cases hrem
    obtain ⟨child'', c1', hrem', hstep, _⟩ :=
      remove_gen hT d child false adj c hc hc.notInl_of_false hadj
    rw [hrem] at hrem'
    simp only [Except.ok.injEq, Prod.mk.injEq] at hrem'
    obtain ⟨_, rfl, rfl⟩ := hrem'
    obtain ⟨E1, C1, hlog1, hacct1⟩ := remove_acct hT d child false adj c addr old child' c1 hc
      hc.notInl_of_false (ids_child hch hids) hrem
    have hch1 : (remM1 m k child').children = A ++ child' :: B := by
      rw [remM1_children, hch, set_mid hk]
    have ids1 := ids_after_child (m1 := remM1 m k child') hch hch1 rfl hstep.repl hids
    rw [slabIds_succ] at ids1
    have hnd := ids1.1
    have hle : ∀ id ∈ (remM1 m k child').hdr.id :: (remM1 m k child').children.flatMap (slabIds d),
        id.idx ≤ c1.ctr := fun id h => (ids1.2 id h).2.2
    rcases htl with ⟨u, hmr⟩ | ⟨hm2, hc2⟩
    · obtain ⟨E2, hlog2, hacct2⟩ := tail_mor_acct (e := ent (d + 1) (ofMeta m)) hch1 hk hmr hnd hle
      rw [hch1] at hacct2
      obtain ⟨h1, h2⟩ := parent_acct hch hids hlog1 hacct1 hlog2 hacct2
      refine ⟨E1 ++ E2 ++ [.store m2.hdr.id], C1, by simpa using h1.trans (Log.store c2 m2.hdr.id), ?_⟩
      refine h2.then_store m2.hdr.id ?_ ?_
      · rw [keys_slabs, slabIds_succ]; simp
      · intro id hid
        rw [keys_slabs] at hid
        exact (hids.2 id hid).2.2
    · rw [hm2, hc2]
      have hacct2 := tail_plain_acct (m1 := remM1 m k child') (m2 := remM1 m k child')
        (e := ent (d + 1) (ofMeta m)) rfl rfl hnd hle
      rw [hch1] at hacct2
      obtain ⟨h1, h2⟩ := parent_acct hch hids hlog1 hacct1 (Log.store c1 m.hdr.id) hacct2
      exact ⟨_, _, h1, h2⟩

end Atree
